import SCModel.Lemmas.Fill7b
import Mathlib.Data.Int.Order.Basic
/-!
# C07b — laws of fillna / mask / where / isna / notna / clip

Object equalities are proved through `f7b_ext` (canonical objects with the same closed side, the same initial
value and the same right limits are equal), which holds over EVERY linear order — no `NoMinOrder` / `Nonempty`.
When the operands' closed sides may differ only `identical` (same initial value, same rows) can hold in general;
the `…_same` variants give full object equality, error cases included, for operands closed on the same side.

1. idempotence: `fillna_scalar_scalar`, `fillna_scalar_idem` (needs a defined scalar: `fillna_scalar_idem_needs_defined`),
   `ffill_idem` (all inputs), `bfill_idem`, `mask_idem`, `where_idem`, `fillna_stairs_idem`, `clip_idem_ok`.
2. round trips: `fillna_mask_self`, `fillna_mask_where` (+ refutation of the unconditional form),
   `mask_fillna_isna`, `where_notna_self`, `mask_isna_self`, `isna_eq_invert_notna`, `isna_add_notna`,
   `isna_notna_defined`.
3. ffill / bfill: `ffill_undefined_iff`, `bfill_undefined_iff`, `bfill_ffill_defined_iff`, `fillna_ffill`,
   `fill_enlarges`, `restrict_shrinks`.
4. composition: `mask_mask_or`, `where_where_and`, `mask_mask_comm`, `where_where_comm` (+ `_same` variants,
   + refutations of the naive Except-level laws for operands closed on different sides).
5. fillna with a step function: `fillna_stairs_const`, `fillna_stairs_assoc`, `fillna_stairs_self`.
-/
set_option linter.unusedSectionVars false
namespace SC.Props.C07b
open SC SC.Stairs
variable {P : Type} [LinearOrder P]

/-! ## Helpers: the laws at one point -/
section Helpers

theorem f7b_mask_idem_val (a m : Val) : maskOp (maskOp a m) m = maskOp a m := by
  unfold maskOp; split <;> rfl
theorem f7b_where_idem_val (a m : Val) : whereOp (whereOp a m) m = whereOp a m := by
  cases m with
  | none => rfl
  | some q => by_cases hq : q = 0 <;> simp [whereOp, hq]
theorem f7b_fill_mask_val (a m : Val) : fillOp (maskOp a m) a = a := by
  unfold maskOp; split
  · exact f7b_fillOp_self a
  · rfl
theorem f7b_fill_mask_where_val (a m : Val) :
    fillOp (maskOp a m) (whereOp a m) = if m = none then none else a := by
  cases m with
  | none => rfl
  | some q =>
    by_cases hq : q = 0
    · subst hq; simp [maskOp, whereOp, fillOp_none_right]
    · simp [maskOp, whereOp, hq, fillOp]
theorem f7b_mask_fill_isna_val (a v : Val) : maskOp (fillOp a v) (UnOp.isna.eval a) = a := by
  cases a <;> simp [maskOp, UnOp.eval, b2r, fillOp]
theorem f7b_where_notna_val (a : Val) : whereOp a (UnOp.notna.eval a) = a := by
  cases a <;> simp [whereOp, UnOp.eval, b2r]
theorem f7b_mask_isna_val (a : Val) : maskOp a (UnOp.isna.eval a) = a := by
  cases a <;> simp [maskOp, UnOp.eval, b2r]
theorem f7b_isna_invert_val (a : Val) : UnOp.invert.eval (UnOp.notna.eval a) = UnOp.isna.eval a := by
  cases a <;> simp [UnOp.eval, b2r, truth]
theorem f7b_notna_invert_val (a : Val) : UnOp.invert.eval (UnOp.isna.eval a) = UnOp.notna.eval a := by
  cases a <;> simp [UnOp.eval, b2r, truth]
theorem f7b_isna_add_notna_val (a : Val) : vadd (UnOp.isna.eval a) (UnOp.notna.eval a) = some 1 := by
  cases a <;> simp [UnOp.eval, b2r, vadd, vlift2, Rat.add_zero, Rat.zero_add]
theorem f7b_truth_zero (q : Rat) : truth q = false ↔ q = 0 := by simp [truth]
theorem f7b_mask_mask_or_val (a m n : Val) : maskOp (maskOp a m) n = maskOp a (vlogic .or m n) := by
  cases m with
  | none => cases n <;> simp [maskOp, vlogic]
  | some p =>
    cases n with
    | none => simp [maskOp, vlogic]
    | some q =>
      by_cases hp : p = 0 <;> by_cases hq : q = 0 <;> simp [maskOp, vlogic, Logic.eval, truth, b2r, hp, hq]
theorem f7b_where_where_and_val (a m n : Val) : whereOp (whereOp a m) n = whereOp a (vlogic .and m n) := by
  cases m with
  | none => cases n with
    | none => simp [whereOp, vlogic]
    | some q => by_cases hq : q = 0 <;> simp [whereOp, vlogic, hq]
  | some p =>
    cases n with
    | none => simp [whereOp, vlogic]
    | some q =>
      by_cases hp : p = 0 <;> by_cases hq : q = 0 <;> simp [whereOp, vlogic, Logic.eval, truth, b2r, hp, hq]
theorem f7b_mask_mask_comm_val (a m n : Val) : maskOp (maskOp a m) n = maskOp (maskOp a n) m := by
  unfold maskOp; split <;> split <;> rfl
theorem f7b_vand_comm (m n : Val) : vlogic .and m n = vlogic .and n m := by
  cases m <;> cases n <;> simp [vlogic, Logic.eval, Bool.and_comm]
theorem f7b_where_where_comm_val (a m n : Val) : whereOp (whereOp a m) n = whereOp (whereOp a n) m := by
  rw [f7b_where_where_and_val, f7b_where_where_and_val, f7b_vand_comm]

end Helpers

/-! non-vacuity inputs (leading, inner and trailing undefined pieces; maskers with undefined pieces) -/
def f₀ : Stairs Int := ⟨none, [(1, some 2), (3, none), (5, some 4), (7, none)], .left⟩
def g₀ : Stairs Int := ⟨some 0, [(2, some 1), (4, none), (6, some 0)], .left⟩
def h₀ : Stairs Int := ⟨none, [(0, some 0), (5, some 3), (8, some 0)], .left⟩
example : f₀.Canonical ∧ g₀.Canonical ∧ h₀.Canonical := by decide +kernel

/-! ## 1. idempotence -/

/-- **two scalar fills in a row** are one fill by "`v` if defined else `v'`" — for ALL inputs -/
theorem fillna_scalar_scalar (f : Stairs P) (v v' : Val) :
    fillnaScalar (fillnaScalar f v) v' = fillnaScalar f (fillOp v v') := by
  unfold fillnaScalar
  rw [f7b_map_map]
  exact f7b_map_congr _ _ (fun a => f7b_fillOp_assoc a v v') f

/-- **fillna(v) is idempotent / absorbs later scalar fills** when `v` is a defined scalar (ALL inputs) -/
theorem fillna_scalar_idem (f : Stairs P) (q : Rat) (v' : Val) :
    fillnaScalar (fillnaScalar f (some q)) v' = fillnaScalar f (some q) := by
  rw [fillna_scalar_scalar]; rfl

example : fillnaScalar (fillnaScalar f₀ (some 9)) (some 8) = fillnaScalar f₀ (some 9) ∧
    fillnaScalar f₀ (some 9) = ⟨some 9, [(1, some 2), (3, some 9), (5, some 4), (7, some 9)], .left⟩ := by
  decide +kernel

/-- with an undefined scalar the first fill does nothing, so a later fill is NOT absorbed -/
theorem fillna_scalar_idem_needs_defined :
    ¬ ∀ (f : Stairs Int) (v v' : Val), fillnaScalar (fillnaScalar f v) v' = fillnaScalar f v := by
  intro h
  exact absurd (h f₀ none (some 8)) (by decide +kernel)

/-- filling with the undefined scalar only canonicalises -/
theorem fillna_scalar_none (f : Stairs P) : fillnaScalar f none = f.canon := by
  unfold fillnaScalar map
  simp [fillOp_none_right]

/-- **ffill is idempotent** — for ALL inputs, well-formed or not -/
theorem ffill_idem (f : Stairs P) : ffill (ffill f) = ffill f := by
  unfold ffill canon
  simp only []
  congr 1
  rw [f7b_rr_ffill_rr _ f.init f.init (Or.inr rfl), f7b_ffillSteps_idem]

example : ffill (ffill f₀) = ffill f₀ ∧ ffill f₀ = ⟨none, [(1, some 2), (5, some 4)], .left⟩ := by decide +kernel

/-- **bfill is idempotent** -/
theorem bfill_idem (f : Stairs P) (hf : f.WF) : bfill (bfill f) = bfill f := by
  have hc := canonical_bfill f hf
  have hg := hc.1
  apply f7b_ext _ _ (canonical_bfill _ hg) hc rfl
  have hnone : ∀ st x, Den (bfill f) st x = none → Den (bfill (bfill f)) st x = none := by
    intro st x h0
    rw [f7b_den_bfill_none_iff _ hg]
    refine ⟨h0, fun y hy => ?_⟩
    obtain ⟨_, hall⟩ := (f7b_den_bfill_none_iff f hf st x).mp h0
    rw [f7b_den_bfill_none_iff f hf]
    refine ⟨hall y hy, fun z hz => hall z (f7b_unreached_trans hy ?_)⟩
    have : y < z := by simpa [reached] using hz
    exact le_of_lt this
  intro o
  cases o with
  | init =>
    show fillOp (bfill f).init (firstVal (bfillSteps (bfill f).steps)) = (bfill f).init
    rw [firstVal_bfillSteps]
    show fillOp (fillOp f.init (firstVal (bfillSteps f.steps)))
        (firstSome (removeRedundant (fillOp f.init (firstVal (bfillSteps f.steps))) (bfillSteps f.steps)))
      = fillOp f.init (firstVal (bfillSteps f.steps))
    rw [f7b_firstSome_removeRedundant, f7b_firstSome_bfillSteps, firstVal_bfillSteps, f7b_fillOp_idem_right]
  | «at» st x =>
    show Den (bfill (bfill f)) st x = Den (bfill f) st x
    cases hq : Den (bfill f) st x with
    | none => exact hnone st x hq
    | some q =>
      rw [den_bfill _ hg]; exact nextDefined_of_defined st _ _ x q hq

example : f₀.WF ∧ bfill (bfill f₀) = bfill f₀ ∧ bfill f₀ = ⟨some 2, [(3, some 4), (7, none)], .left⟩ := by
  decide +kernel

/-- **any two-operand operation whose value law is idempotent in the second operand is idempotent**:
feeding the result back with the same second operand returns it unchanged — error case included, and for
operands of any closed sides -/
theorem combineChecked_idem (op : Val → Val → Val) (hop : ∀ a m, op (op a m) m = op a m)
    (f g : Stairs P) (hf : f.WF) (hg : g.WF) :
    (combineChecked op f g >>= fun h => combineChecked op h g) = combineChecked op f g := by
  by_cases hm : Mismatch f g
  · rw [combineChecked_eq, if_pos hm]; rfl
  · rw [combineChecked_total op f g hm]
    show combineChecked op (combine op f g (sideOf f g)) g = _
    obtain ⟨hm', hs⟩ := f7b_sideOf_result f g (combine op f g (sideOf f g)) hm rfl
    have hk := canonical_combine op f g (sideOf f g) hf hg
    rw [combineChecked_total op _ g hm', hs]
    congr 1
    apply f7b_ext _ _ (canonical_combine op _ g _ hk.1 hg) hk rfl
    intro o
    rw [f7b_obs_combine op _ g _ hk.1 hg, f7b_obs_combine op f g _ hf hg, hop]

/-- **mask is idempotent**: `f.mask(g).mask(g) = f.mask(g)` (same error when the closed sides clash) -/
theorem mask_idem (f g : Stairs P) (hf : f.WF) (hg : g.WF) :
    (mask f g >>= fun h => mask h g) = mask f g :=
  combineChecked_idem maskOp f7b_mask_idem_val f g hf hg

/-- **where is idempotent** -/
theorem where_idem (f g : Stairs P) (hf : f.WF) (hg : g.WF) :
    (where_ f g >>= fun h => where_ h g) = where_ f g :=
  combineChecked_idem whereOp f7b_where_idem_val f g hf hg

/-- **fillna(g) is idempotent** -/
theorem fillna_stairs_idem (f g : Stairs P) (hf : f.WF) (hg : g.WF) :
    (fillnaStairs f g >>= fun h => fillnaStairs h g) = fillnaStairs f g :=
  combineChecked_idem fillOp f7b_fillOp_idem_right f g hf hg

/-- the `ok` forms -/
theorem mask_idem_ok (f g h : Stairs P) (hf : f.WF) (hg : g.WF) (hr : mask f g = .ok h) : mask h g = .ok h := by
  have := mask_idem f g hf hg; rw [hr] at this; exact this
theorem where_idem_ok (f g h : Stairs P) (hf : f.WF) (hg : g.WF) (hr : where_ f g = .ok h) :
    where_ h g = .ok h := by
  have := where_idem f g hf hg; rw [hr] at this; exact this

example : f₀.WF ∧ g₀.WF ∧ mask f₀ g₀ = .ok ⟨none, [(1, some 2), (2, none), (6, some 4), (7, none)], .left⟩ ∧
    (mask f₀ g₀ >>= fun h => mask h g₀) = mask f₀ g₀ ∧ (where_ f₀ g₀ >>= fun h => where_ h g₀) = where_ f₀ g₀ ∧
    where_ f₀ g₀ = .ok ⟨none, [(2, some 2), (3, none)], .left⟩ := by decide +kernel

/-- **clip is idempotent** (`ok` form, over any linear order; the Except form is `C20c.clip_idem`) -/
theorem clip_idem_ok (f r : Stairs P) (lo hi : Option P) (hf : f.WF) (hr : clip f lo hi = .ok r) :
    clip r lo hi = .ok r := by
  have hb : boundsOk lo hi = true := by
    by_contra hb
    rw [clip_error f lo hi (by simpa using hb)] at hr; cases hr
  obtain ⟨hc, hcl⟩ := canonical_clip f lo hi hf hb r hr
  rw [clip_ok r lo hi hb]
  congr 1
  apply f7b_ext _ _ (canonical_combine _ _ _ _ hc.1 (wf_indicator lo hi r.closed hb)) hc rfl
  intro o
  have h2 := f7b_obs_clip r _ lo hi hc.1 hb (clip_ok r lo hi hb) o
  rw [h2, f7b_obs_clip f r lo hi hf hb hr o]
  cases f7bInWin lo hi o <;> rfl

example : clip f₀ (some 2) (some 6) = .ok ⟨none, [(2, some 2), (3, none), (5, some 4), (6, none)], .left⟩ ∧
    (clip f₀ (some 2) (some 6) >>= fun r => clip r (some 2) (some 6)) = clip f₀ (some 2) (some 6) := by
  decide +kernel


/-! ## 2. round trips -/

/-- **masking then filling the holes from the original gives the original back** — whatever the masker
(defined or not): the result always exists, has `f`'s initial value and rows, and denotes `f` -/
theorem fillna_mask_self (f g k : Stairs P) (hf : f.Canonical) (hg : g.WF) (hk : mask f g = .ok k) :
    ∃ r, fillnaStairs k f = .ok r ∧ identical r f = true ∧ (f.hasSteps = true → r = f) := by
  obtain ⟨ck, cck, ok⟩ := f7b_cc maskOp f g k hf.1 hg hk
  obtain ⟨hm, hside⟩ := f7b_sideOf_result_left f g k cck
  refine ⟨_, combineChecked_total fillOp k f hm, ?_⟩
  have hc := canonical_combine fillOp k f (sideOf k f) ck.1 hf.1
  have hid : identical (combine fillOp k f (sideOf k f)) f = true :=
    f7b_identical_of_obs _ _ hc hf (fun o => by
      rw [f7b_obs_combine fillOp k f _ ck.1 hf.1, ok]; exact f7b_fill_mask_val _ _)
  exact ⟨hid, fun hs => f7b_eq_of_identical _ _ hid (hside hs)⟩

/-- full object equality when `f` and `g` are closed on the same side -/
theorem fillna_mask_self_same (f g : Stairs P) (hf : f.Canonical) (hg : g.WF) (hc : f.closed = g.closed) :
    (mask f g >>= fun k => fillnaStairs k f) = .ok f := by
  unfold mask fillnaStairs
  rw [f7b_same_ok maskOp f g f.closed rfl hc.symm]
  show combineChecked fillOp (combine maskOp f g f.closed) f = _
  rw [f7b_same_ok fillOp (combine maskOp f g f.closed) f f.closed rfl rfl]
  congr 1
  have hk := wf_combine maskOp f g f.closed hf.1 hg
  apply f7b_ext _ _ (canonical_combine _ _ _ _ hk hf.1) hf rfl
  intro o
  rw [f7b_obs_combine _ _ _ _ hk hf.1, f7b_obs_combine _ _ _ _ hf.1 hg]; exact f7b_fill_mask_val _ _

/-- for a step-free `f` and a masker closed on the other side only `identical` holds: the closed side flips -/
theorem fillna_mask_self_closed_flips :
    ∃ f g k r : Stairs Int, f.Canonical ∧ g.Canonical ∧ mask f g = .ok k ∧ fillnaStairs k f = .ok r ∧
      identical r f = true ∧ r ≠ f :=
  ⟨⟨some 1, [], .left⟩, ⟨some 0, [(1, some 1)], .right⟩, ⟨some 1, [(1, none)], .right⟩, ⟨some 1, [], .right⟩,
    by decide +kernel⟩

example : g₀.WF ∧ f₀.hasSteps = true ∧ (mask f₀ g₀ >>= fun k => fillnaStairs k f₀) = .ok f₀ := by decide +kernel

/-- **mask and where by the same `g` split `f`**: putting the two halves together gives `f` wherever `g` is
defined and stays undefined where `g` is undefined -/
theorem fillna_mask_where (f g k w r : Stairs P) (hf : f.WF) (hg : g.WF) (hk : mask f g = .ok k)
    (hw : where_ f g = .ok w) (hr : fillnaStairs k w = .ok r) (st : Bool) (x : P) :
    Den r st x = if Den g st x = none then none else Den f st x := by
  obtain ⟨ck, _, ok⟩ := f7b_cc maskOp f g k hf hg hk
  obtain ⟨cw, _, ow⟩ := f7b_cc whereOp f g w hf hg hw
  obtain ⟨_, _, or_⟩ := f7b_cc fillOp k w r ck.1 cw.1 hr
  have := or_ (.at st x)
  rw [ok, ow] at this
  exact this.trans (f7b_fill_mask_where_val _ _)

/-- … so `f.mask(g).fillna(f.where(g)) = f` exactly when `g` is defined wherever `f` is -/
theorem fillna_mask_where_eq (f g k w r : Stairs P) (hf : f.Canonical) (hg : g.WF) (hk : mask f g = .ok k)
    (hw : where_ f g = .ok w) (hr : fillnaStairs k w = .ok r)
    (hdef : g.init = none → f.init = none)
    (hdef' : ∀ st x, Den g st x = none → Den f st x = none) : identical r f = true := by
  obtain ⟨ck, _, ok⟩ := f7b_cc maskOp f g k hf.1 hg hk
  obtain ⟨cw, _, ow⟩ := f7b_cc whereOp f g w hf.1 hg hw
  obtain ⟨cr, _, or_⟩ := f7b_cc fillOp k w r ck.1 cw.1 hr
  apply f7b_identical_of_obs r f cr hf
  intro o
  rw [or_, ok, ow, f7b_fill_mask_where_val]
  split
  · rename_i h
    cases o with
    | init => exact (hdef h).symm
    | «at» st x => exact (hdef' st x h).symm
  · rfl

/-- the unconditional statement is FALSE: where the masker is undefined both halves are undefined -/
theorem fillna_mask_where_needs_defined_masker :
    ¬ ∀ (f g k w r : Stairs Int), f.Canonical → g.WF → mask f g = .ok k → where_ f g = .ok w →
        fillnaStairs k w = .ok r → r = f := by
  intro h
  have := h ⟨some 1, [(2, some 3)], .left⟩ ⟨none, [(1, some 0), (3, some 1)], .left⟩
    ⟨none, [(1, some 1), (2, some 3), (3, none)], .left⟩ ⟨none, [(3, some 3)], .left⟩
    ⟨none, [(1, some 1), (2, some 3)], .left⟩
    (by decide +kernel) (by decide +kernel) (by decide +kernel) (by decide +kernel) (by decide +kernel)
  exact absurd this (by decide +kernel)

/-- **`f.fillna(v).mask(f.isna()) = f`** for canonical `f` and ANY scalar `v` (object equality) -/
theorem mask_fillna_isna (f : Stairs P) (hf : f.Canonical) (v : Val) :
    mask (fillnaScalar f v) (unop .isna f) = .ok f := by
  unfold mask
  rw [f7b_same_ok maskOp (fillnaScalar f v) (unop .isna f) f.closed rfl rfl]
  congr 1
  have h1 : (fillnaScalar f v).WF := wf_map _ f hf.1
  have h2 : (unop .isna f).WF := wf_unop _ f hf.1
  apply f7b_ext _ _ (canonical_combine _ _ _ _ h1 h2) hf rfl
  intro o
  rw [f7b_obs_combine _ _ _ _ h1 h2]
  unfold fillnaScalar unop
  rw [f7b_obs_map _ f hf.1, f7b_obs_map _ f hf.1]; exact f7b_mask_fill_isna_val _ _

/-- **`f.where(f.notna()) = f`** and **`f.mask(f.isna()) = f`** for canonical `f` -/
theorem where_notna_self (f : Stairs P) (hf : f.Canonical) : where_ f (unop .notna f) = .ok f := by
  unfold where_
  rw [f7b_same_ok whereOp f (unop .notna f) f.closed rfl rfl]
  congr 1
  have h2 : (unop .notna f).WF := wf_unop _ f hf.1
  apply f7b_ext _ _ (canonical_combine _ _ _ _ hf.1 h2) hf rfl
  intro o
  rw [f7b_obs_combine _ _ _ _ hf.1 h2]
  unfold unop
  rw [f7b_obs_map _ f hf.1]; exact f7b_where_notna_val _

theorem mask_isna_self (f : Stairs P) (hf : f.Canonical) : mask f (unop .isna f) = .ok f := by
  unfold mask
  rw [f7b_same_ok maskOp f (unop .isna f) f.closed rfl rfl]
  congr 1
  have h2 : (unop .isna f).WF := wf_unop _ f hf.1
  apply f7b_ext _ _ (canonical_combine _ _ _ _ hf.1 h2) hf rfl
  intro o
  rw [f7b_obs_combine _ _ _ _ hf.1 h2]
  unfold unop
  rw [f7b_obs_map _ f hf.1]; exact f7b_mask_isna_val _

/-- for a merely well-formed `f` the three round trips return its canonical form -/
theorem where_notna_self_wf (f : Stairs P) (hf : f.WF) : where_ f (unop .notna f) = .ok f.canon := by
  unfold where_
  rw [f7b_same_ok whereOp f (unop .notna f) f.closed rfl rfl]
  congr 1
  have h2 : (unop .notna f).WF := wf_unop _ f hf
  apply f7b_ext _ _ (canonical_combine _ _ _ _ hf h2) (canonical_canon f hf) rfl
  intro o
  rw [f7b_obs_combine _ _ _ _ hf h2, f7b_obs_canon f hf]
  unfold unop
  rw [f7b_obs_map _ f hf]; exact f7b_where_notna_val _

example : f₀.Canonical ∧ mask (fillnaScalar f₀ (some 9)) (unop .isna f₀) = .ok f₀ ∧
    where_ f₀ (unop .notna f₀) = .ok f₀ ∧ mask f₀ (unop .isna f₀) = .ok f₀ ∧
    unop .isna f₀ = ⟨some 1, [(1, some 0), (3, some 1), (5, some 0), (7, some 1)], .left⟩ := by decide +kernel

/-- **`isna f = ~notna f`** and **`notna f = ~isna f`** — object equalities, for ALL inputs -/
theorem isna_eq_invert_notna (f : Stairs P) : unop .isna f = unop .invert (unop .notna f) := by
  unfold unop
  rw [f7b_map_map]
  exact (f7b_map_congr _ _ (fun a => f7b_isna_invert_val a) f).symm

theorem notna_eq_invert_isna (f : Stairs P) : unop .notna f = unop .invert (unop .isna f) := by
  unfold unop
  rw [f7b_map_map]
  exact (f7b_map_congr _ _ (fun a => f7b_notna_invert_val a) f).symm

/-- **isna / notna are never undefined** (as functions, and row by row) -/
theorem isna_notna_defined (f : Stairs P) (hf : f.WF) (st : Bool) (x : P) :
    Den (unop .isna f) st x ≠ none ∧ Den (unop .notna f) st x ≠ none := by
  rw [den_unop _ f hf, den_unop _ f hf]
  exact ⟨by simp [UnOp.eval], by simp [UnOp.eval]⟩

theorem isna_notna_not_hasUndefined (f : Stairs P) (hf : f.WF) (o : F7bObs P) :
    f7bObs o (unop .isna f) ≠ none ∧ f7bObs o (unop .notna f) ≠ none := by
  unfold unop
  rw [f7b_obs_map _ f hf, f7b_obs_map _ f hf]
  exact ⟨by simp [UnOp.eval], by simp [UnOp.eval]⟩

/-- **`isna f + notna f = 1`**: the constant 1 (a step-free object), closed like `f` -/
theorem isna_add_notna (f : Stairs P) (hf : f.WF) :
    binop .add (unop .isna f) (unop .notna f) = .ok (const (some 1) f.closed) := by
  show combineChecked vadd _ _ = _
  rw [f7b_same_ok vadd (unop .isna f) (unop .notna f) f.closed rfl rfl]
  congr 1
  have h1 : (unop .isna f).WF := wf_unop _ f hf
  have h2 : (unop .notna f).WF := wf_unop _ f hf
  apply f7b_ext _ _ (canonical_combine _ _ _ _ h1 h2) (canonical_const _ _) rfl
  intro o
  rw [f7b_obs_combine _ _ _ _ h1 h2, f7b_obs_const]
  unfold unop
  rw [f7b_obs_map _ f hf, f7b_obs_map _ f hf]; exact f7b_isna_add_notna_val _

example : f₀.WF ∧ binop .add (unop .isna f₀) (unop .notna f₀) = .ok ⟨some 1, [], .left⟩ ∧
    unop .isna f₀ = unop .invert (unop .notna f₀) := by decide +kernel


/-! ## 3. forward / backward fill: where they stay undefined, totality, monotonicity of definedness -/

/-- **ffill is undefined exactly left of the first defined piece** (rows): at `x` iff the initial value and
every row whose step point has been reached at `x` are undefined -/
theorem ffill_undefined_iff_rows (f : Stairs P) (hf : f.WF) (st : Bool) (x : P) :
    Den (ffill f) st x = none ↔ f.init = none ∧ ∀ pv ∈ f.steps, reached st pv.1 x = true → pv.2 = none := by
  rw [den_ffill f hf]; exact f7b_lastDefined_none_iff st f.steps hf x f.init

/-- … (function): iff the initial value is undefined and `f` is undefined at every point up to `x`
(`reached st y x`: `y ≤ x` for right limits, `y < x` for left limits) -/
theorem ffill_undefined_iff (f : Stairs P) (hf : f.WF) (st : Bool) (x : P) :
    Den (ffill f) st x = none ↔ f.init = none ∧ ∀ y, reached st y x = true → Den f false y = none :=
  f7b_den_ffill_none_iff f hf st x

/-- when the order has no least element the initial value is visible, so: `ffill f` is undefined at `x`
iff `f` is undefined on all of `(−∞, x]` -/
theorem ffill_undefined_iff_left [NoMinOrder P] (f : Stairs P) (hf : f.WF) (x : P) :
    Den (ffill f) false x = none ↔ ∀ y, y ≤ x → Den f false y = none := by
  rw [ffill_undefined_iff f hf]
  constructor
  · rintro ⟨_, h⟩ y hy
    exact h y ((reached_right_iff y x).mpr hy)
  · intro h
    refine ⟨?_, fun y hy => h y ((reached_right_iff y x).mp hy)⟩
    cases hs : f.steps with
    | nil => have := h x le_rfl; unfold Den at this; rw [hs] at this; exact this
    | cons pv r =>
      obtain ⟨p, v⟩ := pv
      obtain ⟨y, hy⟩ := exists_lt (min x p)
      have := h y (le_of_lt (lt_of_lt_of_le hy (min_le_left _ _)))
      unfold Den at this
      rw [hs, lim_cons, not_reached_of_lt (lt_of_lt_of_le hy (min_le_right _ _))] at this
      exact this

/-- the undefined set of `ffill f` is closed to the left -/
theorem ffill_undefined_downward (f : Stairs P) (hf : f.WF) (st : Bool) (x y : P) (hyx : y ≤ x)
    (h : Den (ffill f) st x = none) : Den (ffill f) st y = none := by
  rw [ffill_undefined_iff f hf] at h ⊢
  refine ⟨h.1, fun z hz => h.2 z ?_⟩
  rcases lt_or_eq_of_le hyx with h1 | h1
  · cases st <;> simp [reached] at hz ⊢ <;> order
  · rw [← h1]; exact hz

/-- **bfill is undefined exactly right of the last defined piece**: at `x` iff `f` is undefined at `x`
and at every later point (`reached st y x = false`: `x < y` for right limits, `x ≤ y` for left limits) -/
theorem bfill_undefined_iff (f : Stairs P) (hf : f.WF) (st : Bool) (x : P) :
    Den (bfill f) st x = none ↔ Den f st x = none ∧ ∀ y, reached st y x = false → Den f false y = none :=
  f7b_den_bfill_none_iff f hf st x

theorem bfill_undefined_iff_rows (f : Stairs P) (hf : f.WF) (st : Bool) (x : P) :
    Den (bfill f) st x = none ↔
      Den f st x = none ∧ ∀ pv ∈ f.steps, reached st pv.1 x = false → pv.2 = none := by
  rw [den_bfill f hf]; exact f7b_nextDefined_none_iff st f.steps hf x f.init

theorem bfill_undefined_iff_right (f : Stairs P) (hf : f.WF) (x : P) :
    Den (bfill f) false x = none ↔ ∀ y, x ≤ y → Den f false y = none := by
  rw [bfill_undefined_iff f hf]
  constructor
  · rintro ⟨h0, h⟩ y hy
    rcases lt_or_eq_of_le hy with h1 | h1
    · exact h y (not_reached_of_lt h1)
    · rw [← h1]; exact h0
  · intro h
    exact ⟨h x le_rfl, fun y hy => h y (by have : x < y := by simpa [reached] using hy
                                           exact le_of_lt this)⟩

/-- **after `ffill` then `bfill` nothing is undefined, provided `f` is defined somewhere** -/
theorem bfill_ffill_total (f : Stairs P) (hf : f.WF) (hd : f7bHasDefined f) (st : Bool) (x : P) :
    Den (bfill (ffill f)) st x ≠ none := by
  intro h
  have hg := (canonical_ffill f hf).1
  obtain ⟨h0, hall⟩ := (bfill_undefined_iff _ hg st x).mp h
  obtain ⟨hi, hleft⟩ := (ffill_undefined_iff f hf st x).mp h0
  rcases hd with hd | ⟨pv, hm, hd⟩
  · exact hd hi
  · have hval : Den f false pv.1 = pv.2 := f7b_lim_at_key f.init f.steps hf pv.1 pv.2 hm
    cases hr : reached st pv.1 x with
    | true => exact hd (by rw [← hval]; exact hleft pv.1 hr)
    | false =>
      have := ((ffill_undefined_iff f hf false pv.1).mp (hall pv.1 hr)).2 pv.1 (reached_self_right pv.1)
      exact hd (by rw [← hval]; exact this)

/-- the same for `bfill` then `ffill` -/
theorem ffill_bfill_total (f : Stairs P) (hf : f.WF) (hd : f7bHasDefined f) (st : Bool) (x : P) :
    Den (ffill (bfill f)) st x ≠ none := by
  intro h
  have hg := (canonical_bfill f hf).1
  obtain ⟨hi, _⟩ := (ffill_undefined_iff _ hg st x).mp h
  have hi' : fillOp f.init (firstVal (bfillSteps f.steps)) = none := hi
  rw [firstVal_bfillSteps, f7b_fillOp_eq_none, f7b_firstSome_eq_none] at hi'
  exact (f7b_not_hasDefined f).mpr hi' hd

/-- **… otherwise everything stays undefined** (by every fill) -/
theorem fills_of_nowhere_defined (f : Stairs P) (hf : f.WF) (hd : ¬ f7bHasDefined f) (st : Bool) (x : P) :
    Den (ffill f) st x = none ∧ Den (bfill f) st x = none ∧ Den (bfill (ffill f)) st x = none ∧
      Den (ffill (bfill f)) st x = none := by
  have h0 : ∀ st x, Den f st x = none := f7b_obs_none_of_not_hasDefined f hd
  have hi := ((f7b_not_hasDefined f).mp hd).1
  have h1 : ∀ st x, Den (ffill f) st x = none := fun st x =>
    (ffill_undefined_iff f hf st x).mpr ⟨hi, fun y _ => h0 false y⟩
  have h2 : ∀ st x, Den (bfill f) st x = none := fun st x =>
    (bfill_undefined_iff f hf st x).mpr ⟨h0 st x, fun y _ => h0 false y⟩
  refine ⟨h1 st x, h2 st x, ?_, ?_⟩
  · exact (bfill_undefined_iff _ (canonical_ffill f hf).1 st x).mpr ⟨h1 st x, fun y _ => h1 false y⟩
  · refine (ffill_undefined_iff _ (canonical_bfill f hf).1 st x).mpr ⟨?_, fun y _ => h2 false y⟩
    show fillOp f.init (firstVal (bfillSteps f.steps)) = none
    rw [firstVal_bfillSteps, f7b_fillOp_eq_none, f7b_firstSome_eq_none]
    exact (f7b_not_hasDefined f).mp hd

/-- "defined somewhere" is a property of the function -/
theorem hasDefined_iff [Nonempty P] (f : Stairs P) (hf : f.WF) :
    f7bHasDefined f ↔ ∃ st x, Den f st x ≠ none := f7b_hasDefined_iff_den f hf

/-- **the dichotomy**: `bfill (ffill f)` is defined everywhere iff `f` is defined somewhere, and undefined
everywhere iff `f` is defined nowhere -/
theorem bfill_ffill_defined_iff [Nonempty P] (f : Stairs P) (hf : f.WF) :
    ((∀ st x, Den (bfill (ffill f)) st x ≠ none) ↔ ∃ st x, Den f st x ≠ none) ∧
    ((∀ st x, Den (bfill (ffill f)) st x = none) ↔ ∀ st x, Den f st x = none) := by
  rw [← hasDefined_iff f hf]
  constructor
  · constructor
    · intro h
      by_contra hd
      exact h false (Classical.arbitrary P) (fills_of_nowhere_defined f hf hd _ _).2.2.1
    · exact fun hd st x => bfill_ffill_total f hf hd st x
  · constructor
    · intro h st x
      by_contra hne
      have hd : f7bHasDefined f := (hasDefined_iff f hf).mpr ⟨st, x, hne⟩
      exact bfill_ffill_total f hf hd st x (h st x)
    · intro h st x
      have hd : ¬ f7bHasDefined f := fun hd => by
        obtain ⟨st, x, hx⟩ := (hasDefined_iff f hf).mp hd
        exact hx (h st x)
      exact (fills_of_nowhere_defined f hf hd st x).2.2.1

/-- with no least element "defined somewhere" can be read off the right limits alone -/
theorem hasDefined_iff_right [NoMinOrder P] [Nonempty P] (f : Stairs P) (hf : f.WF) :
    f7bHasDefined f ↔ ∃ x, Den f false x ≠ none := by
  constructor
  · rintro (h | ⟨pv, hm, h⟩)
    · cases hs : f.steps with
      | nil => exact ⟨Classical.arbitrary P, by unfold Den; rw [hs]; exact h⟩
      | cons pv r =>
        obtain ⟨p, v⟩ := pv
        obtain ⟨y, hy⟩ := exists_lt p
        exact ⟨y, by unfold Den; rw [hs, lim_cons, not_reached_of_lt hy]; exact h⟩
    · exact ⟨pv.1, by
        rw [show Den f false pv.1 = pv.2 from f7b_lim_at_key f.init f.steps hf pv.1 pv.2 hm]; exact h⟩
  · rintro ⟨x, h⟩
    exact (hasDefined_iff f hf).mpr ⟨false, x, h⟩

/-- on an order with a least element the right limits alone do NOT suffice (the initial value is hidden
behind a step at the least point, yet `ffill` copies it forward) -/
theorem hasDefined_needs_left_limits :
    ∃ f : Stairs Nat, f.Canonical ∧ (∀ x, Den f false x = none) ∧ f7bHasDefined f ∧
      ffill f = ⟨some 1, [], .left⟩ :=
  ⟨⟨some 1, [(0, none)], .left⟩, by decide +kernel, fun x => by simp [Den, lim, reached],
    by decide +kernel, by decide +kernel⟩

example : f₀.WF ∧ f7bHasDefined f₀ ∧ bfill (ffill f₀) = ⟨some 2, [(5, some 4)], .left⟩ ∧
    ffill (bfill f₀) = ⟨some 2, [(3, some 4)], .left⟩ ∧
    ¬ f7bHasDefined (⟨none, [(1, none)], .left⟩ : Stairs Int) := by decide +kernel

/-- **ffill then a scalar fill = put the scalar into an undefined initial value, then ffill** -/
theorem fillna_ffill (f : Stairs P) (hf : f.WF) (v : Val) :
    fillnaScalar (ffill f) v = ffill ⟨fillOp f.init v, f.steps, f.closed⟩ := by
  have hf' : (⟨fillOp f.init v, f.steps, f.closed⟩ : Stairs P).WF := hf
  have hg := (canonical_ffill f hf).1
  apply f7b_ext _ _ (canonical_map _ _ hg) (canonical_ffill _ hf') rfl
  have key : ∀ (st : Bool) (x : P) (s : List (P × Val)) (a : Val),
      fillOp (lastDefined st a s x) v = lastDefined st (fillOp a v) s x := by
    intro st x s
    induction s with
    | nil => intro a; rfl
    | cons pv r ih =>
      obtain ⟨p, w⟩ := pv
      intro a
      simp only [lastDefined]
      split
      · rw [ih, f7b_fillOp_assoc]
      · rfl
  intro o
  cases o with
  | init => rfl
  | «at» st x =>
    show Den (fillnaScalar (ffill f) v) st x = Den (ffill _) st x
    unfold fillnaScalar
    rw [den_map _ _ hg, den_ffill f hf, den_ffill _ hf']
    exact key st x f.steps f.init

/-- so with a defined scalar nothing stays undefined, and with a defined initial value `ffill` alone is total -/
theorem fillna_ffill_total (f : Stairs P) (hf : f.WF) (q : Rat) (st : Bool) (x : P) :
    Den (fillnaScalar (ffill f) (some q)) st x ≠ none := by
  unfold fillnaScalar
  rw [den_map _ _ (canonical_ffill f hf).1]
  cases Den (ffill f) st x <;> simp [fillOp]

theorem ffill_total_of_init (f : Stairs P) (hf : f.WF) (hi : f.init ≠ none) (st : Bool) (x : P) :
    Den (ffill f) st x ≠ none := fun h => hi ((ffill_undefined_iff f hf st x).mp h).1

example : fillnaScalar (ffill f₀) (some 9) = ffill ⟨some 9, f₀.steps, .left⟩ ∧
    fillnaScalar (ffill f₀) (some 9) = ⟨some 9, [(1, some 2), (5, some 4)], .left⟩ := by decide +kernel

/-- **every fill only enlarges the defined set** (and keeps the values there) -/
theorem fill_enlarges (f : Stairs P) (hf : f.WF) (st : Bool) (x : P) (q : Rat) (hq : Den f st x = some q) :
    (∀ v, Den (fillnaScalar f v) st x = some q) ∧ Den (ffill f) st x = some q ∧ Den (bfill f) st x = some q ∧
    Den (bfill (ffill f)) st x = some q ∧ Den (ffill (bfill f)) st x = some q ∧
    (∀ g h, g.WF → fillnaStairs f g = .ok h → Den h st x = some q) := by
  have hF : Den (ffill f) st x = some q := by
    rw [den_ffill f hf]; exact lastDefined_of_defined st _ _ x q hq
  have hB : Den (bfill f) st x = some q := by
    rw [den_bfill f hf]; exact nextDefined_of_defined st _ _ x q hq
  refine ⟨fun v => ?_, hF, hB, ?_, ?_, fun g h hg hres => ?_⟩
  · unfold fillnaScalar; rw [den_map _ f hf, hq]; rfl
  · rw [den_bfill _ (canonical_ffill f hf).1]; exact nextDefined_of_defined st _ _ x q hF
  · rw [den_ffill _ (canonical_bfill f hf).1]; exact lastDefined_of_defined st _ _ x q hB
  · rw [(combineChecked_ok fillOp f g h hf hg hres).2.2, hq]; rfl

/-- **mask / where / clip / mask((a,b)) only shrink the defined set** (and keep the values that survive) -/
theorem restrict_shrinks (f : Stairs P) (hf : f.WF) (st : Bool) (x : P) (q : Rat) :
    (∀ g h, g.WF → mask f g = .ok h → Den h st x = some q → Den f st x = some q) ∧
    (∀ g h, g.WF → where_ f g = .ok h → Den h st x = some q → Den f st x = some q) ∧
    (∀ lo hi r, clip f lo hi = .ok r → Den r st x = some q → Den f st x = some q) ∧
    (∀ lo hi, boundsOk lo hi = true → Den (maskTuple f lo hi) st x = some q → Den f st x = some q) := by
  refine ⟨fun g h hg hres hq => ?_, fun g h hg hres hq => ?_, fun lo hi r hr hq => ?_, fun lo hi hb hq => ?_⟩
  · rw [(combineChecked_ok maskOp f g h hf hg hres).2.2] at hq
    unfold maskOp at hq; split at hq
    · exact hq
    · cases hq
  · rw [(combineChecked_ok whereOp f g h hf hg hres).2.2] at hq
    unfold whereOp at hq
    split at hq
    · split at hq
      · cases hq
      · exact hq
    · cases hq
  · have hb : boundsOk lo hi = true := by
      by_contra hb
      rw [clip_error f lo hi (by simpa using hb)] at hr; cases hr
    rw [den_clip f lo hi hf hb r hr] at hq
    split at hq
    · exact hq
    · cases hq
  · unfold maskTuple at hq
    rw [den_combine _ _ _ _ hf (wf_layerIndicator lo hi f.closed)] at hq
    unfold maskOp at hq; split at hq
    · exact hq
    · cases hq


/-! ## 4. composition of masks -/

/-- a law between two two-step pipelines of the two-operand path, operands closed on the same side:
general principle used for the `…_same` variants below -/
theorem f7b_two_step_same (op1 op2 op3 op4 : Val → Val → Val)
    (law : ∀ a m n, op2 (op1 a m) n = op4 a (op3 m n))
    (f g h : Stairs P) (hf : f.WF) (hg : g.WF) (hh : h.WF) (hfg : f.closed = g.closed) (hgh : g.closed = h.closed) :
    (combineChecked op1 f g >>= fun k => combineChecked op2 k h)
      = (combineChecked op3 g h >>= fun gh => combineChecked op4 f gh) := by
  rw [f7b_same_ok op1 f g f.closed rfl hfg.symm, f7b_same_ok op3 g h f.closed hfg.symm (hgh.symm.trans hfg.symm)]
  show combineChecked op2 (combine op1 f g f.closed) h = combineChecked op4 f (combine op3 g h f.closed)
  rw [f7b_same_ok op2 (combine op1 f g f.closed) h f.closed rfl (hgh.symm.trans hfg.symm),
      f7b_same_ok op4 f (combine op3 g h f.closed) f.closed rfl rfl]
  congr 1
  have h1 := wf_combine op1 f g f.closed hf hg
  have h3 := wf_combine op3 g h f.closed hg hh
  apply f7b_ext _ _ (canonical_combine _ _ _ _ h1 hh) (canonical_combine _ _ _ _ hf h3) rfl
  intro o
  rw [f7b_obs_combine _ _ _ _ h1 hh, f7b_obs_combine _ _ _ _ hf hg, f7b_obs_combine _ _ _ _ hf h3,
      f7b_obs_combine _ _ _ _ hg hh, law]

/-- the same for arbitrary closed sides, given that all four operations succeed: `identical` results -/
theorem f7b_two_step (op1 op2 op3 op4 : Val → Val → Val)
    (law : ∀ a m n, op2 (op1 a m) n = op4 a (op3 m n))
    (f g h k r gh r' : Stairs P) (hf : f.WF) (hg : g.WF) (hh : h.WF)
    (e1 : combineChecked op1 f g = .ok k) (e2 : combineChecked op2 k h = .ok r)
    (e3 : combineChecked op3 g h = .ok gh) (e4 : combineChecked op4 f gh = .ok r') :
    identical r r' = true := by
  obtain ⟨ck, _, ok⟩ := f7b_cc op1 f g k hf hg e1
  obtain ⟨cr, _, or_⟩ := f7b_cc op2 k h r ck.1 hh e2
  obtain ⟨cgh, _, ogh⟩ := f7b_cc op3 g h gh hg hh e3
  obtain ⟨cr', _, or'⟩ := f7b_cc op4 f gh r' hf cgh.1 e4
  exact f7b_identical_of_obs r r' cr cr' (fun o => by rw [or_, ok, or', ogh, law])

/-- **`f.mask(g).mask(h) = f.mask(g | h)`** — exactly, undefined pieces of the maskers included (the model's
`|` is undefined where either side is, and `mask` removes those points just as the double mask does).
For operands closed on the same side: the same object or the same error. -/
theorem mask_mask_or_same (f g h : Stairs P) (hf : f.WF) (hg : g.WF) (hh : h.WF)
    (hfg : f.closed = g.closed) (hgh : g.closed = h.closed) :
    (mask f g >>= fun k => mask k h) = (binop (.logic .or) g h >>= fun gh => mask f gh) :=
  f7b_two_step_same maskOp maskOp (vlogic .or) maskOp f7b_mask_mask_or_val f g h hf hg hh hfg hgh

/-- for arbitrary closed sides, whenever all four operations succeed: same initial value, same rows
(hence the same function) -/
theorem mask_mask_or (f g h k r gh r' : Stairs P) (hf : f.WF) (hg : g.WF) (hh : h.WF)
    (e1 : mask f g = .ok k) (e2 : mask k h = .ok r) (e3 : binop (.logic .or) g h = .ok gh)
    (e4 : mask f gh = .ok r') : identical r r' = true ∧ ∀ st x, Den r st x = Den r' st x := by
  have hid := f7b_two_step maskOp maskOp (vlogic .or) maskOp f7b_mask_mask_or_val f g h k r gh r' hf hg hh e1 e2 e3 e4
  exact ⟨hid, fun st x => f7b_obs_of_identical r r' hid (.at st x)⟩

/-- **`f.where(g).where(h) = f.where(g & h)`** -/
theorem where_where_and_same (f g h : Stairs P) (hf : f.WF) (hg : g.WF) (hh : h.WF)
    (hfg : f.closed = g.closed) (hgh : g.closed = h.closed) :
    (where_ f g >>= fun k => where_ k h) = (binop (.logic .and) g h >>= fun gh => where_ f gh) :=
  f7b_two_step_same whereOp whereOp (vlogic .and) whereOp f7b_where_where_and_val f g h hf hg hh hfg hgh

theorem where_where_and (f g h k r gh r' : Stairs P) (hf : f.WF) (hg : g.WF) (hh : h.WF)
    (e1 : where_ f g = .ok k) (e2 : where_ k h = .ok r) (e3 : binop (.logic .and) g h = .ok gh)
    (e4 : where_ f gh = .ok r') : identical r r' = true ∧ ∀ st x, Den r st x = Den r' st x := by
  have hid := f7b_two_step whereOp whereOp (vlogic .and) whereOp f7b_where_where_and_val f g h k r gh r'
    hf hg hh e1 e2 e3 e4
  exact ⟨hid, fun st x => f7b_obs_of_identical r r' hid (.at st x)⟩

/-- the pointwise content: a point survives two masks iff both maskers are defined and zero there;
two wheres iff both are defined and non-zero -/
theorem mask_mask_spec (f g h k r : Stairs P) (hf : f.WF) (hg : g.WF) (hh : h.WF)
    (e1 : mask f g = .ok k) (e2 : mask k h = .ok r) (st : Bool) (x : P) :
    Den r st x = if Den g st x = some 0 ∧ Den h st x = some 0 then Den f st x else none := by
  obtain ⟨ck, _, ok⟩ := combineChecked_ok maskOp f g k hf hg e1
  obtain ⟨_, _, or_⟩ := combineChecked_ok maskOp k h r ck.1 hh e2
  rw [or_, ok]; unfold maskOp
  by_cases h1 : Den g st x = some 0 <;> by_cases h2 : Den h st x = some 0 <;> simp [h1, h2]

/-- the naive Except-level law is FALSE without the same-side hypothesis: the double mask can succeed
(the intermediate result lost all its steps) while `g | h` raises the closed-side mismatch -/
theorem mask_mask_or_needs_same_side_a :
    ¬ ∀ (f g h : Stairs Int), f.WF → g.WF → h.WF →
        (mask f g >>= fun k => mask k h) = (binop (.logic .or) g h >>= fun gh => mask f gh) := by
  intro hall
  have := hall ⟨some 1, [], .left⟩ ⟨some 1, [(1, some 2)], .right⟩ ⟨some 0, [(2, some 1)], .left⟩
    (by decide +kernel) (by decide +kernel) (by decide +kernel)
  exact absurd this (by decide +kernel)

/-- … and when everything succeeds the two results can still differ in their closed side (and only there) -/
theorem mask_mask_or_needs_same_side_b :
    ∃ (f g h k r gh r' : Stairs Int), f.Canonical ∧ g.Canonical ∧ h.Canonical ∧ mask f g = .ok k ∧
      mask k h = .ok r ∧ binop (.logic .or) g h = .ok gh ∧ mask f gh = .ok r' ∧ identical r r' = true ∧ r ≠ r' :=
  ⟨⟨some 1, [], .left⟩, ⟨some 1, [(1, some 2)], .right⟩, ⟨none, [], .left⟩, ⟨none, [], .right⟩,
    ⟨none, [], .right⟩, ⟨none, [], .right⟩, ⟨none, [], .left⟩, by decide +kernel⟩

/-- a tempting variant that is FALSE even on one side: `f.mask(g).mask(h) = f.mask(g + h)` (values cancel) -/
theorem mask_mask_add_false :
    ¬ ∀ (f g h : Stairs Int), f.WF → g.WF → h.WF → f.closed = g.closed → g.closed = h.closed →
        (mask f g >>= fun k => mask k h) = (binop .add g h >>= fun gh => mask f gh) := by
  intro hall
  have := hall ⟨some 5, [], .left⟩ ⟨some 0, [(1, some 1)], .left⟩ ⟨some 0, [(1, some (-1))], .left⟩
    (by decide +kernel) (by decide +kernel) (by decide +kernel) rfl rfl
  exact absurd this (by decide +kernel)

example : f₀.WF ∧ g₀.WF ∧ h₀.WF ∧
    (mask f₀ g₀ >>= fun k => mask k h₀) = .ok ⟨none, [(1, some 2), (2, none)], .left⟩ ∧
    (binop (.logic .or) g₀ h₀ >>= fun gh => mask f₀ gh) = .ok ⟨none, [(1, some 2), (2, none)], .left⟩ ∧
    binop (.logic .or) g₀ h₀ = .ok ⟨none, [(0, some 0), (2, some 1), (4, none), (6, some 1), (8, some 0)], .left⟩ := by
  decide +kernel

/-- **masks commute**, **wheres commute** -/
theorem mask_mask_comm_same (f g h : Stairs P) (hf : f.WF) (hg : g.WF) (hh : h.WF)
    (hfg : f.closed = g.closed) (hgh : g.closed = h.closed) :
    (mask f g >>= fun k => mask k h) = (mask f h >>= fun k => mask k g) := by
  rw [mask_mask_or_same f g h hf hg hh hfg hgh, mask_mask_or_same f h g hf hh hg (hfg.trans hgh) hgh.symm]
  have : binop (.logic .or) g h = binop (.logic .or) h g := by
    show combineChecked (vlogic .or) g h = combineChecked (vlogic .or) h g
    rw [f7b_same_ok _ g h g.closed rfl hgh.symm, f7b_same_ok _ h g g.closed hgh.symm rfl]
    congr 1
    apply f7b_ext _ _ (canonical_combine _ _ _ _ hg hh) (canonical_combine _ _ _ _ hh hg) rfl
    intro o
    rw [f7b_obs_combine _ _ _ _ hg hh, f7b_obs_combine _ _ _ _ hh hg]
    cases f7bObs o g <;> cases f7bObs o h <;> simp [vlogic, Logic.eval, Bool.or_comm]
  rw [this]

theorem where_where_comm_same (f g h : Stairs P) (hf : f.WF) (hg : g.WF) (hh : h.WF)
    (hfg : f.closed = g.closed) (hgh : g.closed = h.closed) :
    (where_ f g >>= fun k => where_ k h) = (where_ f h >>= fun k => where_ k g) := by
  unfold where_
  rw [f7b_same_ok whereOp f g f.closed rfl hfg.symm, f7b_same_ok whereOp f h f.closed rfl (hgh.symm.trans hfg.symm)]
  show combineChecked whereOp (combine whereOp f g f.closed) h = combineChecked whereOp (combine whereOp f h f.closed) g
  rw [f7b_same_ok whereOp (combine whereOp f g f.closed) h f.closed rfl (hgh.symm.trans hfg.symm),
      f7b_same_ok whereOp (combine whereOp f h f.closed) g f.closed rfl hfg.symm]
  congr 1
  have h1 := wf_combine whereOp f g f.closed hf hg
  have h2 := wf_combine whereOp f h f.closed hf hh
  apply f7b_ext _ _ (canonical_combine _ _ _ _ h1 hh) (canonical_combine _ _ _ _ h2 hg) rfl
  intro o
  rw [f7b_obs_combine _ _ _ _ h1 hh, f7b_obs_combine _ _ _ _ hf hg, f7b_obs_combine _ _ _ _ h2 hg,
      f7b_obs_combine _ _ _ _ hf hh, f7b_where_where_comm_val]

/-- for arbitrary closed sides, when all four operations succeed -/
theorem restrict_comm (op : Val → Val → Val) (hop : ∀ a m n, op (op a m) n = op (op a n) m)
    (f g h k r k' r' : Stairs P) (hf : f.WF) (hg : g.WF) (hh : h.WF)
    (e1 : combineChecked op f g = .ok k) (e2 : combineChecked op k h = .ok r)
    (e3 : combineChecked op f h = .ok k') (e4 : combineChecked op k' g = .ok r') :
    identical r r' = true ∧ ∀ st x, Den r st x = Den r' st x := by
  obtain ⟨ck, _, ok⟩ := f7b_cc op f g k hf hg e1
  obtain ⟨cr, _, or_⟩ := f7b_cc op k h r ck.1 hh e2
  obtain ⟨ck', _, ok'⟩ := f7b_cc op f h k' hf hh e3
  obtain ⟨cr', _, or'⟩ := f7b_cc op k' g r' ck'.1 hg e4
  have hid := f7b_identical_of_obs r r' cr cr' (fun o => by rw [or_, ok, or', ok', hop])
  exact ⟨hid, fun st x => f7b_obs_of_identical r r' hid (.at st x)⟩

theorem mask_mask_comm (f g h k r k' r' : Stairs P) (hf : f.WF) (hg : g.WF) (hh : h.WF)
    (e1 : mask f g = .ok k) (e2 : mask k h = .ok r) (e3 : mask f h = .ok k') (e4 : mask k' g = .ok r') :
    identical r r' = true ∧ ∀ st x, Den r st x = Den r' st x :=
  restrict_comm maskOp f7b_mask_mask_comm_val f g h k r k' r' hf hg hh e1 e2 e3 e4

theorem where_where_comm (f g h k r k' r' : Stairs P) (hf : f.WF) (hg : g.WF) (hh : h.WF)
    (e1 : where_ f g = .ok k) (e2 : where_ k h = .ok r) (e3 : where_ f h = .ok k') (e4 : where_ k' g = .ok r') :
    identical r r' = true ∧ ∀ st x, Den r st x = Den r' st x :=
  restrict_comm whereOp f7b_where_where_comm_val f g h k r k' r' hf hg hh e1 e2 e3 e4

example : (mask f₀ g₀ >>= fun k => mask k h₀) = (mask f₀ h₀ >>= fun k => mask k g₀) ∧
    (where_ f₀ g₀ >>= fun k => where_ k h₀) = (where_ f₀ h₀ >>= fun k => where_ k g₀) ∧
    (where_ f₀ g₀ >>= fun k => where_ k h₀) = (binop (.logic .and) g₀ h₀ >>= fun gh => where_ f₀ gh) ∧
    (where_ (⟨some 7, [], .left⟩ : Stairs Int) g₀ >>= fun k => where_ k ⟨none, [(3, some 2), (9, some 0)], .left⟩)
      = .ok ⟨none, [(3, some 7), (4, none)], .left⟩ := by
  decide +kernel


/-! ## 5. `fillna` with a step-function argument -/

/-- **where-style reading**: `f.fillna(g)` is `f` where `f` is defined and `g` elsewhere; as objects: the
part of `g` outside f's domain, filled under `f` -/
theorem fillna_stairs_eq_mask (f g r k r' : Stairs P) (hf : f.WF) (hg : g.WF) (e1 : fillnaStairs f g = .ok r)
    (e2 : mask g (unop .notna f) = .ok k) (e3 : fillnaStairs f k = .ok r') :
    identical r r' = true ∧ ∀ st x, Den r st x = if Den f st x = none then Den g st x else Den f st x := by
  have hn : (unop .notna f).WF := wf_unop _ f hf
  obtain ⟨cr, _, or_⟩ := f7b_cc fillOp f g r hf hg e1
  obtain ⟨ck, _, ok⟩ := f7b_cc maskOp g _ k hg hn e2
  obtain ⟨cr', _, or'⟩ := f7b_cc fillOp f k r' hf ck.1 e3
  refine ⟨f7b_identical_of_obs r r' cr cr' (fun o => ?_), fun st x => ?_⟩
  · rw [or_, or', ok]
    unfold unop
    rw [f7b_obs_map _ f hf]
    cases f7bObs o f <;> simp [fillOp, maskOp, UnOp.eval, b2r]
  · have := or_ (.at st x)
    show Den r st x = _
    rw [show Den r st x = fillOp (Den f st x) (Den g st x) from this]
    cases Den f st x <;> simp [fillOp]

/-- **a scalar is the constant function**: `f.fillna(const v) = f.fillna(v)` (object equality) -/
theorem fillna_stairs_const (f : Stairs P) (hf : f.WF) (v : Val) :
    fillnaStairs f (const v f.closed) = .ok (fillnaScalar f v) := by
  unfold fillnaStairs
  rw [f7b_same_ok fillOp f (const v f.closed) f.closed rfl rfl]
  congr 1
  apply f7b_ext _ _ (canonical_combine _ _ _ _ hf (wf_const v f.closed)) (canonical_map _ f hf) rfl
  intro o
  rw [f7b_obs_combine _ _ _ _ hf (wf_const v f.closed), f7b_obs_const]
  exact (f7b_obs_map (fun a => fillOp a v) f hf o).symm

/-- **`f.fillna(f) = f`** for canonical `f` (its canonical form for a merely well-formed one) -/
theorem fillna_stairs_self (f : Stairs P) (hf : f.WF) : fillnaStairs f f = .ok f.canon := by
  unfold fillnaStairs
  rw [f7b_same_ok fillOp f f f.closed rfl rfl]
  congr 1
  apply f7b_ext _ _ (canonical_combine _ _ _ _ hf hf) (canonical_canon f hf) rfl
  intro o
  rw [f7b_obs_combine _ _ _ _ hf hf, f7b_obs_canon f hf, f7b_fillOp_self]

theorem fillna_stairs_self_canonical (f : Stairs P) (hf : f.Canonical) : fillnaStairs f f = .ok f := by
  rw [fillna_stairs_self f hf.1, canon_of_minimal f hf.2]

/-- **associativity**: `f.fillna(g).fillna(h) = f.fillna(g.fillna(h))` — same object or same error for
operands closed on the same side … -/
theorem fillna_stairs_assoc_same (f g h : Stairs P) (hf : f.WF) (hg : g.WF) (hh : h.WF)
    (hfg : f.closed = g.closed) (hgh : g.closed = h.closed) :
    (fillnaStairs f g >>= fun k => fillnaStairs k h) = (fillnaStairs g h >>= fun gh => fillnaStairs f gh) :=
  f7b_two_step_same fillOp fillOp fillOp fillOp f7b_fillOp_assoc f g h hf hg hh hfg hgh

/-- … and `identical` results whenever all four operations succeed -/
theorem fillna_stairs_assoc (f g h k r gh r' : Stairs P) (hf : f.WF) (hg : g.WF) (hh : h.WF)
    (e1 : fillnaStairs f g = .ok k) (e2 : fillnaStairs k h = .ok r) (e3 : fillnaStairs g h = .ok gh)
    (e4 : fillnaStairs f gh = .ok r') : identical r r' = true ∧ ∀ st x, Den r st x = Den r' st x := by
  have hid := f7b_two_step fillOp fillOp fillOp fillOp f7b_fillOp_assoc f g h k r gh r' hf hg hh e1 e2 e3 e4
  exact ⟨hid, fun st x => f7b_obs_of_identical r r' hid (.at st x)⟩

/-- a scalar fill after a step-function fill is a step-function fill by the scalar-filled filler -/
theorem fillna_stairs_scalar (f g : Stairs P) (hf : f.WF) (hg : g.WF) (hfg : f.closed = g.closed) (v : Val) :
    (fillnaStairs f g >>= fun k => pure (fillnaScalar k v)) = fillnaStairs f (fillnaScalar g v) := by
  unfold fillnaStairs
  rw [f7b_same_ok fillOp f g f.closed rfl hfg.symm,
      f7b_same_ok fillOp f (fillnaScalar g v) f.closed rfl hfg.symm]
  show Except.ok _ = Except.ok _
  congr 1
  have h1 := wf_combine fillOp f g f.closed hf hg
  have h2 : (fillnaScalar g v).WF := wf_map _ g hg
  apply f7b_ext _ _ (canonical_map _ _ h1) (canonical_combine _ _ _ _ hf h2) rfl
  intro o
  unfold fillnaScalar
  rw [f7b_obs_map _ _ h1, f7b_obs_combine _ _ _ _ hf hg, f7b_obs_combine _ _ _ _ hf (wf_map _ g hg),
      f7b_obs_map _ g hg, f7b_fillOp_assoc]

/-- filling from a total filler leaves nothing undefined -/
theorem fillna_stairs_total_of_total (f g r : Stairs P) (hf : f.WF) (hg : g.WF) (e : fillnaStairs f g = .ok r)
    (st : Bool) (x : P) (hgx : Den g st x ≠ none) : Den r st x ≠ none := by
  rw [(combineChecked_ok fillOp f g r hf hg e).2.2]
  cases Den f st x with
  | none => exact hgx
  | some q => simp [fillOp]

example : f₀.WF ∧ g₀.WF ∧ h₀.WF ∧ fillnaStairs f₀ f₀ = .ok f₀ ∧
    fillnaStairs f₀ (const (some 9) .left) = .ok (fillnaScalar f₀ (some 9)) ∧
    (fillnaStairs f₀ g₀ >>= fun k => fillnaStairs k h₀) = (fillnaStairs g₀ h₀ >>= fun gh => fillnaStairs f₀ gh) ∧
    (fillnaStairs f₀ g₀ >>= fun k => fillnaStairs k h₀)
      = .ok ⟨some 0, [(1, some 2), (3, some 1), (4, some 0), (5, some 4), (7, some 0)], .left⟩ := by
  decide +kernel

/-- `ffill` and `bfill` do not commute: an inner gap is filled from the left by the one, from the right by
the other -/
theorem bfill_ffill_ne_ffill_bfill : bfill (ffill f₀) ≠ ffill (bfill f₀) := by decide +kernel

end SC.Props.C07b
