import SCModel.Lemmas.Window
/-!
# C11 — slicing: per-interval statistics and `resample`

"For every interval I of the slicing index - overlapping, gapped or unordered alike - each slicer
statistic (mean, integral, median, mode, min, max, hist, agg, apply) equals the same statistic of f
restricted to I, with min and max honouring I's own endpoint closedness and ignoring points where f is
undefined.  For increasing slices that tile their span, resample(stat) equals f outside the span and the
constant stat(f restricted to I) on each slice I."

* a slice is `clip f I.left I.right`: `f` on the interval (closed on f's own side), undefined elsewhere;
  every slicer statistic other than min / max is the plain statistic applied to that slice, so it depends on
  nothing but `f` and `I` (no hypothesis on the order or overlap of the intervals is ever used);
* `slicerExtreme` (slicer min / max) adds the endpoint the slice cannot see by sampling `f` there and
  combines with `fmaxV` / `fminV`, which ignore undefined values: the result is the greatest / least value
  `f` takes at a defined point of `I` with I's own closedness (`slicer_max_spec`, `slicer_min_spec`);
* `resampleWith` : general formula `resample_general`; on increasing slices `resample_on_slice`,
  `resample_outside_span`, `resample_gap`; on tiling slices `resample_tiling`.
-/
set_option linter.unusedSectionVars false
namespace SC.Props.C11
open SC SC.Stairs

/-! ## 1. the slices -/

/-- `_create_slices`: one `clip` per interval, whatever the order / overlap of the intervals -/
theorem slices_eq (f : Stairs Rat) (ivs : List Iv) :
    slices f ivs = ivs.map fun iv => clip f (some iv.1) (some iv.2) := rfl

theorem slices_length (f : Stairs Rat) (ivs : List Iv) : (slices f ivs).length = ivs.length := by
  simp [slices]

/-- slice number `k` depends on interval number `k` only -/
theorem slices_getElem (f : Stairs Rat) (ivs : List Iv) (k : Nat) (hk : k < ivs.length) :
    (slices f ivs)[k]'(by rw [slices_length]; exact hk) = clip f (some ivs[k].1) (some ivs[k].2) := by
  simp [slices]

theorem slices_append (f : Stairs Rat) (ivs ivs' : List Iv) :
    slices f (ivs ++ ivs') = slices f ivs ++ slices f ivs' := by simp [slices]

/-- reordering the slicing index reorders the slices and changes nothing else -/
theorem slices_perm (f : Stairs Rat) (ivs ivs' : List Iv) (h : ivs.Perm ivs') :
    (slices f ivs).Perm (slices f ivs') := h.map _

/-- **a proper interval gives the slice "f restricted to I"**: canonical, f's closed side, equal to `f`
inside the window (`l ≤ x < r` for right limits, `l < x ≤ r` for left limits) and undefined elsewhere -/
theorem slice_spec (f : Stairs Rat) (hf : f.WF) (iv : Iv) (h : iv.1 < iv.2) :
    ∃ s, clip f (some iv.1) (some iv.2) = .ok s ∧ s.Canonical ∧ s.closed = f.closed ∧
      ∀ st x, Den s st x = if inWindow st (some iv.1) (some iv.2) x then Den f st x else none := by
  have hb : boundsOk (some iv.1) (some iv.2) = true := by simp [boundsOk, h]
  refine ⟨_, clip_ok f _ _ hb, ?_, ?_, fun st x => ?_⟩
  · exact (canonical_clip f _ _ hf hb _ (clip_ok f _ _ hb)).1
  · rfl
  · exact den_clip f _ _ hf hb _ (clip_ok f _ _ hb) st x

/-- every member of `slices f ivs` on a proper interval is such a restriction -/
theorem slices_spec (f : Stairs Rat) (hf : f.WF) (ivs : List Iv) (k : Nat) (hk : k < ivs.length)
    (h : ivs[k].1 < ivs[k].2) :
    ∃ s, (slices f ivs)[k]? = some (.ok s) ∧ s.Canonical ∧ s.closed = f.closed ∧
      ∀ st x, Den s st x = if inWindow st (some ivs[k].1) (some ivs[k].2) x then Den f st x else none := by
  obtain ⟨s, hs, h1, h2, h3⟩ := slice_spec f hf ivs[k] h
  refine ⟨s, ?_, h1, h2, h3⟩
  rw [List.getElem?_eq_getElem (by rw [slices_length]; exact hk), slices_getElem f ivs k hk, hs]

/-- the value *at* a point: the slice is `f` on `[l, r)` for a left-closed and on `(l, r]` for a
right-closed function -/
theorem slice_sample (f s : Stairs Rat) (hf : f.WF) (iv : Iv) (h : iv.1 < iv.2)
    (hs : clip f (some iv.1) (some iv.2) = .ok s) (x : Rat) :
    s.sample x = if inInterval (defaultIClosed f.closed) (some iv.1) (some iv.2) x then f.sample x else none := by
  have hb : boundsOk (some iv.1) (some iv.2) = true := by simp [boundsOk, h]
  rw [sample_clip f s hf _ _ hb hs]
  by_cases hw : inWindow (sampleSt f.closed) (some iv.1) (some iv.2) x = true
  · rw [if_pos hw, if_pos ((inWindow_iff_inInterval _ _ _ _).mp hw)]
  · rw [if_neg hw, if_neg (fun hi => hw ((inWindow_iff_inInterval _ _ _ _).mpr hi))]

/-- a degenerate or reversed interval: `ValueError` -/
theorem slice_error (f : Stairs Rat) (iv : Iv) (h : ¬ iv.1 < iv.2) :
    clip f (some iv.1) (some iv.2) = .error .valueError :=
  clip_error f _ _ (by simp [boundsOk, h])

/-- a slicer statistic other than min / max: the plain statistic of the slice (this is how `Driver.lean`
computes `mean`, `integral`, `median`, `mode`, `var`, … per interval) -/
def slicerStat {α : Type} (stat : Stairs Rat → α) (f : Stairs Rat) (iv : Iv) : Except Err α :=
  (clip f (some iv.1) (some iv.2)).map stat

/-- **slicer statistic = statistic of f restricted to I** -/
theorem slicerStat_spec {α : Type} (stat : Stairs Rat → α) (f : Stairs Rat) (hf : f.WF) (iv : Iv) (h : iv.1 < iv.2) :
    ∃ s, slicerStat stat f iv = .ok (stat s) ∧ s.Canonical ∧ s.closed = f.closed ∧
      ∀ st x, Den s st x = if inWindow st (some iv.1) (some iv.2) x then Den f st x else none := by
  obtain ⟨s, hs, h1, h2, h3⟩ := slice_spec f hf iv h
  exact ⟨s, by unfold slicerStat; rw [hs]; rfl, h1, h2, h3⟩

/-- … for the whole index at once, with no hypothesis on order, gaps or overlap -/
theorem slicerStat_map {α : Type} (stat : Stairs Rat → α) (f : Stairs Rat) (ivs : List Iv) :
    ivs.map (slicerStat stat f) = (slices f ivs).map (fun r => r.map stat) := by
  simp [slices, slicerStat, List.map_map, Function.comp_def]

/-! ## 2. slicer min / max -/

theorem fmax_ignores_undefined (a : Val) (x y : Rat) :
    fmaxV a none = a ∧ fmaxV none a = a ∧ fmaxV (some x) (some y) = some (max x y) :=
  ⟨fmaxV_none_right a, fmaxV_none_left a, fmaxV_some x y⟩
theorem fmin_ignores_undefined (a : Val) (x y : Rat) :
    fminV a none = a ∧ fminV none a = a ∧ fminV (some x) (some y) = some (min x y) :=
  ⟨fminV_none_right a, fminV_none_left a, fminV_some x y⟩
theorem fmax_comm_assoc_idem (a b c : Val) :
    fmaxV a b = fmaxV b a ∧ fmaxV (fmaxV a b) c = fmaxV a (fmaxV b c) ∧ fmaxV a a = a :=
  ⟨fmaxV_comm a b, fmaxV_assoc a b c, fmaxV_idem a⟩
theorem fmin_comm_assoc_idem (a b c : Val) :
    fminV a b = fminV b a ∧ fminV (fminV a b) c = fminV a (fminV b c) ∧ fminV a a = a :=
  ⟨fminV_comm a b, fminV_assoc a b c, fminV_idem a⟩

/-- the endpoint table: the slice of a left-closed function misses a closed right endpoint, the slice of a
right-closed function a closed left endpoint; nothing else is ever added -/
theorem slicerEndpoint_table :
    slicerEndpoint .left .right = some .right ∧ slicerEndpoint .left .both = some .right ∧
    slicerEndpoint .left .left = none ∧ slicerEndpoint .left .neither = none ∧
    slicerEndpoint .right .left = some .left ∧ slicerEndpoint .right .both = some .left ∧
    slicerEndpoint .right .right = none ∧ slicerEndpoint .right .neither = none := by decide

theorem slicerEndpoint_rule (cl : Side) (c : IClosed) :
    (slicerEndpoint cl c = some .right ↔ cl = .left ∧ hiStrict c = false) ∧
    (slicerEndpoint cl c = some .left ↔ cl = .right ∧ loStrict c = false) := by
  cases cl <;> cases c <;> decide

/-- what `slicerExtreme` computes: extreme of the slice, combined with `f` sampled at the endpoint of the
table (`endpointSample` is `none` when no endpoint is added) -/
theorem slicerExtreme_unfold (isMax : Bool) (f s : Stairs Rat) (c : IClosed) (iv : Iv)
    (hs : clip f (some iv.1) (some iv.2) = .ok s) :
    slicerExtreme isMax f c iv = .ok
      ((if isMax then fmaxV else fminV)
        (if isMax then maxIn s none none (defaultIClosed s.closed) else minIn s none none (defaultIClosed s.closed))
        (endpointSample f c iv)) :=
  slicerExtreme_eq isMax f s c iv hs

/-- the slice sees every point of `I` except possibly one closed endpoint -/
theorem interval_eq_slice_plus_endpoint (f : Stairs Rat) (hf : f.WF) (c : IClosed) (iv : Iv) (h : iv.1 < iv.2) (w : Rat) :
    ValuesOn f c (some iv.1) (some iv.2) w ↔
      ValuesOn f (defaultIClosed f.closed) (some iv.1) (some iv.2) w ∨ endpointSample f c iv = some w :=
  valuesOn_slicer f hf c iv h w

/-- **slicer max** = the greatest value `f` takes at a defined point of `I`, I's own closedness honoured;
undefined (`none`) iff `f` is undefined on all of `I` -/
theorem slicer_max_spec (f : Stairs Rat) (hf : f.WF) (c : IClosed) (iv : Iv) (h : iv.1 < iv.2) :
    ∃ m, slicerExtreme true f c iv = .ok m ∧ IsGreatestVal (ValuesOn f c (some iv.1) (some iv.2)) m :=
  slicerExtreme_max_spec f hf c iv h
/-- **slicer min** -/
theorem slicer_min_spec (f : Stairs Rat) (hf : f.WF) (c : IClosed) (iv : Iv) (h : iv.1 < iv.2) :
    ∃ m, slicerExtreme false f c iv = .ok m ∧ IsLeastVal (ValuesOn f c (some iv.1) (some iv.2)) m :=
  slicerExtreme_min_spec f hf c iv h

/-- the same in elementary terms -/
theorem slicer_max_some_iff (f : Stairs Rat) (hf : f.WF) (c : IClosed) (iv : Iv) (h : iv.1 < iv.2) (m : Rat) :
    slicerExtreme true f c iv = .ok (some m) ↔
      (∃ x, inInterval c (some iv.1) (some iv.2) x ∧ f.sample x = some m) ∧
      ∀ x w, inInterval c (some iv.1) (some iv.2) x → f.sample x = some w → w ≤ m := by
  obtain ⟨m', hm', hg⟩ := slicer_max_spec f hf c iv h
  rw [hm']
  constructor
  · intro he
    injection he with he; subst he
    exact ⟨hg.1, fun x w hx hw => hg.2 w ⟨x, hx, hw⟩⟩
  · rintro ⟨h1, h2⟩
    have : IsGreatestVal (ValuesOn f c (some iv.1) (some iv.2)) (some m) :=
      ⟨h1, fun w ⟨x, hx, hw⟩ => h2 x w hx hw⟩
    rw [isGreatestVal_unique _ _ _ hg this]

theorem slicer_min_some_iff (f : Stairs Rat) (hf : f.WF) (c : IClosed) (iv : Iv) (h : iv.1 < iv.2) (m : Rat) :
    slicerExtreme false f c iv = .ok (some m) ↔
      (∃ x, inInterval c (some iv.1) (some iv.2) x ∧ f.sample x = some m) ∧
      ∀ x w, inInterval c (some iv.1) (some iv.2) x → f.sample x = some w → m ≤ w := by
  obtain ⟨m', hm', hg⟩ := slicer_min_spec f hf c iv h
  rw [hm']
  constructor
  · intro he
    injection he with he; subst he
    exact ⟨hg.1, fun x w hx hw => hg.2 w ⟨x, hx, hw⟩⟩
  · rintro ⟨h1, h2⟩
    have : IsLeastVal (ValuesOn f c (some iv.1) (some iv.2)) (some m) :=
      ⟨h1, fun w ⟨x, hx, hw⟩ => h2 x w hx hw⟩
    rw [isLeastVal_unique _ _ _ hg this]

/-- undefined points are ignored: the extreme is undefined only if `f` is undefined on the whole interval -/
theorem slicer_extreme_none_iff (isMax : Bool) (f : Stairs Rat) (hf : f.WF) (c : IClosed) (iv : Iv) (h : iv.1 < iv.2) :
    slicerExtreme isMax f c iv = .ok none ↔
      ∀ x, inInterval c (some iv.1) (some iv.2) x → f.sample x = none := by
  have key : (∀ w, ¬ ValuesOn f c (some iv.1) (some iv.2) w) ↔
      ∀ x, inInterval c (some iv.1) (some iv.2) x → f.sample x = none := by
    constructor
    · intro hn x hx
      cases hv : f.sample x with
      | none => rfl
      | some v => exact absurd ⟨x, hx, hv⟩ (hn v)
    · rintro hn w ⟨x, hx, hv⟩
      rw [hn x hx] at hv; cases hv
  cases isMax with
  | true =>
    obtain ⟨m', hm', hg⟩ := slicer_max_spec f hf c iv h
    rw [hm', ← key]
    constructor
    · intro he; injection he with he; subst he; exact hg
    · intro hn; rw [isGreatestVal_unique _ _ none hg hn]
  | false =>
    obtain ⟨m', hm', hg⟩ := slicer_min_spec f hf c iv h
    rw [hm', ← key]
    constructor
    · intro he; injection he with he; subst he; exact hg
    · intro hn; rw [isLeastVal_unique _ _ none hg hn]

/-- the slicer extreme agrees with `max` / `min` of `f` itself over the window `I` with closedness `c` (C10) -/
theorem slicer_extreme_eq_window (f : Stairs Rat) (hf : f.WF) (c : IClosed) (iv : Iv) (h : iv.1 < iv.2) :
    slicerExtreme true f c iv = .ok (maxIn f (some iv.1) (some iv.2) c) ∧
    slicerExtreme false f c iv = .ok (minIn f (some iv.1) (some iv.2) c) := by
  have hb : boundsOk (some iv.1) (some iv.2) = true := by simp [boundsOk, h]
  obtain ⟨m, hm, hg⟩ := slicer_max_spec f hf c iv h
  obtain ⟨m', hm', hl⟩ := slicer_min_spec f hf c iv h
  rw [hm, hm', isGreatestVal_unique _ _ _ hg (maxIn_isGreatest f hf _ _ c hb),
    isLeastVal_unique _ _ _ hl (minIn_isLeast f hf _ _ c hb)]
  exact ⟨rfl, rfl⟩

theorem slicer_extreme_error (isMax : Bool) (f : Stairs Rat) (c : IClosed) (iv : Iv) (h : ¬ iv.1 < iv.2) :
    slicerExtreme isMax f c iv = .error .valueError := slicerExtreme_error isMax f c iv h

/-! ## 3. `resample` -/

/-- the span `[lb, rb]` of the slicing index, as `resampleWith` computes it -/
theorem span_bounds (iv0 : Iv) (rest : List Iv) :
    (∀ iv ∈ iv0 :: rest, spanLo iv0 (iv0 :: rest) ≤ iv.1 ∧ iv.2 ≤ spanHi iv0 (iv0 :: rest)) ∧
    (∃ iv ∈ iv0 :: rest, spanLo iv0 (iv0 :: rest) = iv.1) ∧
    (∃ iv ∈ iv0 :: rest, spanHi iv0 (iv0 :: rest) = iv.2) := by
  refine ⟨fun iv hiv => ⟨(spanLo_spec iv0 _).2.2 iv hiv, (spanHi_spec iv0 _).2.2 iv hiv⟩, ?_, ?_⟩
  · rcases (spanLo_spec iv0 (iv0 :: rest)).1 with h | h
    · exact ⟨iv0, by simp, h⟩
    · obtain ⟨iv, hiv, he⟩ := List.mem_map.mp h
      exact ⟨iv, hiv, he.symm⟩
  · rcases (spanHi_spec iv0 (iv0 :: rest)).1 with h | h
    · exact ⟨iv0, by simp, h⟩
    · obtain ⟨iv, hiv, he⟩ := List.mem_map.mp h
      exact ⟨iv, hiv, he.symm⟩

theorem resample_empty (f : Stairs Rat) (vals : List Rat) : resampleWith f [] vals = .error .valueError := rfl

/-- **general form**, any proper intervals (unordered, overlapping, gapped): `0` on the span / `f` outside
it, plus the constants of all slices whose window contains the point; canonical-form bookkeeping aside the
result is well-formed and keeps f's closed side -/
theorem resample_general (f : Stairs Rat) (hf : f.WF) (iv0 : Iv) (rest : List Iv) (vals : List Rat)
    (hp : Proper (iv0 :: rest)) :
    ∃ h, resampleWith f (iv0 :: rest) vals = .ok h ∧ h.WF ∧ h.closed = f.closed ∧
      ∀ st x, Den h st x =
        vadd (if inWindow st (some (spanLo iv0 (iv0 :: rest))) (some (spanHi iv0 (iv0 :: rest))) x then some 0
              else Den f st x)
          (some ((((iv0 :: rest).zip vals).map (bump st x)).sum)) :=
  den_resampleWith f hf iv0 rest vals hp

/-- **outside the span the result is `f`** (no order hypothesis needed) -/
theorem resample_outside_span (f h : Stairs Rat) (hf : f.WF) (iv0 : Iv) (rest : List Iv) (vals : List Rat)
    (hp : Proper (iv0 :: rest)) (hres : resampleWith f (iv0 :: rest) vals = .ok h) (st : Bool) (x : Rat)
    (hx : inWindow st (some (spanLo iv0 (iv0 :: rest))) (some (spanHi iv0 (iv0 :: rest))) x = false) :
    Den h st x = Den f st x := by
  obtain ⟨h', hres', _, _, hden⟩ := den_resampleWith f hf iv0 rest vals hp
  rw [hres] at hres'; injection hres' with hres'; subst hres'
  rw [hden, hx, sum_bump_zero]
  · simp [vadd_zero_w]
  · intro ivv hivv
    have hmem := (List.of_mem_zip hivv).1
    cases hc : inWindow st (some ivv.1.1) (some ivv.1.2) x with
    | false => rfl
    | true =>
      have := inWindow_mono st _ _ _ _ x ((spanLo_spec iv0 _).2.2 _ hmem) ((spanHi_spec iv0 _).2.2 _ hmem) hc
      rw [hx] at this; cases this

/-- **on slice `k` of increasing slices the result is the constant `vals[k]`** (whatever `f` is there,
defined or not) -/
theorem resample_on_slice (f h : Stairs Rat) (hf : f.WF) (iv0 : Iv) (rest : List Iv) (vals : List Rat)
    (hp : Proper (iv0 :: rest)) (hinc : Increasing (iv0 :: rest)) (hlen : vals.length = (iv0 :: rest).length)
    (hres : resampleWith f (iv0 :: rest) vals = .ok h) (k : Nat) (hk : k < (iv0 :: rest).length)
    (st : Bool) (x : Rat)
    (hx : inWindow st (some (iv0 :: rest)[k].1) (some (iv0 :: rest)[k].2) x = true) :
    Den h st x = some (vals[k]'(by rw [hlen]; exact hk)) := by
  obtain ⟨h', hres', _, _, hden⟩ := den_resampleWith f hf iv0 rest vals hp
  rw [hres] at hres'; injection hres' with hres'; subst hres'
  have hmem : (iv0 :: rest)[k] ∈ iv0 :: rest := List.getElem_mem hk
  have hspan := inWindow_mono st _ _ _ _ x ((spanLo_spec iv0 _).2.2 _ hmem) ((spanHi_spec iv0 _).2.2 _ hmem) hx
  have hkl : k < ((iv0 :: rest).zip vals).length := by rw [List.length_zip, hlen]; simpa using hk
  have hpw : ((iv0 :: rest).zip vals).Pairwise (fun p q => p.1.2 ≤ q.1.1) := by
    have h1 := pairwise_of_increasing _ hp hinc
    have h2 : ((iv0 :: rest).zip vals).map Prod.fst = iv0 :: rest := List.map_fst_zip (by rw [hlen])
    rw [← h2, List.pairwise_map] at h1
    exact h1
  have hget : ((iv0 :: rest).zip vals)[k] = ((iv0 :: rest)[k], vals[k]'(by rw [hlen]; exact hk)) :=
    List.getElem_zip
  rw [hden, hspan, sum_bump_single st x _ hpw k hkl (by rw [hget]; exact hx), hget]
  simp [vadd, vlift2]

/-- in a gap between the slices (inside the span, in no slice) the result is `0`, not `f`:
this is why the property asks for slices that tile their span -/
theorem resample_gap (f h : Stairs Rat) (hf : f.WF) (iv0 : Iv) (rest : List Iv) (vals : List Rat)
    (hp : Proper (iv0 :: rest)) (hres : resampleWith f (iv0 :: rest) vals = .ok h) (st : Bool) (x : Rat)
    (hx : inWindow st (some (spanLo iv0 (iv0 :: rest))) (some (spanHi iv0 (iv0 :: rest))) x = true)
    (hno : ∀ iv ∈ iv0 :: rest, inWindow st (some iv.1) (some iv.2) x = false) :
    Den h st x = some 0 := by
  obtain ⟨h', hres', _, _, hden⟩ := den_resampleWith f hf iv0 rest vals hp
  rw [hres] at hres'; injection hres' with hres'; subst hres'
  rw [hden, hx, sum_bump_zero _ _ _ (fun ivv hivv => hno ivv.1 (List.of_mem_zip hivv).1)]
  simp [vadd, vlift2]

/-- tiling slices leave no gap: a point in no slice is outside the span -/
theorem tiling_no_gap (iv0 : Iv) (rest : List Iv) (hp : Proper (iv0 :: rest)) (ht : Tiles (iv0 :: rest))
    (st : Bool) (x : Rat) (hno : ∀ iv ∈ iv0 :: rest, inWindow st (some iv.1) (some iv.2) x = false) :
    inWindow st (some (spanLo iv0 (iv0 :: rest))) (some (spanHi iv0 (iv0 :: rest))) x = false := by
  obtain ⟨_, ⟨ivl, hivl, hlo⟩, ⟨ivr, hivr, hhi⟩⟩ := span_bounds iv0 rest
  rw [inWindow_some, hlo, hhi]
  rcases tiles_cover st x _ hp ht with hc | ⟨iv, hiv, hw⟩ | hc
  · rw [hc ivl hivl]; rfl
  · rw [hno iv hiv] at hw; cases hw
  · rw [hc ivr hivr]; simp

/-- **resample on increasing slices that tile their span**: the constant `vals[k]` on slice `k`, and `f`
at every point that lies in no slice (= outside the span).  Both one-sided limits (`st`), so the
statement covers the values at the slice boundaries under either closed convention. -/
theorem resample_tiling (f : Stairs Rat) (hf : f.WF) (iv0 : Iv) (rest : List Iv) (vals : List Rat)
    (hp : Proper (iv0 :: rest)) (ht : Tiles (iv0 :: rest)) (hlen : vals.length = (iv0 :: rest).length) :
    ∃ h, resampleWith f (iv0 :: rest) vals = .ok h ∧ h.WF ∧ h.closed = f.closed ∧ ∀ st x,
      (∀ k (hk : k < (iv0 :: rest).length),
        inWindow st (some (iv0 :: rest)[k].1) (some (iv0 :: rest)[k].2) x = true →
        Den h st x = some (vals[k]'(by rw [hlen]; exact hk))) ∧
      ((∀ iv ∈ iv0 :: rest, inWindow st (some iv.1) (some iv.2) x = false) → Den h st x = Den f st x) := by
  obtain ⟨h, hres, hw, hc, _⟩ := den_resampleWith f hf iv0 rest vals hp
  refine ⟨h, hres, hw, hc, fun st x => ⟨fun k hk hx => ?_, fun hno => ?_⟩⟩
  · exact resample_on_slice f h hf iv0 rest vals hp (increasing_of_tiles _ ht) hlen hres k hk st x hx
  · exact resample_outside_span f h hf iv0 rest vals hp hres st x (tiling_no_gap iv0 rest hp ht st x hno)

/-- a single slice: `v` on the slice, `f` elsewhere -/
theorem resample_single (f : Stairs Rat) (hf : f.WF) (iv : Iv) (v : Rat) (hiv : iv.1 < iv.2) :
    ∃ h, resampleWith f [iv] [v] = .ok h ∧ h.WF ∧ h.closed = f.closed ∧
      ∀ st x, Den h st x = if inWindow st (some iv.1) (some iv.2) x then some v else Den f st x := by
  have hp : Proper [iv] := fun iv' h' => by rw [List.mem_singleton.mp h']; exact hiv
  obtain ⟨h, hres, hw, hc, hspec⟩ := resample_tiling f hf iv [] [v] hp trivial rfl
  refine ⟨h, hres, hw, hc, fun st x => ?_⟩
  by_cases hx : inWindow st (some iv.1) (some iv.2) x = true
  · rw [if_pos hx]; exact (hspec st x).1 0 (by simp) hx
  · rw [if_neg hx]
    exact (hspec st x).2 (fun iv' h' => by rw [List.mem_singleton.mp h']; simpa using hx)

/-- the driver's precondition `nonOverlapping` gives `Increasing`; tiling slices satisfy it for every
closedness except 'both' (where touching endpoints would belong to two slices) -/
theorem increasing_of_check (c : IClosed) (ivs : List Iv) (h : nonOverlapping c ivs = true) : Increasing ivs :=
  increasing_of_nonOverlapping c ivs h

theorem tiles_nonOverlapping (c : IClosed) (hc : c ≠ .both) (ivs : List Iv) (ht : Tiles ivs) :
    nonOverlapping c ivs = true := by
  induction ivs with
  | nil => rfl
  | cons a r ih =>
    cases r with
    | nil => rfl
    | cons b r' =>
      simp only [nonOverlapping, hc, if_false, Bool.and_eq_true, decide_eq_true_eq]
      exact ⟨le_of_eq ht.1, ih ht.2⟩

/-! ## 5. non-vacuity: a right-closed function with an undefined piece, 'both'-closed intervals -/

/-- pieces `(-∞,2] ↦ 1`, `(2,4] ↦ 3`, `(4,6] ↦ NaN`, `(6,8] ↦ 5`, `(8,∞) ↦ 2` -/
def fR : Stairs Rat := ⟨some 1, [(2, some 3), (4, none), (6, some 5), (8, some 2)], .right⟩

example : fR.WF := by decide +kernel
-- slices for overlapping, unordered and reversed intervals alike
example : slices fR [(4, 6), (2, 6), (6, 2)] =
    [.ok ⟨none, [], .right⟩, .ok ⟨none, [(2, some 3), (4, none)], .right⟩, .error .valueError] := by
  decide +kernel
-- on [2,6] the slice (2,6] misses the closed left endpoint, where fR = 1; NaN on (4,6] is ignored
example : slicerExtreme true fR .both (2, 6) = .ok (some 3) := by decide +kernel
example : slicerExtreme false fR .both (2, 6) = .ok (some 1) := by decide +kernel
example : slicerExtreme false fR .right (2, 6) = .ok (some 3) := by decide +kernel
-- on [4,6] the slice is undefined everywhere; only the sampled endpoint fR(4) = 3 is left
example : slicerExtreme true fR .both (4, 6) = .ok (some 3) := by decide +kernel
example : slicerExtreme true fR .right (4, 6) = .ok none := by decide +kernel
example : slicerExtreme true fR .both (6, 4) = .error .valueError := by decide +kernel
-- agreement with C10's windows
example : maxIn fR (some 2) (some 6) .both = some 3 ∧ minIn fR (some 2) (some 6) .both = some 1 := by decide +kernel
-- resample on tiling slices: f outside, constants inside (also where f was undefined)
example : resampleWith fR [(2, 4), (4, 8)] [10, 20] =
    .ok ⟨some 1, [(2, some 10), (4, some 20), (8, some 2)], .right⟩ := by decide +kernel
example : Tiles [(2, 4), (4, 8)] ∧ Proper [((2 : Rat), (4 : Rat)), (4, 8)] := by
  refine ⟨⟨rfl, trivial⟩, ?_⟩
  intro iv h
  simp only [List.mem_cons, List.not_mem_nil, or_false] at h
  rcases h with rfl | rfl <;> decide +kernel
-- gapped slices: 0 in the gap (4,6]
example : resampleWith fR [(2, 4), (6, 8)] [10, 20] =
    .ok ⟨some 1, [(2, some 10), (4, some 0), (6, some 20), (8, some 2)], .right⟩ := by decide +kernel
-- overlapping slices: the constants add up on the overlap (4,6]
example : resampleWith fR [(2, 6), (4, 8)] [10, 20] =
    .ok ⟨some 1, [(2, some 10), (4, some 30), (6, some 20), (8, some 2)], .right⟩ := by decide +kernel
example : resampleWith fR [(5, 7)] [10] =
    .ok ⟨some 1, [(2, some 3), (4, none), (5, some 10), (7, some 5), (8, some 2)], .right⟩ := by decide +kernel

end SC.Props.C11
