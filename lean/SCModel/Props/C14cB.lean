import SCModel.Props.C14cA
import SCModel.Props.C08b
import SCModel.Lemmas.Cache14c
/-!
# C14cB — seeded cache defects (part B): the incrementally updated (integral, mean) cache

(overview and table: `Props/C14c.lean`)

0'. `InvRun V o ops`: every `layer` call of the variant run lands in a state with valid caches; `invRun_correct`
   (⇒ all answers right), `invRun_iff` (⇔ caches valid after every prefix); worlds: `InvRunW`, `invRunW_correct`.
4. `layerIncremental`: a bounded scalar layer `[s, e) ↦ +v` inside the span of the step points updates the cached
   integral by `v·(e − s)` and re-derives the mean with the old defined length.
   * `layer_inside_span`: if the extent (first / last step point) does not change, `integral` grows by
     `v · lenOn f s e` (defined length of `f` within `[s, e)`) and the defined length stays (span lemma +
     window additivity + `affine_window`);
   * `incr_integral_right_iff(_defined)`: so the update is right iff `v = 0` or `f` is defined throughout `[s, e)`
     (`lenOn_full_iff`);
   * `layerIncremental_inv_iff` (one step), `incr_class_iff` (histories), `incrRight_of_structural` (sufficient:
     defined throughout + same extent), `incr_correct_on_class`, `incr_world_correct`;
   * refutations `layerIncremental_refuted_extent` (first step cancelled: mean wrong), `…_outside` (non-zero value
     outside the step points: integral wrong), `…_undefined` (undefined stretch: integral wrong), `…_world`.
-/
set_option linter.unusedSectionVars false
set_option linter.unusedVariables false
namespace SC.Props.C14c
open SC SC.Stairs SC.Obj SC.Props.C14 SC.Props.C14b SC.Props.C19b

/-! ## 0'. variants that keep caches *valid* without being faithful -/

/-- every `layer` call of the variant run lands in a state with valid caches -/
def InvRun (V : Variant) (o : Obj) : List HOp → Prop
  | [] => True
  | .layer ts :: r => CacheInv (V.lay o ts) ∧ InvRun V (V.lay o ts) r
  | .query q :: r => InvRun V (o.query q).1 r

/-- the variant computes the right function -/
def Variant.RightFunction (V : Variant) : Prop := ∀ o ts, (V.lay o ts).f = layerF o.f ts

/-- **valid caches ⇒ right answers**, for any layer-only variant computing the right function -/
theorem invRun_correct (V : Variant) (hV : V.LayerOnly) (hf : V.RightFunction) (o : Obj) (ops : List HOp)
    (hc : CacheInv o) (h : InvRun V o ops) :
    (V.run o ops).2 = specRun o.f ops ∧ (V.run o ops).1.f = specFinal o.f ops ∧ CacheInv (V.run o ops).1 := by
  have hq : V.qry = Obj.query := hV
  induction ops generalizing o with
  | nil => exact ⟨rfl, rfl, hc⟩
  | cons op r ih =>
    cases op with
    | layer ts =>
      obtain ⟨i1, i2, i3⟩ := ih (V.lay o ts) h.1 h.2
      simp only [Variant.run, Variant.step, specRun, specFinal]
      rw [hf o ts] at i1 i2
      exact ⟨by rw [i1], i2, i3⟩
    | query q =>
      obtain ⟨q1, q2, q3⟩ := query_spec o q hc
      obtain ⟨i1, i2, i3⟩ := ih (o.query q).1 q3 h
      simp only [Variant.run, Variant.step, specRun, specFinal, hq]
      rw [q2] at i1 i2
      exact ⟨by rw [i1, q1], i2, i3⟩

/-- **exactly**: `InvRun` says that the caches are valid after every prefix of the history -/
theorem invRun_iff (V : Variant) (hV : V.LayerOnly) (o : Obj) (ops : List HOp) (hc : CacheInv o) :
    InvRun V o ops ↔ ∀ pre post, ops = pre ++ post → CacheInv (V.run o pre).1 := by
  have hq : V.qry = Obj.query := hV
  induction ops generalizing o with
  | nil =>
    refine ⟨fun _ pre post he => ?_, fun _ => trivial⟩
    have : pre = [] := by
      cases pre with
      | nil => rfl
      | cons a r => cases he
    subst this; exact hc
  | cons op r ih =>
    constructor
    · intro h pre post he
      cases pre with
      | nil => exact hc
      | cons x pre' =>
        injection he with hx hr; subst hx
        cases op with
        | layer ts => exact (ih (V.lay o ts) h.1).1 h.2 pre' post hr
        | query q =>
          simp only [Variant.run, Variant.step, hq]
          exact (ih (o.query q).1 (query_spec o q hc).2.2).1 h pre' post hr
    · intro h
      cases op with
      | layer ts =>
        have h1 : CacheInv (V.lay o ts) := h [.layer ts] r rfl
        exact ⟨h1, (ih (V.lay o ts) h1).2 (fun pre post he => h (.layer ts :: pre) post (by rw [he]; rfl))⟩
      | query q =>
        refine (ih (o.query q).1 (query_spec o q hc).2.2).2 (fun pre post he => ?_)
        have := h (.query q :: pre) post (by rw [he]; rfl)
        simpa only [Variant.run, Variant.step, hq] using this

/-! ## 4. `layerIncremental` — a bounded scalar layer inside the span updates the cached integral in place -/

/-- `[s, e)` is a proper interval inside the span (first to last step point) of `f` -/
def insideSpan (f : Stairs Rat) (s e : Rat) : Bool :=
  match f.steps.head?.map Prod.fst, f.steps.getLast?.map Prod.fst with
  | some a, some b => decide (s < e) && decide (a ≤ s) && decide (e ≤ b)
  | _, _ => false

/-- the incremental path is taken: one bounded scalar triple inside the span, (integral, mean) cached and both
defined, receiver not everywhere undefined; yields `(s, e, v, cached integral)` -/
def incrEligible (o : Obj) (ts : List (Triple Rat)) : Option (Rat × Rat × Rat × Rat) :=
  match ts, o.im with
  | [⟨some s, some e, v⟩], some (some I, some _) =>
    if !allUndefined o.f && insideSpan o.f s e then some (s, e, v, I) else none
  | _, _ => none

/-- **defective variant**: instead of dropping the (integral, mean) cache the cached integral is updated by
`v·(e − s)` and the mean re-derived with the OLD defined extent -/
def layerIncremental (o : Obj) (ts : List (Triple Rat)) : Obj :=
  match incrEligible o ts with
  | some (s, e, v, I) =>
    { f := Stairs.layer o.f ts,
      im := some (some (I + v * (e - s)), some ((I + v * (e - s)) / definedLength o.f)),
      dist := none }
  | none => o.layer ts

def incrV : Variant := ⟨layerIncremental, Obj.query⟩

section Helpers

theorem h14c_incrEligible_spec (o : Obj) (ts : List (Triple Rat)) (s e v I : Rat)
    (h : incrEligible o ts = some (s, e, v, I)) :
    ts = [⟨some s, some e, v⟩] ∧ (∃ m, o.im = some (some I, some m)) ∧ allUndefined o.f = false ∧
      insideSpan o.f s e = true := by
  unfold incrEligible at h
  split at h
  · rename_i s' e' v' I' m' him
    split at h
    · rename_i hc
      injection h with h; injection h with h1 h; injection h with h2 h; injection h with h3 h4
      subst h1; subst h2; subst h3; subst h4
      simp only [Bool.and_eq_true, Bool.not_eq_true'] at hc
      exact ⟨rfl, ⟨m', him⟩, hc.1, hc.2⟩
    · cases h
  · cases h

theorem h14c_insideSpan_spec (f : Stairs Rat) (s e : Rat) (h : insideSpan f s e = true) :
    ∃ a b, f.steps.head?.map Prod.fst = some a ∧ f.steps.getLast?.map Prod.fst = some b ∧ s < e ∧ a ≤ s ∧ e ≤ b := by
  unfold insideSpan at h
  split at h
  · rename_i a b ha hb
    simp only [Bool.and_eq_true, decide_eq_true_eq] at h
    exact ⟨a, b, ha, hb, h.1.1, h.1.2, h.2⟩
  · cases h

/-- a piece of the window on which the layered bump is the constant `κ` -/
theorem h14c_piece (f f' : Stairs Rat) (hf : f.WF) (hf' : f'.WF) (s e v : Rat)
    (hden : ∀ x, Den f' false x = vadd (Den f false x) (some (if s ≤ x ∧ x < e then v else 0)))
    (c d κ : Rat) (hcd : c < d) (hκ : ∀ x, c ≤ x → x < d → (if s ≤ x ∧ x < e then v else 0) = κ) :
    lenOn f' c d = lenOn f c d ∧ intOn f' c d = intOn f c d + κ * lenOn f c d := by
  obtain ⟨h1, h2, _⟩ := C08b.affine_window f f' hf hf' c d hcd 1 κ (fun x h1 h2 => by
    rw [hden x, hκ x h1 h2]
    cases Den f false x <;> simp [vadd, vlift2])
  exact ⟨h1, by rw [h2]; ring⟩

/-- **the bump formula**: layering `v` on `[s, e) ⊆ [a, b)` adds `v ·` (defined length of `f` within `[s, e)`) to
the integral sum over `[a, b)` and leaves the defined length alone -/
theorem h14c_bump (f f' : Stairs Rat) (hf : f.WF) (hf' : f'.WF) (s e v a b : Rat) (hse : s < e) (has : a ≤ s)
    (heb : e ≤ b)
    (hden : ∀ x, Den f' false x = vadd (Den f false x) (some (if s ≤ x ∧ x < e then v else 0))) :
    lenOn f' a b = lenOn f a b ∧ intOn f' a b = intOn f a b + v * lenOn f s e := by
  have pM := h14c_piece f f' hf hf' s e v hden s e v hse (fun x h1 h2 => by rw [if_pos ⟨h1, h2⟩])
  rcases lt_or_eq_of_le has with has | has
  · have pL := h14c_piece f f' hf hf' s e v hden a s 0 has (fun x h1 h2 => by
      rw [if_neg (fun h => absurd h.1 (not_le.mpr h2))])
    rcases lt_or_eq_of_le heb with heb | heb
    · have pR := h14c_piece f f' hf hf' s e v hden e b 0 heb (fun x h1 h2 => by
        rw [if_neg (fun h => absurd h.2 (not_lt.mpr h1))])
      have a1 := intOn_add f hf a s b has (lt_trans hse heb)
      have a2 := intOn_add f hf s e b hse heb
      have a3 := intOn_add f' hf' a s b has (lt_trans hse heb)
      have a4 := intOn_add f' hf' s e b hse heb
      have l1 := lenOn_add f hf a s b has (lt_trans hse heb)
      have l2 := lenOn_add f hf s e b hse heb
      have l3 := lenOn_add f' hf' a s b has (lt_trans hse heb)
      have l4 := lenOn_add f' hf' s e b hse heb
      constructor <;> linarith [pL.1, pL.2, pM.1, pM.2, pR.1, pR.2]
    · subst heb
      have a1 := intOn_add f hf a s e has hse
      have a3 := intOn_add f' hf' a s e has hse
      have l1 := lenOn_add f hf a s e has hse
      have l3 := lenOn_add f' hf' a s e has hse
      constructor <;> linarith [pL.1, pL.2, pM.1, pM.2]
  · subst has
    rcases lt_or_eq_of_le heb with heb | heb
    · have pR := h14c_piece f f' hf hf' a e v hden e b 0 heb (fun x h1 h2 => by
        rw [if_neg (fun h => absurd h.2 (not_lt.mpr h1))])
      have a2 := intOn_add f hf a e b hse heb
      have a4 := intOn_add f' hf' a e b hse heb
      have l2 := lenOn_add f hf a e b hse heb
      have l4 := lenOn_add f' hf' a e b hse heb
      constructor <;> linarith [pM.1, pM.2, pR.1, pR.2]
    · subst heb
      exact pM

theorem h14c_den_layer_single (f : Stairs Rat) (hf : f.WF) (s e v : Rat) (hse : s < e) (x : Rat) :
    Den (Stairs.layer f [⟨some s, some e, v⟩]) false x
      = vadd (Den f false x) (some (if s ≤ x ∧ x < e then v else 0)) := by
  show Den (layer1 f ⟨some s, some e, v⟩) false x = _
  rw [den_layer1_w f hf s e v hse false x]
  by_cases h : s ≤ x ∧ x < e
  · rw [if_pos h, if_pos ((inWindow_right_iff s e x).mpr h)]
  · rw [if_neg h, if_neg (fun h' => h ((inWindow_right_iff s e x).mp h'))]

end Helpers

/-- the variant computes the right function -/
theorem incr_rightFunction : incrV.RightFunction := by
  intro o ts
  show (layerIncremental o ts).f = _
  unfold layerIncremental
  split
  · rename_i s e v I h
    obtain ⟨_, _, hu, _⟩ := h14c_incrEligible_spec o ts s e v I h
    unfold layerF; rw [hu]; rfl
  · exact layer_f o ts

/-- **the statistics after a bounded scalar layer inside the span, when the extent (first / last step point) does
not change**: the integral grows by `v ·` (the defined length of `f` within `[s, e)`), the defined length stays -/
theorem layer_inside_span (f : Stairs Rat) (hf : f.WF) (s e v : Rat) (hi : insideSpan f s e = true)
    (he : SameEnds (Stairs.layer f [⟨some s, some e, v⟩]) f) :
    integral (Stairs.layer f [⟨some s, some e, v⟩]) = (integral f).map (· + v * lenOn f s e) ∧
    definedLength (Stairs.layer f [⟨some s, some e, v⟩]) = definedLength f ∧
    (integral f).isSome = true := by
  obtain ⟨a, b, ha, hb, hse, has, heb⟩ := h14c_insideSpan_spec f s e hi
  have hab : a < b := lt_of_le_of_lt has (lt_of_lt_of_le hse heb)
  have hf' : (Stairs.layer f [⟨some s, some e, v⟩]).WF := wf_layer_w f hf _
  obtain ⟨i1, l1, _⟩ := h14c_stats_span f hf a b ha hb hab
  obtain ⟨i2, l2, _⟩ := h14c_stats_span _ hf' a b (he.1.trans ha) (he.2.trans hb) hab
  obtain ⟨bl, bi⟩ := h14c_bump f _ hf hf' s e v a b hse has heb (h14c_den_layer_single f hf s e v hse)
  refine ⟨?_, ?_, ?_⟩
  · rw [i2, i1, bi]; rfl
  · rw [l2, l1, bl]
  · rw [i1]; rfl

/-- **the integral update `+ v·(e − s)` is right exactly when** `v = 0` or `f` is defined on all of `[s, e)` up to
length zero (`lenOn f s e = e − s`) — given an unchanged extent -/
theorem incr_integral_right_iff (f : Stairs Rat) (hf : f.WF) (s e v I : Rat) (hi : insideSpan f s e = true)
    (he : SameEnds (Stairs.layer f [⟨some s, some e, v⟩]) f) (hI : integral f = some I) :
    integral (Stairs.layer f [⟨some s, some e, v⟩]) = some (I + v * (e - s)) ↔ (v = 0 ∨ lenOn f s e = e - s) := by
  rw [(layer_inside_span f hf s e v hi he).1, hI]
  show some (I + v * lenOn f s e) = some (I + v * (e - s)) ↔ _
  constructor
  · intro h
    injection h with h
    have h' : v * (lenOn f s e - (e - s)) = 0 := by linarith
    rcases mul_eq_zero.1 h' with h0 | h0
    · exact Or.inl h0
    · exact Or.inr (by linarith)
  · rintro (h | h)
    · rw [h]; simp
    · rw [h]

/-- … in particular when `f` is defined throughout `[s, e)` -/
theorem incr_integral_right (f : Stairs Rat) (hf : f.WF) (s e v I : Rat) (hi : insideSpan f s e = true)
    (he : SameEnds (Stairs.layer f [⟨some s, some e, v⟩]) f) (hI : integral f = some I)
    (hd : ∀ x, s ≤ x → x < e → ∃ y, Den f false x = some y) :
    integral (Stairs.layer f [⟨some s, some e, v⟩]) = some (I + v * (e - s)) := by
  obtain ⟨a, b, ha, hb, hse, has, heb⟩ := h14c_insideSpan_spec f s e hi
  exact (incr_integral_right_iff f hf s e v I hi he hI).2 (Or.inr (lenOn_defined f hf s e hse hd))

section Helpers
/-- the defined length of `f` and of its "complement" (defined exactly where `f` is not) add up to the window length -/
theorem h14c_lenOn_complement (f : Stairs Rat) (hf : f.WF) (s e : Rat) (hse : s < e) :
    lenOn f s e + lenOn (Stairs.map (fun v => match v with | some _ => none | none => some 1) f) s e = e - s := by
  let u : Val → Val := fun v => match v with | some _ => none | none => some 1
  let op : Val → Val → Val := fun a b => match a, b with | none, none => none | _, _ => some 1
  have hN : (Stairs.map u f).WF := wf_map u f hf
  have hT : (Stairs.map (fun _ => some 1) f).WF := wf_map _ f hf
  have hden : ∀ x, Den (window (Stairs.map (fun _ => some 1) f) s e) false x
      = op (Den (window f s e) false x) (Den (window (Stairs.map u f) s e) false x) := by
    intro x
    rw [den_window_right _ s e hT hse, den_window_right f s e hf hse, den_window_right _ s e hN hse,
      den_map _ f hf, den_map u f hf]
    by_cases hx : s ≤ x ∧ x < e
    · simp only [if_pos hx]; cases Den f false x <;> rfl
    · simp only [if_neg hx]; rfl
  obtain ⟨g, _, hA, hB, hC⟩ := i8b_grid_op op (window f s e) (window (Stairs.map u f) s e)
    (window (Stairs.map (fun _ => some 1) f) s e) (wf_window f s e hf hse) (wf_window _ s e hN hse)
    (wf_window _ s e hT hse) (window_bounded f s e hf hse) (window_bounded _ s e hN hse)
    (window_bounded _ s e hT hse) hden
  have hfull : lenOn (Stairs.map (fun _ => some 1) f) s e = e - s :=
    lenOn_defined _ hT s e hse (fun p _ _ => ⟨1, by rw [den_map _ f hf]⟩)
  rw [← hfull, lenOn_eq_wsum, lenOn_eq_wsum, lenOn_eq_wsum, hA, hB, hC, ← sumBy_add]
  apply sumBy_congr
  intro pq _
  rw [den_window_right f s e hf hse, den_window_right _ s e hN hse, den_map u f hf]
  by_cases hx : s ≤ pq.1 ∧ pq.1 < e
  · simp only [if_pos hx]; cases Den f false pq.1 <;> simp [op, u, liftW]
  · simp only [if_neg hx]; simp [op, liftW]
end Helpers

/-- **the defined length of `f` within `[s, e)` is the whole length iff `f` is defined throughout `[s, e)`** -/
theorem lenOn_full_iff (f : Stairs Rat) (hf : f.WF) (s e : Rat) (hse : s < e) :
    lenOn f s e = e - s ↔ ∀ x, s ≤ x → x < e → ∃ y, Den f false x = some y := by
  constructor
  · intro h x h1 h2
    have hc := h14c_lenOn_complement f hf s e hse
    have h0 : lenOn (Stairs.map (fun v => match v with | some _ => none | none => some 1) f) s e = 0 := by
      linarith
    have := (C08b.lenOn_eq_zero_iff _ (wf_map _ f hf) s e hse).1 h0 x h1 h2
    rw [den_map _ f hf] at this
    cases hd : Den f false x with
    | none => rw [hd] at this; cases this
    | some y => exact ⟨y, rfl⟩
  · exact lenOn_defined f hf s e hse

/-- **the integral update is right exactly when** (extent unchanged) `v = 0` or `f` is defined throughout `[s, e)` -/
theorem incr_integral_right_iff_defined (f : Stairs Rat) (hf : f.WF) (s e v I : Rat) (hi : insideSpan f s e = true)
    (he : SameEnds (Stairs.layer f [⟨some s, some e, v⟩]) f) (hI : integral f = some I) :
    integral (Stairs.layer f [⟨some s, some e, v⟩]) = some (I + v * (e - s)) ↔
      (v = 0 ∨ ∀ x, s ≤ x → x < e → ∃ y, Den f false x = some y) := by
  obtain ⟨a, b, ha, hb, hse, has, heb⟩ := h14c_insideSpan_spec f s e hi
  rw [incr_integral_right_iff f hf s e v I hi he hI, lenOn_full_iff f hf s e hse]

/-- what the defective step caches is right -/
def IncrRight (f : Stairs Rat) (s e v I : Rat) : Prop :=
  integral (Stairs.layer f [⟨some s, some e, v⟩]) = some (I + v * (e - s)) ∧
  mean (Stairs.layer f [⟨some s, some e, v⟩]) = some ((I + v * (e - s)) / definedLength f)

instance (f : Stairs Rat) (s e v I : Rat) : Decidable (IncrRight f s e v I) := by unfold IncrRight; infer_instance

/-- **one step, exactly**: the defective `layer` keeps the caches valid iff it is not on the incremental path or
what it caches is right -/
theorem layerIncremental_inv_iff (o : Obj) (ts : List (Triple Rat)) (hc : CacheInv o) :
    CacheInv (layerIncremental o ts) ↔ ∀ s e v I, incrEligible o ts = some (s, e, v, I) → IncrRight o.f s e v I := by
  unfold layerIncremental
  cases h : incrEligible o ts with
  | none => simp only [reduceCtorEq, false_implies, implies_true, iff_true]; exact layer_inv o ts hc
  | some x =>
    obtain ⟨s, e, v, I⟩ := x
    obtain ⟨hts, _, _, _⟩ := h14c_incrEligible_spec o ts s e v I h
    subst hts
    simp only [CacheInv, reduceCtorEq, false_or, Option.some.injEq, Prod.mk.injEq, true_or, and_true]
    constructor
    · intro hh s' e' v' I' heq
      obtain ⟨h1, h2, h3, h4⟩ := heq
      subst h1; subst h2; subst h3; subst h4
      exact ⟨hh.1.symm, hh.2.symm⟩
    · intro hh
      have := hh s e v I ⟨rfl, rfl, rfl, rfl⟩
      exact ⟨this.1.symm, this.2.symm⟩

/-- **structural sufficient condition (why the tests passed)**: `f` defined throughout `[s, e)` and the extent
unchanged ⇒ the incremental update of integral and mean is right -/
theorem incrRight_of_structural (f : Stairs Rat) (hf : f.WF) (s e v I m : Rat) (hi : insideSpan f s e = true)
    (he : SameEnds (Stairs.layer f [⟨some s, some e, v⟩]) f) (hI : integral f = some I) (hm : mean f = some m)
    (hd : ∀ x, s ≤ x → x < e → ∃ y, Den f false x = some y) : IncrRight f s e v I := by
  refine ⟨incr_integral_right f hf s e v I hi he hI hd, ?_⟩
  obtain ⟨a, b, ha, hb, hse, has, heb⟩ := h14c_insideSpan_spec f s e hi
  have hL := (layer_inside_span f hf s e v hi he).2.1
  have hi' := incr_integral_right f hf s e v I hi he hI hd
  have h0 : definedLength f ≠ 0 := by
    intro h0
    rw [mean_eq_ite, if_pos h0] at hm; cases hm
  rw [mean_eq_ite, hL, if_neg h0]
  have hw : wsum (fun v => v) (Stairs.layer f [⟨some s, some e, v⟩]) = I + v * (e - s) := by
    unfold integral at hi'
    split at hi'
    · cases hi'
    · injection hi'
  rw [hw]

/-- **CLASS**: started with valid caches, the variant keeps them valid – hence answers every query correctly – on
every history in which each incremental step meets a function defined throughout `[s, e)` whose extent the layer
does not change; and it keeps them valid *iff* every incremental step caches the right pair -/
theorem incr_class_iff (o : Obj) (ops : List HOp) (hc : CacheInv o) :
    (∀ pre post, ops = pre ++ post → CacheInv (incrV.run o pre).1) ↔
      ∀ pre ts post, ops = pre ++ .layer ts :: post → ∀ s e v I,
        incrEligible (incrV.run o pre).1 ts = some (s, e, v, I) → IncrRight (incrV.run o pre).1.f s e v I := by
  rw [← invRun_iff incrV rfl o ops hc]
  induction ops generalizing o with
  | nil => exact ⟨fun _ pre ts post he => (by cases pre <;> cases he), fun _ => trivial⟩
  | cons op r ih =>
    cases op with
    | layer ts0 =>
      constructor
      · rintro ⟨h1, h2⟩ pre ts post he
        cases pre with
        | nil =>
          injection he with hx _; injection hx with hx; subst hx
          exact (layerIncremental_inv_iff o ts0 hc).1 h1
        | cons x pre' =>
          injection he with hx hr; subst hx
          exact (ih _ h1).1 h2 pre' ts post hr
      · intro h
        have h1 : CacheInv (layerIncremental o ts0) :=
          (layerIncremental_inv_iff o ts0 hc).2 (h [] ts0 r rfl)
        exact ⟨h1, (ih _ h1).2 (fun pre ts post he => h (.layer ts0 :: pre) ts post (by rw [he]; rfl))⟩
    | query q =>
      have hq := (query_spec o q hc).2.2
      constructor
      · intro h pre ts post he
        cases pre with
        | nil => cases he
        | cons x pre' =>
          injection he with hx hr; subst hx
          exact (ih _ hq).1 h pre' ts post hr
      · intro h
        exact (ih _ hq).2 (fun pre ts post he => h (.query q :: pre) ts post (by rw [he]; rfl))

theorem incr_correct_on_class (o : Obj) (ops : List HOp) (hc : CacheInv o)
    (h : ∀ pre ts post, ops = pre ++ .layer ts :: post → ∀ s e v I,
        incrEligible (incrV.run o pre).1 ts = some (s, e, v, I) → IncrRight (incrV.run o pre).1.f s e v I) :
    (incrV.run o ops).2 = specRun o.f ops ∧ (incrV.run o ops).1.f = specFinal o.f ops := by
  have := invRun_correct incrV rfl incr_rightFunction o ops hc
    ((invRun_iff incrV rfl o ops hc).2 ((incr_class_iff o ops hc).2 h))
  exact ⟨this.1, this.2.1⟩

/-! ### whole worlds -/

/-- a condition on the receiver of a `layer` operation (nothing is asked of any other operation) -/
def AtLayer (w : World) (C : Obj → List (Triple Rat) → Prop) : WOp → Prop
  | .layer i ts => ∀ o, w[i]? = some o → C o ts
  | _ => True

/-- at every `layer` call of the variant world history the receiver lands in a state with valid caches -/
def InvRunW (V : Variant) (w : World) : List WOp → Prop
  | [] => True
  | op :: r => AtLayer w (fun o ts => CacheInv (V.lay o ts)) op ∧ InvRunW V (V.stepW w op).1 r

section Helpers
theorem h14c_stepW_refines_pure (V : Variant) (hV : V.LayerOnly) (hf : V.RightFunction) (w : World) (op : WOp)
    (hw : WInv w) (h : AtLayer w (fun o ts => CacheInv (V.lay o ts)) op) :
    (V.stepW w op).2 = (stepPure (erase w) op).2 ∧ erase (V.stepW w op).1 = (stepPure (erase w) op).1 ∧
      WInv (V.stepW w op).1 := by
  have hq : V.qry = Obj.query := hV
  cases op with
  | layer i ts =>
    refine ⟨?_, ?_, ?_⟩
    · simp only [Variant.stepW, stepPure, w14b_erase_length]
    · simp only [Variant.stepW, stepPure]
      exact w14b_erase_modify w i _ _ (fun o => hf o ts)
    · simp only [Variant.stepW]
      intro o ho
      obtain ⟨k, hk, rfl⟩ := List.getElem_of_mem ho
      have hk' : k < w.length := by simpa using hk
      rw [List.getElem_modify]
      split
      · rename_i hik
        subst hik
        exact h _ (List.getElem?_eq_getElem hk')
      · exact hw _ (List.getElem_mem hk')
  | query i q =>
    have := step_refines_pure w (.query i q) hw
    have e : V.stepW w (.query i q) = stepO w (.query i q) := by
      simp only [Variant.stepW, stepO, World.step, hq]
      cases w[i]? <;> rfl
    rw [e]; exact this
  | _ => exact step_refines_pure w _ hw
end Helpers

/-- **valid caches ⇒ the output stream of the cache-free semantics**, for whole worlds -/
theorem invRunW_correct (V : Variant) (hV : V.LayerOnly) (hf : V.RightFunction) (w : World) (ops : List WOp)
    (hw : WInv w) (h : InvRunW V w ops) :
    (V.runW w ops).2 = (runPure (erase w) ops).2 ∧ erase (V.runW w ops).1 = (runPure (erase w) ops).1 ∧
      WInv (V.runW w ops).1 := by
  induction ops generalizing w with
  | nil => exact ⟨rfl, rfl, hw⟩
  | cons op r ih =>
    obtain ⟨s1, s2, s3⟩ := h14c_stepW_refines_pure V hV hf w op hw h.1
    obtain ⟨i1, i2, i3⟩ := ih (V.stepW w op).1 s3 h.2
    simp only [Variant.runW, runPure]
    rw [s2] at i1 i2
    exact ⟨by rw [s1, i1], i2, i3⟩

/-- the incremental variant in a world: right as long as every incremental step caches the right pair – in
particular (`incrRight_of_structural`) when the receiver is defined throughout `[s, e)` and keeps its extent -/
def IncrRunW (w : World) : List WOp → Prop
  | [] => True
  | op :: r =>
    AtLayer w (fun o ts => ∀ s e v I, incrEligible o ts = some (s, e, v, I) → IncrRight o.f s e v I) op ∧
      IncrRunW (incrV.stepW w op).1 r

theorem incr_world_correct (w : World) (ops : List WOp) (hw : WInv w) (h : IncrRunW w ops) :
    (incrV.runW w ops).2 = (runPure (erase w) ops).2 ∧ erase (incrV.runW w ops).1 = (runPure (erase w) ops).1 := by
  have key : ∀ (ops : List WOp) (w : World), WInv w → IncrRunW w ops → InvRunW incrV w ops := by
    intro ops
    induction ops with
    | nil => intro _ _ _; trivial
    | cons op r ih =>
      intro w hw h
      have h1 : AtLayer w (fun o ts => CacheInv (incrV.lay o ts)) op := by
        cases op with
        | layer i ts =>
          intro o ho
          exact (layerIncremental_inv_iff o ts (hw o (List.mem_of_getElem? ho))).2 (h.1 o ho)
        | _ => trivial
      exact ⟨h1, ih _ (h14c_stepW_refines_pure incrV rfl incr_rightFunction w op hw h1).2.2 h.2⟩
  have := invRunW_correct incrV rfl incr_rightFunction w ops hw (key ops w hw h)
  exact ⟨this.1, this.2.1⟩

/-! ### refutations: each hypothesis of `incrRight_of_structural` is needed -/

/-- `2` outside the step points, `3` on `[0, 4)` -/
def g₂ : Stairs Rat := ⟨some 2, [(0, some 3), (4, some 2)], .left⟩
/-- `mean`, one bounded scalar layer, `mean`, `integral` -/
def histIncr (t : Triple Rat) : List HOp := [.query .mean, .layer [t], .query .mean, .query .integral]

/-- **the layer cancels the first step** (`a₁`: `1` on `[0,4)`, `0` outside; layer `−1` on `[0,2)`): the extent
shrinks from `[0,4]` to `[2,4]`; the updated integral is still right (the value outside is `0`) but the mean is
re-derived with the old extent `4` instead of `2` -/
theorem layerIncremental_refuted_extent :
    insideSpan a₁ 0 2 = true ∧ ¬ SameEnds (Stairs.layer a₁ [⟨some 0, some 2, -1⟩]) a₁ ∧
    (incrV.run (fresh a₁) (histIncr ⟨some 0, some 2, -1⟩)).2 = [[some 1], [], [some (1/2)], [some 2]] ∧
    specRun a₁ (histIncr ⟨some 0, some 2, -1⟩) = [[some 1], [], [some 1], [some 2]] := by decide +kernel

/-- **the value outside the step points is non-zero** (`g₂`, same layer): the cancelled stretch `[0,2)` leaves the
integral with its old value `3`, not with `3 − 1`: the updated integral `10` is wrong (`6`), and so is the mean -/
theorem layerIncremental_refuted_outside :
    insideSpan g₂ 0 2 = true ∧ ¬ SameEnds (Stairs.layer g₂ [⟨some 0, some 2, -1⟩]) g₂ ∧
    (incrV.run (fresh g₂) (histIncr ⟨some 0, some 2, -1⟩)).2 = [[some 3], [], [some (5/2)], [some 10]] ∧
    specRun g₂ (histIncr ⟨some 0, some 2, -1⟩) = [[some 3], [], [some 3], [some 6]] := by decide +kernel

/-- **an undefined stretch inside `[s, e)`** (`m₅`, undefined on `[2,3)`; layer `2` on `[1,4)`, extent unchanged):
the integral grows by `2·2`, not by `2·3` -/
theorem layerIncremental_refuted_undefined :
    insideSpan m₅ 1 4 = true ∧ SameEnds (Stairs.layer m₅ [⟨some 1, some 4, 2⟩]) m₅ ∧ lenOn m₅ 1 4 = 2 ∧
    (incrV.run (fresh m₅) (histIncr ⟨some 1, some 4, 2⟩)).2 = [[some 1], [], [some 3], [some 9]] ∧
    specRun m₅ (histIncr ⟨some 1, some 4, 2⟩) = [[some 1], [], [some (7/3)], [some 7]] := by decide +kernel

/-- the same defect seen from the world (outputs differ from the cache-free semantics) -/
theorem layerIncremental_refuted_world :
    (incrV.runW [] [.new g₂, .query 0 .integral, .layer 0 [⟨some 0, some 2, -1⟩], .query 0 .integral]).2
      = [.created 0, .answer [some 12], .done, .answer [some 10]] ∧
    (runPure [] [.new g₂, .query 0 .integral, .layer 0 [⟨some 0, some 2, -1⟩], .query 0 .integral]).2
      = [.created 0, .answer [some 12], .done, .answer [some 6]] := by decide +kernel

/-! non-vacuity of `incrRight_of_structural` / `incr_correct_on_class`: `a₁` with `2` layered on `[1, 3)` -/
example : a₁.WF ∧ insideSpan a₁ 1 3 = true ∧ SameEnds (Stairs.layer a₁ [⟨some 1, some 3, 2⟩]) a₁ ∧
    integral a₁ = some 4 ∧ mean a₁ = some 1 ∧ IncrRight a₁ 1 3 2 4 := by decide +kernel
example : ∀ x : Rat, 1 ≤ x → x < 3 → ∃ y, Den a₁ false x = some y := by
  intro x _ _
  have h := (l2b_noNa_iff_den a₁ (by decide +kernel)).1 (by decide +kernel) x
  cases hd : Den a₁ false x with
  | none => exact absurd hd h
  | some y => exact ⟨y, rfl⟩
example : (incrV.run (fresh a₁) (histIncr ⟨some 1, some 3, 2⟩)).2 = specRun a₁ (histIncr ⟨some 1, some 3, 2⟩) ∧
    (incrV.run (fresh a₁) (histIncr ⟨some 1, some 3, 2⟩)).2 = [[some 1], [], [some 2], [some 8]] ∧
    (incrV.run (fresh a₁) (histIncr ⟨some 1, some 3, 2⟩)).1.im = some (some 8, some 2) ∧
    ((fresh a₁).run (histIncr ⟨some 1, some 3, 2⟩)).1.im = some (some 8, some 2) := by decide +kernel
/-- the variant is *not* faithful even where it is right: after the layer it still holds a filled cache -/
example : (incrV.run (fresh a₁) [.query .mean, .layer [⟨some 1, some 3, 2⟩]]).1.im = some (some 8, some 2) ∧
    ((fresh a₁).run [.query .mean, .layer [⟨some 1, some 3, 2⟩]]).1.im = none := by decide +kernel

end SC.Props.C14c
