import SCModel.Lemmas.Mask6b
import SCModel.Lemmas.Algebra4b
import SCModel.Model.Stats
import SCModel.Props.C07b
import Mathlib.Data.Int.Order.Basic
import Mathlib.Algebra.Order.Field.Rat
import Mathlib.Tactic.Linarith
/-!
# C06b — masking / clipping / logical-scalar paths: the seeded-defect variants, characterised

Each section takes one realistic defect that was seeded into the library (and survived its test-suite), defines
the defective variant next to the model, **refutes** it on a minimal concrete witness and **proves the exact
condition under which variant and model return the same object** (`…_eq_iff`).  The condition explains why the
library's tests passed and documents what an input must look like to expose the defect.

Conventions.  Object equality (same initial value, same rows, same closed side; same error) throughout, over EVERY
linear order, via the observations of `Lemmas/Fill7b` (initial value + one-sided limits).  The library treats a
masker's initial value and its step values in two separate expressions and the defects touch only one of them, so
the variants are phrased with `k6bSplit u₀ u₁ g` (initial value through `u₀`, step values through `u₁`);
`afterFirst g st x` says that `x` lies at/after (`st = false`: right limits) resp. after (`st = true`) the first
step point of `g`, i.e. that the `st`-limit of `g` at `x` is a step value.

1. `whereNeg` (step values tested with `0 < v` instead of `v ≠ 0`): `whereNeg_eq_iff`, `whereNegAll_eq_iff`,
   `whereNeg_eq_of_rows`, `whereNeg_eq_of_stepfree`, `whereNeg_eq_iff_total`, `whereNegAll_eq_iff_total`,
   `whereNeg_refuted`.
2. `whereKeepsNaNInit` / `…Steps` / `whereKeepsNaN` (`where(g)` keeping `f` where `g` is undefined towards −∞ / at
   a step value / both), through a faithful model `maskVia` of the `_maskify(g) + f` route: `maskVia_mask` (the same
   slip is HARMLESS for `mask`), `maskVia_where` (with both guards the route is `where`), `maskVia_where_eq_iff`,
   `whereKeepsNaNInit_eq_iff`, `whereKeepsNaNSteps_eq_iff`, `whereKeepsNaN_eq_iff`, `…_eq_iff_total`,
   `whereKeepsNaN_refuted`.
3. `maskTol ε`, `whereTol ε` (zero test of the step values with an absolute tolerance): `maskTol_eq_iff`,
   `whereTol_eq_iff`, `tol_eq_of_rows`, `tol_eq_iff_total`, `tol_neg`, `tol_refuted` (ε = 10⁻⁸, v = 2⁻⁴⁰).
4. `isnaFast`, `notnaFast` (constant shortcut that looks at the step values only): `isnaFast_eq_iff`,
   `notnaFast_eq_iff`, `nullFast_bad`, `isnaFast_refuted`; consequences `where_notnaFast_self_iff`,
   `mask_isnaFast_self_iff`, `fillnaPipe_isna`, `fillnaPipe_isnaFast_eq_iff` (`fillna(g)`), `covMask_isnaFast_bad`,
   `covWith_isna` (the common-domain mask of `cov`).
5. `clipTrunc` (fractional lower bound truncated towards zero on an integer index): `clipTrunc_window`,
   `clipTrunc_eq_iff`, `clipTrunc_ne_iff`, `clipTrunc_refuted`.
6. `andZeroConst`, `orConst`, `andZeroFast`, `orFast`, `andZeroInit`, `orInit` (the scalar logical shortcuts):
   `andZeroConst_eq_iff`, `orConst_eq_iff`, `andZeroFast_eq_iff`, `orFast_eq_iff`, `andZeroInit_eq_iff`,
   `orInit_eq_iff`, `logicShortcuts_refuted`.
7. `mbFast`, `invertFast` (`make_boolean` / `invert` of a step-free function without the NaN guard):
   `mbFast_eq_iff`, `invertFast_eq_iff`, `unopStepFreeFast_bad`, `unopStepFreeFast_refuted`.
-/
set_option linter.unusedSectionVars false
namespace SC.Props.C06b
open SC SC.Stairs
variable {P : Type} [LinearOrder P]

/-! ## Helpers -/
section Helpers

/-- does `x` lie at/after (`st = false`, right limits) resp. after (`st = true`, left limits) the first step point
of `g`, i.e. is the `st`-limit of `g` at `x` one of `g`'s step values?  (never for a step-free `g`) -/
def afterFirst (g : Stairs P) (st : Bool) (x : P) : Bool := k6bStarted (.at st x) g

/-- everywhere defined: the initial value and every step value -/
def Total (f : Stairs P) : Prop := f.init ≠ none ∧ ∀ pv ∈ f.steps, pv.2 ≠ none

instance (f : Stairs P) : Decidable (Total f) := by unfold Total; infer_instance

theorem k6b_total_obs (f : Stairs P) (hf : f.WF) : Total f ↔ ∀ o, f7bObs o f ≠ none :=
  (k6b_obs_forall_iff_rows f hf (· ≠ none)).symm

/-- "everywhere defined" is a property of the function (plus the initial value) -/
theorem total_iff_den (f : Stairs P) (hf : f.WF) :
    Total f ↔ f.init ≠ none ∧ ∀ st x, Den f st x ≠ none := by
  rw [k6b_total_obs f hf, k6b_forall_obs]; rfl

/-- **a masker tampered with separately at its initial value and at its step values**: the checked result is the
same object (or the same error) iff the operator cannot tell the difference at the initial value, before the
first step point (`u₀`) and from it on (`u₁`) -/
theorem k6b_split_eq_iff (op : Val → Val → Val) (u0 u1 : Val → Val) (f g : Stairs P) (hf : f.WF) (hg : g.WF) :
    combineChecked op f (k6bSplit u0 u1 g) = combineChecked op f g ↔
      Mismatch f g ∨ (op f.init (u0 g.init) = op f.init g.init ∧
        ∀ st x, op (Den f st x) (if afterFirst g st x then u1 (Den g st x) else u0 (Den g st x))
                  = op (Den f st x) (Den g st x)) := by
  rw [k6b_checked_eq_iff op op f g _ hf hg (k6b_wf_split u0 u1 g hg) (k6b_hasSteps_split u0 u1 g) rfl,
    k6b_forall_obs]
  simp only [k6b_obs_split]
  rfl

/-- a condition "wherever a step value of `g` has property `T`, `f` is undefined" holds when no step value has `T` -/
theorem k6b_started_cond_of_rows (f g : Stairs P) (T : Val → Prop) (h : ∀ pv ∈ g.steps, ¬ T pv.2) :
    ∀ st x, afterFirst g st x = true → T (Den g st x) → Den f st x = none := by
  intro st x hs ht
  obtain ⟨pv, hm, h2⟩ := k6b_obs_started g (.at st x) hs
  exact absurd (by rw [← h2]; exact ht) (h pv hm)

/-- … and for an everywhere-defined `f` ONLY then -/
theorem k6b_started_cond_iff_rows (f g : Stairs P) (hf : f.WF) (hg : g.WF) (ht : Total f) (T : Val → Prop) :
    (∀ st x, afterFirst g st x = true → T (Den g st x) → Den f st x = none) ↔ ∀ pv ∈ g.steps, ¬ T pv.2 := by
  constructor
  · intro h pv hm hT
    obtain ⟨h1, h2⟩ := k6b_row_observed g hg pv hm
    have h3 : T (Den g false pv.1) := by rw [show Den g false pv.1 = pv.2 from h2]; exact hT
    exact ((total_iff_den f hf).mp ht).2 false pv.1 (h false pv.1 h1 h3)
  · exact k6b_started_cond_of_rows f g T

theorem k6b_afterFirst_stepfree (g : Stairs P) (h : g.hasSteps = false) (st : Bool) (x : P) :
    afterFirst g st x = false := by
  obtain ⟨a, s, cl⟩ := g
  cases s with
  | nil => rfl
  | cons pv r => simp [hasSteps] at h

end Helpers

/-! ## 1. `where(g)` treating negative masker values as zero

Seeded form: the predicate applied to the STEP VALUES of `g` became `0 < v` (was `v ≠ 0`); the expression for the
value towards −∞ and the step-free shortcut still test `≠ 0`. -/

/-- a negative value -/
def IsNeg (m : Val) : Prop := ∃ q, m = some q ∧ q < 0
instance (m : Val) : Decidable (IsNeg m) :=
  match m with
  | none => isFalse (by rintro ⟨q, h, _⟩; cases h)
  | some q => if h : q < 0 then isTrue ⟨q, rfl, h⟩ else isFalse (by rintro ⟨q', h', hq⟩; cases h'; exact h hq)

/-- what `0 < v` makes of a masker value: a negative one counts as zero -/
def negAsZero : Val → Val
  | some q => if q < 0 then some 0 else some q
  | none => none

theorem k6b_where_negAsZero (a m : Val) : whereOp a (negAsZero m) = whereOp a m ↔ (IsNeg m → a = none) := by
  cases m with
  | none => simp [negAsZero, IsNeg]
  | some q =>
    by_cases hq : q < 0
    · have hq0 : q ≠ 0 := ne_of_lt hq
      simp only [negAsZero, if_pos hq, whereOp, if_neg hq0, if_true]
      constructor
      · intro h _; exact h.symm
      · intro h; exact (h ⟨q, rfl, hq⟩).symm
    · simp only [negAsZero, if_neg hq, true_iff]
      rintro ⟨q', h', hq'⟩; cases h'; exact absurd hq' hq

/-- the seeded variant (step values only) and the idealised one (every value of the masker) -/
def whereNeg (f g : Stairs P) : Except Err (Stairs P) := where_ f (k6bSplit id negAsZero g)
def whereNegAll (f g : Stairs P) : Except Err (Stairs P) := where_ f (k6bSplit negAsZero negAsZero g)

/-- **whereNeg = where  iff  `f` is undefined wherever a step value of `g` is negative** (or both raise) -/
theorem whereNeg_eq_iff (f g : Stairs P) (hf : f.WF) (hg : g.WF) :
    whereNeg f g = where_ f g ↔
      Mismatch f g ∨ ∀ st x, afterFirst g st x = true → IsNeg (Den g st x) → Den f st x = none := by
  unfold whereNeg where_
  rw [k6b_split_eq_iff whereOp id negAsZero f g hf hg]
  apply or_congr Iff.rfl
  constructor
  · rintro ⟨_, h⟩ st x hs
    have := h st x
    rw [if_pos hs] at this
    exact (k6b_where_negAsZero _ _).mp this
  · intro h
    refine ⟨rfl, fun st x => ?_⟩
    cases hs : afterFirst g st x with
    | true => simp only [if_true]; exact (k6b_where_negAsZero _ _).mpr (h st x hs)
    | false => simp

/-- the idealised variant: additionally the initial values -/
theorem whereNegAll_eq_iff (f g : Stairs P) (hf : f.WF) (hg : g.WF) :
    whereNegAll f g = where_ f g ↔
      Mismatch f g ∨ ((IsNeg g.init → f.init = none) ∧ ∀ st x, IsNeg (Den g st x) → Den f st x = none) := by
  unfold whereNegAll where_
  rw [k6b_split_eq_iff whereOp negAsZero negAsZero f g hf hg]
  apply or_congr Iff.rfl
  simp only [ite_self, k6b_where_negAsZero]

/-- **why the tests passed**: a masker without negative step values (every 0/1 indicator, every count) is
unaffected – whatever its value towards −∞ –, and so is every step-free masker -/
theorem whereNeg_eq_of_rows (f g : Stairs P) (hf : f.WF) (hg : g.WF) (h : ∀ pv ∈ g.steps, ¬ IsNeg pv.2) :
    whereNeg f g = where_ f g :=
  (whereNeg_eq_iff f g hf hg).mpr (Or.inr (k6b_started_cond_of_rows f g IsNeg h))

theorem whereNeg_eq_of_stepfree (f g : Stairs P) (hf : f.WF) (hg : g.WF) (h : g.hasSteps = false) :
    whereNeg f g = where_ f g :=
  (whereNeg_eq_iff f g hf hg).mpr (Or.inr (fun st x hs => by rw [k6b_afterFirst_stepfree g h] at hs; cases hs))

/-- **what exposes it**: for an everywhere-defined receiver (no closed-side clash) the variant is right iff no
step value of the masker is negative -/
theorem whereNeg_eq_iff_total (f g : Stairs P) (hf : f.WF) (hg : g.WF) (ht : Total f) (hm : ¬ Mismatch f g) :
    whereNeg f g = where_ f g ↔ ∀ pv ∈ g.steps, ¬ IsNeg pv.2 := by
  rw [whereNeg_eq_iff f g hf hg, k6b_started_cond_iff_rows f g hf hg ht IsNeg]
  exact ⟨fun h => h.resolve_left hm, Or.inr⟩

/-- the idealised variant on an everywhere-defined receiver: right iff `g` takes no negative value at all -/
theorem whereNegAll_eq_iff_total (f g : Stairs P) (hf : f.WF) (hg : g.WF) (ht : Total f) (hm : ¬ Mismatch f g) :
    whereNegAll f g = where_ f g ↔ ¬ IsNeg g.init ∧ ∀ pv ∈ g.steps, ¬ IsNeg pv.2 := by
  obtain ⟨h0, h1⟩ := (total_iff_den f hf).mp ht
  rw [whereNegAll_eq_iff f g hf hg, ← k6b_obs_forall_iff_rows g hg (fun m => ¬ IsNeg m), k6b_forall_obs]
  constructor
  · rintro (h | ⟨h2, h3⟩)
    · exact absurd h hm
    · exact ⟨fun hn => h0 (h2 hn), fun st x hn => h1 st x (h3 st x hn)⟩
  · rintro ⟨h2, h3⟩
    exact Or.inr ⟨fun hn => absurd hn h2, fun st x hn => absurd hn (h3 st x)⟩

/-- **refutation** (minimal): `f = 1`, `g = 0 | −1 from 0`; `where` keeps `f` from 0 on, the variant nothing -/
def fN : Stairs Int := ⟨some 1, [], .left⟩
def gN : Stairs Int := ⟨some 0, [(0, some (-1))], .left⟩
theorem whereNeg_refuted :
    fN.WF ∧ gN.Canonical ∧ where_ fN gN = .ok ⟨none, [(0, some 1)], .left⟩ ∧ whereNeg fN gN = .ok ⟨none, [], .left⟩ ∧
      whereNeg fN gN ≠ where_ fN gN := by decide +kernel

/-- the seeded demo: `f = 7 | 8 on [0,10) | 7`, `g = 0 | 2 | −1 | 0 | 1 | 0`: the piece `[3,5)` is lost; a masker
that is negative only towards −∞ is handled correctly by the seeded variant (not by the idealised one) -/
def fN' : Stairs Int := ⟨some 7, [(0, some 8), (10, some 7)], .left⟩
def gN' : Stairs Int := ⟨some 0, [(1, some 2), (3, some (-1)), (5, some 0), (6, some 1), (8, some 0)], .left⟩
def gN'' : Stairs Int := ⟨some (-1), [(1, some 2), (3, some 0)], .left⟩
example : fN'.WF ∧ gN'.WF ∧ Total fN' ∧ ¬ Mismatch fN' gN' ∧
    where_ fN' gN' = .ok ⟨none, [(1, some 8), (5, none), (6, some 8), (8, none)], .left⟩ ∧
    whereNeg fN' gN' = .ok ⟨none, [(1, some 8), (3, none), (6, some 8), (8, none)], .left⟩ ∧
    whereNeg fN' gN'' = where_ fN' gN'' ∧ whereNegAll fN' gN'' ≠ where_ fN' gN'' ∧
    where_ fN' gN'' = .ok ⟨some 7, [(0, some 8), (3, none)], .left⟩ := by decide +kernel

/-! ## 2. `where(g)` keeping `f` where `g` is undefined; harmless for `mask`

`_maskify(g, inverse)` turns the masker into a 0/NaN function that is then ADDED to `f`: a value is dropped (NaN)
when `op(v, 0) or isnan(v)` with `op = ne` for `mask` and `op = eq` for `where`.  IEEE comparisons with NaN:
`NaN ≠ 0` is true, `NaN = 0` is false – so the `isnan` guard is redundant for `mask` and essential for `where`.
Seeded forms: the guard dropped at the initial value (C06-5), at the step values (C06-9). -/

def ieeeEq0 : Val → Bool
  | some q => decide (q = 0)
  | none => false
def ieeeNe0 : Val → Bool
  | some q => !decide (q = 0)
  | none => true

/-- `_maskify` at one value: NaN = drop, 0 = keep; `guard` = the `or isnan(v)` clause is present -/
def maskifyVal (inverse guard : Bool) (m : Val) : Val :=
  if ((if inverse then ieeeEq0 m else ieeeNe0 m) || (guard && m.isNone)) = true then none else some 0

/-- `_maskify(g) + f` at one point -/
def addMask (a m : Val) : Val := vadd m a

theorem k6b_vadd_zero_left (a : Val) : vadd (some 0) a = a := by
  cases a <;> simp [vadd, vlift2]

/-- for `mask` the guard changes nothing -/
theorem k6b_addMask_mask (guard : Bool) (a m : Val) : addMask a (maskifyVal false guard m) = maskOp a m := by
  cases m with
  | none => cases guard <;> simp [addMask, maskifyVal, ieeeNe0, maskOp, vadd, vlift2]
  | some q =>
    by_cases hq : q = 0
    · subst hq
      simp only [addMask, maskifyVal, ieeeNe0, maskOp, Option.isNone_some, Bool.and_false, Bool.or_false]
      simpa using k6b_vadd_zero_left a
    · cases guard <;> simp [addMask, maskifyVal, ieeeNe0, maskOp, hq, vadd, vlift2]

/-- for `where` the result is right iff the guard is present, or the masker is defined, or `f` is undefined -/
theorem k6b_addMask_where (guard : Bool) (a m : Val) :
    addMask a (maskifyVal true guard m) = whereOp a m ↔ (guard = false → m = none → a = none) := by
  cases m with
  | none =>
    cases guard
    · simp only [addMask, maskifyVal, ieeeEq0, whereOp, Option.isNone_none, Bool.and_true, Bool.or_self,
        if_true, Bool.false_eq_true, if_false, k6b_vadd_zero_left]
      exact ⟨fun h _ _ => h, fun h => h trivial trivial⟩
    · simp [addMask, maskifyVal, ieeeEq0, whereOp, vadd, vlift2]
  | some q =>
    have : addMask a (maskifyVal true guard (some q)) = whereOp a (some q) := by
      by_cases hq : q = 0
      · subst hq; cases guard <;> simp [addMask, maskifyVal, ieeeEq0, whereOp, vadd, vlift2]
      · simp only [addMask, maskifyVal, ieeeEq0, whereOp, hq, decide_false, Option.isNone_some, Bool.and_false,
          Bool.or_false, if_true, Bool.false_eq_true, if_false]
        exact k6b_vadd_zero_left a
    simp [this]

/-- the library route: step-free maskers take an exact shortcut, the others go through `_maskify(g) + f`;
`gi` / `gs`: is the NaN guard present at the initial value / at the step values? -/
def maskVia (inverse gi gs : Bool) (f g : Stairs P) : Except Err (Stairs P) :=
  if g.hasSteps then
    combineChecked addMask f (k6bSplit (maskifyVal inverse gi) (maskifyVal inverse gs) g)
  else if inverse then where_ f g else mask f g

/-- **harmless for `mask`**: with or without the guards the route IS `mask` (same object, same error) -/
theorem maskVia_mask (gi gs : Bool) (f g : Stairs P) (hf : f.WF) (hg : g.WF) :
    maskVia false gi gs f g = mask f g := by
  unfold maskVia
  by_cases hs : g.hasSteps = true
  · rw [if_pos hs]
    unfold mask
    rw [k6b_checked_eq_iff maskOp addMask f g _ hf hg (k6b_wf_split _ _ g hg) (k6b_hasSteps_split _ _ g) rfl]
    refine Or.inr (fun o => ?_)
    rw [k6b_obs_split]
    split <;> exact k6b_addMask_mask _ _ _
  · rw [if_neg hs]; rfl

/-- **the general statement for `where`** -/
theorem maskVia_where_eq_iff (gi gs : Bool) (f g : Stairs P) (hf : f.WF) (hg : g.WF) :
    maskVia true gi gs f g = where_ f g ↔
      Mismatch f g ∨ g.hasSteps = false ∨
        ∀ o, (if k6bStarted o g then gs else gi) = false → f7bObs o g = none → f7bObs o f = none := by
  unfold maskVia
  by_cases hs : g.hasSteps = true
  · rw [if_pos hs]
    unfold where_
    rw [k6b_checked_eq_iff whereOp addMask f g _ hf hg (k6b_wf_split _ _ g hg) (k6b_hasSteps_split _ _ g) rfl]
    apply or_congr Iff.rfl
    simp only [hs, Bool.true_eq_false, false_or]
    apply forall_congr'
    intro o
    rw [k6b_obs_split]
    cases k6bStarted o g <;> simp only [if_true, if_false, Bool.false_eq_true] <;> exact k6b_addMask_where _ _ _
  · rw [if_neg hs]
    simp only [Bool.not_eq_true] at hs
    simp [hs]

/-- with both guards the route is `where` -/
theorem maskVia_where (f g : Stairs P) (hf : f.WF) (hg : g.WF) : maskVia true true true f g = where_ f g :=
  (maskVia_where_eq_iff true true f g hf hg).mpr (Or.inr (Or.inr (fun o h => by simp at h)))

/-- the three seeded variants -/
def whereKeepsNaNInit (f g : Stairs P) := maskVia true false true f g
def whereKeepsNaNSteps (f g : Stairs P) := maskVia true true false f g
def whereKeepsNaN (f g : Stairs P) := maskVia true false false f g

/-- **guard dropped at the step values**: right iff `f` is undefined wherever a step value of `g` is undefined -/
theorem whereKeepsNaNSteps_eq_iff (f g : Stairs P) (hf : f.WF) (hg : g.WF) :
    whereKeepsNaNSteps f g = where_ f g ↔
      Mismatch f g ∨ ∀ st x, afterFirst g st x = true → Den g st x = none → Den f st x = none := by
  unfold whereKeepsNaNSteps
  rw [maskVia_where_eq_iff true false f g hf hg]
  apply or_congr Iff.rfl
  constructor
  · rintro (h | h) st x hs
    · rw [k6b_afterFirst_stepfree g h] at hs; cases hs
    · have := h (.at st x)
      rw [show k6bStarted (.at st x) g = true from hs] at this
      exact this rfl
  · intro h
    refine Or.inr (fun o => ?_)
    cases hs : k6bStarted o g with
    | false => intro h'; cases h'
    | true =>
      intro _
      cases o with
      | init => cases hs
      | «at» st x => exact h st x hs

/-- **guard dropped at the initial value**: right iff `g` is step-free (exact shortcut), or defined towards −∞,
or `f` is undefined all the way up to `g`'s first step point -/
theorem whereKeepsNaNInit_eq_iff (f g : Stairs P) (hf : f.WF) (hg : g.WF) :
    whereKeepsNaNInit f g = where_ f g ↔
      Mismatch f g ∨ g.hasSteps = false ∨ g.init ≠ none ∨
        (f.init = none ∧ ∀ st x, afterFirst g st x = false → Den f st x = none) := by
  unfold whereKeepsNaNInit
  rw [maskVia_where_eq_iff false true f g hf hg]
  apply or_congr Iff.rfl
  apply or_congr Iff.rfl
  constructor
  · intro h
    by_cases hi : g.init = none
    · refine Or.inr ⟨h .init rfl hi, fun st x hs => ?_⟩
      have hs' : k6bStarted (.at st x) g = false := hs
      have := h (.at st x)
      rw [hs'] at this
      exact this rfl (by rw [k6b_obs_not_started g _ hs']; exact hi)
    · exact Or.inl hi
  · rintro (h | ⟨h0, h1⟩) o
    · cases hs : k6bStarted o g with
      | true => intro h'; cases h'
      | false => intro _ hn; rw [k6b_obs_not_started g o hs] at hn; exact absurd hn h
    · cases hs : k6bStarted o g with
      | true => intro h'; cases h'
      | false =>
        intro _ _
        cases o with
        | init => exact h0
        | «at» st x => exact h1 st x hs

/-- **both guards dropped**: right iff `g` is step-free or defined wherever `f` is defined -/
theorem whereKeepsNaN_eq_iff (f g : Stairs P) (hf : f.WF) (hg : g.WF) :
    whereKeepsNaN f g = where_ f g ↔
      Mismatch f g ∨ g.hasSteps = false ∨
        ((g.init = none → f.init = none) ∧ ∀ st x, Den g st x = none → Den f st x = none) := by
  unfold whereKeepsNaN
  rw [maskVia_where_eq_iff false false f g hf hg, k6b_forall_obs]
  simp only [ite_self, forall_const]
  rfl

/-- why the tests passed: maskers without undefined step values / defined towards −∞ / everywhere defined -/
theorem whereKeepsNaNSteps_eq_of_rows (f g : Stairs P) (hf : f.WF) (hg : g.WF)
    (h : ∀ pv ∈ g.steps, pv.2 ≠ none) : whereKeepsNaNSteps f g = where_ f g :=
  (whereKeepsNaNSteps_eq_iff f g hf hg).mpr (Or.inr (k6b_started_cond_of_rows f g (· = none) h))

theorem whereKeepsNaN_eq_of_total (f g : Stairs P) (hf : f.WF) (hg : g.WF) (h : Total g) :
    whereKeepsNaN f g = where_ f g := by
  obtain ⟨h0, h1⟩ := (total_iff_den g hg).mp h
  exact (whereKeepsNaN_eq_iff f g hf hg).mpr
    (Or.inr (Or.inr ⟨fun h => absurd h h0, fun st x h => absurd h (h1 st x)⟩))

/-- for an everywhere-defined receiver: right iff no step value of `g` is undefined / iff `g` is step-free or
everywhere defined -/
theorem whereKeepsNaNSteps_eq_iff_total (f g : Stairs P) (hf : f.WF) (hg : g.WF) (ht : Total f)
    (hm : ¬ Mismatch f g) : whereKeepsNaNSteps f g = where_ f g ↔ ∀ pv ∈ g.steps, pv.2 ≠ none := by
  rw [whereKeepsNaNSteps_eq_iff f g hf hg, k6b_started_cond_iff_rows f g hf hg ht (· = none)]
  exact ⟨fun h => h.resolve_left hm, Or.inr⟩

theorem whereKeepsNaN_eq_iff_total (f g : Stairs P) (hf : f.WF) (hg : g.WF) (ht : Total f)
    (hm : ¬ Mismatch f g) : whereKeepsNaN f g = where_ f g ↔ g.hasSteps = false ∨ Total g := by
  obtain ⟨h0, h1⟩ := (total_iff_den f hf).mp ht
  rw [whereKeepsNaN_eq_iff f g hf hg, total_iff_den g hg]
  constructor
  · rintro (h | h | ⟨h2, h3⟩)
    · exact absurd h hm
    · exact Or.inl h
    · exact Or.inr ⟨fun h => h0 (h2 h), fun st x h => h1 st x (h3 st x h)⟩
  · rintro (h | ⟨h2, h3⟩)
    · exact Or.inr (Or.inl h)
    · exact Or.inr (Or.inr ⟨fun h => absurd h h2, fun st x h => absurd h (h3 st x)⟩)

/-- **refutations** (minimal): `f = 5`; `g` undefined towards −∞ then 1 / `g = 1` then undefined -/
def fK : Stairs Int := ⟨some 5, [], .left⟩
def gK₁ : Stairs Int := ⟨none, [(2, some 1)], .left⟩
def gK₂ : Stairs Int := ⟨some 1, [(2, none)], .left⟩
theorem whereKeepsNaN_refuted :
    fK.WF ∧ gK₁.Canonical ∧ gK₂.Canonical ∧
    where_ fK gK₁ = .ok ⟨none, [(2, some 5)], .left⟩ ∧ whereKeepsNaNInit fK gK₁ = .ok ⟨some 5, [], .left⟩ ∧
    where_ fK gK₂ = .ok ⟨some 5, [(2, none)], .left⟩ ∧ whereKeepsNaNSteps fK gK₂ = .ok ⟨some 5, [], .left⟩ ∧
    whereKeepsNaNInit fK gK₁ ≠ where_ fK gK₁ ∧ whereKeepsNaNSteps fK gK₂ ≠ where_ fK gK₂ ∧
    whereKeepsNaN fK gK₁ ≠ where_ fK gK₁ ∧ whereKeepsNaN fK gK₂ ≠ where_ fK gK₂ ∧
    -- each variant is blind to the other's witness, and `mask` is right on both
    whereKeepsNaNInit fK gK₂ = where_ fK gK₂ ∧ whereKeepsNaNSteps fK gK₁ = where_ fK gK₁ ∧
    maskVia false false false fK gK₁ = mask fK gK₁ ∧ maskVia false false false fK gK₂ = mask fK gK₂ := by
  decide +kernel

example : Total fK ∧ ¬ Mismatch fK gK₁ ∧ ¬ Mismatch fK gK₂ ∧ ¬ Total gK₁ ∧ gK₁.hasSteps = true := by decide +kernel

/-- the seeded demos (C06-5: `g` undefined before 2; C06-9: `g` undefined on `[3,6)`) -/
def fK' : Stairs Int := ⟨some 5, [(0, some 7), (4, some 3)], .left⟩
def gK' : Stairs Int := ⟨none, [(2, some 1), (6, some 0), (8, some 2)], .left⟩
def fK'' : Stairs Int := ⟨some 0, [(0, some 5), (4, some 7), (10, some 0)], .left⟩
def gK'' : Stairs Int := ⟨some 0, [(1, some 2), (3, none), (6, some (-1)), (8, some 0)], .left⟩
example : fK'.WF ∧ gK'.WF ∧ fK''.WF ∧ gK''.WF ∧
    where_ fK' gK' = .ok ⟨none, [(2, some 7), (4, some 3), (6, none), (8, some 3)], .left⟩ ∧
    whereKeepsNaNInit fK' gK' = .ok ⟨some 5, [(0, some 7), (4, some 3), (6, none), (8, some 3)], .left⟩ ∧
    where_ fK'' gK'' = .ok ⟨none, [(1, some 5), (3, none), (6, some 7), (8, none)], .left⟩ ∧
    whereKeepsNaNSteps fK'' gK'' = .ok ⟨none, [(1, some 5), (4, some 7), (8, none)], .left⟩ ∧
    maskVia true true true fK'' gK'' = where_ fK'' gK'' := by decide +kernel

/-! ## 3. zero test with an absolute tolerance

Seeded form: `np.isclose(values, 0)` on the STEP VALUES of the masker (the initial value and the step-free shortcut
stay exact): a step value `v ≠ 0` with `|v| ≤ ε` counts as zero – `where` drops `f` there, `mask` keeps it. -/

/-- what the tolerant test makes of a masker value (`−ε ≤ v ≤ ε`, i.e. `|v| ≤ ε`, counts as zero) -/
def snapTol (ε : Rat) : Val → Val
  | some q => if -ε ≤ q ∧ q ≤ ε then some 0 else some q
  | none => none

/-- a non-zero value within the tolerance -/
def IsTiny (ε : Rat) (m : Val) : Prop := ∃ q, m = some q ∧ q ≠ 0 ∧ -ε ≤ q ∧ q ≤ ε

theorem isTiny_iff_abs (ε : Rat) (m : Val) : IsTiny ε m ↔ ∃ q, m = some q ∧ 0 < |q| ∧ |q| ≤ ε := by
  unfold IsTiny
  constructor
  · rintro ⟨q, h, h0, h1, h2⟩; exact ⟨q, h, abs_pos.mpr h0, abs_le.mpr ⟨h1, h2⟩⟩
  · rintro ⟨q, h, h0, h1⟩; exact ⟨q, h, abs_pos.mp h0, (abs_le.mp h1).1, (abs_le.mp h1).2⟩

theorem k6b_snapTol_cases (ε : Rat) (m : Val) :
    (IsTiny ε m ∧ snapTol ε m = some 0 ∧ ∃ q, m = some q ∧ q ≠ 0) ∨ (¬ IsTiny ε m ∧ snapTol ε m = m) := by
  cases m with
  | none =>
    refine Or.inr ⟨?_, rfl⟩
    rintro ⟨q, h, _⟩; cases h
  | some q =>
    by_cases hr : -ε ≤ q ∧ q ≤ ε
    · by_cases hq : q = 0
      · subst hq
        refine Or.inr ⟨?_, by simp [snapTol, hr]⟩
        rintro ⟨q', h', h0, _⟩; cases h'; exact h0 rfl
      · exact Or.inl ⟨⟨q, rfl, hq, hr.1, hr.2⟩, by simp [snapTol, hr], q, rfl, hq⟩
    · refine Or.inr ⟨?_, by simp [snapTol, hr]⟩
      rintro ⟨q', h', _, h1, h2⟩; cases h'; exact hr ⟨h1, h2⟩

theorem k6b_mask_snapTol (ε : Rat) (a m : Val) :
    maskOp a (snapTol ε m) = maskOp a m ↔ (IsTiny ε m → a = none) := by
  rcases k6b_snapTol_cases ε m with ⟨h1, h2, q, rfl, hq⟩ | ⟨h1, h2⟩
  · rw [h2]
    simp only [maskOp, if_true, Option.some.injEq, hq, if_false]
    exact ⟨fun h _ => h, fun h => h h1⟩
  · rw [h2]; simp [h1]

theorem k6b_where_snapTol (ε : Rat) (a m : Val) :
    whereOp a (snapTol ε m) = whereOp a m ↔ (IsTiny ε m → a = none) := by
  rcases k6b_snapTol_cases ε m with ⟨h1, h2, q, rfl, hq⟩ | ⟨h1, h2⟩
  · rw [h2]
    simp only [whereOp, if_true, hq, if_false]
    exact ⟨fun h _ => h.symm, fun h => (h h1).symm⟩
  · rw [h2]; simp [h1]

def maskTol (ε : Rat) (f g : Stairs P) : Except Err (Stairs P) := mask f (k6bSplit id (snapTol ε) g)
def whereTol (ε : Rat) (f g : Stairs P) : Except Err (Stairs P) := where_ f (k6bSplit id (snapTol ε) g)

/-- **maskTol = mask  iff  `f` is undefined wherever a step value of `g` is non-zero within the tolerance** -/
theorem maskTol_eq_iff (ε : Rat) (f g : Stairs P) (hf : f.WF) (hg : g.WF) :
    maskTol ε f g = mask f g ↔
      Mismatch f g ∨ ∀ st x, afterFirst g st x = true → IsTiny ε (Den g st x) → Den f st x = none := by
  unfold maskTol mask
  rw [k6b_split_eq_iff maskOp id (snapTol ε) f g hf hg]
  apply or_congr Iff.rfl
  constructor
  · rintro ⟨_, h⟩ st x hs
    have := h st x
    rw [if_pos hs] at this
    exact (k6b_mask_snapTol ε _ _).mp this
  · intro h
    refine ⟨rfl, fun st x => ?_⟩
    cases hs : afterFirst g st x with
    | true => simp only [if_true]; exact (k6b_mask_snapTol ε _ _).mpr (h st x hs)
    | false => simp

/-- **whereTol = where** under the very same condition -/
theorem whereTol_eq_iff (ε : Rat) (f g : Stairs P) (hf : f.WF) (hg : g.WF) :
    whereTol ε f g = where_ f g ↔
      Mismatch f g ∨ ∀ st x, afterFirst g st x = true → IsTiny ε (Den g st x) → Den f st x = none := by
  unfold whereTol where_
  rw [k6b_split_eq_iff whereOp id (snapTol ε) f g hf hg]
  apply or_congr Iff.rfl
  constructor
  · rintro ⟨_, h⟩ st x hs
    have := h st x
    rw [if_pos hs] at this
    exact (k6b_where_snapTol ε _ _).mp this
  · intro h
    refine ⟨rfl, fun st x => ?_⟩
    cases hs : afterFirst g st x with
    | true => simp only [if_true]; exact (k6b_where_snapTol ε _ _).mpr (h st x hs)
    | false => simp

/-- why the tests passed (0/1 maskers, "normal sized" values), and what exposes it -/
theorem tol_eq_of_rows (ε : Rat) (f g : Stairs P) (hf : f.WF) (hg : g.WF) (h : ∀ pv ∈ g.steps, ¬ IsTiny ε pv.2) :
    maskTol ε f g = mask f g ∧ whereTol ε f g = where_ f g :=
  ⟨(maskTol_eq_iff ε f g hf hg).mpr (Or.inr (k6b_started_cond_of_rows f g (IsTiny ε) h)),
   (whereTol_eq_iff ε f g hf hg).mpr (Or.inr (k6b_started_cond_of_rows f g (IsTiny ε) h))⟩

theorem tol_eq_iff_total (ε : Rat) (f g : Stairs P) (hf : f.WF) (hg : g.WF) (ht : Total f) (hm : ¬ Mismatch f g) :
    (maskTol ε f g = mask f g ↔ ∀ pv ∈ g.steps, ¬ IsTiny ε pv.2) ∧
    (whereTol ε f g = where_ f g ↔ ∀ pv ∈ g.steps, ¬ IsTiny ε pv.2) := by
  rw [maskTol_eq_iff ε f g hf hg, whereTol_eq_iff ε f g hf hg, k6b_started_cond_iff_rows f g hf hg ht (IsTiny ε)]
  exact ⟨⟨fun h => h.resolve_left hm, Or.inr⟩, ⟨fun h => h.resolve_left hm, Or.inr⟩⟩

/-- a negative tolerance disables the defect -/
theorem tol_neg (ε : Rat) (hε : ε < 0) (f g : Stairs P) (hf : f.WF) (hg : g.WF) :
    maskTol ε f g = mask f g ∧ whereTol ε f g = where_ f g :=
  tol_eq_of_rows ε f g hf hg (fun pv _ => by rintro ⟨q, _, _, h1, h2⟩; linarith)

/-- **refutation** for `ε = 10⁻⁸` and the masker value `2⁻⁴⁰` on `[2,5)`: `where` must keep `f = 3` there and
`mask` must drop it; the tolerant variants do the opposite -/
def εT : Rat := 1 / 100000000
def fT : Stairs Int := ⟨some 3, [], .left⟩
def gT : Stairs Int := ⟨some 0, [(2, some (1 / 1099511627776)), (5, some 0)], .left⟩
theorem tol_refuted :
    fT.WF ∧ gT.Canonical ∧
    where_ fT gT = .ok ⟨none, [(2, some 3), (5, none)], .left⟩ ∧ whereTol εT fT gT = .ok ⟨none, [], .left⟩ ∧
    mask fT gT = .ok ⟨some 3, [(2, none), (5, some 3)], .left⟩ ∧ maskTol εT fT gT = .ok ⟨some 3, [], .left⟩ ∧
    whereTol εT fT gT ≠ where_ fT gT ∧ maskTol εT fT gT ≠ mask fT gT := by decide +kernel

example : Total fT ∧ ¬ Mismatch fT gT ∧ (0 : Rat) < εT := by decide +kernel

/-- the same tiny value towards −∞ is still tested exactly -/
example : whereTol εT fT ⟨some (1 / 1099511627776), [(2, some 0)], .left⟩
    = where_ fT ⟨some (1 / 1099511627776), [(2, some 0)], .left⟩ := by decide +kernel

/-! ## 4. `isna` / `notna` ignoring the initial value when no step value is undefined

Seeded form (C06-10): "nothing undefined among the steps: the indicator is constant" – return the step-free
`isna(initial value)` / `notna(initial value)`. -/

/-- is some STEP value undefined? (`values.hasnans` – blind to the initial value) -/
def stepsHaveNa (f : Stairs P) : Bool := f.steps.any fun pv => pv.2.isNone

theorem stepsHaveNa_false (f : Stairs P) : stepsHaveNa f = false ↔ ∀ pv ∈ f.steps, pv.2 ≠ none := by
  unfold stepsHaveNa
  rw [List.any_eq_false]
  apply forall_congr'; intro pv
  apply forall_congr'; intro _
  cases pv.2 <;> simp

theorem stepsHaveNa_true (f : Stairs P) : stepsHaveNa f = true ↔ ∃ pv ∈ f.steps, pv.2 = none := by
  unfold stepsHaveNa
  rw [List.any_eq_true]
  constructor
  · rintro ⟨pv, hm, h⟩; exact ⟨pv, hm, by cases hv : pv.2 <;> simp_all⟩
  · rintro ⟨pv, hm, h⟩; exact ⟨pv, hm, by rw [h]; rfl⟩

def nullFast (u : UnOp) (f : Stairs P) : Stairs P :=
  if stepsHaveNa f then unop u f else const (u.eval f.init) f.closed
def isnaFast (f : Stairs P) : Stairs P := nullFast .isna f
def notnaFast (f : Stairs P) : Stairs P := nullFast .notna f

/-- the inputs on which the shortcut is right: step-free, or defined towards −∞, or with an undefined step value -/
def NullFastOK (f : Stairs P) : Prop := f.hasSteps = false ∨ f.init ≠ none ∨ stepsHaveNa f = true
instance (f : Stairs P) : Decidable (NullFastOK f) := by unfold NullFastOK; infer_instance

theorem k6b_hasSteps_false (f : Stairs P) : f.hasSteps = false ↔ f.steps = [] := by
  unfold hasSteps; cases f.steps <;> simp

theorem k6b_nullFast_eq_iff (u : UnOp) (c : Rat) (hsome : ∀ q, u.eval (some q) = some c)
    (hnone : u.eval none ≠ some c) (f : Stairs P) : nullFast u f = unop u f ↔ NullFastOK f := by
  unfold nullFast NullFastOK
  by_cases hna : stepsHaveNa f = true
  · simp [hna]
  · rw [if_neg hna]
    have hall := (stepsHaveNa_false f).mp (by simpa using hna)
    rw [eq_comm]
    unfold unop
    rw [k6b_map_eq_const_iff, k6b_hasSteps_false]
    have hna' : stepsHaveNa f = false := by simpa using hna
    rw [hna']
    simp only [true_and, Bool.false_eq_true, or_false]
    constructor
    · intro h
      by_contra hc
      rw [not_or, not_not] at hc
      obtain ⟨hs, hi⟩ := hc
      cases hst : f.steps with
      | nil => exact hs hst
      | cons pv r =>
        have h1 := h pv (by rw [hst]; simp)
        obtain ⟨q, hq⟩ := Option.ne_none_iff_exists'.mp (hall pv (by rw [hst]; simp))
        rw [hq, hsome, hi] at h1
        exact hnone h1.symm
    · rintro (h | h) pv hm
      · rw [h] at hm; cases hm
      · obtain ⟨q, hq⟩ := Option.ne_none_iff_exists'.mp (hall pv hm)
        obtain ⟨q', hq'⟩ := Option.ne_none_iff_exists'.mp h
        rw [hq, hq', hsome, hsome]

/-- **isnaFast = isna / notnaFast = notna  iff  step-free, or defined towards −∞, or some step value undefined**
– for ALL inputs, well-formed or not -/
theorem isnaFast_eq_iff (f : Stairs P) : isnaFast f = unop .isna f ↔ NullFastOK f :=
  k6b_nullFast_eq_iff .isna 0 (fun _ => by simp [UnOp.eval, b2r]) (by simp [UnOp.eval, b2r]) f

theorem notnaFast_eq_iff (f : Stairs P) : notnaFast f = unop .notna f ↔ NullFastOK f :=
  k6b_nullFast_eq_iff .notna 1 (fun _ => by simp [UnOp.eval, b2r]) (by simp [UnOp.eval, b2r]) f

/-- on the other inputs the shortcut returns the constants 1 / 0 -/
theorem nullFast_bad (f : Stairs P) (h : ¬ NullFastOK f) :
    isnaFast f = const (some 1) f.closed ∧ notnaFast f = const (some 0) f.closed := by
  unfold NullFastOK at h
  rw [not_or, not_or, not_not] at h
  obtain ⟨_, hi, hna⟩ := h
  unfold isnaFast notnaFast nullFast
  rw [if_neg hna, if_neg hna, hi]
  simp [UnOp.eval, b2r]

/-- a canonical function is "bad" exactly when its only undefined stretch is the one towards −∞ -/
theorem not_nullFastOK_iff (f : Stairs P) :
    ¬ NullFastOK f ↔ f.hasSteps = true ∧ f.init = none ∧ ∀ pv ∈ f.steps, pv.2 ≠ none := by
  unfold NullFastOK
  rw [not_or, not_or, not_not, ← stepsHaveNa_false]
  simp

theorem k6b_wf_nullFast (u : UnOp) (f : Stairs P) (hf : f.WF) : (nullFast u f).WF := by
  unfold nullFast; split
  · exact wf_unop u f hf
  · exact wf_const _ _

/-- **refutation** (minimal): `f` undefined before 2, then 3 (e.g. `clip(2, None)` of the constant 3) -/
def fI : Stairs Int := ⟨none, [(2, some 3)], .left⟩
theorem isnaFast_refuted :
    fI.Canonical ∧ unop .isna fI = ⟨some 1, [(2, some 0)], .left⟩ ∧ isnaFast fI = ⟨some 1, [], .left⟩ ∧
    unop .notna fI = ⟨some 0, [(2, some 1)], .left⟩ ∧ notnaFast fI = ⟨some 0, [], .left⟩ ∧
    isnaFast fI ≠ unop .isna fI ∧ notnaFast fI ≠ unop .notna fI ∧ ¬ NullFastOK fI := by decide +kernel

/-- controls: another undefined stretch, a defined initial value, a step-free undefined function -/
example : NullFastOK (⟨none, [(2, some 3), (6, none)], .left⟩ : Stairs Int) ∧
    NullFastOK (⟨some 0, [(2, some 3)], .left⟩ : Stairs Int) ∧ NullFastOK (⟨none, [], .left⟩ : Stairs Int) ∧
    isnaFast (⟨none, [(2, some 3), (6, none)], .left⟩ : Stairs Int) = ⟨some 1, [(2, some 0), (6, some 1)], .left⟩ := by
  decide +kernel

/-! ### consequences -/

/-- **`f.where(f.notna()) = f` and `f.mask(f.isna()) = f`** (`C07b.where_notna_self`, `C07b.mask_isna_self`)
survive the shortcut on exactly the same inputs -/
theorem where_notnaFast_self_iff (f : Stairs P) (hf : f.Canonical) :
    where_ f (notnaFast f) = .ok f ↔ NullFastOK f := by
  constructor
  · intro h
    by_contra hbad
    rw [(nullFast_bad f hbad).2] at h
    obtain ⟨hs, _, hall⟩ := (not_nullFastOK_iff f).mp hbad
    obtain ⟨_, _, ho⟩ := f7b_cc whereOp f _ f hf.1 (wf_const _ _) h
    cases hst : f.steps with
    | nil => rw [(k6b_hasSteps_false f).mpr hst] at hs; cases hs
    | cons pv r =>
      have hm : pv ∈ f.steps := by rw [hst]; simp
      have := ho (.at false pv.1)
      rw [f7b_obs_const, (k6b_row_observed f hf.1 pv hm).2] at this
      exact hall pv hm (by rw [this]; simp [whereOp])
  · intro h; rw [(notnaFast_eq_iff f).mpr h]; exact C07b.where_notna_self f hf

theorem mask_isnaFast_self_iff (f : Stairs P) (hf : f.Canonical) :
    mask f (isnaFast f) = .ok f ↔ NullFastOK f := by
  constructor
  · intro h
    by_contra hbad
    rw [(nullFast_bad f hbad).1] at h
    obtain ⟨hs, _, hall⟩ := (not_nullFastOK_iff f).mp hbad
    obtain ⟨_, _, ho⟩ := f7b_cc maskOp f _ f hf.1 (wf_const _ _) h
    cases hst : f.steps with
    | nil => rw [(k6b_hasSteps_false f).mpr hst] at hs; cases hs
    | cons pv r =>
      have hm : pv ∈ f.steps := by rw [hst]; simp
      have := ho (.at false pv.1)
      rw [f7b_obs_const, (k6b_row_observed f hf.1 pv hm).2] at this
      exact hall pv hm (by rw [this]; simp [maskOp])
  · intro h; rw [(isnaFast_eq_iff f).mpr h]; exact C07b.mask_isna_self f hf

/-- **`fillna(g)`** is computed by the library as
`(f.fillna(0) + g.fillna(0) * f.isna()).mask(f.isna() & g.isna())`; `isn` is the `isna` it uses for `f` -/
def fillnaPipe (isn : Stairs P → Stairs P) (f g : Stairs P) (cl : Side) : Stairs P :=
  combine maskOp
    (combine vadd (fillnaScalar f (some 0)) (combine vmul (fillnaScalar g (some 0)) (isn f) cl) cl)
    (combine (vlogic .and) (isn f) (unop .isna g) cl) cl

/-- the pipeline at one point, `n` being what the indicator says about `a` -/
def fillnaPipeVal (n a b : Val) : Val :=
  maskOp (vadd (fillOp a (some 0)) (vmul (fillOp b (some 0)) n)) (vlogic .and n (UnOp.isna.eval b))

theorem k6b_fillnaPipe_eq_iff (n f g : Stairs P) (ν : Val → Val) (cl : Side) (hn : n.WF) (hf : f.WF) (hg : g.WF)
    (hν : ∀ o, f7bObs o n = ν (f7bObs o f)) :
    fillnaPipe (fun _ => n) f g cl = combine fillOp f g cl ↔
      ∀ o, fillnaPipeVal (ν (f7bObs o f)) (f7bObs o f) (f7bObs o g) = fillOp (f7bObs o f) (f7bObs o g) := by
  unfold fillnaPipe
  have h1 : (fillnaScalar f (some 0)).WF := wf_map _ f hf
  have h2 : (fillnaScalar g (some 0)).WF := wf_map _ g hg
  have h3 := wf_combine vmul _ n cl h2 hn
  have h4 := wf_combine vadd _ _ cl h1 h3
  have h5 := wf_combine (vlogic .and) n (unop .isna g) cl hn (wf_unop _ g hg)
  rw [k6b_combine_eq_iff fillOp maskOp f g _ _ cl hf hg h4 h5]
  apply forall_congr'; intro o
  rw [f7b_obs_combine _ _ _ _ h1 h3, f7b_obs_combine _ _ _ _ h2 hn, f7b_obs_combine _ _ _ _ hn (wf_unop _ g hg)]
  unfold fillnaScalar unop
  rw [f7b_obs_map _ f hf, f7b_obs_map _ g hg, f7b_obs_map _ g hg, hν]
  rfl

theorem k6b_fillnaPipeVal_isna (a b : Val) : fillnaPipeVal (UnOp.isna.eval a) a b = fillOp a b := by
  cases a <;> cases b <;>
    simp [fillnaPipeVal, UnOp.eval, b2r, fillOp, vmul, vadd, vlift2, vlogic, Logic.eval, truth, maskOp]

theorem k6b_fillnaPipeVal_one (a b : Val) :
    fillnaPipeVal (some 1) a b = fillOp a b ↔ (a ≠ none → b = some 0) := by
  cases a <;> cases b <;>
    simp [fillnaPipeVal, UnOp.eval, b2r, fillOp, vmul, vadd, vlift2, vlogic, Logic.eval, truth, maskOp]

/-- with the true `isna` the pipeline IS the model's `fillna(g)` -/
theorem fillnaPipe_isna (f g : Stairs P) (cl : Side) (hf : f.WF) (hg : g.WF) :
    fillnaPipe (unop .isna) f g cl = combine fillOp f g cl :=
  (k6b_fillnaPipe_eq_iff (unop .isna f) f g UnOp.isna.eval cl (wf_unop _ f hf) hf hg
    (fun o => f7b_obs_map _ f hf o)).mpr (fun _ => k6b_fillnaPipeVal_isna _ _)

/-- **with the shortcut `fillna(g)` is right iff the shortcut is, or `g` is 0 wherever `f` is defined**
(otherwise `g` is ADDED to `f` where both are defined, and `f` is lost where `g` is undefined) -/
theorem fillnaPipe_isnaFast_eq_iff (f g : Stairs P) (cl : Side) (hf : f.WF) (hg : g.WF) :
    fillnaPipe isnaFast f g cl = combine fillOp f g cl ↔
      NullFastOK f ∨ ((f.init ≠ none → g.init = some 0) ∧ ∀ st x, Den f st x ≠ none → Den g st x = some 0) := by
  by_cases hok : NullFastOK f
  · have : fillnaPipe isnaFast f g cl = fillnaPipe (unop .isna) f g cl := by
      unfold fillnaPipe; rw [(isnaFast_eq_iff f).mpr hok]
    rw [this, fillnaPipe_isna f g cl hf hg]
    simp [hok]
  · have : fillnaPipe isnaFast f g cl = fillnaPipe (fun _ => const (some 1) f.closed) f g cl := by
      unfold fillnaPipe; rw [(nullFast_bad f hok).1]
    rw [this, k6b_fillnaPipe_eq_iff (const (some 1) f.closed) f g (fun _ => some 1) cl (wf_const _ _) hf hg
      (fun o => f7b_obs_const _ _ o), k6b_forall_obs]
    simp only [k6b_fillnaPipeVal_one, hok, false_or]
    rfl

/-- the seeded demo shape: `f` undefined before 2 then 3, filled with `g = 10`: must be `10 | 3`, is `10 | 13` -/
example : fillnaPipe (unop .isna) fI ⟨some 10, [], .left⟩ .left = ⟨some 10, [(2, some 3)], .left⟩ ∧
    fillnaStairs fI ⟨some 10, [], .left⟩ = .ok ⟨some 10, [(2, some 3)], .left⟩ ∧
    fillnaPipe isnaFast fI ⟨some 10, [], .left⟩ .left = ⟨some 10, [(2, some 13)], .left⟩ := by decide +kernel

/-- **cov / corr**: the common-domain mask is `isna f | isna g`.  With the shortcut and a "bad" `f` it is the
constant 1, so BOTH operands are masked everywhere (the covariance is then undefined), whereas the true mask
keeps each operand wherever both are defined (`C19`) -/
theorem covMask_isnaFast_bad (f g : Stairs P) (hf : f.WF) (hg : g.WF) (hc : f.closed = g.closed)
    (hbad : ¬ NullFastOK f) :
    ∃ m f1 g1, binop (.logic .or) (isnaFast f) (isnaFast g) = .ok m ∧ mask f m = .ok f1 ∧ mask g m = .ok g1 ∧
      (∀ st x, Den m st x = some 1) ∧ (∀ st x, Den f1 st x = none) ∧ (∀ st x, Den g1 st x = none) := by
  have hn1 : (isnaFast f).WF := k6b_wf_nullFast _ f hf
  have hn2 : (isnaFast g).WF := k6b_wf_nullFast _ g hg
  have hc1 : (isnaFast f).closed = f.closed := by unfold isnaFast nullFast; split <;> rfl
  have hc2 : (isnaFast g).closed = f.closed := by unfold isnaFast nullFast; split <;> simp [hc] <;> rfl
  have hm : ∀ st x, Den (combine (BinOp.logic .or).eval (isnaFast f) (isnaFast g) f.closed) st x = some 1 := by
    intro st x
    rw [den_combine _ _ _ _ hn1 hn2, (nullFast_bad f hbad).1, den_const]
    have : ∃ q, Den (isnaFast g) st x = some q := by
      unfold isnaFast nullFast; split
      · rw [den_unop _ g hg]; exact ⟨_, rfl⟩
      · exact ⟨_, rfl⟩
    obtain ⟨q, hq⟩ := this
    rw [hq]; simp [BinOp.eval, vlogic, Logic.eval, truth, b2r]
  have hmw := wf_combine (BinOp.logic .or).eval (isnaFast f) (isnaFast g) f.closed hn1 hn2
  refine ⟨_, _, _, f7b_same_ok _ _ _ f.closed hc1 hc2, f7b_same_ok maskOp f _ f.closed rfl rfl,
    f7b_same_ok maskOp g _ f.closed hc.symm rfl, hm, fun st x => ?_, fun st x => ?_⟩
  · rw [den_combine _ _ _ _ hf hmw, hm]; simp [maskOp]
  · rw [den_combine _ _ _ _ hg hmw, hm]; simp [maskOp]

/-- `cov` with a pluggable `isna` (a literal copy of `Stats.covPrep` / `Stats.cov` at lag 0) -/
def covPrepWith (isn : Stairs Rat → Stairs Rat) (f g : Stairs Rat) (lo hi : Option Rat) :
    Except Err (Stairs Rat × Stairs Rat × Option Rat × Option Rat) := do
  let m ← binop (.logic .or) (isn f) (isn g)
  let f1 ← mask f m
  let g1 ← mask g m
  pure (f1, g1, lo, hi)

def covWith (isn : Stairs Rat → Stairs Rat) (f g : Stairs Rat) (lo hi : Option Rat) : Except Err Val := do
  let (f1, g1, lo', hi') ← covPrepWith isn f g lo hi
  let fg ← binop .mul f1 g1
  let a ← clipW fg lo' hi'
  let b ← clipW f1 lo' hi'
  let c ← clipW g1 lo' hi'
  pure (vsub (mean a) (vmul (mean b) (mean c)))

theorem covWith_isna (f g : Stairs Rat) (lo hi : Option Rat) :
    covWith (unop .isna) f g lo hi = cov f g lo hi 0 true := by
  unfold covWith cov covPrepWith covPrep
  simp

/-- on `f` = undefined before 0, then 1, 3, 2 and `g` = 0, 2, 1 the covariance over `[0, 8)` is 9/32; with the
shortcut it is undefined -/
def fC : Stairs Rat := ⟨none, [(0, some 1), (2, some 3), (6, some 2)], .left⟩
def gC : Stairs Rat := ⟨some 0, [(1, some 2), (5, some 1)], .left⟩
example : fC.WF ∧ gC.WF ∧ fC.closed = gC.closed ∧ ¬ NullFastOK fC := by decide +kernel
example : covWith (unop .isna) fC gC (some 0) (some 8) = .ok (some (9/32)) ∧
    covWith isnaFast fC gC (some 0) (some 8) = .ok none := by decide +kernel


/-! ## 5. `clip` truncating a fractional lower bound on an integer index

Seeded form (C06-6): when `lower` falls strictly between two step points the first retained row is relabelled to
`lower`; done on the raw numpy index this silently truncates a fractional `lower` TOWARDS ZERO when the index is
`int64`, i.e. when every step point is an integer (a fractional upper bound is inserted first and turns the index
into floats, which hides the problem).  The window becomes `[trunc a, b)` instead of `[a, b)`. -/
section trunc

def isInt (q : Rat) : Bool := q.den == 1

theorem isInt_iff (q : Rat) : isInt q = true ↔ ∃ n : Int, q = (n : Rat) := by
  unfold isInt
  rw [beq_iff_eq]
  constructor
  · intro h; exact ⟨q.num, (Rat.coe_int_num_of_den_eq_one h).symm⟩
  · rintro ⟨n, rfl⟩; exact Rat.den_intCast n

/-- truncation towards zero (what storing a float into an `int64` array does) -/
def truncR (q : Rat) : Rat := if 0 ≤ q then ((q.floor : Int) : Rat) else ((q.ceil : Int) : Rat)

/-- a fractional `a` and its truncation have no integer between them: an integer is `≤ a` iff it is `≤ trunc a`
(for `a > 0`, where `trunc a < a`) resp. `< trunc a` (for `a < 0`, where `a < trunc a`) -/
theorem k6b_trunc_cases (a : Rat) (ha : isInt a = false) :
    (truncR a < a ∧ ∀ n : Int, ((n : Rat) ≤ a ↔ (n : Rat) ≤ truncR a)) ∨
    (a < truncR a ∧ ∀ n : Int, ((n : Rat) ≤ a ↔ (n : Rat) < truncR a)) := by
  have hne : ∀ n : Int, (n : Rat) ≠ a := fun n h => by
    have : isInt a = true := (isInt_iff a).mpr ⟨n, h.symm⟩
    rw [ha] at this; cases this
  unfold truncR
  by_cases h0 : 0 ≤ a
  · rw [if_pos h0]
    left
    refine ⟨lt_of_le_of_ne (Rat.floor_le a) (hne _), fun n => ?_⟩
    rw [Rat.intCast_le_intCast, Rat.le_floor_iff]
  · rw [if_neg h0]
    right
    refine ⟨lt_of_le_of_ne Rat.le_ceil (Ne.symm (hne _)), fun n => ?_⟩
    rw [Rat.intCast_lt_intCast, Rat.lt_ceil_iff]
    exact ⟨fun h => lt_of_le_of_ne h (hne n), le_of_lt⟩

theorem truncR_ne (a : Rat) (ha : isInt a = false) : truncR a ≠ a := by
  rcases k6b_trunc_cases a ha with ⟨h, _⟩ | ⟨h, _⟩
  · exact ne_of_lt h
  · exact ne_of_gt h

theorem k6b_reached_false_of {st : Bool} {p q x : P} (hpq : p < q) (h : reached st p x = false) :
    reached st q x = false := by
  cases hq : reached st q x with
  | false => rfl
  | true => rw [reached_mono hpq hq] at h; cases h

/-- a point `x` that tells the windows starting at `a` and at `t` apart sees exactly the integers `≤ a` -/
theorem k6b_reached_trunc (a t n : Rat) (hna : n ≠ a)
    (hcase : (t < a ∧ (n ≤ a ↔ n ≤ t)) ∨ (a < t ∧ (n ≤ a ↔ n < t)))
    (st : Bool) (x : Rat) (hd : reached st a x ≠ reached st t x) :
    reached st n x = reached false n a := by
  rcases hcase with ⟨hta, hn⟩ | ⟨hat, hn⟩
  · have h1 : reached st t x = true ∧ reached st a x = false := by
      cases h : reached st a x with
      | true => rw [h, reached_mono hta h] at hd; exact absurd rfl hd
      | false =>
        cases h' : reached st t x with
        | true => exact ⟨rfl, rfl⟩
        | false => rw [h, h'] at hd; exact absurd rfl hd
    by_cases hle : n ≤ a
    · rw [(reached_right_iff n a).mpr hle]
      rcases lt_or_eq_of_le (hn.mp hle) with h | h
      · exact reached_mono h h1.1
      · rw [h]; exact h1.1
    · have h2 : reached false n a = false := Bool.eq_false_iff.mpr (fun h => hle ((reached_right_iff n a).mp h))
      rw [h2]
      exact k6b_reached_false_of (lt_of_not_ge hle) h1.2
  · have h1 : reached st a x = true ∧ reached st t x = false := by
      cases h : reached st t x with
      | true => rw [h, reached_mono hat h] at hd; exact absurd rfl hd
      | false =>
        cases h' : reached st a x with
        | true => exact ⟨rfl, rfl⟩
        | false => rw [h, h'] at hd; exact absurd rfl hd
    by_cases hle : n ≤ a
    · rw [(reached_right_iff n a).mpr hle]
      exact reached_mono (lt_of_le_of_ne hle hna) h1.1
    · have h2 : reached false n a = false := Bool.eq_false_iff.mpr (fun h => hle ((reached_right_iff n a).mp h))
      rw [h2]
      have htn : t ≤ n := le_of_not_gt (fun h => hle (hn.mpr h))
      rcases lt_or_eq_of_le htn with h | h
      · exact k6b_reached_false_of h h1.2
      · rw [← h]; exact h1.2

/-- on an integer index `f` is constant between `a` and `trunc a`: every limit there is `f`'s value at `a` -/
theorem k6b_den_trunc (f : Stairs Rat) (a : Rat) (hint : ∀ pv ∈ f.steps, isInt pv.1 = true) (ha : isInt a = false)
    (st : Bool) (x : Rat) (hd : reached st a x ≠ reached st (truncR a) x) : Den f st x = Den f false a := by
  apply k6b_lim_congr_reached
  intro pv hm
  obtain ⟨n, hn⟩ := (isInt_iff pv.1).mp (hint pv hm)
  rw [hn]
  have hna : (n : Rat) ≠ a := fun h => by
    have : isInt a = true := (isInt_iff a).mpr ⟨n, h.symm⟩
    rw [ha] at this; cases this
  apply k6b_reached_trunc a (truncR a) n hna ?_ st x hd
  rcases k6b_trunc_cases a ha with ⟨h1, h2⟩ | ⟨h1, h2⟩
  · exact Or.inl ⟨h1, h2 n⟩
  · exact Or.inr ⟨h1, h2 n⟩

/-- the indicator of a window that may be empty (`trunc a = b` can happen for `a < 0`) -/
def winInd (lo hi : Option P) (cl : Side) : Stairs P :=
  if boundsOk lo hi then indicator lo hi cl else const (some 0) cl

theorem k6b_wf_winInd (lo hi : Option P) (cl : Side) : (winInd lo hi cl).WF := by
  unfold winInd; split
  · exact wf_indicator lo hi cl (by assumption)
  · exact wf_const _ _

theorem k6b_obs_winInd (t : P) (hi : Option P) (cl : Side) (o : F7bObs P) :
    f7bObs o (winInd (some t) hi cl) = some (if f7bInWin (some t) hi o then 1 else 0) := by
  unfold winInd
  by_cases hb : boundsOk (some t) hi = true
  · rw [if_pos hb]; exact f7b_obs_indicator (some t) hi cl hb o
  · rw [if_neg hb, f7b_obs_const]
    cases hi with
    | none => simp [boundsOk] at hb
    | some b =>
      have hbt : b ≤ t := by simpa [boundsOk] using hb
      cases o with
      | init => rfl
      | «at» st x =>
        have : inWindow st (some t) (some b) x = false := by
          simp only [inWindow]
          cases h : reached st t x with
          | false => rfl
          | true =>
            have : reached st b x = true := by
              rcases lt_or_eq_of_le hbt with h' | h'
              · exact reached_mono h' h
              · rw [h']; exact h
            simp [this]
        simp [f7bInWin, this]

theorem k6b_where_ind (a : Val) (c : Bool) : whereOp a (some (if c then 1 else 0)) = if c then a else none := by
  cases c <;> simp [whereOp]

/-- does the defective relabelling fire?  every step point an integer (`int64` index), a fractional lower bound
lying after the first step point (hence strictly between two step points or after the last), and an upper bound
that is missing or an integer -/
def truncFires (f : Stairs Rat) (lo hi : Option Rat) : Bool :=
  match lo with
  | none => false
  | some a =>
    f.steps.all (fun pv => isInt pv.1) && !isInt a &&
    (match f.steps with | [] => false | pv :: _ => decide (pv.1 < a)) &&
    (match hi with | none => true | some b => isInt b)

theorem truncFires_iff (f : Stairs Rat) (lo hi : Option Rat) :
    truncFires f lo hi = true ↔ ∃ a, lo = some a ∧ (∀ pv ∈ f.steps, isInt pv.1 = true) ∧ isInt a = false ∧
      (∃ pv r, f.steps = pv :: r ∧ pv.1 < a) ∧ (∀ b, hi = some b → isInt b = true) := by
  cases lo with
  | none => simp [truncFires]
  | some a =>
    simp only [truncFires, Bool.and_eq_true, List.all_eq_true, Bool.not_eq_true', Option.some.injEq,
      exists_eq_left']
    have e1 : ((match f.steps with | [] => false | pv :: _ => decide (pv.1 < a)) = true) ↔
        ∃ pv r, f.steps = pv :: r ∧ pv.1 < a := by cases f.steps <;> simp
    have e2 : ((match hi with | none => true | some b => isInt b) = true) ↔
        ∀ b, hi = some b → isInt b = true := by cases hi <;> simp
    rw [e1, e2]
    simp only [and_assoc]

/-- at or below the lower bound `a` the upper bound does not matter -/
theorem k6b_inWindow_low (a p : P) (hi : Option P) (hb : boundsOk (some a) hi = true) (x : P) (hx : x ≤ a) :
    inWindow false (some p) hi x = reached false p x := by
  cases hi with
  | none => simp [inWindow]
  | some b =>
    have hab : a < b := by simpa [boundsOk] using hb
    simp [inWindow, not_reached_of_lt (lt_of_le_of_lt hx hab)]

/-- the variant: the window starts at `trunc lower` when the relabelling fires -/
def clipTrunc (f : Stairs Rat) (lo hi : Option Rat) : Except Err (Stairs Rat) :=
  if boundsOk lo hi then
    if truncFires f lo hi then .ok (combine whereOp f (winInd (lo.map truncR) hi f.closed) f.closed)
    else clip f lo hi
  else .error .valueError

/-- **what the variant computes when it fires: `f` on the window from `trunc a`** -/
theorem clipTrunc_window (f r : Stairs Rat) (a : Rat) (hi : Option Rat) (hf : f.WF)
    (hb : boundsOk (some a) hi = true) (hfire : truncFires f (some a) hi = true)
    (hr : clipTrunc f (some a) hi = .ok r) :
    r.Canonical ∧ r.closed = f.closed ∧
      ∀ st x, Den r st x = if inWindow st (some (truncR a)) hi x then Den f st x else none := by
  unfold clipTrunc at hr
  rw [if_pos hb, if_pos hfire] at hr
  injection hr with hr; subst hr
  have hw := k6b_wf_winInd (some (truncR a)) hi f.closed
  refine ⟨canonical_combine _ _ _ _ hf hw, rfl, fun st x => ?_⟩
  have := f7b_obs_combine whereOp f _ f.closed hf hw (.at st x)
  rw [k6b_obs_winInd, k6b_where_ind] at this
  exact this

/-- **clipTrunc = clip  iff  the bounds are rejected, or the relabelling does not fire (some step point or the
lower bound not fractional-vs-integer as described, lower bound on/before the first step point, fractional upper
bound), or `f` is undefined at the lower bound** (then it is undefined on the whole stretch between `a` and
`trunc a`, which is all the two windows differ by) -/
theorem clipTrunc_eq_iff (f : Stairs Rat) (lo hi : Option Rat) (hf : f.WF) :
    clipTrunc f lo hi = clip f lo hi ↔
      boundsOk lo hi = false ∨ truncFires f lo hi = false ∨ ∃ a, lo = some a ∧ Den f false a = none := by
  unfold clipTrunc
  by_cases hb : boundsOk lo hi = true
  swap
  · rw [if_neg hb, clip_error f lo hi (by simpa using hb)]
    simp [hb]
  rw [if_pos hb]
  by_cases hfire : truncFires f lo hi = true
  swap
  · rw [if_neg hfire]; simp [hfire]
  rw [if_pos hfire]
  obtain ⟨a, rfl, hint, ha, _, _⟩ := (truncFires_iff f lo hi).mp hfire
  rw [clip_ok f _ _ hb]
  have hw := k6b_wf_winInd (some (truncR a)) hi f.closed
  have hwi := wf_indicator (some a) hi f.closed hb
  simp only [Option.map_some, Except.ok.injEq, hb, hfire, Bool.true_eq_false, false_or, Option.some.injEq,
    exists_eq_left']
  rw [k6b_combine_eq_iff whereOp whereOp f _ f _ f.closed hf hwi hf hw]
  simp only [k6b_obs_winInd, f7b_obs_indicator (some a) hi f.closed hb, k6b_where_ind]
  constructor
  · intro h
    rcases k6b_trunc_cases a ha with ⟨hta, _⟩ | ⟨hat, _⟩
    · -- the variant's window contains `trunc a`, the true one does not
      have h1 := h (.at false (truncR a))
      have hd : reached false a (truncR a) ≠ reached false (truncR a) (truncR a) := by
        rw [not_reached_of_lt hta, reached_self_right]; simp
      have e1 : f7bInWin (some (truncR a)) hi (.at false (truncR a)) = true := by
        simp only [f7bInWin]
        rw [k6b_inWindow_low a _ hi hb _ (le_of_lt hta), reached_self_right]
      have e2 : f7bInWin (some a) hi (.at false (truncR a)) = false := by
        simp only [f7bInWin]
        rw [k6b_inWindow_low a _ hi hb _ (le_of_lt hta), not_reached_of_lt hta]
      rw [e1, e2] at h1
      simp only [if_true, Bool.false_eq_true, if_false] at h1
      rw [← k6b_den_trunc f a hint ha false (truncR a) hd]
      exact h1
    · -- the true window contains `a`, the variant's does not
      have h1 := h (.at false a)
      have e1 : f7bInWin (some (truncR a)) hi (.at false a) = false := by
        simp only [f7bInWin]
        rw [k6b_inWindow_low a _ hi hb _ le_rfl, not_reached_of_lt hat]
      have e2 : f7bInWin (some a) hi (.at false a) = true := by
        simp only [f7bInWin]
        rw [k6b_inWindow_low a _ hi hb _ le_rfl, reached_self_right]
      rw [e1, e2] at h1
      simp only [if_true, Bool.false_eq_true, if_false] at h1
      exact h1.symm
  · intro h o
    cases o with
    | init => rfl
    | «at» st x =>
      by_cases heq : reached st a x = reached st (truncR a) x
      · have : f7bInWin (some (truncR a)) hi (.at st x) = f7bInWin (some a) hi (.at st x) := by
          simp only [f7bInWin, inWindow, heq]
        rw [this]
      · have : f7bObs (.at st x) f = none := by
          show Den f st x = none
          rw [k6b_den_trunc f a hint ha st x heq]; exact h
        rw [this]; simp

/-- so an input exposes the defect iff the relabelling fires and `f` is defined at the lower bound -/
theorem clipTrunc_ne_iff (f : Stairs Rat) (lo hi : Option Rat) (hf : f.WF) :
    clipTrunc f lo hi ≠ clip f lo hi ↔
      boundsOk lo hi = true ∧ truncFires f lo hi = true ∧ ∃ a, lo = some a ∧ Den f false a ≠ none := by
  rw [Ne, clipTrunc_eq_iff f lo hi hf]
  cases lo with
  | none => simp [truncFires]
  | some a => simp only [not_or, Bool.not_eq_false, Option.some.injEq, exists_eq_left']

/-- **refutation** (the seeded demo): `f = 2 on [1,3), 3 on [3,5), 1 on [5,9)`; `clip(3.5, 7)` must start at 3.5,
the variant starts at 3 (and integrates to 8 instead of 13/2); `clip(−2.5, 3)` of a function with step points
−4, −1 must start at −2.5, the variant starts at −2 -/
def fR : Stairs Rat := ⟨some 0, [(1, some 2), (3, some 3), (5, some 1), (9, some 0)], .left⟩
def hR : Stairs Rat := ⟨some 0, [(-4, some 2), (-1, some 5)], .left⟩
theorem clipTrunc_refuted :
    fR.Canonical ∧ hR.Canonical ∧ truncFires fR (some (7/2)) (some 7) = true ∧
    clip fR (some (7/2)) (some 7) = .ok ⟨none, [(7/2, some 3), (5, some 1), (7, none)], .left⟩ ∧
    clipTrunc fR (some (7/2)) (some 7) = .ok ⟨none, [(3, some 3), (5, some 1), (7, none)], .left⟩ ∧
    integral ⟨none, [(7/2, some 3), (5, some 1), (7, none)], .left⟩ = some (13/2) ∧
    integral ⟨none, [(3, some 3), (5, some 1), (7, none)], .left⟩ = some 8 ∧
    clip hR (some (-5/2)) (some 3) = .ok ⟨none, [(-5/2, some 2), (-1, some 5), (3, none)], .left⟩ ∧
    clipTrunc hR (some (-5/2)) (some 3) = .ok ⟨none, [(-2, some 2), (-1, some 5), (3, none)], .left⟩ ∧
    clipTrunc fR (some (7/2)) none ≠ clip fR (some (7/2)) none := by decide +kernel

/-- controls that hold either way: integer lower bound, fractional upper bound, a fractional step point, a lower
bound before the first step point, `f` undefined at the lower bound, and the empty truncated window -/
example : clipTrunc fR (some 3) (some 7) = clip fR (some 3) (some 7) ∧
    clipTrunc fR (some (7/2)) (some (15/2)) = clip fR (some (7/2)) (some (15/2)) ∧
    clipTrunc ⟨some 0, [(1, some 2), (5/2, some 3)], .left⟩ (some (7/2)) (some 7)
      = clip ⟨some 0, [(1, some 2), (5/2, some 3)], .left⟩ (some (7/2)) (some 7) ∧
    clipTrunc fR (some (1/2)) (some 7) = clip fR (some (1/2)) (some 7) ∧
    clipTrunc ⟨some 0, [(1, some 2), (3, none), (5, some 1)], .left⟩ (some (7/2)) (some 7)
      = clip ⟨some 0, [(1, some 2), (3, none), (5, some 1)], .left⟩ (some (7/2)) (some 7) ∧
    clipTrunc hR (some (-5/2)) (some (-2)) = .ok ⟨none, [], .left⟩ := by decide +kernel

end trunc

/-! ## 6. the scalar logical shortcuts `f & 0 = 0`, `f | c = 1`

The correct results are 0 / 1 WHERE `f` IS DEFINED (`C05.and_zero_keeps_undefined`).  Seeded forms: return the
constant when no step value is undefined (C05-6, C05-10: blind to the initial value), or when the initial value
is defined (C05-3: blind to the step values). -/

/-- `k` where `f` is defined, undefined elsewhere -/
def kOn (k : Rat) (f : Stairs P) : Stairs P := map (fun a => a.map fun _ => k) f

/-- the model's `f & 0` and `f | c` (scalar on either side) -/
def andZero (f : Stairs P) : Stairs P := combine (vlogic .and) f (const (some 0) f.closed) f.closed
def orScalar (c : Rat) (f : Stairs P) : Stairs P := combine (vlogic .or) f (const (some c) f.closed) f.closed

theorem binopO_and_zero (f : Stairs P) :
    binopO (.logic .and) (.st f) (.sc (some 0)) = some (.ok (andZero f)) := g4b_binopO_right _ f _
theorem binopO_or_scalar (c : Rat) (f : Stairs P) :
    binopO (.logic .or) (.st f) (.sc (some c)) = some (.ok (orScalar c f)) := g4b_binopO_right _ f _

theorem andZero_eq_kOn (f : Stairs P) (hf : f.WF) : andZero f = kOn 0 f :=
  ((k6b_map_eq_combine_iff _ _ f f _ f.closed hf hf (wf_const _ _) rfl).mpr (fun o => by
    rw [f7b_obs_const]; cases f7bObs o f <;> simp [vlogic, Logic.eval, truth, b2r])).symm

theorem orScalar_eq_kOn (c : Rat) (hc : c ≠ 0) (f : Stairs P) (hf : f.WF) : orScalar c f = kOn 1 f :=
  ((k6b_map_eq_combine_iff _ _ f f _ f.closed hf hf (wf_const _ _) rfl).mpr (fun o => by
    rw [f7b_obs_const]; cases f7bObs o f <;> simp [vlogic, Logic.eval, truth, b2r, hc])).symm

/-- the reflected forms `0 & f`, `c | f` are the same objects -/
theorem andZero_left (f : Stairs P) (hf : f.WF) :
    binopO (.logic .and) (.sc (some 0)) (.st f) = some (.ok (andZero f)) := by
  rw [g4b_binopO_left]
  congr 2
  exact (k6b_combine_eq_iff _ _ f _ _ f f.closed hf (wf_const _ _) (wf_const _ _) hf).mpr (fun o => by
    rw [f7b_obs_const]; cases f7bObs o f <;> simp [BinOp.eval, vlogic, Logic.eval, truth, b2r])

theorem kOn_eq_const_iff (k : Rat) (f : Stairs P) : kOn k f = const (some k) f.closed ↔ Total f := by
  unfold kOn Total
  rw [k6b_map_eq_const_iff]
  apply and_congr
  · cases f.init <;> simp
  · apply forall_congr'; intro pv
    apply forall_congr'; intro _
    cases pv.2 <;> simp

/-- the three shortcuts -/
def absorbConst (k : Rat) (f : Stairs P) : Stairs P := const (some k) f.closed
def absorbFast (k : Rat) (f : Stairs P) : Stairs P := if stepsHaveNa f then kOn k f else const (some k) f.closed
def absorbInit (k : Rat) (f : Stairs P) : Stairs P := if f.init.isSome then const (some k) f.closed else kOn k f

def andZeroConst (f : Stairs P) : Stairs P := absorbConst 0 f
def orConst (f : Stairs P) : Stairs P := absorbConst 1 f
def andZeroFast (f : Stairs P) : Stairs P := absorbFast 0 f
def orFast (f : Stairs P) : Stairs P := absorbFast 1 f
def andZeroInit (f : Stairs P) : Stairs P := absorbInit 0 f
def orInit (f : Stairs P) : Stairs P := absorbInit 1 f

theorem absorbFast_eq_iff (k : Rat) (f : Stairs P) :
    absorbFast k f = kOn k f ↔ f.init ≠ none ∨ stepsHaveNa f = true := by
  unfold absorbFast
  by_cases hna : stepsHaveNa f = true
  · simp [hna]
  · rw [if_neg hna, eq_comm, kOn_eq_const_iff]
    have hall := (stepsHaveNa_false f).mp (by simpa using hna)
    have hna' : stepsHaveNa f = false := by simpa using hna
    rw [hna']
    simp only [Bool.false_eq_true, or_false]
    exact ⟨fun h => h.1, fun h => ⟨h, hall⟩⟩

theorem absorbInit_eq_iff (k : Rat) (f : Stairs P) :
    absorbInit k f = kOn k f ↔ f.init = none ∨ stepsHaveNa f = false := by
  unfold absorbInit
  cases hi : f.init with
  | none => simp
  | some q =>
    simp only [Option.isSome_some, if_true, reduceCtorEq, false_or]
    rw [eq_comm, kOn_eq_const_iff, stepsHaveNa_false]
    unfold Total
    rw [hi]; simp

/-- **`f & 0 ↦ 0` / `f | c ↦ 1` are right iff `f` is defined everywhere** (initial value and all step values;
equivalently – `total_iff_den` – the initial value and both one-sided limits everywhere) -/
theorem andZeroConst_eq_iff (f : Stairs P) (hf : f.WF) : andZeroConst f = andZero f ↔ Total f := by
  rw [andZero_eq_kOn f hf, eq_comm]; exact kOn_eq_const_iff 0 f
theorem orConst_eq_iff (c : Rat) (hc : c ≠ 0) (f : Stairs P) (hf : f.WF) : orConst f = orScalar c f ↔ Total f := by
  rw [orScalar_eq_kOn c hc f hf, eq_comm]; exact kOn_eq_const_iff 1 f

/-- **the narrower shortcut (only the step values are checked for NaN) is right iff the initial value is defined
or some step value is undefined** – a step-free undefined `f` is affected too -/
theorem andZeroFast_eq_iff (f : Stairs P) (hf : f.WF) :
    andZeroFast f = andZero f ↔ f.init ≠ none ∨ stepsHaveNa f = true := by
  rw [andZero_eq_kOn f hf]; exact absorbFast_eq_iff 0 f
theorem orFast_eq_iff (c : Rat) (hc : c ≠ 0) (f : Stairs P) (hf : f.WF) :
    orFast f = orScalar c f ↔ f.init ≠ none ∨ stepsHaveNa f = true := by
  rw [orScalar_eq_kOn c hc f hf]; exact absorbFast_eq_iff 1 f

/-- **the mirror shortcut (only the initial value is checked) is right iff the initial value is undefined or no
step value is** -/
theorem andZeroInit_eq_iff (f : Stairs P) (hf : f.WF) :
    andZeroInit f = andZero f ↔ f.init = none ∨ stepsHaveNa f = false := by
  rw [andZero_eq_kOn f hf]; exact absorbInit_eq_iff 0 f
theorem orInit_eq_iff (c : Rat) (hc : c ≠ 0) (f : Stairs P) (hf : f.WF) :
    orInit f = orScalar c f ↔ f.init = none ∨ stepsHaveNa f = false := by
  rw [orScalar_eq_kOn c hc f hf]; exact absorbInit_eq_iff 1 f

/-- **refutations** (minimal): `fI` (undefined before 2) for the constant and the step-values-only shortcuts, the
step-free undefined function for both, `2 | undefined from 3` for the initial-value-only shortcut -/
def fU : Stairs Int := ⟨none, [], .left⟩
def fJ : Stairs Int := ⟨some 2, [(3, none)], .left⟩
theorem logicShortcuts_refuted :
    fI.WF ∧ fU.WF ∧ fJ.WF ∧
    binopO (.logic .and) (.st fI) (.sc (some 0)) = some (.ok ⟨none, [(2, some 0)], .left⟩) ∧
    binopO (.logic .or) (.st fI) (.sc (some 5)) = some (.ok ⟨none, [(2, some 1)], .left⟩) ∧
    andZeroConst fI ≠ andZero fI ∧ orConst fI ≠ orScalar 5 fI ∧ andZeroFast fI ≠ andZero fI ∧
    orFast fI ≠ orScalar 5 fI ∧ andZeroFast fU ≠ andZero fU ∧ orFast fU ≠ orScalar 5 fU ∧
    andZeroInit fJ ≠ andZero fJ ∧ orInit fJ ≠ orScalar 5 fJ ∧
    -- each narrow shortcut is blind to the other's witness
    andZeroInit fI = andZero fI ∧ andZeroFast fJ = andZero fJ ∧ andZero fJ = ⟨some 0, [(3, none)], .left⟩ := by
  decide +kernel

/-! ## 7. `make_boolean` / `invert` of a step-free function without the NaN guard

Seeded form (C05-8): the step-free early return computes `(initial value ≠ 0) * 1` resp. `(initial value = 0) * 1`
directly; `NaN ≠ 0` is true and `NaN = 0` is false, so the everywhere-undefined function becomes 1 resp. 0. -/

def mbFast (f : Stairs P) : Stairs P :=
  if f.hasSteps then unop .makeBoolean f else const (some (b2r (ieeeNe0 f.init))) f.closed
def invertFast (f : Stairs P) : Stairs P :=
  if f.hasSteps then unop .invert f else const (some (b2r (ieeeEq0 f.init))) f.closed

/-- **right iff the function has steps or a defined initial value** – for ALL inputs -/
theorem mbFast_eq_iff (f : Stairs P) : mbFast f = unop .makeBoolean f ↔ f.hasSteps = true ∨ f.init ≠ none := by
  obtain ⟨a, s, cl⟩ := f
  cases s with
  | cons pv r => simp [mbFast, hasSteps]
  | nil =>
    cases a with
    | none => simp [mbFast, hasSteps, unop, k6b_map_stepfree, const, UnOp.eval]
    | some q => simp [mbFast, hasSteps, unop, k6b_map_stepfree, const, UnOp.eval, ieeeNe0, truth]

theorem invertFast_eq_iff (f : Stairs P) : invertFast f = unop .invert f ↔ f.hasSteps = true ∨ f.init ≠ none := by
  obtain ⟨a, s, cl⟩ := f
  cases s with
  | cons pv r => simp [invertFast, hasSteps]
  | nil =>
    cases a with
    | none => simp [invertFast, hasSteps, unop, k6b_map_stepfree, const, UnOp.eval]
    | some q => simp [invertFast, hasSteps, unop, k6b_map_stepfree, const, UnOp.eval, ieeeEq0, truth]

/-- the only affected input is the everywhere-undefined step-free function, which becomes 1 resp. 0 -/
theorem unopStepFreeFast_bad (cl : Side) :
    mbFast (⟨none, [], cl⟩ : Stairs P) = ⟨some 1, [], cl⟩ ∧ invertFast (⟨none, [], cl⟩ : Stairs P) = ⟨some 0, [], cl⟩ ∧
    unop .makeBoolean (⟨none, [], cl⟩ : Stairs P) = ⟨none, [], cl⟩ ∧
    unop .invert (⟨none, [], cl⟩ : Stairs P) = ⟨none, [], cl⟩ := by
  refine ⟨?_, ?_, rfl, rfl⟩ <;> simp [mbFast, invertFast, hasSteps, const, ieeeNe0, ieeeEq0, b2r]

theorem unopStepFreeFast_refuted :
    mbFast fU ≠ unop .makeBoolean fU ∧ invertFast fU ≠ unop .invert fU ∧
    mbFast fI = unop .makeBoolean fI ∧ invertFast fI = unop .invert fI ∧
    mbFast (⟨some 0, [], .left⟩ : Stairs Int) = unop .makeBoolean ⟨some 0, [], .left⟩ := by decide +kernel

end SC.Props.C06b
