import SCModel.Lemmas.Integral8b
import SCModel.Props.C08
import SCModel.Props.C19b
import SCModel.Props.C20b
/-!
# C08b — the algebra of `integral` / `mean` / `var` over windows

The library computes `f.integral(where=(a, b))` as the integral of `f.clip(a, b)`, `mean` as integral / defined
length, `var` as the length-weighted mean squared deviation.  `integralIn` / `meanIn` / `varIn` below are exactly
that; for a bounded window `a < b` the clipped function is `window f a b` (`statsIn_ok`), for `b ≤ a` the call
raises `ValueError` (`statsIn_degenerate`).  With

* `intOn f a b`  – the integral sum `Σ value·length` over the defined pieces of the window (`0` if there are none),
* `lenOn f a b`  – the defined length of the window,

the three statistics of a window are (`integral_window`, `mean_window`, `var_window`)

  `integral = if lenOn = 0 then NaN else intOn`,  `mean = if lenOn = 0 then NaN else intOn / lenOn`,
  `var = if lenOn = 0 then NaN else Σ (value − mean)²·length / lenOn`,

and `lenOn f a b = 0` iff `f` is undefined throughout `[a, b)` (`lenOn_eq_zero_iff`).  Everything is stated for
arbitrary well-formed `f` (either closed side: right limits `Den f false` describe the function up to the end
points, which carry no length).

0. the formulae above; representation independence (`window_stats_congr`: only the function on `[a, b)` matters).
1. **window additivity** (`a < b < c`): `lenOn`, `intOn`, every weighted sum add (`length_window_additive`,
   `intOn_window_additive`, `wsum_window_additive`); `integral` adds with "NaN = nothing there" (`integral_window_additive`:
   `naAdd`), with the plain `+` of the library when `f` is defined somewhere in each part
   (`integral_window_additive_defined`); **refuted** for plain `+` otherwise (`integral_window_additive_needs_defined`)
   and at `a = b` (`statsIn_degenerate`: `ValueError`).  `mean` of the union is the length-weighted mean (`mean_window_split`).
2. **linearity**: `integral (f + g) = integral f + integral g` when `f`, `g` are defined on the same part of the window
   (`integral_add_window`, core `add_window`); **refuted** without (`integral_add_needs_same_domain`);
   `mean (f + g) = mean f + mean g` (`mean_add_window`).  For `h = k·f + d` (`affine_window`): `lenOn` equal,
   `integral h = k·integral f + d·lenOn`, `mean h = k·mean f + d`, `var h = k²·var f`; instances
   `scale_window` (`f * k`: `integral`, `mean` scale by `k`, `var` by `k²` — also for `k = 0`),
   `addConst_window` (`f + k`: `mean + k`, `var` unchanged), `neg_window`.  Without a window the same holds for
   *canonical* `f` and `k ≠ 0` (`affine_unbounded`, `scale_unbounded`, `addConst_unbounded`) and **fails** otherwise:
   `integral (0·f) ≠ 0·integral f` (`integral_scale_zero_unbounded`), `integral (g + 0) ≠ integral g` for a
   non-canonical `g` (`addConst_noncanonical`) — that is where the bounded window matters.
3. **monotonicity**: `f ≤ g` on the common domain of definition ⇒ `integral f ≤ integral g`, `mean f ≤ mean g`
   (`integral_mono_window`, `mean_mono_window`); **refuted** when the domains differ (`mono_needs_same_domain`);
   non-negative function ⇒ non-negative integral and mean (`integral_nonneg_window`, `mean_nonneg_window`).
4. **constants**: `f = c` on `[a, b)` ⇒ `integral = c·(b − a)`, `lenOn = b − a`, `mean = c`, `var = 0`
   (`const_on_window`, `const_window`); the undefined constant gives NaN everywhere (`const_none_window`).
-/
set_option linter.unusedSectionVars false
set_option linter.unusedVariables false
namespace SC.Props.C08b
open SC SC.Stairs SC.Props.C08 SC.Props.C19b

/-! ## 0. the windowed statistics -/

/-- `f.integral(where=(lo, hi))`: the integral of `f` clipped to the window (`none` = ∓∞) -/
def integralIn (f : Stairs Rat) (lo hi : Option Rat) : Except Err Val := (clipW f lo hi).map integral
/-- `f.mean(where=(lo, hi))` -/
def meanIn (f : Stairs Rat) (lo hi : Option Rat) : Except Err Val := (clipW f lo hi).map mean
/-- `f.var(where=(lo, hi))` -/
def varIn (f : Stairs Rat) (lo hi : Option Rat) : Except Err Val := (clipW f lo hi).map var

/-- bounded window `a < b`: the statistics of `window f a b` -/
theorem statsIn_ok (f : Stairs Rat) (a b : Rat) (hab : a < b) :
    clip f (some a) (some b) = .ok (window f a b) ∧
    integralIn f (some a) (some b) = .ok (integral (window f a b)) ∧
    meanIn f (some a) (some b) = .ok (mean (window f a b)) ∧
    varIn f (some a) (some b) = .ok (var (window f a b)) := by
  have h : clipW f (some a) (some b) = .ok (window f a b) := clip_window f a b hab
  refine ⟨clip_window f a b hab, ?_, ?_, ?_⟩
  · unfold integralIn; rw [h]; rfl
  · unfold meanIn; rw [h]; rfl
  · unfold varIn; rw [h]; rfl

/-- **the case `a = b` (or `b < a`) of a "window"**: `clip` raises `ValueError`, so no additivity statement can
include a degenerate part -/
theorem statsIn_degenerate (f : Stairs Rat) (a b : Rat) (hab : ¬ a < b) :
    integralIn f (some a) (some b) = .error .valueError ∧ meanIn f (some a) (some b) = .error .valueError ∧
    varIn f (some a) (some b) = .error .valueError := by
  have h : clipW f (some a) (some b) = .error .valueError :=
    clip_error f _ _ (by simpa [boundsOk] using hab)
  refine ⟨?_, ?_, ?_⟩
  · unfold integralIn; rw [h]; rfl
  · unfold meanIn; rw [h]; rfl
  · unfold varIn; rw [h]; rfl

/-- no window: the plain statistics -/
theorem statsIn_unbounded (f : Stairs Rat) :
    integralIn f none none = .ok (integral f) ∧ meanIn f none none = .ok (mean f) ∧
    varIn f none none = .ok (var f) := ⟨rfl, rfl, rfl⟩

/-- the window is canonical, has the closed side of `f`, and denotes `f` on `[a, b)`, "undefined" elsewhere -/
theorem window_den (f : Stairs Rat) (hf : f.WF) (a b : Rat) (hab : a < b) :
    (window f a b).Canonical ∧ (window f a b).closed = f.closed ∧ BoundedSupport (window f a b) ∧
    ∀ x, Den (window f a b) false x = if a ≤ x ∧ x < b then Den f false x else none :=
  ⟨i8b_canonical_window f hf a b hab, rfl, window_bounded f a b hf hab, den_window_right f a b hf hab⟩

/-- the defined length of a window is zero iff `f` is undefined throughout it … -/
theorem lenOn_eq_zero_iff (f : Stairs Rat) (hf : f.WF) (a b : Rat) (hab : a < b) :
    lenOn f a b = 0 ↔ ∀ x, a ≤ x → x < b → Den f false x = none := i8b_lenOn_eq_zero_iff f hf a b hab

/-- … and positive iff `f` is defined somewhere in it -/
theorem lenOn_pos_iff (f : Stairs Rat) (hf : f.WF) (a b : Rat) (hab : a < b) :
    0 < lenOn f a b ↔ ∃ x, a ≤ x ∧ x < b ∧ Den f false x ≠ none := i8b_lenOn_pos_iff f hf a b hab

theorem lenOn_nonneg (f : Stairs Rat) (hf : f.WF) (a b : Rat) (hab : a < b) : 0 ≤ lenOn f a b :=
  i8b_lenOn_nonneg f hf a b hab

theorem intOn_eq_zero_of_lenOn (f : Stairs Rat) (hf : f.WF) (a b : Rat) (hab : a < b) (h : lenOn f a b = 0) :
    intOn f a b = 0 := i8b_wsum_eq_zero_of_lenOn _ f hf a b hab h

/-- **`integral` over a window**: NaN when `f` is nowhere defined in it, else the integral sum -/
theorem integral_window (f : Stairs Rat) (hf : f.WF) (a b : Rat) (hab : a < b) :
    integral (window f a b) = if lenOn f a b = 0 then none else some (intOn f a b) :=
  i8b_integral_window f hf a b hab

/-- **`mean` over a window** = integral / defined length -/
theorem mean_window (f : Stairs Rat) (a b : Rat) :
    mean (window f a b) = if lenOn f a b = 0 then none else some (intOn f a b / lenOn f a b) :=
  mean_window_general f a b

/-- `mean` is `integral` divided by the defined length -/
theorem mean_eq_integral_div (f : Stairs Rat) (hf : f.WF) (a b : Rat) (hab : a < b) :
    mean (window f a b) = (integral (window f a b)).map (· / lenOn f a b) := by
  rw [mean_window, integral_window f hf a b hab]
  split <;> rfl

/-- `var` of any function in closed form (companion of `mean_eq_ite`) -/
theorem var_eq_ite (c : Stairs Rat) :
    var c = if definedLength c = 0 then none
      else some (wsum (fun v => (v - wsum (fun v => v) c / definedLength c)
        * (v - wsum (fun v => v) c / definedLength c)) c / definedLength c) := by
  by_cases h0 : definedLength c = 0
  · rw [if_pos h0, var_none _ (by rw [mean_eq_ite, if_pos h0])]
  · rw [if_neg h0, var_eq_pieces _ _ (by rw [mean_eq_ite, if_neg h0])]
    rfl

/-- **`var` over a window** = length-weighted mean squared deviation from the window mean -/
theorem var_window (f : Stairs Rat) (a b : Rat) :
    var (window f a b) = if lenOn f a b = 0 then none
      else some (wsum (fun v => (v - intOn f a b / lenOn f a b) * (v - intOn f a b / lenOn f a b)) (window f a b)
        / lenOn f a b) := var_eq_ite _

/-- the three statistics are defined together -/
theorem stats_window_isSome (f : Stairs Rat) (hf : f.WF) (a b : Rat) (hab : a < b) :
    ((integral (window f a b)).isSome ↔ lenOn f a b ≠ 0) ∧ ((mean (window f a b)).isSome ↔ lenOn f a b ≠ 0) ∧
    ((var (window f a b)).isSome ↔ lenOn f a b ≠ 0) := by
  rw [integral_window f hf a b hab, mean_window, var_window]
  by_cases h0 : lenOn f a b = 0 <;> simp [h0]

/-- **only the function on `[a, b)` matters** (representation independence, from `C19b.stats_eq_of_den_bounded`):
two well-formed functions with the same right limits on `[a, b)` have the same window statistics; with the same
closed side even the same window object -/
theorem window_stats_congr (f g : Stairs Rat) (hf : f.WF) (hg : g.WF) (a b : Rat) (hab : a < b)
    (h : ∀ x, a ≤ x → x < b → Den f false x = Den g false x) :
    lenOn f a b = lenOn g a b ∧ intOn f a b = intOn g a b ∧
    integral (window f a b) = integral (window g a b) ∧ mean (window f a b) = mean (window g a b) ∧
    var (window f a b) = var (window g a b) ∧ valueSums (window f a b) = valueSums (window g a b) ∧
    (f.closed = g.closed → window f a b = window g a b) := by
  have hden : ∀ x, Den (window f a b) false x = Den (window g a b) false x := by
    intro x
    rw [den_window_right f a b hf hab, den_window_right g a b hg hab]
    by_cases hx : a ≤ x ∧ x < b
    · rw [if_pos hx, if_pos hx]; exact h x hx.1 hx.2
    · rw [if_neg hx, if_neg hx]
  obtain ⟨hL, hI, hm, hv, hvs⟩ := stats_eq_of_den_bounded (window f a b) (window g a b)
    (wf_window f a b hf hab) (wf_window g a b hg hab) hden (window_bounded f a b hf hab)
  have hL' : lenOn f a b = lenOn g a b := hL
  have hI' : intOn f a b = intOn g a b := hI
  refine ⟨hL', hI', ?_, hm, hv, hvs, ?_⟩
  · rw [integral_window f hf a b hab, integral_window g hg a b hab, hL', hI']
  · intro hc
    exact canonical_ext _ _ (i8b_canonical_window f hf a b hab) (i8b_canonical_window g hg a b hab) hc hden

/-- non-vacuity: C08's `g₁` (redundant first row) and its canonical form denote the same function; the plain
statistics differ (`C08.first_row_matters`), the window statistics do not -/
example : integral (window C08.g₁ (-1) 3) = integral (window C08.g₁.canon (-1) 3) ∧
    mean (window C08.g₁ (-1) 3) = mean (window C08.g₁.canon (-1) 3) :=
  have h := window_stats_congr C08.g₁ C08.g₁.canon (by decide +kernel) (by decide +kernel) (-1) 3 (by decide +kernel)
    (fun x _ _ => (den_canon C08.g₁ (by decide +kernel) false x).symm)
  ⟨h.2.2.1, h.2.2.2.1⟩
example : integral (window C08.g₁ (-1) 3) = some 9 ∧ mean C08.g₁ ≠ mean C08.g₁.canon := by decide +kernel

/-! ## 1. window additivity -/

/-- the sum of two statistics where NaN means "nothing there" (`nansum` with `min_count = 1`) -/
def naAdd : Val → Val → Val
  | some x, some y => some (x + y)
  | some x, none => some x
  | none, y => y

/-- the defined length is additive in the window -/
theorem length_window_additive (f : Stairs Rat) (hf : f.WF) (a b c : Rat) (hab : a < b) (hbc : b < c) :
    definedLength (window f a c) = definedLength (window f a b) + definedLength (window f b c) :=
  lenOn_add f hf a b c hab hbc

/-- the integral sum is additive in the window -/
theorem intOn_window_additive (f : Stairs Rat) (hf : f.WF) (a b c : Rat) (hab : a < b) (hbc : b < c) :
    intOn f a c = intOn f a b + intOn f b c := intOn_add f hf a b c hab hbc

/-- so is every weighted sum `Σ w(value)·length` (hence `value_sums`, second moments, …) -/
theorem wsum_window_additive (w : Rat → Rat) (f : Stairs Rat) (hf : f.WF) (a b c : Rat) (hab : a < b) (hbc : b < c) :
    wsum w (window f a c) = wsum w (window f a b) + wsum w (window f b c) :=
  wsum_window_add w f hf a b c hab hbc

/-- **window additivity of `integral`**, all cases: NaN parts (where `f` is nowhere defined) count as nothing -/
theorem integral_window_additive (f : Stairs Rat) (hf : f.WF) (a b c : Rat) (hab : a < b) (hbc : b < c) :
    integral (window f a c) = naAdd (integral (window f a b)) (integral (window f b c)) := by
  have hac : a < c := lt_trans hab hbc
  have hL := lenOn_add f hf a b c hab hbc
  have hI := intOn_add f hf a b c hab hbc
  have n1 := lenOn_nonneg f hf a b hab
  have n2 := lenOn_nonneg f hf b c hbc
  rw [integral_window f hf a c hac, integral_window f hf a b hab, integral_window f hf b c hbc, hL, hI]
  by_cases h1 : lenOn f a b = 0
  · by_cases h2 : lenOn f b c = 0
    · rw [if_pos h1, if_pos h2, if_pos (by rw [h1, h2]; ring)]; rfl
    · rw [if_pos h1, if_neg h2, if_neg (by rw [h1, zero_add]; exact h2),
        intOn_eq_zero_of_lenOn f hf a b hab h1, zero_add]
      rfl
  · have hne : lenOn f a b + lenOn f b c ≠ 0 := by
      intro h
      have : lenOn f a b = 0 := by linarith
      exact h1 this
    by_cases h2 : lenOn f b c = 0
    · rw [if_neg h1, if_pos h2, if_neg hne, intOn_eq_zero_of_lenOn f hf b c hbc h2, add_zero]
      rfl
    · rw [if_neg h1, if_neg h2, if_neg hne]; rfl

/-- **window additivity with the library's `+`** (`NaN + x = NaN`): `f` must be defined somewhere in each part -/
theorem integral_window_additive_defined (f : Stairs Rat) (hf : f.WF) (a b c : Rat) (hab : a < b) (hbc : b < c)
    (h1 : ∃ x, a ≤ x ∧ x < b ∧ Den f false x ≠ none) (h2 : ∃ x, b ≤ x ∧ x < c ∧ Den f false x ≠ none) :
    integral (window f a c) = vadd (integral (window f a b)) (integral (window f b c)) := by
  have p1 := (lenOn_pos_iff f hf a b hab).mpr h1
  have p2 := (lenOn_pos_iff f hf b c hbc).mpr h2
  rw [integral_window_additive f hf a b c hab hbc, integral_window f hf a b hab, integral_window f hf b c hbc,
    if_neg (ne_of_gt p1), if_neg (ne_of_gt p2)]
  rfl

/-- `u₁`: undefined on `[0, 1)`, `2` on `[1, 3)`, undefined elsewhere -/
def u₁ : Stairs Rat := ⟨none, [(1, some 2), (3, none)], .left⟩

/-- **refutation**: with the plain `+`, additivity fails as soon as `f` is nowhere defined in one part —
`∫[0,3) u₁ = 4` but `∫[0,1) u₁ + ∫[1,3) u₁ = NaN + 4 = NaN` -/
theorem integral_window_additive_needs_defined :
    u₁.WF ∧ integral (window u₁ 0 3) = some 4 ∧ integral (window u₁ 0 1) = none ∧
    integral (window u₁ 1 3) = some 4 ∧
    integral (window u₁ 0 3) ≠ vadd (integral (window u₁ 0 1)) (integral (window u₁ 1 3)) ∧
    integral (window u₁ 0 3) = naAdd (integral (window u₁ 0 1)) (integral (window u₁ 1 3)) := by
  decide +kernel

/-- the mean over the union is the length-weighted mean of the means -/
theorem mean_window_split (f : Stairs Rat) (hf : f.WF) (a b c : Rat) (hab : a < b) (hbc : b < c) (m₁ m₂ : Rat)
    (h1 : mean (window f a b) = some m₁) (h2 : mean (window f b c) = some m₂) :
    mean (window f a c)
      = some ((m₁ * lenOn f a b + m₂ * lenOn f b c) / (lenOn f a b + lenOn f b c)) ∧
    0 < lenOn f a b ∧ 0 < lenOn f b c := by
  obtain ⟨n1, s1⟩ := mean_some _ _ h1
  obtain ⟨n2, s2⟩ := mean_some _ _ h2
  have p1 : 0 < lenOn f a b := lt_of_le_of_ne (lenOn_nonneg f hf a b hab) (Ne.symm n1)
  have p2 : 0 < lenOn f b c := lt_of_le_of_ne (lenOn_nonneg f hf b c hbc) (Ne.symm n2)
  refine ⟨?_, p1, p2⟩
  have s1' : intOn f a b = m₁ * lenOn f a b := s1
  have s2' : intOn f b c = m₂ * lenOn f b c := s2
  rw [mean_window, lenOn_add f hf a b c hab hbc, intOn_add f hf a b c hab hbc,
    if_neg (ne_of_gt (add_pos p1 p2)), s1', s2']

/-- a part in which `f` is nowhere defined does not change the mean -/
theorem mean_window_split_none (f : Stairs Rat) (hf : f.WF) (a b c : Rat) (hab : a < b) (hbc : b < c) :
    (mean (window f a b) = none → mean (window f a c) = mean (window f b c)) ∧
    (mean (window f b c) = none → mean (window f a c) = mean (window f a b)) := by
  have key : ∀ a b : Rat, mean (window f a b) = none → lenOn f a b = 0 := by
    intro a b h
    rw [mean_window] at h
    by_contra h0
    rw [if_neg h0] at h
    cases h
  constructor
  · intro h
    have h0 := key a b h
    rw [mean_window f a c, mean_window f b c, lenOn_add f hf a b c hab hbc, intOn_add f hf a b c hab hbc,
      h0, intOn_eq_zero_of_lenOn f hf a b hab h0, zero_add, zero_add]
  · intro h
    have h0 := key b c h
    rw [mean_window f a c, mean_window f a b, lenOn_add f hf a b c hab hbc, intOn_add f hf a b c hab hbc,
      h0, intOn_eq_zero_of_lenOn f hf b c hbc h0, add_zero, add_zero]

/-- non-vacuity (C08's `f₀`: `1` on `[0,1)`, undefined on `[1,2)`, `3` on `[2,4)`, `1` on `[4,5)`): the window
`[1/2, 9/2)` split at `3` -/
example : C08.f₀.WF ∧ integral (window C08.f₀ (1/2) (9/2)) = some 7 ∧ integral (window C08.f₀ (1/2) 3) = some (7/2) ∧
    integral (window C08.f₀ 3 (9/2)) = some (7/2) ∧
    definedLength (window C08.f₀ (1/2) (9/2)) = 3 ∧ definedLength (window C08.f₀ (1/2) 3) = 3/2 ∧
    definedLength (window C08.f₀ 3 (9/2)) = 3/2 ∧
    mean (window C08.f₀ (1/2) (9/2)) = some (7/3) ∧ var (window C08.f₀ (1/2) (9/2)) = some (8/9) ∧
    integralIn C08.f₀ (some (1/2)) (some (9/2)) = .ok (some 7) := by decide +kernel
/-- the hypotheses of `integral_window_additive_defined` hold there: `f₀ (1/2) = 1`, `f₀ 3 = 3` -/
example : (∃ x : Rat, 1/2 ≤ x ∧ x < 3 ∧ Den C08.f₀ false x ≠ none) ∧
    (∃ x : Rat, 3 ≤ x ∧ x < 9/2 ∧ Den C08.f₀ false x ≠ none) :=
  ⟨⟨1/2, by decide +kernel, by decide +kernel, by decide +kernel⟩,
   ⟨3, by decide +kernel, by decide +kernel, by decide +kernel⟩⟩
/-- `mean_window_split` there: both parts have mean `7/3` over a defined length `3/2` -/
example : mean (window C08.f₀ (1/2) 3) = some (7/3) ∧ mean (window C08.f₀ 3 (9/2)) = some (7/3) ∧
    mean (window C08.f₀ (1/2) (9/2)) = some (((7/3 : Rat) * (3/2) + 7/3 * (3/2)) / (3/2 + 3/2)) := by decide +kernel
/-- a split with an all-undefined part: `[1, 2)` -/
example : integral (window C08.f₀ 1 2) = none ∧ integral (window C08.f₀ 2 3) = some 3 ∧
    integral (window C08.f₀ 1 3) = some 3 ∧ mean (window C08.f₀ 1 3) = mean (window C08.f₀ 2 3) := by decide +kernel

/-! ## 2. linearity -/

/-! ### 2a. `f + g` -/

/-- **additivity in the function, denotational core**: `h` denotes `f + g` on `[a, b)`, and `f`, `g` are defined on
the same part of `[a, b)` -/
theorem add_window (f g h : Stairs Rat) (hf : f.WF) (hg : g.WF) (hh : h.WF) (a b : Rat) (hab : a < b)
    (hden : ∀ x, a ≤ x → x < b → Den h false x = vadd (Den f false x) (Den g false x))
    (hdom : ∀ x, a ≤ x → x < b → (Den f false x = none ↔ Den g false x = none)) :
    intOn h a b = intOn f a b + intOn g a b ∧ lenOn h a b = lenOn f a b ∧ lenOn g a b = lenOn f a b ∧
    integral (window h a b) = vadd (integral (window f a b)) (integral (window g a b)) ∧
    mean (window h a b) = vadd (mean (window f a b)) (mean (window g a b)) := by
  obtain ⟨hI, hLh, hLg⟩ := i8b_window_vadd f g h hf hg hh a b hab hden hdom
  refine ⟨hI, hLh, hLg, ?_, ?_⟩
  · rw [integral_window h hh a b hab, integral_window f hf a b hab, integral_window g hg a b hab, hLh, hLg, hI]
    by_cases h0 : lenOn f a b = 0
    · simp only [if_pos h0]; rfl
    · simp only [if_neg h0]; rfl
  · rw [mean_window, mean_window, mean_window, hLh, hLg, hI]
    by_cases h0 : lenOn f a b = 0
    · simp only [if_pos h0]; rfl
    · simp only [if_neg h0]
      show some _ = some _
      congr 1
      rw [add_div]

/-- **`integral (f + g) = integral f + integral g`** over a bounded window, for the library's `f + g`
(`binop .add`), provided `f` and `g` are defined on the same part of the window -/
theorem integral_add_window (f g h : Stairs Rat) (hf : f.WF) (hg : g.WF) (hh : binop .add f g = .ok h)
    (a b : Rat) (hab : a < b)
    (hdom : ∀ x, a ≤ x → x < b → (Den f false x = none ↔ Den g false x = none)) :
    integral (window h a b) = vadd (integral (window f a b)) (integral (window g a b)) ∧
    definedLength (window h a b) = definedLength (window f a b) := by
  obtain ⟨hc, _, hden⟩ := combineChecked_ok vadd f g h hf hg hh
  obtain ⟨_, hL, _, hI, _⟩ := add_window f g h hf hg hc.1 a b hab (fun x _ _ => hden false x) hdom
  exact ⟨hI, hL⟩

/-- likewise `mean (f + g) = mean f + mean g` -/
theorem mean_add_window (f g h : Stairs Rat) (hf : f.WF) (hg : g.WF) (hh : binop .add f g = .ok h)
    (a b : Rat) (hab : a < b)
    (hdom : ∀ x, a ≤ x → x < b → (Den f false x = none ↔ Den g false x = none)) :
    mean (window h a b) = vadd (mean (window f a b)) (mean (window g a b)) := by
  obtain ⟨hc, _, hden⟩ := combineChecked_ok vadd f g h hf hg hh
  exact (add_window f g h hf hg hc.1 a b hab (fun x _ _ => hden false x) hdom).2.2.2.2

/-- `p₁`: the constant 1;  `p₂`: undefined before `1`, then `1` -/
def p₁ : Stairs Rat := ⟨some 1, [], .left⟩
def p₂ : Stairs Rat := ⟨none, [(1, some 1)], .left⟩

/-- **refutation without the common-domain hypothesis**: on `[0, 2)` `∫ p₁ = 2`, `∫ p₂ = 1`, but `p₁ + p₂` is
defined on `[1, 2)` only, where it is `2`: `∫ (p₁ + p₂) = 2 ≠ 3`, and the defined lengths are `1` and `2` -/
theorem integral_add_needs_same_domain :
    p₁.WF ∧ p₂.WF ∧ binop .add p₁ p₂ = .ok (combine vadd p₁ p₂ .left) ∧
    integral (window p₁ 0 2) = some 2 ∧ integral (window p₂ 0 2) = some 1 ∧
    integral (window (combine vadd p₁ p₂ .left) 0 2) = some 2 ∧
    integral (window (combine vadd p₁ p₂ .left) 0 2) ≠ vadd (integral (window p₁ 0 2)) (integral (window p₂ 0 2)) ∧
    definedLength (window (combine vadd p₁ p₂ .left) 0 2) ≠ definedLength (window p₁ 0 2) ∧
    Den p₁ false (0 : Rat) = some 1 ∧ Den p₂ false (0 : Rat) = none := by
  decide +kernel

theorem integral_add_needs_same_domain' :
    ¬ ∀ (f g h : Stairs Rat) (a b : Rat), f.WF → g.WF → binop .add f g = .ok h → a < b →
      integral (window h a b) = vadd (integral (window f a b)) (integral (window g a b)) := by
  intro H
  have := H p₁ p₂ (combine vadd p₁ p₂ .left) 0 2 (by decide +kernel) (by decide +kernel) (by decide +kernel)
    (by decide +kernel)
  exact absurd this (by decide +kernel)

/-! ### 2b. `k·f + d` -/

/-- the algebra behind every statement of this section: if every weighted sum of `h` is the weighted sum of `c`
with the weight composed with `v ↦ k·v + d`, then the defined lengths agree, the integral sum, the mean and the
variance transform as they should -/
theorem affine_stats_of_wsum (c h : Stairs Rat) (k d : Rat)
    (hmap : ∀ w : Rat → Rat, wsum w h = wsum (fun v => w (k * v + d)) c) :
    definedLength h = definedLength c ∧
    wsum (fun v => v) h = k * wsum (fun v => v) c + d * definedLength c ∧
    mean h = (mean c).map (fun m => k * m + d) ∧ var h = (var c).map (fun v => k * k * v) := by
  have hL : definedLength h = definedLength c := by
    rw [definedLength_eq_wsum, definedLength_eq_wsum]; exact hmap (fun _ => 1)
  have hI : wsum (fun v => v) h = k * wsum (fun v => v) c + d * definedLength c := by
    rw [hmap (fun v => v)]
    exact i8b_wsum_affine k d c
  refine ⟨hL, hI, ?_, ?_⟩
  · rw [mean_eq_ite, mean_eq_ite, hL, hI]
    by_cases h0 : definedLength c = 0
    · rw [if_pos h0, if_pos h0]; rfl
    · rw [if_neg h0, if_neg h0]
      show some _ = some _
      congr 1
      field_simp
  · rw [var_eq_ite, var_eq_ite, hL, hI]
    by_cases h0 : definedLength c = 0
    · rw [if_pos h0, if_pos h0]; rfl
    · rw [if_neg h0, if_neg h0]
      show some _ = some _
      congr 1
      rw [hmap]
      show _ = k * k * (_ / _)
      rw [← mul_div_assoc, ← i8b_wsum_smul (k * k)]
      congr 1
      apply i8b_wsum_congr
      intro v
      field_simp
      ring

/-- **affine change of values, denotational core**: `h` denotes `k·f + d` on `[a, b)` (undefined where `f` is).
Holds for every `k`, `k = 0` included. -/
theorem affine_window (f h : Stairs Rat) (hf : f.WF) (hh : h.WF) (a b : Rat) (hab : a < b) (k d : Rat)
    (hden : ∀ x, a ≤ x → x < b → Den h false x = (Den f false x).map (fun v => k * v + d)) :
    lenOn h a b = lenOn f a b ∧ intOn h a b = k * intOn f a b + d * lenOn f a b ∧
    integral (window h a b) = (integral (window f a b)).map (fun i => k * i + d * lenOn f a b) ∧
    mean (window h a b) = (mean (window f a b)).map (fun m => k * m + d) ∧
    var (window h a b) = (var (window f a b)).map (fun v => k * k * v) := by
  obtain ⟨hL, hI, hm, hv⟩ := affine_stats_of_wsum (window f a b) (window h a b) k d
    (i8b_wsum_window_map (fun v => k * v + d) f h hf hh a b hab hden)
  have hL' : lenOn h a b = lenOn f a b := hL
  have hI' : intOn h a b = k * intOn f a b + d * lenOn f a b := hI
  refine ⟨hL', hI', ?_, hm, hv⟩
  rw [integral_window h hh a b hab, integral_window f hf a b hab, hL', hI']
  by_cases h0 : lenOn f a b = 0
  · rw [if_pos h0, if_pos h0]; rfl
  · rw [if_neg h0, if_neg h0]; rfl

/-- `f + k` as the library builds it (`f + scalar`: the scalar becomes a step-free function with `f`'s side) -/
def addConst (f : Stairs Rat) (k : Rat) : Stairs Rat := combine vadd f (const (some k) f.closed) f.closed
/-- `f * k` -/
def scale (f : Stairs Rat) (k : Rat) : Stairs Rat := combine vmul f (const (some k) f.closed) f.closed

theorem sideOf_const_right (f : Stairs Rat) (c : Val) : sideOf f (const c f.closed) = f.closed := by
  unfold sideOf; cases f.hasSteps <;> simp [hasSteps, const]

theorem binopO_addConst (f : Stairs Rat) (k : Rat) :
    binopO .add (.st f) (.sc (some k)) = some (.ok (addConst f k)) := by
  show some (combineChecked vadd f (const (some k) f.closed)) = _
  rw [combineChecked_total _ _ _ (not_mismatch_const_right f _ _), sideOf_const_right]; rfl

theorem binopO_scale (f : Stairs Rat) (k : Rat) :
    binopO .mul (.st f) (.sc (some k)) = some (.ok (scale f k)) := by
  show some (combineChecked vmul f (const (some k) f.closed)) = _
  rw [combineChecked_total _ _ _ (not_mismatch_const_right f _ _), sideOf_const_right]; rfl

theorem wf_addConst (f : Stairs Rat) (hf : f.WF) (k : Rat) : (addConst f k).WF :=
  wf_combine _ _ _ _ hf (wf_const _ _)
theorem wf_scale (f : Stairs Rat) (hf : f.WF) (k : Rat) : (scale f k).WF :=
  wf_combine _ _ _ _ hf (wf_const _ _)

theorem den_addConst (f : Stairs Rat) (hf : f.WF) (k : Rat) (st : Bool) (x : Rat) :
    Den (addConst f k) st x = (Den f st x).map (fun v => v + k) := by
  unfold addConst
  rw [den_combine _ _ _ _ hf (wf_const _ _)]
  show vadd (Den f st x) (some k) = _
  cases Den f st x <;> rfl

theorem den_scale (f : Stairs Rat) (hf : f.WF) (k : Rat) (st : Bool) (x : Rat) :
    Den (scale f k) st x = (Den f st x).map (fun v => v * k) := by
  unfold scale
  rw [den_combine _ _ _ _ hf (wf_const _ _)]
  show vmul (Den f st x) (some k) = _
  cases Den f st x <;> rfl

/-- the scalar on the left (`k * f`, `k + f`) gives the same objects -/
theorem scalar_left (f : Stairs Rat) (hf : f.WF) (k : Rat) :
    binopO .mul (.sc (some k)) (.st f) = some (.ok (scale f k)) ∧
    binopO .add (.sc (some k)) (.st f) = some (.ok (addConst f k)) := by
  have hs : sideOf (const (some k) f.closed) f = f.closed := by
    unfold sideOf; cases f.hasSteps <;> simp [hasSteps, const]
  constructor
  · show some (combineChecked vmul (const (some k) f.closed) f) = _
    rw [combineChecked_total _ _ _ (not_mismatch_const_left f _ _), hs]
    congr 2
    apply canonical_ext _ _ (canonical_combine _ _ _ _ (wf_const _ _) hf)
      (canonical_combine _ _ _ _ hf (wf_const _ _)) rfl
    intro x
    rw [den_combine _ _ _ _ (wf_const _ _) hf, den_combine _ _ _ _ hf (wf_const _ _), vmul_comm]
  · show some (combineChecked vadd (const (some k) f.closed) f) = _
    rw [combineChecked_total _ _ _ (not_mismatch_const_left f _ _), hs]
    congr 2
    apply canonical_ext _ _ (canonical_combine _ _ _ _ (wf_const _ _) hf)
      (canonical_combine _ _ _ _ hf (wf_const _ _)) rfl
    intro x
    rw [den_combine _ _ _ _ (wf_const _ _) hf, den_combine _ _ _ _ hf (wf_const _ _)]
    cases Den f false x <;> cases Den (const (some k) f.closed : Stairs Rat) false x <;>
      simp [vadd, vlift2, add_comm]

/-- **`integral (k·f) = k·integral f`, `mean (k·f) = k·mean f`, `var (k·f) = k²·var f`** over a bounded window,
every `k` (for `k = 0` too: `0·f` is `0` exactly where `f` is defined) -/
theorem scale_window (f : Stairs Rat) (hf : f.WF) (k a b : Rat) (hab : a < b) :
    definedLength (window (scale f k) a b) = definedLength (window f a b) ∧
    integral (window (scale f k) a b) = (integral (window f a b)).map (fun i => k * i) ∧
    mean (window (scale f k) a b) = (mean (window f a b)).map (fun m => k * m) ∧
    var (window (scale f k) a b) = (var (window f a b)).map (fun v => k * k * v) := by
  obtain ⟨hL, _, hI, hm, hv⟩ := affine_window f (scale f k) hf (wf_scale f hf k) a b hab k 0 (fun x _ _ => by
    rw [den_scale f hf]
    cases Den f false x with
    | none => rfl
    | some v => exact congrArg some (by ring))
  refine ⟨hL, ?_, ?_, hv⟩
  · rw [hI]; congr 1; funext i; ring
  · rw [hm]; congr 1; funext m; ring

/-- **`mean (f + k) = mean f + k`, `var (f + k) = var f`, `integral (f + k) = integral f + k·(defined length)`** -/
theorem addConst_window (f : Stairs Rat) (hf : f.WF) (k a b : Rat) (hab : a < b) :
    definedLength (window (addConst f k) a b) = definedLength (window f a b) ∧
    integral (window (addConst f k) a b) = (integral (window f a b)).map (fun i => i + k * lenOn f a b) ∧
    mean (window (addConst f k) a b) = (mean (window f a b)).map (fun m => m + k) ∧
    var (window (addConst f k) a b) = var (window f a b) := by
  obtain ⟨hL, _, hI, hm, hv⟩ := affine_window f (addConst f k) hf (wf_addConst f hf k) a b hab 1 k (fun x _ _ => by
    rw [den_addConst f hf]
    cases Den f false x with
    | none => rfl
    | some v => exact congrArg some (by ring))
  refine ⟨hL, ?_, ?_, ?_⟩
  · rw [hI]; congr 1; funext i; ring
  · rw [hm]; congr 1; funext m; ring
  · rw [hv]
    cases var (window f a b) with
    | none => rfl
    | some v => exact congrArg some (by ring)

/-- negation (`-f`, `unop .neg`): `integral` and `mean` change sign, `var` is unchanged -/
theorem neg_window (f : Stairs Rat) (hf : f.WF) (a b : Rat) (hab : a < b) :
    definedLength (window (unop .neg f) a b) = definedLength (window f a b) ∧
    integral (window (unop .neg f) a b) = (integral (window f a b)).map (fun i => -i) ∧
    mean (window (unop .neg f) a b) = (mean (window f a b)).map (fun m => -m) ∧
    var (window (unop .neg f) a b) = var (window f a b) := by
  obtain ⟨hL, _, hI, hm, hv⟩ := affine_window f (unop .neg f) hf (wf_unop _ f hf) a b hab (-1) 0 (fun x _ _ => by
    rw [den_unop _ f hf]
    cases Den f false x with
    | none => rfl
    | some v => exact congrArg some (by ring))
  refine ⟨hL, ?_, ?_, ?_⟩
  · rw [hI]; congr 1; funext i; ring
  · rw [hm]; congr 1; funext m; ring
  · rw [hv]
    cases var (window f a b) with
    | none => rfl
    | some v => exact congrArg some (by ring)

/-! ### 2c. without a window

Without a window the finite pieces are delimited by the first and the last step point, so the statements survive
exactly as long as the operation keeps those: for a *canonical* `f` and an *injective* change of values
(`k ≠ 0`).  `integral_scale_zero_unbounded` (`k = 0`) and `addConst_noncanonical` (redundant first row) show that
neither hypothesis can be dropped. -/

/-- `φ` applied to every value, rows kept -/
def mapVals (φ : Rat → Rat) (f : Stairs Rat) : Stairs Rat :=
  ⟨f.init.map φ, f.steps.map fun pv => (pv.1, pv.2.map φ), f.closed⟩

theorem den_mapVals (φ : Rat → Rat) (f : Stairs Rat) (st : Bool) (x : Rat) :
    Den (mapVals φ f) st x = (Den f st x).map φ :=
  lim_map st (fun v : Val => v.map φ) f.init f.steps x

theorem minimal_mapVals (u : Val → Val) (hu : Function.Injective u) (a : Val) (s : List (Rat × Val))
    (h : Minimal a s) : Minimal (u a) (s.map fun pv => (pv.1, u pv.2)) := by
  induction s generalizing a with
  | nil => trivial
  | cons b r ih =>
    obtain ⟨p, v⟩ := b
    exact ⟨fun e => h.1 (hu e), ih v h.2⟩

theorem canonical_mapVals (φ : Rat → Rat) (hφ : Function.Injective φ) (f : Stairs Rat) (hf : f.Canonical) :
    (mapVals φ f).Canonical := by
  refine ⟨sorted_mapVals _ _ hf.1, minimal_mapVals (fun v : Val => v.map φ) ?_ f.init f.steps hf.2⟩
  intro x y hxy
  cases x <;> cases y <;> simp_all
  exact hφ hxy

theorem wsum_mapVals (φ w : Rat → Rat) (f : Stairs Rat) :
    wsum w (mapVals φ f) = wsum (fun v => w (φ v)) f := by
  rw [wsum_eq_pieceSum, wsum_eq_pieceSum]
  show pieceSum (liftW w) (f.steps.map fun pv => (pv.1, (fun v : Val => v.map φ) pv.2)) = _
  rw [pieceSum_mapVals]
  apply pieceSum_congr
  intro p q v _
  cases v <;> rfl

/-- **affine change of values without a window**: `f`, `h` canonical, `h` denoting `k·f + d` with `k ≠ 0` -/
theorem affine_unbounded (f h : Stairs Rat) (hf : f.Canonical) (hh : h.Canonical) (hc : h.closed = f.closed)
    (k d : Rat) (hk : k ≠ 0) (hden : ∀ x, Den h false x = (Den f false x).map (fun v => k * v + d)) :
    h = mapVals (fun v => k * v + d) f ∧ definedLength h = definedLength f ∧
    integral h = (integral f).map (fun i => k * i + d * definedLength f) ∧
    mean h = (mean f).map (fun m => k * m + d) ∧ var h = (var f).map (fun v => k * k * v) := by
  have hinj : Function.Injective (fun v : Rat => k * v + d) := by
    intro x y hxy
    have : k * x = k * y := by
      have h' : k * x + d = k * y + d := hxy
      linarith
    exact mul_left_cancel₀ hk this
  have he : h = mapVals (fun v => k * v + d) f :=
    canonical_ext _ _ hh (canonical_mapVals _ hinj f hf) hc (fun x => by rw [hden, den_mapVals])
  obtain ⟨hL, hI, hm, hv⟩ := affine_stats_of_wsum f h k d (fun w => by rw [he]; exact wsum_mapVals _ w f)
  refine ⟨he, hL, ?_, hm, hv⟩
  have hlen : h.steps.length = f.steps.length := by rw [he]; simp [mapVals]
  unfold integral
  rw [hlen]
  by_cases h2 : f.steps.length < 2
  · rw [if_pos h2, if_pos h2]; rfl
  · rw [if_neg h2, if_neg h2]
    show some _ = some _
    congr 1

theorem scale_unbounded (f : Stairs Rat) (hf : f.Canonical) (k : Rat) (hk : k ≠ 0) :
    integral (scale f k) = (integral f).map (fun i => k * i) ∧ mean (scale f k) = (mean f).map (fun m => k * m) ∧
    var (scale f k) = (var f).map (fun v => k * k * v) := by
  obtain ⟨_, _, hI, hm, hv⟩ := affine_unbounded f (scale f k) hf
    (canonical_combine _ _ _ _ hf.1 (wf_const _ _)) rfl k 0 hk (fun x => by
      rw [den_scale f hf.1]
      cases Den f false x with
      | none => rfl
      | some v => exact congrArg some (by ring))
  refine ⟨?_, ?_, hv⟩
  · rw [hI]; congr 1; funext i; ring
  · rw [hm]; congr 1; funext m; ring

theorem addConst_unbounded (f : Stairs Rat) (hf : f.Canonical) (k : Rat) :
    integral (addConst f k) = (integral f).map (fun i => i + k * definedLength f) ∧
    mean (addConst f k) = (mean f).map (fun m => m + k) ∧ var (addConst f k) = var f := by
  obtain ⟨_, _, hI, hm, hv⟩ := affine_unbounded f (addConst f k) hf
    (canonical_combine _ _ _ _ hf.1 (wf_const _ _)) rfl 1 k one_ne_zero (fun x => by
      rw [den_addConst f hf.1]
      cases Den f false x with
      | none => rfl
      | some v => exact congrArg some (by ring))
  refine ⟨?_, ?_, ?_⟩
  · rw [hI]; congr 1; funext i; ring
  · rw [hm]; congr 1; funext m; ring
  · rw [hv]
    cases var f with
    | none => rfl
    | some v => exact congrArg some (by ring)

/-- **canonicity is needed without a window**: C08's `g₁` has a redundant first row; `g₁ + 0` drops it, and with it
the finite piece `[0, 1)` (over a bounded window nothing of the sort can happen: `addConst_window`) -/
theorem addConst_noncanonical :
    C08.g₁.WF ∧ ¬ C08.g₁.Canonical ∧ integral C08.g₁ = some 3 ∧ integral (addConst C08.g₁ 0) = some 2 ∧
    mean C08.g₁ = some (3/2) ∧ mean (addConst C08.g₁ 0) = some 2 ∧
    integral (window (addConst C08.g₁ 0) (-1) 3) = integral (window C08.g₁ (-1) 3) := by
  decide +kernel

/-- `s₁`: `0` before `0`, `1` on `[0, 1)`, `2` from `1` on -/
def s₁ : Stairs Rat := ⟨some 0, [(0, some 1), (1, some 2)], .left⟩

/-- **the window matters for `k = 0`**: without a window `0·s₁` is the step-free constant `0`, whose integral is
NaN (no finite piece), while `0·integral s₁ = 0`.  Over a bounded window both are `0`. -/
theorem integral_scale_zero_unbounded :
    s₁.WF ∧ s₁.Canonical ∧ integral s₁ = some 1 ∧ (scale s₁ 0).steps = [] ∧ integral (scale s₁ 0) = none ∧
    integral (scale s₁ 0) ≠ (integral s₁).map (fun i => 0 * i) ∧
    integral (window (scale s₁ 0) (-1) 3) = some 0 ∧ integral (window s₁ (-1) 3) = some 5 := by
  decide +kernel

/-- non-vacuity of `scale_unbounded` / `addConst_unbounded`: `s₁` is canonical, `∫ s₁ = 1` (one finite piece) -/
example : s₁.Canonical ∧ integral (scale s₁ (-3)) = some (-3) ∧ mean (scale s₁ (-3)) = some (-3) ∧
    var (scale s₁ (-3)) = some 0 ∧ integral (addConst s₁ 4) = some 5 ∧ definedLength s₁ = 1 := by decide +kernel

/-- non-vacuity on C08's `f₀` (undefined on `[1, 2)`), window `[1/2, 9/2)`: `∫ = 7`, defined length `3`,
mean `7/3`, var `8/9` -/
example : integral (window (scale C08.f₀ (-2)) (1/2) (9/2)) = some (-14) ∧
    mean (window (scale C08.f₀ (-2)) (1/2) (9/2)) = some (-14/3) ∧
    var (window (scale C08.f₀ (-2)) (1/2) (9/2)) = some (32/9) ∧
    integral (window (addConst C08.f₀ 5) (1/2) (9/2)) = some 22 ∧
    mean (window (addConst C08.f₀ 5) (1/2) (9/2)) = some (22/3) ∧
    var (window (addConst C08.f₀ 5) (1/2) (9/2)) = some (8/9) ∧
    integral (window (scale C08.f₀ 0) (1/2) (9/2)) = some 0 ∧ var (window (scale C08.f₀ 0) (1/2) (9/2)) = some 0 := by
  decide +kernel
/-- `f₀ + 2·f₀`: the operands are defined on the same set, so `integral_add_window` applies (`7 + 14 = 21`) -/
example : ∃ h, binop .add C08.f₀ (scale C08.f₀ 2) = .ok h ∧
    integral (window h (1/2) (9/2)) = vadd (integral (window C08.f₀ (1/2) (9/2)))
      (integral (window (scale C08.f₀ 2) (1/2) (9/2))) ∧ integral (window h (1/2) (9/2)) = some 21 := by
  have hf : C08.f₀.WF := by decide +kernel
  refine ⟨combine vadd C08.f₀ (scale C08.f₀ 2) .left, by decide +kernel, ?_, by decide +kernel⟩
  refine (integral_add_window C08.f₀ (scale C08.f₀ 2) _ hf (wf_scale _ hf 2) (by decide +kernel) _ _
    (by decide +kernel) ?_).1
  intro x _ _
  rw [den_scale _ hf]
  cases Den C08.f₀ false x <;> simp

/-! ## 3. monotonicity -/

/-- **`f ≤ g` ⇒ `integral f ≤ integral g` and `mean f ≤ mean g`** over a bounded window, when `f` and `g` are
defined on the same part of the window and `f ≤ g` there -/
theorem mono_window (f g : Stairs Rat) (hf : f.WF) (hg : g.WF) (a b : Rat) (hab : a < b)
    (hdom : ∀ x, a ≤ x → x < b → (Den f false x = none ↔ Den g false x = none))
    (hle : ∀ x u v, a ≤ x → x < b → Den f false x = some u → Den g false x = some v → u ≤ v) :
    intOn f a b ≤ intOn g a b ∧ lenOn f a b = lenOn g a b ∧
    (∀ i j, integral (window f a b) = some i → integral (window g a b) = some j → i ≤ j) ∧
    (∀ m n, mean (window f a b) = some m → mean (window g a b) = some n → m ≤ n) ∧
    ((integral (window f a b)).isSome = (integral (window g a b)).isSome) := by
  obtain ⟨hI, hL⟩ := i8b_window_mono f g hf hg a b hab hdom hle
  refine ⟨hI, hL, ?_, ?_, ?_⟩
  · intro i j hi hj
    rw [integral_window f hf a b hab] at hi
    rw [integral_window g hg a b hab, ← hL] at hj
    by_cases h0 : lenOn f a b = 0
    · rw [if_pos h0] at hi; cases hi
    · rw [if_neg h0] at hi hj
      injection hi with hi; injection hj with hj
      rw [← hi, ← hj]; exact hI
  · intro m n hm hn
    rw [mean_window] at hm hn
    rw [← hL] at hn
    by_cases h0 : lenOn f a b = 0
    · rw [if_pos h0] at hm; cases hm
    · rw [if_neg h0] at hm hn
      injection hm with hm; injection hn with hn
      rw [← hm, ← hn]
      have hpos : 0 < lenOn f a b := lt_of_le_of_ne (lenOn_nonneg f hf a b hab) (Ne.symm h0)
      exact div_le_div_of_nonneg_right hI (le_of_lt hpos)
  · rw [integral_window f hf a b hab, integral_window g hg a b hab, hL]
    by_cases h0 : lenOn g a b = 0
    · rw [if_pos h0, if_pos h0]
    · rw [if_neg h0, if_neg h0]; rfl

theorem integral_mono_window (f g : Stairs Rat) (hf : f.WF) (hg : g.WF) (a b : Rat) (hab : a < b)
    (hdom : ∀ x, a ≤ x → x < b → (Den f false x = none ↔ Den g false x = none))
    (hle : ∀ x u v, a ≤ x → x < b → Den f false x = some u → Den g false x = some v → u ≤ v)
    (i j : Rat) (hi : integral (window f a b) = some i) (hj : integral (window g a b) = some j) : i ≤ j :=
  (mono_window f g hf hg a b hab hdom hle).2.2.1 i j hi hj

theorem mean_mono_window (f g : Stairs Rat) (hf : f.WF) (hg : g.WF) (a b : Rat) (hab : a < b)
    (hdom : ∀ x, a ≤ x → x < b → (Den f false x = none ↔ Den g false x = none))
    (hle : ∀ x u v, a ≤ x → x < b → Den f false x = some u → Den g false x = some v → u ≤ v)
    (m n : Rat) (hm : mean (window f a b) = some m) (hn : mean (window g a b) = some n) : m ≤ n :=
  (mono_window f g hf hg a b hab hdom hle).2.2.2.1 m n hm hn

/-- `q₁`: `0` on `[0, 1)`, `10` on `[1, 2)`;  `q₂`: `1` on `[0, 1)`, undefined on `[1, 2)` -/
def q₁ : Stairs Rat := ⟨none, [(0, some 0), (1, some 10), (2, none)], .left⟩
def q₂ : Stairs Rat := ⟨none, [(0, some 1), (1, none)], .left⟩

/-- **refutation when the domains differ**: `q₁ ≤ q₂` wherever both are defined, yet over `[0, 2)`
`∫ q₁ = 10 > 1 = ∫ q₂` and `mean q₁ = 5 > 1 = mean q₂` -/
theorem mono_needs_same_domain :
    q₁.WF ∧ q₂.WF ∧ integral (window q₁ 0 2) = some 10 ∧ integral (window q₂ 0 2) = some 1 ∧
    mean (window q₁ 0 2) = some 5 ∧ mean (window q₂ 0 2) = some 1 ∧
    (∀ x u v, (0 : Rat) ≤ x → x < 2 → Den q₁ false x = some u → Den q₂ false x = some v → u ≤ v) := by
  refine ⟨by decide +kernel, by decide +kernel, by decide +kernel, by decide +kernel, by decide +kernel,
    by decide +kernel, ?_⟩
  intro x u v h0 h2 hu hv
  simp only [Den, q₁, q₂, lim_cons, lim_nil] at hu hv
  by_cases h1 : x < 1
  · rw [(reached_right_iff (0 : Rat) x).mpr h0, if_pos rfl, not_reached_of_lt h1] at hu hv
    simp only [Bool.false_eq_true, if_false, Option.some.injEq] at hu hv
    rw [← hu, ← hv]; decide +kernel
  · rw [(reached_right_iff (0 : Rat) x).mpr h0, if_pos rfl, (reached_right_iff (1 : Rat) x).mpr (not_lt.mp h1),
      if_pos rfl] at hv
    cases hv

/-- **a function that is non-negative where defined has a non-negative integral and mean** -/
theorem nonneg_window (f : Stairs Rat) (hf : f.WF) (a b : Rat) (hab : a < b)
    (h0 : ∀ x v, a ≤ x → x < b → Den f false x = some v → 0 ≤ v) :
    0 ≤ intOn f a b ∧ (∀ i, integral (window f a b) = some i → 0 ≤ i) ∧
    (∀ m, mean (window f a b) = some m → 0 ≤ m) := by
  have hI := i8b_intOn_nonneg f hf a b hab h0
  refine ⟨hI, ?_, ?_⟩
  · intro i hi
    rw [integral_window f hf a b hab] at hi
    split at hi
    · cases hi
    · injection hi with hi; rw [← hi]; exact hI
  · intro m hm
    rw [mean_window] at hm
    split at hm
    · cases hm
    · injection hm with hm; rw [← hm]
      exact div_nonneg hI (lenOn_nonneg f hf a b hab)

theorem integral_nonneg_window (f : Stairs Rat) (hf : f.WF) (a b : Rat) (hab : a < b)
    (h0 : ∀ x v, a ≤ x → x < b → Den f false x = some v → 0 ≤ v) (i : Rat)
    (hi : integral (window f a b) = some i) : 0 ≤ i := (nonneg_window f hf a b hab h0).2.1 i hi

theorem mean_nonneg_window (f : Stairs Rat) (hf : f.WF) (a b : Rat) (hab : a < b)
    (h0 : ∀ x v, a ≤ x → x < b → Den f false x = some v → 0 ≤ v) (m : Rat)
    (hm : mean (window f a b) = some m) : 0 ≤ m := (nonneg_window f hf a b hab h0).2.2 m hm

/-- the mean lies between any bounds on the values taken in the window -/
theorem mean_bounds_window (f : Stairs Rat) (hf : f.WF) (a b : Rat) (hab : a < b) (lo hi : Rat)
    (hb : ∀ x v, a ≤ x → x < b → Den f false x = some v → lo ≤ v ∧ v ≤ hi) (m : Rat)
    (hm : mean (window f a b) = some m) : lo ≤ m ∧ m ≤ hi := by
  have h1 := addConst_window f hf (-lo) a b hab
  have h2 := addConst_window (unop .neg f) (wf_unop _ f hf) hi a b hab
  have n := neg_window f hf a b hab
  constructor
  · have := mean_nonneg_window (addConst f (-lo)) (wf_addConst f hf _) a b hab (fun x v hx1 hx2 hv => by
      rw [den_addConst f hf] at hv
      cases hd : Den f false x with
      | none => rw [hd] at hv; cases hv
      | some u =>
        rw [hd] at hv
        injection hv with hv
        have := (hb x u hx1 hx2 hd).1
        rw [← hv]; linarith) (m + -lo) (by rw [h1.2.2.1, hm]; rfl)
    linarith
  · have := mean_nonneg_window (addConst (unop .neg f) hi) (wf_addConst _ (wf_unop _ f hf) _) a b hab
      (fun x v hx1 hx2 hv => by
        rw [den_addConst _ (wf_unop _ f hf), den_unop _ f hf] at hv
        cases hd : Den f false x with
        | none => rw [hd] at hv; cases hv
        | some u =>
          rw [hd] at hv
          injection hv with hv
          have := (hb x u hx1 hx2 hd).2
          rw [← hv]; linarith) (-m + hi) (by rw [h2.2.2.1, n.2.2.1, hm]; rfl)
    linarith

/-- non-vacuity: `f₀ ≤ f₀ + 1` on the same domain; window `[1/2, 9/2)`: `7 ≤ 10`, `7/3 ≤ 10/3` -/
example : integral (window C08.f₀ (1/2) (9/2)) = some 7 ∧ integral (window (addConst C08.f₀ 1) (1/2) (9/2)) = some 10 ∧
    mean (window C08.f₀ (1/2) (9/2)) = some (7/3) ∧ mean (window (addConst C08.f₀ 1) (1/2) (9/2)) = some (10/3) := by
  decide +kernel
example : (7 : Rat) ≤ 10 := by
  have hf : C08.f₀.WF := by decide +kernel
  refine integral_mono_window C08.f₀ (addConst C08.f₀ 1) hf (wf_addConst _ hf 1) (1/2) (9/2) (by decide +kernel)
    ?_ ?_ 7 10 (by decide +kernel) (by decide +kernel)
  · intro x _ _
    rw [den_addConst _ hf]
    cases Den C08.f₀ false x <;> simp
  · intro x u v _ _ hu hv
    rw [den_addConst _ hf, hu] at hv
    injection hv with hv
    rw [← hv]; linarith

/-- `f₀` takes the values `1`, `3` (and `2` far left) only, so `nonneg_window` / `mean_bounds_window` apply -/
example : ∀ x v, (1/2 : Rat) ≤ x → x < 9/2 → Den C08.f₀ false x = some v → 0 ≤ v ∧ (1 ≤ v ∧ v ≤ 3) := by
  intro x v _ _ hv
  have hm : Den C08.f₀ false x = C08.f₀.init ∨ Den C08.f₀ false x ∈ C08.f₀.steps.map Prod.snd :=
    C20b.lim_mem false C08.f₀.init C08.f₀.steps x
  rw [hv] at hm
  simp only [C08.f₀, List.map_cons, List.map_nil, List.mem_cons, Option.some.injEq, List.not_mem_nil,
    or_false, reduceCtorEq, false_or] at hm
  rcases hm with h | h | h | h | h <;> subst h <;> decide +kernel
example : (1 : Rat) ≤ 7/3 ∧ (7/3 : Rat) ≤ 3 := by decide +kernel

/-! ## 4. constants -/

/-- **a function that is the constant `c` on `[a, b)`**: `integral = c·(b − a)`, defined length `b − a`,
`mean = c`, `var = 0` -/
theorem const_on_window (f : Stairs Rat) (hf : f.WF) (a b : Rat) (hab : a < b) (c : Rat)
    (h : ∀ x, a ≤ x → x < b → Den f false x = some c) :
    integral (window f a b) = some (c * (b - a)) ∧ definedLength (window f a b) = b - a ∧
    mean (window f a b) = some c ∧ var (window f a b) = some 0 := by
  have hne : b - a ≠ 0 := by
    intro h0
    have : a < a := by linarith
    exact lt_irrefl _ this
  have hL : lenOn f a b = b - a := lenOn_defined f hf a b hab (fun p h1 h2 => ⟨c, h p h1 h2⟩)
  have hI : intOn f a b = c * (b - a) := intOn_const_some f hf a b hab c h
  refine ⟨?_, hL, ?_, ?_⟩
  · rw [integral_window f hf a b hab, hL, if_neg hne, hI]
  · rw [mean_window, hL, if_neg hne, hI]
    congr 1; field_simp
  · rw [var_window, hL, if_neg hne, wsum_window_const _ f hf a b hab (some c) h, hI]
    congr 1
    have : c * (b - a) / (b - a) = c := by field_simp
    rw [liftW_some, this]
    ring

/-- **the constant function** `c` (a step-free `Stairs`, either closed side) over any bounded window -/
theorem const_window (c : Rat) (cl : Side) (a b : Rat) (hab : a < b) :
    integral (window (const (some c) cl) a b) = some (c * (b - a)) ∧
    definedLength (window (const (some c) cl) a b) = b - a ∧
    mean (window (const (some c) cl) a b) = some c ∧ var (window (const (some c) cl) a b) = some 0 :=
  const_on_window _ (wf_const _ _) a b hab c (fun _ _ _ => rfl)

/-- in the library's own terms -/
theorem const_statsIn (c : Rat) (cl : Side) (a b : Rat) (hab : a < b) :
    integralIn (const (some c) cl) (some a) (some b) = .ok (some (c * (b - a))) ∧
    meanIn (const (some c) cl) (some a) (some b) = .ok (some c) ∧
    varIn (const (some c) cl) (some a) (some b) = .ok (some 0) := by
  obtain ⟨_, h1, h2, h3⟩ := statsIn_ok (const (some c) cl) a b hab
  obtain ⟨k1, _, k2, k3⟩ := const_window c cl a b hab
  rw [h1, h2, h3, k1, k2, k3]
  exact ⟨rfl, rfl, rfl⟩

/-- the undefined constant: NaN everywhere; and without a window even a defined constant has no finite piece -/
theorem const_none_window (cl : Side) (a b : Rat) (hab : a < b) (c : Val) :
    integral (window (const none cl) a b) = none ∧ mean (window (const none cl) a b) = none ∧
    var (window (const none cl) a b) = none ∧ definedLength (window (const none cl) a b) = 0 ∧
    integral (const c cl : Stairs Rat) = none ∧ mean (const c cl : Stairs Rat) = none ∧
    var (const c cl : Stairs Rat) = none := by
  have h0 : lenOn (const none cl) a b = 0 :=
    (lenOn_eq_zero_iff _ (wf_const _ _) a b hab).mpr (fun _ _ _ => rfl)
  refine ⟨?_, ?_, ?_, h0, rfl, rfl, rfl⟩
  · rw [integral_window _ (wf_const _ _) a b hab, if_pos h0]
  · rw [mean_window, if_pos h0]
  · rw [var_window, if_pos h0]

/-- non-vacuity: the constant `3` over `[1/2, 4)` (right-closed), and `f₀` on `[2, 4)` where it is `3` -/
example : integral (window (const (some 3) .right) (1/2) 4) = some (21/2) ∧
    mean (window (const (some 3) .right) (1/2) 4) = some 3 ∧ var (window (const (some 3) .right) (1/2) 4) = some 0 ∧
    integral (window C08.f₀ 2 4) = some 6 ∧ mean (window C08.f₀ 2 4) = some 3 ∧ var (window C08.f₀ 2 4) = some 0 := by
  decide +kernel

end SC.Props.C08b
