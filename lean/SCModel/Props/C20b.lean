import SCModel.Lemmas.Rolling
import SCModel.Props.C20
/-!
# C20b — the last clause of C20: linear interpolation between consecutive `rolling_mean` points

"`rolling_mean(window=(l, r), where)` returns points `(x_i, y_i)` where `y_i` is the mean of `f` over
`[x_i + l, x_i + r]` …; **for a function defined throughout the windows, linear interpolation between
consecutive points reproduces the rolling mean everywhere**."

`winMean c l r x = mean (window c (x + l) (x + r))` is the rolling mean at an arbitrary focal point `x` (what
`rollingMean` evaluates at each knot, `rollingMean_spec`).

* `rolling_mean_interpolates` — if neither window edge crosses a step point of `c` while the focal point moves
  from `x₀` to `x₁` (`EdgesClear`) and `c` is defined on `[x₀ + l, x₁ + r)` (`DefinedOn`), then for
  `x₀ ≤ x ≤ x₁` `winMean c l r x = y₀ + (x − x₀)/(x₁ − x₀)·(y₁ − y₀)`, `y₀`, `y₁` the window means at `x₀`, `x₁`;
* `winMean_slope` — the slope is `(c(x₀ + r) − c(x₀ + l)) / (r − l)`;
* `edgesClear_of_no_knot` — "no knot strictly between `x₀` and `x₁`" gives `EdgesClear`;
* `rolling_mean_rows_interpolate` — the statement for two consecutive rows of `rollingMean f l r lo hi`;
* `interpolation_fails_with_gap`, `definedOn_needed` — the definedness hypothesis is needed (concrete counterexample);
* `stepfree_rows_do_not_interpolate` — so is `c.steps ≠ []` in the row form (the step-free special path of the code);
* non-vacuity examples.
-/
set_option linter.unusedSectionVars false
set_option linter.unusedVariables false
namespace SC.Props.C20b
open SC SC.Stairs SC.Props.C20

/-! ## hypotheses -/

/-- while the focal point moves from `x₀` to `x₁`, neither the left edge (sweeping `(x₀ + l, x₁ + l)`) nor the
right edge (sweeping `(x₀ + r, x₁ + r)`) of the window crosses a step point of `c` -/
def EdgesClear (c : Stairs Rat) (l r x₀ x₁ : Rat) : Prop :=
  (∀ q ∈ c.idx, ¬ (x₀ + l < q ∧ q < x₁ + l)) ∧ (∀ q ∈ c.idx, ¬ (x₀ + r < q ∧ q < x₁ + r))

instance (c : Stairs Rat) (l r x₀ x₁ : Rat) : Decidable (EdgesClear c l r x₀ x₁) := by
  unfold EdgesClear; infer_instance

/-- `c` is defined (right limits) at every point of `[a, b)` -/
def DefinedOn (c : Stairs Rat) (a b : Rat) : Prop := ∀ p, a ≤ p → p < b → ∃ y, Den c false p = some y

theorem DefinedOn.mono {c : Stairs Rat} {a b a' b' : Rat} (h : DefinedOn c a b) (ha : a ≤ a') (hb : b' ≤ b) :
    DefinedOn c a' b' := fun p h1 h2 => h p (le_trans ha h1) (lt_of_lt_of_le h2 hb)

/-- a limit of a row list is the initial value or one of the row values -/
theorem lim_mem {V : Type} (st : Bool) (a : V) (s : List (Rat × V)) (x : Rat) :
    lim st a s x = a ∨ lim st a s x ∈ s.map Prod.snd := by
  induction s generalizing a with
  | nil => left; rfl
  | cons pv t ih =>
    obtain ⟨p, v⟩ := pv
    rw [lim_cons]
    split
    · right
      rcases ih v with h | h
      · rw [h]; simp
      · simp only [List.map_cons, List.mem_cons]; exact Or.inr h
    · left; rfl

/-- a function none of whose values is "undefined" is defined everywhere (a decidable sufficient condition) -/
theorem definedOn_of_all_some (c : Stairs Rat) (hi : c.init.isSome = true)
    (hs : ∀ v ∈ c.steps.map Prod.snd, v.isSome = true) (a b : Rat) : DefinedOn c a b := by
  intro p _ _
  have : (Den c false p).isSome = true := by
    rcases lim_mem false c.init c.steps p with h | h
    · show (lim false c.init c.steps p).isSome = true
      rw [h]; exact hi
    · exact hs _ h
  exact Option.isSome_iff_exists.mp this

/-- a knot is an `x` with `x + l` or `x + r` a step point (`mem_knots`); no knot strictly between `x₀` and `x₁`
means exactly that neither edge crosses a step point on the way -/
theorem edgesClear_iff_no_knot (c : Stairs Rat) (l r x₀ x₁ : Rat) :
    EdgesClear c l r x₀ x₁ ↔ ∀ k ∈ knots c l r, ¬ (x₀ < k ∧ k < x₁) := by
  constructor
  · rintro ⟨hL, hR⟩ k hk ⟨h1, h2⟩
    rcases (mem_knots c l r k).mp hk with h | h
    · exact hL _ h ⟨by linarith, by linarith⟩
    · exact hR _ h ⟨by linarith, by linarith⟩
  · intro h
    constructor
    · intro q hq ⟨h1, h2⟩
      exact h (q - l) ((mem_knots c l r _).mpr (Or.inl (by rw [sub_add_cancel]; exact hq)))
        ⟨by linarith, by linarith⟩
    · intro q hq ⟨h1, h2⟩
      exact h (q - r) ((mem_knots c l r _).mpr (Or.inr (by rw [sub_add_cancel]; exact hq)))
        ⟨by linarith, by linarith⟩

theorem edgesClear_of_no_knot (c : Stairs Rat) (l r x₀ x₁ : Rat)
    (h : ∀ k ∈ knots c l r, ¬ (x₀ < k ∧ k < x₁)) : EdgesClear c l r x₀ x₁ :=
  (edgesClear_iff_no_knot c l r x₀ x₁).mpr h

/-! ## the window integral: additivity, constancy, linearity in the focal point -/

/-- `∫[a,b) = ∫[a,m) + ∫[m,b)` -/
theorem intOn_additive (c : Stairs Rat) (hc : c.WF) (a m b : Rat) (ham : a < m) (hmb : m < b) :
    intOn c a b = intOn c a m + intOn c m b := intOn_add c hc a m b ham hmb

/-- a window on which `c` is the constant `v`: `∫ = v·(b − a)` -/
theorem intOn_constant (c : Stairs Rat) (hc : c.WF) (a b : Rat) (hab : a < b) (v : Rat)
    (h : ∀ p, a ≤ p → p < b → Den c false p = some v) : intOn c a b = v * (b - a) :=
  intOn_const_some c hc a b hab v h

/-- `c` defined throughout `[a, b)`: the mean of the window is `∫ / (b − a)` -/
theorem mean_window_eq (c : Stairs Rat) (hc : c.WF) (a b : Rat) (hab : a < b) (h : DefinedOn c a b) :
    mean (window c a b) = some (intOn c a b / (b - a)) := mean_window_defined c hc a b hab h

/-- **key lemma**: the window integral is linear in the focal point between `x₀` and `x₁` -/
theorem intOn_linear (c : Stairs Rat) (hc : c.WF) (l r x₀ x₁ : Rat) (hlr : l < r) (hx : x₀ < x₁)
    (hE : EdgesClear c l r x₀ x₁) (hD : DefinedOn c (x₀ + l) (x₁ + r)) (vL vR : Rat)
    (hvL : Den c false (x₀ + l) = some vL) (hvR : Den c false (x₀ + r) = some vR)
    (x : Rat) (h0 : x₀ ≤ x) (h1 : x ≤ x₁) :
    intOn c (x + l) (x + r) = intOn c (x₀ + l) (x₀ + r) + (x - x₀) * (vR - vL) := by
  rw [intOn_slide c hc l r x₀ x₁ hlr hE.1 hE.2 x h0 h1, hvL, hvR]
  rfl

/-! ## the main theorem -/

/-- under the hypotheses the window means at the two ends exist -/
theorem rolling_mean_defined (c : Stairs Rat) (hc : c.WF) (l r x₀ x₁ : Rat) (hlr : l < r) (hx : x₀ ≤ x₁)
    (hD : DefinedOn c (x₀ + l) (x₁ + r)) (x : Rat) (h0 : x₀ ≤ x) (h1 : x ≤ x₁) :
    winMean c l r x = some (intOn c (x + l) (x + r) / (r - l)) :=
  winMean_eq c hc l r x hlr (hD.mono (by linarith) (by linarith))

/-- **slope form**: between `x₀` and `x₁` the rolling mean is the line through `(x₀, y₀)` with slope
`(c(x₀ + r) − c(x₀ + l)) / (r − l)` — what enters on the right minus what leaves on the left, per unit width -/
theorem winMean_slope (c : Stairs Rat) (hc : c.WF) (l r x₀ x₁ : Rat) (hlr : l < r) (hx : x₀ < x₁)
    (hE : EdgesClear c l r x₀ x₁) (hD : DefinedOn c (x₀ + l) (x₁ + r)) (vL vR y₀ : Rat)
    (hvL : Den c false (x₀ + l) = some vL) (hvR : Den c false (x₀ + r) = some vR)
    (hy₀ : winMean c l r x₀ = some y₀) (x : Rat) (h0 : x₀ ≤ x) (h1 : x ≤ x₁) :
    winMean c l r x = some (y₀ + (x - x₀) * ((vR - vL) / (r - l))) := by
  have e0 := rolling_mean_defined c hc l r x₀ x₁ hlr (le_of_lt hx) hD x₀ (le_refl _) (le_of_lt hx)
  rw [hy₀] at e0
  injection e0 with e0
  rw [rolling_mean_defined c hc l r x₀ x₁ hlr (le_of_lt hx) hD x h0 h1,
      intOn_linear c hc l r x₀ x₁ hlr hx hE hD vL vR hvL hvR x h0 h1, e0]
  congr 1
  ring

/-- **C20, last clause.** If neither window edge crosses a step point while the focal point moves from `x₀` to
`x₁` and the function is defined throughout the windows, then linear interpolation between `(x₀, y₀)` and
`(x₁, y₁)` reproduces the rolling mean at every `x₀ ≤ x ≤ x₁`. -/
theorem rolling_mean_interpolates (c : Stairs Rat) (hc : c.WF) (l r x₀ x₁ : Rat) (hlr : l < r) (hx : x₀ < x₁)
    (hE : EdgesClear c l r x₀ x₁) (hD : DefinedOn c (x₀ + l) (x₁ + r)) (y₀ y₁ : Rat)
    (hy₀ : winMean c l r x₀ = some y₀) (hy₁ : winMean c l r x₁ = some y₁)
    (x : Rat) (h0 : x₀ ≤ x) (h1 : x ≤ x₁) :
    winMean c l r x = some (y₀ + (x - x₀) / (x₁ - x₀) * (y₁ - y₀)) := by
  obtain ⟨vL, hvL⟩ := hD (x₀ + l) (le_refl _) (by linarith)
  obtain ⟨vR, hvR⟩ := hD (x₀ + r) (by linarith) (by linarith)
  have s1 := winMean_slope c hc l r x₀ x₁ hlr hx hE hD vL vR y₀ hvL hvR hy₀ x₁ (le_of_lt hx) (le_refl _)
  rw [hy₁] at s1
  injection s1 with s1
  rw [winMean_slope c hc l r x₀ x₁ hlr hx hE hD vL vR y₀ hvL hvR hy₀ x h0 h1, s1]
  have hne : x₁ - x₀ ≠ 0 := by
    intro h
    have : x₀ < x₀ := by linarith
    exact lt_irrefl _ this
  congr 1
  field_simp
  ring

/-- the same with the two ends' means produced rather than assumed -/
theorem rolling_mean_interpolates' (c : Stairs Rat) (hc : c.WF) (l r x₀ x₁ : Rat) (hlr : l < r) (hx : x₀ < x₁)
    (hE : EdgesClear c l r x₀ x₁) (hD : DefinedOn c (x₀ + l) (x₁ + r)) :
    ∃ y₀ y₁ : Rat, winMean c l r x₀ = some y₀ ∧ winMean c l r x₁ = some y₁ ∧
      ∀ x, x₀ ≤ x → x ≤ x₁ → winMean c l r x = some (y₀ + (x - x₀) / (x₁ - x₀) * (y₁ - y₀)) := by
  have e0 := rolling_mean_defined c hc l r x₀ x₁ hlr (le_of_lt hx) hD x₀ (le_refl _) (le_of_lt hx)
  have e1 := rolling_mean_defined c hc l r x₀ x₁ hlr (le_of_lt hx) hD x₁ (le_of_lt hx) (le_refl _)
  exact ⟨_, _, e0, e1, fun x h0 h1 => rolling_mean_interpolates c hc l r x₀ x₁ hlr hx hE hD _ _ e0 e1 x h0 h1⟩

/-! ## the connection with the rows `rollingMean` returns -/

/-- the rolled-over function: well-formed, and `f` inside `where`, undefined outside -/
theorem clipW_den (f c : Stairs Rat) (lo hi : Option Rat) (hf : f.WF) (hc : clipW f lo hi = .ok c) :
    c.WF ∧ ∀ st x, Den c st x = if inWindow st lo hi x then Den f st x else none := by
  by_cases hn : lo = none ∧ hi = none
  · obtain ⟨h1, h2⟩ := hn
    subst h1 h2
    simp only [clipW] at hc
    injection hc with hc
    subst hc
    exact ⟨hf, fun st x => by simp [inWindow]⟩
  · have hc' : clip f lo hi = .ok c := by
      rw [clipW_spec, if_neg hn] at hc; exact hc
    have hb : boundsOk lo hi = true := by
      cases hb : boundsOk lo hi with
      | true => rfl
      | false => rw [clip_error f lo hi hb] at hc'; cases hc'
    exact ⟨(canonical_clip f lo hi hf hb c hc').1.1, fun st x => den_clip f lo hi hf hb c hc' st x⟩

/-- **C20, last clause, for the rows of `rolling_mean`.**  Let `(x₀, y₀)`, `(x₁, y₁)` be two consecutive rows of
`rollingMean f l r lo hi` and let `f` be defined on `[x₀ + l, x₁ + r)`.  Then `x₀ < x₁`, both `y`s are defined,
they are the window means at `x₀`, `x₁`, and for every `x₀ ≤ x ≤ x₁` the rolling mean at `x` (the mean of the
rolled-over function `c = f` clipped to `where`, cut down to `[x + l, x + r]`) is the linear interpolant. -/
theorem rolling_mean_rows_interpolate (f c : Stairs Rat) (l r : Rat) (lo hi : Option Rat)
    (rows pre post : List (Rat × Val)) (x₀ x₁ : Rat) (y₀ y₁ : Val)
    (hf : f.WF) (hc : clipW f lo hi = .ok c) (hs : c.steps ≠ [])
    (hr : rollingMean f l r lo hi = .ok rows)
    (hrows : rows = pre ++ (x₀, y₀) :: (x₁, y₁) :: post)
    (hD : DefinedOn f (x₀ + l) (x₁ + r)) :
    x₀ < x₁ ∧ y₀ = winMean c l r x₀ ∧ y₁ = winMean c l r x₁ ∧
    ∃ m₀ m₁ : Rat, y₀ = some m₀ ∧ y₁ = some m₁ ∧
      ∀ x, x₀ ≤ x → x ≤ x₁ →
        clip c (some (x + l)) (some (x + r)) = .ok (window c (x + l) (x + r)) ∧
        winMean c l r x = some (m₀ + (x - x₀) / (x₁ - x₀) * (m₁ - m₀)) := by
  obtain ⟨hcw, hcd⟩ := clipW_den f c lo hi hf hc
  have hlr : l < r := by
    by_contra h
    rw [rollingMean_degenerate f c l r lo hi hc hs h] at hr
    cases hr
  obtain ⟨hk, hpw, hmem⟩ := rollingMean_points f c l r lo hi rows hc hcw hs hlr hr
  have hspec := rollingMean_spec f c l r lo hi hc hs hlr
  rw [hr] at hspec
  injection hspec with hspec
  -- the values are the window means
  have hval : ∀ xy ∈ rows, xy.2 = winMean c l r xy.1 := by
    intro xy hxy
    rw [hspec] at hxy
    obtain ⟨x, _, rfl⟩ := List.mem_map.mp hxy
    rfl
  have hy0 : y₀ = winMean c l r x₀ := hval (x₀, y₀) (by rw [hrows]; simp)
  have hy1 : y₁ = winMean c l r x₁ := hval (x₁, y₁) (by rw [hrows]; simp)
  -- the order of the points
  have hfst : rows.map Prod.fst = pre.map Prod.fst ++ x₀ :: x₁ :: post.map Prod.fst := by
    rw [hrows]; simp
  rw [hfst] at hpw hmem
  rw [List.pairwise_append] at hpw
  obtain ⟨_, hp2, hp3⟩ := hpw
  rw [List.pairwise_cons, List.pairwise_cons] at hp2
  have hx : x₀ < x₁ := hp2.1 x₁ (by simp)
  have hm0 := (hmem x₀).mp (by simp)
  have hm1 := (hmem x₁).mp (by simp)
  -- no knot strictly between two consecutive rows
  have hno : ∀ k ∈ knots c l r, ¬ (x₀ < k ∧ k < x₁) := by
    rintro k hk ⟨h1, h2⟩
    have hin : k ∈ pre.map Prod.fst ++ x₀ :: x₁ :: post.map Prod.fst :=
      (hmem k).mpr ⟨(mem_knots c l r k).mp hk, fun a ha => le_trans (hm0.2.1 a ha) (le_of_lt h1),
        fun b hb => le_trans (le_of_lt h2) (hm1.2.2 b hb)⟩
    rw [List.mem_append, List.mem_cons, List.mem_cons] at hin
    rcases hin with h | h | h | h
    · exact absurd (hp3 k h x₀ (by simp)) (not_lt.mpr (le_of_lt h1))
    · rw [h] at h1; exact lt_irrefl _ h1
    · rw [h] at h2; exact lt_irrefl _ h2
    · exact absurd (hp2.2.1 k h) (not_lt.mpr (le_of_lt h2))
  have hE : EdgesClear c l r x₀ x₁ := edgesClear_of_no_knot c l r x₀ x₁ hno
  -- the windows lie inside `where`, so the rolled-over function is defined there too
  have hDc : DefinedOn c (x₀ + l) (x₁ + r) := by
    intro p hp1 hp2
    have hin : inWindow false lo hi p = true := by
      rw [inWindow_right]
      constructor
      · intro a ha
        have := hm0.2.1 a ha
        linarith
      · intro b hb
        have := hm1.2.2 b hb
        linarith
    rw [hcd false p, if_pos hin]
    exact hD p hp1 hp2
  obtain ⟨m₀, m₁, e0, e1, hint⟩ := rolling_mean_interpolates' c hcw l r x₀ x₁ hlr hx hE hDc
  refine ⟨hx, hy0, hy1, m₀, m₁, hy0.trans e0, hy1.trans e1, fun x h0 h1 => ⟨?_, hint x h0 h1⟩⟩
  exact clip_window c _ _ (by linarith)

/-! ## the definedness hypothesis is needed -/

/-- `0` on `[−3, 0)`, `6` on `[0, 1)`, undefined elsewhere -/
def gap : Stairs Rat := ⟨none, [(-3, some 0), (0, some 6), (1, none)], .left⟩

/-- **counterexample without definedness**: `0` and `1` are consecutive points of `rolling_mean(window=(−1, 1))`
of `gap` (no edge crosses a step point in between), the means there are `3` and `6`, but at the midpoint `1/2`
the window `[−1/2, 3/2)` contains the undefined stretch `[1, 3/2)`: the mean is `6 / (3/2) = 4`, not the
interpolated `9/2`. -/
theorem interpolation_fails_with_gap :
    gap.WF ∧ EdgesClear gap (-1) 1 0 1 ∧
    rollingMean gap (-1) 1 none none
      = .ok [(-4, none), (-2, some 0), (-1, some 0), (0, some 3), (1, some 6), (2, none)] ∧
    winMean gap (-1) 1 0 = some 3 ∧ winMean gap (-1) 1 1 = some 6 ∧
    winMean gap (-1) 1 (1/2) = some 4 ∧
    winMean gap (-1) 1 (1/2) ≠ some (3 + ((1/2 : Rat) - 0) / (1 - 0) * (6 - 3)) ∧
    Den gap false (1 : Rat) = none := by
  decide +kernel

/-- so `DefinedOn` cannot be dropped from `rolling_mean_interpolates` -/
theorem definedOn_needed :
    ¬ ∀ (c : Stairs Rat) (l r x₀ x₁ y₀ y₁ x : Rat), c.WF → l < r → x₀ < x₁ → EdgesClear c l r x₀ x₁ →
      winMean c l r x₀ = some y₀ → winMean c l r x₁ = some y₁ → x₀ ≤ x → x ≤ x₁ →
      winMean c l r x = some (y₀ + (x - x₀) / (x₁ - x₀) * (y₁ - y₀)) := by
  intro h
  have := h gap (-1) 1 0 1 3 6 (1/2) (by decide +kernel) (by decide +kernel) (by decide +kernel)
    (by decide +kernel) (by decide +kernel) (by decide +kernel) (by decide +kernel) (by decide +kernel)
  exact absurd this (by decide +kernel)

/-- the hypothesis `c.steps ≠ []` of `rolling_mean_rows_interpolate` is needed as well: when the function clipped
to `where` has no step point at all, `rolling_mean` takes its special path and returns the two ends of `where`
(not knots, not trimmed) with the constant — here undefined — although `f` is defined on `[x₀ + l, x₁ + r)` -/
def late : Stairs Rat := ⟨none, [(10, some 1)], .left⟩

theorem stepfree_rows_do_not_interpolate :
    late.WF ∧ clipW late (some 0) (some 3) = .ok ⟨none, [], .left⟩ ∧
    rollingMean late 10 11 (some 0) (some 3) = .ok [(0, none), (3, none)] ∧
    Den late false (0 + 10 : Rat) = some 1 ∧ EdgesClear late 10 11 0 3 := by
  decide +kernel

theorem late_definedOn : DefinedOn late (0 + 10) (3 + 11) := by
  intro p hp _
  refine ⟨1, ?_⟩
  show lim false none [((10 : Rat), some (1 : Rat))] p = some 1
  rw [lim_cons, (reached_right_iff (10 : Rat) p).mpr (by linarith)]
  rfl

/-! ## non-vacuity over `Stairs Rat` -/

-- the three-piece function of C20: 1 on [0,2), 3 on [2,4), 0 elsewhere; window (−1, 1)
example : rollingMean f₀ (-1) 1 none none = .ok [(-1, some 0), (1, some 1), (3, some 3), (5, some 0)] := by
  decide +kernel
-- 1 and 3 are consecutive knots; the edges stay clear in between; the function is defined everywhere
example : f₀.WF ∧ EdgesClear f₀ (-1) 1 1 3 := by decide +kernel
example : DefinedOn f₀ (1 + -1) (3 + 1) := definedOn_of_all_some f₀ (by decide +kernel) (by decide +kernel) _ _
-- the midpoint: the window [1, 3) has mean 2 = 1 + (2 − 1)/(3 − 1)·(3 − 1)
example : winMean f₀ (-1) 1 2 = some 2 := by decide +kernel
example : winMean f₀ (-1) 1 2 = some (1 + ((2 : Rat) - 1) / (3 - 1) * (3 - 1)) :=
  rolling_mean_interpolates f₀ (by decide +kernel) (-1) 1 1 3 (by decide +kernel) (by decide +kernel)
    (by decide +kernel) (definedOn_of_all_some f₀ (by decide +kernel) (by decide +kernel) _ _) 1 3
    (by decide +kernel) (by decide +kernel) 2 (by decide +kernel) (by decide +kernel)
-- a quarter of the way, on the first segment (from (−1, 0) to (1, 1))
example : winMean f₀ (-1) 1 (-1/2) = some (1/4) := by decide +kernel
example : (1/4 : Rat) = 0 + ((-1/2 : Rat) - -1) / (1 - -1) * (1 - 0) := by decide +kernel
-- the pieces of the proof on the example: additivity, constancy, linearity of the window integral
example : intOn f₀ 1 3 = intOn f₀ 1 2 + intOn f₀ 2 3 := by decide +kernel
example : intOn f₀ 0 2 = 1 * (2 - 0) := by decide +kernel
example : intOn f₀ (2 + -1) (2 + 1) = intOn f₀ (1 + -1) (1 + 1) + (2 - 1) * (3 - 1) := by decide +kernel
-- the row form, instantiated
example : ∃ m₀ m₁ : Rat, (some 1 : Val) = some m₀ ∧ (some 3 : Val) = some m₁ ∧
    ∀ x : Rat, 1 ≤ x → x ≤ 3 →
      clip f₀ (some (x + -1)) (some (x + 1)) = .ok (window f₀ (x + -1) (x + 1)) ∧
      winMean f₀ (-1) 1 x = some (m₀ + (x - 1) / (3 - 1) * (m₁ - m₀)) :=
  (rolling_mean_rows_interpolate f₀ f₀ (-1) 1 none none _ [(-1, some 0)] [(5, some 0)] 1 3 (some 1) (some 3)
    (by decide +kernel) (by decide +kernel) (by decide +kernel) (by decide +kernel) rfl
    (definedOn_of_all_some f₀ (by decide +kernel) (by decide +kernel) _ _)).2.2.2
-- with `where`: rows trimmed, function clipped to [0, 4)
example : rollingMean f₀ (-1) 1 (some 0) (some 4) = .ok [(1, some 1), (3, some 3)] := by decide +kernel

end SC.Props.C20b
