import SCModel.Lemmas.Cov19c
import SCModel.Props.C08b
import SCModel.Props.C20c
/-!
# C19c — the algebra of `cov` / `corr`

Everything is for a bounded window `a < b`, lag `0` (except §3), well-formed operands closed on the same side.

0. **normal form.**  With the joint moments (`Lemmas/Cov19c`) `L = ∫1`, `X = ∫f`, `Y = ∫g`, `XY = ∫fg`,
   `XX = ∫f²`, `YY = ∫g²`, all over the part of `[a, b)` where *both* `f` and `g` are defined,
   `cov f g = XY/L − (X/L)(Y/L)` (`cov_eq_moments`) and `corrParts f g = (cov, XX/L − (X/L)², YY/L − (Y/L)²)`
   (`corrParts_eq_moments`); NaN iff `L = 0` iff `f`, `g` are nowhere both defined in the window
   (`cov_isSome_iff`).  `joint_stats`: the windowed `mean` / `var` of *any* function denoting `φ(f, g)`.
1. **bilinearity.**  `cov(k·f + d, g) = k·cov(f, g)` for every `k`, `d` (`cov_affine_left`, `cov_affine_right`,
   instance `cov_linear_left` for the library's `f * k + d`); `cov(f + h, g) = cov(f, g) + cov(h, g)` when, inside
   the window and where `g` is defined, `f` and `h` are defined at the same points (`cov_add_left`,
   `cov_add_left_binop`); **refuted** without that hypothesis (`cov_add_left_needs_domain`);
   `cov(f, c) = 0` for a function constant on the window (`cov_const_right`, `cov_const`).
   **Refuted for unbounded windows**: `cov(f + 1, g) ≠ cov(f, g)` and `cov(0·f, g) ≠ 0·cov(f, g)` with
   `where = (−∞, ∞)`, canonical operands (`cov_addConst_unbounded_false`, `cov_scale_zero_unbounded_false`).
2. **corr.**  `corrParts (k·f + d, g) = (k·cov, k²·var f, var g)` (`corrParts_affine_left/right`).  `CorrIs p r`
   says that the parts `p` represent the correlation `r = cov / sqrt(var f · var g)` (squared form + sign; `r` is
   unique: `corrIs_unique`).  Then corr is unchanged for `k > 0`, negated for `k < 0`, NaN for `k = 0`
   (`corr_affine_pos`, `corr_affine_neg`, `corr_affine_zero`); `corr(f, f) = 1` when `var f > 0` (`corr_self`),
   `corr(f, −f) = −1` (`corr_neg_self`).
3. **lag.**  `cov(f, g, lag ℓ, clip = pre)` over `(lo, hi)` equals `cov(g, f, lag −ℓ, pre)` over
   `(lo + ℓ, hi − ℓ)`; with `clip = post` over `(lo + ℓ, hi + ℓ)` (`cov_lag_swap_pre`, `cov_lag_swap_post`; any
   window, also unbounded).  The naive statement over the *same* window is **refuted** (`cov_lag_swap_naive_false`).
4. **variance of a sum.**  `var(f ± g) = var f₁ + var g₁ ± 2·cov(f, g)` where `var f₁`, `var g₁` are the variances
   in `corrParts` (operands restricted to the common domain) — no hypothesis (`var_add_parts`, `var_sub_parts`);
   with `var f`, `var g` of the window when `f`, `g` are defined on the same part of it (`var_add_window`,
   `corrParts_same_domain`), **refuted** otherwise (`var_add_needs_domain`); polarisation `4·cov = var(f+g) − var(f−g)`
   (`cov_polarisation`).
5. **undefined regions.**  `covPrep` (hence `cov`, `corrParts`, any window) yields the *same objects* when `f` is
   replaced by any `f'` that agrees with `f` wherever `g` is defined (`covPrep_congr_left`), e.g. by
   `f.mask(isna g)` (`cov_mask_isna`, `corrParts_mask_isna`); value level: only the restriction of `(f, g)` to
   the common defined set inside the window matters (`cov_congr_window`, `jmom_congr_common`,
   `sameOnCommon_of_agree`).
-/
set_option linter.unusedSectionVars false
set_option linter.unusedVariables false
namespace SC.Props.C19c
open SC SC.Stairs SC.Props.C08 SC.Props.C08b SC.Props.C19 SC.Props.C19b

/-! ## Helpers -/
section Helpers

/-- the joint moments used by `cov` / `corr` -/
def mL (f g : Stairs Rat) (a b : Rat) : Rat := c19c_jmom (fun _ _ => 1) f g a b
def mX (f g : Stairs Rat) (a b : Rat) : Rat := c19c_jmom (fun x _ => x) f g a b
def mY (f g : Stairs Rat) (a b : Rat) : Rat := c19c_jmom (fun _ y => y) f g a b
def mXY (f g : Stairs Rat) (a b : Rat) : Rat := c19c_jmom (fun x y => x * y) f g a b
def mXX (f g : Stairs Rat) (a b : Rat) : Rat := c19c_jmom (fun x _ => x * x) f g a b
def mYY (f g : Stairs Rat) (a b : Rat) : Rat := c19c_jmom (fun _ y => y * y) f g a b

theorem c19c_both_fst (f g : Stairs Rat) (st : Bool) (x : Rat) :
    (if BothDefined f g st x then Den f st x else none) = vlift2 (fun x _ => x) (Den f st x) (Den g st x) := by
  by_cases hB : BothDefined f g st x
  · rw [if_pos hB]
    obtain ⟨h1, h2⟩ := hB
    cases hA : Den f st x with
    | none => exact absurd hA h1
    | some u =>
      cases hG : Den g st x with
      | none => exact absurd hG h2
      | some v => rfl
  · rw [if_neg hB]
    unfold BothDefined at hB
    cases hA : Den f st x with
    | none => rfl
    | some u =>
      cases hG : Den g st x with
      | none => rfl
      | some v => exact absurd ⟨(by rw [hA]; exact Option.some_ne_none u), (by rw [hG]; exact Option.some_ne_none v)⟩ hB

theorem c19c_both_snd (f g : Stairs Rat) (st : Bool) (x : Rat) :
    (if BothDefined f g st x then Den g st x else none) = vlift2 (fun _ y => y) (Den f st x) (Den g st x) := by
  by_cases hB : BothDefined f g st x
  · rw [if_pos hB]
    obtain ⟨h1, h2⟩ := hB
    cases hA : Den f st x with
    | none => exact absurd hA h1
    | some u =>
      cases hG : Den g st x with
      | none => exact absurd hG h2
      | some v => rfl
  · rw [if_neg hB]
    unfold BothDefined at hB
    cases hA : Den f st x with
    | none => rfl
    | some u =>
      cases hG : Den g st x with
      | none => rfl
      | some v => exact absurd ⟨(by rw [hA]; exact Option.some_ne_none u), (by rw [hG]; exact Option.some_ne_none v)⟩ hB

/-- change of values in the first operand: if `h` denotes `θ ∘ f` on the window, moments of `(h, g)` are moments
of `(f, g)` -/
theorem c19c_jmom_map_left (φ ψ : Rat → Rat → Rat) (θ : Rat → Rat) (h f g : Stairs Rat) (hh : h.WF) (hf : f.WF)
    (hg : g.WF) (a b : Rat) (hab : a < b)
    (hden : ∀ x, a ≤ x → x < b → Den h false x = (Den f false x).map θ)
    (hφ : ∀ u v, φ (θ u) v = ψ u v) : c19c_jmom φ h g a b = c19c_jmom ψ f g a b := by
  apply c19c_jmom_congr_den φ ψ h g f g hh hg hf hg a b hab
  intro x h1 h2
  rw [hden x h1 h2]
  cases Den f false x with
  | none => cases Den g false x <;> rfl
  | some u =>
    cases Den g false x with
    | none => rfl
    | some v => exact congrArg some (hφ u v)

/-- change of values in the second operand -/
theorem c19c_jmom_map_right (φ ψ : Rat → Rat → Rat) (θ : Rat → Rat) (h f g : Stairs Rat) (hh : h.WF) (hf : f.WF)
    (hg : g.WF) (a b : Rat) (hab : a < b)
    (hden : ∀ x, a ≤ x → x < b → Den h false x = (Den g false x).map θ)
    (hφ : ∀ u v, φ u (θ v) = ψ u v) : c19c_jmom φ f h a b = c19c_jmom ψ f g a b := by
  apply c19c_jmom_congr_den φ ψ f h f g hf hh hf hg a b hab
  intro x h1 h2
  rw [hden x h1 h2]
  cases Den f false x with
  | none => cases Den g false x <;> rfl
  | some u =>
    cases Den g false x with
    | none => rfl
    | some v => exact congrArg some (hφ u v)

end Helpers

/-! ## 0. the normal form -/

/-- **windowed statistics of anything built pointwise from `f` and `g`**: if `F` denotes `φ(f, g)` on `[a, b)`
(undefined where either operand is), its defined length, integral sum, mean and variance over the window are the
joint moments `∫1`, `∫φ`, `∫φ/∫1`, `∫φ²/∫1 − (∫φ/∫1)²` — whatever the rows of `F` -/
theorem joint_stats (F f g : Stairs Rat) (hF : F.WF) (hf : f.WF) (hg : g.WF) (a b : Rat) (hab : a < b)
    (φ : Rat → Rat → Rat)
    (hden : ∀ x, a ≤ x → x < b → Den F false x = vlift2 φ (Den f false x) (Den g false x)) :
    lenOn F a b = mL f g a b ∧ intOn F a b = c19c_jmom φ f g a b ∧
    mean (window F a b)
      = (if mL f g a b = 0 then none else some (c19c_jmom φ f g a b / mL f g a b)) ∧
    var (window F a b)
      = c19c_covOf (mL f g a b) (c19c_jmom (fun x y => φ x y * φ x y) f g a b) (c19c_jmom φ f g a b)
          (c19c_jmom φ f g a b) := by
  have hL : lenOn F a b = mL f g a b := by
    rw [lenOn_eq_wsum]
    exact c19c_wsum_joint F f g hF hf hg a b hab φ hden (fun _ => 1)
  have hI : intOn F a b = c19c_jmom φ f g a b :=
    c19c_wsum_joint F f g hF hf hg a b hab φ hden (fun v => v)
  have hQ : wsum (fun v => v * v) (window F a b) = c19c_jmom (fun x y => φ x y * φ x y) f g a b :=
    c19c_wsum_joint F f g hF hf hg a b hab φ hden (fun v => v * v)
  have hm : mean (window F a b)
      = (if mL f g a b = 0 then none else some (c19c_jmom φ f g a b / mL f g a b)) := by
    rw [mean_window_general, hL, hI]
  refine ⟨hL, hI, hm, ?_⟩
  have hL' : definedLength (window F a b) = mL f g a b := hL
  by_cases h0 : mL f g a b = 0
  · rw [if_pos h0] at hm
    rw [var_none _ hm, h0, c19c_covOf_zero]
  · rw [if_neg h0] at hm
    rw [var_eq_moment _ _ hm, sumBy_shares _ (fun v => v * v), c19c_covOf_ne _ _ _ _ h0, ← hQ, hL']
    rfl

/-- **`cov` in closed form**: `∫fg/L − (∫f/L)(∫g/L)` over the common domain of definition inside the window -/
theorem cov_eq_moments (f g : Stairs Rat) (a b : Rat) (hab : a < b) (hf : f.WF) (hg : g.WF)
    (hc : f.closed = g.closed) :
    cov f g (some a) (some b) 0 true
      = .ok (c19c_covOf (mL f g a b) (mXY f g a b) (mX f g a b) (mY f g a b)) := by
  obtain ⟨f1, g1, A, B, C, hp, hf1, hg1, hcf1, hcg1, hdf, hdg, hA, hB, hC, hden, hcov⟩ :=
    cov_unfold f g a b hab hf hg hc
  rw [clip_window _ a b hab] at hA hB hC
  injection hA with hA
  injection hB with hB
  injection hC with hC
  subst hA hB hC
  rw [hcov]
  congr 1
  have hP := wf_combine vmul f1 g1 g.closed hf1 hg1
  obtain ⟨_, _, mA, _⟩ := joint_stats (combine vmul f1 g1 g.closed) f g hP hf hg a b hab (fun x y => x * y)
    (fun x _ _ => by
      rw [den_combine _ _ _ _ hf1 hg1, hdf, hdg, c19c_both_fst, c19c_both_snd]
      cases Den f false x <;> cases Den g false x <;> rfl)
  obtain ⟨_, _, mB, _⟩ := joint_stats f1 f g hf1 hf hg a b hab (fun x _ => x)
    (fun x _ _ => by rw [hdf, c19c_both_fst])
  obtain ⟨_, _, mC, _⟩ := joint_stats g1 f g hg1 hf hg a b hab (fun _ y => y)
    (fun x _ _ => by rw [hdg, c19c_both_snd])
  rw [mA, mB, mC]
  exact c19c_covOf_means _ _ _ _

/-- **`corrParts` in closed form**: the covariance and the two variances over the common domain -/
theorem corrParts_eq_moments (f g : Stairs Rat) (a b : Rat) (hab : a < b) (hf : f.WF) (hg : g.WF)
    (hc : f.closed = g.closed) :
    corrParts f g (some a) (some b) 0 true
      = .ok (c19c_covOf (mL f g a b) (mXY f g a b) (mX f g a b) (mY f g a b),
             c19c_covOf (mL f g a b) (mXX f g a b) (mX f g a b) (mX f g a b),
             c19c_covOf (mL f g a b) (mYY f g a b) (mY f g a b) (mY f g a b)) := by
  obtain ⟨f1, g1, hp, hf1, hg1, hcf1, hcg1, hdf, hdg⟩ :=
    covPrep_common_domain f g (some a) (some b) g.closed hf hg hc rfl
  have hm := cov_masked f g (some a) (some b) hf hg hc f1 g1 hp
  have hb : clipW f1 (some a) (some b) = .ok (window f1 a b) := clip_window f1 a b hab
  have hc' : clipW g1 (some a) (some b) = .ok (window g1 a b) := clip_window g1 a b hab
  obtain ⟨_, _, _, vB⟩ := joint_stats f1 f g hf1 hf hg a b hab (fun x _ => x)
    (fun x _ _ => by rw [hdf, c19c_both_fst])
  obtain ⟨_, _, _, vC⟩ := joint_stats g1 f g hg1 hf hg a b hab (fun _ y => y)
    (fun x _ _ => by rw [hdg, c19c_both_snd])
  unfold corrParts
  rw [hp]
  simp only [bind, Except.bind]
  rw [hb, hc', hm, cov_eq_moments f g a b hab hf hg hc]
  simp only [pure, Except.pure]
  rw [vB, vC]
  rfl

/-- `cov` over a bounded window never raises, and is NaN exactly when `f` and `g` are nowhere both defined in it -/
theorem cov_isSome_iff (f g : Stairs Rat) (a b : Rat) (hab : a < b) (hf : f.WF) (hg : g.WF)
    (hc : f.closed = g.closed) :
    ∃ cv, cov f g (some a) (some b) 0 true = .ok cv ∧
      (cv = none ↔ ∀ x, a ≤ x → x < b → (Den f false x = none ∨ Den g false x = none)) := by
  refine ⟨_, cov_eq_moments f g a b hab hf hg hc, ?_⟩
  rw [← c19c_jlen_eq_zero_iff f g hf hg a b hab]
  unfold c19c_covOf mL
  by_cases h0 : c19c_jmom (fun _ _ => 1) f g a b = 0
  · simp [h0]
  · simp [h0]

/-! ## 1. bilinearity -/

/-- the moments of `(h, g)` where `h` denotes `k·f + d` on the window -/
theorem moments_affine_left (f g h : Stairs Rat) (a b : Rat) (hab : a < b) (hf : f.WF) (hg : g.WF) (hh : h.WF)
    (k d : Rat) (hden : ∀ x, a ≤ x → x < b → Den h false x = (Den f false x).map (fun v => k * v + d)) :
    mL h g a b = mL f g a b ∧ mX h g a b = k * mX f g a b + d * mL f g a b ∧ mY h g a b = mY f g a b ∧
    mXY h g a b = k * mXY f g a b + d * mY f g a b ∧
    mXX h g a b = k * k * mXX f g a b + 2 * k * d * mX f g a b + d * d * mL f g a b ∧
    mYY h g a b = mYY f g a b := by
  refine ⟨?_, ?_, ?_, ?_, ?_, ?_⟩
  · exact c19c_jmom_map_left _ _ _ h f g hh hf hg a b hab hden (fun _ _ => rfl)
  · exact (c19c_jmom_map_left (fun x _ => x) (fun x _ => k * x + d * 1) _ h f g hh hf hg a b hab hden
      (fun u v => by ring)).trans (c19c_jmom_lin2 k d (fun x _ => x) (fun _ _ => 1) f g hf hg a b hab)
  · exact c19c_jmom_map_left _ _ _ h f g hh hf hg a b hab hden (fun _ _ => rfl)
  · exact (c19c_jmom_map_left (fun x y => x * y) (fun x y => k * (x * y) + d * y) _ h f g hh hf hg a b hab hden
      (fun u v => by ring)).trans (c19c_jmom_lin2 k d (fun x y => x * y) (fun _ y => y) f g hf hg a b hab)
  · exact (c19c_jmom_map_left (fun x _ => x * x) (fun x _ => k * k * (x * x) + 2 * k * d * x + d * d * 1) _ h f g
      hh hf hg a b hab hden (fun u v => by ring)).trans
      (c19c_jmom_lin3 (k * k) (2 * k * d) (d * d) (fun x _ => x * x) (fun x _ => x) (fun _ _ => 1) f g hf hg a b hab)
  · exact c19c_jmom_map_left _ _ _ h f g hh hf hg a b hab hden (fun _ _ => rfl)

/-- the moments of `(f, h)` where `h` denotes `k·g + d` on the window -/
theorem moments_affine_right (f g h : Stairs Rat) (a b : Rat) (hab : a < b) (hf : f.WF) (hg : g.WF) (hh : h.WF)
    (k d : Rat) (hden : ∀ x, a ≤ x → x < b → Den h false x = (Den g false x).map (fun v => k * v + d)) :
    mL f h a b = mL f g a b ∧ mX f h a b = mX f g a b ∧ mY f h a b = k * mY f g a b + d * mL f g a b ∧
    mXY f h a b = k * mXY f g a b + d * mX f g a b ∧ mXX f h a b = mXX f g a b ∧
    mYY f h a b = k * k * mYY f g a b + 2 * k * d * mY f g a b + d * d * mL f g a b := by
  refine ⟨?_, ?_, ?_, ?_, ?_, ?_⟩
  · exact c19c_jmom_map_right _ _ _ h f g hh hf hg a b hab hden (fun _ _ => rfl)
  · exact c19c_jmom_map_right _ _ _ h f g hh hf hg a b hab hden (fun _ _ => rfl)
  · exact (c19c_jmom_map_right (fun _ y => y) (fun _ y => k * y + d * 1) _ h f g hh hf hg a b hab hden
      (fun u v => by ring)).trans (c19c_jmom_lin2 k d (fun _ y => y) (fun _ _ => 1) f g hf hg a b hab)
  · exact (c19c_jmom_map_right (fun x y => x * y) (fun x y => k * (x * y) + d * x) _ h f g hh hf hg a b hab hden
      (fun u v => by ring)).trans (c19c_jmom_lin2 k d (fun x y => x * y) (fun x _ => x) f g hf hg a b hab)
  · exact c19c_jmom_map_right _ _ _ h f g hh hf hg a b hab hden (fun _ _ => rfl)
  · exact (c19c_jmom_map_right (fun _ y => y * y) (fun _ y => k * k * (y * y) + 2 * k * d * y + d * d * 1) _ h f g
      hh hf hg a b hab hden (fun u v => by ring)).trans
      (c19c_jmom_lin3 (k * k) (2 * k * d) (d * d) (fun _ y => y * y) (fun _ y => y) (fun _ _ => 1) f g hf hg a b hab)

/-- **`cov(k·f + d, g) = k·cov(f, g)`**, denotational form: `h` is any well-formed function that denotes `k·f + d` on
`[a, b)` (undefined where `f` is).  Every `k` (`0` and negative included), every `d`. -/
theorem cov_affine_left (f g h : Stairs Rat) (a b : Rat) (hab : a < b) (hf : f.WF) (hg : g.WF) (hh : h.WF)
    (hc : f.closed = g.closed) (hch : h.closed = g.closed) (k d : Rat)
    (hden : ∀ x, a ≤ x → x < b → Den h false x = (Den f false x).map (fun v => k * v + d)) :
    ∃ cv, cov f g (some a) (some b) 0 true = .ok cv ∧
      cov h g (some a) (some b) 0 true = .ok (cv.map (fun c => k * c)) := by
  obtain ⟨eL, eX, eY, eXY, _, _⟩ := moments_affine_left f g h a b hab hf hg hh k d hden
  refine ⟨_, cov_eq_moments f g a b hab hf hg hc, ?_⟩
  rw [cov_eq_moments h g a b hab hh hg hch, eL, eX, eY, eXY, c19c_covOf_affine]

/-- **`cov(f, k·g + d) = k·cov(f, g)`** -/
theorem cov_affine_right (f g h : Stairs Rat) (a b : Rat) (hab : a < b) (hf : f.WF) (hg : g.WF) (hh : h.WF)
    (hc : f.closed = g.closed) (hch : h.closed = g.closed) (k d : Rat)
    (hden : ∀ x, a ≤ x → x < b → Den h false x = (Den g false x).map (fun v => k * v + d)) :
    ∃ cv, cov f g (some a) (some b) 0 true = .ok cv ∧
      cov f h (some a) (some b) 0 true = .ok (cv.map (fun c => k * c)) := by
  obtain ⟨eL, eX, eY, eXY, _, _⟩ := moments_affine_right f g h a b hab hf hg hh k d hden
  refine ⟨_, cov_eq_moments f g a b hab hf hg hc, ?_⟩
  rw [cov_eq_moments f h a b hab hf hh (hc.trans hch.symm), eL, eX, eY, eXY, c19c_covOf_symm,
    c19c_covOf_affine, c19c_covOf_symm]

/-- `f * k + d` as the library builds it denotes `k·f + d` -/
theorem den_linear (f : Stairs Rat) (hf : f.WF) (k d : Rat) (st : Bool) (x : Rat) :
    Den (addConst (scale f k) d) st x = (Den f st x).map (fun v => k * v + d) := by
  rw [den_addConst _ (wf_scale f hf k), den_scale f hf]
  cases Den f st x with
  | none => rfl
  | some v => exact congrArg some (by ring)

/-- **`cov(f * k + d, g) = k·cov(f, g)`** for the library's `f * k + d` (`binopO_scale`, `binopO_addConst`) -/
theorem cov_linear_left (f g : Stairs Rat) (a b : Rat) (hab : a < b) (hf : f.WF) (hg : g.WF)
    (hc : f.closed = g.closed) (k d : Rat) :
    ∃ cv, cov f g (some a) (some b) 0 true = .ok cv ∧
      cov (addConst (scale f k) d) g (some a) (some b) 0 true = .ok (cv.map (fun c => k * c)) :=
  cov_affine_left f g _ a b hab hf hg (wf_addConst _ (wf_scale f hf k) d) hc hc k d
    (fun x _ _ => den_linear f hf k d false x)

/-- non-vacuity: `C19.f₀`, `C19.g₀` have partially overlapping domains; `k = −3`, `d = 5`, and `k = 0` -/
example : C19.f₀.WF ∧ C19.g₀.WF ∧ C19.f₀.closed = C19.g₀.closed ∧
    cov C19.f₀ C19.g₀ (some 0) (some 8) 0 true = .ok (some (8/25)) ∧
    cov (addConst (scale C19.f₀ (-3)) 5) C19.g₀ (some 0) (some 8) 0 true = .ok (some (-3 * (8/25))) ∧
    cov (addConst (scale C19.f₀ 0) 5) C19.g₀ (some 0) (some 8) 0 true = .ok (some 0) := by decide +kernel

/-- the moments of `(s, g)` where `s` denotes `f + h` on the window and, where `g` is defined, `f` and `h` are
defined at the same points -/
theorem moments_add_left (f h s g : Stairs Rat) (a b : Rat) (hab : a < b) (hf : f.WF) (hh : h.WF) (hs : s.WF)
    (hg : g.WF) (hden : ∀ x, a ≤ x → x < b → Den s false x = vadd (Den f false x) (Den h false x))
    (hdom : ∀ x, a ≤ x → x < b → Den g false x ≠ none → (Den f false x = none ↔ Den h false x = none)) :
    mL s g a b = mL f g a b ∧ mL h g a b = mL f g a b ∧ mY s g a b = mY f g a b ∧ mY h g a b = mY f g a b ∧
    mX s g a b = mX f g a b + mX h g a b ∧ mXY s g a b = mXY f g a b + mXY h g a b := by
  obtain ⟨l1, l2⟩ := c19c_jmom_vadd_snd (fun _ => 1) f h s g hf hh hs hg a b hab hden hdom
  obtain ⟨y1, y2⟩ := c19c_jmom_vadd_snd (fun y => y) f h s g hf hh hs hg a b hab hden hdom
  exact ⟨l1, l2, y1, y2,
    c19c_jmom_vadd (fun x _ => x) (fun _ _ _ => rfl) f h s g hf hh hs hg a b hab hden hdom,
    c19c_jmom_vadd (fun x y => x * y) (fun x x' y => by ring) f h s g hf hh hs hg a b hab hden hdom⟩

/-- **`cov(f + h, g) = cov(f, g) + cov(h, g)`**, denotational form.  The exact common-domain hypothesis: at every
point of the window where `g` is defined, `f` is defined iff `h` is. -/
theorem cov_add_left (f h s g : Stairs Rat) (a b : Rat) (hab : a < b) (hf : f.WF) (hh : h.WF) (hs : s.WF)
    (hg : g.WF) (hcf : f.closed = g.closed) (hch : h.closed = g.closed) (hcs : s.closed = g.closed)
    (hden : ∀ x, a ≤ x → x < b → Den s false x = vadd (Den f false x) (Den h false x))
    (hdom : ∀ x, a ≤ x → x < b → Den g false x ≠ none → (Den f false x = none ↔ Den h false x = none)) :
    ∃ c₁ c₂, cov f g (some a) (some b) 0 true = .ok c₁ ∧ cov h g (some a) (some b) 0 true = .ok c₂ ∧
      cov s g (some a) (some b) 0 true = .ok (vadd c₁ c₂) := by
  obtain ⟨l1, l2, y1, y2, eX, eXY⟩ := moments_add_left f h s g a b hab hf hh hs hg hden hdom
  refine ⟨_, _, cov_eq_moments f g a b hab hf hg hcf, cov_eq_moments h g a b hab hh hg hch, ?_⟩
  rw [cov_eq_moments s g a b hab hs hg hcs, l1, l2, y1, y2, eX, eXY, c19c_covOf_add]

/-- the same for the library's `f + h` -/
theorem cov_add_left_binop (f h s g : Stairs Rat) (a b : Rat) (hab : a < b) (hf : f.WF) (hh : h.WF) (hg : g.WF)
    (hcf : f.closed = g.closed) (hch : h.closed = g.closed) (hs : binop .add f h = .ok s)
    (hdom : ∀ x, a ≤ x → x < b → Den g false x ≠ none → (Den f false x = none ↔ Den h false x = none)) :
    ∃ c₁ c₂, cov f g (some a) (some b) 0 true = .ok c₁ ∧ cov h g (some a) (some b) 0 true = .ok c₂ ∧
      cov s g (some a) (some b) 0 true = .ok (vadd c₁ c₂) := by
  obtain ⟨hc, hcl, hden⟩ := combineChecked_ok vadd f h s hf hh hs
  have hcs : s.closed = g.closed := by
    rw [hcl, (sideOf_same f h g.closed hcf hch).2]
  exact cov_add_left f h s g a b hab hf hh hc.1 hg hcf hch hcs (fun x _ _ => hden false x) hdom

/-- `a₁`: `1` on `[0, 2)`, `3` on `[2, 4)`;  `a₂`: `2` on `[0, 1)`, `0` on `[1, 4)` — the same domain `[0, 4)`;
`a₃`: defined on `[1, 4)` only;  `a₄`: defined everywhere -/
def a₁ : Stairs Rat := ⟨none, [(0, some 1), (2, some 3), (4, none)], .left⟩
def a₂ : Stairs Rat := ⟨none, [(0, some 2), (1, some 0), (4, none)], .left⟩
def a₃ : Stairs Rat := ⟨none, [(1, some 2), (3, some 0), (4, none)], .left⟩
def a₄ : Stairs Rat := ⟨some 0, [(1, some 2), (2, some 5), (3, some 1)], .left⟩

/-- non-vacuity of `cov_add_left`: `a₁`, `a₂` are defined at the same points -/
example : ∀ x : Rat, (Den a₁ false x = none ↔ Den a₂ false x = none) := by
  intro x
  simp only [Den, a₁, a₂, lim_cons, lim_nil, reached]
  by_cases h0 : x < 0 <;> by_cases h1 : x < 1 <;> by_cases h2 : x < 2 <;> by_cases h4 : x < 4 <;>
    simp [h0, h1, h2, h4] <;> linarith
example : a₁.WF ∧ a₂.WF ∧ a₄.WF ∧ binop .add a₁ a₂ = .ok (combine vadd a₁ a₂ .left) ∧
    cov a₁ a₄ (some (-1)) (some 5) 0 true = .ok (some 1) ∧
    cov a₂ a₄ (some (-1)) (some 5) 0 true = .ok (some (-1)) ∧
    cov (combine vadd a₁ a₂ .left) a₄ (some (-1)) (some 5) 0 true = .ok (some 0) := by decide +kernel

/-- **refutation without the common-domain hypothesis**: `a₃` is undefined on `[0, 1)` where `a₁` and `a₄` are
defined; `cov(a₁, a₄) = 1`, `cov(a₃, a₄) = 10/9` but `cov(a₁ + a₃, a₄) = 14/9` -/
theorem cov_add_left_needs_domain :
    a₁.WF ∧ a₃.WF ∧ a₄.WF ∧ binop .add a₁ a₃ = .ok (combine vadd a₁ a₃ .left) ∧
    cov a₁ a₄ (some 0) (some 4) 0 true = .ok (some 1) ∧ cov a₃ a₄ (some 0) (some 4) 0 true = .ok (some (10/9)) ∧
    cov (combine vadd a₁ a₃ .left) a₄ (some 0) (some 4) 0 true = .ok (some (14/9)) ∧
    Den a₁ false (0 : Rat) = some 1 ∧ Den a₃ false (0 : Rat) = none ∧ Den a₄ false (0 : Rat) = some 0 := by
  decide +kernel

theorem cov_add_left_needs_domain' :
    ¬ ∀ (f h s g : Stairs Rat) (a b : Rat), a < b → f.WF → h.WF → g.WF → f.closed = g.closed →
      h.closed = g.closed → binop .add f h = .ok s →
      ∃ c₁ c₂, cov f g (some a) (some b) 0 true = .ok c₁ ∧ cov h g (some a) (some b) 0 true = .ok c₂ ∧
        cov s g (some a) (some b) 0 true = .ok (vadd c₁ c₂) := by
  intro H
  obtain ⟨c₁, c₂, h1, h2, h3⟩ := H a₁ a₃ (combine vadd a₁ a₃ .left) a₄ 0 4 (by decide +kernel) (by decide +kernel)
    (by decide +kernel) (by decide +kernel) rfl rfl (by decide +kernel)
  obtain ⟨_, _, _, _, e1, e2, e3, _⟩ := cov_add_left_needs_domain
  rw [e1] at h1; rw [e2] at h2; rw [e3] at h3
  injection h1 with h1; injection h2 with h2; injection h3 with h3
  subst h1 h2
  exact absurd h3 (by decide +kernel)

/-- **`cov(f, c) = 0`**: if `g` is the constant `c` on `[a, b)`, the covariance is `0` (NaN when `f` is nowhere
defined in the window) -/
theorem cov_const_right (f g : Stairs Rat) (a b : Rat) (hab : a < b) (hf : f.WF) (hg : g.WF)
    (hc : f.closed = g.closed) (c : Rat) (hconst : ∀ x, a ≤ x → x < b → Den g false x = some c) :
    cov f g (some a) (some b) 0 true = .ok (if lenOn f a b = 0 then none else some 0) := by
  obtain ⟨eL, eI, _, _⟩ := joint_stats f f g hf hf hg a b hab (fun x _ => x) (fun x h1 h2 => by
    rw [hconst x h1 h2]; cases Den f false x <;> rfl)
  have eY : mY f g a b = c * mL f g a b :=
    (c19c_jmom_congr_den (fun _ y => y) (fun _ _ => c * 1) f g f g hf hg hf hg a b hab (fun x h1 h2 => by
      rw [hconst x h1 h2]; cases Den f false x <;> simp [vlift2])).trans
      (c19c_jmom_smul c (fun _ _ => 1) f g hf hg a b hab)
  have eXY : mXY f g a b = c * mX f g a b :=
    (c19c_jmom_congr_den (fun x y => x * y) (fun x _ => c * x) f g f g hf hg hf hg a b hab (fun x h1 h2 => by
      rw [hconst x h1 h2]; cases Den f false x <;> simp [vlift2, mul_comm])).trans
      (c19c_jmom_smul c (fun x _ => x) f g hf hg a b hab)
  rw [cov_eq_moments f g a b hab hf hg hc, eY, eXY, c19c_covOf_const, eL]

/-- … in particular for the step-free constant, on either side -/
theorem cov_const (f : Stairs Rat) (a b : Rat) (hab : a < b) (hf : f.WF) (c : Rat) :
    cov f (const (some c) f.closed) (some a) (some b) 0 true = .ok (if lenOn f a b = 0 then none else some 0) ∧
    cov (const (some c) f.closed) f (some a) (some b) 0 true = .ok (if lenOn f a b = 0 then none else some 0) := by
  have h := cov_const_right f (const (some c) f.closed) a b hab hf (wf_const _ _) rfl c (fun x _ _ => rfl)
  exact ⟨h, by rw [← cov_symm f _ (some a) (some b) hf (wf_const _ _) rfl]; exact h⟩

example : cov C19.f₀ (const (some 7) .left) (some 0) (some 8) 0 true = .ok (some 0) ∧ lenOn C19.f₀ 0 8 = 6 ∧
    cov C19.f₀ (const (some 7) .left) (some 6) (some 8) 0 true = .ok none ∧ lenOn C19.f₀ 6 8 = 0 := by
  decide +kernel

/-- `b₁`, `b₂`: canonical, defined everywhere -/
def b₁ : Stairs Rat := ⟨some 1, [(0, some 0), (1, some 2), (3, some 0)], .left⟩
def b₂ : Stairs Rat := ⟨some 1, [(0, some 2), (2, some 1), (3, some 2)], .left⟩

/-- **refutation for `where = (−∞, ∞)`**: without a bounded window `cov(f + 1, g) ≠ cov(f, g)` even for canonical,
everywhere-defined operands — the canonical product `(b₁ + 1)·b₂` merges its first row with the initial value
(`2·1 = 1·2`), so `E[(f+1)g]` is taken over `[1, 3)` but `E[f+1]`, `E[g]` over `[0, 3)`.  Over any bounded window the
two agree (`cov_linear_left`). -/
theorem cov_addConst_unbounded_false :
    b₁.Canonical ∧ b₂.Canonical ∧ cov b₁ b₂ none none 0 true = .ok (some (-2/9)) ∧
    cov (addConst b₁ 1) b₂ none none 0 true = .ok (some (11/18)) ∧
    cov b₁ b₂ (some (-5)) (some 5) 0 true = .ok (some (-4/25)) ∧
    cov (addConst b₁ 1) b₂ (some (-5)) (some 5) 0 true = .ok (some (-4/25)) := by decide +kernel

/-- … and `cov(0·f, g)` is NaN, not `0·cov(f, g) = 0` (`0·f` has no step points left) -/
theorem cov_scale_zero_unbounded_false :
    cov (scale b₁ 0) b₂ none none 0 true = .ok none ∧ cov b₁ b₂ none none 0 true = .ok (some (-2/9)) ∧
    cov (scale b₁ 0) b₂ (some (-5)) (some 5) 0 true = .ok (some 0) := by decide +kernel

/-! ## 2. corr -/

/-- **`corrParts (k·f + d, g) = (k·cov, k²·var f, var g)`** -/
theorem corrParts_affine_left (f g h : Stairs Rat) (a b : Rat) (hab : a < b) (hf : f.WF) (hg : g.WF) (hh : h.WF)
    (hc : f.closed = g.closed) (hch : h.closed = g.closed) (k d : Rat)
    (hden : ∀ x, a ≤ x → x < b → Den h false x = (Den f false x).map (fun v => k * v + d)) :
    ∃ cv vf vg, corrParts f g (some a) (some b) 0 true = .ok (cv, vf, vg) ∧
      corrParts h g (some a) (some b) 0 true
        = .ok (cv.map (fun c => k * c), vf.map (fun v => k * k * v), vg) := by
  obtain ⟨eL, eX, eY, eXY, eXX, eYY⟩ := moments_affine_left f g h a b hab hf hg hh k d hden
  refine ⟨_, _, _, corrParts_eq_moments f g a b hab hf hg hc, ?_⟩
  rw [corrParts_eq_moments h g a b hab hh hg hch, eL, eX, eY, eXY, eXX, eYY, c19c_covOf_affine,
    c19c_varOf_affine]

/-- **`corrParts (f, k·g + d) = (k·cov, var f, k²·var g)`** -/
theorem corrParts_affine_right (f g h : Stairs Rat) (a b : Rat) (hab : a < b) (hf : f.WF) (hg : g.WF) (hh : h.WF)
    (hc : f.closed = g.closed) (hch : h.closed = g.closed) (k d : Rat)
    (hden : ∀ x, a ≤ x → x < b → Den h false x = (Den g false x).map (fun v => k * v + d)) :
    ∃ cv vf vg, corrParts f g (some a) (some b) 0 true = .ok (cv, vf, vg) ∧
      corrParts f h (some a) (some b) 0 true
        = .ok (cv.map (fun c => k * c), vf, vg.map (fun v => k * k * v)) := by
  obtain ⟨eL, eX, eY, eXY, eXX, eYY⟩ := moments_affine_right f g h a b hab hf hg hh k d hden
  refine ⟨_, _, _, corrParts_eq_moments f g a b hab hf hg hc, ?_⟩
  rw [corrParts_eq_moments f h a b hab hf hh (hc.trans hch.symm), eL, eX, eY, eXY, eXX, eYY,
    c19c_covOf_symm (mL f g a b) (k * mXY f g a b + d * mX f g a b) (mX f g a b) _, c19c_covOf_affine,
    c19c_covOf_symm (mL f g a b) (mXY f g a b) (mY f g a b) (mX f g a b), c19c_varOf_affine]

/-- the parts `p = (cov, var f, var g)` **represent the correlation `r`**: both variances are positive,
`cov² = r²·var f·var g` and `cov`, `r` have the same sign — i.e. `r = cov / sqrt (var f · var g)` (the project's
squared form, cf. `C19b.corr_sq_le`, plus the sign; the square root itself is float glue) -/
def CorrIs (p : Val × Val × Val) (r : Rat) : Prop :=
  ∃ cv vf vg, p = (some cv, some vf, some vg) ∧ 0 < vf ∧ 0 < vg ∧ cv * cv = r * r * (vf * vg) ∧ 0 ≤ cv * r

/-- the represented correlation is unique -/
theorem corrIs_unique (p : Val × Val × Val) (r r' : Rat) (h : CorrIs p r) (h' : CorrIs p r') : r = r' := by
  obtain ⟨cv, vf, vg, e, h1, h2, h3, h4⟩ := h
  obtain ⟨cv', vf', vg', e', _, _, h3', h4'⟩ := h'
  rw [e] at e'
  simp only [Prod.mk.injEq, Option.some.injEq] at e'
  obtain ⟨rfl, rfl, rfl⟩ := e'
  have hP : 0 < vf * vg := mul_pos h1 h2
  have e2 : r * r = r' * r' := by
    have : r * r * (vf * vg) = r' * r' * (vf * vg) := by rw [← h3, ← h3']
    exact mul_right_cancel₀ (ne_of_gt hP) this
  have e3 : (r - r') * (r + r') = 0 := by
    have : (r - r') * (r + r') = r * r - r' * r' := by ring
    rw [this, e2]; ring
  rcases mul_eq_zero.mp e3 with h | h
  · linarith
  · have hr' : r' = -r := by linarith
    rw [hr'] at h4'
    have q : cv * r = 0 := by
      have : cv * -r = -(cv * r) := by ring
      rw [this] at h4'
      linarith
    rcases mul_eq_zero.mp q with hcv | hr
    · have : r * r * (vf * vg) = 0 := by rw [← h3, hcv]; ring
      rcases mul_eq_zero.mp this with h5 | h5
      · have := mul_self_eq_zero.mp h5
        rw [hr', this]; ring
      · exact absurd h5 (ne_of_gt hP)
    · rw [hr', hr]; ring

/-- `|r| ≤ 1` for every represented correlation (Cauchy–Schwarz, `C19b.corr_sq_le`) -/
theorem corrIs_sq_le_one (f g : Stairs Rat) (a b : Rat) (hab : a < b) (hf : f.WF) (hg : g.WF)
    (hc : f.closed = g.closed) (p : Val × Val × Val) (r : Rat)
    (hp : corrParts f g (some a) (some b) 0 true = .ok p) (hr : CorrIs p r) : r * r ≤ 1 := by
  obtain ⟨cv, vf, vg, e, h1, h2, h3, _⟩ := hr
  rw [e] at hp
  have := corr_sq_le f g a b hab hf hg hc cv vf vg hp
  rw [h3] at this
  have hP : 0 < vf * vg := mul_pos h1 h2
  by_contra hlt
  have : 1 < r * r := not_le.mp hlt
  nlinarith

/-- **corr is unchanged by `f ↦ k·f + d` with `k > 0`** -/
theorem corr_affine_pos (f g h : Stairs Rat) (a b : Rat) (hab : a < b) (hf : f.WF) (hg : g.WF) (hh : h.WF)
    (hc : f.closed = g.closed) (hch : h.closed = g.closed) (k d : Rat) (hk : 0 < k)
    (hden : ∀ x, a ≤ x → x < b → Den h false x = (Den f false x).map (fun v => k * v + d))
    (p : Val × Val × Val) (r : Rat) (hp : corrParts f g (some a) (some b) 0 true = .ok p) (hr : CorrIs p r) :
    ∃ p', corrParts h g (some a) (some b) 0 true = .ok p' ∧ CorrIs p' r := by
  obtain ⟨cv, vf, vg, e, e'⟩ := corrParts_affine_left f g h a b hab hf hg hh hc hch k d hden
  rw [e] at hp
  injection hp with hp
  subst hp
  obtain ⟨c, u, w, hpe, h1, h2, h3, h4⟩ := hr
  simp only [Prod.mk.injEq] at hpe
  obtain ⟨rfl, rfl, rfl⟩ := hpe
  refine ⟨_, e', k * c, k * k * u, w, rfl, mul_pos (mul_pos hk hk) h1, h2, ?_, ?_⟩
  · have : k * c * (k * c) = k * k * (c * c) := by ring
    rw [this, h3]; ring
  · have : k * c * r = k * (c * r) := by ring
    rw [this]; exact mul_nonneg (le_of_lt hk) h4

/-- **corr is negated by `f ↦ k·f + d` with `k < 0`** -/
theorem corr_affine_neg (f g h : Stairs Rat) (a b : Rat) (hab : a < b) (hf : f.WF) (hg : g.WF) (hh : h.WF)
    (hc : f.closed = g.closed) (hch : h.closed = g.closed) (k d : Rat) (hk : k < 0)
    (hden : ∀ x, a ≤ x → x < b → Den h false x = (Den f false x).map (fun v => k * v + d))
    (p : Val × Val × Val) (r : Rat) (hp : corrParts f g (some a) (some b) 0 true = .ok p) (hr : CorrIs p r) :
    ∃ p', corrParts h g (some a) (some b) 0 true = .ok p' ∧ CorrIs p' (-r) := by
  obtain ⟨cv, vf, vg, e, e'⟩ := corrParts_affine_left f g h a b hab hf hg hh hc hch k d hden
  rw [e] at hp
  injection hp with hp
  subst hp
  obtain ⟨c, u, w, hpe, h1, h2, h3, h4⟩ := hr
  simp only [Prod.mk.injEq] at hpe
  obtain ⟨rfl, rfl, rfl⟩ := hpe
  refine ⟨_, e', k * c, k * k * u, w, rfl, mul_pos_of_neg_of_neg hk hk |> fun h => mul_pos h h1, h2, ?_, ?_⟩
  · have : k * c * (k * c) = k * k * (c * c) := by ring
    rw [this, h3]; ring
  · have : k * c * -r = (-k) * (c * r) := by ring
    rw [this]; exact mul_nonneg (by linarith) h4

/-- **`k = 0`: the correlation is NaN** (the variance of the constant `d` is `0`) -/
theorem corr_affine_zero (f g h : Stairs Rat) (a b : Rat) (hab : a < b) (hf : f.WF) (hg : g.WF) (hh : h.WF)
    (hc : f.closed = g.closed) (hch : h.closed = g.closed) (d : Rat)
    (hden : ∀ x, a ≤ x → x < b → Den h false x = (Den f false x).map (fun v => 0 * v + d))
    (p' : Val × Val × Val) (r : Rat) (hp' : corrParts h g (some a) (some b) 0 true = .ok p') : ¬ CorrIs p' r := by
  obtain ⟨cv, vf, vg, e, e'⟩ := corrParts_affine_left f g h a b hab hf hg hh hc hch 0 d hden
  rw [e'] at hp'
  injection hp' with hp'
  subst hp'
  rintro ⟨c, u, w, hpe, h1, _⟩
  simp only [Prod.mk.injEq] at hpe
  obtain ⟨_, h2, _⟩ := hpe
  cases vf with
  | none => cases h2
  | some v =>
    injection h2 with h2
    rw [← h2] at h1
    simp at h1

/-- **`corr(f, f)`**: all three parts are `var f` over the window; they represent `1` when `var f > 0` -/
theorem corr_self (f : Stairs Rat) (a b : Rat) (hab : a < b) (hf : f.WF) :
    corrParts f f (some a) (some b) 0 true
      = .ok (var (window f a b), var (window f a b), var (window f a b)) ∧
    ∀ v, var (window f a b) = some v → 0 < v →
      CorrIs (var (window f a b), var (window f a b), var (window f a b)) 1 := by
  have eY : mY f f a b = mX f f a b :=
    c19c_jmom_congr_den _ _ f f f f hf hf hf hf a b hab (fun x _ _ => by cases Den f false x <;> rfl)
  have eXY : mXY f f a b = mXX f f a b :=
    c19c_jmom_congr_den _ _ f f f f hf hf hf hf a b hab (fun x _ _ => by cases Den f false x <;> rfl)
  have eYY : mYY f f a b = mXX f f a b :=
    c19c_jmom_congr_den _ _ f f f f hf hf hf hf a b hab (fun x _ _ => by cases Den f false x <;> rfl)
  obtain ⟨_, _, _, hv⟩ := joint_stats f f f hf hf hf a b hab (fun x _ => x)
    (fun x _ _ => by cases Den f false x <;> rfl)
  have hv' : var (window f a b) = c19c_covOf (mL f f a b) (mXX f f a b) (mX f f a b) (mX f f a b) := hv
  constructor
  · rw [corrParts_eq_moments f f a b hab hf hf rfl, eY, eXY, eYY, ← hv']
  · intro v hv0 hpos
    rw [hv0]
    exact ⟨v, v, v, rfl, hpos, hpos, by ring, by linarith⟩

/-- `-f` denotes `(-1)·f + 0` -/
theorem den_neg_affine (f : Stairs Rat) (hf : f.WF) (st : Bool) (x : Rat) :
    Den (unop .neg f) st x = (Den f st x).map (fun v => -1 * v + 0) := by
  rw [den_unop _ f hf]
  cases Den f st x with
  | none => rfl
  | some v => exact congrArg some (by ring)

/-- **`corr(f, −f)`**: the parts are `(−var f, var f, var f)`; they represent `−1` when `var f > 0` -/
theorem corr_neg_self (f : Stairs Rat) (a b : Rat) (hab : a < b) (hf : f.WF) :
    corrParts f (unop .neg f) (some a) (some b) 0 true
      = .ok ((var (window f a b)).map (fun v => -v), var (window f a b), var (window f a b)) ∧
    ∀ v, var (window f a b) = some v → 0 < v →
      CorrIs ((var (window f a b)).map (fun v => -v), var (window f a b), var (window f a b)) (-1) := by
  obtain ⟨cv, vf, vg, e, e'⟩ := corrParts_affine_right f f (unop .neg f) a b hab hf hf (wf_unop _ f hf) rfl rfl
    (-1) 0 (fun x _ _ => den_neg_affine f hf false x)
  rw [(corr_self f a b hab hf).1] at e
  injection e with e
  simp only [Prod.mk.injEq] at e
  obtain ⟨rfl, rfl, rfl⟩ := e
  constructor
  · rw [e']
    cases var (window f a b) with
    | none => rfl
    | some v =>
      show Except.ok (some (-1 * v), some v, some (-1 * -1 * v)) = Except.ok (some (-v), some v, some v)
      have e1 : -1 * v = -v := by ring
      have e2 : -1 * -1 * v = v := by ring
      rw [e1, e2]
  · intro v hv0 hpos
    rw [hv0]
    exact ⟨-v, v, v, rfl, hpos, hpos, by ring, by linarith⟩

/-- non-vacuity (`a₁`, `a₄` from §1): `k = −2`, `k = 2`, `k = 0`; `corr(a₁, a₁)`, `corr(a₁, −a₁)` -/
example : corrParts a₁ a₄ (some 0) (some 4) 0 true = .ok (some 1, some 1, some (7/2)) ∧
    corrParts (addConst (scale a₁ (-2)) 3) a₄ (some 0) (some 4) 0 true = .ok (some (-2), some 4, some (7/2)) ∧
    corrParts (addConst (scale a₁ 2) 3) a₄ (some 0) (some 4) 0 true = .ok (some 2, some 4, some (7/2)) ∧
    corrParts (addConst (scale a₁ 0) 3) a₄ (some 0) (some 4) 0 true = .ok (some 0, some 0, some (7/2)) := by
  decide +kernel
example : corrParts a₁ a₁ (some 0) (some 4) 0 true = .ok (some 1, some 1, some 1) ∧
    corrParts a₁ (unop .neg a₁) (some 0) (some 4) 0 true = .ok (some (-1), some 1, some 1) ∧
    var (window a₁ 0 4) = some 1 := by decide +kernel
/-- `corr(a₁, a₄)² = 2/7`: the parts `(1, 1, 7/2)` are not a rational correlation, but e.g. `(2, 4, 1)` is `1` -/
example : CorrIs (some 2, some 4, some 1) 1 := ⟨2, 4, 1, rfl, by decide +kernel, by decide +kernel,
  by decide +kernel, by decide +kernel⟩

/-! ## 3. lag -/

/-- a degenerate window is a `ValueError` (raised by `clip`) -/
theorem cov_degenerate_window (f g : Stairs Rat) (a b : Rat) (hab : ¬ a < b) (hf : f.WF) (hg : g.WF)
    (hc : f.closed = g.closed) : cov f g (some a) (some b) 0 true = .error .valueError := by
  obtain ⟨f1, g1, hp, hf1, hg1, hcf1, hcg1, _, _⟩ :=
    covPrep_common_domain f g (some a) (some b) g.closed hf hg hc rfl
  have herr : ∀ X : Stairs Rat, clipW X (some a) (some b) = .error .valueError :=
    fun X => clip_error X _ _ (by simpa [boundsOk] using hab)
  unfold cov
  rw [hp]
  simp only [bind, Except.bind]
  rw [binop_mul_ok f1 g1 g.closed hcf1 hcg1]
  simp only
  rw [herr]

/-- **lag, `clip = 'pre'`, symmetric form**: `cov(f, g, lag ℓ)` over `(lo, hi)` is `cov(g, f, lag −ℓ)` over
`(lo + ℓ, hi − ℓ)` (`f` is seen on `[lo, hi − ℓ)`, `g` on `[lo + ℓ, hi)` by both sides) -/
theorem cov_lag_swap_pre (f g : Stairs Rat) (lo hi : Option Rat) (l : Rat) (hf : f.WF) (hg : g.WF)
    (hc : f.closed = g.closed) :
    cov f g lo hi l true = cov g f (lo.map (· + l)) (hi.map (· - l)) (-l) true := by
  by_cases hl : l = 0
  · subst hl
    have e1 : lo.map (· + (0 : Rat)) = lo := by cases lo <;> simp
    have e2 : hi.map (· - (0 : Rat)) = hi := by cases hi <;> simp
    rw [e1, e2, neg_zero]
    exact cov_symm f g lo hi hf hg hc
  · rw [cov_lag_pre f g lo hi l hl, cov_lag_pre g f _ _ (-l) (neg_ne_zero.mpr hl)]
    have e1 : (hi.map (· - l)).map (· - -l) = hi := by cases hi <;> simp
    rw [e1, neg_neg, cov_symm g (shift f l) _ _ hg (wf_shift f l hf) (by rw [closed_shift]; exact hc.symm)]
    have key := C20c.cov_shift f (shift g (-l)) l lo (hi.map (· - l)) 0 true
    have e2 : C20c.shiftB (hi.map (· - l)) l = hi := by cases hi <;> simp [C20c.shiftB]
    rw [shift_shift, neg_add_cancel, shift_zero, e2] at key
    exact key.symm

/-- **lag, `clip = 'post'`, symmetric form**: over `(lo + ℓ, hi + ℓ)` -/
theorem cov_lag_swap_post (f g : Stairs Rat) (lo hi : Option Rat) (l : Rat) (hf : f.WF) (hg : g.WF)
    (hc : f.closed = g.closed) :
    cov f g lo hi l false = cov g f (lo.map (· + l)) (hi.map (· + l)) (-l) false := by
  by_cases hl : l = 0
  · subst hl
    have e1 : lo.map (· + (0 : Rat)) = lo := by cases lo <;> simp
    have e2 : hi.map (· + (0 : Rat)) = hi := by cases hi <;> simp
    rw [e1, e2, neg_zero, ← cov_nolag_mode, ← cov_nolag_mode]
    exact cov_symm f g lo hi hf hg hc
  · rw [cov_lag_post f g lo hi l hl, cov_lag_post g f _ _ (-l) (neg_ne_zero.mpr hl), neg_neg,
      ← cov_nolag_mode g, cov_symm g (shift f l) _ _ hg (wf_shift f l hf) (by rw [closed_shift]; exact hc.symm),
      cov_nolag_mode]
    have key := C20c.cov_shift f (shift g (-l)) l lo hi 0 false
    rw [shift_shift, neg_add_cancel, shift_zero] at key
    exact key.symm

/-- for a bounded window with `a < b − ℓ` the lagged covariance is the closed form of `(f, g.shift(−ℓ))` over
`[a, b − ℓ)`; when `b − ℓ ≤ a` it is a `ValueError` -/
theorem cov_lag_pre_moments (f g : Stairs Rat) (a b l : Rat) (hl : l ≠ 0) (hf : f.WF) (hg : g.WF)
    (hc : f.closed = g.closed) :
    (a < b - l → cov f g (some a) (some b) l true
      = .ok (c19c_covOf (mL f (shift g (-l)) a (b - l)) (mXY f (shift g (-l)) a (b - l))
          (mX f (shift g (-l)) a (b - l)) (mY f (shift g (-l)) a (b - l)))) ∧
    (¬ a < b - l → cov f g (some a) (some b) l true = .error .valueError) := by
  rw [cov_lag_pre f g _ _ l hl]
  exact ⟨fun h => cov_eq_moments f (shift g (-l)) a (b - l) h hf (wf_shift g _ hg) hc,
    fun h => cov_degenerate_window f (shift g (-l)) a (b - l) h hf (wf_shift g _ hg) hc⟩

/-- non-vacuity: lag `1` over `(0, 4)` against lag `−1` over `(1, 3)` (pre) resp. `(1, 5)` (post) -/
example : cov a₁ a₄ (some 0) (some 4) 1 true = .ok (some (-10/9)) ∧
    cov a₄ a₁ (some 1) (some 3) (-1) true = .ok (some (-10/9)) ∧
    cov a₁ a₄ (some 0) (some 4) 1 false = .ok (some (-5/4)) ∧
    cov a₄ a₁ (some 1) (some 5) (-1) false = .ok (some (-5/4)) ∧
    cov a₁ a₄ (some 0) (some 4) 4 true = .error .valueError := by decide +kernel

/-- **refutation of the naive symmetric statement** `cov(f, g, lag ℓ) = cov(g, f, lag −ℓ)` over the same window,
for either clip mode -/
theorem cov_lag_swap_naive_false :
    a₁.WF ∧ a₄.WF ∧ a₁.closed = a₄.closed ∧
    cov a₁ a₄ (some 0) (some 4) 1 true = .ok (some (-10/9)) ∧
    cov a₄ a₁ (some 0) (some 4) (-1) true = .ok (some (-5/4)) ∧
    cov a₁ a₄ (some 0) (some 4) 1 false = .ok (some (-5/4)) ∧
    cov a₄ a₁ (some 0) (some 4) (-1) false = .ok (some (-10/9)) := by decide +kernel

/-! ## 4. variance of a sum; polarisation -/

/-- the variance of anything that denotes `f + g` resp. `f − g` on the window, in moments of `(f, g)` -/
theorem var_sum_moments (f g s : Stairs Rat) (a b : Rat) (hab : a < b) (hf : f.WF) (hg : g.WF) (hs : s.WF) :
    ((∀ x, a ≤ x → x < b → Den s false x = vadd (Den f false x) (Den g false x)) →
      var (window s a b) = c19c_covOf (mL f g a b) (1 * mXX f g a b + 2 * mXY f g a b + 1 * mYY f g a b)
        (mX f g a b + mY f g a b) (mX f g a b + mY f g a b)) ∧
    ((∀ x, a ≤ x → x < b → Den s false x = vsub (Den f false x) (Den g false x)) →
      var (window s a b) = c19c_covOf (mL f g a b) (1 * mXX f g a b + (-2) * mXY f g a b + 1 * mYY f g a b)
        (mX f g a b - mY f g a b) (mX f g a b - mY f g a b)) := by
  constructor
  · intro hden
    obtain ⟨_, _, _, hv⟩ := joint_stats s f g hs hf hg a b hab (fun x y => x + y) (fun x h1 h2 => by
      rw [hden x h1 h2]; cases Den f false x <;> cases Den g false x <;> rfl)
    have e1 : c19c_jmom (fun x y => x + y) f g a b = mX f g a b + mY f g a b :=
      c19c_jmom_add (fun x _ => x) (fun _ y => y) f g hf hg a b hab
    have e2 : c19c_jmom (fun x y => (x + y) * (x + y)) f g a b
        = 1 * mXX f g a b + 2 * mXY f g a b + 1 * mYY f g a b :=
      (c19c_jmom_congr _ (fun x y => 1 * (x * x) + 2 * (x * y) + 1 * (y * y)) f g a b
        (fun x y => by ring)).trans
      (c19c_jmom_lin3 1 2 1 (fun x _ => x * x) (fun x y => x * y) (fun _ y => y * y) f g hf hg a b hab)
    rw [hv, e1, e2]
  · intro hden
    obtain ⟨_, _, _, hv⟩ := joint_stats s f g hs hf hg a b hab (fun x y => x - y) (fun x h1 h2 => by
      rw [hden x h1 h2]; cases Den f false x <;> cases Den g false x <;> rfl)
    have e1 : c19c_jmom (fun x y => x - y) f g a b = mX f g a b - mY f g a b := by
      have := (c19c_jmom_congr (fun x y => x - y) (fun x y => 1 * x + (-1) * y) f g a b
        (fun x y => by ring)).trans
        (c19c_jmom_lin2 1 (-1) (fun x _ => x) (fun _ y => y) f g hf hg a b hab)
      rw [this]; unfold mX mY; ring
    have e2 : c19c_jmom (fun x y => (x - y) * (x - y)) f g a b
        = 1 * mXX f g a b + (-2) * mXY f g a b + 1 * mYY f g a b :=
      (c19c_jmom_congr _ (fun x y => 1 * (x * x) + (-2) * (x * y) + 1 * (y * y)) f g a b
        (fun x y => by ring)).trans
      (c19c_jmom_lin3 1 (-2) 1 (fun x _ => x * x) (fun x y => x * y) (fun _ y => y * y) f g hf hg a b hab)
    rw [hv, e1, e2]

/-- **`var(f + g) = var f₁ + var g₁ + 2·cov(f, g)`** with the variances of `corrParts` (operands restricted to the
common domain of definition) — no hypothesis on the domains: `f + g` lives on the common domain anyway -/
theorem var_add_parts (f g s : Stairs Rat) (a b : Rat) (hab : a < b) (hf : f.WF) (hg : g.WF) (hs : s.WF)
    (hc : f.closed = g.closed)
    (hden : ∀ x, a ≤ x → x < b → Den s false x = vadd (Den f false x) (Den g false x)) :
    ∃ cv vf vg, corrParts f g (some a) (some b) 0 true = .ok (cv, vf, vg) ∧
      var (window s a b) = vadd (vadd vf vg) (vmul (some 2) cv) := by
  refine ⟨_, _, _, corrParts_eq_moments f g a b hab hf hg hc, ?_⟩
  rw [(var_sum_moments f g s a b hab hf hg hs).1 hden, c19c_varOf_add]

/-- **`var(f − g) = var f₁ + var g₁ − 2·cov(f, g)`** -/
theorem var_sub_parts (f g s : Stairs Rat) (a b : Rat) (hab : a < b) (hf : f.WF) (hg : g.WF) (hs : s.WF)
    (hc : f.closed = g.closed)
    (hden : ∀ x, a ≤ x → x < b → Den s false x = vsub (Den f false x) (Den g false x)) :
    ∃ cv vf vg, corrParts f g (some a) (some b) 0 true = .ok (cv, vf, vg) ∧
      var (window s a b) = vsub (vadd vf vg) (vmul (some 2) cv) := by
  refine ⟨_, _, _, corrParts_eq_moments f g a b hab hf hg hc, ?_⟩
  rw [(var_sum_moments f g s a b hab hf hg hs).2 hden, c19c_varOf_sub]

/-- **polarisation**: `4·cov(f, g) = var(f + g) − var(f − g)` (no hypothesis on the domains) -/
theorem cov_polarisation (f g s t : Stairs Rat) (a b : Rat) (hab : a < b) (hf : f.WF) (hg : g.WF) (hs : s.WF)
    (ht : t.WF) (hc : f.closed = g.closed)
    (hs' : ∀ x, a ≤ x → x < b → Den s false x = vadd (Den f false x) (Den g false x))
    (ht' : ∀ x, a ≤ x → x < b → Den t false x = vsub (Den f false x) (Den g false x)) :
    ∃ cv, cov f g (some a) (some b) 0 true = .ok cv ∧
      vmul (some 4) cv = vsub (var (window s a b)) (var (window t a b)) ∧
      cv = vdiv (vsub (var (window s a b)) (var (window t a b))) (some 4) := by
  refine ⟨_, cov_eq_moments f g a b hab hf hg hc, ?_⟩
  have e : vmul (some 4) (c19c_covOf (mL f g a b) (mXY f g a b) (mX f g a b) (mY f g a b))
      = vsub (var (window s a b)) (var (window t a b)) := by
    rw [(var_sum_moments f g s a b hab hf hg hs).1 hs', (var_sum_moments f g t a b hab hf hg ht).2 ht',
      c19c_polar]
  refine ⟨e, ?_⟩
  rw [← e]
  cases c19c_covOf (mL f g a b) (mXY f g a b) (mX f g a b) (mY f g a b) with
  | none => rfl
  | some c =>
    show some c = vdiv (some (4 * c)) (some 4)
    simp only [vdiv]
    rw [if_neg (by norm_num)]
    congr 1
    field_simp

/-- if `f` and `g` are defined on the same part of the window, the variances in `corrParts` are the plain window
variances -/
theorem corrParts_same_domain (f g : Stairs Rat) (a b : Rat) (hab : a < b) (hf : f.WF) (hg : g.WF)
    (hc : f.closed = g.closed)
    (hdom : ∀ x, a ≤ x → x < b → (Den f false x = none ↔ Den g false x = none)) :
    ∃ cv, cov f g (some a) (some b) 0 true = .ok cv ∧
      corrParts f g (some a) (some b) 0 true = .ok (cv, var (window f a b), var (window g a b)) := by
  obtain ⟨_, _, _, vF⟩ := joint_stats f f g hf hf hg a b hab (fun x _ => x) (fun x h1 h2 => by
    cases hA : Den f false x with
    | none => cases Den g false x <;> rfl
    | some u =>
      cases hG : Den g false x with
      | none => have := (hdom x h1 h2).mpr hG; rw [hA] at this; cases this
      | some v => rfl)
  obtain ⟨_, _, _, vG⟩ := joint_stats g f g hg hf hg a b hab (fun _ y => y) (fun x h1 h2 => by
    cases hA : Den f false x with
    | none => rw [(hdom x h1 h2).mp hA]; rfl
    | some u => cases Den g false x <;> rfl)
  refine ⟨_, cov_eq_moments f g a b hab hf hg hc, ?_⟩
  rw [corrParts_eq_moments f g a b hab hf hg hc, vF, vG]
  rfl

/-- **`var(f + g) = var f + var g + 2·cov(f, g)`** and **`var(f − g) = var f + var g − 2·cov(f, g)`** over a bounded
window, for the library's `f + g`, `f − g`, when `f` and `g` are defined on the same part of the window -/
theorem var_add_window (f g s t : Stairs Rat) (a b : Rat) (hab : a < b) (hf : f.WF) (hg : g.WF)
    (hc : f.closed = g.closed) (hs : binop .add f g = .ok s) (ht : binop .sub f g = .ok t)
    (hdom : ∀ x, a ≤ x → x < b → (Den f false x = none ↔ Den g false x = none)) :
    ∃ cv, cov f g (some a) (some b) 0 true = .ok cv ∧
      var (window s a b) = vadd (vadd (var (window f a b)) (var (window g a b))) (vmul (some 2) cv) ∧
      var (window t a b) = vsub (vadd (var (window f a b)) (var (window g a b))) (vmul (some 2) cv) := by
  obtain ⟨cs, _, dens⟩ := combineChecked_ok vadd f g s hf hg hs
  obtain ⟨ct, _, dent⟩ := combineChecked_ok vsub f g t hf hg ht
  obtain ⟨cv, hcv, hparts⟩ := corrParts_same_domain f g a b hab hf hg hc hdom
  obtain ⟨cv1, vf1, vg1, p1, e1⟩ := var_add_parts f g s a b hab hf hg cs.1 hc (fun x _ _ => dens false x)
  obtain ⟨cv2, vf2, vg2, p2, e2⟩ := var_sub_parts f g t a b hab hf hg ct.1 hc (fun x _ _ => dent false x)
  rw [hparts] at p1 p2
  injection p1 with p1
  injection p2 with p2
  simp only [Prod.mk.injEq] at p1 p2
  obtain ⟨rfl, rfl, rfl⟩ := p1
  obtain ⟨rfl, rfl, rfl⟩ := p2
  exact ⟨_, hcv, e1, e2⟩

/-- non-vacuity: `a₁`, `a₂` (same domain `[0, 4)`): `3/4 = 1 + 3/4 + 2·(−1/2)`, `11/4 = 1 + 3/4 − 2·(−1/2)` -/
example : binop .add a₁ a₂ = .ok (combine vadd a₁ a₂ .left) ∧ binop .sub a₁ a₂ = .ok (combine vsub a₁ a₂ .left) ∧
    var (window a₁ 0 4) = some 1 ∧ var (window a₂ 0 4) = some (3/4) ∧
    cov a₁ a₂ (some 0) (some 4) 0 true = .ok (some (-1/2)) ∧
    var (window (combine vadd a₁ a₂ .left) 0 4) = some (3/4) ∧
    var (window (combine vsub a₁ a₂ .left) 0 4) = some (11/4) := by decide +kernel

/-- **refutation without the common-domain hypothesis** (`a₃` is undefined on `[0, 1)`): `var(a₁ + a₃) = 8/9` but
`var a₁ + var a₃ + 2·cov = 1 + 8/9 − 8/9 = 1`; with the variances of `corrParts` (`8/9`, `8/9`) the identity
holds (`var_add_parts`), and so does polarisation: `(8/9 − 8/3)/4 = −4/9` -/
theorem var_add_needs_domain :
    var (window a₁ 0 4) = some 1 ∧ var (window a₃ 0 4) = some (8/9) ∧
    corrParts a₁ a₃ (some 0) (some 4) 0 true = .ok (some (-4/9), some (8/9), some (8/9)) ∧
    var (window (combine vadd a₁ a₃ .left) 0 4) = some (8/9) ∧
    var (window (combine vsub a₁ a₃ .left) 0 4) = some (8/3) ∧
    var (window (combine vadd a₁ a₃ .left) 0 4)
      ≠ vadd (vadd (var (window a₁ 0 4)) (var (window a₃ 0 4))) (vmul (some 2) (some (-4/9))) := by
  decide +kernel

/-! ## 5. undefined regions -/

/-- **object level**: `covPrep` — and with it `cov` and `corrParts`, for every window — produces the very same
masked operands when `f` is replaced by any `f'` that agrees with `f` wherever `g` is defined -/
theorem covPrep_congr_left (f f' g : Stairs Rat) (lo hi : Option Rat) (hf : f.WF) (hf' : f'.WF) (hg : g.WF)
    (hc : f.closed = g.closed) (hc' : f'.closed = g.closed)
    (h : ∀ x, Den g false x ≠ none → Den f' false x = Den f false x) :
    covPrep f' g lo hi 0 true = covPrep f g lo hi 0 true := by
  obtain ⟨f1, g1, hp, hf1, hg1, hcf1, hcg1, hdf, hdg⟩ := covPrep_common_domain f g lo hi g.closed hf hg hc rfl
  obtain ⟨f1', g1', hp', hf1', hg1', hcf1', hcg1', hdf', hdg'⟩ :=
    covPrep_common_domain f' g lo hi g.closed hf' hg hc' rfl
  have c1 := covPrep_canonical f g lo hi hf hg _ hp
  have c2 := covPrep_canonical f' g lo hi hf' hg _ hp'
  have e1 : f1' = f1 := by
    apply canonical_ext f1' f1 c2.1 c1.1 (by rw [hcf1', hcf1])
    intro x
    rw [hdf', hdf, c19c_both_fst, c19c_both_fst]
    cases hG : Den g false x with
    | none => cases Den f' false x <;> cases Den f false x <;> rfl
    | some v => rw [h x (by rw [hG]; exact Option.some_ne_none v)]
  have e2 : g1' = g1 := by
    apply canonical_ext g1' g1 c2.2 c1.2 (by rw [hcg1', hcg1])
    intro x
    rw [hdg', hdg, c19c_both_snd, c19c_both_snd]
    cases hG : Den g false x with
    | none => cases Den f' false x <;> cases Den f false x <;> rfl
    | some v => rw [h x (by rw [hG]; exact Option.some_ne_none v)]
  rw [hp', hp, e1, e2]

theorem cov_congr_left (f f' g : Stairs Rat) (lo hi : Option Rat) (hf : f.WF) (hf' : f'.WF) (hg : g.WF)
    (hc : f.closed = g.closed) (hc' : f'.closed = g.closed)
    (h : ∀ x, Den g false x ≠ none → Den f' false x = Den f false x) :
    cov f' g lo hi 0 true = cov f g lo hi 0 true ∧ corrParts f' g lo hi 0 true = corrParts f g lo hi 0 true := by
  have := covPrep_congr_left f f' g lo hi hf hf' hg hc hc' h
  constructor
  · unfold cov; rw [this]
  · unfold corrParts; rw [this]

/-- **`f.mask(isna g)`** in place of `f` changes neither `cov` nor `corrParts` (nor the masked operands), for any
window -/
theorem cov_mask_isna (f g : Stairs Rat) (lo hi : Option Rat) (hf : f.WF) (hg : g.WF) (hc : f.closed = g.closed) :
    ∃ f', mask f (unop .isna g) = .ok f' ∧ f'.WF ∧ f'.closed = g.closed ∧
      (∀ st x, Den f' st x = if Den g st x = none then none else Den f st x) ∧
      covPrep f' g lo hi 0 true = covPrep f g lo hi 0 true ∧
      cov f' g lo hi 0 true = cov f g lo hi 0 true ∧
      corrParts f' g lo hi 0 true = corrParts f g lo hi 0 true := by
  have hn : (unop .isna g).WF := wf_unop _ g hg
  obtain ⟨hm, hs⟩ := sideOf_same f (unop .isna g) g.closed hc rfl
  have hmask : mask f (unop .isna g) = .ok (combine maskOp f (unop .isna g) g.closed) := by
    unfold mask; rw [combineChecked_total _ _ _ hm, hs]
  have hw : (combine maskOp f (unop .isna g) g.closed).WF := wf_combine _ _ _ _ hf hn
  have hden : ∀ st x, Den (combine maskOp f (unop .isna g) g.closed) st x
      = if Den g st x = none then none else Den f st x := by
    intro st x
    rw [den_combine _ _ _ _ hf hn, den_unop _ g hg]
    cases Den g st x <;> simp [maskOp, UnOp.eval, b2r]
  have hagree : ∀ x, Den g false x ≠ none →
      Den (combine maskOp f (unop .isna g) g.closed) false x = Den f false x := by
    intro x hx
    rw [hden, if_neg hx]
  obtain ⟨e1, e2⟩ := cov_congr_left f _ g lo hi hf hw hg hc rfl hagree
  exact ⟨_, hmask, hw, rfl, hden, covPrep_congr_left f _ g lo hi hf hw hg hc rfl hagree, e1, e2⟩

theorem corrParts_mask_isna (f g : Stairs Rat) (lo hi : Option Rat) (hf : f.WF) (hg : g.WF)
    (hc : f.closed = g.closed) (f' : Stairs Rat) (hm : mask f (unop .isna g) = .ok f') :
    cov f' g lo hi 0 true = cov f g lo hi 0 true ∧ corrParts f' g lo hi 0 true = corrParts f g lo hi 0 true := by
  obtain ⟨f'', hm', _, _, _, _, e1, e2⟩ := cov_mask_isna f g lo hi hf hg hc
  rw [hm] at hm'
  injection hm' with hm'
  subst hm'
  exact ⟨e1, e2⟩

/-- `(f, g)` and `(f', g')` have the same common domain of definition inside `[a, b)` and agree on it -/
def SameOnCommon (f g f' g' : Stairs Rat) (a b : Rat) : Prop :=
  ∀ x, a ≤ x → x < b →
    ((Den f false x ≠ none ∧ Den g false x ≠ none) ↔ (Den f' false x ≠ none ∧ Den g' false x ≠ none)) ∧
    (Den f false x ≠ none → Den g false x ≠ none → Den f' false x = Den f false x ∧ Den g' false x = Den g false x)

theorem c19c_vlift2_common (φ : Rat → Rat → Rat) (F G F' G' : Val)
    (hiff : (F ≠ none ∧ G ≠ none) ↔ (F' ≠ none ∧ G' ≠ none))
    (heq : F ≠ none → G ≠ none → F' = F ∧ G' = G) : vlift2 φ F G = vlift2 φ F' G' := by
  cases F with
  | none =>
    cases F' with
    | none => cases G <;> cases G' <;> rfl
    | some u' =>
      cases G' with
      | none => cases G <;> rfl
      | some v' => exact absurd rfl (hiff.mpr ⟨Option.some_ne_none _, Option.some_ne_none _⟩).1
  | some u =>
    cases G with
    | none =>
      cases F' with
      | none => cases G' <;> rfl
      | some u' =>
        cases G' with
        | none => rfl
        | some v' => exact absurd rfl (hiff.mpr ⟨Option.some_ne_none _, Option.some_ne_none _⟩).2
    | some v =>
      obtain ⟨e1, e2⟩ := heq (Option.some_ne_none _) (Option.some_ne_none _)
      rw [e1, e2]

/-- every joint moment depends only on the restriction of `(f, g)` to the common defined set inside the window -/
theorem jmom_congr_common (φ : Rat → Rat → Rat) (f g f' g' : Stairs Rat) (a b : Rat) (hab : a < b) (hf : f.WF)
    (hg : g.WF) (hf' : f'.WF) (hg' : g'.WF) (h : SameOnCommon f g f' g' a b) :
    c19c_jmom φ f g a b = c19c_jmom φ f' g' a b :=
  c19c_jmom_congr_den φ φ f g f' g' hf hg hf' hg' a b hab (fun x h1 h2 =>
    c19c_vlift2_common φ _ _ _ _ (h x h1 h2).1 (h x h1 h2).2)

/-- **value level**: `cov` and `corrParts` over `[a, b)` only depend on the restriction of `f` and `g` to the
common defined set inside the window -/
theorem cov_congr_window (f g f' g' : Stairs Rat) (a b : Rat) (hab : a < b) (hf : f.WF) (hg : g.WF) (hf' : f'.WF)
    (hg' : g'.WF) (hc : f.closed = g.closed) (hc' : f'.closed = g'.closed) (h : SameOnCommon f g f' g' a b) :
    cov f g (some a) (some b) 0 true = cov f' g' (some a) (some b) 0 true ∧
    corrParts f g (some a) (some b) 0 true = corrParts f' g' (some a) (some b) 0 true := by
  have e : ∀ φ, c19c_jmom φ f g a b = c19c_jmom φ f' g' a b :=
    fun φ => jmom_congr_common φ f g f' g' a b hab hf hg hf' hg' h
  constructor
  · rw [cov_eq_moments f g a b hab hf hg hc, cov_eq_moments f' g' a b hab hf' hg' hc']
    unfold mL mX mY mXY
    rw [e, e, e, e]
  · rw [corrParts_eq_moments f g a b hab hf hg hc, corrParts_eq_moments f' g' a b hab hf' hg' hc']
    unfold mL mX mY mXY mXX mYY
    rw [e (fun _ _ => 1), e (fun x _ => x), e (fun _ y => y), e (fun x y => x * y), e (fun x _ => x * x),
      e (fun _ y => y * y)]

/-- non-vacuity: `C19.f₀` (defined on `[0, 6)`) masked where `C19.g₀` (undefined on `[4, 5)`) is undefined -/
example : mask C19.f₀ (unop .isna C19.g₀) = .ok ⟨none, [(0, some 1), (2, some 3), (4, none), (5, some 3), (6, none)], .left⟩ ∧
    cov ⟨none, [(0, some 1), (2, some 3), (4, none), (5, some 3), (6, none)], .left⟩ C19.g₀ (some 0) (some 8) 0 true
      = .ok (some (8/25)) ∧
    cov C19.f₀ C19.g₀ (some 0) (some 8) 0 true = .ok (some (8/25)) := by decide +kernel
/-- value level: `a₅` agrees with `a₁` on `[0, 4)` but differs outside the window — and is represented differently -/
def a₅ : Stairs Rat := ⟨some 9, [(0, some 1), (1, some 1), (2, some 3), (4, some 7)], .left⟩
example : cov a₅ a₄ (some 0) (some 4) 0 true = cov a₁ a₄ (some 0) (some 4) 0 true ∧
    corrParts a₅ a₄ (some 0) (some 4) 0 true = corrParts a₁ a₄ (some 0) (some 4) 0 true ∧
    cov a₅ a₄ (some (-1)) (some 5) 0 true ≠ cov a₁ a₄ (some (-1)) (some 5) 0 true := by decide +kernel

/-- in particular `cov` / `corrParts` over `[a, b)` only depend on the two *functions* on `[a, b)` (representation
independence, and independence of everything outside the window) -/
theorem sameOnCommon_of_agree (f g f' g' : Stairs Rat) (a b : Rat)
    (h1 : ∀ x, a ≤ x → x < b → Den f' false x = Den f false x)
    (h2 : ∀ x, a ≤ x → x < b → Den g' false x = Den g false x) : SameOnCommon f g f' g' a b := by
  intro x ha hb
  rw [h1 x ha hb, h2 x ha hb]
  exact ⟨Iff.rfl, fun _ _ => ⟨rfl, rfl⟩⟩

/-- the hypothesis of `cov_congr_window` holds for `a₅`, `a₁` above -/
example : SameOnCommon a₅ a₄ a₁ a₄ 0 4 := by
  apply sameOnCommon_of_agree
  · intro x h0 h4
    simp only [Den, a₁, a₅, lim_cons, lim_nil, reached]
    by_cases h1 : x < 1 <;> by_cases h2 : x < 2 <;> simp [h4, h1, h2, not_lt.mpr h0]
    linarith
  · intro x _ _; rfl

/-- non-vacuity of `cov_const_right`: `a₆` is `7` on `[−1, 9)` (not elsewhere) -/
def a₆ : Stairs Rat := ⟨some 0, [(-1, some 7), (9, some 2)], .left⟩
example : ∀ x : Rat, 0 ≤ x → x < 8 → Den a₆ false x = some 7 := by
  intro x h0 h8
  simp only [Den, a₆, lim_cons, lim_nil, reached]
  have h1 : ¬ x < -1 := by intro h; linarith
  have h2 : x < 9 := by linarith
  simp [h1, h2]
example : a₆.WF ∧ cov C19.f₀ a₆ (some 0) (some 8) 0 true = .ok (some 0) ∧
    cov C19.f₀ a₆ (some (-3)) (some 12) 0 true = .ok (some 0) ∧
    cov a₄ a₆ (some (-3)) (some 12) 0 true = .ok (some (239/225)) := by decide +kernel

/-- additivity in the second argument (from `cov_add_left_binop` and `C19b.cov_symm`) -/
theorem cov_add_right_binop (f h s g : Stairs Rat) (a b : Rat) (hab : a < b) (hf : f.WF) (hh : h.WF) (hg : g.WF)
    (hcf : f.closed = g.closed) (hch : h.closed = g.closed) (hs : binop .add f h = .ok s)
    (hdom : ∀ x, a ≤ x → x < b → Den g false x ≠ none → (Den f false x = none ↔ Den h false x = none)) :
    ∃ c₁ c₂, cov g f (some a) (some b) 0 true = .ok c₁ ∧ cov g h (some a) (some b) 0 true = .ok c₂ ∧
      cov g s (some a) (some b) 0 true = .ok (vadd c₁ c₂) := by
  obtain ⟨c₁, c₂, e1, e2, e3⟩ := cov_add_left_binop f h s g a b hab hf hh hg hcf hch hs hdom
  obtain ⟨hc, hcl, _⟩ := combineChecked_ok vadd f h s hf hh hs
  have hcs : s.closed = g.closed := by rw [hcl, (sideOf_same f h g.closed hcf hch).2]
  refine ⟨c₁, c₂, ?_, ?_, ?_⟩
  · rw [← cov_symm f g _ _ hf hg hcf]; exact e1
  · rw [← cov_symm h g _ _ hh hg hch]; exact e2
  · rw [← cov_symm s g _ _ hc.1 hg hcs]; exact e3

end SC.Props.C19c
