import SCModel.Lemmas.Relabel
import SCModel.Model.Views
import SCModel.Model.Forms
/-!
# C17b — re-labelling the domain commutes with the *remaining* operations

`Props/C17` proves the core (`combine`, `binop`, `map`, `clip`, evaluation, integral, mean).  This file
extends the statement to every other operation of the model:

1. structural operations (`ffill`, `bfill`, `fillna`, `unop`, `mask`, `where`, tuple forms, `layer`,
   `aggregate`, `identical`, `bool`, `number_of_steps`, `closed`) – object equalities under any
   order-preserving `φ`;
2. `shift` / `diff` under an affine `φ` (the shift distance scales by the unit);
3. the value distribution under an affine `φ`, `0 < u`: `value_sums` lengths scale, `shares`, `var`, `ecdf`,
   percentiles, `mode` are invariant; `hist` (bins are on the value axis): probability and density invariant,
   sum and frequency scaled; windowed `values_in_range` / `min` / `max` are order-only;
4. `cov` / `corr` parts invariant (window bounds mapped, lag scaled);
5. slicing: `slice`, slicer extremes, `resample`, `rolling_mean`;
6. non-vacuity examples with `affine 100 (1/4)`.
-/
set_option linter.unusedSectionVars false
namespace SC.Props.C17b
open SC SC.Stairs SC.Props.C17 SC.Relabel
variable {P Q : Type} [LinearOrder P] [LinearOrder Q]

/-! ## 1. structural operations -/

theorem closed_mapPoints (φ : P → Q) (f : Stairs P) : (mapPoints φ f).closed = f.closed := rfl
theorem init_mapPoints (φ : P → Q) (f : Stairs P) : (mapPoints φ f).init = f.init := rfl
theorem numberOfSteps_mapPoints (φ : P → Q) (f : Stairs P) :
    (mapPoints φ f).numberOfSteps = f.numberOfSteps := by simp [numberOfSteps, mapPoints]
theorem idx_mapPoints (φ : P → Q) (f : Stairs P) : (mapPoints φ f).idx = f.idx.map φ := by
  simp [idx, mapPoints, List.map_map, Function.comp_def]
theorem toBool_mapPoints (φ : P → Q) (f : Stairs P) : (mapPoints φ f).toBool = f.toBool := by
  unfold Stairs.toBool mapPoints; simp

theorem mapPoints_injective (φ : P → Q) (hφ : OrderPreserving φ) : Function.Injective (mapPoints φ) := by
  intro f g h
  obtain ⟨fi, fs, fc⟩ := f
  obtain ⟨gi, gs, gc⟩ := g
  simp only [mapPoints, Stairs.mk.injEq] at h ⊢
  refine ⟨h.1, ?_, h.2.2⟩
  have hinj : Function.Injective (fun pv : P × Val => (φ pv.1, pv.2)) := by
    intro a b hab
    simp only [Prod.mk.injEq] at hab
    exact Prod.ext (op_injective φ hφ hab.1) hab.2
  exact List.map_injective_iff.mpr hinj h.2.1

/-- `identical` gives the same answer in both domains -/
theorem identical_mapPoints (φ : P → Q) (hφ : OrderPreserving φ) (f g : Stairs P) :
    identical (mapPoints φ f) (mapPoints φ g) = identical f g := by
  unfold identical
  congr 1
  apply decide_eq_decide.mpr
  have hinj : Function.Injective (fun pv : P × Val => (φ pv.1, pv.2)) := by
    intro a b hab
    simp only [Prod.mk.injEq] at hab
    exact Prod.ext (op_injective φ hφ hab.1) hab.2
  exact ⟨fun h => List.map_injective_iff.mpr hinj h, fun h => by simp only [mapPoints]; rw [h]⟩

theorem ffill_mapPoints (φ : P → Q) (f : Stairs P) : ffill (mapPoints φ f) = mapPoints φ (ffill f) := by
  unfold ffill
  rw [← canon_mapPoints]
  simp only [mapPoints]
  rw [ffillSteps_rel]

theorem bfill_mapPoints (φ : P → Q) (f : Stairs P) : bfill (mapPoints φ f) = mapPoints φ (bfill f) := by
  unfold bfill
  rw [← canon_mapPoints]
  simp only [mapPoints]
  rw [bfillSteps_rel, firstVal_rel]

theorem unop_mapPoints (φ : P → Q) (u : UnOp) (f : Stairs P) :
    unop u (mapPoints φ f) = mapPoints φ (unop u f) := map_mapPoints φ u.eval f

theorem fillnaScalar_mapPoints (φ : P → Q) (f : Stairs P) (v : Val) :
    fillnaScalar (mapPoints φ f) v = mapPoints φ (fillnaScalar f v) := map_mapPoints φ _ f

theorem mask_mapPoints (φ : P → Q) (hφ : OrderPreserving φ) (f g : Stairs P) :
    mask (mapPoints φ f) (mapPoints φ g) = (mask f g).map (mapPoints φ) :=
  combineChecked_mapPoints φ hφ maskOp f g

theorem where_mapPoints (φ : P → Q) (hφ : OrderPreserving φ) (f g : Stairs P) :
    where_ (mapPoints φ f) (mapPoints φ g) = (where_ f g).map (mapPoints φ) :=
  combineChecked_mapPoints φ hφ whereOp f g

theorem fillnaStairs_mapPoints (φ : P → Q) (hφ : OrderPreserving φ) (f g : Stairs P) :
    fillnaStairs (mapPoints φ f) (mapPoints φ g) = (fillnaStairs f g).map (mapPoints φ) :=
  combineChecked_mapPoints φ hφ fillOp f g

theorem const_mapPoints (φ : P → Q) (c : Val) (cl : Side) : mapPoints φ (const c cl : Stairs P) = const c cl := rfl

/-- operators with a scalar operand (`f + 3`, `2 < f`, …) -/
theorem binopO_mapPoints (φ : P → Q) (hφ : OrderPreserving φ) (o : BinOp) (a b : Operand P) :
    binopO o (match a with | .st f => .st (mapPoints φ f) | .sc c => .sc c)
             (match b with | .st f => .st (mapPoints φ f) | .sc c => .sc c)
      = (binopO o a b).map (Except.map (mapPoints φ)) := by
  cases a <;> cases b <;> simp only [binopO, sanitize, Option.map_some, Option.map_none]
  · rw [binop_mapPoints φ hφ]
  · rw [← binop_mapPoints φ hφ]; rfl
  · rw [← binop_mapPoints φ hφ]; rfl

theorem whereTuple_mapPoints (φ : P → Q) (hφ : OrderPreserving φ) (f : Stairs P) (lo hi : Option P) :
    whereTuple (mapPoints φ f) (lo.map φ) (hi.map φ) = (whereTuple f lo hi).map (mapPoints φ) :=
  clip_mapPoints φ hφ f lo hi

theorem layerIndicator_mapPoints (φ : P → Q) (hφ : OrderPreserving φ) (lo hi : Option P) (cl : Side) :
    layerIndicator (lo.map φ) (hi.map φ) cl = mapPoints φ (layerIndicator lo hi cl) := by
  unfold layerIndicator
  rw [← canon_mapPoints]
  congr 1
  cases lo with
  | none => cases hi <;> rfl
  | some a =>
    cases hi with
    | none => rfl
    | some b =>
      simp only [Option.map_some]
      by_cases h1 : a < b
      · rw [if_pos h1, if_pos ((hφ a b).mp h1)]; rfl
      · rw [if_neg h1, if_neg (fun h => h1 ((hφ a b).mpr h))]
        by_cases h2 : b < a
        · rw [if_pos h2, if_pos ((hφ b a).mp h2)]; rfl
        · rw [if_neg h2, if_neg (fun h => h2 ((hφ b a).mpr h))]; rfl

theorem maskTuple_mapPoints (φ : P → Q) (hφ : OrderPreserving φ) (f : Stairs P) (lo hi : Option P) :
    maskTuple (mapPoints φ f) (lo.map φ) (hi.map φ) = mapPoints φ (maskTuple f lo hi) := by
  unfold maskTuple
  rw [closed_mapPoints, layerIndicator_mapPoints φ hφ, combine_mapPoints φ hφ]

/-- a layered triple in the image domain -/
def mapTriple (φ : P → Q) (t : Triple P) : Triple Q := ⟨t.start.map φ, t.stop.map φ, t.value⟩

theorem startRay_mapPoints (φ : P → Q) (s : Option P) (v : Rat) (cl : Side) :
    startRay (s.map φ) v cl = mapPoints φ (startRay s v cl) := by cases s <;> rfl
theorem stopRay_mapPoints (φ : P → Q) (s : Option P) (v : Rat) (cl : Side) :
    stopRay (s.map φ) v cl = mapPoints φ (stopRay s v cl) := by cases s <;> rfl

theorem layer1_mapPoints (φ : P → Q) (hφ : OrderPreserving φ) (f : Stairs P) (t : Triple P) :
    layer1 (mapPoints φ f) (mapTriple φ t) = mapPoints φ (layer1 f t) := by
  unfold layer1 mapTriple
  simp only [closed_mapPoints]
  rw [startRay_mapPoints, stopRay_mapPoints, combine_mapPoints φ hφ, combine_mapPoints φ hφ]

theorem layer_mapPoints (φ : P → Q) (hφ : OrderPreserving φ) (f : Stairs P) (ts : List (Triple P)) :
    layer (mapPoints φ f) (ts.map (mapTriple φ)) = mapPoints φ (layer f ts) := by
  unfold layer
  induction ts generalizing f with
  | nil => rfl
  | cons t r ih => simp only [List.map_cons, List.foldl_cons]; rw [layer1_mapPoints φ hφ, ih]

theorem closedOfMembers_mapPoints (φ : P → Q) (ms : List (Stairs P)) :
    closedOfMembers (ms.map (mapPoints φ)) = closedOfMembers ms := by
  unfold closedOfMembers
  have hf : (ms.map (mapPoints φ)).filter (·.hasSteps) = (ms.filter (·.hasSteps)).map (mapPoints φ) := by
    rw [List.filter_map]
    congr 1
    apply List.filter_congr
    intro m _
    exact hasSteps_mapPoints φ m
  rw [hf]
  cases ms.filter (·.hasSteps) with
  | nil => cases ms <;> rfl
  | cons m r =>
    simp only [List.map_cons, List.all_map, Function.comp_def, closed_mapPoints]

/-- collection aggregations (`sum`, `mean`, `median`, `min`, `max`, logical) over re-labelled members -/
theorem aggregate_mapPoints (φ : P → Q) (hφ : OrderPreserving φ) (F : AggFn) (ms : List (Stairs P)) :
    aggregate F (ms.map (mapPoints φ)) = (aggregate F ms).map (mapPoints φ) := by
  unfold aggregate
  rw [closedOfMembers_mapPoints]
  cases closedOfMembers ms with
  | error e => rfl
  | ok cl =>
    simp only [Except.map, bind, Except.bind, pure, Except.pure]
    rw [← canon_mapPoints]
    congr 2
    have hidx : (ms.map (mapPoints φ)).map (·.idx) = (ms.map (·.idx)).map (List.map φ) := by
      simp only [List.map_map, Function.comp_def, idx_mapPoints]
    simp only [mapPoints, Stairs.mk.injEq, and_true]
    refine ⟨by simp [List.map_map, Function.comp_def, mapPoints], ?_⟩
    rw [hidx, unionAll_map φ hφ, List.map_map, List.map_map]
    apply List.map_congr_left
    intro p _
    simp only [Function.comp_def, List.map_map]
    congr 2
    apply List.map_congr_left
    intro m _
    exact lim_mapPoints φ hφ false m.init m.steps p

/-- one-sided limits at re-labelled points (restating `C17.den_mapPoints` for the public `limit`) -/
theorem limit_mapPoints (φ : P → Q) (hφ : OrderPreserving φ) (f : Stairs P) (side : Side) (x : P) :
    (mapPoints φ f).limit side (φ x) = f.limit side x := den_mapPoints φ hφ f (side == .left) x

/-- canonical forms are mapped to canonical forms -/
theorem canonical_mapPoints (φ : P → Q) (hφ : OrderPreserving φ) (f : Stairs P) (hf : f.Canonical) :
    (mapPoints φ f).Canonical := by
  refine ⟨wf_mapPoints φ hφ f hf.1, ?_⟩
  have : ∀ (a : Val) (s : List (P × Val)), Minimal a s → Minimal a (s.map fun pv => (φ pv.1, pv.2)) := by
    intro a s
    induction s generalizing a with
    | nil => exact id
    | cons pv r ih => intro h; exact ⟨h.1, ih _ h.2⟩
  exact this f.init f.steps hf.2

/-- re-labellings compose (numbers → Timedeltas → Timestamps) -/
theorem mapPoints_comp {R : Type} (φ : P → Q) (ψ : Q → R) (f : Stairs P) :
    mapPoints ψ (mapPoints φ f) = mapPoints (ψ ∘ φ) f := by
  simp [mapPoints, List.map_map, Function.comp_def]

theorem mapPoints_id (f : Stairs P) : mapPoints id f = f := by
  simp [mapPoints]

/-- a re-labelling with a left inverse can be undone (e.g. Timestamps back to numbers) -/
theorem mapPoints_leftInverse (φ : P → Q) (ψ : Q → P) (h : ∀ x, ψ (φ x) = x) (f : Stairs P) :
    mapPoints ψ (mapPoints φ f) = f := by
  rw [mapPoints_comp]
  have : ψ ∘ φ = id := funext h
  rw [this, mapPoints_id]

/-! ### structural views: `to_frame`, `step_points`, `step_values`, `step_changes` -/

theorem stepPoints_mapPoints (φ : P → Q) (f : Stairs P) : (mapPoints φ f).stepPoints = f.stepPoints.map φ :=
  idx_mapPoints φ f
theorem stepValues_mapPoints (φ : P → Q) (f : Stairs P) : (mapPoints φ f).stepValues = f.stepValues := by
  simp [stepValues, mapPoints, List.map_map, Function.comp_def]

/-- a `to_frame()` row in the image domain -/
def mapRow (φ : P → Q) (r : FrameRow P) : FrameRow Q := (r.1.map φ, r.2.1.map φ, r.2.2)

theorem frameFrom_rel (φ : P → Q) (start : Option P) (v : Val) (s : List (P × Val)) :
    frameFrom (start.map φ) v (s.map fun pv => (φ pv.1, pv.2)) = (frameFrom start v s).map (mapRow φ) := by
  induction s generalizing start v with
  | nil => rfl
  | cons pv r ih =>
    obtain ⟨p, w⟩ := pv
    simp only [List.map_cons, frameFrom]
    rw [← Option.map_some, ih]
    rfl

theorem toFrame_mapPoints (φ : P → Q) (f : Stairs P) : (mapPoints φ f).toFrame = f.toFrame.map (mapRow φ) :=
  frameFrom_rel φ none f.init f.steps

theorem recolumn_rel (φ : P → Q) (s : List (P × Val)) (g : List Val → List Val) :
    recolumn (s.map fun pv => (φ pv.1, pv.2)) g = (recolumn s g).map fun pv => (φ pv.1, pv.2) := by
  unfold recolumn
  simp only [List.map_map, Function.comp_def]
  have h1 : (s.map fun x => φ x.1) = (s.map Prod.fst).map φ := by simp [List.map_map, Function.comp_def]
  have h2 : (s.map fun x => x.2) = s.map Prod.snd := rfl
  rw [h1, h2, List.zip_map_left]
  rfl

/-- step changes (the delta column) are re-labelled like the values -/
theorem stepChanges_mapPoints (φ : P → Q) (f : Stairs P) :
    (mapPoints φ f).stepChanges = f.stepChanges.map fun pv => (φ pv.1, pv.2) :=
  recolumn_rel φ f.steps _

theorem noNa_mapPoints (φ : P → Q) (f : Stairs P) : (mapPoints φ f).noNa = f.noNa := by
  simp [Stairs.noNa, mapPoints, List.all_map, Function.comp_def]

/-! ## 2. shift and diff under an affine re-labelling: the distance scales by the unit -/

theorem shift_affine (o u : Rat) (f : Stairs Rat) (d : Rat) :
    shift (mapPoints (affine o u) f) (u * d) = mapPoints (affine o u) (shift f d) := by
  unfold shift mapPoints
  simp only [List.map_map, Function.comp_def, Stairs.mk.injEq, true_and, and_true]
  apply List.map_congr_left
  intro pv _
  simp only [affine, Prod.mk.injEq, and_true]
  ring

theorem diff_affine (o u : Rat) (hu : 0 < u) (f : Stairs Rat) (d : Rat) :
    diff (mapPoints (affine o u) f) (u * d) = (diff f d).map (mapPoints (affine o u)) := by
  unfold diff
  rw [shift_affine, binop_mapPoints _ (affine_orderPreserving o u hu)]

/-! ## 3. the value distribution under an affine re-labelling -/

/-- **`value_sums`: values kept, total lengths multiplied by the unit** -/
theorem valueSums_affine (o u : Rat) (f : Stairs Rat) :
    valueSums (mapPoints (affine o u) f) = (valueSums f).map fun vl => (vl.1, u * vl.2) := by
  rw [valueSums_eq, valueSums_eq, definedPieces_affine]
  exact vsFold_scl u [] _

/-- **shares of the defined length are invariant** -/
theorem shares_affine (o u : Rat) (hu : 0 < u) (f : Stairs Rat) :
    shares (mapPoints (affine o u) f) = shares f := by
  rw [shares_eq, shares_eq, valueSums_affine, sumBy_snd_scl, List.map_map]
  apply List.map_congr_left
  intro vl _
  simp only [Function.comp_def, Prod.mk.injEq, true_and]
  exact mul_div_mul_left _ _ (ne_of_gt hu)

/-- **variance is invariant** -/
theorem var_affine (o u : Rat) (hu : 0 < u) (f : Stairs Rat) :
    var (mapPoints (affine o u) f) = var f := by
  unfold var
  rw [mean_affine o u hu, shares_affine o u hu]

/-- **the ECDF is the same object** (it lives on the value axis) -/
theorem ecdf_affine (o u : Rat) (hu : 0 < u) (f : Stairs Rat) :
    ecdf (mapPoints (affine o u) f) = ecdf f := by
  unfold ecdf
  rw [shares_affine o u hu]

theorem xtiles_affine (o u : Rat) (hu : 0 < u) (scale : Rat) (f : Stairs Rat) :
    xtiles scale (mapPoints (affine o u) f) = xtiles scale f := by
  unfold xtiles
  rw [shares_affine o u hu]

theorem percentile_affine (o u : Rat) (hu : 0 < u) (f : Stairs Rat) (p : Rat) :
    percentile (mapPoints (affine o u) f) p = percentile f p := by
  unfold percentile; rw [xtiles_affine o u hu]

theorem fractile_affine (o u : Rat) (hu : 0 < u) (f : Stairs Rat) (p : Rat) :
    fractile (mapPoints (affine o u) f) p = fractile f p := by
  unfold fractile; rw [xtiles_affine o u hu]

theorem median_affine (o u : Rat) (hu : 0 < u) (f : Stairs Rat) :
    median (mapPoints (affine o u) f) = median f := percentile_affine o u hu f 50

theorem quantiles_affine (o u : Rat) (hu : 0 < u) (f : Stairs Rat) (q : Nat) :
    quantiles (mapPoints (affine o u) f) q = quantiles f q := by
  unfold quantiles
  simp only [fractile_affine o u hu]

/-- **the modes (values of maximal total length) are invariant** -/
theorem modes_affine (o u : Rat) (hu : 0 < u) (f : Stairs Rat) :
    modes (mapPoints (affine o u) f) = modes f := by
  have hvs := valueSums_affine o u f
  cases h : valueSums f with
  | nil =>
    rw [h] at hvs
    rw [modes_nil _ hvs, modes_nil _ h]
  | cons a r =>
    rw [h] at hvs
    simp only [List.map_cons] at hvs
    rw [modes_eq _ _ _ hvs, modes_eq _ _ _ h]
    have hm : maxLen (u * a.2) (r.map fun vl => (vl.1, u * vl.2)) = u * maxLen a.2 r := maxLen_scl u hu a.2 r
    simp only [hm]
    rw [← List.map_cons (f := fun vl : Rat × Rat => (vl.1, u * vl.2)) (a := a) (l := r), List.filter_map,
      List.map_map]
    congr 1
    apply List.filter_congr
    intro vl _
    simp only [Function.comp_def]
    apply decide_eq_decide.mpr
    constructor
    · intro h'; exact mul_left_cancel₀ (ne_of_gt hu) h'
    · intro h'; rw [h']

theorem mode_affine (o u : Rat) (hu : 0 < u) (f : Stairs Rat) :
    mode (mapPoints (affine o u) f) = mode f := by
  unfold mode; rw [modes_affine o u hu]

/-- the default unit bins of `hist` depend on the values only -/
theorem unitBins_affine (o u : Rat) (f : Stairs Rat) (closed : Side) :
    unitBins (mapPoints (affine o u) f) closed = unitBins f closed := by
  unfold unitBins
  rw [valueSums_affine, List.map_map]
  rfl

/-- total defined length as seen by `hist` -/
theorem histTotal_affine (o u : Rat) (f : Stairs Rat) :
    sumBy (·.2) (valueSums (mapPoints (affine o u) f)) = u * sumBy (·.2) (valueSums f) := by
  rw [valueSums_affine]; exact sumBy_snd_scl u _

/-- `hist(stat="probability")` is invariant (the bins are on the value axis) -/
theorem hist_probability_affine (o u : Rat) (hu : 0 < u) (f : Stairs Rat) (bins : List (Rat × Rat)) (cl : Side) :
    hist (mapPoints (affine o u) f) bins cl .probability = hist f bins cl .probability := by
  unfold hist
  simp only [ecdf_affine o u hu]

/-- `hist(stat="sum")`: lengths, scaled by the unit -/
theorem hist_sum_affine (o u : Rat) (hu : 0 < u) (f : Stairs Rat) (bins : List (Rat × Rat)) (cl : Side) :
    hist (mapPoints (affine o u) f) bins cl .sum = (hist f bins cl .sum).map (Option.map (u * ·)) := by
  unfold hist
  simp only [ecdf_affine o u hu, histTotal_affine, List.map_map]
  apply List.map_congr_left
  intro lr _
  simp only [Function.comp_def, Option.map_some, Option.some.injEq]
  ring

theorem vdiv_scale_num (u x w : Rat) : vdiv (some (u * x)) (some w) = (vdiv (some x) (some w)).map (u * ·) := by
  simp only [vdiv]
  split
  · rfl
  · simp only [Option.map_some, Option.some.injEq]; ring

theorem vdiv_scale_both (u : Rat) (hu : u ≠ 0) (x w : Rat) :
    vdiv (some (u * x)) (some (u * w)) = vdiv (some x) (some w) := by
  simp only [vdiv]
  by_cases hw : w = 0
  · simp [hw]
  · rw [if_neg hw, if_neg (mul_ne_zero hu hw), mul_div_mul_left _ _ hu]

/-- `hist(stat="frequency")`: length per unit of value, scaled by the unit -/
theorem hist_frequency_affine (o u : Rat) (hu : 0 < u) (f : Stairs Rat) (bins : List (Rat × Rat)) (cl : Side) :
    hist (mapPoints (affine o u) f) bins cl .frequency
      = (hist f bins cl .frequency).map (Option.map (u * ·)) := by
  unfold hist
  simp only [ecdf_affine o u hu, histTotal_affine, List.map_map]
  apply List.map_congr_left
  intro xlr _
  obtain ⟨x, lr⟩ := xlr
  simp only [Function.comp_def]
  rw [← vdiv_scale_num]
  congr 2
  ring

/-- `hist(stat="density")` is invariant -/
theorem hist_density_affine (o u : Rat) (hu : 0 < u) (f : Stairs Rat) (bins : List (Rat × Rat)) (cl : Side) :
    hist (mapPoints (affine o u) f) bins cl .density = hist f bins cl .density := by
  unfold hist
  simp only [ecdf_affine o u hu, histTotal_affine]
  generalize (bins.map fun lr =>
    match (ecdf f).limit cl lr.2, (ecdf f).limit cl lr.1 with
    | some a, some b => a - b
    | _, _ => (0 : Rat)) = raw
  generalize sumBy (·.2) (valueSums f) = tot
  have hvals : raw.map (· * (u * tot)) = (raw.map (· * tot)).map (u * ·) := by
    rw [List.map_map]; apply List.map_congr_left; intro x _; simp only [Function.comp_def]; ring
  have hdot : ∀ (vals : List Rat) (bs : List (Rat × Rat)),
      (((vals.map (u * ·)).zip bs).map fun (x, lr) => x * (lr.2 - lr.1)).sum
        = u * ((vals.zip bs).map fun (x, lr) => x * (lr.2 - lr.1)).sum := by
    intro vals
    induction vals with
    | nil => intro bs; simp
    | cons v r ih =>
      intro bs
      cases bs with
      | nil => simp
      | cons b bs' =>
        simp only [List.map_cons, List.zip_cons_cons, List.sum_cons]
        rw [ih bs']; ring
  rw [hvals, hdot, List.map_map]
  apply List.map_congr_left
  intro x _
  simp only [Function.comp_def]
  exact vdiv_scale_both u (ne_of_gt hu) _ _

/-! ### windows are order-only: any order-preserving re-labelling of ℚ -/

theorem valuesInRange_mapPoints (φ : Rat → Rat) (hφ : OrderPreserving φ) (f : Stairs Rat) (lo hi : Option Rat)
    (c : IClosed) : valuesInRange (mapPoints φ f) (lo.map φ) (hi.map φ) c = valuesInRange f lo hi c := by
  rw [valuesInRange_eq, valuesInRange_eq, idx_mapPoints, bisect_map φ hφ, bisect_map φ hφ]
  have : (mapPoints φ f).steps.map Prod.snd = f.steps.map Prod.snd := by
    simp [mapPoints, List.map_map, Function.comp_def]
  rw [this]
  rfl

theorem minIn_mapPoints (φ : Rat → Rat) (hφ : OrderPreserving φ) (f : Stairs Rat) (lo hi : Option Rat)
    (c : IClosed) : minIn (mapPoints φ f) (lo.map φ) (hi.map φ) c = minIn f lo hi c := by
  unfold minIn; rw [valuesInRange_mapPoints φ hφ]

theorem maxIn_mapPoints (φ : Rat → Rat) (hφ : OrderPreserving φ) (f : Stairs Rat) (lo hi : Option Rat)
    (c : IClosed) : maxIn (mapPoints φ f) (lo.map φ) (hi.map φ) c = maxIn f lo hi c := by
  unfold maxIn; rw [valuesInRange_mapPoints φ hφ]

theorem minIn_affine (o u : Rat) (hu : 0 < u) (f : Stairs Rat) (lo hi : Option Rat) (c : IClosed) :
    minIn (mapPoints (affine o u) f) (lo.map (affine o u)) (hi.map (affine o u)) c = minIn f lo hi c :=
  minIn_mapPoints _ (affine_orderPreserving o u hu) f lo hi c

theorem maxIn_affine (o u : Rat) (hu : 0 < u) (f : Stairs Rat) (lo hi : Option Rat) (c : IClosed) :
    maxIn (mapPoints (affine o u) f) (lo.map (affine o u)) (hi.map (affine o u)) c = maxIn f lo hi c :=
  maxIn_mapPoints _ (affine_orderPreserving o u hu) f lo hi c

/-- affine re-labellings compose to an affine re-labelling, and have an affine inverse -/
theorem affine_comp (o u o' u' x : Rat) : affine o' u' (affine o u x) = affine (o' + u' * o) (u' * u) x := by
  unfold affine; ring

theorem affine_inverse (o u : Rat) (hu : 0 < u) (x : Rat) : affine (-o / u) (1 / u) (affine o u x) = x := by
  unfold affine
  have : u ≠ 0 := ne_of_gt hu
  field_simp
  ring

theorem valuesInRange_affine (o u : Rat) (hu : 0 < u) (f : Stairs Rat) (lo hi : Option Rat) (c : IClosed) :
    valuesInRange (mapPoints (affine o u) f) (lo.map (affine o u)) (hi.map (affine o u)) c
      = valuesInRange f lo hi c := valuesInRange_mapPoints _ (affine_orderPreserving o u hu) f lo hi c

/-! ## 4. cov / corr: window bounds mapped, lag scaled by the unit -/

theorem clipW_mapPoints (φ : Rat → Rat) (hφ : OrderPreserving φ) (f : Stairs Rat) (lo hi : Option Rat) :
    clipW (mapPoints φ f) (lo.map φ) (hi.map φ) = (clipW f lo hi).map (mapPoints φ) := by
  cases lo with
  | none =>
    cases hi with
    | none => rfl
    | some b => exact clip_mapPoints φ hφ f none (some b)
  | some a => cases hi <;> exact clip_mapPoints φ hφ f (some a) _

/-- the image of the prepared operands and window -/
def mapPrep (φ : Rat → Rat) (r : Stairs Rat × Stairs Rat × Option Rat × Option Rat) :
    Stairs Rat × Stairs Rat × Option Rat × Option Rat :=
  (mapPoints φ r.1, mapPoints φ r.2.1, r.2.2.1.map φ, r.2.2.2.map φ)

theorem covPrep_affine (o u : Rat) (hu : 0 < u) (f g : Stairs Rat) (lo hi : Option Rat) (lag : Rat) (cp : Bool) :
    covPrep (mapPoints (affine o u) f) (mapPoints (affine o u) g) (lo.map (affine o u)) (hi.map (affine o u))
        (u * lag) cp
      = (covPrep f g lo hi lag cp).map (mapPrep (affine o u)) := by
  have hφ := affine_orderPreserving o u hu
  have hne : u * lag ≠ 0 ↔ lag ≠ 0 := by
    constructor
    · intro h h0; apply h; rw [h0, mul_zero]
    · intro h; exact mul_ne_zero (ne_of_gt hu) h
  have hhi : (if u * lag ≠ 0 ∧ cp = true then (hi.map (affine o u)).map (· - u * lag) else hi.map (affine o u))
      = (if lag ≠ 0 ∧ cp = true then hi.map (· - lag) else hi).map (affine o u) := by
    by_cases h : lag ≠ 0 ∧ cp = true
    · rw [if_pos h, if_pos ⟨hne.mpr h.1, h.2⟩]
      cases hi with
      | none => rfl
      | some b => simp only [Option.map_some, affine, Option.some.injEq]; ring
    · rw [if_neg h, if_neg (fun h' => h ⟨hne.mp h'.1, h'.2⟩)]
  have hg : (if u * lag ≠ 0 then shift (mapPoints (affine o u) g) (-(u * lag)) else mapPoints (affine o u) g)
      = mapPoints (affine o u) (if lag ≠ 0 then shift g (-lag) else g) := by
    by_cases h : lag ≠ 0
    · rw [if_pos h, if_pos (hne.mpr h), ← shift_affine]; congr 1; ring
    · rw [if_neg h, if_neg (fun h' => h (hne.mp h'))]
  unfold covPrep
  simp only []
  rw [hhi, hg]
  generalize (if lag ≠ 0 ∧ cp = true then hi.map (· - lag) else hi) = hi'
  generalize (if lag ≠ 0 then shift g (-lag) else g) = g'
  rw [unop_mapPoints, unop_mapPoints, binop_mapPoints _ hφ]
  cases binop (.logic .or) (unop .isna f) (unop .isna g') with
  | error e => rfl
  | ok m =>
    simp only [Except.map, bind, Except.bind]
    rw [mask_mapPoints _ hφ, mask_mapPoints _ hφ]
    cases mask f m with
    | error e => rfl
    | ok f1 =>
      cases mask g' m with
      | error e => rfl
      | ok g1 => rfl

/-- **`cov` is invariant**: window bounds re-labelled, lag multiplied by the unit -/
theorem cov_affine (o u : Rat) (hu : 0 < u) (f g : Stairs Rat) (lo hi : Option Rat) (lag : Rat) (cp : Bool) :
    cov (mapPoints (affine o u) f) (mapPoints (affine o u) g) (lo.map (affine o u)) (hi.map (affine o u))
        (u * lag) cp
      = cov f g lo hi lag cp := by
  have hφ := affine_orderPreserving o u hu
  unfold cov
  rw [covPrep_affine o u hu]
  cases covPrep f g lo hi lag cp with
  | error e => rfl
  | ok r =>
    obtain ⟨f1, g1, lo', hi'⟩ := r
    simp only [Except.map, mapPrep, bind, Except.bind]
    rw [binop_mapPoints _ hφ]
    cases binop .mul f1 g1 with
    | error e => rfl
    | ok fg =>
      simp only [Except.map]
      rw [clipW_mapPoints _ hφ, clipW_mapPoints _ hφ, clipW_mapPoints _ hφ]
      cases clipW fg lo' hi' with
      | error e => rfl
      | ok a =>
        cases clipW f1 lo' hi' with
        | error e => rfl
        | ok b =>
          cases clipW g1 lo' hi' with
          | error e => rfl
          | ok c =>
            simp only [Except.map, pure, Except.pure]
            rw [mean_affine o u hu, mean_affine o u hu, mean_affine o u hu]

/-- the special case without lag, for any window -/
theorem cov_affine_lag0 (o u : Rat) (hu : 0 < u) (f g : Stairs Rat) (lo hi : Option Rat) (cp : Bool) :
    cov (mapPoints (affine o u) f) (mapPoints (affine o u) g) (lo.map (affine o u)) (hi.map (affine o u)) 0 cp
      = cov f g lo hi 0 cp := by
  have := cov_affine o u hu f g lo hi 0 cp
  rwa [mul_zero] at this

/-- **the parts of `corr`** (`cov`, `var f`, `var g` over the common region) are invariant -/
theorem corrParts_affine (o u : Rat) (hu : 0 < u) (f g : Stairs Rat) (lo hi : Option Rat) (lag : Rat) (cp : Bool) :
    corrParts (mapPoints (affine o u) f) (mapPoints (affine o u) g) (lo.map (affine o u)) (hi.map (affine o u))
        (u * lag) cp
      = corrParts f g lo hi lag cp := by
  have hφ := affine_orderPreserving o u hu
  unfold corrParts
  rw [covPrep_affine o u hu]
  cases covPrep f g lo hi lag cp with
  | error e => rfl
  | ok r =>
    obtain ⟨f1, g1, lo', hi'⟩ := r
    simp only [Except.map, mapPrep, bind, Except.bind]
    rw [clipW_mapPoints _ hφ, clipW_mapPoints _ hφ, cov_affine_lag0 o u hu]
    cases clipW f1 lo' hi' with
    | error e => rfl
    | ok b =>
      cases clipW g1 lo' hi' with
      | error e => rfl
      | ok c =>
        simp only [Except.map]
        cases cov f1 g1 lo' hi' 0 true with
        | error e => rfl
        | ok cv =>
          simp only [pure, Except.pure]
          rw [var_affine o u hu, var_affine o u hu]

/-! ## 5. slicing -/

/-- an interval of the slicing index in the image domain -/
def mapIv (φ : Rat → Rat) (iv : Iv) : Iv := (φ iv.1, φ iv.2)

theorem clip_mapPoints_some (φ : Rat → Rat) (hφ : OrderPreserving φ) (f : Stairs Rat) (a b : Rat) :
    clip (mapPoints φ f) (some (φ a)) (some (φ b)) = (clip f (some a) (some b)).map (mapPoints φ) :=
  clip_mapPoints φ hφ f (some a) (some b)

theorem maskTuple_mapPoints_some (φ : Rat → Rat) (hφ : OrderPreserving φ) (f : Stairs Rat) (a b : Rat) :
    maskTuple (mapPoints φ f) (some (φ a)) (some (φ b)) = mapPoints φ (maskTuple f (some a) (some b)) :=
  maskTuple_mapPoints φ hφ f (some a) (some b)

/-- **`slice`**: the slices over re-labelled intervals are the images of the slices -/
theorem slices_mapPoints (φ : Rat → Rat) (hφ : OrderPreserving φ) (f : Stairs Rat) (ivs : List Iv) :
    slices (mapPoints φ f) (ivs.map (mapIv φ)) = (slices f ivs).map (Except.map (mapPoints φ)) := by
  unfold slices
  rw [List.map_map, List.map_map]
  apply List.map_congr_left
  intro iv _
  exact clip_mapPoints_some φ hφ f iv.1 iv.2

/-- **slicer `max` / `min`** per interval are invariant -/
theorem slicerExtreme_mapPoints (φ : Rat → Rat) (hφ : OrderPreserving φ) (isMax : Bool) (f : Stairs Rat)
    (c : IClosed) (iv : Iv) :
    slicerExtreme isMax (mapPoints φ f) c (mapIv φ iv) = slicerExtreme isMax f c iv := by
  unfold slicerExtreme mapIv
  simp only []
  rw [clip_mapPoints_some φ hφ]
  cases clip f (some iv.1) (some iv.2) with
  | error e => rfl
  | ok s =>
    simp only [Except.map, bind, Except.bind, closed_mapPoints]
    have h1 : ∀ cc, maxIn (mapPoints φ s) none none cc = maxIn s none none cc :=
      fun cc => maxIn_mapPoints φ hφ s none none cc
    have h2 : ∀ cc, minIn (mapPoints φ s) none none cc = minIn s none none cc :=
      fun cc => minIn_mapPoints φ hφ s none none cc
    rw [h1, h2, sample_mapPoints φ hφ, sample_mapPoints φ hφ]

theorem foldl_lo_map (φ : Rat → Rat) (hφ : OrderPreserving φ) (ivs : List Iv) (a : Rat) :
    (ivs.map (mapIv φ)).foldl (fun a iv => if iv.1 < a then iv.1 else a) (φ a)
      = φ (ivs.foldl (fun a iv => if iv.1 < a then iv.1 else a) a) := by
  induction ivs generalizing a with
  | nil => rfl
  | cons iv r ih =>
    simp only [List.map_cons, List.foldl_cons, mapIv]
    by_cases h : iv.1 < a
    · rw [if_pos h, if_pos ((hφ _ _).mp h)]; exact ih _
    · rw [if_neg h, if_neg (fun h' => h ((hφ _ _).mpr h'))]; exact ih _

theorem foldl_hi_map (φ : Rat → Rat) (hφ : OrderPreserving φ) (ivs : List Iv) (a : Rat) :
    (ivs.map (mapIv φ)).foldl (fun a iv => if a < iv.2 then iv.2 else a) (φ a)
      = φ (ivs.foldl (fun a iv => if a < iv.2 then iv.2 else a) a) := by
  induction ivs generalizing a with
  | nil => rfl
  | cons iv r ih =>
    simp only [List.map_cons, List.foldl_cons, mapIv]
    by_cases h : a < iv.2
    · rw [if_pos h, if_pos ((hφ _ _).mp h)]; exact ih _
    · rw [if_neg h, if_neg (fun h' => h ((hφ _ _).mpr h'))]; exact ih _

theorem triples_map (φ : Rat → Rat) (ivs : List Iv) (vals : List Rat) :
    (((ivs.map (mapIv φ)).zip vals).map fun (iv, v) => (⟨some iv.1, some iv.2, v⟩ : Triple Rat))
      = ((ivs.zip vals).map fun (iv, v) => (⟨some iv.1, some iv.2, v⟩ : Triple Rat)).map (mapTriple φ) := by
  induction ivs generalizing vals with
  | nil => rfl
  | cons iv r ih =>
    cases vals with
    | nil => rfl
    | cons v vs =>
      simp only [List.map_cons, List.zip_cons_cons, ih vs]
      rfl

/-- the slicing index is non-overlapping / monotonic in one domain iff it is in the other -/
theorem nonOverlapping_mapIv (φ : Rat → Rat) (hφ : OrderPreserving φ) (c : IClosed) (ivs : List Iv) :
    nonOverlapping c (ivs.map (mapIv φ)) = nonOverlapping c ivs := by
  induction ivs with
  | nil => rfl
  | cons a r ih =>
    cases r with
    | nil => rfl
    | cons b r' =>
      simp only [List.map_cons, nonOverlapping] at ih ⊢
      rw [ih]
      congr 1
      by_cases hc : c = .both
      · simp only [hc, if_true, mapIv]; exact decide_eq_decide.mpr (hφ _ _).symm
      · simp only [hc, if_false, mapIv]; exact decide_eq_decide.mpr (op_le φ hφ _ _).symm

/-- **`resample`**: the resampled function over re-labelled intervals is the image (object equality) -/
theorem resampleWith_mapPoints (φ : Rat → Rat) (hφ : OrderPreserving φ) (f : Stairs Rat) (ivs : List Iv)
    (vals : List Rat) :
    resampleWith (mapPoints φ f) (ivs.map (mapIv φ)) vals = (resampleWith f ivs vals).map (mapPoints φ) := by
  cases ivs with
  | nil => rfl
  | cons iv0 rest =>
    unfold resampleWith
    simp only [List.map_cons]
    have hlo := foldl_lo_map φ hφ (iv0 :: rest) iv0.1
    have hhi := foldl_hi_map φ hφ (iv0 :: rest) iv0.2
    simp only [List.map_cons] at hlo hhi
    have e1 : (mapIv φ iv0).1 = φ iv0.1 := rfl
    have e2 : (mapIv φ iv0).2 = φ iv0.2 := rfl
    rw [e1, e2, hlo, hhi]
    generalize List.foldl (fun a iv => if iv.1 < a then iv.1 else a) iv0.1 (iv0 :: rest) = lb
    generalize List.foldl (fun a iv => if a < iv.2 then iv.2 else a) iv0.2 (iv0 :: rest) = rb
    rw [unop_mapPoints, maskTuple_mapPoints_some φ hφ, maskTuple_mapPoints_some φ hφ,
      fillnaScalar_mapPoints, fillnaScalar_mapPoints, mask_mapPoints φ hφ]
    cases mask (fillnaScalar (maskTuple f (some lb) (some rb)) (some 0))
        (fillnaScalar (maskTuple (unop .isna f) (some lb) (some rb)) (some 0)) with
    | error e => rfl
    | ok base =>
      simp only [Except.map, bind, Except.bind, pure, Except.pure]
      have := triples_map φ (iv0 :: rest) vals
      simp only [List.map_cons] at this
      rw [this, layer_mapPoints φ hφ]

/-! ### rolling mean: window offsets scaled by the unit, knots re-labelled, same means -/

theorem affine_sub (o u x d : Rat) : affine o u x - u * d = affine o u (x - d) := by unfold affine; ring
theorem affine_add (o u x d : Rat) : affine o u x + u * d = affine o u (x + d) := by unfold affine; ring

theorem knots_affine (o u : Rat) (hu : 0 < u) (c : Stairs Rat) (l r : Rat) :
    knots (mapPoints (affine o u) c) (u * l) (u * r) = (knots c l r).map (affine o u) := by
  unfold knots
  rw [idx_mapPoints, ← unionIdx_map _ (affine_orderPreserving o u hu)]
  simp only [List.map_map, Function.comp_def, affine_sub]

theorem window_affine (o u : Rat) (hu : 0 < u) (c : Stairs Rat) (a b : Rat) (hab : a < b) :
    window (mapPoints (affine o u) c) (affine o u a) (affine o u b) = mapPoints (affine o u) (window c a b) := by
  have hφ := affine_orderPreserving o u hu
  have h1 := clip_window (mapPoints (affine o u) c) _ _ ((hφ a b).mp hab)
  rw [clip_mapPoints_some _ hφ, clip_window c a b hab] at h1
  exact (Except.ok.inj h1).symm

theorem keepKnot_affine (o u : Rat) (hu : 0 < u) (lo hi : Option Rat) (l r x : Rat) :
    keepKnot (lo.map (affine o u)) (hi.map (affine o u)) (u * l) (u * r) (affine o u x) = keepKnot lo hi l r x := by
  have hφ := affine_orderPreserving o u hu
  unfold keepKnot
  congr 1
  · cases lo with
    | none => rfl
    | some a =>
      simp only [Option.map_some, affine_sub]
      exact decide_eq_decide.mpr (op_le _ hφ _ _).symm
  · cases hi with
    | none => rfl
    | some b =>
      simp only [Option.map_some, affine_sub]
      exact decide_eq_decide.mpr (op_le _ hφ _ _).symm

/-- **`rolling_mean`**: with the window offsets multiplied by the unit and `where` re-labelled, the result has
the same `y` values at the re-labelled `x` positions (and the same error otherwise) -/
theorem rollingMean_affine (o u : Rat) (hu : 0 < u) (f : Stairs Rat) (l r : Rat) (lo hi : Option Rat) :
    rollingMean (mapPoints (affine o u) f) (u * l) (u * r) (lo.map (affine o u)) (hi.map (affine o u))
      = (rollingMean f l r lo hi).map (List.map fun xy => (affine o u xy.1, xy.2)) := by
  have hφ := affine_orderPreserving o u hu
  have hcw := clipW_mapPoints _ hφ f lo hi
  cases hc : clipW f lo hi with
  | error e =>
    rw [hc] at hcw
    rw [rollingMean_clip_error _ _ _ _ _ e hcw, rollingMean_clip_error _ _ _ _ _ e hc]; rfl
  | ok c =>
    rw [hc] at hcw
    have hcw' : clipW (mapPoints (affine o u) f) (lo.map (affine o u)) (hi.map (affine o u))
        = .ok (mapPoints (affine o u) c) := hcw
    by_cases hs : c.steps = []
    · have hs' : (mapPoints (affine o u) c).steps = [] := by simp [mapPoints, hs]
      rw [rollingMean_stepfree _ _ _ _ _ _ hcw' hs', rollingMean_stepfree _ _ _ _ _ _ hc hs]
      cases lo <;> cases hi <;> rfl
    · have hs' : (mapPoints (affine o u) c).steps ≠ [] := by simpa [mapPoints] using hs
      by_cases hlr : l < r
      · have hlr' : u * l < u * r := by nlinarith
        rw [rollingMean_ok _ _ _ _ _ _ hcw' hs' hlr', rollingMean_ok _ _ _ _ _ _ hc hs hlr]
        simp only [Except.map]
        congr 1
        rw [knots_affine o u hu, List.map_map, List.filter_map, List.filter_map, List.map_map]
        have hfun : ((fun x => (x, mean (window (mapPoints (affine o u) c) (x + u * l) (x + u * r)))) ∘ affine o u)
            = ((fun xy : Rat × Val => (affine o u xy.1, xy.2)) ∘ fun x => (x, mean (window c (x + l) (x + r)))) := by
          funext x
          simp only [Function.comp_def, affine_add]
          rw [window_affine o u hu c _ _ (by linarith), mean_affine o u hu]
        rw [hfun]
        congr 1
        apply List.filter_congr
        intro x _
        simp only [Function.comp_def]
        exact keepKnot_affine o u hu lo hi l r x
      · have hlr' : ¬ u * l < u * r := by intro h; apply hlr; nlinarith
        rw [rollingMean_degenerate _ _ _ _ _ _ hcw' hs' hlr', rollingMean_degenerate _ _ _ _ _ _ hc hs hlr]; rfl

/-! ## 6. non-vacuity: ticks ↦ "quarter hours after an origin", on functions with undefined pieces -/

/-- the re-labelling used in the examples -/
abbrev qh : Rat → Rat := affine 100 (1/4)
/-- a right-closed function with two undefined pieces -/
def h₀ : Stairs Rat := ⟨none, [(0, some 2), (1, none), (4, some 2), (6, some (-1)), (9, none)], .left⟩

example : ffill (mapPoints qh f₀) = mapPoints qh (ffill f₀) ∧ bfill (mapPoints qh h₀) = mapPoints qh (bfill h₀) ∧
    (ffill f₀).steps.length = 3 ∧ (bfill h₀).init = some 2 := by decide +kernel
example : fillnaStairs (mapPoints qh f₀) (mapPoints qh g₀) = (fillnaStairs f₀ g₀).map (mapPoints qh) ∧
    maskTuple (mapPoints qh h₀) (some (qh 3)) (some (qh 5)) = mapPoints qh (maskTuple h₀ (some 3) (some 5)) := by
  decide +kernel
example : layer (mapPoints qh f₀) ([⟨some 1, some 5, 2⟩, ⟨none, some 2, -1⟩].map (mapTriple qh))
    = mapPoints qh (layer f₀ [⟨some 1, some 5, 2⟩, ⟨none, some 2, -1⟩]) := by decide +kernel
example : aggregate .mean ([f₀, g₀, h₀].map (mapPoints qh)) = (aggregate .mean [f₀, g₀, h₀]).map (mapPoints qh) ∧
    (aggregate .mean [f₀, g₀, h₀]).toOption.map (·.steps.length) = some 6 := by decide +kernel
example : shift (mapPoints qh f₀) ((1/4) * 3) = mapPoints qh (shift f₀ 3) ∧
    diff (mapPoints qh f₀) ((1/4) * 3) = (diff f₀ 3).map (mapPoints qh) := by decide +kernel
example : valueSums f₀ = [(3, 2), (5, 4)] ∧ valueSums h₀ = [(-1, 3), (2, 3)] ∧
    valueSums (mapPoints qh f₀) = [(3, 1/2), (5, 1)] ∧
    shares (mapPoints qh f₀) = shares f₀ ∧ var (mapPoints qh f₀) = var f₀ ∧ var f₀ = some (8/9) := by
  decide +kernel
example : percentile (mapPoints qh f₀) 30 = percentile f₀ 30 ∧ percentile f₀ 30 = some 3 ∧
    median (mapPoints qh h₀) = some (1/2) ∧ modes (mapPoints qh h₀) = [-1, 2] ∧ mode (mapPoints qh f₀) = some 5 := by
  decide +kernel
example : hist f₀ [(0, 4), (4, 6)] .left .sum = [some 2, some 4] ∧
    hist (mapPoints qh f₀) [(0, 4), (4, 6)] .left .sum = [some (1/2), some 1] ∧
    hist f₀ [(0, 4), (4, 6)] .left .frequency = [some (1/2), some 2] ∧
    hist (mapPoints qh f₀) [(0, 4), (4, 6)] .left .frequency = [some (1/8), some (1/2)] ∧
    hist (mapPoints qh f₀) [(0, 4), (4, 6)] .left .density = hist f₀ [(0, 4), (4, 6)] .left .density ∧
    hist f₀ [(0, 4), (4, 6)] .left .density = [some (1/8), some (1/4)] := by decide +kernel
example : valuesInRange (mapPoints qh f₀) (some (qh 1)) (some (qh 3)) .both = [3, 5] ∧
    valuesInRange f₀ (some 1) (some 3) .both = [3, 5] ∧
    maxIn (mapPoints qh h₀) (some (qh 5)) none .left = some 2 := by decide +kernel
example : cov (mapPoints qh f₀) (mapPoints qh h₀) (some (qh (-1))) (some (qh 8)) ((1/4) * 1) false
      = cov f₀ h₀ (some (-1)) (some 8) 1 false ∧
    cov f₀ h₀ (some (-1)) (some 8) 1 false = .ok (some (1/4)) ∧
    cov (mapPoints qh f₀) (mapPoints qh g₀) (some (qh 0)) (some (qh 6)) 0 false = .ok (some (-12/25)) ∧
    corrParts (mapPoints qh f₀) (mapPoints qh h₀) none none ((1/4) * 1) false = corrParts f₀ h₀ none none 1 false ∧
    corrParts f₀ h₀ none none 1 false = .ok (some (1/4), some (55/12), some (9/4)) := by
  decide +kernel
example : slicerExtreme true (mapPoints qh f₀) .both (mapIv qh (1, 3)) = .ok (some 5) ∧
    slicerExtreme true f₀ .both (1, 3) = .ok (some 5) ∧
    resampleWith (mapPoints qh f₀) ([(0, 2), (2, 4)].map (mapIv qh)) [7, 8]
      = (resampleWith f₀ [(0, 2), (2, 4)] [7, 8]).map (mapPoints qh) ∧
    resampleWith f₀ [(0, 2), (2, 4)] [7, 8] = .ok ⟨some 1, [(0, some 7), (2, some 8), (4, some 5), (7, some 0)], .left⟩ := by
  decide +kernel
example : rollingMean (mapPoints qh f₀) ((1/4) * (-1)) ((1/4) * 1) (some (qh 0)) (some (qh 7))
      = (rollingMean f₀ (-1) 1 (some 0) (some 7)).map (List.map fun xy => (qh xy.1, xy.2)) ∧
    rollingMean f₀ (-1) 1 (some 0) (some 7) = .ok [(1, some 3), (2, some 3), (3, some 5), (4, some 5), (6, some 5)] := by
  decide +kernel

end SC.Props.C17b
