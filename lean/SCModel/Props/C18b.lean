import SCModel.Lemmas.Agg18b
import SCModel.Props.C18
/-!
# C18b — order and symmetry laws of collection aggregation

`aggregate F ms` (F ∈ sum, mean, median, min, max, logical_or, logical_and; `Props/C18` shows it is the pointwise
reduction of the members).  Here:

1. **permutation invariance** – reordering the members gives the identical object (`aggregate_perm`), as soon
   as some member has a step or all members share a closed side; the *values* never depend on the order
   (`aggregate_perm_values`).  The unrestricted object-level statement is **refuted**
   (`aggregate_perm_unrestricted_false`: two step-free members with different closed sides – the result
   inherits the closed side of the *first* member).
2. **singleton** – `aggregate F [f] = canon f` for the five numeric reductions (`aggregate_singleton`),
   `make_boolean f` for the two logical ones.
3. **duplication** – mean / median / min / max of `[f, f]` is `canon f`; sum of `[f, f]` is `f + f = 2·f`.
4. **append** – the sum (min, max) over `ms ++ ns` is the binary sum (the min-, max-aggregate) of the two
   partial results; always at the level of values, and as objects for non-empty parts sharing a closed side.
   Both side conditions are shown to be necessary.
5. **bounds** – min ≤ mean ≤ max and min ≤ median ≤ max pointwise, the four being defined at the same points.
-/
set_option linter.unusedSectionVars false
namespace SC.Props.C18b
open SC SC.Stairs
variable {P : Type} [LinearOrder P]

/-! ## Helpers -/
section Helpers

theorem a18b_aggRaw_perm (F : AggFn) (ms ms' : List (Stairs P)) (cl : Side) (hp : ms.Perm ms')
    (hms : ∀ m ∈ ms, m.WF) : aggRaw F ms cl = aggRaw F ms' cl := by
  unfold aggRaw
  have hidx : unionAll (ms.map (·.idx)) = unionAll (ms'.map (·.idx)) :=
    a18b_unionAll_perm _ _ (hp.map _) (by
      intro l hl
      obtain ⟨m, hm, rfl⟩ := List.mem_map.mp hl
      exact hms m hm)
  have hrows : ∀ p : P, F.eval (ms.map fun m => lim false m.init m.steps p)
      = F.eval (ms'.map fun m => lim false m.init m.steps p) :=
    fun p => a18b_eval_perm F _ _ (hp.map _)
  rw [hidx, a18b_eval_perm F _ _ (hp.map (·.init))]
  simp only [hrows]

theorem a18b_closedOfMembers_perm_isOk (ms ms' : List (Stairs P)) (hp : ms.Perm ms') (cl : Side)
    (h : closedOfMembers ms = .ok cl) : ∃ cl', closedOfMembers ms' = .ok cl' := by
  by_cases hs : ∃ m ∈ ms, m.hasSteps = true
  · exact ⟨cl, by rw [← a18b_closedOfMembers_perm_steps ms ms' hp hs]; exact h⟩
  · rcases a18b_closedOfMembers_cases ms' with ⟨_, h'⟩ | ⟨m, r, hfl, _⟩
    · exact ⟨_, h'⟩
    · exfalso
      have hm : m ∈ ms'.filter (·.hasSteps) := by rw [hfl]; simp
      obtain ⟨hm1, hm2⟩ := List.mem_filter.mp hm
      exact hs ⟨m, hp.symm.subset hm1, hm2⟩

theorem a18b_closed_of_aggregate (F : AggFn) (ms : List (Stairs P)) (h : Stairs P)
    (hr : aggregate F ms = .ok h) : closedOfMembers ms = .ok h.closed := by
  obtain ⟨cl, hcl, rfl⟩ := aggregate_ok F ms h hr
  exact hcl

theorem a18b_aggRaw_singleton (F : AggFn) (hF : F ≠ .logicalOr ∧ F ≠ .logicalAnd) (f : Stairs P) (hf : f.WF) :
    aggRaw F [f] f.closed = f := by
  unfold aggRaw
  simp only [List.map_cons, List.map_nil, unionAll, a18b_unionIdx_nil_right, a18b_eval_single F hF]
  unfold Stairs.idx
  rw [a18b_resample_self f.init f.steps hf]

/-- rows obtained by applying `u` to the samples of `f` on its own points -/
theorem a18b_rows_map (u : Val → Val) (f : Stairs P) (hf : f.WF) :
    (f.steps.map Prod.fst).map (fun p => (p, u (lim false f.init f.steps p)))
      = f.steps.map fun pv => (pv.1, u pv.2) := by
  have := congrArg (List.map fun pv : P × Val => (pv.1, u pv.2)) (a18b_resample_self f.init f.steps hf)
  simpa only [List.map_map, Function.comp_def] using this

theorem a18b_aggRaw_singleton_logical (F : AggFn) (hF : F = .logicalOr ∨ F = .logicalAnd) (f : Stairs P)
    (hf : f.WF) :
    aggRaw F [f] f.closed
      = ⟨UnOp.makeBoolean.eval f.init, f.steps.map fun pv => (pv.1, UnOp.makeBoolean.eval pv.2), f.closed⟩ := by
  unfold aggRaw
  simp only [List.map_cons, List.map_nil, unionAll, a18b_unionIdx_nil_right, a18b_eval_single_logical F hF]
  unfold Stairs.idx
  rw [a18b_rows_map UnOp.makeBoolean.eval f hf]

theorem a18b_aggRaw_pair_self (F : AggFn) (hF : F = .mean ∨ F = .median ∨ F = .min ∨ F = .max) (f : Stairs P)
    (hf : f.WF) : aggRaw F [f, f] f.closed = f := by
  unfold aggRaw
  simp only [List.map_cons, List.map_nil, unionAll, a18b_unionIdx_nil_right, a18b_unionIdx_self,
    a18b_eval_pair_self F hF]
  unfold Stairs.idx
  rw [a18b_resample_self f.init f.steps hf]

theorem a18b_aggRaw_sum_pair_self (f : Stairs P) (hf : f.WF) :
    aggRaw .sum [f, f] f.closed
      = ⟨vadd f.init f.init, f.steps.map fun pv => (pv.1, vadd pv.2 pv.2), f.closed⟩ := by
  unfold aggRaw
  simp only [List.map_cons, List.map_nil, unionAll, a18b_unionIdx_nil_right, a18b_unionIdx_self,
    a18b_eval_sum_pair]
  unfold Stairs.idx
  rw [a18b_rows_map (fun v => vadd v v) f hf]

theorem a18b_sideOf_same (a b : Stairs P) (cl : Side) (ha : a.closed = cl) (hb : b.closed = cl) :
    sideOf a b = cl := by
  unfold sideOf; rw [ha, hb]; simp

theorem a18b_two_mul (v : Val) : vmul (some 2) v = vadd v v := by
  cases v with
  | none => rfl
  | some q => simp only [vmul, vadd, vlift2]; rw [two_mul]

/-- a reduction `F` splits over an append into the `F`-reduction of the two partial reductions -/
def a18b_Splits (F : AggFn) : Prop :=
  ∀ vs ws : List Val, vs ≠ [] → ws ≠ [] → F.eval (vs ++ ws) = F.eval [F.eval vs, F.eval ws]

theorem a18b_splits_sum : a18b_Splits .sum := fun vs ws _ _ => by
  rw [a18b_eval_sum_append, a18b_eval_sum_pair]
theorem a18b_splits_min : a18b_Splits .min := fun vs ws hv hw => by
  rw [a18b_eval_min_append vs ws hv hw, a18b_eval_min_pair]
theorem a18b_splits_max : a18b_Splits .max := fun vs ws hv hw => by
  rw [a18b_eval_max_append vs ws hv hw, a18b_eval_max_pair]

theorem a18b_wf_append (ms ns : List (Stairs P)) (hms : ∀ m ∈ ms, m.WF) (hns : ∀ m ∈ ns, m.WF) :
    ∀ m ∈ ms ++ ns, m.WF := fun m hm => (List.mem_append.mp hm).elim (hms m) (hns m)

theorem a18b_den_append (F : AggFn) (hF : a18b_Splits F) (ms ns : List (Stairs P)) (a b h : Stairs P)
    (hms : ∀ m ∈ ms, m.WF) (hns : ∀ m ∈ ns, m.WF) (hne : ms ≠ []) (hne' : ns ≠ [])
    (ha : aggregate F ms = .ok a) (hb : aggregate F ns = .ok b) (hh : aggregate F (ms ++ ns) = .ok h)
    (st : Bool) (x : P) : Den h st x = F.eval [Den a st x, Den b st x] := by
  rw [(den_aggregate F _ h (a18b_wf_append ms ns hms hns) hh).2 st x, (den_aggregate F _ a hms ha).2 st x,
      (den_aggregate F _ b hns hb).2 st x, List.map_append]
  exact hF _ _ (by simpa using hne) (by simpa using hne')

theorem a18b_append_obj [NoMinOrder P] [Nonempty P] (F : AggFn) (hF : a18b_Splits F) (ms ns : List (Stairs P))
    (cl : Side) (hms : ∀ m ∈ ms, m.WF) (hns : ∀ m ∈ ns, m.WF) (hne : ms ≠ []) (hne' : ns ≠ [])
    (hcl : ∀ m ∈ ms ++ ns, m.closed = cl) :
    ∃ a b h, aggregate F ms = .ok a ∧ aggregate F ns = .ok b ∧ aggregate F (ms ++ ns) = .ok h ∧
      aggregate F [a, b] = .ok h ∧ a.closed = cl ∧ b.closed = cl ∧ h.closed = cl := by
  have ha := aggregate_same_closed F ms cl hne fun m hm => hcl m (List.mem_append_left _ hm)
  have hb := aggregate_same_closed F ns cl hne' fun m hm => hcl m (List.mem_append_right _ hm)
  have hh := aggregate_same_closed F (ms ++ ns) cl (by simp [hne]) hcl
  refine ⟨_, _, _, ha, hb, hh, ?_, rfl, rfl, rfl⟩
  have hab := aggregate_same_closed F [canon (aggRaw F ms cl), canon (aggRaw F ns cl)] cl (by simp)
    (by intro m hm; simp only [List.mem_cons, List.not_mem_nil, or_false] at hm; rcases hm with h | h <;> rw [h] <;> rfl)
  rw [hab]
  congr 1
  have hwa : (canon (aggRaw F ms cl)).WF := wf_canon _ (wf_aggRaw F ms cl hms)
  have hwb : (canon (aggRaw F ns cl)).WF := wf_canon _ (wf_aggRaw F ns cl hns)
  have hwab : ∀ m ∈ [canon (aggRaw F ms cl), canon (aggRaw F ns cl)], m.WF := by
    intro m hm; simp only [List.mem_cons, List.not_mem_nil, or_false] at hm
    rcases hm with h | h <;> rw [h] <;> assumption
  apply canonical_ext _ _ (den_aggregate F _ _ hwab hab).1
    (den_aggregate F _ _ (a18b_wf_append ms ns hms hns) hh).1 rfl
  intro x
  rw [a18b_den_append F hF ms ns _ _ _ hms hns hne hne' ha hb hh false x,
      (den_aggregate F _ _ hwab hab).2 false x]
  rfl

end Helpers

/-! ## 1. permutation invariance -/

/-- at one point: every reduction depends only on the multiset of member values -/
theorem eval_perm (F : AggFn) (vs ws : List Val) (hp : vs.Perm ws) : F.eval vs = F.eval ws :=
  a18b_eval_perm F vs ws hp

/-- **C18b.1** aggregating a permutation of the members gives the IDENTICAL result (same rows, same closed
side, same error), for every reduction, provided some member has a step or all members share one closed
side.  No canonical-form uniqueness is needed: already the rows before canonicalisation coincide. -/
theorem aggregate_perm (F : AggFn) (ms ms' : List (Stairs P)) (hp : ms.Perm ms') (hms : ∀ m ∈ ms, m.WF)
    (hcl : (∃ m ∈ ms, m.hasSteps = true) ∨ (∀ m ∈ ms, ∀ m' ∈ ms, m.closed = m'.closed)) :
    aggregate F ms = aggregate F ms' := by
  have hc : closedOfMembers ms = closedOfMembers ms' := by
    rcases hcl with h | h
    · exact a18b_closedOfMembers_perm_steps ms ms' hp h
    · exact a18b_closedOfMembers_perm_same ms ms' hp h
  rw [aggregate_eq, aggregate_eq, hc]
  congr 1
  funext cl
  rw [a18b_aggRaw_perm F ms ms' cl hp hms]

/-- **C18b.1 (values)** with no side condition: if one order aggregates so does the other, with the same
initial value and the same rows – only the closed side can differ (see the refutation below) -/
theorem aggregate_perm_values (F : AggFn) (ms ms' : List (Stairs P)) (hp : ms.Perm ms') (hms : ∀ m ∈ ms, m.WF)
    (h : Stairs P) (hr : aggregate F ms = .ok h) :
    ∃ h', aggregate F ms' = .ok h' ∧ h'.init = h.init ∧ h'.steps = h.steps ∧
      ∀ st x, Den h' st x = Den h st x := by
  obtain ⟨cl, hcl, rfl⟩ := aggregate_ok F ms h hr
  obtain ⟨cl', hcl'⟩ := a18b_closedOfMembers_perm_isOk ms ms' hp cl hcl
  refine ⟨canon (aggRaw F ms' cl'), by rw [aggregate_eq, hcl']; rfl, ?_, ?_, ?_⟩
  · rw [← a18b_aggRaw_perm F ms ms' cl' hp hms]; rfl
  · rw [← a18b_aggRaw_perm F ms ms' cl' hp hms]; rfl
  · intro st x
    rw [← a18b_aggRaw_perm F ms ms' cl' hp hms]; rfl

/-- an error does not depend on the order either -/
theorem aggregate_perm_error (F : AggFn) (ms ms' : List (Stairs P)) (hp : ms.Perm ms') (e : Err)
    (hr : aggregate F ms = .error e) : aggregate F ms' = .error e := by
  have hs : ∃ m ∈ ms, m.hasSteps = true := by
    rcases a18b_closedOfMembers_cases ms with ⟨_, h⟩ | ⟨m, r, hfl, _⟩
    · rw [aggregate_eq, h] at hr; cases hr
    · have hm : m ∈ ms.filter (·.hasSteps) := by rw [hfl]; simp
      exact ⟨m, (List.mem_filter.mp hm).1, (List.mem_filter.mp hm).2⟩
  rw [aggregate_eq] at hr ⊢
  rw [← a18b_closedOfMembers_perm_steps ms ms' hp hs]
  cases hc : closedOfMembers ms with
  | ok cl => rw [hc] at hr; cases hr
  | error e' => rw [hc] at hr; exact hr

/-! ### the unrestricted statement is false -/
def k₁ : Stairs Int := ⟨some 5, [], .right⟩
def k₂ : Stairs Int := ⟨some 1, [], .left⟩

/-- **refutation**: two step-free members with different closed sides – the result takes the closed side of
the first member, so swapping them changes the object (the values agree) -/
theorem aggregate_perm_unrestricted_false :
    ¬ ∀ (F : AggFn) (ms ms' : List (Stairs Int)), ms.Perm ms' → (∀ m ∈ ms, m.WF) →
        aggregate F ms = aggregate F ms' := by
  intro h
  have := h .sum [k₁, k₂] [k₂, k₁] (List.Perm.swap _ _ _) (by decide +kernel)
  revert this
  decide +kernel

example : aggregate .sum [k₁, k₂] = .ok ⟨some 6, [], .right⟩ ∧ aggregate .sum [k₂, k₁] = .ok ⟨some 6, [], .left⟩ := by
  decide +kernel

/-! ## 2. singleton -/

/-- **C18b.2** sum / mean / median / min / max of a single member is its canonical form -/
theorem aggregate_singleton (F : AggFn) (hF : F ≠ .logicalOr ∧ F ≠ .logicalAnd) (f : Stairs P) (hf : f.WF) :
    aggregate F [f] = .ok (canon f) := by
  rw [aggregate_same_closed F [f] f.closed (by simp) (by simp), a18b_aggRaw_singleton F hF f hf]

/-- … the member itself when it is canonical -/
theorem aggregate_singleton_canonical (F : AggFn) (hF : F ≠ .logicalOr ∧ F ≠ .logicalAnd) (f : Stairs P)
    (hf : f.Canonical) : aggregate F [f] = .ok f := by
  rw [aggregate_singleton F hF f hf.1, canon_of_minimal f hf.2]

/-- logical_or / logical_and of a single member is `make_boolean` of it -/
theorem aggregate_singleton_logical (F : AggFn) (hF : F = .logicalOr ∨ F = .logicalAnd) (f : Stairs P)
    (hf : f.WF) : aggregate F [f] = .ok (unop .makeBoolean f) := by
  rw [aggregate_same_closed F [f] f.closed (by simp) (by simp), a18b_aggRaw_singleton_logical F hF f hf]
  rfl

/-! ## 3. duplication -/

/-- **C18b.3** mean / median / min / max of the same member twice is its canonical form -/
theorem aggregate_pair_self (F : AggFn) (hF : F = .mean ∨ F = .median ∨ F = .min ∨ F = .max) (f : Stairs P)
    (hf : f.WF) : aggregate F [f, f] = .ok (canon f) := by
  rw [aggregate_same_closed F [f, f] f.closed (by simp) (by simp), a18b_aggRaw_pair_self F hF f hf]

theorem aggregate_pair_self_canonical (F : AggFn) (hF : F = .mean ∨ F = .median ∨ F = .min ∨ F = .max)
    (f : Stairs P) (hf : f.Canonical) : aggregate F [f, f] = .ok f := by
  rw [aggregate_pair_self F hF f hf.1, canon_of_minimal f hf.2]

/-- the sum of the same member twice doubles every value … -/
theorem aggregate_sum_pair_self (f : Stairs P) (hf : f.WF) :
    aggregate .sum [f, f] = .ok (map (fun v => vadd v v) f) := by
  rw [aggregate_same_closed .sum [f, f] f.closed (by simp) (by simp), a18b_aggRaw_sum_pair_self f hf]
  rfl

/-- … which is `f + f` … -/
theorem aggregate_sum_pair_self_eq_add (f : Stairs P) (hf : f.WF) :
    aggregate .sum [f, f] = binop .add f f := by
  rw [aggregate_sum_pair_self f hf]
  show _ = combineChecked vadd f f
  rw [combineChecked_total _ _ _ (not_mismatch_of_closed_eq f f rfl), a18b_sideOf_same f f f.closed rfl rfl]
  unfold combine map combineSteps
  rw [a18b_unionIdx_self, a18b_rows_map (fun v => vadd v v) f hf]

/-- … and `2 · f` (the scalar `2` enters as a step-free function with `f`'s closed side) -/
theorem aggregate_sum_pair_self_eq_two_mul (f : Stairs P) (hf : f.WF) :
    some (aggregate .sum [f, f]) = binopO .mul (.sc (some 2)) (.st f) := by
  rw [aggregate_sum_pair_self f hf]
  show _ = some (combineChecked vmul (const (some 2) f.closed) f)
  rw [combineChecked_total _ _ _ (not_mismatch_const_left f _ _),
      a18b_sideOf_same (const (some 2) f.closed) f f.closed rfl rfl]
  congr 2
  unfold combine map combineSteps
  have hidx : unionIdx ((const (some 2) f.closed : Stairs P).steps.map Prod.fst) (f.steps.map Prod.fst)
      = f.steps.map Prod.fst := by simp [const, unionIdx]
  rw [hidx]
  simp only [const, lim_nil, a18b_two_mul]
  rw [a18b_rows_map (fun v => vadd v v) f hf]

/-! ## 4. aggregation over an append -/

/-- **C18b.4 (values)** the sum over `ms ++ ns` is pointwise the sum of the two partial sums (no side
condition; either part may be empty) -/
theorem den_sum_append (ms ns : List (Stairs P)) (a b h : Stairs P)
    (hms : ∀ m ∈ ms, m.WF) (hns : ∀ m ∈ ns, m.WF)
    (ha : aggregate .sum ms = .ok a) (hb : aggregate .sum ns = .ok b) (hh : aggregate .sum (ms ++ ns) = .ok h)
    (st : Bool) (x : P) : Den h st x = vadd (Den a st x) (Den b st x) := by
  rw [(den_aggregate .sum _ h (a18b_wf_append ms ns hms hns) hh).2 st x, (den_aggregate .sum _ a hms ha).2 st x,
      (den_aggregate .sum _ b hns hb).2 st x, List.map_append, a18b_eval_sum_append]

/-- the min over `ms ++ ns` is pointwise the binary minimum of the two partial minima (non-empty parts) -/
theorem den_min_append (ms ns : List (Stairs P)) (a b h : Stairs P)
    (hms : ∀ m ∈ ms, m.WF) (hns : ∀ m ∈ ns, m.WF) (hne : ms ≠ []) (hne' : ns ≠ [])
    (ha : aggregate .min ms = .ok a) (hb : aggregate .min ns = .ok b) (hh : aggregate .min (ms ++ ns) = .ok h)
    (st : Bool) (x : P) : Den h st x = vlift2 min (Den a st x) (Den b st x) := by
  rw [a18b_den_append .min a18b_splits_min ms ns a b h hms hns hne hne' ha hb hh st x, a18b_eval_min_pair]
  rfl

/-- the max over `ms ++ ns` is pointwise the binary maximum of the two partial maxima (non-empty parts) -/
theorem den_max_append (ms ns : List (Stairs P)) (a b h : Stairs P)
    (hms : ∀ m ∈ ms, m.WF) (hns : ∀ m ∈ ns, m.WF) (hne : ms ≠ []) (hne' : ns ≠ [])
    (ha : aggregate .max ms = .ok a) (hb : aggregate .max ns = .ok b) (hh : aggregate .max (ms ++ ns) = .ok h)
    (st : Bool) (x : P) : Den h st x = vlift2 max (Den a st x) (Den b st x) := by
  rw [a18b_den_append .max a18b_splits_max ms ns a b h hms hns hne hne' ha hb hh st x, a18b_eval_max_pair]
  rfl

/-- **C18b.4 (objects)** for non-empty parts whose members share a closed side, all three sums exist and the
sum over the append is IDENTICAL to the binary `+` of the partial sums and to the sum-aggregate of the pair -/
theorem sum_append [NoMinOrder P] [Nonempty P] (ms ns : List (Stairs P)) (cl : Side)
    (hms : ∀ m ∈ ms, m.WF) (hns : ∀ m ∈ ns, m.WF) (hne : ms ≠ []) (hne' : ns ≠ [])
    (hcl : ∀ m ∈ ms ++ ns, m.closed = cl) :
    ∃ a b h, aggregate .sum ms = .ok a ∧ aggregate .sum ns = .ok b ∧ aggregate .sum (ms ++ ns) = .ok h ∧
      binop .add a b = .ok h ∧ aggregate .sum [a, b] = .ok h := by
  obtain ⟨a, b, h, ha, hb, hh, hab, hac, hbc, hhc⟩ :=
    a18b_append_obj .sum a18b_splits_sum ms ns cl hms hns hne hne' hcl
  refine ⟨a, b, h, ha, hb, hh, ?_, hab⟩
  show combineChecked vadd a b = _
  rw [combineChecked_total _ _ _ (not_mismatch_of_closed_eq a b (hac.trans hbc.symm)),
      a18b_sideOf_same a b cl hac hbc]
  congr 1
  have hwa : a.WF := (den_aggregate .sum ms a hms ha).1.1
  have hwb : b.WF := (den_aggregate .sum ns b hns hb).1.1
  apply canonical_ext _ _ (canonical_combine vadd a b cl hwa hwb)
    (den_aggregate .sum _ h (a18b_wf_append ms ns hms hns) hh).1 hhc.symm
  intro x
  rw [den_combine vadd a b cl hwa hwb, den_sum_append ms ns a b h hms hns ha hb hh]

/-- min over an append = min-aggregate of the two partial minima (identical objects) -/
theorem min_append [NoMinOrder P] [Nonempty P] (ms ns : List (Stairs P)) (cl : Side)
    (hms : ∀ m ∈ ms, m.WF) (hns : ∀ m ∈ ns, m.WF) (hne : ms ≠ []) (hne' : ns ≠ [])
    (hcl : ∀ m ∈ ms ++ ns, m.closed = cl) :
    ∃ a b h, aggregate .min ms = .ok a ∧ aggregate .min ns = .ok b ∧ aggregate .min (ms ++ ns) = .ok h ∧
      aggregate .min [a, b] = .ok h := by
  obtain ⟨a, b, h, ha, hb, hh, hab, _⟩ := a18b_append_obj .min a18b_splits_min ms ns cl hms hns hne hne' hcl
  exact ⟨a, b, h, ha, hb, hh, hab⟩

/-- max over an append = max-aggregate of the two partial maxima (identical objects) -/
theorem max_append [NoMinOrder P] [Nonempty P] (ms ns : List (Stairs P)) (cl : Side)
    (hms : ∀ m ∈ ms, m.WF) (hns : ∀ m ∈ ns, m.WF) (hne : ms ≠ []) (hne' : ns ≠ [])
    (hcl : ∀ m ∈ ms ++ ns, m.closed = cl) :
    ∃ a b h, aggregate .max ms = .ok a ∧ aggregate .max ns = .ok b ∧ aggregate .max (ms ++ ns) = .ok h ∧
      aggregate .max [a, b] = .ok h := by
  obtain ⟨a, b, h, ha, hb, hh, hab, _⟩ := a18b_append_obj .max a18b_splits_max ms ns cl hms hns hne hne' hcl
  exact ⟨a, b, h, ha, hb, hh, hab⟩

/-! ### the side conditions are necessary -/
def g₁ : Stairs Int := ⟨some 0, [(1, some 2)], .left⟩
def g₂ : Stairs Int := ⟨some 0, [(1, some (-2))], .left⟩
def g₃ : Stairs Int := ⟨some 0, [(2, some 7)], .right⟩
def k₃ : Stairs Int := ⟨some 1, [], .right⟩

/-- **refutation (closed side)**: without a common closed side the object-level law fails – the partial sum of
`[g₁, g₂]` cancels to a step-free function, so `+` takes the closed side of the other operand while the sum over
the append takes that of the members with steps -/
theorem sum_append_needs_common_closed :
    aggregate .sum [k₃] = .ok k₃ ∧ aggregate .sum [g₁, g₂] = .ok ⟨some 0, [], .left⟩ ∧
    aggregate .sum ([k₃] ++ [g₁, g₂]) = .ok ⟨some 1, [], .left⟩ ∧
    binop .add k₃ ⟨some 0, [], .left⟩ = .ok ⟨some 1, [], .right⟩ := by decide +kernel

/-- **refutation (errors)**: the sum over the append may raise a closed mismatch although both partial sums and
their `+` succeed -/
theorem sum_append_error_mismatch :
    aggregate .sum [g₁, g₂] = .ok ⟨some 0, [], .left⟩ ∧ aggregate .sum [g₃] = .ok g₃ ∧
    aggregate .sum ([g₁, g₂] ++ [g₃]) = .error .closedMismatch ∧
    binop .add ⟨some 0, [], .left⟩ g₃ = .ok g₃ := by decide +kernel

/-- **refutation (empty part)**: the min of no members is undefined everywhere, so an empty part destroys the
law for min (and max); for sum an empty part contributes the constant 0 (left-closed) -/
theorem min_append_needs_nonempty :
    aggregate .min ([] : List (Stairs Int)) = .ok ⟨none, [], .left⟩ ∧
    aggregate .min ([] ++ [g₁]) = .ok g₁ ∧
    aggregate .min [⟨none, [], .left⟩, g₁] = .ok ⟨none, [], .left⟩ := by decide +kernel

/-! ## 5. pointwise bounds -/

/-- at one point -/
theorem eval_bounds (vs : List Val) (a b c : Rat) (ha : AggFn.min.eval vs = some a)
    (hb : AggFn.mean.eval vs = some b) (hc : AggFn.max.eval vs = some c) : a ≤ b ∧ b ≤ c :=
  (a18b_eval_bounds vs).2.2.2.1 a b c ha hb hc

/-- **C18b.5** min-aggregate ≤ mean-aggregate ≤ max-aggregate (both one-sided limits, every point); the three
are undefined at the same points -/
theorem min_le_mean_le_max (ms : List (Stairs P)) (hms : ∀ m ∈ ms, m.WF) (hmin hmean hmax : Stairs P)
    (h1 : aggregate .min ms = .ok hmin) (h2 : aggregate .mean ms = .ok hmean) (h3 : aggregate .max ms = .ok hmax)
    (st : Bool) (x : P) :
    (Den hmin st x = none ↔ Den hmean st x = none) ∧ (Den hmax st x = none ↔ Den hmean st x = none) ∧
    ∀ a b c, Den hmin st x = some a → Den hmean st x = some b → Den hmax st x = some c → a ≤ b ∧ b ≤ c := by
  rw [(den_aggregate .min ms hmin hms h1).2 st x, (den_aggregate .mean ms hmean hms h2).2 st x,
      (den_aggregate .max ms hmax hms h3).2 st x]
  obtain ⟨e1, e2, _, e4, _⟩ := a18b_eval_bounds (ms.map fun m => Den m st x)
  exact ⟨e1, e2, e4⟩

/-- min-aggregate ≤ median-aggregate ≤ max-aggregate -/
theorem min_le_median_le_max (ms : List (Stairs P)) (hms : ∀ m ∈ ms, m.WF) (hmin hmed hmax : Stairs P)
    (h1 : aggregate .min ms = .ok hmin) (h2 : aggregate .median ms = .ok hmed) (h3 : aggregate .max ms = .ok hmax)
    (st : Bool) (x : P) :
    (Den hmin st x = none ↔ Den hmed st x = none) ∧ (Den hmax st x = none ↔ Den hmed st x = none) ∧
    ∀ a m c, Den hmin st x = some a → Den hmed st x = some m → Den hmax st x = some c → a ≤ m ∧ m ≤ c := by
  rw [(den_aggregate .min ms hmin hms h1).2 st x, (den_aggregate .median ms hmed hms h2).2 st x,
      (den_aggregate .max ms hmax hms h3).2 st x]
  obtain ⟨e1, e2, e3, _, e5⟩ := a18b_eval_bounds (ms.map fun m => Den m st x)
  exact ⟨e1.trans e3.symm, e2.trans e3.symm, e5⟩

/-- the same for the sampled values `h(x)`: the three results share their closed side -/
theorem sample_min_le_mean_le_max (ms : List (Stairs P)) (hms : ∀ m ∈ ms, m.WF) (hmin hmean hmax : Stairs P)
    (h1 : aggregate .min ms = .ok hmin) (h2 : aggregate .mean ms = .ok hmean) (h3 : aggregate .max ms = .ok hmax)
    (x : P) (a b c : Rat) (ha : hmin.sample x = some a) (hb : hmean.sample x = some b)
    (hc : hmax.sample x = some c) : a ≤ b ∧ b ≤ c := by
  have c1 := a18b_closed_of_aggregate _ ms hmin h1
  have c2 := a18b_closed_of_aggregate _ ms hmean h2
  have c3 := a18b_closed_of_aggregate _ ms hmax h3
  have e12 : hmean.closed = hmin.closed := by rw [c1] at c2; injection c2 with c2; exact c2.symm
  have e13 : hmax.closed = hmin.closed := by rw [c1] at c3; injection c3 with c3; exact c3.symm
  rw [sample_eq_den] at ha hb hc
  rw [e12] at hb
  rw [e13] at hc
  exact (min_le_mean_le_max ms hms hmin hmean hmax h1 h2 h3 _ x).2.2 a b c ha hb hc

/-! ## non-vacuity over `Stairs Int` -/
def a₀ : Stairs Int := ⟨some 0, [(1, some 2), (4, some 0)], .left⟩
def b₀ : Stairs Int := ⟨some 1, [(2, some 3), (6, none)], .left⟩
def d₀ : Stairs Int := ⟨none, [(3, some (-1))], .left⟩   -- undefined before 3
def r₀ : Stairs Int := ⟨some 1, [(0, some 1), (2, some 4), (3, some 4)], .left⟩   -- WF, not canonical

-- 1. permutation: the hypotheses hold and the two orders agree (a member has steps; the step-free k₃ has the
--    other closed side and does not matter)
example : [a₀, b₀, k₃, d₀].Perm [k₃, d₀, b₀, a₀] ∧ (∀ m ∈ [a₀, b₀, k₃, d₀], m.WF) ∧
    (∃ m ∈ [a₀, b₀, k₃, d₀], m.hasSteps = true) := by decide +kernel
example : aggregate .median [a₀, b₀, k₃, d₀] = aggregate .median [k₃, d₀, b₀, a₀] ∧
    aggregate .median [a₀, b₀, k₃, d₀] = .ok ⟨none, [(3, some (3/2)), (4, some (1/2)), (6, none)], .left⟩ := by
  decide +kernel
-- an erroring collection errs in every order
example : aggregate .max [a₀, g₃] = .error .closedMismatch ∧ aggregate .max [g₃, a₀] = .error .closedMismatch := by
  decide +kernel
-- 2. singleton
example : r₀.WF ∧ ¬ r₀.Canonical ∧ aggregate .median [r₀] = .ok ⟨some 1, [(2, some 4)], .left⟩ ∧
    (canon r₀ : Stairs Int) = ⟨some 1, [(2, some 4)], .left⟩ := by decide +kernel
example : aggregate .logicalAnd [a₀] = .ok (unop .makeBoolean a₀) ∧
    aggregate .logicalAnd [a₀] = .ok ⟨some 0, [(1, some 1), (4, some 0)], .left⟩ := by decide +kernel
-- 3. duplication
example : b₀.Canonical ∧ aggregate .median [b₀, b₀] = .ok b₀ ∧ aggregate .mean [b₀, b₀] = .ok b₀ ∧
    aggregate .min [b₀, b₀] = .ok b₀ ∧ aggregate .max [b₀, b₀] = .ok b₀ := by decide +kernel
example : aggregate .sum [b₀, b₀] = .ok ⟨some 2, [(2, some 6), (6, none)], .left⟩ ∧
    binop .add b₀ b₀ = .ok ⟨some 2, [(2, some 6), (6, none)], .left⟩ ∧
    binopO .mul (.sc (some 2)) (.st b₀) = some (.ok ⟨some 2, [(2, some 6), (6, none)], .left⟩) := by decide +kernel
-- 4. append
example : (∀ m ∈ [a₀, b₀] ++ [d₀, g₁], m.closed = .left) ∧ (∀ m ∈ [a₀, b₀], m.WF) ∧ (∀ m ∈ [d₀, g₁], m.WF) := by
  decide +kernel
example : aggregate .sum [a₀, b₀] = .ok ⟨some 1, [(1, some 3), (2, some 5), (4, some 3), (6, none)], .left⟩ ∧
    aggregate .sum [d₀, g₁] = .ok ⟨none, [(3, some 1)], .left⟩ ∧
    aggregate .sum ([a₀, b₀] ++ [d₀, g₁]) = .ok ⟨none, [(3, some 6), (4, some 4), (6, none)], .left⟩ ∧
    binop .add ⟨some 1, [(1, some 3), (2, some 5), (4, some 3), (6, none)], .left⟩ ⟨none, [(3, some 1)], .left⟩
      = .ok ⟨none, [(3, some 6), (4, some 4), (6, none)], .left⟩ := by decide +kernel
example : aggregate .min ([a₀, b₀] ++ [d₀, g₁]) = .ok ⟨none, [(3, some (-1)), (6, none)], .left⟩ ∧
    aggregate .min [⟨some 0, [(1, some 1), (2, some 2), (4, some 0), (6, none)], .left⟩, ⟨none, [(3, some (-1))], .left⟩]
      = .ok ⟨none, [(3, some (-1)), (6, none)], .left⟩ := by decide +kernel
-- 5. bounds: min ≤ mean ≤ max on a collection, strict somewhere
example : aggregate .min [a₀, b₀, g₁] = .ok ⟨some 0, [(1, some 1), (2, some 2), (4, some 0), (6, none)], .left⟩ ∧
    aggregate .mean [a₀, b₀, g₁] = .ok ⟨some (1/3), [(1, some (5/3)), (2, some (7/3)), (4, some (5/3)), (6, none)], .left⟩ ∧
    aggregate .max [a₀, b₀, g₁] = .ok ⟨some 1, [(1, some 2), (2, some 3), (6, none)], .left⟩ := by decide +kernel

-- the theorems applied to these inputs (all hypotheses discharged by evaluation)
example : aggregate .median [a₀, b₀, k₃, d₀] = aggregate .median [k₃, d₀, b₀, a₀] :=
  aggregate_perm .median _ _ (by decide +kernel) (by decide +kernel) (Or.inl (by decide +kernel))
example : aggregate .mean [k₁, k₃] = aggregate .mean [k₃, k₁] :=
  aggregate_perm .mean _ _ (by decide +kernel) (by decide +kernel) (Or.inr (by decide +kernel))
example : aggregate .max [r₀] = .ok (canon r₀) := aggregate_singleton .max (by decide) r₀ (by decide +kernel)
example : aggregate .median [r₀, r₀] = .ok (canon r₀) :=
  aggregate_pair_self .median (by decide) r₀ (by decide +kernel)
example : aggregate .sum [r₀, r₀] = binop .add r₀ r₀ := aggregate_sum_pair_self_eq_add r₀ (by decide +kernel)
example : ∃ a b h, aggregate .sum [a₀, b₀] = .ok a ∧ aggregate .sum [d₀, g₁] = .ok b ∧
    aggregate .sum ([a₀, b₀] ++ [d₀, g₁]) = .ok h ∧ binop .add a b = .ok h ∧ aggregate .sum [a, b] = .ok h :=
  sum_append [a₀, b₀] [d₀, g₁] .left (by decide +kernel) (by decide +kernel) (by simp) (by simp) (by decide +kernel)
example : ∃ a b h, aggregate .min [a₀, b₀] = .ok a ∧ aggregate .min [d₀, g₁] = .ok b ∧
    aggregate .min ([a₀, b₀] ++ [d₀, g₁]) = .ok h ∧ aggregate .min [a, b] = .ok h :=
  min_append [a₀, b₀] [d₀, g₁] .left (by decide +kernel) (by decide +kernel) (by simp) (by simp) (by decide +kernel)

end SC.Props.C18b
