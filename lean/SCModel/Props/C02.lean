import SCModel.Lemmas.Layer
import Mathlib.Data.Int.Order.Basic
/-!
# C02 — `layer` adds `+value` from `start` on and `-value` from `end` on, in any order

After any sequence of layer calls the step function equals, at every point where it was defined, its
previous value plus the sum of the contributions of the layered triples
(`contribution t st x = (value if start reached) − (value if end reached)`; a missing start is −∞, a missing
end +∞).  Points where the receiver was undefined stay undefined, the closed side is kept, the order of
layering is irrelevant and the result is canonical.  `Den h st x` is the one-sided limit (`st = true`: left
limit), so everything holds for either closed convention.

The "missing value = 1" default and NaN/None start/end normalisation are argument sugar handled before
the model: a triple always carries a rational value and `Option` endpoints.
-/
set_option linter.unusedSectionVars false
namespace SC.Props.C02
open SC SC.Stairs
variable {P : Type} [LinearOrder P]

/-! ## the two rays a layered triple is made of -/

/-- `+v` from the start on; a missing start is −∞ (in effect everywhere) -/
theorem den_startRay (s : Option P) (v : Rat) (cl : Side) (st : Bool) (x : P) :
    Den (startRay s v cl) st x =
      some (if s = none ∨ ∃ p, s = some p ∧ reached st p x = true then v else 0) := by
  rw [Stairs.den_startRay]
  by_cases h : startReached s st x = true
  · rw [if_pos h, if_pos ((startReached_iff s st x).mp h)]
  · rw [if_neg h, if_neg (fun h' => h ((startReached_iff s st x).mpr h'))]

/-- `+v` from the end on; a missing end is +∞ (never in effect) -/
theorem den_stopRay (e : Option P) (v : Rat) (cl : Side) (st : Bool) (x : P) :
    Den (stopRay e v cl) st x = some (if ∃ p, e = some p ∧ reached st p x = true then v else 0) := by
  rw [Stairs.den_stopRay]
  by_cases h : stopReached e st x = true
  · rw [if_pos h, if_pos ((stopReached_iff e st x).mp h)]
  · rw [if_neg h, if_neg (fun h' => h ((stopReached_iff e st x).mpr h'))]

theorem rays_wf (s : Option P) (v : Rat) (cl : Side) : (startRay s v cl).WF ∧ (stopRay s v cl).WF :=
  ⟨wf_startRay s v cl, wf_stopRay s v cl⟩

/-- the contribution of a triple in terms of the order on points: right limit (`st = false`) uses `≤`,
left limit `<` -/
theorem contribution_right (s e : P) (v : Rat) (x : P) :
    contribution ⟨some s, some e, v⟩ false x = (if s ≤ x then v else 0) - (if e ≤ x then v else 0) := by
  simp only [contribution, startReached, stopReached, reached_right_iff]

theorem contribution_left (s e : P) (v : Rat) (x : P) :
    contribution ⟨some s, some e, v⟩ true x = (if s < x then v else 0) - (if e < x then v else 0) := by
  simp only [contribution, startReached, stopReached, reached_left_iff]

/-- missing start: the value is in effect from −∞ -/
theorem contribution_no_start (e : P) (v : Rat) (st : Bool) (x : P) :
    contribution ⟨none, some e, v⟩ st x = v - (if reached st e x then v else 0) := by
  simp only [contribution, startReached, stopReached, if_true]; rfl

/-- missing end: the value is never taken away -/
theorem contribution_no_stop (s : P) (v : Rat) (st : Bool) (x : P) :
    contribution ⟨some s, none, v⟩ st x = (if reached st s x then v else 0) := by
  simp only [contribution, startReached, stopReached]
  split <;> grind

/-- both missing: the constant `value` -/
theorem contribution_unbounded (v : Rat) (st : Bool) (x : P) :
    contribution (⟨none, none, v⟩ : Triple P) st x = v := by
  simp only [contribution, startReached, stopReached]; grind

/-- empty interval (`start = end`): nothing is added anywhere -/
theorem contribution_empty (p : P) (v : Rat) (st : Bool) (x : P) :
    contribution ⟨some p, some p, v⟩ st x = 0 := by
  simp only [contribution, startReached, stopReached]; grind

/-- inside `[s, e)` the contribution is `v`, outside 0 (for `s < e`, right limits) -/
theorem contribution_interval (s e : P) (v : Rat) (x : P) (hse : s < e) :
    contribution ⟨some s, some e, v⟩ false x = if s ≤ x ∧ x < e then v else 0 := by
  rw [contribution_right]
  by_cases h1 : s ≤ x <;> by_cases h2 : e ≤ x
  · rw [if_pos h1, if_pos h2, if_neg (fun h => absurd h.2 (not_lt.mpr h2))]; grind
  · rw [if_pos h1, if_neg h2, if_pos ⟨h1, not_le.mp h2⟩]; grind
  · exact absurd (le_trans (le_of_lt hse) h2) h1
  · rw [if_neg h1, if_neg h2, if_neg (fun h => h1 h.1)]; grind

/-- reversed interval (`end < start`): `-v` on `[e, s)` -/
theorem contribution_reversed (s e : P) (v : Rat) (x : P) (hes : e < s) :
    contribution ⟨some s, some e, v⟩ false x = if e ≤ x ∧ x < s then -v else 0 := by
  rw [contribution_right]
  by_cases h1 : s ≤ x <;> by_cases h2 : e ≤ x
  · rw [if_pos h1, if_pos h2, if_neg (fun h => absurd h.2 (not_lt.mpr h1))]; grind
  · exact absurd (le_trans (le_of_lt hes) h1) h2
  · rw [if_neg h1, if_pos h2, if_pos ⟨h2, not_le.mp h1⟩]; grind
  · rw [if_neg h1, if_neg h2, if_neg (fun h => h2 h.1)]; grind

/-! ## one layer call -/

/-- raw form: two pointwise additions of rays -/
theorem den_layer1 (f : Stairs P) (t : Triple P) (hf : f.WF) (st : Bool) (x : P) :
    Den (layer1 f t) st x =
      vadd (vadd (Den f st x) (some (if startReached t.start st x then t.value else 0)))
        (some (if stopReached t.stop st x then -t.value else 0)) := Stairs.den_layer1 f t hf st x

/-- where the receiver was defined: previous value plus the contribution -/
theorem den_layer1_defined (f : Stairs P) (t : Triple P) (hf : f.WF) (st : Bool) (x : P) (a : Rat)
    (ha : Den f st x = some a) : Den (layer1 f t) st x = some (a + contribution t st x) :=
  Stairs.den_layer1_defined f t hf st x a ha

/-- undefined exactly where the receiver was undefined -/
theorem den_layer1_undefined_iff (f : Stairs P) (t : Triple P) (hf : f.WF) (st : Bool) (x : P) :
    Den (layer1 f t) st x = none ↔ Den f st x = none := den_layer1_none_iff f t hf st x

theorem den_layer1_undefined (f : Stairs P) (t : Triple P) (hf : f.WF) (st : Bool) (x : P)
    (h : Den f st x = none) : Den (layer1 f t) st x = none := (den_layer1_none_iff f t hf st x).mpr h

/-! ## any sequence of layer calls / one vector call -/

/-- **C02.** value after layering = previous value + Σ contributions, on the receiver's domain -/
theorem den_layer (f : Stairs P) (ts : List (Triple P)) (hf : f.WF) (st : Bool) (x : P) :
    Den (layer f ts) st x = (Den f st x).map (· + (ts.map (contribution · st x)).sum) :=
  Stairs.den_layer f ts hf st x

theorem den_layer_defined (f : Stairs P) (ts : List (Triple P)) (hf : f.WF) (st : Bool) (x : P) (a : Rat)
    (ha : Den f st x = some a) :
    Den (layer f ts) st x = some (a + (ts.map (contribution · st x)).sum) := by
  rw [den_layer f ts hf, ha]; rfl

/-- points where the receiver was undefined stay undefined, and no others become undefined -/
theorem den_layer_undefined_iff (f : Stairs P) (ts : List (Triple P)) (hf : f.WF) (st : Bool) (x : P) :
    Den (layer f ts) st x = none ↔ Den f st x = none := by
  rw [den_layer f ts hf]; cases Den f st x <;> simp

/-- the result is well-formed, canonical as soon as something was layered (or the receiver was), and
keeps the receiver's closed side ("layer returns the receiver") -/
theorem layer_wf (f : Stairs P) (ts : List (Triple P)) (hf : f.WF) : (layer f ts).WF := wf_layer f ts hf
theorem layer_canonical (f : Stairs P) (ts : List (Triple P)) (hf : f.WF) (hts : ts ≠ []) :
    (layer f ts).Canonical := canonical_layer f ts hf hts
theorem layer_canonical' (f : Stairs P) (ts : List (Triple P)) (hf : f.Canonical) :
    (layer f ts).Canonical := canonical_layer_of_canonical f ts hf
theorem layer_closed (f : Stairs P) (ts : List (Triple P)) : (layer f ts).closed = f.closed :=
  closed_layer f ts

/-- successive calls are one vector call -/
theorem layer_layer (f : Stairs P) (ts us : List (Triple P)) : layer (layer f ts) us = layer f (ts ++ us) :=
  layer_append f ts us

/-- the constructor shorthand `Stairs(start, end, value)` is `layer` on the zero function -/
theorem constructor_shorthand (t : Triple P) (cl : Side) (st : Bool) (x : P) :
    Den (layer (const (some 0) cl) [t]) st x = some (contribution t st x) := by
  rw [den_layer _ _ (wf_const _ _)]
  simp [Rat.add_zero, Rat.zero_add]

/-! ## order independence -/

theorem layer_perm_den (f : Stairs P) (ts ts' : List (Triple P)) (hf : f.WF) (h : ts.Perm ts')
    (st : Bool) (x : P) : Den (layer f ts) st x = Den (layer f ts') st x := by
  rw [den_layer f ts hf, den_layer f ts' hf, perm_contributions h]

/-- … and, results being canonical, the two objects are equal -/
theorem layer_perm [NoMinOrder P] [Nonempty P] (f : Stairs P) (ts ts' : List (Triple P)) (hf : f.WF)
    (h : ts.Perm ts') : layer f ts = layer f ts' := by
  by_cases hts : ts = []
  · subst hts; rw [List.nil_perm.mp h]
  · have hts' : ts' ≠ [] := fun h' => hts (by subst h'; exact List.perm_nil.mp h)
    exact canonical_ext _ _ (canonical_layer f ts hf hts) (canonical_layer f ts' hf hts')
      (by rw [closed_layer, closed_layer]) (fun x => layer_perm_den f ts ts' hf h false x)

theorem layer_swap [NoMinOrder P] [Nonempty P] (f : Stairs P) (t u : Triple P) (hf : f.WF) :
    layer1 (layer1 f t) u = layer1 (layer1 f u) t :=
  layer_perm f [t, u] [u, t] hf (List.Perm.swap u t [])

/-! ## exact cancellation and the all-undefined receiver -/

theorem contribution_neg (t : Triple P) (st : Bool) (x : P) :
    contribution ⟨t.start, t.stop, -t.value⟩ st x = -contribution t st x := by
  simp only [contribution]
  split <;> split <;> grind

/-- layering a triple and then its negative gives back the same function … -/
theorem layer_cancel_den (f : Stairs P) (t : Triple P) (hf : f.WF) (st : Bool) (x : P) :
    Den (layer f [t, ⟨t.start, t.stop, -t.value⟩]) st x = Den f st x := by
  rw [den_layer f _ hf]
  simp only [List.map_cons, List.map_nil, List.sum_cons, List.sum_nil, contribution_neg]
  cases Den f st x with
  | none => rfl
  | some a => simp only [Option.map_some]; congr 1; grind

/-- … and for a canonical receiver the very same object (no leftover step points) -/
theorem layer_cancel [NoMinOrder P] [Nonempty P] (f : Stairs P) (t : Triple P) (hf : f.Canonical) :
    layer f [t, ⟨t.start, t.stop, -t.value⟩] = f :=
  canonical_ext _ _ (canonical_layer_of_canonical f _ hf) hf (closed_layer f _)
    (fun x => layer_cancel_den f t hf.1 false x)

/-- for a merely well-formed receiver the result is its canonical form -/
theorem layer_cancel_canon [NoMinOrder P] [Nonempty P] (f : Stairs P) (t : Triple P) (hf : f.WF) :
    layer f [t, ⟨t.start, t.stop, -t.value⟩] = f.canon :=
  canonical_ext _ _ (canonical_layer f _ hf (by simp)) (canonical_canon f hf) (closed_layer f _)
    (fun x => by rw [layer_cancel_den f t hf, den_canon f hf])

/-- an all-undefined (step-free NaN) receiver is unchanged by layering -/
theorem layer_undefined (cl : Side) (ts : List (Triple P)) :
    layer (⟨none, [], cl⟩ : Stairs P) ts = ⟨none, [], cl⟩ := by
  induction ts with
  | nil => rfl
  | cons t ts ih =>
    rw [layer_cons]
    have : layer1 (⟨none, [], cl⟩ : Stairs P) t = ⟨none, [], cl⟩ := by
      unfold layer1; simp only [combine_vadd_undefined]
    rw [this, ih]

/-! ## non-vacuity over `Stairs Int` -/
def z : Stairs Int := ⟨some 0, [], .left⟩
def f₀ : Stairs Int := ⟨some 0, [(1, some 2), (5, none), (7, some 1)], .right⟩

-- exact cancellation leaves no step points
example : layer z [⟨some 1, some 2, 1⟩, ⟨some 1, some 2, -1⟩] = z := by decide +kernel
-- nested, overlapping, abutting and repeated intervals
example : layer z [⟨some 1, some 10, 1⟩, ⟨some 3, some 5, 2⟩] =
    ⟨some 0, [(1, some 1), (3, some 3), (5, some 1), (10, some 0)], .left⟩ := by decide +kernel
example : layer z [⟨some 1, some 5, 1⟩, ⟨some 3, some 8, 1⟩] =
    ⟨some 0, [(1, some 1), (3, some 2), (5, some 1), (8, some 0)], .left⟩ := by decide +kernel
example : layer z [⟨some 1, some 3, 1⟩, ⟨some 3, some 5, 1⟩] =
    ⟨some 0, [(1, some 1), (5, some 0)], .left⟩ := by decide +kernel
example : layer z [⟨some 1, some 3, 1⟩, ⟨some 1, some 3, 1⟩] =
    ⟨some 0, [(1, some 2), (3, some 0)], .left⟩ := by decide +kernel
-- empty and reversed intervals, missing start / end
example : layer z [⟨some 4, some 4, 7⟩] = z := by decide +kernel
example : layer z [⟨some 5, some 2, 1⟩] = ⟨some 0, [(2, some (-1)), (5, some 0)], .left⟩ := by decide +kernel
example : layer z [⟨none, some 2, 3⟩] = ⟨some 3, [(2, some 0)], .left⟩ := by decide +kernel
example : layer z [⟨some 2, none, 3⟩] = ⟨some 0, [(2, some 3)], .left⟩ := by decide +kernel
example : layer z [⟨none, none, 3⟩] = ⟨some 3, [], .left⟩ := by decide +kernel
-- undefined pieces stay undefined, the closed side is kept, order does not matter
example : layer f₀ [⟨some 0, some 6, 1⟩, ⟨some 6, none, 2⟩] =
    ⟨some 0, [(0, some 1), (1, some 3), (5, none), (7, some 3)], .right⟩ := by decide +kernel
example : layer f₀ [⟨some 6, none, 2⟩, ⟨some 0, some 6, 1⟩] =
    layer f₀ [⟨some 0, some 6, 1⟩, ⟨some 6, none, 2⟩] := by decide +kernel
example : layer (⟨none, [], .left⟩ : Stairs Int) [⟨some 1, some 2, 1⟩] = ⟨none, [], .left⟩ := by decide +kernel

end SC.Props.C02
