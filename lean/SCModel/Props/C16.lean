import SCModel.Lemmas.Masking
import Mathlib.Data.Int.Order.Basic
/-!
# C16 — Results depend only on the functions denoted, and compose without errors

`Expr` is the language of compositions of public operations.  `Expr.eval` runs the model operations,
`Expr.sem` is "the pointwise definitions applied step by step".  `eval_sem` says they agree for every
well-formed tree, `eval_total` that evaluation never fails on consistently closed leaves, and `eval_congr`
that replacing leaves by any other representation of the same functions changes nothing.
-/
set_option linter.unusedSectionVars false
namespace SC.Props.C16
open SC SC.Stairs
variable {P : Type} [LinearOrder P]

inductive Expr (P : Type)
  | leaf (f : Stairs P)
  | un (u : UnOp) (e : Expr P)
  | bin (o : BinOp) (a b : Expr P)
  | binR (o : BinOp) (a : Expr P) (c : Val)        -- scalar on the right
  | binL (o : BinOp) (c : Val) (b : Expr P)        -- scalar on the left
  | clip (e : Expr P) (lo hi : Option P)
  | mask (a m : Expr P)
  | wher (a m : Expr P)
  | fillS (a b : Expr P)
  | fillC (a : Expr P) (v : Val)

/-- run the model operations bottom-up -/
def Expr.eval : Expr P → Except Err (Stairs P)
  | .leaf f => .ok f
  | .un u e => do let x ← e.eval; pure (unop u x)
  | .bin o a b => do let x ← a.eval; let y ← b.eval; binop o x y
  | .binR o a c => do let x ← a.eval; binop o x (const c x.closed)
  | .binL o c b => do let y ← b.eval; binop o (const c y.closed) y
  | .clip e lo hi => do let x ← e.eval; Stairs.clip x lo hi
  | .mask a m => do let x ← a.eval; let y ← m.eval; Stairs.mask x y
  | .wher a m => do let x ← a.eval; let y ← m.eval; where_ x y
  | .fillS a b => do let x ← a.eval; let y ← b.eval; fillnaStairs x y
  | .fillC a v => do let x ← a.eval; pure (fillnaScalar x v)

/-- the pointwise definitions, applied step by step to the functions the leaves denote -/
def Expr.sem : Expr P → Bool → P → Val
  | .leaf f, st, x => Den f st x
  | .un u e, st, x => u.eval (e.sem st x)
  | .bin o a b, st, x => o.eval (a.sem st x) (b.sem st x)
  | .binR o a c, st, x => o.eval (a.sem st x) c
  | .binL o c b, st, x => o.eval c (b.sem st x)
  | .clip e lo hi, st, x => if inWindow st lo hi x then e.sem st x else none
  | .mask a m, st, x => maskOp (a.sem st x) (m.sem st x)
  | .wher a m, st, x => whereOp (a.sem st x) (m.sem st x)
  | .fillS a b, st, x => fillOp (a.sem st x) (b.sem st x)
  | .fillC a v, st, x => fillOp (a.sem st x) v

/-- leaves are well-formed -/
def Expr.LeavesWF : Expr P → Prop
  | .leaf f => f.WF
  | .un _ e => e.LeavesWF
  | .bin _ a b | .mask a b | .wher a b | .fillS a b => a.LeavesWF ∧ b.LeavesWF
  | .binR _ a _ | .binL _ _ a | .fillC a _ => a.LeavesWF
  | .clip e _ _ => e.LeavesWF

/-- all leaves share the side `cl`, and every clip has `lower < upper` -/
def Expr.OK (cl : Side) : Expr P → Prop
  | .leaf f => f.closed = cl
  | .un _ e => e.OK cl
  | .bin _ a b | .mask a b | .wher a b | .fillS a b => a.OK cl ∧ b.OK cl
  | .binR _ a _ | .binL _ _ a | .fillC a _ => a.OK cl
  | .clip e lo hi => e.OK cl ∧ boundsOk lo hi = true

theorem bind_ok {α β : Type} {x : Except Err α} {f : α → Except Err β} {r : β}
    (h : x >>= f = .ok r) : ∃ a, x = .ok a ∧ f a = .ok r := by
  cases x with
  | error e => cases h
  | ok a => exact ⟨a, rfl, h⟩

/-- **evaluation = the pointwise definitions applied step by step**, and every intermediate result is
canonical (so it is a first-class operand) -/
theorem eval_sem (e : Expr P) (he : e.LeavesWF) (h : Stairs P) (hr : e.eval = .ok h) :
    h.WF ∧ ∀ st x, Den h st x = e.sem st x := by
  induction e generalizing h with
  | leaf f => injection hr with hr; subst hr; exact ⟨he, fun _ _ => rfl⟩
  | un u e ih =>
    obtain ⟨a, ha, hr⟩ := bind_ok hr
    injection hr with hr; subst hr
    obtain ⟨hw, hd⟩ := ih he a ha
    exact ⟨wf_unop u a hw, fun st x => by rw [den_unop u a hw, hd]; rfl⟩
  | bin o a b iha ihb =>
    obtain ⟨x, hx, hr⟩ := bind_ok hr
    obtain ⟨y, hy, hr⟩ := bind_ok hr
    obtain ⟨hwx, hdx⟩ := iha he.1 x hx
    obtain ⟨hwy, hdy⟩ := ihb he.2 y hy
    obtain ⟨hc, _, hp⟩ := combineChecked_ok o.eval x y h hwx hwy hr
    exact ⟨hc.1, fun st z => by rw [hp, hdx, hdy]; rfl⟩
  | binR o a c iha =>
    obtain ⟨x, hx, hr⟩ := bind_ok hr
    obtain ⟨hwx, hdx⟩ := iha he x hx
    obtain ⟨hc, _, hp⟩ := combineChecked_ok o.eval x _ h hwx (wf_const c x.closed) hr
    exact ⟨hc.1, fun st z => by rw [hp, hdx]; rfl⟩
  | binL o c b ihb =>
    obtain ⟨y, hy, hr⟩ := bind_ok hr
    obtain ⟨hwy, hdy⟩ := ihb he y hy
    obtain ⟨hc, _, hp⟩ := combineChecked_ok o.eval _ y h (wf_const c y.closed) hwy hr
    exact ⟨hc.1, fun st z => by rw [hp, hdy]; rfl⟩
  | clip e lo hi ih =>
    obtain ⟨x, hx, hr⟩ := bind_ok hr
    obtain ⟨hwx, hdx⟩ := ih he x hx
    by_cases hb : boundsOk lo hi = true
    · exact ⟨(canonical_clip x lo hi hwx hb h hr).1.1,
        fun st z => by rw [den_clip x lo hi hwx hb h hr, hdx]; rfl⟩
    · rw [clip_error x lo hi (by simpa using hb)] at hr; cases hr
  | mask a m iha ihm =>
    obtain ⟨x, hx, hr⟩ := bind_ok hr
    obtain ⟨y, hy, hr⟩ := bind_ok hr
    obtain ⟨hwx, hdx⟩ := iha he.1 x hx
    obtain ⟨hwy, hdy⟩ := ihm he.2 y hy
    obtain ⟨hc, _, hp⟩ := combineChecked_ok maskOp x y h hwx hwy hr
    exact ⟨hc.1, fun st z => by rw [hp, hdx, hdy]; rfl⟩
  | wher a m iha ihm =>
    obtain ⟨x, hx, hr⟩ := bind_ok hr
    obtain ⟨y, hy, hr⟩ := bind_ok hr
    obtain ⟨hwx, hdx⟩ := iha he.1 x hx
    obtain ⟨hwy, hdy⟩ := ihm he.2 y hy
    obtain ⟨hc, _, hp⟩ := combineChecked_ok whereOp x y h hwx hwy hr
    exact ⟨hc.1, fun st z => by rw [hp, hdx, hdy]; rfl⟩
  | fillS a b iha ihb =>
    obtain ⟨x, hx, hr⟩ := bind_ok hr
    obtain ⟨y, hy, hr⟩ := bind_ok hr
    obtain ⟨hwx, hdx⟩ := iha he.1 x hx
    obtain ⟨hwy, hdy⟩ := ihb he.2 y hy
    obtain ⟨hc, _, hp⟩ := combineChecked_ok fillOp x y h hwx hwy hr
    exact ⟨hc.1, fun st z => by rw [hp, hdx, hdy]; rfl⟩
  | fillC a v iha =>
    obtain ⟨x, hx, hr⟩ := bind_ok hr
    injection hr with hr; subst hr
    obtain ⟨hwx, hdx⟩ := iha he x hx
    exact ⟨wf_map _ x hwx, fun st z => by
      rw [show Den (fillnaScalar x v) st z = fillOp (Den x st z) v from den_map _ x hwx st z, hdx]; rfl⟩

/-- **no internal error**: a tree over consistently closed leaves (with valid clip bounds) always
evaluates, and its result carries that closed side -/
theorem eval_total (cl : Side) (e : Expr P) (he : e.OK cl) : ∃ h, e.eval = .ok h ∧ h.closed = cl := by
  have side : ∀ (x y : Stairs P), x.closed = cl → y.closed = cl → ¬ Mismatch x y ∧ sideOf x y = cl := by
    intro x y hx hy
    refine ⟨not_mismatch_of_closed_eq x y (hx.trans hy.symm), ?_⟩
    unfold sideOf; rw [hx, hy]; cases x.hasSteps <;> cases y.hasSteps <;> simp
  have comb : ∀ (op : Val → Val → Val) (x y : Stairs P), x.closed = cl → y.closed = cl →
      ∃ h, combineChecked op x y = .ok h ∧ h.closed = cl := by
    intro op x y hx hy
    obtain ⟨hm, hs⟩ := side x y hx hy
    exact ⟨_, combineChecked_total op x y hm, by simp [hs]⟩
  induction e with
  | leaf f => exact ⟨f, rfl, he⟩
  | un u e ih =>
    obtain ⟨x, hx, hc⟩ := ih he
    exact ⟨unop u x, by simp only [Expr.eval, hx]; rfl, hc⟩
  | bin o a b iha ihb =>
    obtain ⟨x, hx, hcx⟩ := iha he.1
    obtain ⟨y, hy, hcy⟩ := ihb he.2
    obtain ⟨h, hh, hc⟩ := comb o.eval x y hcx hcy
    exact ⟨h, by simp only [Expr.eval, hx, hy]; exact hh, hc⟩
  | binR o a c iha =>
    obtain ⟨x, hx, hcx⟩ := iha he
    obtain ⟨h, hh, hc⟩ := comb o.eval x (const c x.closed) hcx hcx
    exact ⟨h, by simp only [Expr.eval, hx]; exact hh, hc⟩
  | binL o c b ihb =>
    obtain ⟨y, hy, hcy⟩ := ihb he
    obtain ⟨h, hh, hc⟩ := comb o.eval (const c y.closed) y hcy hcy
    exact ⟨h, by simp only [Expr.eval, hy]; exact hh, hc⟩
  | clip e lo hi ih =>
    obtain ⟨x, hx, hcx⟩ := ih he.1
    exact ⟨combine whereOp x (indicator lo hi x.closed) x.closed,
      by simp only [Expr.eval, hx]; exact clip_ok x lo hi he.2, hcx⟩
  | mask a m iha ihm =>
    obtain ⟨x, hx, hcx⟩ := iha he.1
    obtain ⟨y, hy, hcy⟩ := ihm he.2
    obtain ⟨h, hh, hc⟩ := comb maskOp x y hcx hcy
    exact ⟨h, by simp only [Expr.eval, hx, hy]; exact hh, hc⟩
  | wher a m iha ihm =>
    obtain ⟨x, hx, hcx⟩ := iha he.1
    obtain ⟨y, hy, hcy⟩ := ihm he.2
    obtain ⟨h, hh, hc⟩ := comb whereOp x y hcx hcy
    exact ⟨h, by simp only [Expr.eval, hx, hy]; exact hh, hc⟩
  | fillS a b iha ihb =>
    obtain ⟨x, hx, hcx⟩ := iha he.1
    obtain ⟨y, hy, hcy⟩ := ihb he.2
    obtain ⟨h, hh, hc⟩ := comb fillOp x y hcx hcy
    exact ⟨h, by simp only [Expr.eval, hx, hy]; exact hh, hc⟩
  | fillC a v iha =>
    obtain ⟨x, hx, hcx⟩ := iha he
    exact ⟨fillnaScalar x v, by simp only [Expr.eval, hx]; rfl, hcx⟩

/-- two trees of the same shape whose leaves denote the same functions (however they were built, whichever
internal form is materialised) -/
inductive SameShape : Expr P → Expr P → Prop
  | leaf (f g : Stairs P) (h : ∀ st x, Den f st x = Den g st x) : SameShape (.leaf f) (.leaf g)
  | un (u) {a a'} : SameShape a a' → SameShape (.un u a) (.un u a')
  | bin (o) {a a' b b'} : SameShape a a' → SameShape b b' → SameShape (.bin o a b) (.bin o a' b')
  | binR (o) (c) {a a'} : SameShape a a' → SameShape (.binR o a c) (.binR o a' c)
  | binL (o) (c) {a a'} : SameShape a a' → SameShape (.binL o c a) (.binL o c a')
  | clip (lo hi) {a a'} : SameShape a a' → SameShape (.clip a lo hi) (.clip a' lo hi)
  | mask {a a' b b'} : SameShape a a' → SameShape b b' → SameShape (.mask a b) (.mask a' b')
  | wher {a a' b b'} : SameShape a a' → SameShape b b' → SameShape (.wher a b) (.wher a' b')
  | fillS {a a' b b'} : SameShape a a' → SameShape b b' → SameShape (.fillS a b) (.fillS a' b')
  | fillC (v) {a a'} : SameShape a a' → SameShape (.fillC a v) (.fillC a' v)

theorem sem_congr (e e' : Expr P) (h : SameShape e e') (st : Bool) (x : P) : e.sem st x = e'.sem st x := by
  induction h with
  | leaf f g h => exact h st x
  | un u _ ih => simp [Expr.sem, ih]
  | bin o _ _ iha ihb => simp [Expr.sem, iha, ihb]
  | binR o c _ ih => simp [Expr.sem, ih]
  | binL o c _ ih => simp [Expr.sem, ih]
  | clip lo hi _ ih => simp [Expr.sem, ih]
  | mask _ _ iha ihb => simp [Expr.sem, iha, ihb]
  | wher _ _ iha ihb => simp [Expr.sem, iha, ihb]
  | fillS _ _ iha ihb => simp [Expr.sem, iha, ihb]
  | fillC v _ ih => simp [Expr.sem, ih]

/-- **the outcome depends only on the functions the arguments denote** -/
theorem eval_congr (e e' : Expr P) (hs : SameShape e e') (he : e.LeavesWF) (he' : e'.LeavesWF)
    (h h' : Stairs P) (hr : e.eval = .ok h) (hr' : e'.eval = .ok h') (st : Bool) (x : P) :
    Den h st x = Den h' st x := by
  rw [(eval_sem e he h hr).2, (eval_sem e' he' h' hr').2, sem_congr e e' hs]

/-! non-vacuity: the same function in two representations (one with a redundant row), used in a tree -/
def a₀ : Stairs Int := ⟨some 0, [(1, some 2), (3, none)], .left⟩
def a₁ : Stairs Int := ⟨some 0, [(0, some 0), (1, some 2), (2, some 2), (3, none)], .left⟩
def b₀ : Stairs Int := ⟨some 1, [(2, some 0)], .left⟩
def t (a : Stairs Int) : Expr Int := .fillC (.bin .div (.binR .add (.leaf a) (some 1)) (.clip (.leaf b₀) (some 0) (some 5))) (some 9)
example : (t a₀).LeavesWF ∧ (t a₁).LeavesWF ∧ (t a₀).OK .left := by
  simp only [t, Expr.LeavesWF, Expr.OK]; decide +kernel
example : (t a₀).eval = (t a₁).eval := by decide +kernel
example : (t a₀).eval = .ok ⟨some 9, [(0, some 1), (1, some 3), (2, some 9)], .left⟩ := by decide +kernel

end SC.Props.C16
