import SCModel.Props.C03
import SCModel.Props.C09b
import SCModel.Props.C10b
import SCModel.Props.C20c
/-!
# C11b — slicing in depth

`C11` specifies one slice / one slicer statistic / `resample` on tiling slices; this file is about the slicer as a whole.
Conventions as in C11: an interval of the index is `iv : Iv = (left, right)`, a slice is `clip f left right`
(`window f left right` when `left < right`), `C11.slicerStat stat f iv` is a slicer statistic other than min / max,
`slicerExtreme` is slicer max / min for an index closed as `c : IClosed`.

1. **the slicer is a `map` over the index** (`slicerStats`, `slicerExtremes`, `slices`): it commutes with every
   re-indexing `pick js` (permute / duplicate / drop: `perInterval_pick`, `slicerStats_pick`, `slicerExtremes_pick`,
   `slices_pick`; `pick_perm`: `pick` by a permutation of the positions is a permutation), with `List.Perm`
   (`slicerStats_perm`, `slicerExtremes_perm`), `reverse`, `++`, sublists, `take` / `drop`, `replicate`; entry `k` depends on
   interval `k` only (`no_crosstalk`, `slicerStats_getElem?`, `slicerStats_set`, `slicerExtremes_set`).  Every statistic is
   computed from `slices f ivs` entry by entry (`slicerStats_of_slices`, `slicerExtremes_of_slices`).
   The seeded defect "pre-clip `f` to `(first.left, last.right)`" is `slicesPre`: **refuted** on a nested, an unordered and
   a decreasing index (`slicesPre_wrong_nested`, `slicesPre_wrong_unordered`, `slicesPre_wrong_decreasing`); **proved
   identical** to `slices` (as objects) whenever every interval lies inside `(first.left, last.right)` (`Covered`:
   `slicesPre_eq_of_covered`), in particular on increasing (tiling or gapped) and on staggered indexes
   (`slicesPre_eq_of_increasing`, `slicesPre_eq_of_tiles`, `covered_of_staggered`) — which is all that break sequences,
   `PeriodIndex`, `rolling_mean` and the library's tests produce; and that condition is exact (`slicesPre_correct_iff`).
2. **each slice only sees `f` on its interval**: `AgreeOn f g l r` (same right limits on `[l, r)`, equivalently same left
   limits on `(l, r]`: `agreeOn_iff_left`; equivalently same values on the interval closed like the functions:
   `agreeOn_iff_sample`) ⇒ all slicer statistics agree (`slice_local`: mean, integral, var, defined length, value_sums,
   ecdf, median, percentile, fractile, quantiles, modes, mode, hist, default bins, and the slice object itself);
   conversely equal slices ⇒ `AgreeOn` (`slice_eq_iff_agreeOn`).  Slicer min / max: agreement at the points of the interval
   *closed as the index says* (`slicerExtreme_local`), i.e. `AgreeOn` plus the one endpoint sample of `slicerEndpoint`
   (`slicerExtreme_local_endpoint`, `slicerExtreme_local_own_side`); `AgreeOn` alone is **refuted** for an index closed on the
   other side (`endpoint_rule_witness`).
3. **hist per slice** (`sliceHist`, as `Driver.lean`'s `slicehist`): it is `hist` of the clipped function
   (`sliceHist_eq_clipped`, `sliceHist_window`, `sliceHists_eq`); the driver's "undefined" guard fires iff `f` is undefined
   throughout the slice (`sliceHistDefined_iff`); over bins that partition the values taken on the slice the `sum` statistic
   adds up to the defined length of the slice and `probability` to `1` (`sliceHist_sum_partition`,
   `sliceHist_probability_partition`), over break sequences by telescoping (`sliceHist_sum_breaks`, `breakBins_eq_consecutive`);
   bin by bin the `sum` histogram is additive across adjacent slices, NaN parts included (`sliceHist_sum_additive`).
4. **`resample`**: `resampleWith` succeeds iff the index is non-empty, for *any* input (`resampleWith_ok_iff`,
   `resampleWith_error_iff`); with the library's guard (`resampleChecked`) iff moreover `nonOverlapping c`
   (`resampleChecked_ok_iff`, `resampleChecked_error`); for proper intervals `nonOverlapping c` ⇔ all pairs are separated
   (`nonOverlapping_iff_pairwise`, `sep_disjoint`); a tiling `closed="both"` index is always rejected (`tiles_both_rejected`).
   On an accepted index the result is `vals[k]` on slice `k`, `f` outside `(first.left, last.right)` and **`0`, not `f`, in the
   gaps** (`resampleChecked_spec`, `span_of_increasing`); "`f` is kept on the gaps" is **refuted**
   (`resample_gap_keeps_iff`, `resample_gap_not_kept`).  Without the guard overlapping slices add their constants
   (`resample_overlap_adds`).  Dually to 2., `resample` only sees `f` outside the span (`resampleWith_congr_outside`).
5. **tilings / `PeriodIndex`-style periods** (`periodIvs a w n`, `unitIvs k n`): proper, tiling, accepted by `resample`, safe for
   the pre-clip variant (`periodIvs_proper`, `periodIvs_tiles`, `periodIvs_nonOverlapping`, `periodIvs_slicesPre`).  On every
   tiling the integral sums, defined lengths and all weighted sums of the slices add up to those of the span (`tiles_sums`),
   the slicer integrals add up with NaN = nothing (`tiles_integral`, `slicer_integral_adjacent`), and
   `Σ meanᵢ · definedLengthᵢ = ∫` (`tiles_means_weighted`).  When `f` is defined throughout: `w · Σ means = ∫`
   (`period_means_sum`), for unit intervals `Σ means = ∫` (`unit_means_sum`); **refuted** without definedness
   (`unit_means_sum_needs_defined`).
-/
set_option linter.unusedSectionVars false
set_option linter.unusedVariables false
namespace SC.Props.C11b
open SC SC.Stairs

/-! ## Helpers -/
section Helpers

/-- select / reorder / duplicate / drop entries of a list by a list of positions (positions out of range
are dropped) -/
def pick {α : Type} (js : List Nat) (l : List α) : List α := js.filterMap (l[·]?)

theorem s11b_pick_map {α β : Type} (g : α → β) (js : List Nat) (l : List α) :
    pick js (l.map g) = (pick js l).map g := by
  simp [pick, List.map_filterMap, List.getElem?_map]

theorem s11b_pick_range {α : Type} (l : List α) : pick (List.range l.length) l = l := by
  induction l with
  | nil => rfl
  | cons a r ih =>
    rw [List.length_cons, List.range_succ_eq_map]
    simp only [pick, List.filterMap_cons, List.getElem?_cons_zero, List.filterMap_map]
    congr 1

theorem s11b_pick_perm {α : Type} (js : List Nat) (l : List α) (h : js.Perm (List.range l.length)) :
    (pick js l).Perm l := by
  have := h.filterMap (l[·]?)
  rw [show List.filterMap (l[·]?) (List.range l.length) = l from s11b_pick_range l] at this
  exact this

end Helpers

/-! ## 1. the slicer is a `map` over the interval index -/

/-- a slicer statistic (other than min / max) for the whole index -/
def slicerStats {α : Type} (stat : Stairs Rat → α) (f : Stairs Rat) (ivs : List Iv) : List (Except Err α) :=
  ivs.map (C11.slicerStat stat f)
/-- slicer max / min for the whole index -/
def slicerExtremes (isMax : Bool) (f : Stairs Rat) (c : IClosed) (ivs : List Iv) : List (Except Err Val) :=
  ivs.map (slicerExtreme isMax f c)

/-- **naturality**: whatever is computed interval by interval commutes with every re-indexing `pick js`
(permuting, duplicating, dropping) -/
theorem perInterval_pick {β : Type} (F : Iv → β) (js : List Nat) (ivs : List Iv) :
    (pick js ivs).map F = pick js (ivs.map F) := (s11b_pick_map F js ivs).symm

theorem slices_pick (f : Stairs Rat) (js : List Nat) (ivs : List Iv) :
    slices f (pick js ivs) = pick js (slices f ivs) := perInterval_pick _ js ivs
theorem slicerStats_pick {α : Type} (stat : Stairs Rat → α) (f : Stairs Rat) (js : List Nat) (ivs : List Iv) :
    slicerStats stat f (pick js ivs) = pick js (slicerStats stat f ivs) := perInterval_pick _ js ivs
theorem slicerExtremes_pick (isMax : Bool) (f : Stairs Rat) (c : IClosed) (js : List Nat) (ivs : List Iv) :
    slicerExtremes isMax f c (pick js ivs) = pick js (slicerExtremes isMax f c ivs) := perInterval_pick _ js ivs

/-- `pick` with a permutation of the positions is a permutation of the list, and every permutation arises
(`List.Perm` form below) -/
theorem pick_perm {α : Type} (js : List Nat) (l : List α) (h : js.Perm (List.range l.length)) :
    (pick js l).Perm l := s11b_pick_perm js l h
theorem pick_id {α : Type} (l : List α) : pick (List.range l.length) l = l := s11b_pick_range l

/-- **permuting the index permutes the results** (`List.Perm` form) -/
theorem slicerStats_perm {α : Type} (stat : Stairs Rat → α) (f : Stairs Rat) (ivs ivs' : List Iv)
    (h : ivs.Perm ivs') : (slicerStats stat f ivs).Perm (slicerStats stat f ivs') := h.map _
theorem slicerExtremes_perm (isMax : Bool) (f : Stairs Rat) (c : IClosed) (ivs ivs' : List Iv)
    (h : ivs.Perm ivs') : (slicerExtremes isMax f c ivs).Perm (slicerExtremes isMax f c ivs') := h.map _

/-- reversing, concatenating, duplicating, dropping (sublists, filters on the intervals) -/
theorem slicerStats_reverse {α : Type} (stat : Stairs Rat → α) (f : Stairs Rat) (ivs : List Iv) :
    slicerStats stat f ivs.reverse = (slicerStats stat f ivs).reverse := List.map_reverse
theorem slicerStats_append {α : Type} (stat : Stairs Rat → α) (f : Stairs Rat) (ivs ivs' : List Iv) :
    slicerStats stat f (ivs ++ ivs') = slicerStats stat f ivs ++ slicerStats stat f ivs' := List.map_append
theorem slicerStats_sublist {α : Type} (stat : Stairs Rat → α) (f : Stairs Rat) (ivs ivs' : List Iv)
    (h : ivs.Sublist ivs') : (slicerStats stat f ivs).Sublist (slicerStats stat f ivs') := h.map _
theorem slicerStats_take_drop {α : Type} (stat : Stairs Rat → α) (f : Stairs Rat) (ivs : List Iv) (n : Nat) :
    slicerStats stat f (ivs.take n) = (slicerStats stat f ivs).take n ∧
    slicerStats stat f (ivs.drop n) = (slicerStats stat f ivs).drop n := ⟨List.map_take, List.map_drop⟩
theorem slicerStats_replicate {α : Type} (stat : Stairs Rat → α) (f : Stairs Rat) (iv : Iv) (n : Nat) :
    slicerStats stat f (List.replicate n iv) = List.replicate n (C11.slicerStat stat f iv) := List.map_replicate
theorem slicerExtremes_reverse (isMax : Bool) (f : Stairs Rat) (c : IClosed) (ivs : List Iv) :
    slicerExtremes isMax f c ivs.reverse = (slicerExtremes isMax f c ivs).reverse := List.map_reverse
theorem slicerExtremes_append (isMax : Bool) (f : Stairs Rat) (c : IClosed) (ivs ivs' : List Iv) :
    slicerExtremes isMax f c (ivs ++ ivs') = slicerExtremes isMax f c ivs ++ slicerExtremes isMax f c ivs' :=
  List.map_append
theorem slicerExtremes_sublist (isMax : Bool) (f : Stairs Rat) (c : IClosed) (ivs ivs' : List Iv)
    (h : ivs.Sublist ivs') : (slicerExtremes isMax f c ivs).Sublist (slicerExtremes isMax f c ivs') := h.map _

/-- **no cross-talk**: entry `k` of any per-interval result is a function of interval `k` alone -/
theorem perInterval_getElem? {β : Type} (F : Iv → β) (ivs : List Iv) (k : Nat) :
    (ivs.map F)[k]? = ivs[k]?.map F := List.getElem?_map
theorem no_crosstalk {β : Type} (F : Iv → β) (ivs ivs' : List Iv) (k k' : Nat) (h : ivs[k]? = ivs'[k']?) :
    (ivs.map F)[k]? = (ivs'.map F)[k']? := by
  rw [List.getElem?_map, List.getElem?_map, h]
theorem slicerStats_getElem? {α : Type} (stat : Stairs Rat → α) (f : Stairs Rat) (ivs : List Iv) (k : Nat) :
    (slicerStats stat f ivs)[k]? = ivs[k]?.map (C11.slicerStat stat f) := List.getElem?_map
theorem slicerExtremes_getElem? (isMax : Bool) (f : Stairs Rat) (c : IClosed) (ivs : List Iv) (k : Nat) :
    (slicerExtremes isMax f c ivs)[k]? = ivs[k]?.map (slicerExtreme isMax f c) := List.getElem?_map
/-- changing (or inserting / deleting after) any *other* interval leaves entry `k` alone -/
theorem slicerStats_set {α : Type} (stat : Stairs Rat → α) (f : Stairs Rat) (ivs : List Iv) (j k : Nat) (iv' : Iv)
    (hjk : j ≠ k) : (slicerStats stat f (ivs.set j iv'))[k]? = (slicerStats stat f ivs)[k]? := by
  rw [slicerStats_getElem?, slicerStats_getElem?, List.getElem?_set_ne hjk]
theorem slicerExtremes_set (isMax : Bool) (f : Stairs Rat) (c : IClosed) (ivs : List Iv) (j k : Nat) (iv' : Iv)
    (hjk : j ≠ k) : (slicerExtremes isMax f c (ivs.set j iv'))[k]? = (slicerExtremes isMax f c ivs)[k]? := by
  rw [slicerExtremes_getElem?, slicerExtremes_getElem?, List.getElem?_set_ne hjk]

/-- the slicer extreme as a function of *the slice* (and the endpoint sample of the original function) -/
def extremeOfSlice (isMax : Bool) (f : Stairs Rat) (c : IClosed) (iv : Iv) (r : Except Err (Stairs Rat)) :
    Except Err Val :=
  r.map fun s => (if isMax then fmaxV else fminV)
    (if isMax then maxIn s none none (defaultIClosed s.closed) else minIn s none none (defaultIClosed s.closed))
    (endpointSample f c iv)

theorem slicerExtreme_of_slice (isMax : Bool) (f : Stairs Rat) (c : IClosed) (iv : Iv) :
    slicerExtreme isMax f c iv = extremeOfSlice isMax f c iv (clip f (some iv.1) (some iv.2)) := by
  cases h : clip f (some iv.1) (some iv.2) with
  | error e => unfold slicerExtreme; rw [h]; rfl
  | ok s => rw [slicerExtreme_eq isMax f s c iv h]; rfl

/-- every slicer statistic is computed from `slices f ivs` entry by entry -/
theorem slicerStats_of_slices {α : Type} (stat : Stairs Rat → α) (f : Stairs Rat) (ivs : List Iv) :
    slicerStats stat f ivs = (slices f ivs).map (Except.map stat) := C11.slicerStat_map stat f ivs
theorem slicerExtremes_of_slices (isMax : Bool) (f : Stairs Rat) (c : IClosed) (ivs : List Iv) :
    slicerExtremes isMax f c ivs = (ivs.zip (slices f ivs)).map fun p => extremeOfSlice isMax f c p.1 p.2 := by
  unfold slicerExtremes slices
  induction ivs with
  | nil => rfl
  | cons iv r ih =>
    simp only [List.map_cons, List.zip_cons_cons]
    rw [ih, slicerExtreme_of_slice]

/-! ### the seeded defect "pre-clip to `(first.left, last.right)`"

Mutant C11-8 rewrote `_create_slices` as: *if there is more than one interval, clip `f` once to
`(left[0], right[-1])` and cut every slice out of that smaller function*.  `left[0]` / `right[-1]` are the span of
the index only if the first interval starts first and the last one ends last.  `slicesPre` is that variant (the outer
`Except` is the `ValueError` the pre-clip itself raises when `left[0] ≥ right[-1]`). -/

/-- the last interval of `a :: r` -/
def lastIv : Iv → List Iv → Iv
  | a, [] => a
  | _, b :: r => lastIv b r

/-- **the variant**: pre-clip to `(first.left, last.right)` when there are at least two intervals -/
def slicesPre (f : Stairs Rat) : List Iv → Except Err (List (Except Err (Stairs Rat)))
  | a :: b :: r => (clip f (some a.1) (some (lastIv b r).2)).map fun g => slices g (a :: b :: r)
  | ivs => .ok (slices f ivs)
/-- the slicer statistics the variant would report -/
def slicerStatsPre {α : Type} (stat : Stairs Rat → α) (f : Stairs Rat) (ivs : List Iv) :
    Except Err (List (Except Err α)) := (slicesPre f ivs).map (List.map (Except.map stat))
def slicerExtremesPre (isMax : Bool) (f : Stairs Rat) (c : IClosed) (ivs : List Iv) :
    Except Err (List (Except Err Val)) :=
  (slicesPre f ivs).map fun ss => (ivs.zip ss).map fun p => extremeOfSlice isMax f c p.1 p.2

/-- every interval lies inside `(first.left, last.right)` -/
def Covered : List Iv → Prop
  | a :: b :: r => ∀ iv ∈ a :: b :: r, a.1 ≤ iv.1 ∧ iv.2 ≤ (lastIv b r).2
  | _ => True
/-- both end points increase along the index ("staggered" windows; overlap allowed) -/
def Staggered : List Iv → Prop
  | a :: b :: r => a.1 ≤ b.1 ∧ a.2 ≤ b.2 ∧ Staggered (b :: r)
  | _ => True

instance decStaggered : (ivs : List Iv) → Decidable (Staggered ivs)
  | [] => isTrue trivial
  | [_] => isTrue trivial
  | a :: b :: r =>
    have := decStaggered (b :: r)
    inferInstanceAs (Decidable (a.1 ≤ b.1 ∧ a.2 ≤ b.2 ∧ Staggered (b :: r)))
instance decCovered : (ivs : List Iv) → Decidable (Covered ivs)
  | [] => isTrue trivial
  | [_] => isTrue trivial
  | a :: b :: r => inferInstanceAs (Decidable (∀ iv ∈ a :: b :: r, a.1 ≤ iv.1 ∧ iv.2 ≤ (lastIv b r).2))
instance decProper (ivs : List Iv) : Decidable (Proper ivs) :=
  inferInstanceAs (Decidable (∀ iv ∈ ivs, iv.1 < iv.2))
instance decIncreasing : (ivs : List Iv) → Decidable (Increasing ivs)
  | [] => isTrue trivial
  | [_] => isTrue trivial
  | a :: b :: r =>
    have := decIncreasing (b :: r)
    inferInstanceAs (Decidable (a.2 ≤ b.1 ∧ Increasing (b :: r)))
instance decTiles : (ivs : List Iv) → Decidable (Tiles ivs)
  | [] => isTrue trivial
  | [_] => isTrue trivial
  | a :: b :: r =>
    have := decTiles (b :: r)
    inferInstanceAs (Decidable (a.2 = b.1 ∧ Tiles (b :: r)))

section Helpers
theorem s11b_lastIv_mem (a : Iv) (r : List Iv) : lastIv a r ∈ a :: r := by
  induction r generalizing a with
  | nil => simp [lastIv]
  | cons b r ih => exact List.mem_cons_of_mem _ (ih b)

theorem s11b_staggered_bounds (a : Iv) (r : List Iv) (h : Staggered (a :: r)) :
    ∀ iv ∈ a :: r, a.1 ≤ iv.1 ∧ iv.2 ≤ (lastIv a r).2 := by
  induction r generalizing a with
  | nil => intro iv hiv; rw [List.mem_singleton.mp hiv]; exact ⟨le_refl _, le_refl _⟩
  | cons b r ih =>
    intro iv hiv
    have hb := ih b h.2.2
    rcases List.mem_cons.mp hiv with rfl | hiv
    · exact ⟨le_refl _, le_trans h.2.1 (hb b (by simp)).2⟩
    · exact ⟨le_trans h.1 (hb iv hiv).1, (hb iv hiv).2⟩

theorem s11b_staggered_of_increasing (ivs : List Iv) (hp : Proper ivs) (h : Increasing ivs) : Staggered ivs := by
  induction ivs with
  | nil => trivial
  | cons a r ih =>
    cases r with
    | nil => trivial
    | cons b r' =>
      have ha : a.1 < a.2 := hp a (by simp)
      have hb : b.1 < b.2 := hp b (by simp)
      exact ⟨by linarith [h.1], by linarith [h.1], ih (fun iv hiv => hp iv (List.mem_cons_of_mem _ hiv)) h.2⟩
end Helpers

theorem covered_of_staggered (ivs : List Iv) (h : Staggered ivs) : Covered ivs := by
  match ivs, h with
  | [], _ => trivial
  | [_], _ => trivial
  | a :: b :: r, h => exact s11b_staggered_bounds a (b :: r) h
theorem covered_of_increasing (ivs : List Iv) (hp : Proper ivs) (h : Increasing ivs) : Covered ivs :=
  covered_of_staggered ivs (s11b_staggered_of_increasing ivs hp h)
theorem covered_of_tiles (ivs : List Iv) (hp : Proper ivs) (h : Tiles ivs) : Covered ivs :=
  covered_of_increasing ivs hp (increasing_of_tiles ivs h)

/-- with at most one interval the variant does nothing -/
theorem slicesPre_short (f : Stairs Rat) (ivs : List Iv) (h : ivs.length ≤ 1) : slicesPre f ivs = .ok (slices f ivs) := by
  match ivs, h with
  | [], _ => rfl
  | [_], _ => rfl

/-- **the variant is correct on a covered index** — in particular on every increasing (gapped or tiling) index of
proper intervals and on staggered sliding windows.  That is everything break sequences, `PeriodIndex`, `rolling_mean`
and the library's tests produce, which is why the tests passed.  Object equality, error entries included. -/
theorem slicesPre_eq_of_covered (f : Stairs Rat) (hf : f.WF) (ivs : List Iv) (hp : Proper ivs) (hc : Covered ivs) :
    slicesPre f ivs = .ok (slices f ivs) := by
  match ivs, hp, hc with
  | [], _, _ => rfl
  | [_], _, _ => rfl
  | a :: b :: r, hp, hc =>
    have hlast : lastIv b r ∈ a :: b :: r := List.mem_cons_of_mem _ (s11b_lastIv_mem b r)
    have hspan : a.1 < (lastIv b r).2 := lt_of_le_of_lt (hc _ hlast).1 (hp _ hlast)
    have hw := clip_window f a.1 (lastIv b r).2 hspan
    show (clip f (some a.1) (some (lastIv b r).2)).map (fun g => slices g (a :: b :: r)) = _
    rw [hw]
    show Except.ok (slices (window f a.1 (lastIv b r).2) (a :: b :: r)) = _
    congr 1
    apply List.map_congr_left
    intro iv hiv
    have := C20c.clip_clip_nested f hf a.1 (lastIv b r).2 iv.1 iv.2 (hc iv hiv).1 (hp iv hiv) (hc iv hiv).2
    rw [hw] at this
    exact this

theorem slicesPre_eq_of_increasing (f : Stairs Rat) (hf : f.WF) (ivs : List Iv) (hp : Proper ivs)
    (hi : Increasing ivs) : slicesPre f ivs = .ok (slices f ivs) :=
  slicesPre_eq_of_covered f hf ivs hp (covered_of_increasing ivs hp hi)
/-- the form asked for: increasing slices that tile their span -/
theorem slicesPre_eq_of_tiles (f : Stairs Rat) (hf : f.WF) (ivs : List Iv) (hp : Proper ivs)
    (ht : Tiles ivs) : slicesPre f ivs = .ok (slices f ivs) :=
  slicesPre_eq_of_covered f hf ivs hp (covered_of_tiles ivs hp ht)

/-- … hence every statistic of the variant is the right one there -/
theorem slicerStatsPre_eq_of_covered {α : Type} (stat : Stairs Rat → α) (f : Stairs Rat) (hf : f.WF) (ivs : List Iv)
    (hp : Proper ivs) (hc : Covered ivs) : slicerStatsPre stat f ivs = .ok (slicerStats stat f ivs) := by
  unfold slicerStatsPre
  rw [slicesPre_eq_of_covered f hf ivs hp hc, slicerStats_of_slices]; rfl
theorem slicerExtremesPre_eq_of_covered (isMax : Bool) (f : Stairs Rat) (hf : f.WF) (c : IClosed) (ivs : List Iv)
    (hp : Proper ivs) (hc : Covered ivs) : slicerExtremesPre isMax f c ivs = .ok (slicerExtremes isMax f c ivs) := by
  unfold slicerExtremesPre
  rw [slicesPre_eq_of_covered f hf ivs hp hc, slicerExtremes_of_slices]; rfl

/-- **exactly there**: for proper intervals the variant agrees with `slices` for *every* function iff the index is
covered (the everywhere-defined constant `1` already detects an uncovered interval) -/
theorem slicesPre_correct_iff (ivs : List Iv) (hp : Proper ivs) :
    (∀ f : Stairs Rat, f.WF → slicesPre f ivs = .ok (slices f ivs)) ↔ Covered ivs := by
  refine ⟨fun h => ?_, fun hc f hf => slicesPre_eq_of_covered f hf ivs hp hc⟩
  match ivs, hp, h with
  | [], _, _ => trivial
  | [_], _, _ => trivial
  | a :: b :: r, hp, h =>
    let f : Stairs Rat := const (some 1) .left
    have hf : f.WF := wf_const _ _
    have h1 := h f hf
    have hpre : slicesPre f (a :: b :: r)
        = (clip f (some a.1) (some (lastIv b r).2)).map (fun g => slices g (a :: b :: r)) := rfl
    by_cases hspan : a.1 < (lastIv b r).2
    · have hw := clip_window f a.1 (lastIv b r).2 hspan
      rw [hpre, hw] at h1
      have h2 : slices (window f a.1 (lastIv b r).2) (a :: b :: r) = slices f (a :: b :: r) := by
        injection h1
      have hW := wf_window f a.1 (lastIv b r).2 hf hspan
      intro iv hiv
      have hiv' : iv.1 < iv.2 := hp iv hiv
      have h3 : clip (window f a.1 (lastIv b r).2) (some iv.1) (some iv.2) = clip f (some iv.1) (some iv.2) :=
        (List.map_inj_left.mp h2) iv hiv
      rw [clip_window _ _ _ hiv', clip_window _ _ _ hiv'] at h3
      have h4 : window (window f a.1 (lastIv b r).2) iv.1 iv.2 = window f iv.1 iv.2 := by injection h3
      have hden : ∀ st x, inWindow st (some iv.1) (some iv.2) x = true →
          inWindow st (some a.1) (some (lastIv b r).2) x = true := by
        intro st x hx
        have e1 := den_window (window f a.1 (lastIv b r).2) iv.1 iv.2 hW hiv' st x
        have e2 := den_window f iv.1 iv.2 hf hiv' st x
        rw [h4, e2, if_pos hx, if_pos hx, den_window f _ _ hf hspan] at e1
        by_contra hn
        rw [if_neg hn] at e1
        cases e1
      constructor
      · have := hden false iv.1 (by simp [inWindow, reached, hiv'])
        simp only [inWindow, reached, Bool.and_eq_true] at this
        simpa using this.1
      · have := hden true iv.2 (by simp [inWindow, reached, hiv'])
        simp only [inWindow, reached, Bool.and_eq_true] at this
        simpa using this.2
    · rw [hpre, clip_error f _ _ (by simpa [boundsOk] using hspan)] at h1
      cases h1

/-! **refutations** of the variant on uncovered indexes (left-closed `fL`: `1 | 2 on [0,2) | 5 on [2,3) | NaN on [3,4) |
3 on [4,6) | 7 on [6,∞)`) -/
def fL : Stairs Rat := ⟨some 1, [(0, some 2), (2, some 5), (3, none), (4, some 3), (6, some 7)], .left⟩

example : fL.WF := by decide +kernel

/-- *nested* index `[0,8), [2,4)` (sorted, so pandas calls it monotonic): the wide slice is silently cut at `4` —
mean `3` instead of `29/7`, max `5` instead of `7` -/
theorem slicesPre_wrong_nested :
    slicerStatsPre mean fL [(0, 8), (2, 4)] = .ok [.ok (some 3), .ok (some 5)] ∧
    slicerStats mean fL [(0, 8), (2, 4)] = [.ok (some (29/7)), .ok (some 5)] ∧
    slicerExtremesPre true fL .left [(0, 8), (2, 4)] = .ok [.ok (some 5), .ok (some 5)] ∧
    slicerExtremes true fL .left [(0, 8), (2, 4)] = [.ok (some 7), .ok (some 5)] ∧
    ¬ Covered [((0 : Rat), (8 : Rat)), (2, 4)] := by
  decide +kernel

/-- *unordered* index `[2,4), [0,2), [4,6)`: the pre-clip window is `(2, 6)`, slice `[0,2)` becomes all-undefined
(integral / max NaN instead of `4` / `2`) -/
theorem slicesPre_wrong_unordered :
    slicerStatsPre integral fL [(2, 4), (0, 2), (4, 6)] = .ok [.ok (some 5), .ok none, .ok (some 6)] ∧
    slicerStats integral fL [(2, 4), (0, 2), (4, 6)] = [.ok (some 5), .ok (some 4), .ok (some 6)] ∧
    slicerExtremesPre true fL .left [(2, 4), (0, 2), (4, 6)] = .ok [.ok (some 5), .ok none, .ok (some 3)] ∧
    slicerExtremes true fL .left [(2, 4), (0, 2), (4, 6)] = [.ok (some 5), .ok (some 2), .ok (some 3)] := by
  decide +kernel

/-- *decreasing* index `[4,6), [0,2)`: the pre-clip window `(4, 2)` is empty and the legal call raises `ValueError` -/
theorem slicesPre_wrong_decreasing :
    slicerStatsPre mean fL [(4, 6), (0, 2)] = .error .valueError ∧
    slicerStats mean fL [(4, 6), (0, 2)] = [.ok (some 3), .ok (some 2)] := by
  decide +kernel

/-- but permuting the results is all a permutation of the index may do (`slicerStats_perm`): the correct slicer gives
the same three numbers for the unordered index as for the sorted one -/
example : slicerStats integral fL [(0, 2), (2, 4), (4, 6)] = [.ok (some 4), .ok (some 5), .ok (some 6)] ∧
    slicerStatsPre integral fL [(0, 2), (2, 4), (4, 6)] = .ok [.ok (some 4), .ok (some 5), .ok (some 6)] := by
  decide +kernel
/-- non-vacuity of `slicesPre_eq_of_covered`: a tiling, a gapped increasing index, and staggered overlapping windows -/
example : Proper [((0 : Rat), (2 : Rat)), (2, 4), (4, 6)] ∧ Tiles [((0 : Rat), (2 : Rat)), (2, 4), (4, 6)] ∧
    Covered [((0 : Rat), (2 : Rat)), (2, 4), (4, 6)] := by
  decide +kernel
example : Staggered [((0 : Rat), (4 : Rat)), (2, 6), (3, 8)] ∧
    slicerStatsPre mean fL [(0, 4), (2, 6), (3, 8)] = .ok (slicerStats mean fL [(0, 4), (2, 6), (3, 8)]) := by
  decide +kernel
example : pick [2, 0, 0] [((0 : Rat), (2 : Rat)), (2, 4), (4, 6)] = [(4, 6), (0, 2), (0, 2)] ∧
    slicerStats mean fL (pick [2, 0, 0] [(0, 2), (2, 4), (4, 6)]) = [.ok (some 3), .ok (some 2), .ok (some 2)] := by
  decide +kernel

/-! ## 2. each slice only sees `f` on its interval -/

/-- `f` and `g` have the same right limits on `[a, b)` -/
def AgreeOn (f g : Stairs Rat) (a b : Rat) : Prop := ∀ x, a ≤ x → x < b → Den f false x = Den g false x

/-- the same thing said with left limits: on `(a, b]` (no hypothesis on `f`, `g`: a left limit at `x` is a right limit
just below `x`, and the other way round) -/
theorem agreeOn_iff_left (f g : Stairs Rat) (a b : Rat) :
    AgreeOn f g a b ↔ ∀ x, a < x → x ≤ b → Den f true x = Den g true x := by
  constructor
  · intro h x hax hxb
    obtain ⟨y1, hy1, h1⟩ := C03.limit_left_is_limit f x
    obtain ⟨y2, hy2, h2⟩ := C03.limit_left_is_limit g x
    have hm : max (max y1 y2) a < x := max_lt (max_lt hy1 hy2) hax
    obtain ⟨z, hz1, hz2⟩ := exists_between hm
    have e := h z (le_of_lt (lt_of_le_of_lt (le_max_right _ _) hz1)) (lt_of_lt_of_le hz2 hxb)
    rw [(h1 z (lt_of_le_of_lt (le_trans (le_max_left _ _) (le_max_left _ _)) hz1) hz2).1,
      (h2 z (lt_of_le_of_lt (le_trans (le_max_right _ _) (le_max_left _ _)) hz1) hz2).1] at e
    exact e
  · intro h x hax hxb
    obtain ⟨y1, hy1, h1⟩ := C03.limit_right_is_limit f x
    obtain ⟨y2, hy2, h2⟩ := C03.limit_right_is_limit g x
    have hm : x < min (min y1 y2) b := lt_min (lt_min hy1 hy2) hxb
    obtain ⟨z, hz1, hz2⟩ := exists_between hm
    have e := h z (lt_of_le_of_lt hax hz1) (le_of_lt (lt_of_lt_of_le hz2 (min_le_right _ _)))
    rw [(h1 z hz1 (lt_of_lt_of_le hz2 (le_trans (min_le_left _ _) (min_le_left _ _)))).2.1,
      (h2 z hz1 (lt_of_lt_of_le hz2 (le_trans (min_le_left _ _) (min_le_right _ _)))).2.1] at e
    exact e

/-- … and with the values *at* the points of the interval closed like the functions: `[a, b)` for left-closed,
`(a, b]` for right-closed ones -/
theorem agreeOn_iff_sample (f g : Stairs Rat) (hc : f.closed = g.closed) (a b : Rat) :
    AgreeOn f g a b ↔
      ∀ x, inInterval (defaultIClosed f.closed) (some a) (some b) x → f.sample x = g.sample x := by
  cases hcl : f.closed with
  | left =>
    have hg : g.closed = .left := by rw [← hc, hcl]
    constructor
    · intro h x hx
      rw [sample_eq_den, sample_eq_den, hcl, hg]
      simp only [inInterval, defaultIClosed, loStrict, hiStrict] at hx
      exact h x (by simpa using hx.1) (by simpa using hx.2)
    · intro h x h1 h2
      have := h x (by simp [inInterval, defaultIClosed, loStrict, hiStrict, h1, h2])
      rwa [sample_eq_den, sample_eq_den, hcl, hg] at this
  | right =>
    have hg : g.closed = .right := by rw [← hc, hcl]
    rw [agreeOn_iff_left]
    constructor
    · intro h x hx
      rw [sample_eq_den, sample_eq_den, hcl, hg]
      simp only [inInterval, defaultIClosed, loStrict, hiStrict] at hx
      exact h x (by simpa using hx.1) (by simpa using hx.2)
    · intro h x h1 h2
      have := h x (by simp [inInterval, defaultIClosed, loStrict, hiStrict, h1, h2])
      rwa [sample_eq_den, sample_eq_den, hcl, hg] at this

section Helpers
/-- everything the value distribution offers is a function of `value_sums` -/
theorem s11b_dist_congr (s t : Stairs Rat) (h : valueSums s = valueSums t) :
    shares s = shares t ∧ ecdf s = ecdf t ∧ (∀ p, percentile s p = percentile t p) ∧
    (∀ p, fractile s p = fractile t p) ∧ median s = median t ∧ (∀ q, quantiles s q = quantiles t q) ∧
    modes s = modes t ∧ mode s = mode t ∧
    (∀ bins cl st, hist s bins cl st = hist t bins cl st) ∧ (∀ cl, unitBins s cl = unitBins t cl) := by
  have hs : shares s = shares t := by unfold shares; rw [h]
  have he : ecdf s = ecdf t := by unfold ecdf; rw [hs]
  have hx : ∀ k, xtiles k s = xtiles k t := fun k => by unfold xtiles; rw [hs]
  have hp : ∀ p, percentile s p = percentile t p := fun p => by unfold percentile; rw [hx]
  have hfr : ∀ p, fractile s p = fractile t p := fun p => by unfold fractile; rw [hx]
  have hm : modes s = modes t := by unfold modes; rw [h]
  refine ⟨hs, he, hp, hfr, hp 50, ?_, hm, ?_, ?_, ?_⟩
  · intro q; unfold quantiles; simp only [hfr]
  · unfold mode; rw [hm]
  · intro bins cl st; unfold hist; rw [he, h]
  · intro cl; unfold unitBins; rw [h]

theorem s11b_slicerStat_ok {α : Type} (stat : Stairs Rat → α) (f : Stairs Rat) (iv : Iv) (h : iv.1 < iv.2) :
    C11.slicerStat stat f iv = .ok (stat (window f iv.1 iv.2)) := by
  unfold C11.slicerStat; rw [clip_window f iv.1 iv.2 h]; rfl
theorem s11b_slicerStat_error {α : Type} (stat : Stairs Rat → α) (f : Stairs Rat) (iv : Iv) (h : ¬ iv.1 < iv.2) :
    C11.slicerStat stat f iv = .error .valueError := by
  unfold C11.slicerStat; rw [C11.slice_error f iv h]; rfl
end Helpers

/-- **locality, generic form**: a statistic that is determined by the right limits of bounded-support canonical
functions (every statistic of the library is) gives the same slicer value for functions that agree on the interval.
Improper intervals included (both sides raise). -/
theorem slicerStat_local_of {α : Type} (stat : Stairs Rat → α) (f g : Stairs Rat) (iv : Iv)
    (hstat : iv.1 < iv.2 → stat (window f iv.1 iv.2) = stat (window g iv.1 iv.2)) :
    C11.slicerStat stat f iv = C11.slicerStat stat g iv := by
  by_cases h : iv.1 < iv.2
  · rw [s11b_slicerStat_ok stat f iv h, s11b_slicerStat_ok stat g iv h, hstat h]
  · rw [s11b_slicerStat_error stat f iv h, s11b_slicerStat_error stat g iv h]

/-- **each slice only sees `f` on its interval**: if `f` and `g` (either closed sides, any representation) have the
same right limits on `[l, r)` — equivalently the same left limits on `(l, r]` — every slicer statistic of the
interval `(l, r)` agrees: mean, integral, var, value_sums, ecdf, median, percentiles, fractiles, quantiles, modes,
mode, hist (any bins / side / statistic), default bins; with the same closed side the slices are the same object. -/
theorem slice_local (f g : Stairs Rat) (hf : f.WF) (hg : g.WF) (iv : Iv) (h : AgreeOn f g iv.1 iv.2) :
    C11.slicerStat mean f iv = C11.slicerStat mean g iv ∧
    C11.slicerStat integral f iv = C11.slicerStat integral g iv ∧
    C11.slicerStat var f iv = C11.slicerStat var g iv ∧
    C11.slicerStat definedLength f iv = C11.slicerStat definedLength g iv ∧
    C11.slicerStat valueSums f iv = C11.slicerStat valueSums g iv ∧
    C11.slicerStat ecdf f iv = C11.slicerStat ecdf g iv ∧
    C11.slicerStat median f iv = C11.slicerStat median g iv ∧
    (∀ p, C11.slicerStat (percentile · p) f iv = C11.slicerStat (percentile · p) g iv) ∧
    (∀ p, C11.slicerStat (fractile · p) f iv = C11.slicerStat (fractile · p) g iv) ∧
    (∀ q, C11.slicerStat (quantiles · q) f iv = C11.slicerStat (quantiles · q) g iv) ∧
    C11.slicerStat modes f iv = C11.slicerStat modes g iv ∧
    C11.slicerStat mode f iv = C11.slicerStat mode g iv ∧
    (∀ bins cl st, C11.slicerStat (hist · bins cl st) f iv = C11.slicerStat (hist · bins cl st) g iv) ∧
    (∀ cl, C11.slicerStat (unitBins · cl) f iv = C11.slicerStat (unitBins · cl) g iv) ∧
    (f.closed = g.closed → clip f (some iv.1) (some iv.2) = clip g (some iv.1) (some iv.2)) := by
  have key : iv.1 < iv.2 → _ := fun hiv => C08b.window_stats_congr f g hf hg iv.1 iv.2 hiv h
  have dist : iv.1 < iv.2 → _ := fun hiv => s11b_dist_congr _ _ (key hiv).2.2.2.2.2.1
  refine ⟨slicerStat_local_of _ f g iv fun hiv => (key hiv).2.2.2.1,
    slicerStat_local_of _ f g iv fun hiv => (key hiv).2.2.1,
    slicerStat_local_of _ f g iv fun hiv => (key hiv).2.2.2.2.1,
    slicerStat_local_of _ f g iv fun hiv => (key hiv).1,
    slicerStat_local_of _ f g iv fun hiv => (key hiv).2.2.2.2.2.1,
    slicerStat_local_of _ f g iv fun hiv => (dist hiv).2.1,
    slicerStat_local_of _ f g iv fun hiv => (dist hiv).2.2.2.2.1,
    fun p => slicerStat_local_of _ f g iv fun hiv => (dist hiv).2.2.1 p,
    fun p => slicerStat_local_of _ f g iv fun hiv => (dist hiv).2.2.2.1 p,
    fun q => slicerStat_local_of _ f g iv fun hiv => (dist hiv).2.2.2.2.2.1 q,
    slicerStat_local_of _ f g iv fun hiv => (dist hiv).2.2.2.2.2.2.1,
    slicerStat_local_of _ f g iv fun hiv => (dist hiv).2.2.2.2.2.2.2.1,
    fun bins cl st => slicerStat_local_of _ f g iv fun hiv => (dist hiv).2.2.2.2.2.2.2.2.1 bins cl st,
    fun cl => slicerStat_local_of _ f g iv fun hiv => (dist hiv).2.2.2.2.2.2.2.2.2 cl, ?_⟩
  intro hc
  by_cases hiv : iv.1 < iv.2
  · rw [clip_window f _ _ hiv, clip_window g _ _ hiv, (key hiv).2.2.2.2.2.2 hc]
  · rw [C11.slice_error f iv hiv, C11.slice_error g iv hiv]

/-- conversely the slice *does* see all of `f` on the interval: equal slices ⇒ agreement on `[l, r)` -/
theorem slice_eq_iff_agreeOn (f g : Stairs Rat) (hf : f.WF) (hg : g.WF) (hc : f.closed = g.closed) (iv : Iv)
    (hiv : iv.1 < iv.2) :
    clip f (some iv.1) (some iv.2) = clip g (some iv.1) (some iv.2) ↔ AgreeOn f g iv.1 iv.2 := by
  refine ⟨fun h x h1 h2 => ?_, fun h => (slice_local f g hf hg iv h).2.2.2.2.2.2.2.2.2.2.2.2.2.2 hc⟩
  rw [clip_window f _ _ hiv, clip_window g _ _ hiv] at h
  have hw : window f iv.1 iv.2 = window g iv.1 iv.2 := by injection h
  have e1 := den_window_right f iv.1 iv.2 hf hiv x
  have e2 := den_window_right g iv.1 iv.2 hg hiv x
  rw [if_pos ⟨h1, h2⟩] at e1 e2
  rw [← e1, ← e2, hw]

/-- the whole index at once: functions that agree on every interval of the index have the same slicer output -/
theorem slicerStats_local {α : Type} (stat : Stairs Rat → α) (f g : Stairs Rat) (ivs : List Iv)
    (h : ∀ iv ∈ ivs, iv.1 < iv.2 → stat (window f iv.1 iv.2) = stat (window g iv.1 iv.2)) :
    slicerStats stat f ivs = slicerStats stat g ivs :=
  List.map_congr_left fun iv hiv => slicerStat_local_of stat f g iv (h iv hiv)

/-- **slicer min / max only see `f` on the interval with the interval's own closedness**: if `f` and `g` take the
same values at all points of `I` (closed as the *index* says, whatever the closed sides of `f`, `g`) the slicer
extremes agree -/
theorem slicerExtreme_local (isMax : Bool) (f g : Stairs Rat) (hf : f.WF) (hg : g.WF) (c : IClosed) (iv : Iv)
    (h : ∀ x, inInterval c (some iv.1) (some iv.2) x → f.sample x = g.sample x) :
    slicerExtreme isMax f c iv = slicerExtreme isMax g c iv := by
  by_cases hiv : iv.1 < iv.2
  · have hb : boundsOk (some iv.1) (some iv.2) = true := by simp [boundsOk, hiv]
    have hv : ∀ w, ValuesOn f c (some iv.1) (some iv.2) w ↔ ValuesOn g c (some iv.1) (some iv.2) w := by
      intro w
      constructor
      · rintro ⟨x, hx, hw⟩; exact ⟨x, hx, by rw [← h x hx]; exact hw⟩
      · rintro ⟨x, hx, hw⟩; exact ⟨x, hx, by rw [h x hx]; exact hw⟩
    obtain ⟨f1, f2⟩ := C11.slicer_extreme_eq_window f hf c iv hiv
    obtain ⟨g1, g2⟩ := C11.slicer_extreme_eq_window g hg c iv hiv
    cases isMax with
    | true =>
      rw [f1, g1, isGreatestVal_unique _ _ _ (maxIn_isGreatest f hf _ _ c hb)
        (isGreatestVal_congr _ _ _ (fun w => (hv w).symm) (maxIn_isGreatest g hg _ _ c hb))]
    | false =>
      rw [f2, g2, isLeastVal_unique _ _ _ (minIn_isLeast f hf _ _ c hb)
        (isLeastVal_congr _ _ _ (fun w => (hv w).symm) (minIn_isLeast g hg _ _ c hb))]
  · rw [C11.slicer_extreme_error isMax f c iv hiv, C11.slicer_extreme_error isMax g c iv hiv]

/-- **the endpoint rule** in terms of limits: for functions closed on the same side, agreement on the interval
closed like the functions plus agreement of the one endpoint sample `slicerEndpoint` asks for -/
theorem slicerExtreme_local_endpoint (isMax : Bool) (f g : Stairs Rat) (hf : f.WF) (hg : g.WF)
    (hc : f.closed = g.closed) (c : IClosed) (iv : Iv) (h : AgreeOn f g iv.1 iv.2)
    (he : endpointSample f c iv = endpointSample g c iv) :
    slicerExtreme isMax f c iv = slicerExtreme isMax g c iv := by
  rw [slicerExtreme_of_slice, slicerExtreme_of_slice,
    (slice_local f g hf hg iv h).2.2.2.2.2.2.2.2.2.2.2.2.2.2 hc]
  unfold extremeOfSlice
  rw [he]

/-- when the index is closed like the functions (or open) no endpoint is needed at all -/
theorem slicerExtreme_local_own_side (isMax : Bool) (f g : Stairs Rat) (hf : f.WF) (hg : g.WF)
    (hc : f.closed = g.closed) (c : IClosed) (iv : Iv) (h : AgreeOn f g iv.1 iv.2)
    (hn : slicerEndpoint f.closed c = none) :
    slicerExtreme isMax f c iv = slicerExtreme isMax g c iv := by
  apply slicerExtreme_local_endpoint isMax f g hf hg hc c iv h
  unfold endpointSample
  rw [← hc, hn]

/-- `gL` is `fL` up to `6` and differs from there on -/
def gL : Stairs Rat := ⟨some 1, [(0, some 2), (2, some 5), (3, none), (4, some 3), (6, some 9), (7, none)], .left⟩

/-- non-vacuity and the endpoint rule at work on the slice `(4, 6)`: `fL`, `gL` agree on `[4, 6)`, all statistics and the
extremes over `[4,6)` / `(4,6)` agree; over `(4,6]` / `[4,6]` the sample at `6` enters and the maxima differ
(`7` against `9`) — **"agreement on `[l, r)` suffices for min / max" is false for an index closed on the other side** -/
theorem endpoint_rule_witness :
    fL.WF ∧ gL.WF ∧ (∀ x : Rat, 4 ≤ x → x < 6 → Den fL false x = some 3 ∧ Den gL false x = some 3) ∧
    slicerExtreme true fL .left (4, 6) = slicerExtreme true gL .left (4, 6) ∧
    slicerExtreme true fL .neither (4, 6) = slicerExtreme true gL .neither (4, 6) ∧
    slicerExtreme true fL .both (4, 6) = .ok (some 7) ∧ slicerExtreme true gL .both (4, 6) = .ok (some 9) ∧
    slicerExtreme true fL .right (4, 6) = .ok (some 7) ∧ slicerExtreme true gL .right (4, 6) = .ok (some 9) ∧
    C11.slicerStat mean fL (4, 6) = C11.slicerStat mean gL (4, 6) := by
  refine ⟨by decide +kernel, by decide +kernel, fun x h1 h2 => ?_, by decide +kernel, by decide +kernel,
    by decide +kernel, by decide +kernel, by decide +kernel, by decide +kernel, by decide +kernel⟩
  have r0 : reached false (0 : Rat) x = true := by simp [reached]; linarith
  have r2 : reached false (2 : Rat) x = true := by simp [reached]; linarith
  have r3 : reached false (3 : Rat) x = true := by simp [reached]; linarith
  have r4 : reached false (4 : Rat) x = true := by simp [reached]; linarith
  have r6 : reached false (6 : Rat) x = false := by simp [reached]; linarith
  constructor
  · simp [Den, fL, lim, r0, r2, r3, r4, r6]
  · simp [Den, gL, lim, r0, r2, r3, r4, r6]

example : AgreeOn fL gL 4 6 := fun x h1 h2 => by
  obtain ⟨a, b⟩ := endpoint_rule_witness.2.2.1 x h1 h2
  rw [a, b]
/-- the hypothesis of `slicerExtreme_local` for the index closedness `left` on that slice -/
example : ∀ x : Rat, inInterval .left (some (4 : Rat)) (some 6) x → fL.sample x = gL.sample x := by
  intro x hx
  simp only [inInterval, loStrict, hiStrict] at hx
  obtain ⟨a, b⟩ := endpoint_rule_witness.2.2.1 x (by simpa using hx.1) (by simpa using hx.2)
  rw [sample_eq_den, sample_eq_den]
  exact a.trans b.symm
example : C11.slicerStat median fL (4, 6) = .ok (some 3) ∧ C11.slicerStat modes gL (4, 6) = .ok [3] ∧
    C11.slicerStat (hist · [(0, 4), (4, 8)] .left .sum) gL (4, 6) = .ok [some 2, some 0] ∧
    clip fL (some 4) (some 6) = clip gL (some 4) (some 6) := by decide +kernel

/-! ## 3. `hist` per slice

`Driver.lean` (`slicehist`) computes, for each interval, `hist` of the clipped function over the bins
`breaks.zip (breaks.drop 1)`, and reports "undefined" for a slice without any defined finite piece. -/

/-- the bins `slicehist` forms from a list of breaks -/
def breakBins (breaks : List Rat) : List (Rat × Rat) := breaks.zip (breaks.drop 1)
/-- **`StairsSlicer.hist`** for one interval: `hist` of the slice -/
def sliceHist (f : Stairs Rat) (iv : Iv) (bins : List (Rat × Rat)) (bcl : Side) (st : HistStat) :
    Except Err (List Val) := C11.slicerStat (fun s => hist s bins bcl st) f iv
/-- the driver's guard: does the slice have a defined finite piece? -/
def sliceHistDefined (f : Stairs Rat) (iv : Iv) : Except Err Bool :=
  C11.slicerStat (fun s => !(valueSums s).isEmpty) f iv

section Helpers
open SC.Props.C08 SC.Props.C09 SC.Props.C09b

theorem s11b_breakBins (bs : List Rat) : breakBins bs = consecutive bs := by
  unfold breakBins
  induction bs with
  | nil => rfl
  | cons a r ih =>
    cases r with
    | nil => rfl
    | cons b r' =>
      rw [consecutive_cons_cons, ← ih]
      rfl

theorem s11b_definedPieces_nil_iff (s : Stairs Rat) (hs : s.WF) :
    definedPieces s.steps = [] ↔ definedLength s = 0 := by
  constructor
  · intro h; unfold definedLength; rw [h]; rfl
  · intro h
    by_contra hne
    exact absurd h (ne_of_gt (definedLength_pos s hs hne))

/-- the value of a defined finite piece is taken as a right limit -/
theorem s11b_piece_value_taken (s : Stairs Rat) (hs : s.WF) (vl : Rat × Rat) (h : vl ∈ definedPieces s.steps) :
    ∃ x, Den s false x = some vl.1 := by
  obtain ⟨p, q, hm, _⟩ := (mem_definedPieces_iff s.steps vl.1 vl.2).mp h
  have hpq := pieces_lt s.steps hs p q _ hm
  refine ⟨p, lim_on_piece false s.init s.steps hs p q _ hm p ?_ ?_⟩
  · simp [reached]
  · simp [reached, hpq]

/-- `hist(stat="sum")` is the list of bin lengths for every well-formed function (also without any defined piece) -/
theorem s11b_hist_sum_wf (s : Stairs Rat) (hs : s.WF) (bins : List (Rat × Rat)) (cl : Side)
    (hb : ∀ lr ∈ bins, lr.1 ≤ lr.2) :
    hist s bins cl .sum = bins.map fun lr => some (binLength s cl lr) := by
  by_cases hD : definedLength s = 0
  · have hnil := (s11b_definedPieces_nil_iff s hs).mpr hD
    rw [hist_unfold]
    apply List.map_congr_left
    intro lr _
    have : binLength s cl lr = 0 := by
      unfold binLength lengthWhere; rw [hnil]; rfl
    rw [hD, this, mul_zero]
  · exact hist_sum s bins cl hb hD

theorem s11b_lengthWhere_eq_wsum (s : Stairs Rat) (P : Rat → Bool) :
    lengthWhere s P = wsum (fun v => if P v then 1 else 0) s := by
  unfold lengthWhere wsum
  rw [sumBy_filter]
  apply sumBy_congr
  intro a _
  by_cases h : P a.1 = true <;> simp [h]

/-- bin lengths over a partition of the values add up to the defined length (also when there is none) -/
theorem s11b_binLength_total (s : Stairs Rat) (hs : s.WF) (bins : List (Rat × Rat)) (cl : Side)
    (hb : ∀ lr ∈ bins, lr.1 ≤ lr.2)
    (hpart : ∀ vl ∈ definedPieces s.steps, (bins.filter fun lr => inBin cl lr vl.1).length = 1) :
    (bins.map (binLength s cl)).sum = definedLength s := by
  by_cases hne : definedPieces s.steps = []
  · have h0 : ∀ lr, binLength s cl lr = 0 := fun lr => by
      unfold binLength lengthWhere; rw [hne]; rfl
    rw [(s11b_definedPieces_nil_iff s hs).mp hne]
    show sumBy (binLength s cl) bins = 0
    rw [sumBy_congr _ (fun _ => (0 : Rat)) bins (fun lr _ => h0 lr), sumBy_const_zero]
  · obtain ⟨ls, h1, _, h3⟩ := hist_sum_partition s hs hne bins cl hb hpart
    rw [s11b_hist_sum_wf s hs bins cl hb] at h1
    have : bins.map (binLength s cl) = ls := by
      have h1' : (bins.map (binLength s cl)).map some = ls.map some := by
        rw [← h1, List.map_map]; rfl
      exact (List.map_injective_iff.mpr (Option.some_injective _)) h1'
    rw [this, h3]
end Helpers

/-- the bins of a break sequence are C09b's consecutive bins -/
theorem breakBins_eq_consecutive (bs : List Rat) : breakBins bs = C09b.consecutive bs := s11b_breakBins bs

/-- **hist per slice = hist of the clipped function** -/
theorem sliceHist_eq_clipped (f : Stairs Rat) (iv : Iv) (bins : List (Rat × Rat)) (bcl : Side) (st : HistStat) :
    sliceHist f iv bins bcl st = (clip f (some iv.1) (some iv.2)).map fun s => hist s bins bcl st := rfl
theorem sliceHist_window (f : Stairs Rat) (iv : Iv) (hiv : iv.1 < iv.2) (bins : List (Rat × Rat)) (bcl : Side)
    (st : HistStat) : sliceHist f iv bins bcl st = .ok (hist (window f iv.1 iv.2) bins bcl st) :=
  s11b_slicerStat_ok _ f iv hiv
theorem sliceHist_error (f : Stairs Rat) (iv : Iv) (hiv : ¬ iv.1 < iv.2) (bins : List (Rat × Rat)) (bcl : Side)
    (st : HistStat) : sliceHist f iv bins bcl st = .error .valueError := s11b_slicerStat_error _ f iv hiv
/-- … for the whole index: a `map` like every other slicer statistic (so §1 applies verbatim) -/
theorem sliceHists_eq (f : Stairs Rat) (ivs : List Iv) (bins : List (Rat × Rat)) (bcl : Side) (st : HistStat) :
    ivs.map (fun iv => sliceHist f iv bins bcl st) = slicerStats (fun s => hist s bins bcl st) f ivs ∧
    ivs.map (fun iv => sliceHist f iv bins bcl st) = (slices f ivs).map (Except.map fun s => hist s bins bcl st) :=
  ⟨rfl, C11.slicerStat_map _ f ivs⟩

/-- the driver's guard fails exactly when `f` is undefined throughout the slice -/
theorem sliceHistDefined_iff (f : Stairs Rat) (hf : f.WF) (iv : Iv) (hiv : iv.1 < iv.2) :
    sliceHistDefined f iv = .ok (decide (lenOn f iv.1 iv.2 ≠ 0)) ∧
    (lenOn f iv.1 iv.2 = 0 ↔ ∀ x, iv.1 ≤ x → x < iv.2 → Den f false x = none) := by
  refine ⟨?_, C08b.lenOn_eq_zero_iff f hf iv.1 iv.2 hiv⟩
  unfold sliceHistDefined
  rw [s11b_slicerStat_ok _ f iv hiv]
  congr 1
  have hW := wf_window f iv.1 iv.2 hf hiv
  by_cases h0 : lenOn f iv.1 iv.2 = 0
  · have : valueSums (window f iv.1 iv.2) = [] :=
      (C08.valueSums_eq_nil_iff _).mpr ((s11b_definedPieces_nil_iff _ hW).mpr h0)
    rw [this]; simp [h0]
  · have : valueSums (window f iv.1 iv.2) ≠ [] := fun h =>
      h0 ((s11b_definedPieces_nil_iff _ hW).mp ((C08.valueSums_eq_nil_iff _).mp h))
    cases hv : valueSums (window f iv.1 iv.2) with
    | nil => exact absurd hv this
    | cons a r => simp [h0]

/-- **`hist(stat="sum")` of a slice over bins that partition the values `f` takes on the slice adds up to the defined
length of the slice** (hypothesis on `f` itself: every value taken on `[l, r)` lies in exactly one bin) -/
theorem sliceHist_sum_partition (f : Stairs Rat) (hf : f.WF) (iv : Iv) (hiv : iv.1 < iv.2)
    (bins : List (Rat × Rat)) (bcl : Side) (hb : ∀ lr ∈ bins, lr.1 ≤ lr.2)
    (hpart : ∀ x v, iv.1 ≤ x → x < iv.2 → Den f false x = some v →
      (bins.filter fun lr => C09.inBin bcl lr v).length = 1) :
    ∃ ls : List Rat, sliceHist f iv bins bcl .sum = .ok (ls.map some) ∧ ls.length = bins.length ∧
      ls.sum = lenOn f iv.1 iv.2 := by
  have hW := wf_window f iv.1 iv.2 hf hiv
  refine ⟨bins.map (C09.binLength (window f iv.1 iv.2) bcl), ?_, by simp, ?_⟩
  · rw [sliceHist_window f iv hiv, s11b_hist_sum_wf _ hW bins bcl hb, List.map_map]; rfl
  · apply s11b_binLength_total _ hW bins bcl hb
    intro vl hvl
    obtain ⟨x, hx⟩ := s11b_piece_value_taken _ hW vl hvl
    rw [den_window_right f iv.1 iv.2 hf hiv] at hx
    by_cases hin : iv.1 ≤ x ∧ x < iv.2
    · rw [if_pos hin] at hx; exact hpart x vl.1 hin.1 hin.2 hx
    · rw [if_neg hin] at hx; cases hx

/-- the same for the `probability` statistic: the shares add up to `1` when `f` is defined somewhere on the slice -/
theorem sliceHist_probability_partition (f : Stairs Rat) (hf : f.WF) (iv : Iv) (hiv : iv.1 < iv.2)
    (hdef : lenOn f iv.1 iv.2 ≠ 0)
    (bins : List (Rat × Rat)) (bcl : Side) (hb : ∀ lr ∈ bins, lr.1 ≤ lr.2)
    (hpart : ∀ x v, iv.1 ≤ x → x < iv.2 → Den f false x = some v →
      (bins.filter fun lr => C09.inBin bcl lr v).length = 1) :
    ∃ ps : List Rat, sliceHist f iv bins bcl .probability = .ok (ps.map some) ∧ ps.length = bins.length ∧
      ps.sum = 1 := by
  have hW := wf_window f iv.1 iv.2 hf hiv
  have hne : definedPieces (window f iv.1 iv.2).steps ≠ [] := fun h =>
    hdef ((s11b_definedPieces_nil_iff _ hW).mp h)
  obtain ⟨ps, h1, h2, h3⟩ := C09b.hist_probability_partition _ hW hne bins bcl hb (by
    intro vl hvl
    obtain ⟨x, hx⟩ := s11b_piece_value_taken _ hW vl hvl
    rw [den_window_right f iv.1 iv.2 hf hiv] at hx
    by_cases hin : iv.1 ≤ x ∧ x < iv.2
    · rw [if_pos hin] at hx; exact hpart x vl.1 hin.1 hin.2 hx
    · rw [if_neg hin] at hx; cases hx)
  exact ⟨ps, by rw [sliceHist_window f iv hiv, h1], h2, h3⟩

/-- **bin by bin the `sum` histogram is additive across adjacent slices** — with the plain `+`, and unlike `integral`
(C08b `integral_window_additive_needs_defined`) also when `f` is undefined throughout one of the parts -/
theorem sliceHist_sum_additive (f : Stairs Rat) (hf : f.WF) (a b c : Rat) (hab : a < b) (hbc : b < c)
    (bins : List (Rat × Rat)) (bcl : Side) (hb : ∀ lr ∈ bins, lr.1 ≤ lr.2) :
    ∃ l₁ l₂ : List Rat, l₁.length = bins.length ∧ l₂.length = bins.length ∧
      sliceHist f (a, b) bins bcl .sum = .ok (l₁.map some) ∧ sliceHist f (b, c) bins bcl .sum = .ok (l₂.map some) ∧
      sliceHist f (a, c) bins bcl .sum = .ok ((List.zipWith (· + ·) l₁ l₂).map some) := by
  have hac := lt_trans hab hbc
  refine ⟨bins.map (C09.binLength (window f a b) bcl), bins.map (C09.binLength (window f b c) bcl),
    by simp, by simp, ?_, ?_, ?_⟩
  · rw [sliceHist_window f (a, b) hab, s11b_hist_sum_wf _ (wf_window f a b hf hab) bins bcl hb, List.map_map]; rfl
  · rw [sliceHist_window f (b, c) hbc, s11b_hist_sum_wf _ (wf_window f b c hf hbc) bins bcl hb, List.map_map]; rfl
  · rw [sliceHist_window f (a, c) hac, s11b_hist_sum_wf _ (wf_window f a c hf hac) bins bcl hb]
    congr 1
    rw [List.zipWith_map, List.zipWith_self, List.map_map]
    apply List.map_congr_left
    intro lr _
    show some (C09.binLength (window f a c) bcl lr) = some _
    congr 1
    unfold C09.binLength
    show C09.lengthWhere (window f a c) (C09.inBin bcl lr)
      = C09.lengthWhere (window f a b) (C09.inBin bcl lr) + C09.lengthWhere (window f b c) (C09.inBin bcl lr)
    rw [s11b_lengthWhere_eq_wsum, s11b_lengthWhere_eq_wsum, s11b_lengthWhere_eq_wsum]
    exact C08b.wsum_window_additive _ f hf a b c hab hbc

/-- **break sequences**: over the consecutive bins of *any* list of breaks whose first and last break enclose all
values taken on the slice, the `sum` histogram adds up to the defined length of the slice (telescoping — the breaks
need not even be sorted) -/
theorem sliceHist_sum_breaks (f : Stairs Rat) (hf : f.WF) (iv : Iv) (hiv : iv.1 < iv.2)
    (bcl : Side) (b₀ : Rat) (rest : List Rat)
    (hall : ∀ x v, iv.1 ≤ x → x < iv.2 → Den f false x = some v →
      C09.inBin bcl (b₀, (b₀ :: rest).getLast (by simp)) v = true) :
    ∃ ls : List Rat, sliceHist f iv (breakBins (b₀ :: rest)) bcl .sum = .ok (ls.map some) ∧
      ls.sum = lenOn f iv.1 iv.2 := by
  have hW := wf_window f iv.1 iv.2 hf hiv
  rw [sliceHist_window f iv hiv, breakBins_eq_consecutive]
  by_cases hne : definedPieces (window f iv.1 iv.2).steps = []
  · have hD := (s11b_definedPieces_nil_iff _ hW).mp hne
    refine ⟨(C09b.consecutive (b₀ :: rest)).map fun _ => 0, ?_, ?_⟩
    · rw [C09.hist_unfold, List.map_map]
      congr 1
      apply List.map_congr_left
      intro lr _
      show some (_ * definedLength (window f iv.1 iv.2)) = some 0
      rw [hD, mul_zero]
    · show _ = definedLength _
      rw [hD]
      show sumBy (fun _ => (0 : Rat)) _ = 0
      exact sumBy_const_zero _
  · obtain ⟨ps, h1, h2⟩ := C09b.hist_probability_breaks_total _ hW hne bcl b₀ rest (by
      intro vl hvl
      obtain ⟨x, hx⟩ := s11b_piece_value_taken _ hW vl hvl
      rw [den_window_right f iv.1 iv.2 hf hiv] at hx
      by_cases hin : iv.1 ≤ x ∧ x < iv.2
      · rw [if_pos hin] at hx; exact hall x vl.1 hin.1 hin.2 hx
      · rw [if_neg hin] at hx; cases hx)
    refine ⟨ps.map (· * definedLength (window f iv.1 iv.2)), ?_, ?_⟩
    · rw [C09.hist_unfold] at h1 ⊢
      have h1' : (C09b.consecutive (b₀ :: rest)).map
          (fun lr => C09.cdfAt (window f iv.1 iv.2) bcl lr.2 - C09.cdfAt (window f iv.1 iv.2) bcl lr.1) = ps := by
        apply (List.map_injective_iff.mpr (Option.some_injective _))
        rw [← h1, List.map_map]; rfl
      rw [← h1', List.map_map, List.map_map]
      rfl
    · have e : sumBy (fun x : Rat => x) ps = ps.sum := by unfold sumBy; simp
      show sumBy (fun x => x * definedLength (window f iv.1 iv.2)) ps = _
      rw [sumBy_mul_right, e, h2, one_mul]; rfl

section Helpers
/-- the values a left-closed function takes on `[a, b)` are listed by `values_in_range` -/
theorem s11b_values_on (f : Stairs Rat) (hf : f.WF) (hcl : f.closed = .left) (a b : Rat) (hab : a < b) (x v : Rat)
    (h1 : a ≤ x) (h2 : x < b) (h3 : Den f false x = some v) : v ∈ valuesInRange f (some a) (some b) .left := by
  rw [mem_valuesInRange f hf _ _ _ (boundsOk_of_lt hab)]
  refine ⟨x, by simp [inInterval, loStrict, hiStrict, h1, h2], ?_⟩
  rw [sample_eq_den, hcl]; exact h3
end Helpers

/-- non-vacuity on `fL` (values `2, 5, NaN, 3` on `[0,6)`), bins `[0,2), [2,4), [4,6)` from the breaks `0, 2, 4, 6`:
the partition hypothesis holds … -/
example : ∀ x v : Rat, (0 : Rat) ≤ x → x < 6 → Den fL false x = some v →
    ((breakBins [0, 2, 4, 6]).filter fun lr => C09.inBin .left lr v).length = 1 := by
  intro x v h1 h2 h3
  have hm := s11b_values_on fL (by decide +kernel) rfl 0 6 (by decide +kernel) x v h1 h2 h3
  have e : valuesInRange fL (some 0) (some 6) .left = [2, 3, 5] := by decide +kernel
  rw [e] at hm
  simp only [List.mem_cons, List.not_mem_nil, or_false] at hm
  rcases hm with rfl | rfl | rfl <;> decide +kernel
/-- … and the numbers: `0 + 4 + 1 = 5 =` defined length of `[0, 6)` (one unit of which is NaN); the halves add up bin
by bin; the all-NaN slice `[3, 4)` has an all-zero `sum` histogram and fails the driver's guard -/
example : sliceHist fL (0, 6) (breakBins [0, 2, 4, 6]) .left .sum = .ok [some 0, some 4, some 1] ∧
    lenOn fL 0 6 = 5 ∧
    sliceHist fL (0, 6) (breakBins [0, 2, 4, 6]) .left .probability = .ok [some 0, some (4/5), some (1/5)] ∧
    sliceHist fL (0, 3) (breakBins [0, 2, 4, 6]) .left .sum = .ok [some 0, some 2, some 1] ∧
    sliceHist fL (3, 6) (breakBins [0, 2, 4, 6]) .left .sum = .ok [some 0, some 2, some 0] ∧
    sliceHist fL (3, 4) (breakBins [0, 2, 4, 6]) .left .sum = .ok [some 0, some 0, some 0] ∧
    sliceHistDefined fL (3, 4) = .ok false ∧ sliceHistDefined fL (0, 6) = .ok true ∧
    sliceHist fL (6, 0) (breakBins [0, 2, 4, 6]) .left .sum = .error .valueError := by decide +kernel

/-! ## 4. gapped / overlapping intervals and `resample`

`resampleWith` itself never looks at the order of the intervals; the library (and `Driver.lean`) first checks
`is_non_overlapping_monotonic` = `nonOverlapping c`.  `resampleChecked` is the two together. -/

/-- **`StairsSlicer.resample`** as the library runs it: the `is_non_overlapping_monotonic` guard, then `resampleWith` -/
def resampleChecked (c : IClosed) (f : Stairs Rat) (ivs : List Iv) (vals : List Rat) : Except Err (Stairs Rat) :=
  if nonOverlapping c ivs then resampleWith f ivs vals else .error .valueError

/-- consecutive intervals are separated: `a` ends before `b` starts; touching end points are allowed unless both are
closed (then the point would belong to both) -/
def sep (c : IClosed) (a b : Iv) : Prop := if c = .both then a.2 < b.1 else a.2 ≤ b.1
instance (c : IClosed) (a b : Iv) : Decidable (sep c a b) := by unfold sep; infer_instance

section Helpers
theorem s11b_nonOverlapping_cons (c : IClosed) (a b : Iv) (r : List Iv) :
    nonOverlapping c (a :: b :: r) = true ↔ sep c a b ∧ nonOverlapping c (b :: r) = true := by
  simp only [nonOverlapping, Bool.and_eq_true, sep]
  by_cases hc : c = .both <;> simp [hc]

theorem s11b_sep_le (c : IClosed) (a b : Iv) (h : sep c a b) : a.2 ≤ b.1 := by
  unfold sep at h
  by_cases hc : c = .both
  · rw [if_pos hc] at h; exact le_of_lt h
  · rw [if_neg hc] at h; exact h

theorem s11b_sep_trans (c : IClosed) (a b d : Iv) (hb : b.1 < b.2) (h1 : sep c a b) (h2 : sep c b d) : sep c a d := by
  have l1 := s11b_sep_le c a b h1
  have l2 := s11b_sep_le c b d h2
  unfold sep
  by_cases hc : c = .both
  · rw [if_pos hc]; linarith
  · rw [if_neg hc]; linarith

/-- the result of `resampleWith` on a non-empty index, with no hypothesis whatsoever -/
theorem s11b_resampleWith_total (f : Stairs Rat) (iv0 : Iv) (rest : List Iv) (vals : List Rat) :
    ∃ h, resampleWith f (iv0 :: rest) vals = .ok h := by
  set lb := spanLo iv0 (iv0 :: rest)
  set rb := spanHi iv0 (iv0 :: rest)
  let A : Stairs Rat := fillnaScalar (maskTuple f (some lb) (some rb)) (some 0)
  let B : Stairs Rat := fillnaScalar (maskTuple (unop .isna f) (some lb) (some rb)) (some 0)
  have hm : ¬ Mismatch A B := not_mismatch_of_closed_eq A B rfl
  have hmask : mask A B = .ok (combine maskOp A B (sideOf A B)) := combineChecked_total maskOp A B hm
  have h0 : resampleWith f (iv0 :: rest) vals
      = (mask A B >>= fun base => pure (layer base (((iv0 :: rest).zip vals).map toTriple))) := rfl
  exact ⟨_, by rw [h0, hmask]; rfl⟩

/-- the span `resampleWith` computes is `(first.left, last.right)` as soon as those bound all intervals -/
theorem s11b_span_of_bounds (iv0 : Iv) (rest : List Iv)
    (hb : ∀ iv ∈ iv0 :: rest, iv0.1 ≤ iv.1 ∧ iv.2 ≤ (lastIv iv0 rest).2) :
    spanLo iv0 (iv0 :: rest) = iv0.1 ∧ spanHi iv0 (iv0 :: rest) = (lastIv iv0 rest).2 := by
  obtain ⟨l1, l2, l3⟩ := spanLo_spec iv0 (iv0 :: rest)
  obtain ⟨u1, u2, u3⟩ := spanHi_spec iv0 (iv0 :: rest)
  constructor
  · apply le_antisymm l2
    rcases l1 with h | h
    · rw [h]
    · obtain ⟨iv, hiv, he⟩ := List.mem_map.mp h
      rw [← he]; exact (hb iv hiv).1
  · apply le_antisymm _ (u3 _ (s11b_lastIv_mem iv0 rest))
    rcases u1 with h | h
    · rw [h]; exact (hb iv0 (by simp)).2
    · obtain ⟨iv, hiv, he⟩ := List.mem_map.mp h
      rw [← he]; exact (hb iv hiv).2
end Helpers

/-- **when does `resampleWith` succeed?**  Exactly on a non-empty index — for *any* function, intervals and values
(the two masks it combines are closed on the same side by construction) -/
theorem resampleWith_ok_iff (f : Stairs Rat) (ivs : List Iv) (vals : List Rat) :
    (∃ h, resampleWith f ivs vals = .ok h) ↔ ivs ≠ [] := by
  cases ivs with
  | nil => simp [C11.resample_empty]
  | cons iv0 rest => simpa using s11b_resampleWith_total f iv0 rest vals
theorem resampleWith_error_iff (f : Stairs Rat) (ivs : List Iv) (vals : List Rat) (e : Err) :
    resampleWith f ivs vals = .error e ↔ ivs = [] ∧ e = .valueError := by
  cases ivs with
  | nil => rw [C11.resample_empty]; constructor
           · intro h; injection h with h; exact ⟨rfl, h.symm⟩
           · rintro ⟨_, rfl⟩; rfl
  | cons iv0 rest =>
    obtain ⟨h, hh⟩ := s11b_resampleWith_total f iv0 rest vals
    rw [hh]; simp

/-- **… and `resample` as the library runs it**: iff the index is non-empty and passes `nonOverlapping c`; every
failure is a `ValueError` -/
theorem resampleChecked_ok_iff (c : IClosed) (f : Stairs Rat) (ivs : List Iv) (vals : List Rat) :
    (∃ h, resampleChecked c f ivs vals = .ok h) ↔ ivs ≠ [] ∧ nonOverlapping c ivs = true := by
  unfold resampleChecked
  by_cases hn : nonOverlapping c ivs = true
  · rw [if_pos hn, resampleWith_ok_iff]; simp [hn]
  · rw [if_neg hn]; simp [hn]
theorem resampleChecked_error (c : IClosed) (f : Stairs Rat) (ivs : List Iv) (vals : List Rat)
    (h : ¬ (ivs ≠ [] ∧ nonOverlapping c ivs = true)) : resampleChecked c f ivs vals = .error .valueError := by
  unfold resampleChecked
  by_cases hn : nonOverlapping c ivs = true
  · rw [if_pos hn]
    have : ivs = [] := by by_contra h'; exact h ⟨h', hn⟩
    rw [this]; rfl
  · rw [if_neg hn]
theorem resampleChecked_eq (c : IClosed) (f : Stairs Rat) (ivs : List Iv) (vals : List Rat)
    (h : nonOverlapping c ivs = true) : resampleChecked c f ivs vals = resampleWith f ivs vals := by
  unfold resampleChecked; rw [if_pos h]

/-- **what `nonOverlapping c` means**: for proper intervals, *all* pairs (not just neighbours) are separated -/
theorem nonOverlapping_iff_pairwise (c : IClosed) (ivs : List Iv) (hp : Proper ivs) :
    nonOverlapping c ivs = true ↔ ivs.Pairwise (sep c) := by
  induction ivs with
  | nil => simp [nonOverlapping]
  | cons a r ih =>
    have hpr : Proper r := fun iv hiv => hp iv (List.mem_cons_of_mem _ hiv)
    cases r with
    | nil => simp [nonOverlapping]
    | cons b r' =>
      rw [s11b_nonOverlapping_cons, ih hpr, List.pairwise_cons (l := b :: r')]
      constructor
      · rintro ⟨h1, h2⟩
        refine ⟨fun d hd => ?_, h2⟩
        rcases List.mem_cons.mp hd with rfl | hd
        · exact h1
        · exact s11b_sep_trans c a b d (hp b (by simp)) h1 ((List.pairwise_cons.mp h2).1 d hd)
      · rintro ⟨h1, h2⟩
        exact ⟨h1 b (by simp), h2⟩

/-- separated intervals (closed as the index says) have no point in common -/
theorem sep_disjoint (c : IClosed) (a b : Iv) (h : sep c a b) (x : Rat) :
    ¬ (inInterval c (some a.1) (some a.2) x ∧ inInterval c (some b.1) (some b.2) x) := by
  rintro ⟨⟨_, h1⟩, ⟨h2, _⟩⟩
  unfold sep at h
  cases c <;> simp only [hiStrict, loStrict, reduceCtorEq, if_false, if_true, Bool.false_eq_true] at h h1 h2 <;> linarith

/-- tiling slices always pass the check unless the index is closed on both sides (C11 `tiles_nonOverlapping`) — then
they never do: **a tiling `closed="both"` index of two or more intervals cannot be resampled** -/
theorem tiles_both_rejected (f : Stairs Rat) (a b : Iv) (r : List Iv) (vals : List Rat) (ht : Tiles (a :: b :: r)) :
    nonOverlapping .both (a :: b :: r) = false ∧
    resampleChecked .both f (a :: b :: r) vals = .error .valueError := by
  have h : nonOverlapping .both (a :: b :: r) = false := by
    cases hn : nonOverlapping .both (a :: b :: r) with
    | false => rfl
    | true =>
      have := ((s11b_nonOverlapping_cons .both a b r).mp hn).1
      simp only [sep, if_true] at this
      exact absurd ht.1 (ne_of_lt this)
  refine ⟨h, ?_⟩
  unfold resampleChecked; rw [h]; rfl

/-- on an increasing index of proper intervals the span `resampleWith` computes is `(first.left, last.right)` — the
very window the seeded pre-clip of §1 used -/
theorem span_of_increasing (iv0 : Iv) (rest : List Iv) (hp : Proper (iv0 :: rest)) (hi : Increasing (iv0 :: rest)) :
    spanLo iv0 (iv0 :: rest) = iv0.1 ∧ spanHi iv0 (iv0 :: rest) = (lastIv iv0 rest).2 :=
  s11b_span_of_bounds iv0 rest (s11b_staggered_bounds iv0 rest (s11b_staggered_of_increasing _ hp hi))

/-- **`resample` on an index that passes the check** (proper intervals; gaps allowed): it succeeds; on slice `k` it is
the constant `vals[k]` (whatever `f` is there); at a point of no slice it is `f` outside `(first.left, last.right)` and
**`0` — not `f` — in the gaps inside** -/
theorem resampleChecked_spec (c : IClosed) (f : Stairs Rat) (hf : f.WF) (iv0 : Iv) (rest : List Iv) (vals : List Rat)
    (hp : Proper (iv0 :: rest)) (hok : nonOverlapping c (iv0 :: rest) = true)
    (hlen : vals.length = (iv0 :: rest).length) :
    ∃ h, resampleChecked c f (iv0 :: rest) vals = .ok h ∧ h.WF ∧ h.closed = f.closed ∧ ∀ st x,
      (∀ k (hk : k < (iv0 :: rest).length),
        inWindow st (some (iv0 :: rest)[k].1) (some (iv0 :: rest)[k].2) x = true →
        Den h st x = some (vals[k]'(by rw [hlen]; exact hk))) ∧
      ((∀ iv ∈ iv0 :: rest, inWindow st (some iv.1) (some iv.2) x = false) →
        Den h st x = if inWindow st (some iv0.1) (some (lastIv iv0 rest).2) x then some 0 else Den f st x) := by
  have hinc := C11.increasing_of_check c _ hok
  obtain ⟨s1, s2⟩ := span_of_increasing iv0 rest hp hinc
  obtain ⟨h, hres, hw, hc, _⟩ := C11.resample_general f hf iv0 rest vals hp
  refine ⟨h, by rw [resampleChecked_eq c f _ vals hok]; exact hres, hw, hc, fun st x => ⟨fun k hk hx => ?_, fun hno => ?_⟩⟩
  · exact C11.resample_on_slice f h hf iv0 rest vals hp hinc hlen hres k hk st x hx
  · by_cases hin : inWindow st (some iv0.1) (some (lastIv iv0 rest).2) x = true
    · rw [if_pos hin]
      exact C11.resample_gap f h hf iv0 rest vals hp hres st x (by rw [s1, s2]; exact hin) hno
    · rw [if_neg hin]
      exact C11.resample_outside_span f h hf iv0 rest vals hp hres st x (by rw [s1, s2]; simpa using hin)

/-- **refutation of "on a gapped index `f` is kept on the gaps"**: in a gap the result is `0`; it equals `f` there iff
`f` happens to be `0` at that point -/
theorem resample_gap_keeps_iff (f h : Stairs Rat) (hf : f.WF) (iv0 : Iv) (rest : List Iv) (vals : List Rat)
    (hp : Proper (iv0 :: rest)) (hres : resampleWith f (iv0 :: rest) vals = .ok h) (st : Bool) (x : Rat)
    (hx : inWindow st (some (spanLo iv0 (iv0 :: rest))) (some (spanHi iv0 (iv0 :: rest))) x = true)
    (hno : ∀ iv ∈ iv0 :: rest, inWindow st (some iv.1) (some iv.2) x = false) :
    Den h st x = Den f st x ↔ Den f st x = some 0 := by
  rw [C11.resample_gap f h hf iv0 rest vals hp hres st x hx hno]
  exact eq_comm
/-- … on a witness: `fL` is `5` at `5/2` and undefined at `7/2`, both in the gap `[2, 4)` of the index `[0,2), [4,6)`;
the resampled function is `0` at both points -/
theorem resample_gap_not_kept :
    ∃ h, resampleChecked .left fL [(0, 2), (4, 6)] [10, 20] = .ok h ∧
      Den h false (5/2) = some 0 ∧ Den fL false (5/2) = some 5 ∧
      Den h false (7/2) = some 0 ∧ Den fL false (7/2) = none ∧
      Den h false 1 = some 10 ∧ Den h false 5 = some 20 ∧ Den h false 7 = Den fL false 7 ∧
      Den h false (-1) = Den fL false (-1) :=
  ⟨⟨some 1, [(0, some 10), (2, some 0), (4, some 20), (6, some 7)], .left⟩, by decide +kernel, by decide +kernel,
    by decide +kernel, by decide +kernel, by decide +kernel, by decide +kernel, by decide +kernel, by decide +kernel,
    by decide +kernel⟩

/-- **why the check is there**: on two overlapping intervals `resampleWith` *adds* the two constants on the overlap -/
theorem resample_overlap_adds (f : Stairs Rat) (hf : f.WF) (a b : Iv) (v w : Rat) (ha : a.1 < a.2) (hb : b.1 < b.2)
    (st : Bool) (x : Rat) (hxa : inWindow st (some a.1) (some a.2) x = true)
    (hxb : inWindow st (some b.1) (some b.2) x = true) :
    ∃ h, resampleWith f [a, b] [v, w] = .ok h ∧ Den h st x = some (v + w) := by
  have hp : Proper [a, b] := fun iv hiv => by
    simp only [List.mem_cons, List.not_mem_nil, or_false] at hiv
    rcases hiv with rfl | rfl <;> assumption
  obtain ⟨h, hres, _, _, hden⟩ := C11.resample_general f hf a [b] [v, w] hp
  refine ⟨h, hres, ?_⟩
  have hspan := inWindow_mono st _ _ _ _ x ((spanLo_spec a [a, b]).2.2 a (by simp))
    ((spanHi_spec a [a, b]).2.2 a (by simp)) hxa
  rw [hden, hspan]
  simp [bump, hxa, hxb, vadd, vlift2]

/-- **dually to §2, `resample` only sees `f` outside the span**: functions that agree outside the span of the index
(both one-sided limits, same closed side) resample to the same function -/
theorem resampleWith_congr_outside (f g : Stairs Rat) (hf : f.WF) (hg : g.WF) (hc : f.closed = g.closed)
    (iv0 : Iv) (rest : List Iv) (vals : List Rat) (hp : Proper (iv0 :: rest))
    (h : ∀ st x, inWindow st (some (spanLo iv0 (iv0 :: rest))) (some (spanHi iv0 (iv0 :: rest))) x = false →
      Den f st x = Den g st x) :
    ∃ hf' hg', resampleWith f (iv0 :: rest) vals = .ok hf' ∧ resampleWith g (iv0 :: rest) vals = .ok hg' ∧
      hf'.closed = hg'.closed ∧ ∀ st x, Den hf' st x = Den hg' st x := by
  obtain ⟨h1, r1, _, c1, d1⟩ := C11.resample_general f hf iv0 rest vals hp
  obtain ⟨h2, r2, _, c2, d2⟩ := C11.resample_general g hg iv0 rest vals hp
  refine ⟨h1, h2, r1, r2, by rw [c1, c2, hc], fun st x => ?_⟩
  rw [d1, d2]
  cases hin : inWindow st (some (spanLo iv0 (iv0 :: rest))) (some (spanHi iv0 (iv0 :: rest))) x with
  | true => rfl
  | false => simp only [Bool.false_eq_true, if_false]; rw [h st x hin]

/-- non-vacuity of `resampleChecked_spec`: a gapped increasing index of proper intervals -/
example : Proper [((0 : Rat), (2 : Rat)), (4, 6)] ∧ nonOverlapping .left [((0 : Rat), (2 : Rat)), (4, 6)] = true ∧
    ([10, 20] : List Rat).length = [((0 : Rat), (2 : Rat)), (4, 6)].length ∧ fL.WF ∧
    [((0 : Rat), (2 : Rat)), (4, 6)].Pairwise (sep .left) := by decide +kernel
/-- non-vacuity: checks, spans and results on `fL` -/
example : nonOverlapping .left [((0 : Rat), (2 : Rat)), (4, 6)] = true ∧
    nonOverlapping .both [((0 : Rat), (2 : Rat)), (2, 4)] = false ∧
    nonOverlapping .right [((0 : Rat), (2 : Rat)), (2, 4)] = true ∧
    nonOverlapping .left [((0 : Rat), (4 : Rat)), (2, 6)] = false ∧
    nonOverlapping .left [((4 : Rat), (6 : Rat)), (0, 2)] = false ∧
    resampleChecked .left fL [(0, 4), (2, 6)] [1, 2] = .error .valueError ∧
    resampleChecked .left fL [] [] = .error .valueError ∧
    resampleWith fL [(0, 4), (2, 6)] [1, 2]
      = .ok ⟨some 1, [(2, some 3), (4, some 2), (6, some 7)], .left⟩ ∧
    resampleChecked .both fL [(0, 2), (2, 4)] [1, 2] = .error .valueError := by decide +kernel

/-! ## 5. tilings, `PeriodIndex`-style unit intervals: the slices add up to the span -/

/-- `n` consecutive periods `[a, a+w), [a+w, a+2w), …` -/
def periodIvs (a w : Rat) : Nat → List Iv
  | 0 => []
  | n + 1 => (a, a + w) :: periodIvs (a + w) w n
/-- consecutive unit intervals `[k, k+1), …, [k+n-1, k+n)` -/
def unitIvs (k : Rat) (n : Nat) : List Iv := periodIvs k 1 n

section Helpers
theorem s11b_tiles_last_gt (b : Iv) (r : List Iv) (hp : Proper (b :: r)) (ht : Tiles (b :: r)) :
    b.1 < (lastIv b r).2 :=
  lt_of_lt_of_le (hp b (by simp))
    (s11b_staggered_bounds b r (s11b_staggered_of_increasing _ hp (increasing_of_tiles _ ht)) b (by simp)).2

/-- every weighted sum over the slices of a tiling adds up to that over the span -/
theorem s11b_wsum_tiles (w : Rat → Rat) (f : Stairs Rat) (hf : f.WF) (iv0 : Iv) (rest : List Iv)
    (hp : Proper (iv0 :: rest)) (ht : Tiles (iv0 :: rest)) :
    ((iv0 :: rest).map fun iv => wsum w (window f iv.1 iv.2)).sum = wsum w (window f iv0.1 (lastIv iv0 rest).2) := by
  induction rest generalizing iv0 with
  | nil => simp [lastIv]
  | cons b r ih =>
    have hpr : Proper (b :: r) := fun iv hiv => hp iv (List.mem_cons_of_mem _ hiv)
    rw [List.map_cons, List.sum_cons, ih b hpr ht.2]
    have h1 : iv0.1 < iv0.2 := hp iv0 (by simp)
    have h2 : iv0.2 < (lastIv b r).2 := by rw [ht.1]; exact s11b_tiles_last_gt b r hpr ht.2
    show _ = wsum w (window f iv0.1 (lastIv b r).2)
    rw [C08b.wsum_window_additive w f hf iv0.1 iv0.2 _ h1 h2, ht.1]

theorem s11b_naAdd_none (x : Val) : C08b.naAdd x none = x := by cases x <;> rfl

theorem s11b_period_mem (a w : Rat) (hw : 0 < w) (n : Nat) :
    ∀ iv ∈ periodIvs a w n, iv.2 = iv.1 + w ∧ a ≤ iv.1 ∧ iv.2 ≤ a + n * w := by
  induction n generalizing a with
  | zero => intro iv hiv; simp [periodIvs] at hiv
  | succ n ih =>
    intro iv hiv
    simp only [periodIvs, List.mem_cons] at hiv
    have hn : (0 : Rat) ≤ n := Nat.cast_nonneg n
    rcases hiv with rfl | hiv
    · refine ⟨rfl, le_refl _, ?_⟩
      push_cast
      nlinarith
    · obtain ⟨h1, h2, h3⟩ := ih (a + w) iv hiv
      refine ⟨h1, by linarith, ?_⟩
      push_cast
      linarith

theorem s11b_period_last (a w : Rat) (n : Nat) :
    (lastIv (a, a + w) (periodIvs (a + w) w n)).2 = a + ((n + 1 : Nat) : Rat) * w := by
  induction n generalizing a with
  | zero => simp [periodIvs, lastIv]
  | succ n ih =>
    show (lastIv (a + w, a + w + w) (periodIvs (a + w + w) w n)).2 = _
    rw [ih (a + w)]
    push_cast
    ring
end Helpers

theorem periodIvs_length (a w : Rat) (n : Nat) : (periodIvs a w n).length = n := by
  induction n generalizing a with
  | zero => rfl
  | succ n ih => simp [periodIvs, ih]

/-- periods of positive width are proper and tile their span `[a, a + n·w)` … -/
theorem periodIvs_proper (a w : Rat) (hw : 0 < w) (n : Nat) : Proper (periodIvs a w n) := by
  intro iv hiv
  rw [(s11b_period_mem a w hw n iv hiv).1]; linarith
theorem periodIvs_tiles (a w : Rat) (n : Nat) : Tiles (periodIvs a w n) := by
  induction n generalizing a with
  | zero => trivial
  | succ n ih =>
    cases n with
    | zero => trivial
    | succ m => exact ⟨rfl, ih (a + w)⟩
/-- … so they pass the `resample` check for every closedness but `both`, and the pre-clip variant of §1 is harmless -/
theorem periodIvs_nonOverlapping (c : IClosed) (hc : c ≠ .both) (a w : Rat) (n : Nat) :
    nonOverlapping c (periodIvs a w n) = true := C11.tiles_nonOverlapping c hc _ (periodIvs_tiles a w n)
theorem periodIvs_slicesPre (f : Stairs Rat) (hf : f.WF) (a w : Rat) (hw : 0 < w) (n : Nat) :
    slicesPre f (periodIvs a w n) = .ok (slices f (periodIvs a w n)) :=
  slicesPre_eq_of_tiles f hf _ (periodIvs_proper a w hw n) (periodIvs_tiles a w n)

/-- **on any tiling index the integral sums, the defined lengths and every weighted sum of the slices add up to those
of the span** (undefined stretches count as nothing) -/
theorem tiles_sums (f : Stairs Rat) (hf : f.WF) (iv0 : Iv) (rest : List Iv)
    (hp : Proper (iv0 :: rest)) (ht : Tiles (iv0 :: rest)) :
    ((iv0 :: rest).map fun iv => intOn f iv.1 iv.2).sum = intOn f iv0.1 (lastIv iv0 rest).2 ∧
    ((iv0 :: rest).map fun iv => lenOn f iv.1 iv.2).sum = lenOn f iv0.1 (lastIv iv0 rest).2 ∧
    ∀ w : Rat → Rat,
      ((iv0 :: rest).map fun iv => wsum w (window f iv.1 iv.2)).sum = wsum w (window f iv0.1 (lastIv iv0 rest).2) :=
  ⟨s11b_wsum_tiles _ f hf iv0 rest hp ht,
   by simp only [lenOn_eq_wsum]; exact s11b_wsum_tiles _ f hf iv0 rest hp ht,
   fun w => s11b_wsum_tiles w f hf iv0 rest hp ht⟩

/-- **the slicer integrals of a tiling add up to the integral over the span**, NaN (= `f` undefined throughout the
slice) counting as nothing (`C08b.naAdd`) -/
theorem tiles_integral (f : Stairs Rat) (hf : f.WF) (iv0 : Iv) (rest : List Iv)
    (hp : Proper (iv0 :: rest)) (ht : Tiles (iv0 :: rest)) :
    ((iv0 :: rest).map fun iv => integral (window f iv.1 iv.2)).foldr C08b.naAdd none
      = integral (window f iv0.1 (lastIv iv0 rest).2) := by
  induction rest generalizing iv0 with
  | nil => simp [lastIv, s11b_naAdd_none]
  | cons b r ih =>
    have hpr : Proper (b :: r) := fun iv hiv => hp iv (List.mem_cons_of_mem _ hiv)
    rw [List.map_cons, List.foldr_cons, ih b hpr ht.2]
    have h1 : iv0.1 < iv0.2 := hp iv0 (by simp)
    have h2 : iv0.2 < (lastIv b r).2 := by rw [ht.1]; exact s11b_tiles_last_gt b r hpr ht.2
    show _ = integral (window f iv0.1 (lastIv b r).2)
    rw [C08b.integral_window_additive f hf iv0.1 iv0.2 _ h1 h2, ht.1]

/-- two adjacent slices, in the slicer's own terms: integrals add (NaN = nothing there; with the library's `+` when
`f` is defined somewhere in each part) -/
theorem slicer_integral_adjacent (f : Stairs Rat) (hf : f.WF) (a b c : Rat) (hab : a < b) (hbc : b < c) :
    ∃ i₁ i₂, C11.slicerStat integral f (a, b) = .ok i₁ ∧ C11.slicerStat integral f (b, c) = .ok i₂ ∧
      C11.slicerStat integral f (a, c) = .ok (C08b.naAdd i₁ i₂) ∧
      ((∃ x, a ≤ x ∧ x < b ∧ Den f false x ≠ none) → (∃ x, b ≤ x ∧ x < c ∧ Den f false x ≠ none) →
        C11.slicerStat integral f (a, c) = .ok (vadd i₁ i₂)) := by
  refine ⟨_, _, s11b_slicerStat_ok integral f (a, b) hab, s11b_slicerStat_ok integral f (b, c) hbc, ?_, ?_⟩
  · rw [s11b_slicerStat_ok integral f (a, c) (lt_trans hab hbc)]
    exact congrArg _ (C08b.integral_window_additive f hf a b c hab hbc)
  · intro h1 h2
    rw [s11b_slicerStat_ok integral f (a, c) (lt_trans hab hbc)]
    exact congrArg _ (C08b.integral_window_additive_defined f hf a b c hab hbc h1 h2)

/-- **the slicer mean sequence with the defined lengths as weights determines the integral over the span**:
`Σ meanᵢ · lenᵢ = ∫` (a NaN mean has weight `0`) -/
theorem tiles_means_weighted (f : Stairs Rat) (hf : f.WF) (iv0 : Iv) (rest : List Iv)
    (hp : Proper (iv0 :: rest)) (ht : Tiles (iv0 :: rest)) :
    ((iv0 :: rest).map fun iv => (mean (window f iv.1 iv.2)).getD 0 * lenOn f iv.1 iv.2).sum
      = intOn f iv0.1 (lastIv iv0 rest).2 := by
  rw [← (tiles_sums f hf iv0 rest hp ht).1]
  congr 1
  apply List.map_congr_left
  intro iv hiv
  rw [C08b.mean_window]
  by_cases h0 : lenOn f iv.1 iv.2 = 0
  · rw [if_pos h0, h0, C08b.intOn_eq_zero_of_lenOn f hf iv.1 iv.2 (hp iv hiv) h0]; simp
  · rw [if_neg h0]; simp only [Option.getD_some]; field_simp

/-- **periods of width `w` on which `f` is defined throughout: `w · Σ means = integral over the span`** — for unit
intervals the plain sum of the slicer means is the integral -/
theorem period_means_sum (f : Stairs Rat) (hf : f.WF) (a w : Rat) (hw : 0 < w) (n : Nat)
    (hdef : ∀ x, a ≤ x → x < a + ((n + 1 : Nat) : Rat) * w → ∃ y, Den f false x = some y) :
    ∃ ms : List Rat, slicerStats mean f (periodIvs a w (n + 1)) = ms.map (fun m => .ok (some m)) ∧
      ms.length = n + 1 ∧
      C11.slicerStat integral f (a, a + ((n + 1 : Nat) : Rat) * w) = .ok (some (w * ms.sum)) := by
  have hp := periodIvs_proper a w hw (n + 1)
  have ht := periodIvs_tiles a w (n + 1)
  have hmem := s11b_period_mem a w hw (n + 1)
  have hpos : a < a + ((n + 1 : Nat) : Rat) * w := by
    have : (0 : Rat) < ((n + 1 : Nat) : Rat) := by exact_mod_cast Nat.succ_pos n
    nlinarith
  refine ⟨(periodIvs a w (n + 1)).map fun iv => intOn f iv.1 iv.2 / w, ?_, by simp [periodIvs_length], ?_⟩
  · unfold slicerStats
    rw [List.map_map]
    apply List.map_congr_left
    intro iv hiv
    obtain ⟨e1, e2, e3⟩ := hmem iv hiv
    rw [s11b_slicerStat_ok mean f iv (hp iv hiv),
      mean_window_defined f hf iv.1 iv.2 (hp iv hiv) (fun x h1 h2 => hdef x (by linarith) (by linarith))]
    simp only [Function.comp]
    rw [e1]; congr 3; ring
  · rw [s11b_slicerStat_ok integral f _ hpos, C08b.integral_window f hf _ _ hpos,
      lenOn_defined f hf _ _ hpos hdef, if_neg (by linarith)]
    have hs := (tiles_sums f hf (a, a + w) (periodIvs (a + w) w n) hp ht).1
    rw [s11b_period_last] at hs
    show Except.ok (some (intOn f a (a + ((n + 1 : Nat) : Rat) * w))) = _
    rw [← hs]
    congr 2
    have e : ∀ l : List Iv, w * (l.map fun iv => intOn f iv.1 iv.2 / w).sum = (l.map fun iv => intOn f iv.1 iv.2).sum := by
      intro l
      induction l with
      | nil => simp
      | cons x r ih => simp only [List.map_cons, List.sum_cons, mul_add, ih]; congr 1; field_simp
    exact (e _).symm

/-- **unit intervals `[k, k+1), …, [k+n, k+n+1)`: `Σ slicer means = ∫ f` over `[k, k+n+1)`** when `f` is defined
throughout -/
theorem unit_means_sum (f : Stairs Rat) (hf : f.WF) (k : Rat) (n : Nat)
    (hdef : ∀ x, k ≤ x → x < k + ((n + 1 : Nat) : Rat) → ∃ y, Den f false x = some y) :
    ∃ ms : List Rat, slicerStats mean f (unitIvs k (n + 1)) = ms.map (fun m => .ok (some m)) ∧
      ms.length = n + 1 ∧
      C11.slicerStat integral f (k, k + ((n + 1 : Nat) : Rat)) = .ok (some ms.sum) := by
  obtain ⟨ms, h1, h2, h3⟩ := period_means_sum f hf k 1 one_pos n (by simpa using hdef)
  refine ⟨ms, h1, h2, ?_⟩
  simpa using h3

/-- **without "defined throughout" the plain sum is wrong**: `hL` is `4` on `[0, 1/2)`, undefined on `[1/2, 1)`, `2` on
`[1, 2)`; the unit means are `4, 2` (sum `6`) but `∫₀² = 4`; weighted by the defined lengths `1/2, 1` they do give `4` -/
def hL : Stairs Rat := ⟨none, [(0, some 4), (1/2, none), (1, some 2), (2, none)], .left⟩
theorem unit_means_sum_needs_defined :
    hL.WF ∧ slicerStats mean hL (unitIvs 0 2) = [.ok (some 4), .ok (some 2)] ∧
    C11.slicerStat integral hL (0, 2) = .ok (some 4) ∧
    (unitIvs 0 2).map (fun iv => lenOn hL iv.1 iv.2) = [1/2, 1] := by decide +kernel

/-- non-vacuity: `fL` is defined throughout `[0, 3)` (values `2, 2, 5`) and throughout `[4, 8)` -/
example : ∀ x : Rat, (0 : Rat) ≤ x → x < 0 + ((2 + 1 : Nat) : Rat) → ∃ y, Den fL false x = some y := by
  intro x h1 h2
  have h2' : x < 3 := by simpa using h2
  have r0 : reached false (0 : Rat) x = true := by simp [reached]; linarith
  have r3 : reached false (3 : Rat) x = false := by simp [reached]; linarith
  have r4 : reached false (4 : Rat) x = false := by simp [reached]; linarith
  have r6 : reached false (6 : Rat) x = false := by simp [reached]; linarith
  by_cases r2 : reached false (2 : Rat) x = true
  · exact ⟨5, by simp [Den, fL, lim, r0, r2, r3]⟩
  · exact ⟨2, by simp [Den, fL, lim, r0, r2]⟩
example : unitIvs 0 3 = [(0, 1), (1, 2), (2, 3)] ∧
    slicerStats mean fL (unitIvs 0 3) = [.ok (some 2), .ok (some 2), .ok (some 5)] ∧
    C11.slicerStat integral fL (0, 3) = .ok (some 9) ∧
    slicerStats integral fL (unitIvs 2 3) = [.ok (some 5), .ok none, .ok (some 3)] ∧
    C11.slicerStat integral fL (2, 5) = .ok (some 8) ∧
    Proper (periodIvs 0 (3/2) 4) ∧ Tiles (periodIvs 0 (3/2) 4) ∧
    ((periodIvs 0 (3/2) 4).map fun iv => intOn fL iv.1 iv.2) = [3, 6, 3/2, 9/2] ∧ intOn fL 0 6 = 15 := by
  decide +kernel

end SC.Props.C11b
