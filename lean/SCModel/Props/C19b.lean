import SCModel.Lemmas.Integral
import SCModel.Props.C08
import SCModel.Props.C19
/-!
# C19b — representation independence of the integral; cov is symmetric; cov(f, f) = var(f); Cauchy–Schwarz

(A) `wsum w f = Σ w(value)·length` over the finite defined pieces (so `wsum id` is the integral sum and
    `wsum 1` the defined length) depends only on the function denoted and on the first and last step point
    (`wsum_eq_of_den`, local form `wsum_eq_of_den_on`: only the function on `[first, last)` matters); for functions
    undefined towards ±∞ — everything that went through a bounded `clip` — on the denotation alone
    (`wsum_eq_of_den_bounded`).  Hence the same for `integral`, `mean`, `var`, `value_sums`
    (`stats_eq_of_den`, `stats_eq_of_den_on`, `stats_eq_of_den_bounded`, `stats_canon`, `stats_resample`).
    The proof is Abel summation (`Lemmas/Integral.lean`: `pieceSum_eq_jump`): the sum of the jumps is invariant
    under `removeRedundant`, hence a function of the canonical form.
(B) `cov_symm` (any window)
(C) `cov_self_eq_var` (bounded window, no further hypothesis); it fails for unbounded and half-bounded windows:
    `cov_self_ne_var_unbounded`, `cov_self_ne_var_halfbounded`
(D) `cov_sq_le_var_mul_var`, `corr_sq_le` (Cauchy–Schwarz, bounded window)
-/
set_option linter.unusedSectionVars false
set_option linter.unusedVariables false
namespace SC.Props.C19b
open SC SC.Stairs SC.Props.C08 SC.Props.C19

/-! ## (A) representation independence -/

/-- same first and same last step point (both `none` when there are no steps) -/
def SameEnds (f g : Stairs Rat) : Prop :=
  f.steps.head?.map Prod.fst = g.steps.head?.map Prod.fst ∧
  f.steps.getLast?.map Prod.fst = g.steps.getLast?.map Prod.fst

instance (f g : Stairs Rat) : Decidable (SameEnds f g) := by unfold SameEnds; infer_instance

/-- undefined on both unbounded pieces -/
def BoundedSupport (f : Stairs Rat) : Prop := f.init = none ∧ lastVal f.init f.steps = none

instance (f : Stairs Rat) : Decidable (BoundedSupport f) := by unfold BoundedSupport; infer_instance

/-- `BoundedSupport` is a property of the denotation: undefined left of some `lo` and right of some `hi` -/
theorem boundedSupport_of_den (f : Stairs Rat) (lo hi : Rat)
    (h1 : ∀ x, x < lo → Den f false x = none) (h2 : ∀ x, hi < x → Den f false x = none) : BoundedSupport f :=
  ⟨init_none_of_lim f.init f.steps lo h1, lastVal_none_of_lim f.init f.steps hi h2⟩

/-- **(A)** two well-formed representations of the same function with the same first and last step point have
the same `Σ w(value)·length`, for every `w` -/
theorem wsum_eq_of_den (f g : Stairs Rat) (hf : f.WF) (hg : g.WF) (h : ∀ x, Den f false x = Den g false x)
    (he : SameEnds f g) (w : Rat → Rat) : wsum w f = wsum w g := by
  rw [wsum_eq_pieceSum, wsum_eq_pieceSum]
  exact pieceSum_eq_of_den _ f.init g.init f.steps g.steps hf hg h he.1 he.2

/-- **(A, bounded support)** no condition on the step points at all -/
theorem wsum_eq_of_den_bounded (f g : Stairs Rat) (hf : f.WF) (hg : g.WF) (h : ∀ x, Den f false x = Den g false x)
    (hb : BoundedSupport f) (w : Rat → Rat) : wsum w f = wsum w g := by
  rw [wsum_eq_pieceSum, wsum_eq_pieceSum]
  exact pieceSum_eq_of_den_bounded _ f.init g.init f.steps g.steps hf hg h
    (by rw [hb.1]; rfl) (by rw [hb.2]; rfl)

/-- `var` is a function of the weighted sums -/
theorem var_congr (f g : Stairs Rat) (hw : ∀ w, wsum w f = wsum w g) : var f = var g := by
  have hL : definedLength f = definedLength g := by
    rw [definedLength_eq_wsum, definedLength_eq_wsum, hw]
  have hm : mean f = mean g := mean_congr f g hL (hw _)
  cases hmf : mean f with
  | none => rw [var_none f hmf, var_none g (by rw [← hm, hmf])]
  | some m =>
    rw [var_eq_pieces f m hmf, var_eq_pieces g m (by rw [← hm, hmf]), hL]
    have := hw (fun v => (v - m) * (v - m))
    unfold wsum at this
    rw [this]

/-- `value_sums` is a function of the weighted sums (for well-formed operands) -/
theorem ksorted_ext (l₁ l₂ : List (Rat × Rat)) (h₁ : KSorted l₁) (h₂ : KSorted l₂)
    (n₁ : ∀ e ∈ l₁, e.2 ≠ 0) (n₂ : ∀ e ∈ l₂, e.2 ≠ 0) (he : ∀ k, entry l₁ k = entry l₂ k) : l₁ = l₂ := by
  induction l₁ generalizing l₂ with
  | nil =>
    cases l₂ with
    | nil => rfl
    | cons b r₂ =>
      have := he b.1
      rw [entry_nil, entry_of_mem _ h₂ b.1 b.2 (by simp)] at this
      exact absurd this.symm (n₂ b (by simp))
  | cons a r₁ ih =>
    cases l₂ with
    | nil =>
      have := he a.1
      rw [entry_nil, entry_of_mem _ h₁ a.1 a.2 (by simp)] at this
      exact absurd this (n₁ a (by simp))
    | cons b r₂ =>
      have t₁ := ksorted_tail h₁
      have t₂ := ksorted_tail h₂
      have hk : a.1 = b.1 := by
        rcases lt_trichotomy a.1 b.1 with hlt | heq | hgt
        · have := he a.1
          rw [entry_of_mem _ h₁ a.1 a.2 (by simp), entry_of_not_mem _ a.1 (by
            simp only [List.map_cons, List.mem_cons, not_or]
            exact ⟨ne_of_lt hlt, fun hm => lt_asymm hlt (t₂.2 _ hm)⟩)] at this
          exact absurd this (n₁ a (by simp))
        · exact heq
        · have := he b.1
          rw [entry_of_mem _ h₂ b.1 b.2 (by simp), entry_of_not_mem _ b.1 (by
            simp only [List.map_cons, List.mem_cons, not_or]
            exact ⟨ne_of_lt hgt, fun hm => lt_asymm hgt (t₁.2 _ hm)⟩)] at this
          exact absurd this.symm (n₂ b (by simp))
      have hv : a.2 = b.2 := by
        have := he a.1
        rwa [entry_of_mem _ h₁ a.1 a.2 (by simp), hk, entry_of_mem _ h₂ b.1 b.2 (by simp)] at this
      have hab : a = b := Prod.ext hk hv
      subst hab
      rw [ih r₂ t₁.1 t₂.1 (fun e h => n₁ e (by simp [h])) (fun e h => n₂ e (by simp [h])) (fun k => by
        have := he k
        rw [entry_cons, entry_cons] at this
        linarith)]

theorem valueSums_congr (f g : Stairs Rat) (hf : f.WF) (hg : g.WF) (hw : ∀ w, wsum w f = wsum w g) :
    valueSums f = valueSums g := by
  apply ksorted_ext _ _ (valueSums_sorted f) (valueSums_sorted g)
    (fun e h => ne_of_gt (valueSums_positive f hf e h)) (fun e h => ne_of_gt (valueSums_positive g hg e h))
  intro k
  have key : ∀ f : Stairs Rat, entry (valueSums f) k = wsum (fun v => if v = k then 1 else 0) f := by
    intro f
    rw [valueSums_eq, entry_vsFold, entry_nil, zero_add]
    unfold entry wsum
    rw [sumBy_filter]
    apply sumBy_congr
    intro a _
    by_cases h : a.1 = k <;> simp [h]
  rw [key, key, hw]

/-- all the statistics of C08 agree for two representations with the same ends -/
theorem stats_eq_of_den (f g : Stairs Rat) (hf : f.WF) (hg : g.WF) (h : ∀ x, Den f false x = Den g false x)
    (he : SameEnds f g) :
    definedLength f = definedLength g ∧ integral f = integral g ∧ mean f = mean g ∧ var f = var g ∧
    valueSums f = valueSums g := by
  have hw := wsum_eq_of_den f g hf hg h he
  have hL : definedLength f = definedLength g := by
    rw [definedLength_eq_wsum, definedLength_eq_wsum, hw]
  refine ⟨hL, ?_, mean_congr f g hL (hw _), var_congr f g hw, valueSums_congr f g hf hg hw⟩
  unfold integral
  have hlen := length_lt_two_iff_of_ends f.steps g.steps hf hg he.1 he.2
  have := hw (fun v => v)
  unfold wsum at this
  by_cases h2 : f.steps.length < 2
  · rw [if_pos h2, if_pos (hlen.mp h2)]
  · rw [if_neg h2, if_neg (fun h' => h2 (hlen.mpr h')), this]

/-- with bounded support: the denotation alone decides (the integral sum is `wsum id`; `integral` itself also
looks at the number of rows, which the denotation does not determine for non-canonical operands) -/
theorem stats_eq_of_den_bounded (f g : Stairs Rat) (hf : f.WF) (hg : g.WF) (h : ∀ x, Den f false x = Den g false x)
    (hb : BoundedSupport f) :
    definedLength f = definedLength g ∧ wsum (fun v => v) f = wsum (fun v => v) g ∧ mean f = mean g ∧
    var f = var g ∧ valueSums f = valueSums g := by
  have hw := wsum_eq_of_den_bounded f g hf hg h hb
  have hL : definedLength f = definedLength g := by
    rw [definedLength_eq_wsum, definedLength_eq_wsum, hw]
  exact ⟨hL, hw _, mean_congr f g hL (hw _), var_congr f g hw, valueSums_congr f g hf hg hw⟩

/-- canonicalisation that keeps the first and the last row keeps every statistic -/
theorem stats_canon (f : Stairs Rat) (hf : f.WF) (he : SameEnds f.canon f) :
    definedLength f.canon = definedLength f ∧ integral f.canon = integral f ∧ mean f.canon = mean f ∧
    var f.canon = var f ∧ valueSums f.canon = valueSums f :=
  stats_eq_of_den f.canon f (wf_canon f hf) hf (fun x => den_canon f hf false x) he

/-- **(A, local form)** only the function on `[first, last)` matters: the initial value and the value of the
last row (the two unbounded pieces) are irrelevant, and so is the representation in between -/
theorem wsum_eq_of_den_on (f g : Stairs Rat) (hf : f.WF) (hg : g.WF) (first last : Rat)
    (hff : f.steps.head?.map Prod.fst = some first) (hfg : g.steps.head?.map Prod.fst = some first)
    (hlf : f.steps.getLast?.map Prod.fst = some last) (hlg : g.steps.getLast?.map Prod.fst = some last)
    (h : ∀ x, first ≤ x → x < last → Den f false x = Den g false x) (w : Rat → Rat) : wsum w f = wsum w g := by
  rw [wsum_eq_pieceSum, wsum_eq_pieceSum]
  exact pieceSum_eq_of_den_on _ f.init g.init f.steps g.steps hf hg first last hff hfg hlf hlg h

theorem stats_eq_of_den_on (f g : Stairs Rat) (hf : f.WF) (hg : g.WF) (first last : Rat)
    (hff : f.steps.head?.map Prod.fst = some first) (hfg : g.steps.head?.map Prod.fst = some first)
    (hlf : f.steps.getLast?.map Prod.fst = some last) (hlg : g.steps.getLast?.map Prod.fst = some last)
    (h : ∀ x, first ≤ x → x < last → Den f false x = Den g false x) :
    definedLength f = definedLength g ∧ integral f = integral g ∧ mean f = mean g ∧ var f = var g ∧
    valueSums f = valueSums g := by
  have hw := wsum_eq_of_den_on f g hf hg first last hff hfg hlf hlg h
  have hL : definedLength f = definedLength g := by
    rw [definedLength_eq_wsum, definedLength_eq_wsum, hw]
  refine ⟨hL, ?_, mean_congr f g hL (hw _), var_congr f g hw, valueSums_congr f g hf hg hw⟩
  unfold integral
  have hlen := length_lt_two_iff_of_ends f.steps g.steps hf hg (hff.trans hfg.symm) (hlf.trans hlg.symm)
  have := hw (fun v => v)
  unfold wsum at this
  by_cases h2 : f.steps.length < 2
  · rw [if_pos h2, if_pos (hlen.mp h2)]
  · rw [if_neg h2, if_neg (fun h' => h2 (hlen.mpr h')), this]

/-- **refinement**: re-sampling a function on any finer grid with the same first and last point (i.e. inserting
any number of redundant rows strictly inside) changes none of the statistics -/
theorem stats_resample (f : Stairs Rat) (hf : f.WF) (idx : List Rat) (hidx : idx.Pairwise (· < ·))
    (hsub : ∀ q ∈ f.steps.map Prod.fst, q ∈ idx)
    (hfirst : idx.head? = f.steps.head?.map Prod.fst) (hlast : idx.getLast? = f.steps.getLast?.map Prod.fst) :
    let r : Stairs Rat := ⟨f.init, resample idx f.init f.steps, f.closed⟩
    r.WF ∧ (∀ st x, Den r st x = Den f st x) ∧
    definedLength r = definedLength f ∧ integral r = integral f ∧ mean r = mean f ∧ var r = var f ∧
    valueSums r = valueSums f := by
  intro r
  have hk : (resample idx f.init f.steps).map Prod.fst = idx := by
    unfold resample; simp [List.map_map, Function.comp_def]
  have hr : r.WF := by
    show Sorted (resample idx f.init f.steps)
    unfold Sorted; rw [hk]; exact hidx
  have hden : ∀ st x, Den r st x = Den f st x := fun st x => lim_refine st idx hidx f.init f.steps hf hsub x
  refine ⟨hr, hden, ?_⟩
  apply stats_eq_of_den r f hr hf (fun x => hden false x)
  constructor
  · show (resample idx f.init f.steps).head?.map Prod.fst = _
    rw [← List.head?_map, hk, hfirst]
  · show (resample idx f.init f.steps).getLast?.map Prod.fst = _
    rw [← List.getLast?_map, hk, hlast]

/-! ## (B) cov is symmetric -/

theorem vmul_comm (a b : Val) : vmul a b = vmul b a := by
  cases a <;> cases b <;> simp [vmul, vlift2, mul_comm]

theorem bothDefined_comm (f g : Stairs Rat) (st : Bool) (x : Rat) : BothDefined f g st x ↔ BothDefined g f st x := by
  unfold BothDefined; exact and_comm

/-- the mutually masked operands are canonical -/
theorem covPrep_canonical (f g : Stairs Rat) (lo hi : Option Rat) (hf : f.WF) (hg : g.WF)
    (r : Stairs Rat × Stairs Rat × Option Rat × Option Rat) (h : covPrep f g lo hi 0 true = .ok r) :
    r.1.Canonical ∧ r.2.1.Canonical := by
  unfold covPrep at h
  simp only [ne_eq, not_true_eq_false, false_and, if_false] at h
  cases h0 : binop (.logic .or) (unop .isna f) (unop .isna g) with
  | error e => rw [h0] at h; cases h
  | ok m =>
    have hm := (combineChecked_ok _ _ _ m (wf_unop _ f hf) (wf_unop _ g hg) h0).1.1
    rw [h0] at h; simp only [bind, Except.bind] at h
    cases h1 : mask f m with
    | error e => rw [h1] at h; cases h
    | ok f1 =>
      rw [h1] at h; simp only at h
      cases h2 : mask g m with
      | error e => rw [h2] at h; cases h
      | ok g1 =>
        rw [h2] at h; simp only [pure, Except.pure] at h
        injection h with h; subst h
        exact ⟨(combineChecked_ok _ _ _ f1 hf hm h1).1, (combineChecked_ok _ _ _ g1 hg hm h2).1⟩

/-- `clipW` either succeeds on every operand or fails on every operand (it only looks at the bounds) -/
theorem clipW_cases (lo hi : Option Rat) :
    (∀ f : Stairs Rat, ∃ c, clipW f lo hi = .ok c) ∨ (∀ f : Stairs Rat, clipW f lo hi = .error .valueError) := by
  by_cases hb : boundsOk lo hi = true
  · left; intro f
    cases lo with
    | none =>
      cases hi with
      | none => exact ⟨f, rfl⟩
      | some b => exact ⟨_, clip_ok f none (some b) hb⟩
    | some a => exact ⟨_, clip_ok f (some a) hi hb⟩
  · right; intro f
    have hb' : boundsOk lo hi = false := by simpa using hb
    cases lo with
    | none => cases hi <;> simp [boundsOk] at hb'
    | some a => exact clip_error f (some a) hi hb'

theorem binop_mul_ok (f g : Stairs Rat) (cl : Side) (hf : f.closed = cl) (hg : g.closed = cl) :
    binop .mul f g = .ok (combine vmul f g cl) := by
  obtain ⟨h1, h2⟩ := sideOf_same f g cl hf hg
  unfold binop; rw [combineChecked_total _ _ _ h1, h2]; rfl

/-- **(B)** `cov` is symmetric: for well-formed operands with the same closed side, any window -/
theorem cov_symm (f g : Stairs Rat) (lo hi : Option Rat) (hf : f.WF) (hg : g.WF) (hc : f.closed = g.closed) :
    cov f g lo hi 0 true = cov g f lo hi 0 true := by
  obtain ⟨f1, g1, hp, hf1, hg1, hcf1, hcg1, hdf, hdg⟩ := covPrep_common_domain f g lo hi g.closed hf hg hc rfl
  obtain ⟨g1', f1', hp', hg1', hf1', hcg1', hcf1', hdg', hdf'⟩ :=
    covPrep_common_domain g f lo hi g.closed hg hf rfl hc
  have c1 := covPrep_canonical f g lo hi hf hg _ hp
  have c2 := covPrep_canonical g f lo hi hg hf _ hp'
  have e1 : g1' = g1 := by
    apply canonical_ext g1' g1 c2.1 c1.2 (by rw [hcg1', hcg1])
    intro x
    rw [hdg', hdg]
    by_cases hB : BothDefined f g false x
    · rw [if_pos hB, if_pos ((bothDefined_comm _ _ _ _).mp hB)]
    · rw [if_neg hB, if_neg (fun h => hB ((bothDefined_comm _ _ _ _).mp h))]
  have e2 : f1' = f1 := by
    apply canonical_ext f1' f1 c2.2 c1.1 (by rw [hcf1', hcf1])
    intro x
    rw [hdf', hdf]
    by_cases hB : BothDefined f g false x
    · rw [if_pos hB, if_pos ((bothDefined_comm _ _ _ _).mp hB)]
    · rw [if_neg hB, if_neg (fun h => hB ((bothDefined_comm _ _ _ _).mp h))]
  subst e1 e2
  have m1 := binop_mul_ok f1' g1' g.closed hcf1 hcg1
  have m2 := binop_mul_ok g1' f1' g.closed hcg1 hcf1
  have em : combine vmul g1' f1' g.closed = combine vmul f1' g1' g.closed := by
    apply canonical_ext _ _ (canonical_combine _ _ _ _ hg1 hf1) (canonical_combine _ _ _ _ hf1 hg1) rfl
    intro x
    rw [den_combine _ _ _ _ hg1 hf1, den_combine _ _ _ _ hf1 hg1, vmul_comm]
  unfold cov
  rw [hp, hp']
  simp only [bind, Except.bind]
  rw [m1, m2, em]
  simp only
  rcases clipW_cases lo hi with hok | herr
  · obtain ⟨a, ha⟩ := hok (combine vmul f1' g1' g.closed)
    obtain ⟨b, hb⟩ := hok f1'
    obtain ⟨c, hc'⟩ := hok g1'
    rw [ha, hb, hc']
    simp only
    rw [vmul_comm]
  · rw [herr]

/-! ## (C) cov(f, f) = var(f) -/

/-- the square of a value -/
def vsq (v : Val) : Val := vmul v v

theorem lastVal_mapVals {P V W : Type} (u : V → W) (a : V) (s : List (P × V)) :
    lastVal (u a) (s.map fun pv => (pv.1, u pv.2)) = u (lastVal a s) := by
  induction s generalizing a with
  | nil => rfl
  | cons b r ih => obtain ⟨p, v⟩ := b; exact ih v

/-- if `a` denotes `u ∘ c` pointwise (`u` keeps "undefined") and `c` has bounded support, the weighted sums of
`a` can be computed on the rows of `c` — whatever rows `a` itself has (after canonicalisation neighbouring
pieces of `c` with the same `u`-value have been merged in `a`) -/
theorem wsum_of_den_map (c a : Stairs Rat) (u : Val → Val) (hu : u none = none) (hc : c.WF) (ha : a.WF)
    (hden : ∀ x, Den a false x = u (Den c false x)) (hb : BoundedSupport c) (w : Rat → Rat) :
    wsum w a = pieceSum (fun v => liftW w (u v)) c.steps := by
  rw [wsum_eq_pieceSum, ← pieceSum_mapVals (liftW w) u c.steps]
  symm
  apply pieceSum_eq_of_den_bounded _ (u c.init) a.init _ a.steps (sorted_mapVals u c.steps hc) ha
  · intro x; rw [lim_map]; exact (hden x).symm
  · rw [hb.1, hu]; rfl
  · rw [lastVal_mapVals, hb.2, hu]; rfl

theorem den_covPrep_self (f : Stairs Rat) (st : Bool) (x : Rat) :
    (if BothDefined f f st x then Den f st x else none) = Den f st x := by
  by_cases hB : BothDefined f f st x
  · rw [if_pos hB]
  · rw [if_neg hB]
    unfold BothDefined at hB
    by_cases h : Den f st x = none
    · exact h.symm
    · exact absurd ⟨h, h⟩ hB

theorem inWindow_false_left (lo hi x : Rat) (hx : x < lo) : inWindow false (some lo) (some hi) x = false := by
  simp [inWindow, reached, hx]

theorem inWindow_false_right (lo hi x : Rat) (hx : hi < x) : inWindow false (some lo) (some hi) x = false := by
  simp [inWindow, reached, not_lt_of_gt hx]

/-- a function clipped to a bounded window has bounded support -/
theorem boundedSupport_clip (f : Stairs Rat) (lo hi : Rat) (hf : f.WF) (hlh : lo < hi) (c : Stairs Rat)
    (hc : clip f (some lo) (some hi) = .ok c) : BoundedSupport c := by
  have hb : boundsOk (some lo) (some hi) = true := by simp [boundsOk, hlh]
  apply boundedSupport_of_den c lo hi
  · intro x hx
    rw [den_clip f _ _ hf hb c hc, inWindow_false_left lo hi x hx]; rfl
  · intro x hx
    rw [den_clip f _ _ hf hb c hc, inWindow_false_right lo hi x hx]; rfl

/-- **(C)** the covariance of `f` with itself over a bounded window is the variance of `f` clipped to it -/
theorem cov_self_eq_var (f : Stairs Rat) (lo hi : Rat) (hlh : lo < hi) (hf : f.WF) :
    ∃ f1 c, covPrep f f (some lo) (some hi) 0 true = .ok (f1, f1, some lo, some hi) ∧
      (∀ st x, Den f1 st x = Den f st x) ∧
      clipW f1 (some lo) (some hi) = .ok c ∧ clip f (some lo) (some hi) = .ok c ∧
      cov f f (some lo) (some hi) 0 true = .ok (var c) := by
  have hb : boundsOk (some lo) (some hi) = true := by simp [boundsOk, hlh]
  obtain ⟨f1, g1, hp, hf1, hg1, hcf1, hcg1, hdf, hdg⟩ :=
    covPrep_common_domain f f (some lo) (some hi) f.closed hf hf rfl rfl
  have c1 := covPrep_canonical f f _ _ hf hf _ hp
  have e1 : g1 = f1 := by
    apply canonical_ext g1 f1 c1.2 c1.1 (by rw [hcf1, hcg1])
    intro x; rw [hdf, hdg]
  subst e1
  have hden1 : ∀ st x, Den g1 st x = Den f st x := fun st x => by rw [hdf, den_covPrep_self]
  -- the three clipped functions
  obtain ⟨c, hc⟩ : ∃ c, clip f (some lo) (some hi) = .ok c := ⟨_, clip_ok f _ _ hb⟩
  obtain ⟨c', hc'⟩ : ∃ c, clip g1 (some lo) (some hi) = .ok c := ⟨_, clip_ok g1 _ _ hb⟩
  have cc := canonical_clip f _ _ hf hb c hc
  have cc' := canonical_clip g1 _ _ hf1 hb c' hc'
  have e2 : c' = c := by
    apply canonical_ext c' c cc'.1 cc.1 (by rw [cc'.2, cc.2, hcf1])
    intro x
    rw [den_clip g1 _ _ hf1 hb c' hc', den_clip f _ _ hf hb c hc, hden1]
  subst e2
  have m1 := binop_mul_ok g1 g1 f.closed hcf1 hcf1
  have hP : (combine vmul g1 g1 f.closed).WF := wf_combine _ _ _ _ hf1 hf1
  obtain ⟨a, ha⟩ : ∃ a, clip (combine vmul g1 g1 f.closed) (some lo) (some hi) = .ok a := ⟨_, clip_ok _ _ _ hb⟩
  have ca := canonical_clip _ _ _ hP hb a ha
  have ha' : clipW (combine vmul g1 g1 f.closed) (some lo) (some hi) = .ok a := ha
  have hc'' : clipW g1 (some lo) (some hi) = .ok c' := hc'
  refine ⟨g1, c', hp, hden1, hc'', hc, ?_⟩
  unfold cov
  rw [hp]
  simp only [bind, Except.bind]
  rw [m1]
  simp only
  rw [ha', hc'']
  simp only [pure, Except.pure]
  congr 1
  -- the product denotes the square of `c'`
  have hden : ∀ x, Den a false x = vsq (Den c' false x) := by
    intro x
    rw [den_clip _ _ _ hP hb a ha, den_clip g1 _ _ hf1 hb c' hc', den_combine _ _ _ _ hf1 hf1]
    cases inWindow false (some lo) (some hi) x <;> rfl
  have hbs := boundedSupport_clip f lo hi hf hlh c' hc
  have hw := wsum_of_den_map c' a vsq rfl cc.1.1 ca.1.1 hden hbs
  have hL : definedLength a = definedLength c' := by
    rw [definedLength_eq_wsum, definedLength_eq_wsum, hw, wsum_eq_pieceSum]
    congr 1; funext v; cases v <;> rfl
  have hQ : wsum (fun v => v) a = wsum (fun v => v * v) c' := by
    rw [hw, wsum_eq_pieceSum]
    congr 1; funext v; cases v <;> rfl
  rw [mean_eq_ite a, hL, hQ]
  by_cases h0 : definedLength c' = 0
  · have hm : mean c' = none := by rw [mean_eq_ite, if_pos h0]
    rw [var_none c' hm, hm, if_pos h0]; rfl
  · have hm : mean c' = some (wsum (fun v => v) c' / definedLength c') := by rw [mean_eq_ite, if_neg h0]
    rw [var_eq_moment c' _ hm, hm, if_neg h0, sumBy_shares c' (fun v => v * v)]
    rfl

/-- short form: `cov(f, f)` over `[lo, hi)` is `var` of `f.clip(lo, hi)` -/
theorem cov_self_eq_var_clip (f : Stairs Rat) (lo hi : Rat) (hlh : lo < hi) (hf : f.WF) :
    ∃ c, clip f (some lo) (some hi) = .ok c ∧ cov f f (some lo) (some hi) 0 true = .ok (var c) := by
  obtain ⟨f1, c, _, _, _, h1, h2⟩ := cov_self_eq_var f lo hi hlh hf
  exact ⟨c, h1, h2⟩

/-- the heart of (C), stated on its own: for a bounded-support `c`, the (canonical!) product `c·c` has
integral sum `Σ v²·length` and the same defined length as `c`, although `c·c` merges neighbouring pieces of
`c` with values `v` and `−v` -/
theorem square_moments (c : Stairs Rat) (hc : c.WF) (hb : BoundedSupport c) :
    wsum (fun v => v) (combine vmul c c c.closed) = wsum (fun v => v * v) c ∧
    definedLength (combine vmul c c c.closed) = definedLength c := by
  have hw := wsum_of_den_map c (combine vmul c c c.closed) vsq rfl hc (wf_combine _ _ _ _ hc hc)
    (fun x => den_combine _ _ _ _ hc hc false x) hb
  constructor
  · rw [hw, wsum_eq_pieceSum]
    congr 1; funext v; cases v <;> rfl
  · rw [definedLength_eq_wsum, definedLength_eq_wsum, hw, wsum_eq_pieceSum]
    congr 1; funext v; cases v <;> rfl

/-! ## (D) Cauchy–Schwarz: cov² ≤ var f · var g -/

/-- centred value, `0` where undefined -/
def cen (m : Rat) : Val → Rat
  | some x => x - m
  | none => 0

theorem mean_some (f : Stairs Rat) (m : Rat) (h : mean f = some m) :
    definedLength f ≠ 0 ∧ wsum (fun v => v) f = m * definedLength f := by
  rw [mean_eq_ite] at h
  split at h
  · cases h
  · rename_i h0
    injection h with h
    refine ⟨h0, ?_⟩
    rw [← h]; field_simp

theorem var_some (f : Stairs Rat) (m v : Rat) (hm : mean f = some m) (hv : var f = some v) :
    wsum (fun x => x * x) f = (v + m * m) * definedLength f := by
  have h0 := (mean_some f m hm).1
  rw [var_eq_moment f m hm, sumBy_shares f (fun x => x * x)] at hv
  injection hv with hv
  rw [← hv]
  unfold wsum
  field_simp
  ring

/-- the core: three bounded-support functions, `a` denoting the product of `b` and `c`, the latter two defined
on the same set -/
theorem cauchy_schwarz_core (a b c : Stairs Rat) (ha : a.WF) (hb : b.WF) (hc : c.WF)
    (ba : BoundedSupport a) (bb : BoundedSupport b) (bc : BoundedSupport c)
    (hden : ∀ x, Den a false x = vmul (Den b false x) (Den c false x))
    (hdom : ∀ x, Den b false x = none ↔ Den c false x = none)
    (ma mx my vb vc : Rat) (hma : mean a = some ma) (hmx : mean b = some mx) (hmy : mean c = some my)
    (hvb : var b = some vb) (hvc : var c = some vc) :
    (ma - mx * my) * (ma - mx * my) ≤ vb * vc := by
  obtain ⟨u, hu_def⟩ : ∃ u, u = unionIdx (b.steps.map Prod.fst) (c.steps.map Prod.fst) := ⟨_, rfl⟩
  have hu : u.Pairwise (· < ·) := by rw [hu_def]; exact pairwise_unionIdx _ _ hb hc
  have wb : ∀ w, wsum w b = sumBy (fun pq => liftW w (Den b false pq.1) * (pq.2 - pq.1)) (segs u) := fun w =>
    wsum_on_grid b hb bb u hu (fun p => Den b false p) b.init
      (lim_refine false u hu b.init b.steps hb (fun q hq => by
        rw [hu_def]; exact (mem_unionIdx _ _ _).mpr (Or.inl hq))) w
  have wc : ∀ w, wsum w c = sumBy (fun pq => liftW w (Den c false pq.1) * (pq.2 - pq.1)) (segs u) := fun w =>
    wsum_on_grid c hc bc u hu (fun p => Den c false p) c.init
      (lim_refine false u hu c.init c.steps hc (fun q hq => by
        rw [hu_def]; exact (mem_unionIdx _ _ _).mpr (Or.inr hq))) w
  have wa : ∀ w, wsum w a
      = sumBy (fun pq => liftW w (vmul (Den b false pq.1) (Den c false pq.1)) * (pq.2 - pq.1)) (segs u) := fun w =>
    wsum_on_grid a ha ba u hu (fun p => vmul (Den b false p) (Den c false p)) (vmul b.init c.init)
      (fun x => by
        have h1 := lim_combineSteps false vmul b.init b.steps c.init c.steps hb hc x
        have h2 := hden x
        rw [hu_def]
        exact h1.trans h2.symm) w
  have hcase : ∀ p, (∃ x y, Den b false p = some x ∧ Den c false p = some y) ∨
      (Den b false p = none ∧ Den c false p = none) := by
    intro p
    cases h1 : Den b false p with
    | none => exact Or.inr ⟨rfl, (hdom p).mp h1⟩
    | some x =>
      cases h2 : Den c false p with
      | none => rw [(hdom p).mpr h2] at h1; cases h1
      | some y => exact Or.inl ⟨x, y, rfl, rfl⟩
  -- the three defined lengths agree
  have hLc : definedLength c = definedLength b := by
    rw [definedLength_eq_wsum, definedLength_eq_wsum, wc, wb]
    apply sumBy_congr; intro e _
    rcases hcase e.1 with ⟨x, y, h1, h2⟩ | ⟨h1, h2⟩ <;> simp only [h1, h2, liftW]
  have hLa : definedLength a = definedLength b := by
    rw [definedLength_eq_wsum, definedLength_eq_wsum, wa, wb]
    apply sumBy_congr; intro e _
    rcases hcase e.1 with ⟨x, y, h1, h2⟩ | ⟨h1, h2⟩ <;> simp only [h1, h2, liftW, vmul, vlift2]
  -- Cauchy–Schwarz on the grid
  have CS := sumBy_cauchy_schwarz (segs u) (fun e => e.2 - e.1) (fun e => cen mx (Den b false e.1))
    (fun e => cen my (Den c false e.1)) (fun e he => by
      have := segs_lt u hu e he
      show 0 ≤ e.2 - e.1
      linarith)
  have Ixy : sumBy (fun e : Rat × Rat => cen mx (Den b false e.1) * cen my (Den c false e.1) * (e.2 - e.1)) (segs u)
      = wsum (fun v => v) a - mx * wsum (fun v => v) c - my * wsum (fun v => v) b
        + mx * my * wsum (fun _ => 1) b := by
    rw [wa, wc, wb, wb, ← sumBy_lin4]
    apply sumBy_congr; intro e _
    rcases hcase e.1 with ⟨x, y, h1, h2⟩ | ⟨h1, h2⟩
    · simp only [h1, h2, cen, liftW, vmul, vlift2]; ring
    · simp only [h1, h2, cen, liftW, vmul, vlift2]; ring
  have Ixx : sumBy (fun e : Rat × Rat => cen mx (Den b false e.1) * cen mx (Den b false e.1) * (e.2 - e.1)) (segs u)
      = wsum (fun v => v * v) b - mx * wsum (fun v => v) b - mx * wsum (fun v => v) b
        + mx * mx * wsum (fun _ => 1) b := by
    rw [wb, wb, wb, ← sumBy_lin4]
    apply sumBy_congr; intro e _
    rcases hcase e.1 with ⟨x, y, h1, h2⟩ | ⟨h1, h2⟩
    · simp only [h1, cen, liftW]; ring
    · simp only [h1, cen, liftW]; ring
  have Iyy : sumBy (fun e : Rat × Rat => cen my (Den c false e.1) * cen my (Den c false e.1) * (e.2 - e.1)) (segs u)
      = wsum (fun v => v * v) c - my * wsum (fun v => v) c - my * wsum (fun v => v) c
        + my * my * wsum (fun _ => 1) c := by
    rw [wc, wc, wc, ← sumBy_lin4]
    apply sumBy_congr; intro e _
    rcases hcase e.1 with ⟨x, y, h1, h2⟩ | ⟨h1, h2⟩
    · simp only [h2, cen, liftW]; ring
    · simp only [h2, cen, liftW]; ring
  rw [Ixy, Ixx, Iyy, ← definedLength_eq_wsum, ← definedLength_eq_wsum] at CS
  obtain ⟨h0, hSx⟩ := mean_some b mx hmx
  obtain ⟨_, hSy⟩ := mean_some c my hmy
  obtain ⟨_, hSa⟩ := mean_some a ma hma
  have hSxx := var_some b mx vb hmx hvb
  have hSyy := var_some c my vc hmy hvc
  rw [hSx, hSy, hSa, hSxx, hSyy, hLa, hLc] at CS
  have hpos : 0 < definedLength b := by
    apply definedLength_pos b hb
    intro hnil
    apply h0
    unfold definedLength; rw [hnil]; rfl
  have hL2 : 0 < definedLength b * definedLength b := mul_pos hpos hpos
  apply le_of_mul_le_mul_right _ hL2
  linarith [CS]

/-- `cov` over a bounded window, unfolded: the three clipped functions and what they denote -/
theorem cov_unfold (f g : Stairs Rat) (lo hi : Rat) (hlh : lo < hi) (hf : f.WF) (hg : g.WF)
    (hc : f.closed = g.closed) :
    ∃ f1 g1 a b c, covPrep f g (some lo) (some hi) 0 true = .ok (f1, g1, some lo, some hi) ∧
      f1.WF ∧ g1.WF ∧ f1.closed = g.closed ∧ g1.closed = g.closed ∧
      (∀ st x, Den f1 st x = if BothDefined f g st x then Den f st x else none) ∧
      (∀ st x, Den g1 st x = if BothDefined f g st x then Den g st x else none) ∧
      clip (combine vmul f1 g1 g.closed) (some lo) (some hi) = .ok a ∧
      clip f1 (some lo) (some hi) = .ok b ∧ clip g1 (some lo) (some hi) = .ok c ∧
      (∀ x, Den a false x = vmul (Den b false x) (Den c false x)) ∧
      cov f g (some lo) (some hi) 0 true = .ok (vsub (mean a) (vmul (mean b) (mean c))) := by
  have hb : boundsOk (some lo) (some hi) = true := by simp [boundsOk, hlh]
  obtain ⟨f1, g1, hp, hf1, hg1, hcf1, hcg1, hdf, hdg⟩ :=
    covPrep_common_domain f g (some lo) (some hi) g.closed hf hg hc rfl
  have hP : (combine vmul f1 g1 g.closed).WF := wf_combine _ _ _ _ hf1 hg1
  obtain ⟨a, ha⟩ : ∃ a, clip (combine vmul f1 g1 g.closed) (some lo) (some hi) = .ok a := ⟨_, clip_ok _ _ _ hb⟩
  obtain ⟨b, hb'⟩ : ∃ b, clip f1 (some lo) (some hi) = .ok b := ⟨_, clip_ok _ _ _ hb⟩
  obtain ⟨c, hc'⟩ : ∃ c, clip g1 (some lo) (some hi) = .ok c := ⟨_, clip_ok _ _ _ hb⟩
  refine ⟨f1, g1, a, b, c, hp, hf1, hg1, hcf1, hcg1, hdf, hdg, ha, hb', hc', ?_, ?_⟩
  · intro x
    rw [den_clip _ _ _ hP hb a ha, den_clip f1 _ _ hf1 hb b hb', den_clip g1 _ _ hg1 hb c hc',
      den_combine _ _ _ _ hf1 hg1]
    cases inWindow false (some lo) (some hi) x <;> rfl
  · have m1 := binop_mul_ok f1 g1 g.closed hcf1 hcg1
    have ha' : clipW (combine vmul f1 g1 g.closed) (some lo) (some hi) = .ok a := ha
    have hb'' : clipW f1 (some lo) (some hi) = .ok b := hb'
    have hc'' : clipW g1 (some lo) (some hi) = .ok c := hc'
    unfold cov
    rw [hp]
    simp only [bind, Except.bind]
    rw [m1]
    simp only
    rw [ha', hb'', hc'']
    rfl

/-- **(D)** Cauchy–Schwarz: over a bounded window, `cov(f, g)² ≤ var(f₁) · var(g₁)` where `f₁`, `g₁` are the operands
restricted to the common domain of definition inside the window -/
theorem cov_sq_le_var_mul_var (f g : Stairs Rat) (lo hi : Rat) (hlh : lo < hi) (hf : f.WF) (hg : g.WF)
    (hc : f.closed = g.closed) :
    ∃ f1 g1 b c, covPrep f g (some lo) (some hi) 0 true = .ok (f1, g1, some lo, some hi) ∧
      clip f1 (some lo) (some hi) = .ok b ∧ clip g1 (some lo) (some hi) = .ok c ∧
      ∀ cv vb vc, cov f g (some lo) (some hi) 0 true = .ok (some cv) → var b = some vb → var c = some vc →
        cv * cv ≤ vb * vc := by
  have hbk : boundsOk (some lo) (some hi) = true := by simp [boundsOk, hlh]
  obtain ⟨f1, g1, a, b, c, hp, hf1, hg1, hcf1, hcg1, hdf, hdg, ha, hb, hc', hden, hcov⟩ :=
    cov_unfold f g lo hi hlh hf hg hc
  refine ⟨f1, g1, b, c, hp, hb, hc', ?_⟩
  intro cv vb vc hcv hvb hvc
  have hP : (combine vmul f1 g1 g.closed).WF := wf_combine _ _ _ _ hf1 hg1
  have wa := (canonical_clip _ _ _ hP hbk a ha).1.1
  have wb := (canonical_clip _ _ _ hf1 hbk b hb).1.1
  have wc := (canonical_clip _ _ _ hg1 hbk c hc').1.1
  have hdom : ∀ x, Den b false x = none ↔ Den c false x = none := by
    intro x
    rw [den_clip f1 _ _ hf1 hbk b hb, den_clip g1 _ _ hg1 hbk c hc', hdf, hdg]
    cases inWindow false (some lo) (some hi) x
    · simp
    · by_cases hB : BothDefined f g false x
      · simp only [if_true, if_pos hB]
        exact ⟨fun h => absurd h hB.1, fun h => absurd h hB.2⟩
      · simp only [if_true, if_neg hB]
  rw [hcov] at hcv
  injection hcv with hcv
  cases hma : mean a with
  | none => rw [hma] at hcv; cases hmb : mean b <;> cases hmc : mean c <;> rw [hmb, hmc] at hcv <;> cases hcv
  | some ma =>
    cases hmb : mean b with
    | none => rw [hma, hmb] at hcv; cases hmc : mean c <;> rw [hmc] at hcv <;> cases hcv
    | some mx =>
      cases hmc : mean c with
      | none => rw [hma, hmb, hmc] at hcv; cases hcv
      | some my =>
        rw [hma, hmb, hmc] at hcv
        have e : cv = ma - mx * my := by
          simp only [vsub, vmul, vlift2, Option.some.injEq] at hcv
          exact hcv.symm
        rw [e]
        exact cauchy_schwarz_core a b c wa wb wc
          (boundedSupport_clip _ lo hi hP hlh a ha) (boundedSupport_clip f1 lo hi hf1 hlh b hb)
          (boundedSupport_clip g1 lo hi hg1 hlh c hc') hden hdom ma mx my vb vc hma hmb hmc hvb hvc

/-- masking is idempotent: `cov` of the mutually masked operands is `cov` of the operands -/
theorem cov_masked (f g : Stairs Rat) (lo hi : Option Rat) (hf : f.WF) (hg : g.WF) (hc : f.closed = g.closed)
    (f1 g1 : Stairs Rat) (hp : covPrep f g lo hi 0 true = .ok (f1, g1, lo, hi)) :
    cov f1 g1 lo hi 0 true = cov f g lo hi 0 true := by
  obtain ⟨f1', g1', hp0, hf1, hg1, hcf1, hcg1, hdf, hdg⟩ := covPrep_common_domain f g lo hi g.closed hf hg hc rfl
  rw [hp] at hp0
  injection hp0 with hp0
  simp only [Prod.mk.injEq] at hp0
  obtain ⟨e1, e2, _⟩ := hp0
  subst e1 e2
  have c1 := covPrep_canonical f g lo hi hf hg _ hp
  obtain ⟨f2, g2, hp2, hf2, hg2, hcf2, hcg2, hdf2, hdg2⟩ :=
    covPrep_common_domain f1 g1 lo hi g.closed hf1 hg1 hcf1 hcg1
  have c2 := covPrep_canonical f1 g1 lo hi hf1 hg1 _ hp2
  have key : ∀ x, BothDefined f1 g1 false x ↔ BothDefined f g false x := by
    intro x
    unfold BothDefined
    rw [hdf, hdg]
    by_cases hB : BothDefined f g false x
    · rw [if_pos hB, if_pos hB]
    · rw [if_neg hB, if_neg hB]; exact ⟨fun h => absurd rfl h.1, fun h => absurd h hB⟩
  have e1 : f2 = f1 := by
    apply canonical_ext f2 f1 c2.1 c1.1 (by rw [hcf2, hcf1])
    intro x
    rw [hdf2]
    by_cases hB : BothDefined f g false x
    · rw [if_pos ((key x).mpr hB)]
    · rw [if_neg (fun h => hB ((key x).mp h)), hdf, if_neg hB]
  have e2 : g2 = g1 := by
    apply canonical_ext g2 g1 c2.2 c1.2 (by rw [hcg2, hcg1])
    intro x
    rw [hdg2]
    by_cases hB : BothDefined f g false x
    · rw [if_pos ((key x).mpr hB)]
    · rw [if_neg (fun h => hB ((key x).mp h)), hdg, if_neg hB]
  subst e1 e2
  unfold cov
  rw [hp, hp2]

/-- **|corr| ≤ 1** in squared form: the three parts `corr` is formed from satisfy `cov² ≤ var f · var g`
(so `cov / sqrt (var f · var g)` lies in `[-1, 1]` whenever it is defined) -/
theorem corr_sq_le (f g : Stairs Rat) (lo hi : Rat) (hlh : lo < hi) (hf : f.WF) (hg : g.WF)
    (hc : f.closed = g.closed) (cv vb vc : Rat)
    (h : corrParts f g (some lo) (some hi) 0 true = .ok (some cv, some vb, some vc)) : cv * cv ≤ vb * vc := by
  obtain ⟨f1, g1, b, c, hp, hb, hc', hcs⟩ := cov_sq_le_var_mul_var f g lo hi hlh hf hg hc
  have hb'' : clipW f1 (some lo) (some hi) = .ok b := hb
  have hc'' : clipW g1 (some lo) (some hi) = .ok c := hc'
  have hm := cov_masked f g (some lo) (some hi) hf hg hc f1 g1 hp
  unfold corrParts at h
  rw [hp] at h
  simp only [bind, Except.bind] at h
  rw [hb'', hc'', hm] at h
  simp only at h
  cases hcov : cov f g (some lo) (some hi) 0 true with
  | error e => rw [hcov] at h; cases h
  | ok v =>
    rw [hcov] at h
    simp only [pure, Except.pure] at h
    injection h with h
    simp only [Prod.mk.injEq] at h
    obtain ⟨h1, h2, h3⟩ := h
    subst h1
    exact hcs cv vb vc hcov h2 h3

/-! ## non-vacuity and limits of the statements

`f₀`, `g₀` (from `Props/C19`) have partially overlapping domains of definition:
`f₀` is defined on `[0, 6)`, `g₀` on `(-∞, 4) ∪ [5, ∞)`; the common domain inside the window `[0, 8)` is
`[0, 4) ∪ [5, 6)`. -/

/-- (B) -/
example : cov C19.f₀ C19.g₀ (some 0) (some 8) 0 true = .ok (some (8/25)) ∧
    cov C19.g₀ C19.f₀ (some 0) (some 8) 0 true = .ok (some (8/25)) := by decide +kernel
example : C19.f₀.WF ∧ C19.g₀.WF ∧ C19.f₀.closed = C19.g₀.closed := by decide +kernel

/-- (C) -/
example : cov C19.f₀ C19.f₀ (some 0) (some 8) 0 true = .ok (some (8/9)) ∧
    var (okOr C19.f₀ (clip C19.f₀ (some 0) (some 8))) = some (8/9) := by decide +kernel

/-- (C) where it bites: neighbouring values `1` and `−1` are merged by the canonical product -/
def h₁ : Stairs Rat := ⟨none, [(0, some 1), (1, some (-1)), (3, none)], .left⟩
example : h₁.WF ∧ BoundedSupport h₁ := by decide +kernel
example : (combine vmul h₁ h₁ .left).steps = [(0, some 1), (3, none)] := by decide +kernel
example : wsum (fun v => v) (combine vmul h₁ h₁ .left) = 3 ∧ wsum (fun v => v * v) h₁ = 3 ∧
    definedLength (combine vmul h₁ h₁ .left) = 3 ∧ definedLength h₁ = 3 := by decide +kernel
example : cov h₁ h₁ (some (-1)) (some 5) 0 true = .ok (some (8/9)) ∧
    var (okOr h₁ (clip h₁ (some (-1)) (some 5))) = some (8/9) := by decide +kernel

/-- (D): `(8/25)² ≤ 24/25 · 16/25` -/
example : corrParts C19.f₀ C19.g₀ (some 0) (some 8) 0 true = .ok (some (8/25), some (24/25), some (16/25)) := by
  decide +kernel
example : ((8 : Rat)/25) * (8/25) ≤ (24/25) * (16/25) := by decide +kernel

/-- (A): another representation of `C19.f₀` on `[0, 6)`: redundant rows inside, a different initial value and a
different value on the unbounded right piece -/
def f₀' : Stairs Rat := ⟨some 7, [(0, some 1), (1, some 1), (2, some 3), (4, some 3), (6, some 5)], .left⟩
example : f₀'.WF ∧ SameEnds f₀' C19.f₀ := by decide +kernel
example : definedLength f₀' = definedLength C19.f₀ ∧ integral f₀' = integral C19.f₀ ∧ mean f₀' = mean C19.f₀ ∧
    var f₀' = var C19.f₀ ∧ valueSums f₀' = valueSums C19.f₀ ∧ integral C19.f₀ = some 14 ∧ var C19.f₀ = some (8/9) := by
  decide +kernel
/-- … and indeed they denote the same function on `[0, 6)`, so `stats_eq_of_den_on` applies -/
example : ∀ x, (0 : Rat) ≤ x → x < 6 → Den f₀' false x = Den C19.f₀ false x := by
  intro x h0 h6
  simp only [Den, f₀', C19.f₀, lim_cons, lim_nil, reached]
  by_cases h1 : x < 1 <;> by_cases h2 : x < 2 <;> by_cases h4 : x < 4 <;>
    simp [h6, h1, h2, h4, not_lt.mpr h0] <;> linarith

/-- **(C) does not extend to unbounded windows**: without a window the canonical product drops the first row of
`k₁` (`(-1)² = 1` repeats the initial value), so the piece `[0, 1)` is finite for `k₁` but not for `k₁·k₁` -/
def k₁ : Stairs Rat := ⟨some 1, [(0, some (-1)), (1, some 2), (3, some 0)], .left⟩
theorem cov_self_ne_var_unbounded :
    k₁.WF ∧ cov k₁ k₁ none none 0 true = .ok (some 3) ∧ var k₁ = some 2 ∧
    (combine vmul k₁ k₁ .left).steps = [(1, some 4), (3, some 0)] := by decide +kernel

/-- … nor to half-bounded windows: here the *last* row is merged away, and the "covariance of `k₂` with itself"
is negative -/
def k₂ : Stairs Rat := ⟨none, [(0, some 1), (1, some 2), (3, some (-2))], .left⟩
theorem cov_self_ne_var_halfbounded :
    k₂.WF ∧ cov k₂ k₂ (some (-1)) none 0 true = .ok (some (-16/9)) ∧
    var (okOr k₂ (clip k₂ (some (-1)) none)) = some (2/9) := by decide +kernel

end SC.Props.C19b
