import SCModel.Lemmas.Mean8c
import SCModel.Props.C08b
import SCModel.Props.C09
/-!
# C08c — the two computation routes of the mean, and `value_sums` in depth

The library (`stats/statistic.py`, `_cache_integral_and_mean`) takes the ungrouped piece table
`value_sums(group=False)` — one row `(value, length)` per finite piece, **undefined pieces included under a NaN
key** — drops the NaN rows and computes

* route 1 (`meanDirect`):   `integral = Σ value·length`,  `mean = integral / Σ length`;
* route 2 (`meanFallback`, taken when the products overflow on datetime domains):  `mean = Σ (length / Σ length)·value`.

`rawPieces f` is that table (`none` = the NaN key), `dropNaN` the filter.

1. `meanDirect f = mean f`, `meanFallback f = mean f` for **every** `f` (`meanDirect_eq_mean`, `meanFallback_eq_mean`,
   `mean_routes_agree`, from the grouped table too: `mean_routes_grouped`); with no defined length both are NaN
   (`mean_routes_empty`).  The guard of the fallback
   matters: without it the empty case gives `0` (`fallback_unguarded_empty`).
2. defective variants:
   (a) fallback normalised by the **unfiltered** total length (`meanFallbackUnfiltered`): it returns
       `mean · L / (L + U)` (`fallbackUnfiltered_value`; `L`, `U` = defined / undefined finite length) and equals the
       mean **iff** there is no undefined finite piece or the mean is `0` or undefined
       (`fallbackUnfiltered_eq_mean_iff`); refuted on `C08.f₀` (`fallbackUnfiltered_refuted`);
   (b) fallback written `Σ (l·v) / Σ l` is the same number (`fallbackProd_eq_mean`) — the seeded defect there is an
       *overflow* of `l·v` on datetime ticks, an effect of 64-bit arithmetic outside this exact model;
   (c) the grouping shortcut keeping the NaN key (`valueSumsKeepNaN`): its total is the whole finite span
       (`keepNaN_total`), dropping the NaN row afterwards restores `value_sums` (`keepNaN_dropNaN`), under the
       trigger condition it is a permutation of the raw table (`keepNaN_perm_raw`); but shares taken from it are
       the true shares times `ρ = L / (L + U)` (`sharesKeepNaN_eq`), sum to `ρ`, which is `1` **iff** there is no
       undefined piece (`sharesKeepNaN_sum`, `sharesKeepNaN_sum_one_iff`; `C08.shares_sum_one` refuted for it:
       `sharesKeepNaN_refuted`), the ecdf is `ρ·ecdf` and tops out at `ρ` (`ecdfKeepNaN_limit`, `ecdfKeepNaN_top`),
       the percentile function is compressed onto `[0, 100ρ]` (`percentileKeepNaN_eq`);
   (d) `var = E[v²] − mean²` holds in exact arithmetic (`varMoment_eq_var`, from `C08.var_eq_moment`) — the seeded
       defect there is a float cancellation, again outside exact arithmetic.
3. `value_sums` laws (keys / sortedness / total are in C08):
   `entry_valueSums` (entry = weighted sum of an indicator), **window additivity at table level**
   (`valueSums_window_merge`: the table of `[a, c)` is `mergeTables` of the tables of `[a, b)` and `[b, c)`),
   `mergeTables` laws, invariance under `canon` (`valueSums_canon_bounded`, `valueSums_window_canon`; false in
   general: `C08.first_row_matters`), under re-closing (`rawPieces_reclose`), under `shift` (`rawPieces_shift`,
   `stats_shift`), **change of values** `valueSums_mapVals` (regrouping), strictly increasing
   (`valueSums_mapVals_mono`), strictly decreasing (`valueSums_mapVals_anti`: reversed), constant
   (`valueSums_mapVals_const`: collapse to one key) and for the library's `k·f` / `f + k` over a window
   (`valueSums_scale_window`, `valueSums_addConst_window`) and unbounded for canonical `f`
   (`valueSums_scale_canonical`, `valueSums_addConst_canonical`).
4. the mean as a centre and a minimiser: `Σ (v − c)·l = 0 ⇔ c = mean` (`deviation_zero_iff`);
   `msd f c = var f + (c − mean f)²` (`msd_eq_var_add`), hence `var f ≤ msd f c` with equality iff `c = mean f`
   (`var_le_msd`, `msd_eq_var_iff`).
5. Chebyshev: the share of the defined length with `|v − mean| ≥ t` is at most `var / t²` (`chebyshev`), in terms of
   the ecdf: `1 − ecdf((mean + t)⁻) + ecdf(mean − t) ≤ var / t²` (`chebyshev_ecdf`).
-/
set_option linter.unusedSectionVars false
set_option linter.unusedVariables false
namespace SC.Props.C08c
open SC SC.Stairs SC.Props.C08 SC.Props.C19b SC.Props.C08b SC.Props.C09

/-! ## 1. the raw piece table and the two routes -/

/-- `value_sums(group=False)`: one row `(value, length)` per finite piece, undefined pieces under the key `none` -/
def rawPieces (f : Stairs Rat) : List (Val × Rat) :=
  (pieces f.steps).map fun pqv => (pqv.2.2, pqv.2.1 - pqv.1)

/-- `value_sums[value_sums.index.notnull()]` -/
def dropNaN (t : List (Val × Rat)) : List (Rat × Rat) := t.filterMap fun vl => vl.1.map fun x => (x, vl.2)

/-- the lengths of the rows with a NaN key -/
def nanRows (t : List (Val × Rat)) : List Rat := t.filterMap fun vl => if vl.1 = none then some vl.2 else none

/-- total length of all finite pieces -/
def rawLength (f : Stairs Rat) : Rat := sumBy (·.2) (rawPieces f)
/-- total length of the undefined finite pieces -/
def undefinedLength (f : Stairs Rat) : Rat := (nanRows (rawPieces f)).sum

/-- route 1 on a table of defined rows: `Σ v·l / Σ l` (NaN = `0/0` on an empty table) -/
def meanDirectT (d : List (Rat × Rat)) : Val :=
  if sumBy (·.2) d = 0 then none else some (sumBy (fun vl => vl.1 * vl.2) d / sumBy (·.2) d)

/-- the sum of route 2: `Σ (l / Σ l)·v` -/
def fallbackSum (d : List (Rat × Rat)) : Rat := sumBy (fun vl => vl.2 / sumBy (·.2) d * vl.1) d

/-- route 2.  In the library it is only reached after an overflow in route 1, hence never on an empty table; we give
it the value of route 1 (NaN) there. -/
def meanFallbackT (d : List (Rat × Rat)) : Val := if sumBy (·.2) d = 0 then none else some (fallbackSum d)

def meanDirect (f : Stairs Rat) : Val := meanDirectT (dropNaN (rawPieces f))
def meanFallback (f : Stairs Rat) : Val := meanFallbackT (dropNaN (rawPieces f))

section Helpers

theorem m8c_dropNaN_cons_none (l : Rat) (t : List (Val × Rat)) : dropNaN ((none, l) :: t) = dropNaN t := rfl
theorem m8c_dropNaN_cons_some (x l : Rat) (t : List (Val × Rat)) :
    dropNaN ((some x, l) :: t) = (x, l) :: dropNaN t := rfl
theorem m8c_nanRows_cons_none (l : Rat) (t : List (Val × Rat)) : nanRows ((none, l) :: t) = l :: nanRows t := rfl
theorem m8c_nanRows_cons_some (x l : Rat) (t : List (Val × Rat)) : nanRows ((some x, l) :: t) = nanRows t := rfl

/-- a table splits into its defined rows and its NaN rows -/
theorem m8c_table_split (t : List (Val × Rat)) : sumBy (·.2) t = sumBy (·.2) (dropNaN t) + (nanRows t).sum := by
  induction t with
  | nil => simp [dropNaN, nanRows]
  | cons a t ih =>
    obtain ⟨v, l⟩ := a
    cases v with
    | none => rw [m8c_dropNaN_cons_none, m8c_nanRows_cons_none, sumBy_cons, ih, List.sum_cons]; ring
    | some x => rw [m8c_dropNaN_cons_some, m8c_nanRows_cons_some, sumBy_cons, sumBy_cons, ih]; ring

theorem m8c_nanRows_nil_iff (t : List (Val × Rat)) : nanRows t = [] ↔ ∀ vl ∈ t, vl.1 ≠ none := by
  induction t with
  | nil => simp [nanRows]
  | cons a t ih =>
    obtain ⟨v, l⟩ := a
    cases v with
    | none => rw [m8c_nanRows_cons_none]; simp
    | some x => rw [m8c_nanRows_cons_some, ih]; simp

theorem m8c_mem_nanRows (t : List (Val × Rat)) (l : Rat) : l ∈ nanRows t ↔ (none, l) ∈ t := by
  induction t with
  | nil => simp [nanRows]
  | cons a t ih =>
    obtain ⟨v, l'⟩ := a
    cases v with
    | none => rw [m8c_nanRows_cons_none, List.mem_cons, List.mem_cons, ih]; simp
    | some x => rw [m8c_nanRows_cons_some, List.mem_cons, ih]; simp

theorem m8c_sum_pos (l : List Rat) (hne : l ≠ []) (h : ∀ x ∈ l, 0 < x) : 0 < l.sum := by
  have := sumBy_pos (fun x : Rat => x) l hne h
  simpa [sumBy] using this

theorem m8c_sum_nonneg (l : List Rat) (h : ∀ x ∈ l, 0 < x) : 0 ≤ l.sum := by
  cases l with
  | nil => simp
  | cons a r => exact le_of_lt (m8c_sum_pos _ (by simp) h)

end Helpers

/-- dropping the NaN rows of the raw table gives the model's `definedPieces` -/
theorem dropNaN_rawPieces (f : Stairs Rat) : dropNaN (rawPieces f) = definedPieces f.steps := by
  unfold dropNaN rawPieces definedPieces
  rw [List.filterMap_map]
  rfl

/-- the raw table has one row per finite piece -/
theorem rawPieces_length (f : Stairs Rat) : (rawPieces f).length = f.steps.length - 1 := by
  unfold rawPieces; rw [List.length_map, length_pieces]

/-- a row of the raw table is a finite piece with its value (possibly undefined) and its length -/
theorem mem_rawPieces (f : Stairs Rat) (v : Val) (l : Rat) :
    (v, l) ∈ rawPieces f ↔ ∃ p q, (p, q, v) ∈ pieces f.steps ∧ l = q - p := by
  unfold rawPieces
  rw [List.mem_map]
  constructor
  · rintro ⟨⟨p, q, v'⟩, hm, he⟩
    simp only [Prod.mk.injEq] at he
    obtain ⟨h1, h2⟩ := he
    subst h1 h2
    exact ⟨p, q, hm, rfl⟩
  · rintro ⟨p, q, hm, rfl⟩
    exact ⟨(p, q, v), hm, rfl⟩

/-- in a well-formed function every row has positive length -/
theorem rawPieces_pos (f : Stairs Rat) (hf : f.WF) (vl : Val × Rat) (h : vl ∈ rawPieces f) : 0 < vl.2 := by
  obtain ⟨v, l⟩ := vl
  obtain ⟨p, q, hm, rfl⟩ := (mem_rawPieces f v l).mp h
  have := pieces_lt f.steps hf p q v hm
  show 0 < q - p
  linarith

/-- total finite length = defined + undefined length -/
theorem rawLength_split (f : Stairs Rat) : rawLength f = definedLength f + undefinedLength f := by
  unfold rawLength undefinedLength definedLength
  rw [m8c_table_split, dropNaN_rawPieces]

theorem undefinedLength_nonneg (f : Stairs Rat) (hf : f.WF) : 0 ≤ undefinedLength f :=
  m8c_sum_nonneg _ (fun l hl => rawPieces_pos f hf (none, l) ((m8c_mem_nanRows _ l).mp hl))

/-- **no undefined length iff no undefined finite piece** (well-formed `f`) -/
theorem undefinedLength_eq_zero_iff (f : Stairs Rat) (hf : f.WF) :
    undefinedLength f = 0 ↔ ∀ vl ∈ rawPieces f, vl.1 ≠ none := by
  rw [← m8c_nanRows_nil_iff]
  constructor
  · intro h
    by_contra hne
    have := m8c_sum_pos _ hne (fun l hl => rawPieces_pos f hf (none, l) ((m8c_mem_nanRows _ l).mp hl))
    unfold undefinedLength at h
    linarith
  · intro h; unfold undefinedLength; rw [h]; rfl

/-- the whole finite span: last step point − first step point -/
theorem rawLength_eq_span (a : Val) (c : Side) (p0 : Rat) (v0 : Val) (r : List (Rat × Val)) :
    rawLength ⟨a, (p0, v0) :: r, c⟩ = lastPt p0 r - p0 := by
  have h1 : rawLength ⟨a, (p0, v0) :: r, c⟩ = pieceSum (fun _ => 1) ((p0, v0) :: r) := by
    unfold rawLength rawPieces pieceSum
    rw [sumBy_map]
    apply sumBy_congr; intro x _; ring
  have hj : ∀ (b : Val) (s : List (Rat × Val)), jumpSum (fun _ => (1 : Rat)) b s = 0 := by
    intro b s
    induction s generalizing b with
    | nil => rfl
    | cons x s ih => obtain ⟨p, v⟩ := x; simp only [jumpSum, ih]; ring
  rw [h1, pieceSum_eq_jump _ a, hj]; ring

/-- **route 1 is the model's `mean`** (every `f`) -/
theorem meanDirect_eq_mean (f : Stairs Rat) : meanDirect f = mean f := by
  unfold meanDirect meanDirectT
  rw [dropNaN_rawPieces, mean_eq_ite]
  rfl

/-- the fallback sum is the direct quotient -/
theorem fallbackSum_eq (d : List (Rat × Rat)) :
    fallbackSum d = sumBy (fun vl => vl.1 * vl.2) d / sumBy (·.2) d := by
  unfold fallbackSum
  rw [← sumBy_div]
  apply sumBy_congr
  intro a _
  ring

/-- on tables: both routes agree (every table, the empty one included) -/
theorem routes_agree_table (d : List (Rat × Rat)) : meanFallbackT d = meanDirectT d := by
  unfold meanFallbackT meanDirectT
  rw [fallbackSum_eq]

/-- **route 2 is the model's `mean`** (every `f`) -/
theorem meanFallback_eq_mean (f : Stairs Rat) : meanFallback f = mean f := by
  unfold meanFallback
  rw [routes_agree_table]
  exact meanDirect_eq_mean f

/-- **`meanDirect = meanFallback = mean`** -/
theorem mean_routes_agree (f : Stairs Rat) : meanDirect f = mean f ∧ meanFallback f = mean f ∧
    meanDirect f = meanFallback f :=
  ⟨meanDirect_eq_mean f, meanFallback_eq_mean f, by rw [meanDirect_eq_mean, meanFallback_eq_mean]⟩

/-- grouping first does not matter: both routes may as well start from the grouped table `value_sums()` -/
theorem mean_routes_grouped (f : Stairs Rat) :
    meanDirectT (valueSums f) = mean f ∧ meanFallbackT (valueSums f) = mean f := by
  have h : meanDirectT (valueSums f) = mean f := by
    unfold meanDirectT
    rw [valueSums_total, valueSums_weighted f (fun v => v), mean_eq_ite]
    rfl
  exact ⟨h, by rw [routes_agree_table, h]⟩

/-- the empty case: with no defined finite piece (in particular with fewer than two step points) every route gives
NaN; for a well-formed `f` that is the only way to get NaN -/
theorem mean_routes_empty (f : Stairs Rat) :
    (definedPieces f.steps = [] → meanDirect f = none ∧ meanFallback f = none ∧ mean f = none) ∧
    (f.steps.length < 2 → definedPieces f.steps = []) ∧
    (f.WF → (mean f = none ↔ definedPieces f.steps = [])) := by
  refine ⟨fun h => ?_, definedPieces_of_length_lt_two _, fun hf => ?_⟩
  · have h0 : definedLength f = 0 := by unfold definedLength; rw [h]; rfl
    rw [meanDirect_eq_mean, meanFallback_eq_mean, mean_none f h0]
    exact ⟨rfl, rfl, rfl⟩
  · constructor
    · intro hm
      by_contra hne
      have := definedLength_pos f hf hne
      rw [mean_eq_ite, if_neg (ne_of_gt this)] at hm
      cases hm
    · intro h
      apply mean_none
      unfold definedLength; rw [h]; rfl

/-- the guard of route 2 matters: the bare sum `Σ (l / Σ l)·v` over an empty table is `0`, not NaN -/
theorem fallback_unguarded_empty :
    fallbackSum (dropNaN (rawPieces ⟨some 2, [(0, none), (1, some 1)], .left⟩)) = 0 ∧
    mean ⟨some 2, [(0, none), (1, some 1)], .left⟩ = none ∧
    meanFallback ⟨some 2, [(0, none), (1, some 1)], .left⟩ = none := by decide +kernel

/-- non-vacuity on C08's `f₀` (`1` on `[0,1)`, undefined on `[1,2)`, `3` on `[2,4)`, `1` on `[4,5)`) -/
example : rawPieces C08.f₀ = [(some 1, 1), (none, 1), (some 3, 2), (some 1, 1)] ∧
    dropNaN (rawPieces C08.f₀) = [(1, 1), (3, 2), (1, 1)] ∧ rawLength C08.f₀ = 5 ∧ undefinedLength C08.f₀ = 1 ∧
    meanDirect C08.f₀ = some 2 ∧ meanFallback C08.f₀ = some 2 ∧ mean C08.f₀ = some 2 := by decide +kernel
example : meanDirect ⟨some 2, [(0, some 1)], .left⟩ = none ∧ meanFallback ⟨some 2, [(0, some 1)], .left⟩ = none ∧
    mean ⟨some 2, [(0, some 1)], .left⟩ = none := by decide +kernel

/-! ## 2. the defective variants -/

/-! ### (a) fallback normalised by the unfiltered total -/

/-- route 2 with the weights `l / Σ l` taken over the **unfiltered** table (NaN rows counted in `Σ l`) -/
def meanFallbackUnfiltered (f : Stairs Rat) : Val :=
  if definedLength f = 0 then none
  else some (sumBy (fun vl => vl.2 / rawLength f * vl.1) (dropNaN (rawPieces f)))

/-- what it computes: `mean · L / (L + U)` -/
theorem fallbackUnfiltered_value (f : Stairs Rat) (m : Rat) (hm : mean f = some m) :
    meanFallbackUnfiltered f = some (m * definedLength f / (definedLength f + undefinedLength f)) := by
  obtain ⟨h0, hS⟩ := mean_some f m hm
  unfold meanFallbackUnfiltered
  rw [if_neg h0, dropNaN_rawPieces, rawLength_split]
  congr 1
  have : sumBy (fun vl : Rat × Rat => vl.2 / (definedLength f + undefinedLength f) * vl.1) (definedPieces f.steps)
      = sumBy (fun vl => vl.1 * vl.2) (definedPieces f.steps) / (definedLength f + undefinedLength f) := by
    rw [← sumBy_div]; apply sumBy_congr; intro a _; ring
  rw [this]
  have hS' : sumBy (fun vl => vl.1 * vl.2) (definedPieces f.steps) = m * definedLength f := hS
  rw [hS']

/-- **exact characterisation**: on a well-formed `f` with mean `m` the defective route returns `m` iff there is no
undefined finite piece or `m = 0` -/
theorem fallbackUnfiltered_eq_iff (f : Stairs Rat) (hf : f.WF) (m : Rat) (hm : mean f = some m) :
    meanFallbackUnfiltered f = some m ↔ ((∀ vl ∈ rawPieces f, vl.1 ≠ none) ∨ m = 0) := by
  obtain ⟨h0, _⟩ := mean_some f m hm
  have hL : 0 < definedLength f := lt_of_le_of_ne (i8b_definedLength_nonneg f hf) (Ne.symm h0)
  have hU := undefinedLength_nonneg f hf
  have hT : definedLength f + undefinedLength f ≠ 0 := by linarith
  rw [fallbackUnfiltered_value f m hm, ← undefinedLength_eq_zero_iff f hf, Option.some.injEq,
    div_eq_iff hT]
  constructor
  · intro h
    have : m * undefinedLength f = 0 := by linarith
    rcases mul_eq_zero.mp this with h' | h'
    · exact Or.inr h'
    · exact Or.inl h'
  · rintro (h | h)
    · rw [h]; ring
    · rw [h]; ring

/-- the same for an arbitrary well-formed `f`: agreement with `mean` iff the mean is NaN, or `0`, or there is no
undefined finite piece -/
theorem fallbackUnfiltered_eq_mean_iff (f : Stairs Rat) (hf : f.WF) :
    meanFallbackUnfiltered f = mean f ↔
      (mean f = none ∨ mean f = some 0 ∨ ∀ vl ∈ rawPieces f, vl.1 ≠ none) := by
  cases hm : mean f with
  | none =>
    have h0 : definedLength f = 0 := by
      by_contra h; rw [mean_eq_ite, if_neg h] at hm; cases hm
    unfold meanFallbackUnfiltered
    rw [if_pos h0]; simp
  | some m =>
    rw [fallbackUnfiltered_eq_iff f hf m hm]
    constructor
    · rintro (h | h)
      · exact Or.inr (Or.inr h)
      · exact Or.inr (Or.inl (by rw [h]))
    · rintro (h | h | h)
      · cases h
      · exact Or.inr (Option.some.inj h)
      · exact Or.inl h

/-- **refutation** on `C08.f₀` (one undefined piece of length 1 among 5, mean 2): the defective route gives
`2·4/5 = 8/5` -/
theorem fallbackUnfiltered_refuted :
    C08.f₀.WF ∧ mean C08.f₀ = some 2 ∧ meanFallbackUnfiltered C08.f₀ = some (8/5) ∧
    meanFallbackUnfiltered C08.f₀ ≠ mean C08.f₀ := by decide +kernel

theorem fallbackUnfiltered_refuted' : ¬ ∀ f : Stairs Rat, f.WF → meanFallbackUnfiltered f = mean f :=
  fun H => absurd (H C08.f₀ (by decide +kernel)) (by decide +kernel)

/-- non-vacuity of both escape clauses: no undefined piece (`C08.g₁`), mean `0` with an undefined piece -/
example : C08.g₁.WF ∧ (∀ vl ∈ rawPieces C08.g₁, vl.1 ≠ none) ∧ meanFallbackUnfiltered C08.g₁ = mean C08.g₁ ∧
    mean C08.g₁ = some (3/2) := by decide +kernel
example : let z : Stairs Rat := ⟨none, [(0, some (-1)), (1, none), (2, some 1), (3, none)], .left⟩
    z.WF ∧ mean z = some 0 ∧ meanFallbackUnfiltered z = some 0 ∧ undefinedLength z = 1 := by decide +kernel

/-! ### (b) fallback written as `Σ (l·v) / Σ l` -/

/-- the variant multiplying first: `Σ (l·v) / Σ l` -/
def meanFallbackProd (f : Stairs Rat) : Val :=
  if definedLength f = 0 then none
  else some (sumBy (fun vl => vl.2 * vl.1) (dropNaN (rawPieces f)) / definedLength f)

/-- **in exact arithmetic this is the mean**: the seeded defect using this form re-introduces the products `l·v`
whose *overflow* (64-bit datetime ticks) the fallback exists to avoid — an effect outside this model over ℚ, in
which the variant is not a defect at all -/
theorem fallbackProd_eq_mean (f : Stairs Rat) : meanFallbackProd f = mean f := by
  unfold meanFallbackProd
  rw [dropNaN_rawPieces, mean_eq_ite]
  have : sumBy (fun vl : Rat × Rat => vl.2 * vl.1) (definedPieces f.steps) = wsum (fun v => v) f := by
    unfold wsum; apply sumBy_congr; intro a _; ring
  rw [this]

example : meanFallbackProd C08.f₀ = some 2 := by decide +kernel


/-! ### (c) the grouping shortcut that keeps the NaN key

When the keys of the raw table are pairwise distinct (all defined values distinct, at most one undefined piece) no
grouping is needed and the defective shortcut returns the raw table sorted by key — **with its NaN row** (NaN sorts
last).  `valueSumsKeepNaN` is that table (for every `f`: the grouped table plus one NaN row carrying the undefined
length when there is an undefined piece); `keepNaN_perm_raw` shows it is the raw table up to order under the
trigger condition. -/

def valueSumsKeepNaN (f : Stairs Rat) : List (Val × Rat) :=
  (valueSums f).map (fun vl => (some vl.1, vl.2)) ++
    (if nanRows (rawPieces f) = [] then [] else [(none, undefinedLength f)])

/-- shares taken from the defective table: every row divided by the table's total, the NaN row dropped afterwards -/
def sharesKeepNaN (f : Stairs Rat) : List (Rat × Rat) :=
  (dropNaN (valueSumsKeepNaN f)).map fun vl => (vl.1, vl.2 / sumBy (·.2) (valueSumsKeepNaN f))

/-- the ecdf built from these shares -/
def ecdfKeepNaN (f : Stairs Rat) : Stairs Rat :=
  ⟨some 0, (cumsum 0 (sharesKeepNaN f)).map fun vc => (vc.1, some vc.2), .left⟩

def xtilesKeepNaN (scale : Rat) (f : Stairs Rat) : Option (Stairs Rat) :=
  match cumsum 0 (sharesKeepNaN f) with
  | [] => none
  | (v, c) :: r => some ⟨some v, xtileRows scale 0 ((v, c) :: r), .left⟩

def percentileKeepNaN (f : Stairs Rat) (p : Rat) : Val := (xtilesKeepNaN 100 f).bind fun t => xtileSample t p

/-- the fraction `ρ = L / (L + U)` of the finite span on which `f` is defined -/
def definedFraction (f : Stairs Rat) : Rat := definedLength f / rawLength f

section Helpers

theorem m8c_dropNaN_append (s t : List (Val × Rat)) : dropNaN (s ++ t) = dropNaN s ++ dropNaN t := by
  unfold dropNaN; rw [List.filterMap_append]

theorem m8c_dropNaN_map_some (T : List (Rat × Rat)) : dropNaN (T.map fun vl => (some vl.1, vl.2)) = T := by
  induction T with
  | nil => rfl
  | cons a T ih => rw [List.map_cons, m8c_dropNaN_cons_some, ih]

theorem m8c_nanRows_map_some (T : List (Rat × Rat)) : nanRows (T.map fun vl => (some vl.1, vl.2)) = [] := by
  induction T with
  | nil => rfl
  | cons a T ih => rw [List.map_cons, m8c_nanRows_cons_some, ih]

end Helpers

/-- the defective table's total is the whole finite span, not the defined length -/
theorem keepNaN_total (f : Stairs Rat) : sumBy (·.2) (valueSumsKeepNaN f) = rawLength f := by
  unfold valueSumsKeepNaN
  rw [sumBy_append, sumBy_map, rawLength_split]
  have h1 : sumBy (fun b : Rat × Rat => ((some b.1, b.2) : Val × Rat).2) (valueSums f) = definedLength f :=
    valueSums_total f
  rw [h1]
  congr 1
  by_cases h : nanRows (rawPieces f) = []
  · rw [if_pos h]; unfold undefinedLength; rw [h]; rfl
  · rw [if_neg h]; simp

/-- dropping the NaN row *afterwards* restores `value_sums` -/
theorem keepNaN_dropNaN (f : Stairs Rat) : dropNaN (valueSumsKeepNaN f) = valueSums f := by
  unfold valueSumsKeepNaN
  rw [m8c_dropNaN_append, m8c_dropNaN_map_some]
  by_cases h : nanRows (rawPieces f) = []
  · rw [if_pos h]; simp [dropNaN]
  · rw [if_neg h]; simp [dropNaN]

/-- it has a NaN row exactly when there is an undefined finite piece -/
theorem keepNaN_has_nan_iff (f : Stairs Rat) :
    (∃ l, (none, l) ∈ valueSumsKeepNaN f) ↔ ∃ l, (none, l) ∈ rawPieces f := by
  unfold valueSumsKeepNaN
  by_cases h : nanRows (rawPieces f) = []
  · rw [if_pos h, List.append_nil]
    constructor
    · rintro ⟨l, hl⟩
      obtain ⟨a, _, ha⟩ := List.mem_map.mp hl
      cases ha
    · rintro ⟨l, hl⟩
      have := (m8c_mem_nanRows _ l).mpr hl
      rw [h] at this; cases this
  · rw [if_neg h]
    constructor
    · intro _
      cases hn : nanRows (rawPieces f) with
      | nil => exact absurd hn h
      | cons l r => exact ⟨l, (m8c_mem_nanRows _ l).mp (by rw [hn]; simp)⟩
    · intro _
      exact ⟨undefinedLength f, by simp⟩

theorem sharesKeepNaN_spec (f : Stairs Rat) :
    sharesKeepNaN f = (valueSums f).map fun vl => (vl.1, vl.2 / rawLength f) := by
  unfold sharesKeepNaN; rw [keepNaN_dropNaN, keepNaN_total]

/-- **each defective share is the true share times `ρ`** -/
theorem sharesKeepNaN_eq (f : Stairs Rat) (h0 : definedLength f ≠ 0) :
    sharesKeepNaN f = (shares f).map fun vs => (vs.1, vs.2 * definedFraction f) := by
  rw [sharesKeepNaN_spec, shares_spec, List.map_map]
  apply List.map_congr_left
  intro a _
  unfold definedFraction
  show (a.1, a.2 / rawLength f) = (a.1, a.2 / definedLength f * (definedLength f / rawLength f))
  congr 1
  field_simp

/-- **the defective shares sum to `ρ`** … -/
theorem sharesKeepNaN_sum (f : Stairs Rat) : sumBy (·.2) (sharesKeepNaN f) = definedFraction f := by
  rw [sharesKeepNaN_spec, sumBy_map]
  show sumBy (fun vl : Rat × Rat => vl.2 / rawLength f) (valueSums f) = _
  rw [sumBy_div, valueSums_total]; rfl

/-- `ρ ≤ 1`, and `ρ = 1` iff there is no undefined finite piece -/
theorem definedFraction_eq_one_iff (f : Stairs Rat) (hf : f.WF) (h0 : definedLength f ≠ 0) :
    0 < definedFraction f ∧ definedFraction f ≤ 1 ∧
    (definedFraction f = 1 ↔ ∀ vl ∈ rawPieces f, vl.1 ≠ none) := by
  have hL : 0 < definedLength f := lt_of_le_of_ne (i8b_definedLength_nonneg f hf) (Ne.symm h0)
  have hU := undefinedLength_nonneg f hf
  have hT : 0 < rawLength f := by rw [rawLength_split]; linarith
  unfold definedFraction
  refine ⟨div_pos hL hT, (div_le_iff₀ hT).mpr (by rw [rawLength_split]; linarith), ?_⟩
  rw [← undefinedLength_eq_zero_iff f hf, div_eq_one_iff_eq (ne_of_gt hT), rawLength_split]
  constructor <;> intro h <;> linarith

/-- … which is `1` **iff** there is no undefined finite piece: `C08.shares_sum_one` fails for the defective table
exactly when the NaN row is there -/
theorem sharesKeepNaN_sum_one_iff (f : Stairs Rat) (hf : f.WF) (h0 : definedLength f ≠ 0) :
    sumBy (·.2) (sharesKeepNaN f) = 1 ↔ ∀ vl ∈ rawPieces f, vl.1 ≠ none := by
  rw [sharesKeepNaN_sum]; exact (definedFraction_eq_one_iff f hf h0).2.2

/-- `v₁`: values `1`, `3`, `2` on `[0,1)`, `[2,4)`, `[4,5)`, undefined on `[1,2)` — all defined values distinct,
exactly one undefined piece: the trigger condition of the shortcut -/
def v₁ : Stairs Rat := ⟨some 2, [(0, some 1), (1, none), (2, some 3), (4, some 2), (5, some 3)], .left⟩

/-- **refutation of `C08.shares_sum_one` for the defective table** -/
theorem sharesKeepNaN_refuted :
    v₁.WF ∧ definedLength v₁ ≠ 0 ∧ ((rawPieces v₁).map Prod.fst).Nodup ∧
    valueSums v₁ = [(1, 1), (2, 1), (3, 2)] ∧
    valueSumsKeepNaN v₁ = [(some 1, 1), (some 2, 1), (some 3, 2), (none, 1)] ∧
    shares v₁ = [(1, 1/4), (2, 1/4), (3, 1/2)] ∧ sharesKeepNaN v₁ = [(1, 1/5), (2, 1/5), (3, 2/5)] ∧
    sumBy (·.2) (shares v₁) = 1 ∧ sumBy (·.2) (sharesKeepNaN v₁) = 4/5 ∧
    sumBy (·.2) (sharesKeepNaN v₁) ≠ 1 := by decide +kernel

theorem sharesKeepNaN_refuted' :
    ¬ ∀ f : Stairs Rat, definedLength f ≠ 0 → sumBy (·.2) (sharesKeepNaN f) = 1 :=
  fun H => absurd (H v₁ (by decide +kernel)) (by decide +kernel)

section Helpers

/-- `lim` over the cumulative rows of shares scaled by `ρ` -/
theorem m8c_lim_cumsum_scaled (st : Bool) (ρ : Rat) (S : List (Rat × Rat)) (hS : KSorted S) (y : Rat) :
    lim st (some 0) ((cumsum 0 (S.map fun vs => (vs.1, vs.2 * ρ))).map fun vc => (vc.1, some vc.2)) y
      = some (sumBy (·.2) (S.filter fun vs => reached st vs.1 y) * ρ) := by
  have hk : KSorted (S.map fun vs => (vs.1, vs.2 * ρ)) := by
    unfold KSorted at hS ⊢
    rw [List.map_map]
    exact hS
  rw [lim_cumsum st 0 _ hk, zero_add, List.filter_map, sumBy_map]
  congr 1
  rw [← sumBy_mul_right]
  rfl

end Helpers

/-- **the defective ecdf is `ρ·ecdf`** (both one-sided limits, everywhere) -/
theorem ecdfKeepNaN_limit (f : Stairs Rat) (h0 : definedLength f ≠ 0) (side : Side) (y : Rat) :
    (ecdfKeepNaN f).limit side y = ((ecdf f).limit side y).map (· * definedFraction f) := by
  have e1 : (ecdfKeepNaN f).limit side y
      = lim (side == .left) (some 0) ((cumsum 0 (sharesKeepNaN f)).map fun vc => (vc.1, some vc.2)) y := rfl
  have e2 : (ecdf f).limit side y
      = lim (side == .left) (some 0) ((cumsum 0 (shares f)).map fun vc => (vc.1, some vc.2)) y := rfl
  rw [e1, e2, sharesKeepNaN_eq f h0, m8c_lim_cumsum_scaled _ _ _ (ksorted_shares f),
    lim_cumsum _ 0 _ (ksorted_shares f), zero_add]
  rfl

/-- so it never reaches `1` when there is an undefined piece: from the largest value on it is `ρ` -/
theorem ecdfKeepNaN_top (f : Stairs Rat) (h0 : definedLength f ≠ 0) (y : Rat)
    (hy : ∀ vl ∈ definedPieces f.steps, vl.1 ≤ y) :
    (ecdfKeepNaN f).limit .right y = some (definedFraction f) ∧ (ecdf f).limit .right y = some 1 := by
  rw [ecdfKeepNaN_limit f h0, ecdf_top f h0 y hy]
  exact ⟨by simp, rfl⟩

/-- **the defective percentile function is the true one compressed onto `[0, 100ρ]`**:
`percentileKeepNaN (ρ·p) = percentile p` -/
theorem percentileKeepNaN_eq (f : Stairs Rat) (h0 : definedLength f ≠ 0) (hρ : 0 < definedFraction f) (p : Rat) :
    percentileKeepNaN f (definedFraction f * p) = percentile f p := by
  unfold percentileKeepNaN percentile xtilesKeepNaN xtiles
  rw [sharesKeepNaN_eq f h0]
  have hc := m8c_cumsum_scale (definedFraction f) 0 (shares f)
  rw [zero_mul] at hc
  rw [hc]
  generalize cumsum 0 (shares f) = cs
  cases cs with
  | nil => rfl
  | cons a r =>
    obtain ⟨v, c⟩ := a
    have hrows : xtileRows 100 0 (((v, c) :: r).map fun vc => (vc.1, vc.2 * definedFraction f))
        = (xtileRows 100 0 ((v, c) :: r)).map fun pv => (definedFraction f * pv.1, pv.2) := by
      rw [m8c_xtileRows_scaled_cum]
      have := xtileRows_scale (definedFraction f) 100 0 ((v, c) :: r)
      rwa [mul_zero] at this
    simp only [List.map_cons] at hrows ⊢
    show xtileSample _ (definedFraction f * p) = xtileSample _ p
    unfold xtileSample
    rw [limit_left, limit_right, limit_left, limit_right]
    unfold Den
    dsimp only
    rw [hrows, lim_scale true _ hρ, lim_scale false _ hρ]

/-- for a well-formed `f` with a defined piece `ρ > 0` holds automatically -/
theorem percentileKeepNaN_eq' (f : Stairs Rat) (hf : f.WF) (h0 : definedLength f ≠ 0) (p : Rat) :
    percentileKeepNaN f (definedFraction f * p) = percentile f p :=
  percentileKeepNaN_eq f h0 (definedFraction_eq_one_iff f hf h0).1 p

/-- on `v₁` (`ρ = 4/5`): the defective median is `3` instead of `5/2`, the defective ecdf tops out at `4/5`, and
the true median is found at the defective percentile `40 = (4/5)·50` -/
theorem keepNaN_distribution_refuted :
    median v₁ = some (5/2) ∧ percentileKeepNaN v₁ 50 = some 3 ∧ percentileKeepNaN v₁ 40 = some (5/2) ∧
    (ecdfKeepNaN v₁).limit .right 3 = some (4/5) ∧ (ecdf v₁).limit .right 3 = some 1 ∧
    (ecdfKeepNaN v₁).limit .right 1 = some (1/5) ∧ (ecdf v₁).limit .right 1 = some (1/4) ∧
    definedFraction v₁ = 4/5 := by decide +kernel


section Helpers

theorem m8c_table_perm (t : List (Val × Rat)) :
    t.Perm ((dropNaN t).map (fun vl => ((some vl.1 : Val), vl.2)) ++ (nanRows t).map fun l => ((none : Val), l)) := by
  induction t with
  | nil => simp [dropNaN, nanRows]
  | cons a t ih =>
    obtain ⟨v, l⟩ := a
    cases v with
    | none =>
      rw [m8c_dropNaN_cons_none, m8c_nanRows_cons_none, List.map_cons]
      exact (ih.cons _).trans List.perm_middle.symm
    | some x =>
      rw [m8c_dropNaN_cons_some, m8c_nanRows_cons_some, List.map_cons, List.cons_append]
      exact ih.cons _

theorem m8c_keys_dropNaN (t : List (Val × Rat)) (x : Rat) :
    x ∈ (dropNaN t).map Prod.fst ↔ some x ∈ t.map Prod.fst := by
  induction t with
  | nil => simp [dropNaN]
  | cons a t ih =>
    obtain ⟨v, l⟩ := a
    cases v with
    | none => rw [m8c_dropNaN_cons_none, ih]; simp
    | some y => rw [m8c_dropNaN_cons_some, List.map_cons, List.mem_cons, ih]; simp

theorem m8c_nodup_dropNaN (t : List (Val × Rat)) (h : (t.map Prod.fst).Nodup) :
    ((dropNaN t).map Prod.fst).Nodup := by
  induction t with
  | nil => simp [dropNaN]
  | cons a t ih =>
    obtain ⟨v, l⟩ := a
    rw [List.map_cons, List.nodup_cons] at h
    cases v with
    | none => rw [m8c_dropNaN_cons_none]; exact ih h.2
    | some y =>
      rw [m8c_dropNaN_cons_some, List.map_cons, List.nodup_cons]
      exact ⟨fun hm => h.1 ((m8c_keys_dropNaN t y).mp hm), ih h.2⟩

theorem m8c_nanRows_le_one (t : List (Val × Rat)) (h : (t.map Prod.fst).Nodup) :
    nanRows t = [] ∨ ∃ l, nanRows t = [l] := by
  induction t with
  | nil => left; rfl
  | cons a t ih =>
    obtain ⟨v, l⟩ := a
    rw [List.map_cons, List.nodup_cons] at h
    cases v with
    | none =>
      right
      refine ⟨l, ?_⟩
      rw [m8c_nanRows_cons_none, (m8c_nanRows_nil_iff t).mpr]
      intro vl hvl hn
      exact h.1 (List.mem_map.mpr ⟨vl, hvl, hn⟩)
    | some y => rw [m8c_nanRows_cons_some]; exact ih h.2

end Helpers

/-- **under the trigger condition of the shortcut** (the keys of the raw table are pairwise distinct: all defined
values distinct and at most one undefined piece) the defective table is the raw table up to order — no grouping
happened, the NaN row is simply still there -/
theorem keepNaN_perm_raw (f : Stairs Rat) (h : ((rawPieces f).map Prod.fst).Nodup) :
    (valueSumsKeepNaN f).Perm (rawPieces f) := by
  refine List.Perm.trans ?_ (m8c_table_perm (rawPieces f)).symm
  unfold valueSumsKeepNaN
  apply List.Perm.append
  · apply List.Perm.map
    rw [valueSums_eq, ← dropNaN_rawPieces]
    have := m8c_vsFold_perm [] (dropNaN (rawPieces f)) (by simpa using m8c_nodup_dropNaN _ h)
    simpa using this
  · rcases m8c_nanRows_le_one _ h with h0 | ⟨l, hl⟩
    · rw [if_pos h0, h0]; exact List.Perm.refl _
    · rw [if_neg (by rw [hl]; simp)]
      unfold undefinedLength
      rw [hl]
      simp

example : ((rawPieces v₁).map Prod.fst).Nodup ∧ rawPieces v₁ = [(some 1, 1), (none, 1), (some 3, 2), (some 2, 1)] ∧
    valueSumsKeepNaN v₁ = [(some 1, 1), (some 2, 1), (some 3, 2), (none, 1)] := by decide +kernel

/-! ### (d) `var` through the second moment -/

/-- `var` computed as `E[v²] − mean²` -/
def varMoment (f : Stairs Rat) : Val :=
  match mean f with
  | none => none
  | some m => some (sumBy (fun vs => vs.2 * (vs.1 * vs.1)) (shares f) - m * m)

/-- **equal in exact arithmetic** (C08's `var_eq_moment`); the seeded defect using this form suffers a *float
cancellation* (`E[v²]` and `mean²` large and close), which exact rationals do not exhibit -/
theorem varMoment_eq_var (f : Stairs Rat) : varMoment f = var f := by
  unfold varMoment
  cases hm : mean f with
  | none => rw [var_none f hm]
  | some m => rw [var_eq_moment f m hm]

example : varMoment C08.f₀ = some 1 ∧ var C08.f₀ = some 1 := by decide +kernel

/-! ## 3. `value_sums` laws

C08 has: keys = values of the defined finite pieces (`valueSums_keys`), strictly sorted (`valueSums_sorted`), total =
defined length (`valueSums_total`), row characterisation (`mem_valueSums`), positivity.  C19b: `valueSums` depends on
the denotation and the two end points only (`stats_eq_of_den`).  New here: the table-level laws. -/

/-- the entry for `k` is the weighted sum of the indicator of `k` -/
theorem entry_valueSums (f : Stairs Rat) (k : Rat) :
    entry (valueSums f) k = wsum (fun v => if v = k then 1 else 0) f := by
  rw [valueSums_eq, entry_vsFold, entry_nil, zero_add]
  unfold entry wsum
  rw [sumBy_filter]
  apply sumBy_congr
  intro a _
  by_cases h : a.1 = k <;> simp [h]

/-- two well-formed functions have the same table iff all entries agree -/
theorem valueSums_ext (f g : Stairs Rat) (hf : f.WF) (hg : g.WF) :
    valueSums f = valueSums g ↔ ∀ k, entry (valueSums f) k = entry (valueSums g) k := by
  constructor
  · intro h k; rw [h]
  · intro h
    exact ksorted_ext _ _ (valueSums_sorted f) (valueSums_sorted g)
      (fun e he => ne_of_gt (valueSums_positive f hf e he)) (fun e he => ne_of_gt (valueSums_positive g hg e he)) h

/-! ### 3a. `mergeTables` and window additivity -/

/-- `mergeTables` is the key-wise sum: entries add, keys are the union, sortedness / positivity are kept, the total
and every key-weighted sum add, it is commutative and has the empty table as unit -/
theorem mergeTables_laws (s t : List (Rat × Rat)) :
    (∀ k, entry (mergeTables s t) k = entry s k + entry t k) ∧
    (∀ k, k ∈ (mergeTables s t).map Prod.fst ↔ k ∈ s.map Prod.fst ∨ k ∈ t.map Prod.fst) ∧
    (KSorted s → KSorted t → KSorted (mergeTables s t)) ∧
    ((∀ e ∈ s, 0 < e.2) → (∀ e ∈ t, 0 < e.2) → ∀ e ∈ mergeTables s t, 0 < e.2) ∧
    sumBy (·.2) (mergeTables s t) = sumBy (·.2) s + sumBy (·.2) t ∧
    (∀ g : Rat → Rat, sumBy (fun vl => g vl.1 * vl.2) (mergeTables s t)
      = sumBy (fun vl => g vl.1 * vl.2) s + sumBy (fun vl => g vl.1 * vl.2) t) ∧
    mergeTables s t = mergeTables t s ∧ mergeTables [] t = t ∧ mergeTables s [] = s :=
  ⟨m8c_entry_merge s t, m8c_keys_merge s t, m8c_ksorted_merge s t, m8c_pos_merge s t, m8c_total_merge s t,
    fun g => m8c_sumBy_merge g s t, m8c_merge_comm s t, m8c_merge_nil_left t, m8c_merge_nil_right s⟩

/-- a sorted positive table is determined by its entries, so `mergeTables` is *the* key-wise sum -/
theorem mergeTables_unique (s t u : List (Rat × Rat)) (hs : KSorted s) (ht : KSorted t) (hu : KSorted u)
    (ps : ∀ e ∈ s, 0 < e.2) (pt : ∀ e ∈ t, 0 < e.2) (pu : ∀ e ∈ u, 0 < e.2)
    (h : ∀ k, entry u k = entry s k + entry t k) : u = mergeTables s t :=
  ksorted_ext _ _ hu (m8c_ksorted_merge s t hs ht) (fun e he => ne_of_gt (pu e he))
    (fun e he => ne_of_gt (m8c_pos_merge s t ps pt e he)) (fun k => by rw [h, m8c_entry_merge])

/-- **window additivity at the table level**: for `a < b < c` the table of `[a, c)` is the key-wise sum of the
tables of `[a, b)` and `[b, c)` -/
theorem valueSums_window_merge (f : Stairs Rat) (hf : f.WF) (a b c : Rat) (hab : a < b) (hbc : b < c) :
    valueSums (window f a c) = mergeTables (valueSums (window f a b)) (valueSums (window f b c)) := by
  have W := wf_window f a c hf (lt_trans hab hbc)
  have W1 := wf_window f a b hf hab
  have W2 := wf_window f b c hf hbc
  apply mergeTables_unique _ _ _ (valueSums_sorted _) (valueSums_sorted _) (valueSums_sorted _)
    (valueSums_positive _ W1) (valueSums_positive _ W2) (valueSums_positive _ W)
  intro k
  rw [entry_valueSums, entry_valueSums, entry_valueSums]
  exact wsum_window_add _ f hf a b c hab hbc

/-- the same for the library call `value_sums` of `clip`ped functions -/
theorem valueSums_clip_merge (f : Stairs Rat) (hf : f.WF) (a b c : Rat) (hab : a < b) (hbc : b < c) :
    (clip f (some a) (some c)).map valueSums
      = .ok (mergeTables (valueSums (window f a b)) (valueSums (window f b c))) ∧
    clip f (some a) (some b) = .ok (window f a b) ∧ clip f (some b) (some c) = .ok (window f b c) := by
  refine ⟨?_, clip_window f a b hab, clip_window f b c hbc⟩
  rw [clip_window f a c (lt_trans hab hbc), ← valueSums_window_merge f hf a b c hab hbc]
  rfl

/-- non-vacuity on `C08.f₀`, window `[1/2, 9/2)` split at `3`: the key `3` occurs in both parts, `1` in both too -/
example : valueSums (window C08.f₀ (1/2) (9/2)) = [(1, 1), (3, 2)] ∧
    valueSums (window C08.f₀ (1/2) 3) = [(1, 1/2), (3, 1)] ∧ valueSums (window C08.f₀ 3 (9/2)) = [(1, 1/2), (3, 1)] ∧
    mergeTables [(1, 1/2), (3, 1)] [(1, 1/2), (3, 1)] = [(1, 1), (3, 2)] ∧
    mergeTables [(1, 2), (4, 1)] [(0, 1), (4, 2), (5, 1)] = [(0, 1), (1, 2), (4, 3), (5, 1)] := by decide +kernel

/-! ### 3b. invariance under `canon`, re-closing, `shift` -/

/-- **`canon`**: with bounded support (undefined on both unbounded pieces) canonicalisation keeps the table and
everything computed from it.  In general it does not (`C08.first_row_matters`, `C08.last_row_matters`: a redundant
first / last row moves the boundary of the finite part); `C19b.stats_canon` is the version "first and last step
point are kept". -/
theorem valueSums_canon_bounded (f : Stairs Rat) (hf : f.WF) (hb : BoundedSupport f) :
    valueSums f.canon = valueSums f ∧ definedLength f.canon = definedLength f ∧ mean f.canon = mean f ∧
    var f.canon = var f := by
  obtain ⟨hL, _, hm, hv, hvs⟩ := stats_eq_of_den_bounded f f.canon hf (wf_canon f hf)
    (fun x => (den_canon f hf false x).symm) hb
  exact ⟨hvs.symm, hL.symm, hm.symm, hv.symm⟩

/-- over a bounded window canonicalisation never matters -/
theorem valueSums_window_canon (f : Stairs Rat) (hf : f.WF) (a b : Rat) (hab : a < b) :
    valueSums (window f.canon a b) = valueSums (window f a b) ∧ window f.canon a b = window f a b := by
  have h := window_stats_congr f.canon f (wf_canon f hf) hf a b hab (fun x _ _ => den_canon f hf false x)
  exact ⟨h.2.2.2.2.2.1, h.2.2.2.2.2.2 rfl⟩

/-- `w₁`: bounded support with redundant rows at `1` (first row, repeats the undefined initial value), `3` and `5` -/
def w₁ : Stairs Rat := ⟨none, [(1, none), (2, some 4), (3, some 4), (4, none), (5, none)], .left⟩
example : w₁.WF ∧ BoundedSupport w₁ ∧ ¬ w₁.Canonical ∧ w₁.canon.steps = [(2, some 4), (4, none)] ∧
    valueSums w₁.canon = [(4, 2)] ∧ valueSums w₁ = [(4, 2)] ∧ rawPieces w₁ ≠ rawPieces w₁.canon := by decide +kernel
/-- and the refutation without bounded support, at table level (`C08.g₁`) -/
example : C08.g₁.WF ∧ ¬ BoundedSupport C08.g₁ ∧ valueSums C08.g₁.canon ≠ valueSums C08.g₁ ∧
    valueSums (window C08.g₁.canon (-1) 3) = valueSums (window C08.g₁ (-1) 3) := by decide +kernel

/-- **re-closing** (and changing the initial value): the raw table, hence everything above, only reads the rows -/
theorem rawPieces_reclose (a a' : Val) (s : List (Rat × Val)) (c c' : Side) :
    rawPieces ⟨a, s, c⟩ = rawPieces ⟨a', s, c'⟩ ∧ valueSums ⟨a, s, c⟩ = valueSums ⟨a', s, c'⟩ ∧
    valueSumsKeepNaN ⟨a, s, c⟩ = valueSumsKeepNaN ⟨a', s, c'⟩ ∧
    meanDirect ⟨a, s, c⟩ = meanDirect ⟨a', s, c'⟩ ∧ meanFallback ⟨a, s, c⟩ = meanFallback ⟨a', s, c'⟩ :=
  ⟨rfl, rfl, rfl, rfl, rfl⟩

/-- **`shift`**: the raw table (NaN rows included, in the same order) is unchanged -/
theorem rawPieces_shift (f : Stairs Rat) (d : Rat) : rawPieces (shift f d) = rawPieces f :=
  m8c_pieces_translate d f.steps

/-- hence so are the defined pieces and every statistic of this file and of C08 (C20c proves the latter through the
general affine re-labelling; this is the direct route) -/
theorem stats_shift (f : Stairs Rat) (d : Rat) :
    definedPieces (shift f d).steps = definedPieces f.steps ∧ valueSums (shift f d) = valueSums f ∧
    valueSumsKeepNaN (shift f d) = valueSumsKeepNaN f ∧ definedLength (shift f d) = definedLength f ∧
    rawLength (shift f d) = rawLength f ∧ mean (shift f d) = mean f ∧ var (shift f d) = var f ∧
    meanFallbackUnfiltered (shift f d) = meanFallbackUnfiltered f := by
  have hd : definedPieces (shift f d).steps = definedPieces f.steps := by
    rw [← dropNaN_rawPieces, rawPieces_shift, dropNaN_rawPieces]
  have hvs : valueSums (shift f d) = valueSums f := by rw [valueSums_eq, valueSums_eq, hd]
  have hL : definedLength (shift f d) = definedLength f := by unfold definedLength; rw [hd]
  have hm : mean (shift f d) = mean f := by
    rw [mean_eq_ite, mean_eq_ite, hL]; unfold wsum; rw [hd]
  refine ⟨hd, hvs, ?_, hL, ?_, hm, ?_, ?_⟩
  · unfold valueSumsKeepNaN undefinedLength; rw [hvs, rawPieces_shift]
  · unfold rawLength; rw [rawPieces_shift]
  · unfold var shares; rw [hm, hvs]
  · unfold meanFallbackUnfiltered rawLength; rw [hL, rawPieces_shift]

example : rawPieces (shift C08.f₀ (5/2)) = rawPieces C08.f₀ ∧
    (shift C08.f₀ (5/2)).steps = [(5/2, some 1), (7/2, none), (9/2, some 3), (13/2, some 1), (15/2, some 3)] := by
  decide +kernel

/-! ### 3c. change of values -/

/-- the entries of the table of `φ ∘ f` -/
theorem entry_valueSums_mapVals (φ : Rat → Rat) (f : Stairs Rat) (k' : Rat) :
    entry (valueSums (mapVals φ f)) k'
      = sumBy (fun vl => (fun v => if φ v = k' then (1 : Rat) else 0) vl.1 * vl.2) (valueSums f) := by
  rw [entry_valueSums, wsum_mapVals, valueSums_weighted f (fun v => if φ v = k' then 1 else 0)]
  rfl

/-- **change of values = regrouping**: the table of `φ ∘ f` is the table of `f` with its keys sent through `φ` and
grouped again (`vsFold []` is the grouping of `value_sums`) -/
theorem valueSums_mapVals (φ : Rat → Rat) (f : Stairs Rat) (hf : f.WF) :
    valueSums (mapVals φ f) = vsFold [] ((valueSums f).map fun vl => (φ vl.1, vl.2)) := by
  have hW : (mapVals φ f).WF := sorted_mapVals (fun v : Val => v.map φ) f.steps hf
  apply ksorted_ext _ _ (valueSums_sorted _) (ksorted_vsFold [] _ ksorted_nil)
    (fun e he => ne_of_gt (valueSums_positive _ hW e he))
    (fun e he => ne_of_gt (m8c_pos_vsFold [] _ (by simp) (fun e he => by
      obtain ⟨a, ha, rfl⟩ := List.mem_map.mp he
      exact valueSums_positive f hf a ha) e he))
  intro k'
  rw [entry_valueSums_mapVals, entry_vsFold, entry_nil, zero_add, m8c_entry_mapKeys]

/-- **strictly increasing `φ`: keys mapped, lengths and order kept** -/
theorem valueSums_mapVals_mono (φ : Rat → Rat) (hφ : ∀ x y, x < y → φ x < φ y) (f : Stairs Rat) (hf : f.WF) :
    valueSums (mapVals φ f) = (valueSums f).map fun vl => (φ vl.1, vl.2) := by
  rw [valueSums_mapVals φ f hf]
  exact m8c_vsFold_self _ (m8c_ksorted_mapKeys_mono φ hφ _ (valueSums_sorted f))

/-- **strictly decreasing `φ`: keys mapped, lengths kept, order reversed** -/
theorem valueSums_mapVals_anti (φ : Rat → Rat) (hφ : ∀ x y, x < y → φ y < φ x) (f : Stairs Rat) (hf : f.WF) :
    valueSums (mapVals φ f) = ((valueSums f).map fun vl => (φ vl.1, vl.2)).reverse := by
  have hW : (mapVals φ f).WF := sorted_mapVals (fun v : Val => v.map φ) f.steps hf
  apply ksorted_ext _ _ (valueSums_sorted _) (m8c_ksorted_mapKeys_anti φ hφ _ (valueSums_sorted f))
    (fun e he => ne_of_gt (valueSums_positive _ hW e he))
    (fun e he => by
      obtain ⟨a, ha, rfl⟩ := List.mem_map.mp (List.mem_reverse.mp he)
      exact ne_of_gt (valueSums_positive f hf a ha))
  intro k'
  rw [entry_valueSums_mapVals, m8c_entry_reverse, m8c_entry_mapKeys]

/-- **constant `φ`: the table collapses to the single key `c`** carrying the whole defined length (empty when
there is none) -/
theorem valueSums_mapVals_const (c : Rat) (f : Stairs Rat) (hf : f.WF) :
    valueSums (mapVals (fun _ => c) f) = if definedLength f = 0 then [] else [(c, definedLength f)] := by
  have hW : (mapVals (fun _ => c) f).WF := sorted_mapVals (fun v : Val => v.map fun _ => c) f.steps hf
  have hL : definedLength (mapVals (fun _ => c) f) = definedLength f := by
    rw [definedLength_eq_wsum, definedLength_eq_wsum, wsum_mapVals]
  by_cases h0 : definedLength f = 0
  · rw [if_pos h0, valueSums_eq_nil_iff]
    by_contra hne
    have := definedLength_pos _ hW hne
    rw [hL] at this
    linarith
  · rw [if_neg h0]
    apply ksorted_ext _ _ (valueSums_sorted _) (by simp [KSorted])
      (fun e he => ne_of_gt (valueSums_positive _ hW e he))
      (fun e he => by simp at he; rw [he]; exact h0)
    intro k'
    rw [entry_valueSums_mapVals, entry_cons, entry_nil, add_zero, ← valueSums_total]
    by_cases hk : c = k'
    · simp only [hk, if_true]
      apply sumBy_congr; intro a _; ring
    · simp only [hk, if_false]
      rw [sumBy_congr _ (fun _ => 0) _ (fun a _ => by ring), sumBy_const_zero]

/-- affine changes `v ↦ k·v + d` -/
theorem valueSums_mapVals_affine (k d : Rat) (f : Stairs Rat) (hf : f.WF) :
    valueSums (mapVals (fun v => k * v + d) f) =
      if 0 < k then (valueSums f).map fun vl => (k * vl.1 + d, vl.2)
      else if k < 0 then ((valueSums f).map fun vl => (k * vl.1 + d, vl.2)).reverse
      else if definedLength f = 0 then [] else [(d, definedLength f)] := by
  by_cases hk : 0 < k
  · rw [if_pos hk]
    exact valueSums_mapVals_mono _ (fun x y hxy => by nlinarith) f hf
  · rw [if_neg hk]
    by_cases hk' : k < 0
    · rw [if_pos hk']
      exact valueSums_mapVals_anti _ (fun x y hxy => by nlinarith) f hf
    · rw [if_neg hk']
      have : k = 0 := le_antisymm (not_lt.mp hk) (not_lt.mp hk')
      subst this
      have : (fun v : Rat => 0 * v + d) = fun _ => d := by funext v; ring
      rw [this]
      exact valueSums_mapVals_const d f hf

/-- **over a bounded window any function denoting `φ ∘ f` there has the regrouped table** — whatever its
representation (e.g. the library's `f * k`, `f + k`, `-f`, which re-canonicalise) -/
theorem valueSums_window_map (φ : Rat → Rat) (f h : Stairs Rat) (hf : f.WF) (hh : h.WF) (a b : Rat) (hab : a < b)
    (hden : ∀ x, a ≤ x → x < b → Den h false x = (Den f false x).map φ) :
    valueSums (window h a b) = valueSums (mapVals φ (window f a b)) := by
  have W : (mapVals φ (window f a b)).WF :=
    sorted_mapVals (fun v : Val => v.map φ) (window f a b).steps (wf_window f a b hf hab)
  apply valueSums_congr _ _ (wf_window h a b hh hab) W
  intro w
  rw [i8b_wsum_window_map φ f h hf hh a b hab hden w, wsum_mapVals]

/-- **`k·f` over a window**: `k > 0` keys multiplied, lengths kept; `k < 0` the same in reversed order; `k = 0`
the table collapses to the single key `0` (empty if `f` is nowhere defined in the window) -/
theorem valueSums_scale_window (f : Stairs Rat) (hf : f.WF) (k a b : Rat) (hab : a < b) :
    valueSums (window (scale f k) a b) =
      if 0 < k then (valueSums (window f a b)).map fun vl => (k * vl.1, vl.2)
      else if k < 0 then ((valueSums (window f a b)).map fun vl => (k * vl.1, vl.2)).reverse
      else if lenOn f a b = 0 then [] else [(0, lenOn f a b)] := by
  rw [valueSums_window_map (fun v => k * v + 0) f (scale f k) hf (wf_scale f hf k) a b hab (fun x _ _ => by
    rw [den_scale f hf]
    cases Den f false x with
    | none => rfl
    | some v => exact congrArg some (by ring)),
    valueSums_mapVals_affine k 0 _ (wf_window f a b hf hab)]
  simp only [add_zero]
  rfl

/-- **`f + k` over a window**: keys shifted by `k`, lengths and order kept -/
theorem valueSums_addConst_window (f : Stairs Rat) (hf : f.WF) (k a b : Rat) (hab : a < b) :
    valueSums (window (addConst f k) a b) = (valueSums (window f a b)).map fun vl => (vl.1 + k, vl.2) := by
  rw [valueSums_window_map (fun v => v + k) f (addConst f k) hf (wf_addConst f hf k) a b hab (fun x _ _ => by
    rw [den_addConst f hf]),
    valueSums_mapVals_mono _ (fun x y hxy => by linarith) _ (wf_window f a b hf hab)]

/-- **`-f` over a window**: keys negated, order reversed -/
theorem valueSums_neg_window (f : Stairs Rat) (hf : f.WF) (a b : Rat) (hab : a < b) :
    valueSums (window (unop .neg f) a b) = ((valueSums (window f a b)).map fun vl => (-vl.1, vl.2)).reverse := by
  rw [valueSums_window_map (fun v => -v) f (unop .neg f) hf (wf_unop _ f hf) a b hab (fun x _ _ => by
    rw [den_unop _ f hf]
    cases Den f false x <;> rfl),
    valueSums_mapVals_anti _ (fun x y hxy => by linarith) _ (wf_window f a b hf hab)]

/-- **without a window, canonical `f`, `k ≠ 0`**: `k·f` keeps the rows of `f` (`C08b.affine_unbounded`), so the
table is the mapped one; for `k = 0` or a non-canonical `f` this fails (`scale_zero_table_unbounded`,
`C08b.addConst_noncanonical`) -/
theorem valueSums_scale_canonical (f : Stairs Rat) (hf : f.Canonical) (k : Rat) (hk : k ≠ 0) :
    valueSums (scale f k) =
      if 0 < k then (valueSums f).map fun vl => (k * vl.1, vl.2)
      else ((valueSums f).map fun vl => (k * vl.1, vl.2)).reverse := by
  obtain ⟨he, _⟩ := affine_unbounded f (scale f k) hf
    (canonical_combine _ _ _ _ hf.1 (wf_const _ _)) rfl k 0 hk (fun x => by
      rw [den_scale f hf.1]
      cases Den f false x with
      | none => rfl
      | some v => exact congrArg some (by ring))
  rw [he, valueSums_mapVals_affine k 0 f hf.1]
  simp only [add_zero]
  by_cases h1 : 0 < k
  · rw [if_pos h1, if_pos h1]
  · rw [if_neg h1, if_neg h1, if_pos (lt_of_le_of_ne (not_lt.mp h1) hk)]

theorem valueSums_addConst_canonical (f : Stairs Rat) (hf : f.Canonical) (k : Rat) :
    valueSums (addConst f k) = (valueSums f).map fun vl => (vl.1 + k, vl.2) := by
  obtain ⟨he, _⟩ := affine_unbounded f (addConst f k) hf
    (canonical_combine _ _ _ _ hf.1 (wf_const _ _)) rfl 1 k one_ne_zero (fun x => by
      rw [den_addConst f hf.1]
      cases Den f false x with
      | none => rfl
      | some v => exact congrArg some (by ring))
  rw [he, valueSums_mapVals_mono _ (fun x y hxy => by linarith) f hf.1]
  apply List.map_congr_left
  intro a _
  congr 1
  ring

/-- **`k = 0` without a window** (`C08b.s₁`, canonical): `0·s₁` is the step-free constant `0`, its table is empty,
not `[(0, 1)]`; over a window the collapse law holds -/
theorem scale_zero_table_unbounded :
    C08b.s₁.Canonical ∧ valueSums C08b.s₁ = [(1, 1)] ∧ valueSums (scale C08b.s₁ 0) = [] ∧
    valueSums (window (scale C08b.s₁ 0) (-1) 3) = [(0, 4)] ∧ lenOn C08b.s₁ (-1) 3 = 4 := by decide +kernel

/-- non-vacuity on `C08.f₀` over `[1/2, 9/2)` (table `[(1, 1), (3, 2)]`) -/
example : valueSums (window (scale C08.f₀ 2) (1/2) (9/2)) = [(2, 1), (6, 2)] ∧
    valueSums (window (scale C08.f₀ (-2)) (1/2) (9/2)) = [(-6, 2), (-2, 1)] ∧
    valueSums (window (scale C08.f₀ 0) (1/2) (9/2)) = [(0, 3)] ∧
    valueSums (window (addConst C08.f₀ 5) (1/2) (9/2)) = [(6, 1), (8, 2)] ∧
    valueSums (window (unop .neg C08.f₀) (1/2) (9/2)) = [(-3, 2), (-1, 1)] := by decide +kernel
/-- a non-injective `φ` regroups: `v ↦ (v − 2)²` sends both keys `1`, `3` of `f₀` to `1` -/
example : valueSums (mapVals (fun v => (v - 2) * (v - 2)) C08.f₀) = [(1, 4)] ∧ valueSums C08.f₀ = [(1, 2), (3, 2)] ∧
    vsFold [] ((valueSums C08.f₀).map fun vl => ((vl.1 - 2) * (vl.1 - 2), vl.2)) = [(1, 4)] := by decide +kernel
example : C08b.s₁.Canonical ∧ valueSums (scale C08b.s₁ (-3)) = [(-3, 1)] ∧ valueSums (addConst C08b.s₁ 4) = [(5, 1)] := by
  decide +kernel

/-! ## 4. the mean as centre and as minimiser of the mean squared deviation

Pure algebra over the defined pieces: no well-formedness is needed, only that the mean exists. -/

/-- length-weighted mean squared deviation of the values from an arbitrary centre `c` -/
def msd (f : Stairs Rat) (c : Rat) : Val :=
  if definedLength f = 0 then none else some (wsum (fun v => (v - c) * (v - c)) f / definedLength f)

/-- the first moment about `c` -/
theorem deviation_sum (f : Stairs Rat) (c : Rat) :
    wsum (fun v => v - c) f = wsum (fun v => v) f - c * definedLength f := by
  unfold wsum definedLength
  rw [← sumBy_mul_left, ← sumBy_sub]
  apply sumBy_congr; intro a _; ring

/-- **the mean is the unique centre**: `Σ (v − c)·l = 0 ⇔ c = mean f` (when there is defined length) -/
theorem deviation_zero_iff (f : Stairs Rat) (h0 : definedLength f ≠ 0) (c : Rat) :
    wsum (fun v => v - c) f = 0 ↔ mean f = some c := by
  rw [deviation_sum, mean_eq_ite, if_neg h0, Option.some.injEq, div_eq_iff h0]
  constructor <;> intro h <;> linarith

/-- around the mean the deviations cancel -/
theorem deviation_mean (f : Stairs Rat) (m : Rat) (hm : mean f = some m) : wsum (fun v => v - m) f = 0 :=
  (deviation_zero_iff f (mean_some f m hm).1 m).mpr hm

/-- `msd` about the mean is `var` -/
theorem msd_mean (f : Stairs Rat) (m : Rat) (hm : mean f = some m) : msd f m = var f := by
  unfold msd
  rw [if_neg (mean_some f m hm).1, var_eq_pieces f m hm]
  rfl

theorem msd_none (f : Stairs Rat) (hm : mean f = none) (c : Rat) : msd f c = none ∧ var f = none := by
  have h0 : definedLength f = 0 := by
    by_contra h; rw [mean_eq_ite, if_neg h] at hm; cases hm
  exact ⟨by unfold msd; rw [if_pos h0], var_none f hm⟩

/-- **parallel-axis identity: `msd f c = var f + (c − mean f)²`** -/
theorem msd_eq_var_add (f : Stairs Rat) (m s c : Rat) (hm : mean f = some m) (hv : var f = some s) :
    msd f c = some (s + (c - m) * (c - m)) := by
  obtain ⟨h0, hS⟩ := mean_some f m hm
  rw [var_eq_pieces f m hm] at hv
  injection hv with hv
  unfold msd
  rw [if_neg h0]
  congr 1
  have hS' : sumBy (fun vl => vl.1 * vl.2) (definedPieces f.steps) = m * definedLength f := hS
  have key := m8c_sumBy_sq_shift (definedPieces f.steps) m c
  have hL : sumBy (fun vl : Rat × Rat => vl.2) (definedPieces f.steps) = definedLength f := rfl
  rw [hS', hL] at key
  show sumBy (fun vl => (vl.1 - c) * (vl.1 - c) * vl.2) (definedPieces f.steps) / definedLength f = _
  rw [key, ← hv]
  field_simp
  ring

/-- **the mean minimises the mean squared deviation, and `var` is the minimum** -/
theorem var_le_msd (f : Stairs Rat) (s x c : Rat) (hv : var f = some s) (hx : msd f c = some x) : s ≤ x := by
  cases hm : mean f with
  | none => rw [var_none f hm] at hv; cases hv
  | some m =>
    rw [msd_eq_var_add f m s c hm hv] at hx
    injection hx with hx
    have := mul_self_nonneg (c - m)
    linarith

/-- the minimum is attained (at the mean) … -/
theorem var_is_min_msd (f : Stairs Rat) (m s : Rat) (hm : mean f = some m) (hv : var f = some s) :
    msd f m = some s ∧ ∀ c x, msd f c = some x → s ≤ x :=
  ⟨by rw [msd_mean f m hm, hv], fun c x hx => var_le_msd f s x c hv hx⟩

/-- … and only there: `msd f c = var f ⇔ c = mean f` -/
theorem msd_eq_var_iff (f : Stairs Rat) (m c : Rat) (hm : mean f = some m) : msd f c = var f ↔ c = m := by
  have h0 := (mean_some f m hm).1
  obtain ⟨s, hs⟩ : ∃ s, var f = some s := by rw [var_eq f m hm]; exact ⟨_, rfl⟩
  rw [msd_eq_var_add f m s c hm hs, hs, Option.some.injEq]
  constructor
  · intro h
    have : (c - m) * (c - m) = 0 := by linarith
    have := mul_self_eq_zero.mp this
    linarith
  · intro h; rw [h]; ring

/-- non-vacuity on `C08.f₀` (mean `2`, var `1`): `msd` about `0`, `2`, `7/2` -/
example : msd C08.f₀ 2 = some 1 ∧ msd C08.f₀ 0 = some 5 ∧ msd C08.f₀ (7/2) = some (13/4) ∧
    wsum (fun v => v - 2) C08.f₀ = 0 ∧ wsum (fun v => v - 3) C08.f₀ = -4 := by decide +kernel

/-! ## 5. Chebyshev's inequality -/

/-- **Chebyshev**: the share of the defined length on which the value is at least `t` away from the mean is at
most `var / t²` -/
theorem chebyshev (f : Stairs Rat) (hf : f.WF) (m s t : Rat) (hm : mean f = some m) (hv : var f = some s)
    (ht : 0 < t) :
    lengthWhere f (fun v => decide (t ≤ |v - m|)) / definedLength f ≤ s / (t * t) := by
  obtain ⟨h0, _⟩ := mean_some f m hm
  have hL : 0 < definedLength f := lt_of_le_of_ne (i8b_definedLength_nonneg f hf) (Ne.symm h0)
  rw [var_eq_pieces f m hm] at hv
  injection hv with hv
  have htt : 0 < t * t := mul_pos ht ht
  have key : lengthWhere f (fun v => decide (t ≤ |v - m|)) * (t * t)
      ≤ sumBy (fun vl => (vl.1 - m) * (vl.1 - m) * vl.2) (definedPieces f.steps) := by
    unfold lengthWhere
    rw [sumBy_filter, ← sumBy_mul_right]
    apply sumBy_le_sumBy
    intro a ha
    have hl : 0 < a.2 := definedPieces_pos f.steps hf a ha
    by_cases hP : t ≤ |a.1 - m|
    · simp only [hP, decide_true, if_true]
      have h1 : t * t ≤ (a.1 - m) * (a.1 - m) := by
        rcases le_abs'.mp hP with h | h <;> nlinarith
      nlinarith
    · simp only [hP, decide_false, Bool.false_eq_true, if_false, zero_mul]
      exact mul_nonneg (mul_self_nonneg _) (le_of_lt hl)
  rw [← hv, div_div, div_le_div_iff₀ hL (mul_pos hL htt)]
  nlinarith

/-- the far part in terms of the two tails -/
theorem far_length_eq (f : Stairs Rat) (m t : Rat) (ht : 0 < t) :
    lengthWhere f (fun v => decide (t ≤ |v - m|))
      = definedLength f - lengthWhere f (fun v => decide (v < m + t)) + lengthWhere f (fun v => decide (v ≤ m - t)) := by
  unfold lengthWhere definedLength
  rw [sumBy_filter, sumBy_filter, sumBy_filter, ← sumBy_sub, ← sumBy_add]
  apply sumBy_congr
  intro a _
  by_cases h1 : a.1 < m + t
  · by_cases h2 : a.1 ≤ m - t
    · have : t ≤ |a.1 - m| := le_abs'.mpr (Or.inl (by linarith))
      simp [h1, h2, this]
    · have : ¬ t ≤ |a.1 - m| := by
        rw [le_abs', not_or]; exact ⟨not_le.mpr (by linarith), not_le.mpr (by linarith)⟩
      simp [h1, h2, this]
  · have h2 : ¬ a.1 ≤ m - t := by intro h; apply h1; linarith
    have : t ≤ |a.1 - m| := le_abs'.mpr (Or.inr (by linarith))
    simp [h1, h2, this]

/-- **Chebyshev in terms of the ecdf** `F`: `1 − F((mean + t)⁻) + F(mean − t) ≤ var / t²` -/
theorem chebyshev_ecdf (f : Stairs Rat) (hf : f.WF) (m s t : Rat) (hm : mean f = some m) (hv : var f = some s)
    (ht : 0 < t) (a b : Rat) (ha : (ecdf f).limit .left (m + t) = some a)
    (hb : (ecdf f).limit .right (m - t) = some b) : 1 - a + b ≤ s / (t * t) := by
  obtain ⟨h0, _⟩ := mean_some f m hm
  rw [ecdf_left_pieces] at ha
  rw [ecdf_right_pieces] at hb
  injection ha with ha
  injection hb with hb
  have := chebyshev f hf m s t hm hv ht
  rw [far_length_eq f m t ht] at this
  have e : 1 - a + b = (definedLength f - lengthWhere f (fun v => decide (v < m + t))
      + lengthWhere f (fun v => decide (v ≤ m - t))) / definedLength f := by
    rw [← ha, ← hb]; field_simp
  rw [e]; exact this

/-- the two ecdf values always exist -/
theorem chebyshev_ecdf' (f : Stairs Rat) (hf : f.WF) (m s t : Rat) (hm : mean f = some m) (hv : var f = some s)
    (ht : 0 < t) : ∃ a b, (ecdf f).limit .left (m + t) = some a ∧ (ecdf f).limit .right (m - t) = some b ∧
      1 - a + b ≤ s / (t * t) :=
  ⟨_, _, ecdf_left_pieces f _, ecdf_right_pieces f _,
    chebyshev_ecdf f hf m s t hm hv ht _ _ (ecdf_left_pieces f _) (ecdf_right_pieces f _)⟩

/-- non-vacuity: `C08.f₀` (mean 2, var 1, values 1 and 3 on half the length each): at `t = 1` the bound is attained
(share `1 ≤ 1/1`), at `t = 2` the share is `0 ≤ 1/4`; on `v₁` (mean `9/4`, var `11/16`) at `t = 1`: `1/4 ≤ 11/16` -/
example : lengthWhere C08.f₀ (fun v => decide ((1 : Rat) ≤ |v - 2|)) / definedLength C08.f₀ = 1 ∧
    lengthWhere C08.f₀ (fun v => decide ((2 : Rat) ≤ |v - 2|)) / definedLength C08.f₀ = 0 ∧
    mean v₁ = some (9/4) ∧ var v₁ = some (11/16) ∧
    lengthWhere v₁ (fun v => decide ((1 : Rat) ≤ |v - 9/4|)) / definedLength v₁ = 1/4 ∧
    (ecdf v₁).limit .left (9/4 + 1) = some 1 ∧ (ecdf v₁).limit .right (9/4 - 1) = some (1/4) := by
  decide +kernel

end SC.Props.C08c
