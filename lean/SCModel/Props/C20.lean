import SCModel.Lemmas.Shift
/-!
# C20 — `shift`, `diff` and the structure of `rolling_mean`

* `f.shift(d)` satisfies `shift(d)(x) = f(x − d)` at every `x` (both one-sided limits, hence under either
  closed convention) and keeps the closed side, well-formedness and minimality;
* `f.diff(d) = f − f.shift(d)`, so `diff(d)(x) = f(x) − f(x − d)`, undefined where either is;
* `rolling_mean(window = (l, r), where = (lo, hi))` returns one point per `x` at which a window edge
  (`x + l` or `x + r`) meets a step point of `f` clipped to `where`, trimmed to `lo − l ≤ x ≤ hi − r`, in
  increasing order, each carrying the `mean` of the clipped function restricted to `[x + l, x + r]`.

The `shift` statements are proved for any linearly ordered additive commutative group of points and
instantiated at `ℚ` (the model's tick domain).
-/
set_option linter.unusedSectionVars false
namespace SC.Props.C20
open SC SC.Stairs

/-! ## shift -/
section shift
variable {P : Type} [AddCommGroup P] [LinearOrder P] [IsOrderedAddMonoid P]

/-- a step at `p + d` has taken effect at `x` iff the step at `p` has at `x − d` -/
theorem reached_shift (st : Bool) (p d x : P) : reached st (p + d) x = reached st p (x - d) :=
  Stairs.reached_shift st p d x

/-- **C20 (shift).** `shift(d)(x) = f(x − d)`, for the left (`st = true`) and the right limit -/
theorem den_shift (f : Stairs P) (d : P) (st : Bool) (x : P) : Den (shift f d) st x = Den f st (x - d) :=
  Stairs.den_shift f d st x

/-- the same for `f(x)` itself (`sample`), whichever side `f` is closed on -/
theorem sample_shift (f : Stairs P) (d x : P) : (shift f d).sample x = f.sample (x - d) := by
  rw [sample_eq_den, sample_eq_den, closed_shift, den_shift]

theorem limit_shift (f : Stairs P) (d : P) (side : Side) (x : P) :
    (shift f d).limit side x = f.limit side (x - d) := by
  rw [limit_eq_den, limit_eq_den, den_shift]

/-- the closed side, the initial value and the number of steps are kept; the step points move by `d` -/
theorem shift_closed (f : Stairs P) (d : P) : (shift f d).closed = f.closed := rfl
theorem shift_init (f : Stairs P) (d : P) : (shift f d).init = f.init := rfl
theorem shift_idx (f : Stairs P) (d : P) : (shift f d).idx = f.idx.map (· + d) := idx_shift f d
theorem shift_numberOfSteps (f : Stairs P) (d : P) : (shift f d).numberOfSteps = f.numberOfSteps :=
  numberOfSteps_shift f d

theorem shift_wf (f : Stairs P) (d : P) (hf : f.WF) : (shift f d).WF := wf_shift f d hf
theorem shift_minimal (f : Stairs P) (d : P) : (shift f d).IsMinimal ↔ f.IsMinimal := minimal_shift f d
theorem shift_canonical (f : Stairs P) (d : P) (hf : f.Canonical) : (shift f d).Canonical :=
  canonical_shift f d hf

/-- shifting by 0 changes nothing; shifts compose additively; `shift(−d)` undoes `shift(d)` -/
theorem shift_zero (f : Stairs P) : shift f 0 = f := Stairs.shift_zero f
theorem shift_shift (f : Stairs P) (a b : P) : shift (shift f a) b = shift f (a + b) := Stairs.shift_shift f a b
theorem shift_neg (f : Stairs P) (d : P) : shift (shift f d) (-d) = f := shift_neg_cancel f d

theorem den_shift_zero (f : Stairs P) (st : Bool) (x : P) : Den (shift f 0) st x = Den f st x := by
  rw [shift_zero]
theorem den_shift_shift (f : Stairs P) (a b : P) (st : Bool) (x : P) :
    Den (shift (shift f a) b) st x = Den (shift f (a + b)) st x := by rw [shift_shift]

/-! ## diff -/

/-- `diff(d)` is literally `f − f.shift(d)` -/
theorem diff_def (f : Stairs P) (d : P) : diff f d = binop .sub f (shift f d) := rfl

/-- it never raises (the two operands share the closed side) … -/
theorem diff_total (f : Stairs P) (d : P) : ∃ h, diff f d = .ok h ∧ h.closed = f.closed := by
  refine ⟨_, combineChecked_total _ f (shift f d) (not_mismatch_of_closed_eq f _ rfl), ?_⟩
  show sideOf f (shift f d) = f.closed
  unfold sideOf; simp

/-- … and **`diff(d)(x) = f(x) − f(x − d)`**, undefined where either term is; the result is canonical -/
theorem den_diff (f h : Stairs P) (d : P) (hf : f.WF) (hr : diff f d = .ok h) :
    h.Canonical ∧ ∀ st x, Den h st x = vsub (Den f st x) (Den f st (x - d)) := by
  obtain ⟨hc, _, hp⟩ := combineChecked_ok BinOp.sub.eval f (shift f d) h hf (wf_shift f d hf) hr
  exact ⟨hc, fun st x => by rw [hp, den_shift]; rfl⟩

theorem den_diff_defined (f h : Stairs P) (d : P) (hf : f.WF) (hr : diff f d = .ok h) (st : Bool) (x : P)
    (a b : Rat) (ha : Den f st x = some a) (hb : Den f st (x - d) = some b) : Den h st x = some (a - b) := by
  rw [(den_diff f h d hf hr).2, ha, hb]; rfl

theorem den_diff_undefined_iff (f h : Stairs P) (d : P) (hf : f.WF) (hr : diff f d = .ok h) (st : Bool) (x : P) :
    Den h st x = none ↔ Den f st x = none ∨ Den f st (x - d) = none := by
  rw [(den_diff f h d hf hr).2]
  cases Den f st x <;> cases Den f st (x - d) <;> simp [vsub, vlift2]

end shift

/-! the instance at the model's point type -/
theorem den_shift_rat (f : Stairs Rat) (d : Rat) (st : Bool) (x : Rat) :
    Den (shift f d) st x = Den f st (x - d) := den_shift f d st x
theorem den_diff_rat (f h : Stairs Rat) (d : Rat) (hf : f.WF) (hr : diff f d = .ok h) (st : Bool) (x : Rat) :
    Den h st x = vsub (Den f st x) (Den f st (x - d)) := (den_diff f h d hf hr).2 st x

/-! ## rolling_mean -/

/-- a knot is an `x` at which the left or the right window edge meets a step point -/
theorem mem_knots (c : Stairs Rat) (l r x : Rat) : x ∈ knots c l r ↔ (x + l ∈ c.idx ∨ x + r ∈ c.idx) := by
  have h : ∀ (d : Rat), x ∈ c.idx.map (· - d) ↔ x + d ∈ c.idx := by
    intro d
    simp only [List.mem_map]
    constructor
    · rintro ⟨p, hp, rfl⟩; simpa using hp
    · intro hx; exact ⟨x + d, hx, by simp⟩
  unfold knots
  rw [mem_unionIdx, h, h]

/-- knots are strictly increasing -/
theorem knots_sorted (c : Stairs Rat) (l r : Rat) (hc : c.WF) : (knots c l r).Pairwise (· < ·) := by
  have h : ∀ (d : Rat), (c.idx.map (· - d)).Pairwise (· < ·) := by
    intro d
    rw [List.pairwise_map]
    exact (show c.idx.Pairwise (· < ·) from hc).imp (fun h => by simpa using h)
  exact pairwise_unionIdx _ _ (h l) (h r)

/-- the trimming keeps exactly `lo − l ≤ x` (when `lo` is given) and `x ≤ hi − r` (when `hi` is given) -/
theorem keepKnot_iff (lo hi : Option Rat) (l r x : Rat) :
    keepKnot lo hi l r x = true ↔ (∀ a, lo = some a → a - l ≤ x) ∧ (∀ b, hi = some b → x ≤ b - r) := by
  cases lo <;> cases hi <;> simp [keepKnot]

/-- the function rolled over: `f` itself without `where`, else `f` clipped to `where` -/
theorem clipW_spec (f : Stairs Rat) (lo hi : Option Rat) :
    clipW f lo hi = if lo = none ∧ hi = none then .ok f else clip f lo hi := by
  cases lo <;> cases hi <;> simp [clipW]

/-- the window cut out at a knot is `clip` of the rolled-over function, and denotes it inside the window
and nothing outside -/
theorem window_spec (c : Stairs Rat) (a b : Rat) (hab : a < b) (hc : c.WF) :
    clip c (some a) (some b) = .ok (window c a b) ∧ (window c a b).Canonical ∧
    ∀ st z, Den (window c a b) st z = if inWindow st (some a) (some b) z then Den c st z else none := by
  have hb : boundsOk (some a) (some b) = true := by simpa [boundsOk] using hab
  have hok := clip_window c a b hab
  exact ⟨hok, (canonical_clip c _ _ hc hb _ hok).1, fun st z => den_clip c _ _ hc hb _ hok st z⟩

/-- **C20 (rolling_mean), full result.** For a non-degenerate window over a (clipped) function with steps:
one row `(x, mean of the window at x)` per kept knot. -/
theorem rollingMean_spec (f c : Stairs Rat) (l r : Rat) (lo hi : Option Rat) (hc : clipW f lo hi = .ok c)
    (hs : c.steps ≠ []) (hlr : l < r) :
    rollingMean f l r lo hi =
      .ok (((knots c l r).filter (keepKnot lo hi l r)).map fun x => (x, mean (window c (x + l) (x + r)))) := by
  rw [rollingMean_ok f c l r lo hi hc hs hlr, List.filter_map]
  rfl

/-- the x-coordinates: exactly the knots satisfying the trimming conditions, in increasing order -/
theorem rollingMean_points (f c : Stairs Rat) (l r : Rat) (lo hi : Option Rat) (rows : List (Rat × Val))
    (hc : clipW f lo hi = .ok c) (hwf : c.WF) (hs : c.steps ≠ []) (hlr : l < r)
    (hr : rollingMean f l r lo hi = .ok rows) :
    rows.map Prod.fst = (knots c l r).filter (keepKnot lo hi l r) ∧
    (rows.map Prod.fst).Pairwise (· < ·) ∧
    ∀ x, x ∈ rows.map Prod.fst ↔
      (x + l ∈ c.idx ∨ x + r ∈ c.idx) ∧ (∀ a, lo = some a → a - l ≤ x) ∧ (∀ b, hi = some b → x ≤ b - r) := by
  rw [rollingMean_spec f c l r lo hi hc hs hlr] at hr
  injection hr with hr
  subst hr
  have h1 : (((knots c l r).filter (keepKnot lo hi l r)).map
      fun x => (x, mean (window c (x + l) (x + r)))).map Prod.fst = (knots c l r).filter (keepKnot lo hi l r) := by
    simp [List.map_map, Function.comp_def]
  refine ⟨h1, ?_, ?_⟩
  · rw [h1]; exact (knots_sorted c l r hwf).filter _
  · intro x
    rw [h1, List.mem_filter, mem_knots, keepKnot_iff]

/-- the y-coordinates: the mean of the rolled-over function clipped to `[x + l, x + r]` -/
theorem rollingMean_values (f c : Stairs Rat) (l r : Rat) (lo hi : Option Rat) (rows : List (Rat × Val))
    (hc : clipW f lo hi = .ok c) (hs : c.steps ≠ []) (hlr : l < r)
    (hr : rollingMean f l r lo hi = .ok rows) :
    ∀ xy ∈ rows, ∃ s, clip c (some (xy.1 + l)) (some (xy.1 + r)) = .ok s ∧ xy.2 = mean s := by
  rw [rollingMean_spec f c l r lo hi hc hs hlr] at hr
  injection hr with hr
  subst hr
  intro xy hxy
  obtain ⟨x, _, rfl⟩ := List.mem_map.mp hxy
  exact ⟨_, clip_window c _ _ (Rat.add_lt_add_left.mpr hlr), rfl⟩

/-- the remaining cases: a window with `l ≥ r` is a `ValueError`; a step-free rolled-over function gives
the constant at the two ends of `where` (an assertion failure without both ends); a failing `where`
clip propagates -/
theorem rollingMean_other_cases (f c : Stairs Rat) (l r : Rat) (lo hi : Option Rat) :
    (clipW f lo hi = .ok c → c.steps ≠ [] → ¬ l < r → rollingMean f l r lo hi = .error .valueError) ∧
    (clipW f lo hi = .ok c → c.steps = [] →
      rollingMean f l r lo hi = match (generalizing := false) lo, hi with
        | some a, some b => .ok [(a, c.init), (b, c.init)]
        | _, _ => .error .assertion) ∧
    (∀ e, clipW f lo hi = .error e → rollingMean f l r lo hi = .error e) :=
  ⟨rollingMean_degenerate f c l r lo hi, rollingMean_stepfree f c l r lo hi,
   fun e => rollingMean_clip_error f l r lo hi e⟩

/-! ## non-vacuity over `Stairs Rat` -/
def f₀ : Stairs Rat := ⟨some 0, [(0, some 1), (2, some 3), (4, some 0)], .left⟩
def g₀ : Stairs Rat := ⟨none, [(1, some 2), (3, none)], .right⟩

example : f₀.Canonical ∧ g₀.Canonical := by decide +kernel
example : shift f₀ (3/2) = ⟨some 0, [(3/2, some 1), (7/2, some 3), (11/2, some 0)], .left⟩ := by decide +kernel
example : shift g₀ (-1) = ⟨none, [(0, some 2), (2, none)], .right⟩ := by decide +kernel
example : (shift f₀ (3/2)).sample 2 = f₀.sample (1/2) := by decide +kernel
example : diff f₀ 1 = .ok ⟨some 0, [(0, some 1), (1, some 0), (2, some 2), (3, some 0), (4, some (-3)), (5, some 0)], .left⟩ := by
  decide +kernel
example : diff g₀ 1 = .ok ⟨none, [(2, some 0), (3, none)], .right⟩ := by decide +kernel

-- rolling mean: knots where a window edge meets a step point, trimmed by `where`, window means
example : knots f₀ (-1) 1 = [-1, 1, 3, 5] := by decide +kernel
example : rollingMean f₀ (-1) 1 none none = .ok [(-1, some 0), (1, some 1), (3, some 3), (5, some 0)] := by
  decide +kernel
example : rollingMean f₀ (-1) 1 (some 0) (some 4) = .ok [(1, some 1), (3, some 3)] := by decide +kernel
example : rollingMean f₀ 0 1 (some 1) none = .ok [(1, some 1), (2, some 3), (3, some 3), (4, some 0)] := by
  decide +kernel
-- windows lying in an undefined stretch have no mean
example : rollingMean g₀ (-1) 1 none none = .ok [(0, none), (2, some 2), (4, none)] := by decide +kernel
-- degenerate window, step-free function
example : rollingMean f₀ 1 1 none none = .error .valueError := by decide +kernel
example : rollingMean (⟨some 2, [], .left⟩ : Stairs Rat) (-1) 1 none none = .error .assertion := by decide +kernel
example : rollingMean (⟨none, [], .left⟩ : Stairs Rat) (-1) 1 (some 0) (some 3) = .ok [(0, none), (3, none)] := by
  decide +kernel

end SC.Props.C20
