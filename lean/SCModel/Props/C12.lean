import SCModel.Lemmas.Fill
import Mathlib.Data.Int.Order.Basic
/-!
# C12 — Results are in minimal form, so identical() decides equality of functions
-/
set_option linter.unusedSectionVars false
namespace SC.Props.C12
open SC SC.Stairs
variable {P : Type} [LinearOrder P]

/-! ## every operation returns a canonical (sorted, minimal) result -/

theorem unary_canonical (u : UnOp) (f : Stairs P) (hf : f.WF) : (unop u f).Canonical := canonical_map _ f hf
theorem binary_canonical (o : BinOp) (f g h : Stairs P) (hf : f.WF) (hg : g.WF) (hr : binop o f g = .ok h) :
    h.Canonical := (combineChecked_ok o.eval f g h hf hg hr).1
theorem mask_canonical (f g h : Stairs P) (hf : f.WF) (hg : g.WF) (hr : mask f g = .ok h) : h.Canonical :=
  (combineChecked_ok maskOp f g h hf hg hr).1
theorem where_canonical (f g h : Stairs P) (hf : f.WF) (hg : g.WF) (hr : where_ f g = .ok h) : h.Canonical :=
  (combineChecked_ok whereOp f g h hf hg hr).1
theorem fillna_canonical (f g h : Stairs P) (v : Val) (hf : f.WF) (hg : g.WF) (hr : fillnaStairs f g = .ok h) :
    h.Canonical ∧ (fillnaScalar f v).Canonical ∧ (ffill f).Canonical ∧ (bfill f).Canonical :=
  ⟨(combineChecked_ok fillOp f g h hf hg hr).1, canonical_map _ f hf, canonical_ffill f hf, canonical_bfill f hf⟩
theorem clip_canonical (f r : Stairs P) (lo hi : Option P) (hf : f.WF) (hr : clip f lo hi = .ok r) : r.Canonical := by
  by_cases hb : boundsOk lo hi = true
  · exact (canonical_clip f lo hi hf hb r hr).1
  · rw [clip_error f lo hi (by simpa using hb)] at hr; cases hr
theorem mask_tuple_canonical (f : Stairs P) (lo hi : Option P) (hf : f.WF) : (maskTuple f lo hi).Canonical :=
  canonical_combine _ _ _ _ hf (wf_layerIndicator lo hi f.closed)
theorem const_canonical (c : Val) (cl : Side) : (const c cl : Stairs P).Canonical := canonical_const c cl
/-- `from_values` (`canon` of the given rows) is canonical -/
theorem from_values_canonical (f : Stairs P) (hf : f.WF) : f.canon.Canonical := canonical_canon f hf

/-- in a canonical result every step point is a genuine change: no row repeats the value to its left
(for `Option`, "undefined after undefined" is such a repeat) -/
theorem steps_are_changes (f : Stairs P) (hf : f.Canonical) : Minimal f.init f.steps := hf.2

/-! ## identical() decides equality of the denoted functions -/

/-- **identical ⇔ same function** (for canonical operands, e.g. any results of operations) -/
theorem identical_iff [NoMinOrder P] [Nonempty P] (f g : Stairs P) (hf : f.Canonical) (hg : g.Canonical) :
    identical f g = true ↔ ∀ x, Den f false x = Den g false x := by
  constructor
  · intro h x
    simp only [identical, Bool.and_eq_true, decide_eq_true_eq] at h
    unfold Den; rw [h.1, h.2]
  · intro h
    obtain ⟨hi, hs⟩ := canonical_unique f.steps g.steps f.init g.init hf.1 hg.1 hf.2 hg.2 h
    simp [identical, hi, hs]

/-- … and then the left limits agree as well: the two denote the same function in every respect -/
theorem identical_den [NoMinOrder P] [Nonempty P] (f g : Stairs P) (h : identical f g = true)
    (st : Bool) (x : P) : Den f st x = Den g st x := by
  simp only [identical, Bool.and_eq_true, decide_eq_true_eq] at h
  unfold Den; rw [h.1, h.2]

theorem identical_refl (f : Stairs P) : identical f f = true := by simp [identical]
theorem identical_symm (f g : Stairs P) : identical f g = identical g f := by
  simp only [identical]; congr 1 <;> exact decide_eq_decide.mpr eq_comm

/-- a scalar counts as the constant function -/
theorem identical_scalar [NoMinOrder P] [Nonempty P] (f : Stairs P) (hf : f.Canonical) (c : Val) :
    identical f (const c f.closed) = true ↔ ∀ x, Den f false x = c := by
  rw [identical_iff f _ hf (canonical_const c f.closed)]; rfl

/-- a constant result has no steps; `number_of_steps` counts real changes -/
theorem constant_has_no_steps [NoMinOrder P] [Nonempty P] (f : Stairs P) (hf : f.Canonical) (c : Val)
    (h : ∀ x, Den f false x = c) : f.numberOfSteps = 0 := by
  have := (canonical_unique f.steps [] f.init c hf.1 sorted_nil hf.2 trivial (by simpa [Den] using h)).2
  simp [numberOfSteps, this]

/-- `bool(f)` is true exactly for the constant 1 -/
theorem toBool_iff [NoMinOrder P] [Nonempty P] (f : Stairs P) (hf : f.Canonical) :
    Stairs.toBool f = true ↔ ∀ x, Den f false x = some 1 := by
  constructor
  · intro h x
    simp only [Stairs.toBool, Bool.and_eq_true, decide_eq_true_eq, List.isEmpty_iff] at h
    unfold Den; rw [h.1, h.2]; rfl
  · intro h
    obtain ⟨hi, hs⟩ := canonical_unique f.steps [] f.init (some 1) hf.1 sorted_nil hf.2 trivial
      (by simpa [Den] using h)
    simp [Stairs.toBool, hi, hs]

/-! ## the identities of pointwise algebra hold up to `identical` -/

/-- two canonical results that agree pointwise are identical -/
theorem identical_of_pointwise [NoMinOrder P] [Nonempty P] (f g : Stairs P) (hf : f.Canonical) (hg : g.Canonical)
    (h : ∀ x, Den f false x = Den g false x) : identical f g = true := (identical_iff f g hf hg).mpr h

/-- commutativity of any commutative operator (`+ * & | ^ == !=`) -/
theorem comm (op : Val → Val → Val) (hop : ∀ a b, op a b = op b a) [NoMinOrder P] [Nonempty P]
    (f g : Stairs P) (cl : Side) (hf : f.WF) (hg : g.WF) :
    identical (combine op f g cl) (combine op g f cl) = true :=
  identical_of_pointwise _ _ (canonical_combine op f g cl hf hg) (canonical_combine op g f cl hg hf)
    (fun x => by rw [den_combine _ _ _ _ hf hg, den_combine _ _ _ _ hg hf, hop])

/-- associativity of any associative operator -/
theorem assoc (op : Val → Val → Val) (hop : ∀ a b c, op (op a b) c = op a (op b c)) [NoMinOrder P] [Nonempty P]
    (f g k : Stairs P) (cl : Side) (hf : f.WF) (hg : g.WF) (hk : k.WF) :
    identical (combine op (combine op f g cl) k cl) (combine op f (combine op g k cl) cl) = true :=
  identical_of_pointwise _ _
    (canonical_combine op _ k cl (wf_combine op f g cl hf hg) hk)
    (canonical_combine op f _ cl hf (wf_combine op g k cl hg hk))
    (fun x => by
      rw [den_combine _ _ _ _ (wf_combine op f g cl hf hg) hk, den_combine _ _ _ _ hf hg,
          den_combine _ _ _ _ hf (wf_combine op g k cl hg hk), den_combine _ _ _ _ hg hk, hop])

theorem vadd_comm (a b : Val) : vadd a b = vadd b a := by
  cases a <;> cases b <;> simp [vadd, vlift2, Rat.add_comm]
theorem vmul_comm (a b : Val) : vmul a b = vmul b a := by
  cases a <;> cases b <;> simp [vmul, vlift2, Rat.mul_comm]
theorem vadd_assoc (a b c : Val) : vadd (vadd a b) c = vadd a (vadd b c) := by
  cases a <;> cases b <;> cases c <;> simp [vadd, vlift2, Rat.add_assoc]
theorem vmul_assoc (a b c : Val) : vmul (vmul a b) c = vmul a (vmul b c) := by
  cases a <;> cases b <;> cases c <;> simp [vmul, vlift2, Rat.mul_assoc]
theorem vlogic_comm (l : Logic) (a b : Val) : vlogic l a b = vlogic l b a := by
  cases l <;> cases a <;> cases b <;> simp [vlogic, Logic.eval, Bool.and_comm, Bool.or_comm, bne_comm]
theorem vlogic_assoc (l : Logic) (a b c : Val) : vlogic l (vlogic l a b) c = vlogic l a (vlogic l b c) := by
  cases a <;> cases b <;> cases c <;> simp [vlogic]
  rename_i x y z
  cases l <;> cases hx : truth x <;> cases hy : truth y <;> cases hz : truth z <;>
    simp [Logic.eval, b2r, truth]

/-- distributivity `f * (g + k) = f*g + f*k` (undefinedness propagates the same way on both sides) -/
theorem distrib_val (a b c : Val) : vmul a (vadd b c) = vadd (vmul a b) (vmul a c) := by
  cases a <;> cases b <;> cases c <;> simp [vmul, vadd, vlift2, Rat.mul_add]

theorem distrib [NoMinOrder P] [Nonempty P] (f g k : Stairs P) (cl : Side) (hf : f.WF) (hg : g.WF) (hk : k.WF) :
    identical (combine vmul f (combine vadd g k cl) cl)
      (combine vadd (combine vmul f g cl) (combine vmul f k cl) cl) = true :=
  identical_of_pointwise _ _
    (canonical_combine _ f _ cl hf (wf_combine _ g k cl hg hk))
    (canonical_combine _ _ _ cl (wf_combine _ f g cl hf hg) (wf_combine _ f k cl hf hk))
    (fun x => by
      rw [den_combine _ _ _ _ hf (wf_combine _ g k cl hg hk), den_combine _ _ _ _ hg hk,
          den_combine _ _ _ _ (wf_combine _ f g cl hf hg) (wf_combine _ f k cl hf hk),
          den_combine _ _ _ _ hf hg, den_combine _ _ _ _ hf hk, distrib_val])

/-- De Morgan at one point -/
theorem demorgan_val (a b : Val) :
    UnOp.invert.eval (vlogic .and a b) = vlogic .or (UnOp.invert.eval a) (UnOp.invert.eval b) ∧
    UnOp.invert.eval (vlogic .or a b) = vlogic .and (UnOp.invert.eval a) (UnOp.invert.eval b) := by
  cases a <;> cases b <;> simp [vlogic, UnOp.eval]
  rename_i x y
  cases hx : truth x <;> cases hy : truth y <;> simp [Logic.eval, b2r, truth]

theorem demorgan [NoMinOrder P] [Nonempty P] (f g : Stairs P) (cl : Side) (hf : f.WF) (hg : g.WF) :
    identical (unop .invert (combine (vlogic .and) f g cl))
      (combine (vlogic .or) (unop .invert f) (unop .invert g) cl) = true ∧
    identical (unop .invert (combine (vlogic .or) f g cl))
      (combine (vlogic .and) (unop .invert f) (unop .invert g) cl) = true := by
  have hi : ∀ h : Stairs P, h.WF → (unop .invert h).WF := fun h hh => wf_unop _ h hh
  constructor
  · exact identical_of_pointwise _ _ (canonical_unop _ _ (wf_combine _ f g cl hf hg))
      (canonical_combine _ _ _ cl (hi f hf) (hi g hg))
      (fun x => by
        rw [den_unop _ _ (wf_combine _ f g cl hf hg), den_combine _ _ _ _ hf hg,
            den_combine _ _ _ _ (hi f hf) (hi g hg), den_unop _ f hf, den_unop _ g hg]
        exact (demorgan_val _ _).1)
  · exact identical_of_pointwise _ _ (canonical_unop _ _ (wf_combine _ f g cl hf hg))
      (canonical_combine _ _ _ cl (hi f hf) (hi g hg))
      (fun x => by
        rw [den_unop _ _ (wf_combine _ f g cl hf hg), den_combine _ _ _ _ hf hg,
            den_combine _ _ _ _ (hi f hf) (hi g hg), den_unop _ f hf, den_unop _ g hg]
        exact (demorgan_val _ _).2)

/-- `f − f` is 0 on f's domain (and undefined elsewhere) -/
theorem self_sub [NoMinOrder P] [Nonempty P] (f : Stairs P) (hf : f.WF) (x : P) :
    Den (combine vsub f f f.closed) false x = (Den f false x).map (fun _ => (0 : Rat)) := by
  rw [den_combine _ _ _ _ hf hf]; cases Den f false x <;> simp [vsub, vlift2, Rat.sub_self]

/-- `~~f = make_boolean(f)` -/
theorem double_invert [NoMinOrder P] [Nonempty P] (f : Stairs P) (hf : f.WF) :
    identical (unop .invert (unop .invert f)) (unop .makeBoolean f) = true :=
  identical_of_pointwise _ _ (canonical_unop _ _ (wf_unop _ f hf)) (canonical_unop _ f hf)
    (fun x => by
      rw [den_unop _ _ (wf_unop _ f hf), den_unop _ f hf, den_unop _ f hf]
      cases Den f false x <;> simp [UnOp.eval]
      rename_i q; cases hq : truth q <;> simp [b2r, truth])

/-- mask / where duality: `f.mask(g) = f.where(~g)` -/
theorem mask_where_val (a m : Val) : maskOp a m = whereOp a (UnOp.invert.eval m) := by
  cases m with
  | none => simp [maskOp, whereOp, UnOp.eval]
  | some q =>
    by_cases hq : q = 0
    · subst hq; simp [maskOp, whereOp, UnOp.eval, b2r, truth]
    · simp [maskOp, whereOp, UnOp.eval, b2r, truth, hq]

theorem mask_where_duality [NoMinOrder P] [Nonempty P] (f g : Stairs P) (cl : Side) (hf : f.WF) (hg : g.WF) :
    identical (combine maskOp f g cl) (combine whereOp f (unop .invert g) cl) = true :=
  identical_of_pointwise _ _ (canonical_combine _ f g cl hf hg)
    (canonical_combine _ f _ cl hf (wf_unop _ g hg))
    (fun x => by
      rw [den_combine _ _ _ _ hf hg, den_combine _ _ _ _ hf (wf_unop _ g hg), den_unop _ g hg]
      exact mask_where_val _ _)

/-! non-vacuity: value coincidences that must collapse to fewer steps -/
instance : NoMinOrder Int := ⟨fun a => ⟨a - 1, by omega⟩⟩
def f₀ : Stairs Int := ⟨some 0, [(1, some 2), (3, some 5), (4, none)], .left⟩
example : f₀.Canonical := by decide +kernel
example : binopO .mul (.st f₀) (.sc (some 0)) = some (.ok ⟨some 0, [(4, none)], .left⟩) := by decide +kernel
example : (binop .sub f₀ f₀) = .ok ⟨some 0, [(4, none)], .left⟩ := by decide +kernel
example : identical (unop .invert (unop .invert f₀)) (unop .makeBoolean f₀) = true := by decide +kernel

end SC.Props.C12
