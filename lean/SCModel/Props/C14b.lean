import SCModel.Props.C13
import SCModel.Lemmas.World14b
/-!
# C14b — The object world: caches and aliasing over arbitrary histories

`Model/World.lean` gives the multi-object world (`World = List Obj`, `World.step`, `World.run`) but no
*outputs*; C14 proves the single-object history theorem (`run_spec`), C13 the object-level aliasing facts.
This file lifts everything to whole worlds and arbitrary operation sequences (creating operations, `layer`
and queries on arbitrary – also invalid – indices):

1. an output-producing cached world (`stepO`/`runO`, whose state component *is* `World.step`/`World.run`) and a
   cache-free reference semantics (`stepPure`/`runPure` on `PWorld = List (Stairs Rat)`), and the refinement
   theorem `run_refines_pure`: same output stream, same functions – caches are unobservable;
2. commutation of operations with different receivers, queries commute with everything;
3. monotone history facts and `object_is_fold_of_its_layers`, `object_depends_only_on_its_ops`;
4. the exact characterisation of when a cache is filled after a history;
5. a seeded defect (`Obj.layerNoReset`) refuting the refinement for a `layer` that forgets one reset.
-/
namespace SC.Props.C14b
open SC SC.Stairs SC.Obj SC.Props.C14

/-! ## 1. outputs, the cache-free reference semantics, refinement -/

/-- what the caller observes from one operation -/
inductive Out
  | created (k : Nat)          -- a creating operation returned the new object number `k`
  | failed (e : Err)           -- a creating operation raised
  | badIndex                   -- some operand / receiver index does not exist (nothing happens)
  | done                       -- `layer` returned
  | answer (a : List Val)      -- a query answered
  deriving DecidableEq, Repr

/-- the function computed by a creating operation, from the lookup function alone -/
def computeFn (fn : Nat → Option (Stairs Rat)) : WOp → Option (Except Err (Stairs Rat))
  | .new f => some (.ok f.canon)
  | .copy i => (fn i).map .ok
  | .un u i => (fn i).map fun f => .ok (unop u f)
  | .bin o i j => do let f ← fn i; let g ← fn j; pure (binop o f g)
  | .binR o i c => (fn i).map fun f => binop o f (const c f.closed)
  | .binL o c j => (fn j).map fun g => binop o (const c g.closed) g
  | .clip i lo hi => (fn i).map fun f => Stairs.clip f lo hi
  | .maskT i lo hi => (fn i).map fun f => .ok (maskTuple f lo hi)
  | .mask i j => do let f ← fn i; let g ← fn j; pure (Stairs.mask f g)
  | .wher i j => do let f ← fn i; let g ← fn j; pure (where_ f g)
  | .fillS i j => do let f ← fn i; let g ← fn j; pure (fillnaStairs f g)
  | .fillC i v => (fn i).map fun f => .ok (fillnaScalar f v)
  | .ffill i => (fn i).map fun f => .ok (Stairs.ffill f)
  | .bfill i => (fn i).map fun f => .ok (Stairs.bfill f)
  | .shift i d => (fn i).map fun f => .ok (Stairs.shift f d)
  | .agg F is => (allSomeW (is.map fn)).map fun ms => aggregate F ms
  | .layer _ _ => none
  | .query _ _ => none

/-- `World.compute` looks at the functions only – never at a cache -/
theorem compute_eq_computeFn (w : World) (op : WOp) : w.compute op = computeFn w.fn op := by
  cases op <;> rfl

/-- the cached world with outputs: the state component is exactly `World.step` (see `stepO_fst`) -/
def stepO (w : World) (op : WOp) : World × Out :=
  match op with
  | .layer i ts => (w.step (.layer i ts), if i < w.length then .done else .badIndex)
  | .query i q =>
    (w.step (.query i q), match w[i]? with
      | some o => .answer (o.query q).2
      | none => .badIndex)
  | op =>
    (w.step op, match w.compute op with
      | some (.ok _) => .created w.length
      | some (.error e) => .failed e
      | none => .badIndex)

def runO (w : World) : List WOp → World × List Out
  | [] => (w, [])
  | op :: r => ((runO (stepO w op).1 r).1, (stepO w op).2 :: (runO (stepO w op).1 r).2)

/-- the cache-free world: only the functions -/
abbrev PWorld := List (Stairs Rat)

def PWorld.fn (p : PWorld) (i : Nat) : Option (Stairs Rat) := p[i]?

/-- reference semantics: `layer` updates the receiver's function, every query is recomputed from the current
function, creating operations append -/
def stepPure (p : PWorld) (op : WOp) : PWorld × Out :=
  match op with
  | .layer i ts => (p.modify i (layerF · ts), if i < p.length then .done else .badIndex)
  | .query i q =>
    (p, match p[i]? with
      | some f => .answer (freshAnswer f q)
      | none => .badIndex)
  | op =>
    match computeFn p.fn op with
    | some (.ok r) => (p ++ [r], .created p.length)
    | some (.error e) => (p, .failed e)
    | none => (p, .badIndex)

def runPure (p : PWorld) : List WOp → PWorld × List Out
  | [] => (p, [])
  | op :: r => ((runPure (stepPure p op).1 r).1, (stepPure p op).2 :: (runPure (stepPure p op).1 r).2)

/-- forgetting the caches -/
def erase (w : World) : PWorld := w.map (·.f)

deriving instance DecidableEq for SC.Obj
deriving instance DecidableEq for SC.Stairs.Triple
deriving instance DecidableEq for SC.Query
deriving instance DecidableEq for SC.HOp

/-- every object satisfies the cache invariant of C14 -/
def WInv (w : World) : Prop := ∀ o ∈ w, CacheInv o

section Helpers

theorem w14b_stepO_fst (w : World) (op : WOp) : (stepO w op).1 = w.step op := by
  cases op <;> rfl

theorem w14b_runO_fst (w : World) (ops : List WOp) : (runO w ops).1 = w.run ops := by
  induction ops generalizing w with
  | nil => rfl
  | cons op r ih => simp only [runO, ih, w14b_stepO_fst, World.run, List.foldl_cons]

theorem w14b_erase_length (w : World) : (erase w).length = w.length := by simp [erase]

theorem w14b_erase_get (w : World) (i : Nat) : (erase w)[i]? = (w[i]?).map (·.f) := by simp [erase]

theorem w14b_fn_erase (w : World) : (erase w).fn = w.fn := by
  funext i; simp [PWorld.fn, World.fn, erase]

theorem w14b_erase_modify (w : World) (i : Nat) (g : Obj → Obj) (h : Stairs Rat → Stairs Rat)
    (hg : ∀ o, (g o).f = h o.f) : erase (w.modify i g) = (erase w).modify i h := by
  apply List.ext_getElem?
  intro k
  simp only [erase, List.getElem?_map, List.getElem?_modify]
  by_cases hik : i = k
  · subst hik; cases w[i]? <;> simp [hg]
  · simp [hik]

theorem w14b_erase_modify_id (w : World) (i : Nat) (g : Obj → Obj)
    (hg : ∀ o, (g o).f = o.f) : erase (w.modify i g) = erase w := by
  rw [w14b_erase_modify w i g id hg]
  apply List.ext_getElem?
  intro k
  simp only [List.getElem?_modify]
  split <;> simp

theorem w14b_winv_modify (w : World) (i : Nat) (g : Obj → Obj) (h : WInv w)
    (hg : ∀ o, CacheInv o → CacheInv (g o)) : WInv (w.modify i g) := by
  intro o ho
  obtain ⟨k, hk, rfl⟩ := List.getElem_of_mem ho
  have hk' : k < w.length := by simpa using hk
  rw [List.getElem_modify]
  split
  · exact hg _ (h _ (List.getElem_mem hk'))
  · exact h _ (List.getElem_mem hk')

theorem w14b_winv_append (w : World) (r : Stairs Rat) (h : WInv w) : WInv (w ++ [fresh r]) := by
  intro o ho
  rcases List.mem_append.1 ho with ho | ho
  · exact h o ho
  · rw [List.mem_singleton.1 ho]; exact fresh_inv r

end Helpers

/-- the state component of the output-producing world is the model's `World.step` / `World.run` -/
theorem stepO_fst (w : World) (op : WOp) : (stepO w op).1 = w.step op := w14b_stepO_fst w op
theorem runO_fst (w : World) (ops : List WOp) : (runO w ops).1 = w.run ops := w14b_runO_fst w ops

/-- **one step refines the pure step**: same output, same functions, invariant kept -/
theorem step_refines_pure (w : World) (op : WOp) (h : WInv w) :
    (stepO w op).2 = (stepPure (erase w) op).2 ∧ erase (stepO w op).1 = (stepPure (erase w) op).1 ∧
      WInv (stepO w op).1 := by
  cases op with
  | layer i ts =>
    refine ⟨?_, ?_, ?_⟩
    · simp only [stepO, stepPure, w14b_erase_length]
    · simp only [stepO, stepPure, World.step]
      exact w14b_erase_modify w i _ _ (fun o => layer_f o ts)
    · simp only [stepO, World.step]
      exact w14b_winv_modify w i _ h (fun o ho => layer_inv o ts ho)
  | query i q =>
    refine ⟨?_, ?_, ?_⟩
    · simp only [stepO, stepPure, w14b_erase_get]
      cases hw : w[i]? with
      | none => rfl
      | some o =>
        have ho : CacheInv o := h o (List.mem_of_getElem? hw)
        simp only [Option.map_some, (query_spec o q ho).1]
    · simp only [stepO, stepPure, World.step]
      exact w14b_erase_modify_id w i _ (fun o => query_keeps_function o q)
    · simp only [stepO, World.step]
      exact w14b_winv_modify w i _ h (fun o ho => (query_spec o q ho).2.2)
  | _ =>
    simp only [stepO, stepPure, World.step, compute_eq_computeFn, w14b_fn_erase, w14b_erase_length]
    generalize computeFn w.fn _ = c
    rcases c with _ | (e | r)
    · exact ⟨rfl, rfl, h⟩
    · exact ⟨rfl, rfl, h⟩
    · exact ⟨rfl, by simp [erase, fresh], w14b_winv_append w r h⟩

/-- **REFINEMENT: caches are unobservable.**  For every operation sequence (creating operations, `layer`,
queries; arbitrary – also non-existent – object numbers) the cached world and the cache-free world produce
the same output stream and hold the same functions, and the invariant is kept (so the history can go on) -/
theorem run_refines_pure (w : World) (ops : List WOp) (h : WInv w) :
    (runO w ops).2 = (runPure (erase w) ops).2 ∧ erase (runO w ops).1 = (runPure (erase w) ops).1 ∧
      WInv (runO w ops).1 := by
  induction ops generalizing w with
  | nil => exact ⟨rfl, rfl, h⟩
  | cons op r ih =>
    obtain ⟨s1, s2, s3⟩ := step_refines_pure w op h
    obtain ⟨i1, i2, i3⟩ := ih (stepO w op).1 s3
    simp only [runO, runPure]
    rw [s2] at i1 i2
    exact ⟨by rw [s1, i1], i2, i3⟩

/-- the same at the level of the model's own `World.run`: the functions after a history are those of the
pure run -/
theorem run_functions_pure (w : World) (ops : List WOp) (h : WInv w) :
    erase (w.run ops) = (runPure (erase w) ops).1 := by
  rw [← runO_fst]; exact (run_refines_pure w ops h).2.1

/-- starting from the empty world (every object is then created inside the history) no hypothesis is needed -/
theorem run_refines_pure_from_empty (ops : List WOp) :
    (runO [] ops).2 = (runPure [] ops).2 ∧ erase (runO [] ops).1 = (runPure [] ops).1 :=
  ⟨(run_refines_pure [] ops (fun _ h => nomatch h)).1, (run_refines_pure [] ops (fun _ h => nomatch h)).2.1⟩

/-- two worlds with the same functions and arbitrary *valid* cache contents are observationally equal -/
theorem caches_unobservable (w w' : World) (ops : List WOp) (h : WInv w) (h' : WInv w')
    (he : erase w = erase w') :
    (runO w ops).2 = (runO w' ops).2 ∧ erase (runO w ops).1 = erase (runO w' ops).1 := by
  obtain ⟨a1, a2, _⟩ := run_refines_pure w ops h
  obtain ⟨b1, b2, _⟩ := run_refines_pure w' ops h'
  rw [a1, b1, a2, b2, he]; exact ⟨rfl, rfl⟩

/-! non-vacuity -/
def a₁ : Stairs Rat := ⟨some 0, [(0, some 1), (4, some 0)], .left⟩
def b₁ : Stairs Rat := ⟨none, [], .left⟩
def hist₁ : List WOp :=
  [.new a₁, .new b₁, .query 0 .mean, .query 5 .mean, .layer 0 [⟨some 0, some 2, 2⟩], .query 0 .mean,
   .bin .add 0 1, .layer 1 [⟨none, none, 3⟩], .query 1 .integral, .query 2 .max, .layer 7 [], .copy 9,
   .query 0 .var, .query 0 .median]
example : (runO [] hist₁).2 =
    [.created 0, .created 1, .answer [some 1], .badIndex, .done, .answer [some 2], .created 2, .done,
     .answer [none], .answer [none], .badIndex, .badIndex, .answer [some 1], .answer [some 2]] := by
  decide +kernel
example : (runO [] hist₁).2 = (runPure [] hist₁).2 ∧ erase (runO [] hist₁).1 = (runPure [] hist₁).1 := by
  decide +kernel
example : WInv [fresh a₁, { f := a₁, im := some (integral a₁, mean a₁) }] := by
  intro o ho
  simp only [List.mem_cons, List.not_mem_nil, or_false] at ho
  rcases ho with rfl | rfl
  · exact fresh_inv _
  · exact ⟨Or.inr rfl, Or.inl rfl⟩

/-! ## 2. commutation of operations on different objects -/

/-- the two orders give the same final world and the same outputs (each op keeps its own output) -/
def Commutes (w : World) (a b : WOp) : Prop :=
  (runO w [a, b]).1 = (runO w [b, a]).1 ∧ (runO w [a, b]).2 = (runO w [b, a]).2.reverse

/-- the receiver of an in-place operation (`layer` mutates it, a query may fill its caches) -/
def receiver : WOp → Option Nat
  | .layer i _ => some i
  | .query i _ => some i
  | _ => none

/-- the objects a creating operation reads -/
def operands : WOp → List Nat
  | .new _ => []
  | .copy i | .un _ i | .binR _ i _ | .binL _ _ i | .clip i _ _ | .maskT i _ _ | .fillC i _ | .ffill i
  | .bfill i | .shift i _ => [i]
  | .bin _ i j | .mask i j | .wher i j | .fillS i j => [i, j]
  | .agg _ is => is
  | .layer _ _ | .query _ _ => []

section Helpers

theorem w14b_modify_comm {α : Type} (w : List α) (i j : Nat) (g h : α → α) (hij : i ≠ j) :
    (w.modify i g).modify j h = (w.modify j h).modify i g := by
  apply List.ext_getElem?
  intro k
  simp only [List.getElem?_modify]
  by_cases h1 : i = k <;> by_cases h2 : j = k <;> simp [h1, h2]
  · exact absurd (h1.trans h2.symm) hij

theorem w14b_modify_modify {α : Type} (w : List α) (i : Nat) (g h : α → α) :
    (w.modify i g).modify i h = w.modify i (h ∘ g) := by
  apply List.ext_getElem?
  intro k
  simp only [List.getElem?_modify]
  by_cases h1 : i = k
  · simp only [h1, if_true]; cases w[k]? <;> rfl
  · simp [h1]

theorem w14b_modify_append {α : Type} (w : List α) (x : α) (i : Nat) (g : α → α) (hi : i ≠ w.length) :
    (w ++ [x]).modify i g = w.modify i g ++ [x] := by
  apply List.ext_getElem?
  intro k
  simp only [List.getElem?_modify, List.getElem?_append, List.length_modify]
  by_cases h1 : i = k
  · subst h1
    by_cases h2 : i < w.length
    · simp [h2]
    · have : ¬ i - w.length = 0 := by omega
      simp [h2]
      cases hx : [x][i - w.length]? with
      | none => rfl
      | some y =>
        have := (List.getElem?_eq_some_iff.1 hx).1
        simp at this; omega
  · simp [h1]

/-- an in-place operation is local: it rewrites its receiver and its output depends on the receiver only -/
theorem w14b_stepO_local (a : WOp) (i : Nat) (ha : receiver a = some i) :
    ∃ (g : Obj → Obj) (out : Option Obj → Out), ∀ w : World, stepO w a = (w.modify i g, out w[i]?) := by
  cases a with
  | layer j ts =>
    injection ha with ha; subst ha
    refine ⟨(·.layer ts), fun o => if o.isSome then .done else .badIndex, fun w => ?_⟩
    simp only [stepO, World.step]
    by_cases h : j < w.length
    · simp [h]
    · simp [h]
  | query j q =>
    injection ha with ha; subst ha
    exact ⟨fun o => (o.query q).1, fun o => match o with | some o => .answer (o.query q).2 | none => .badIndex,
      fun w => rfl⟩
  | _ => cases ha

theorem w14b_fn_modify (w : World) (i : Nat) (g : Obj → Obj) (hg : ∀ o, (g o).f = o.f) :
    World.fn (w.modify i g) = World.fn w := by
  funext k
  simp only [World.fn, List.getElem?_modify]
  by_cases h : i = k
  · subst h; cases w[i]? <;> simp [hg]
  · simp [h]

/-- a creating operation reads the functions of its operands only -/
theorem w14b_computeFn_congr (fn fn' : Nat → Option (Stairs Rat)) (c : WOp)
    (h : ∀ k ∈ operands c, fn k = fn' k) : computeFn fn c = computeFn fn' c := by
  cases c <;> simp only [operands, List.mem_cons, List.not_mem_nil, or_false, forall_eq_or_imp, forall_eq] at h <;>
    simp only [computeFn]
  case agg F is => rw [List.map_congr_left h]
  all_goals first | rfl | rw [h] | (rw [h.1, h.2])

/-- a creating operation, described uniformly -/
theorem w14b_stepO_creating (w : World) (c : WOp) (hc : receiver c = none) :
    stepO w c = match computeFn w.fn c with
      | some (.ok r) => (w ++ [fresh r], .created w.length)
      | some (.error e) => (w, .failed e)
      | none => (w, .badIndex) := by
  cases c with
  | layer i ts => cases hc
  | query i q => cases hc
  | _ =>
    simp only [stepO, World.step, compute_eq_computeFn]
    generalize computeFn w.fn _ = x
    rcases x with _ | (e | r) <;> rfl

end Helpers

/-- **two in-place operations with different receivers commute** (a `layer` on object `i` and a query or
`layer` on object `j ≠ i`, two queries on different objects): same final world – caches included – and each
operation gets the same output in either order.  No invariant and no validity of the indices is needed. -/
theorem different_receivers_commute (w : World) (a b : WOp) (i j : Nat) (ha : receiver a = some i)
    (hb : receiver b = some j) (hij : i ≠ j) : Commutes w a b := by
  obtain ⟨g, oa, hA⟩ := w14b_stepO_local a i ha
  obtain ⟨h, ob, hB⟩ := w14b_stepO_local b j hb
  simp only [Commutes, runO, hA, hB, List.reverse_cons, List.reverse_nil, List.nil_append, List.cons_append,
    List.getElem?_modify, if_neg hij, if_neg (Ne.symm hij)]
  exact ⟨w14b_modify_comm w i j g h hij, by simp⟩

theorem layer_layer_commute (w : World) (i j : Nat) (ts ts' : List (Triple Rat)) (hij : i ≠ j) :
    (w.step (.layer i ts)).step (.layer j ts') = (w.step (.layer j ts')).step (.layer i ts) :=
  w14b_modify_comm w i j _ _ hij

theorem layer_query_commute (w : World) (i j : Nat) (ts : List (Triple Rat)) (q : Query) (hij : i ≠ j) :
    Commutes w (.layer i ts) (.query j q) :=
  different_receivers_commute w _ _ i j rfl rfl hij

section Helpers
theorem w14b_ensureIM_im (o : Obj) : (ensureIM o).1.im = some (ensureIM o).2 := by
  unfold ensureIM; cases h : o.im <;> simp [h]
theorem w14b_ensureDist_dist (o : Obj) : (ensureDist o).1.dist = some (ensureDist o).2 := by
  unfold ensureDist; cases h : o.dist <;> simp [h]
theorem w14b_ensureIM_dist (o : Obj) : (ensureIM o).1.dist = o.dist := by
  unfold ensureIM; cases h : o.im <;> rfl
theorem w14b_ensureDist_im (o : Obj) : (ensureDist o).1.im = o.im := by
  unfold ensureDist; cases h : o.dist <;> rfl
theorem w14b_ensureIM_snd (o : Obj) : (ensureIM o).2 = (o.im).getD (integral o.f, mean o.f) := by
  unfold ensureIM; cases h : o.im <;> rfl
theorem w14b_ensureDist_snd (o : Obj) : (ensureDist o).2 = (o.dist).getD (cumShares o.f) := by
  unfold ensureDist; cases h : o.dist <;> rfl

/-- the object after a query, field by field -/
theorem w14b_query_im (o : Obj) (q : Query) :
    (o.query q).1.im = if needsIM q then some ((o.im).getD (integral o.f, mean o.f)) else o.im := by
  unfold Obj.query
  cases needsIM q <;> cases needsDist q <;>
    simp only [Bool.false_eq_true, if_false, if_true, w14b_ensureDist_im, w14b_ensureIM_im, w14b_ensureIM_snd]

theorem w14b_query_dist (o : Obj) (q : Query) :
    (o.query q).1.dist = if needsDist q then some ((o.dist).getD (cumShares o.f)) else o.dist := by
  unfold Obj.query
  cases needsIM q <;> cases needsDist q <;>
    simp only [Bool.false_eq_true, if_false, if_true, w14b_ensureDist_dist, w14b_ensureIM_dist,
      w14b_ensureDist_snd, ensureIM_f]

/-- the answer of a query, from the fields -/
theorem w14b_query_snd (o : Obj) (q : Query) :
    (o.query q).2 = answerFrom o.f
      (if needsIM q then (o.im).getD (integral o.f, mean o.f) else (integral o.f, mean o.f))
      (if needsDist q then (o.dist).getD (cumShares o.f) else cumShares o.f) q := by
  unfold Obj.query
  cases needsIM q <;> cases needsDist q <;>
    simp only [Bool.false_eq_true, if_false, if_true, w14b_ensureDist_snd, w14b_ensureIM_snd, ensureIM_f,
      ensureDist_f, w14b_ensureIM_dist]

theorem w14b_obj_ext (o o' : Obj) (h1 : o.f = o'.f) (h2 : o.im = o'.im) (h3 : o.dist = o'.dist) : o = o' := by
  cases o; cases o'; simp only at h1 h2 h3; subst h1; subst h2; subst h3; rfl
end Helpers

/-- **two queries on the same object commute, even in their effect on the caches and even when a cache is
stale**: the second query reads exactly what the first would have read -/
theorem query_query_same_object (o : Obj) (q q' : Query) :
    ((o.query q).1.query q').1 = ((o.query q').1.query q).1 ∧ ((o.query q).1.query q').2 = (o.query q').2 := by
  refine ⟨w14b_obj_ext _ _ ?_ ?_ ?_, ?_⟩
  · simp only [query_keeps_function]
  · simp only [w14b_query_im, query_keeps_function]
    cases needsIM q <;> cases needsIM q' <;> simp
  · simp only [w14b_query_dist, query_keeps_function]
    cases needsDist q <;> cases needsDist q' <;> simp
  · simp only [w14b_query_snd, w14b_query_im, w14b_query_dist, query_keeps_function]
    cases needsIM q <;> cases needsIM q' <;> cases needsDist q <;> cases needsDist q' <;> simp

theorem queries_commute_same_object (w : World) (i : Nat) (q q' : Query) :
    Commutes w (.query i q) (.query i q') := by
  simp only [Commutes, runO, stepO, World.step, List.reverse_cons, List.reverse_nil, List.nil_append,
    List.cons_append, List.getElem?_modify, if_true, w14b_modify_modify]
  cases hw : w[i]? with
  | none => exact ⟨by rw [List.modify_eq_self (by simpa using hw), List.modify_eq_self (by simpa using hw)], rfl⟩
  | some o =>
    refine ⟨?_, ?_⟩
    · congr 1; funext o; exact (query_query_same_object o q q').1
    · simp only [Option.map_eq_map, Option.map_some, (query_query_same_object o q q').2,
        (query_query_same_object o q' q).2]

/-- **a query commutes with every creating operation** (provided its receiver is not the object number the
creating operation is about to hand out – see `query_vs_creating_needs_existing`) -/
theorem query_commutes_with_creating (w : World) (i : Nat) (q : Query) (c : WOp) (hc : receiver c = none)
    (hi : i ≠ w.length) : Commutes w (.query i q) c := by
  have hfn : World.fn (w.modify i fun o => (o.query q).1) = World.fn w :=
    w14b_fn_modify w i _ (fun o => query_keeps_function o q)
  simp only [Commutes, runO, w14b_stepO_creating _ c hc]
  simp only [stepO, World.step, hfn, List.length_modify]
  generalize computeFn w.fn c = x
  rcases x with _ | (e | r)
  · exact ⟨rfl, rfl⟩
  · exact ⟨rfl, rfl⟩
  · simp only [List.reverse_cons, List.reverse_nil, List.nil_append, List.cons_append]
    refine ⟨(w14b_modify_append w _ i _ hi).symm, ?_⟩
    have : (w ++ [fresh r])[i]? = w[i]? := by
      by_cases h : i < w.length
      · exact List.getElem?_append_left h
      · rw [List.getElem?_eq_none (by simp; omega), List.getElem?_eq_none (by omega)]
    rw [this]

/-- **a `layer` commutes with every creating operation that does not read its receiver** -/
theorem layer_commutes_with_creating (w : World) (i : Nat) (ts : List (Triple Rat)) (c : WOp)
    (hc : receiver c = none) (hr : i ∉ operands c) (hi : i ≠ w.length) : Commutes w (.layer i ts) c := by
  have hfn : computeFn (World.fn (w.modify i (·.layer ts))) c = computeFn (World.fn w) c := by
    apply w14b_computeFn_congr
    intro k hk
    have : i ≠ k := fun h => hr (h ▸ hk)
    simp [World.fn, this]
  simp only [Commutes, runO, w14b_stepO_creating _ c hc]
  simp only [stepO, World.step, hfn, List.length_modify]
  generalize computeFn w.fn c = x
  rcases x with _ | (e | r)
  · exact ⟨rfl, rfl⟩
  · exact ⟨rfl, rfl⟩
  · simp only [List.reverse_cons, List.reverse_nil, List.nil_append, List.cons_append]
    refine ⟨(w14b_modify_append w _ i _ hi).symm, ?_⟩
    have : (i < (w ++ [fresh r]).length) = (i < w.length) := by
      simp only [List.length_append, List.length_cons, List.length_nil]
      exact propext ⟨fun h => by omega, fun h => by omega⟩
    simp only [this]

/-- **queries commute with everything** except a `layer` on the same object: for every other operation `b` the
two orders give the same world and the same outputs -/
theorem query_commutes_with_all (w : World) (i : Nat) (q : Query) (b : WOp) (hb : ∀ ts, b ≠ .layer i ts)
    (hi : i ≠ w.length) : Commutes w (.query i q) b := by
  cases hr : receiver b with
  | none => exact query_commutes_with_creating w i q b hr hi
  | some j =>
    by_cases hij : i = j
    · subst hij
      cases b with
      | layer j ts => injection hr with hr; subst hr; exact absurd rfl (hb ts)
      | query j q' => injection hr with hr; subst hr; exact queries_commute_same_object w _ q q'
      | _ => cases hr
    · exact different_receivers_commute w _ b i j rfl hr hij

/-- on the *functions* a query commutes with everything, unconditionally -/
theorem query_commutes_on_functions (w : World) (i : Nat) (q : Query) (b : WOp) :
    erase ((w.step (.query i q)).step b) = erase ((w.step b).step (.query i q)) := by
  have e1 : ∀ v : World, erase (v.step (.query i q)) = erase v := fun v =>
    w14b_erase_modify_id v i _ (fun o => query_keeps_function o q)
  rw [e1]
  have hfn : World.fn (w.step (.query i q)) = World.fn w :=
    w14b_fn_modify w i _ (fun o => query_keeps_function o q)
  cases b with
  | layer j ts =>
    simp only [World.step]
    rw [w14b_erase_modify _ j _ (layerF · ts) (fun o => layer_f o ts),
      w14b_erase_modify _ j _ (layerF · ts) (fun o => layer_f o ts)]
    exact congrArg (fun l => List.modify l j _) (e1 w)
  | query j q' =>
    simp only [World.step]
    rw [w14b_erase_modify_id _ j _ (fun o => query_keeps_function o q'),
      w14b_erase_modify_id _ j _ (fun o => query_keeps_function o q'),
      w14b_erase_modify_id _ i _ (fun o => query_keeps_function o q)]
  | _ =>
    have e2 := e1 w
    simp only [World.step, compute_eq_computeFn] at hfn e2 ⊢
    rw [hfn]
    generalize computeFn w.fn _ = x
    rcases x with _ | (e | r)
    · exact e2
    · exact e2
    · simp only [erase, List.map_append] at e2 ⊢; rw [e2]

/-! the side conditions are needed -/
def wq : World := [fresh a₁]
/-- a query on the object number about to be created does *not* commute with the creating operation -/
theorem query_vs_creating_needs_existing : ¬ Commutes wq (.query 1 .mean) (.copy 0) := by
  unfold Commutes; decide +kernel
/-- a query and a `layer` on the same object do not commute (outputs), although the functions agree -/
theorem query_vs_layer_same_object : ¬ Commutes wq (.query 0 .mean) (.layer 0 [⟨some 0, some 2, 2⟩]) := by
  unfold Commutes; decide +kernel
/-- a `layer` does not commute with a creating operation that reads its receiver -/
theorem layer_vs_reader : ¬ Commutes wq (.layer 0 [⟨some 0, some 2, 2⟩]) (.copy 0) := by
  unfold Commutes; decide +kernel

def w₂ : World := [fresh a₁, { f := a₁, im := some (integral a₁, mean a₁) }, fresh b₁]
example : Commutes w₂ (.layer 0 [⟨some 1, none, 2⟩]) (.query 1 .var) ∧
    (runO w₂ [.layer 0 [⟨some 1, none, 2⟩], .query 1 .var]).2 = [.done, .answer [some 0]] := by
  unfold Commutes; decide +kernel
example : Commutes w₂ (.layer 0 [⟨some 1, none, 2⟩]) (.bin .add 1 2) := by
  unfold Commutes; decide +kernel

/-! ## 3. monotone history facts; every object is the fold of its own `layer` calls -/

theorem run_append (w : World) (a b : List WOp) : w.run (a ++ b) = (w.run a).run b := by
  simp only [World.run, List.foldl_append]

theorem runO_append (w : World) (a b : List WOp) :
    runO w (a ++ b) = ((runO (runO w a).1 b).1, (runO w a).2 ++ (runO (runO w a).1 b).2) := by
  induction a generalizing w with
  | nil => rfl
  | cons op r ih => simp only [List.cons_append, runO, ih]

theorem runO_outputs_length (w : World) (ops : List WOp) : (runO w ops).2.length = ops.length := by
  induction ops generalizing w with
  | nil => rfl
  | cons op r ih => simp only [runO, List.length_cons, ih]

/-- **a query can be deleted from (or inserted into) any history**: no function changes and no *other* output
changes – the output stream merely loses the deleted query's answer -/
theorem query_can_be_deleted (w : World) (pre post : List WOp) (i : Nat) (q : Query) (h : WInv w) :
    (runO w (pre ++ .query i q :: post)).2.eraseIdx pre.length = (runO w (pre ++ post)).2 ∧
      erase (runO w (pre ++ .query i q :: post)).1 = erase (runO w (pre ++ post)).1 := by
  have hv := (run_refines_pure w pre h).2.2
  obtain ⟨_, s2, s3⟩ := step_refines_pure (runO w pre).1 (.query i q) hv
  have hu := caches_unobservable _ _ post s3 hv s2
  rw [runO_append, runO_append]
  simp only [runO]
  refine ⟨?_, hu.2⟩
  rw [List.eraseIdx_append_of_length_le (by rw [runO_outputs_length]),
    runO_outputs_length, Nat.sub_self, List.eraseIdx_cons_zero, hu.1]

example : (runO [] hist₁).2.eraseIdx 5 = (runO [] (hist₁.eraseIdx 5)).2 := by decide +kernel

/-- `layer` never changes the number of objects (whatever the index) -/
theorem layer_keeps_length (w : World) (i : Nat) (ts : List (Triple Rat)) :
    (w.step (.layer i ts)).length = w.length := by simp [World.step]

/-- a query never changes the number of objects -/
theorem query_keeps_length (w : World) (i : Nat) (q : Query) :
    (w.step (.query i q)).length = w.length := by simp [World.step]

/-- does the output announce a new object? -/
def Out.isCreated : Out → Bool
  | .created _ => true
  | _ => false

/-- one step: the world grows by one object exactly when the output is `created k`, and then `k` is the old
number of objects (objects are numbered consecutively and never renumbered) -/
theorem step_length (w : World) (op : WOp) :
    (w.step op).length = w.length + (if (stepO w op).2.isCreated then 1 else 0) ∧
      ∀ k, (stepO w op).2 = .created k → k = w.length := by
  cases hr : receiver op with
  | some j =>
    cases op with
    | layer i ts =>
      refine ⟨?_, ?_⟩
      · simp only [stepO, World.step, List.length_modify]; split <;> rfl
      · intro k hk; simp only [stepO] at hk; split at hk <;> cases hk
    | query i q =>
      refine ⟨?_, ?_⟩
      · rcases hw : w[i]? with _ | o <;> simp [stepO, World.step, hw, Out.isCreated]
      · intro k hk; simp only [stepO] at hk; split at hk <;> cases hk
    | _ => cases hr
  | none =>
    rw [← stepO_fst, w14b_stepO_creating w op hr]
    generalize computeFn w.fn op = x
    rcases x with _ | (e | r)
    · exact ⟨rfl, fun k hk => by cases hk⟩
    · exact ⟨rfl, fun k hk => by cases hk⟩
    · exact ⟨by simp [Out.isCreated], fun k hk => by injection hk with hk; exact hk.symm⟩

/-- **objects are never removed**: after any history there are at least as many objects as before; precisely,
the initial number plus the number of `created` outputs -/
theorem run_length (w : World) (ops : List WOp) :
    (w.run ops).length = w.length + ((runO w ops).2.filter Out.isCreated).length := by
  induction ops generalizing w with
  | nil => rfl
  | cons op r ih =>
    have h1 := (step_length w op).1
    have h2 := ih (w.step op)
    simp only [World.run, List.foldl_cons, runO, stepO_fst] at h2 ⊢
    rw [h2, h1, List.filter_cons]
    split
    · simp; omega
    · simp

theorem run_length_le (w : World) (ops : List WOp) : w.length ≤ (w.run ops).length := by
  rw [run_length]; omega

/-- **a creating operation only appends**: the old world is a prefix of the new one, caches included -/
theorem creating_only_appends (w : World) (c : WOp) (hc : receiver c = none) : w <+: w.step c := by
  rw [← stepO_fst, w14b_stepO_creating w c hc]
  generalize computeFn w.fn c = x
  rcases x with _ | (e | r)
  · exact List.prefix_refl w
  · exact List.prefix_refl w
  · exact List.prefix_append w _

/-- a history of creating operations only appends -/
theorem creating_run_only_appends (w : World) (ops : List WOp) (h : ∀ op ∈ ops, receiver op = none) :
    w <+: w.run ops := by
  induction ops generalizing w with
  | nil => exact List.prefix_refl w
  | cons op r ih =>
    simp only [World.run, List.foldl_cons]
    exact List.IsPrefix.trans (creating_only_appends w op (h op (by simp)))
      (ih (w.step op) (fun o ho => h o (List.mem_cons_of_mem _ ho)))

/-- a history without `layer` only appends *functions* (queries may fill caches, nothing else) -/
theorem nonlayer_run_only_appends (w : World) (ops : List WOp) (h : ∀ op ∈ ops, ∀ i ts, op ≠ .layer i ts) :
    erase w <+: erase (w.run ops) := by
  induction ops generalizing w with
  | nil => exact List.prefix_refl _
  | cons op r ih =>
    simp only [World.run, List.foldl_cons]
    refine List.IsPrefix.trans ?_ (ih (w.step op) (fun o ho => h o (List.mem_cons_of_mem _ ho)))
    cases hr : receiver op with
    | none => exact (List.IsPrefix.map (·.f) (creating_only_appends w op hr))
    | some j =>
      cases op with
      | layer i ts => exact absurd rfl (h _ (by simp) i ts)
      | query i q =>
        simp only [World.step]
        rw [w14b_erase_modify_id w i _ (fun o => query_keeps_function o q)]
        exact List.prefix_refl _
      | _ => cases hr

/-- the `layer` calls addressed to object `i`, in order -/
def layersOn (i : Nat) : List WOp → List (List (Triple Rat))
  | [] => []
  | .layer j ts :: r => if j = i then ts :: layersOn i r else layersOn i r
  | _ :: r => layersOn i r

/-- everything addressed to object `i` (its `layer` calls and its queries), in order -/
def opsOn (i : Nat) : List WOp → List HOp
  | [] => []
  | .layer j ts :: r => if j = i then .layer ts :: opsOn i r else opsOn i r
  | .query j q :: r => if j = i then .query q :: opsOn i r else opsOn i r
  | _ :: r => opsOn i r

section Helpers
theorem w14b_map_f (x y : Option Obj) (h : x.map (·.f) = y.map (·.f)) (F : Stairs Rat → Stairs Rat) :
    x.map (fun o => F o.f) = y.map (fun o => F o.f) := by
  cases x <;> cases y <;> simp_all

theorem w14b_objrun_cons (o : Obj) (op : HOp) (r : List HOp) :
    (o.run (op :: r)).1 = ((o.step op).1.run r).1 := rfl
end Helpers

/-- **the function stored at index `i` after a history is the fold of exactly the `layer` calls addressed to
`i`, applied to the function it had at the start** – creating operations, queries and every operation on
another object are irrelevant.  (`layerF` is `Stairs.layer` guarded by the early return.) -/
theorem object_is_fold_of_its_layers (w : World) (ops : List WOp) (i : Nat) (hi : i < w.length) :
    ((w.run ops)[i]?).map (·.f) = (w[i]?).map (fun o => (layersOn i ops).foldl layerF o.f) := by
  induction ops generalizing w with
  | nil => rfl
  | cons op r ih =>
    have hlen : i < (w.step op).length := Nat.lt_of_lt_of_le hi (C13.step_length_le w op)
    simp only [World.run, List.foldl_cons]
    have := ih (w.step op) hlen
    simp only [World.run] at this
    rw [this]
    by_cases hl : ∃ j ts, op = .layer j ts
    · obtain ⟨j, ts, rfl⟩ := hl
      simp only [layersOn]
      by_cases hj : j = i
      · subst hj
        simp only [World.step, List.getElem?_modify, if_true, List.foldl_cons]
        cases w[j]? <;> simp [layer_f]
      · rw [if_neg hj, C13.layer_only_changes_receiver w j ts i (Ne.symm hj)]
    · have hnl : ∀ j ts, op ≠ .layer j ts := fun j ts h => hl ⟨j, ts, h⟩
      have hlo : layersOn i (op :: r) = layersOn i r := by
        cases op <;> first | rfl | exact absurd rfl (hnl _ _)
      rw [hlo]
      exact w14b_map_f _ _ (C13.nonlayer_keeps_functions w op hnl i hi)
        (fun f => List.foldl layerF f (layersOn i r))

/-- the same for an object created inside the history: it is the fold of the later `layer` calls addressed to
it, applied to its creation value -/
theorem created_object_is_fold_of_its_layers (w : World) (pre post : List WOp) (c : WOp) (r : Stairs Rat)
    (hc : receiver c = none) (hr : (w.run pre).compute c = some (.ok r)) :
    ((w.run (pre ++ c :: post))[(w.run pre).length]?).map (·.f)
      = some ((layersOn (w.run pre).length post).foldl layerF r) := by
  have hnl : ∀ i ts, c ≠ .layer i ts := fun i ts h => by subst h; cases hc
  have hnq : ∀ i q, c ≠ .query i q := fun i q h => by subst h; cases hc
  have hs := (C13.result_is_fresh (w.run pre) c r hnl hnq hr).1
  rw [run_append]
  show (((w.run pre).step c).run post)[(w.run pre).length]?.map (·.f) = _
  rw [object_is_fold_of_its_layers _ post _ (by rw [hs]; simp), hs]
  simp [fresh]

/-- **every object of every reachable world** is an initial one or was created by a successful creating
operation of the history (and then the previous theorem describes it) -/
theorem every_object_has_an_origin (w : World) (ops : List WOp) (k : Nat) (hk : k < (w.run ops).length) :
    k < w.length ∨ ∃ pre c post r, ops = pre ++ c :: post ∧ receiver c = none ∧
      (w.run pre).compute c = some (.ok r) ∧ (w.run pre).length = k := by
  induction ops generalizing w with
  | nil => exact Or.inl hk
  | cons op rest ih =>
    simp only [World.run, List.foldl_cons] at hk
    rcases ih (w.step op) hk with h | ⟨pre, c, post, r, h1, h2, h3, h4⟩
    · by_cases hlt : k < w.length
      · exact Or.inl hlt
      · right
        have hl := (step_length w op).1
        cases hr : receiver op with
        | some j =>
          exfalso
          cases op with
          | layer i ts => rw [layer_keeps_length] at h; exact hlt h
          | query i q => rw [query_keeps_length] at h; exact hlt h
          | _ => cases hr
        | none =>
          have hs := w14b_stepO_creating w op hr
          cases hx : computeFn w.fn op with
          | none => rw [← stepO_fst, hs, hx] at h; exact absurd h hlt
          | some x =>
            cases x with
            | error e => rw [← stepO_fst, hs, hx] at h; exact absurd h hlt
            | ok r =>
              rw [← stepO_fst, hs, hx] at h
              simp only [List.length_append, List.length_cons, List.length_nil] at h
              exact ⟨[], op, rest, r, rfl, hr, by simpa [World.run, compute_eq_computeFn] using hx,
                by simp only [World.run, List.foldl_nil]; omega⟩
    · exact Or.inr ⟨op :: pre, c, post, r, by rw [h1]; rfl, h2, by simpa [World.run] using h3,
        by simpa [World.run] using h4⟩

/-- **an object – function *and* caches – depends only on the operations addressed to it**: the world
behaves like a map from object numbers to independent single-object histories (`Obj.run` of C14) -/
theorem object_depends_only_on_its_ops (w : World) (ops : List WOp) (i : Nat) (hi : i < w.length) :
    (w.run ops)[i]? = (w[i]?).map (fun o => (o.run (opsOn i ops)).1) := by
  induction ops generalizing w with
  | nil => simp [World.run, opsOn, Obj.run]
  | cons op r ih =>
    have hlen : i < (w.step op).length := Nat.lt_of_lt_of_le hi (C13.step_length_le w op)
    simp only [World.run, List.foldl_cons]
    have := ih (w.step op) hlen
    simp only [World.run] at this
    rw [this]
    cases hr : receiver op with
    | none =>
      have h1 : ∀ j ts, op ≠ .layer j ts := fun j ts h => by subst h; cases hr
      have h2 : ∀ j q, op ≠ .query j q := fun j q h => by subst h; cases hr
      have ho : opsOn i (op :: r) = opsOn i r := by cases op <;> first | rfl | cases hr
      rw [ho, C13.creating_keeps_objects w op h1 h2 i hi]
    | some j' =>
      cases op with
      | layer j ts =>
        simp only [opsOn]
        by_cases hj : j = i
        · subst hj
          simp only [World.step, List.getElem?_modify, if_true]
          cases w[j]? <;> rfl
        · rw [if_neg hj, C13.layer_only_changes_receiver w j ts i (Ne.symm hj)]
      | query j q =>
        simp only [opsOn]
        by_cases hj : j = i
        · subst hj
          simp only [World.step, List.getElem?_modify, if_true]
          cases w[j]? <;> rfl
        · simp only [World.step, List.getElem?_modify, if_neg hj]
          cases w[i]? <;> rfl
      | _ => cases hr

/-! non-vacuity -/
def hist₃ : List WOp :=
  [.layer 0 [⟨some 1, none, 2⟩], .copy 0, .query 0 .mean, .layer 1 [⟨none, none, 5⟩], .layer 0 [⟨none, some 2, 1⟩],
   .layer 3 [⟨some 0, some 1, 1⟩], .query 3 .max, .layer 2 [⟨none, none, 1⟩]]
example : layersOn 0 hist₃ = [[⟨some 1, none, 2⟩], [⟨none, some 2, 1⟩]] ∧
    opsOn 3 hist₃ = [.layer [⟨some 0, some 1, 1⟩], .query .max] ∧
    (w₂.run hist₃).length = 4 ∧
    ((w₂.run hist₃)[0]?).map (·.f) = some ((layersOn 0 hist₃).foldl layerF a₁) ∧
    ((w₂.run hist₃)[3]?).map (·.f) = some ((layersOn 3 (hist₃.drop 2)).foldl layerF (layerF a₁ [⟨some 1, none, 2⟩])) ∧
    ((w₂.run hist₃)[2]?).map (·.f) = some b₁ := by
  decide +kernel

/-! ## 4. when exactly is a cache filled?

A `layer` call on a receiver whose current function is `f` is **effective** iff `¬ allUndefined f`: only then
does it run past the early return, update the function and reset the caches (for an all-undefined receiver it
changes nothing at all – `layerF_ineffective`).  `noEffLayer f ops` says that no `layer` call of the
single-object history `ops`, started at function `f`, is effective. -/

/-- no `layer` call in `ops` is effective when the history starts at function `f` -/
def noEffLayer (f : Stairs Rat) : List HOp → Bool
  | [] => true
  | .layer ts :: r => allUndefined f && noEffLayer (layerF f ts) r
  | .query _ :: r => noEffLayer f r

/-- an ineffective `layer` call changes nothing: neither function nor caches -/
theorem layer_ineffective (o : Obj) (ts : List (Triple Rat)) (h : allUndefined o.f = true) : o.layer ts = o := by
  unfold Obj.layer; rw [if_pos h]

theorem layerF_ineffective (f : Stairs Rat) (ts : List (Triple Rat)) (h : allUndefined f = true) :
    layerF f ts = f := by
  unfold layerF; rw [if_pos h]

/-- an effective `layer` call empties both caches -/
theorem layer_effective (o : Obj) (ts : List (Triple Rat)) (h : allUndefined o.f = false) :
    (o.layer ts).im = none ∧ (o.layer ts).dist = none := by
  unfold Obj.layer; rw [h]; exact ⟨rfl, rfl⟩

/-- `noEffLayer` in words: every `layer` call of the history meets an all-undefined receiver -/
theorem noEffLayer_iff (f : Stairs Rat) (ops : List HOp) :
    noEffLayer f ops = true ↔
      ∀ pre ts post, ops = pre ++ .layer ts :: post → allUndefined (specFinal f pre) = true := by
  induction ops generalizing f with
  | nil => exact ⟨fun _ pre ts post h => (by cases pre <;> cases h), fun _ => rfl⟩
  | cons op r ih =>
    cases op with
    | layer ts =>
      simp only [noEffLayer, Bool.and_eq_true, ih]
      constructor
      · rintro ⟨h1, h2⟩ pre ts' post he
        cases pre with
        | nil => exact h1
        | cons x pre' =>
          injection he with hx hr; subst hx
          exact h2 pre' ts' post hr
      · intro h
        exact ⟨h [] ts r rfl, fun pre ts' post he => h (.layer ts :: pre) ts' post (by rw [he]; rfl)⟩
    | query q =>
      simp only [noEffLayer, ih]
      constructor
      · intro h pre ts' post he
        cases pre with
        | nil => cases he
        | cons x pre' =>
          injection he with hx hr; subst hx
          exact h pre' ts' post hr
      · intro h pre ts' post he
        exact h (.query q :: pre) ts' post (by rw [he]; rfl)

/-- state machine for one cache: `b` = filled now, `f` = current function, `needs` = which queries fill it -/
def filledAfter (needs : Query → Bool) (b : Bool) (f : Stairs Rat) : List HOp → Bool
  | [] => b
  | .layer ts :: r => filledAfter needs (b && allUndefined f) (layerF f ts) r
  | .query q :: r => filledAfter needs (b || needs q) f r

section Helpers

theorem w14b_layer_im_isSome (o : Obj) (ts : List (Triple Rat)) :
    (o.layer ts).im.isSome = (o.im.isSome && allUndefined o.f) := by
  unfold Obj.layer; cases allUndefined o.f <;> simp

theorem w14b_layer_dist_isSome (o : Obj) (ts : List (Triple Rat)) :
    (o.layer ts).dist.isSome = (o.dist.isSome && allUndefined o.f) := by
  unfold Obj.layer; cases allUndefined o.f <;> simp

theorem w14b_query_im_isSome (o : Obj) (q : Query) :
    (o.query q).1.im.isSome = (o.im.isSome || needsIM q) := by
  rw [w14b_query_im]; cases needsIM q <;> simp

theorem w14b_query_dist_isSome (o : Obj) (q : Query) :
    (o.query q).1.dist.isSome = (o.dist.isSome || needsDist q) := by
  rw [w14b_query_dist]; cases needsDist q <;> simp

theorem w14b_im_filledAfter (o : Obj) (ops : List HOp) :
    (o.run ops).1.im.isSome = filledAfter needsIM o.im.isSome o.f ops := by
  induction ops generalizing o with
  | nil => rfl
  | cons op r ih =>
    rw [w14b_objrun_cons, ih]
    cases op with
    | layer ts => simp only [Obj.step, filledAfter, w14b_layer_im_isSome, layer_f]
    | query q => simp only [Obj.step, filledAfter, w14b_query_im_isSome, query_keeps_function]

theorem w14b_dist_filledAfter (o : Obj) (ops : List HOp) :
    (o.run ops).1.dist.isSome = filledAfter needsDist o.dist.isSome o.f ops := by
  induction ops generalizing o with
  | nil => rfl
  | cons op r ih =>
    rw [w14b_objrun_cons, ih]
    cases op with
    | layer ts => simp only [Obj.step, filledAfter, w14b_layer_dist_isSome, layer_f]
    | query q => simp only [Obj.step, filledAfter, w14b_query_dist_isSome, query_keeps_function]

/-- the state machine in closed form -/
theorem w14b_filledAfter_iff (needs : Query → Bool) (b : Bool) (f : Stairs Rat) (ops : List HOp) :
    filledAfter needs b f ops = true ↔
      (b = true ∧ noEffLayer f ops = true) ∨
      ∃ pre q post, ops = pre ++ .query q :: post ∧ needs q = true ∧
        noEffLayer (specFinal f pre) post = true := by
  induction ops generalizing b f with
  | nil =>
    simp only [filledAfter, noEffLayer, and_true]
    constructor
    · exact Or.inl
    · rintro (h | ⟨pre, q, post, he, _⟩)
      · exact h
      · cases pre <;> cases he
  | cons op r ih =>
    cases op with
    | layer ts =>
      simp only [filledAfter, ih, noEffLayer, Bool.and_eq_true]
      constructor
      · rintro (⟨⟨h1, h2⟩, h3⟩ | ⟨pre, q, post, he, hq, hn⟩)
        · exact Or.inl ⟨h1, h2, h3⟩
        · exact Or.inr ⟨.layer ts :: pre, q, post, by rw [he]; rfl, hq, hn⟩
      · rintro (⟨h1, h2, h3⟩ | ⟨pre, q, post, he, hq, hn⟩)
        · exact Or.inl ⟨⟨h1, h2⟩, h3⟩
        · cases pre with
          | nil => cases he
          | cons x pre' =>
            injection he with hx hr; subst hx
            exact Or.inr ⟨pre', q, post, hr, hq, hn⟩
    | query q =>
      simp only [filledAfter, ih, noEffLayer, Bool.or_eq_true]
      constructor
      · rintro (⟨h1 | h1, h2⟩ | ⟨pre, q', post, he, hq, hn⟩)
        · exact Or.inl ⟨h1, h2⟩
        · exact Or.inr ⟨[], q, r, rfl, h1, h2⟩
        · exact Or.inr ⟨.query q :: pre, q', post, by rw [he]; rfl, hq, hn⟩
      · rintro (⟨h1, h2⟩ | ⟨pre, q', post, he, hq, hn⟩)
        · exact Or.inl ⟨Or.inl h1, h2⟩
        · cases pre with
          | nil =>
            injection he with hx hr; injection hx with hx; subst hx; subst hr
            exact Or.inl ⟨Or.inr hq, hn⟩
          | cons x pre' =>
            injection he with hx hr; subst hx
            exact Or.inr ⟨pre', q', post, hr, hq, hn⟩

end Helpers

/-- the function part of `run_spec` needs no invariant -/
theorem run_function (o : Obj) (ops : List HOp) : (o.run ops).1.f = specFinal o.f ops := by
  induction ops generalizing o with
  | nil => rfl
  | cons op r ih =>
    rw [w14b_objrun_cons, ih]
    cases op with
    | layer ts => simp only [Obj.step, specFinal, layer_f]
    | query q => simp only [Obj.step, specFinal, query_keeps_function]

/-- **the (integral, mean) cache after a history is filled iff** either it was filled at the start and no
`layer` call of the history was effective, or some query that fills it (`integral`, `mean`, `var`) was made
and no `layer` call after that query was effective -/
theorem im_cache_filled_iff (o : Obj) (ops : List HOp) :
    (o.run ops).1.im.isSome = true ↔
      (o.im.isSome = true ∧ noEffLayer o.f ops = true) ∨
      ∃ pre q post, ops = pre ++ .query q :: post ∧ needsIM q = true ∧
        noEffLayer (specFinal o.f pre) post = true := by
  rw [w14b_im_filledAfter]; exact w14b_filledAfter_iff _ _ _ _

/-- the same for the distribution cache (filled by `var`, `median`, `percentile`, `fractile`, `ecdf`) -/
theorem dist_cache_filled_iff (o : Obj) (ops : List HOp) :
    (o.run ops).1.dist.isSome = true ↔
      (o.dist.isSome = true ∧ noEffLayer o.f ops = true) ∨
      ∃ pre q post, ops = pre ++ .query q :: post ∧ needsDist q = true ∧
        noEffLayer (specFinal o.f pre) post = true := by
  rw [w14b_dist_filledAfter]; exact w14b_filledAfter_iff _ _ _ _

/-- **full description of both caches after a history** (for an object satisfying the invariant, e.g. a fresh
one): filled exactly under the condition above, and then holding the statistics of the *current* function -/
theorem cache_state (o : Obj) (ops : List HOp) (h : CacheInv o) :
    (o.run ops).1.im = (if filledAfter needsIM o.im.isSome o.f ops
      then some (integral (specFinal o.f ops), mean (specFinal o.f ops)) else none) ∧
    (o.run ops).1.dist = (if filledAfter needsDist o.dist.isSome o.f ops
      then some (cumShares (specFinal o.f ops)) else none) := by
  obtain ⟨_, hf, hinv⟩ := run_spec o ops h
  rw [← w14b_im_filledAfter, ← w14b_dist_filledAfter, ← hf]
  constructor
  · rcases hinv.1 with h1 | h1 <;> rw [h1] <;> rfl
  · rcases hinv.2 with h1 | h1 <;> rw [h1] <;> rfl

/-- for a freshly created object: the cache is filled iff a filling query came after the last effective
`layer` -/
theorem fresh_im_cache_filled_iff (f : Stairs Rat) (ops : List HOp) :
    ((fresh f).run ops).1.im = some (integral (specFinal f ops), mean (specFinal f ops)) ↔
      ∃ pre q post, ops = pre ++ .query q :: post ∧ needsIM q = true ∧
        noEffLayer (specFinal f pre) post = true := by
  have hc : ((fresh f).run ops).1.im = if filledAfter needsIM false f ops
      then some (integral (specFinal f ops), mean (specFinal f ops)) else none :=
    (cache_state (fresh f) ops (fresh_inv f)).1
  have hi := im_cache_filled_iff (fresh f) ops
  have hfalse : (fresh f).im.isSome = false := rfl
  simp only [hfalse, Bool.false_eq_true, false_and, false_or] at hi
  refine Iff.trans ?_ hi
  constructor
  · intro h; rw [h]; rfl
  · intro h
    rw [w14b_im_filledAfter] at h
    rw [hc, show filledAfter needsIM false f ops = true from h]; rfl

/-- the world-level statement: the caches of object `i` after a world history are those of the single-object
history `opsOn i ops` (by `object_depends_only_on_its_ops`), hence filled iff … -/
theorem world_im_cache_filled_iff (w : World) (ops : List WOp) (i : Nat) (o : Obj) (hw : w[i]? = some o) :
    ∃ o', (w.run ops)[i]? = some o' ∧ o'.f = specFinal o.f (opsOn i ops) ∧
      (o'.im.isSome = true ↔
        (o.im.isSome = true ∧ noEffLayer o.f (opsOn i ops) = true) ∨
        ∃ pre q post, opsOn i ops = pre ++ .query q :: post ∧ needsIM q = true ∧
          noEffLayer (specFinal o.f pre) post = true) ∧
      (o'.dist.isSome = true ↔
        (o.dist.isSome = true ∧ noEffLayer o.f (opsOn i ops) = true) ∨
        ∃ pre q post, opsOn i ops = pre ++ .query q :: post ∧ needsDist q = true ∧
          noEffLayer (specFinal o.f pre) post = true) := by
  have hi : i < w.length := (List.getElem?_eq_some_iff.1 hw).1
  refine ⟨(o.run (opsOn i ops)).1, ?_, run_function o _, im_cache_filled_iff o _, dist_cache_filled_iff o _⟩
  rw [object_depends_only_on_its_ops w ops i hi, hw]; rfl

/-- and whenever filled, a cache of a reachable world holds the statistics of the current function -/
theorem world_cache_values (w : World) (ops : List WOp) (h : WInv w) : WInv (w.run ops) := by
  rw [← runO_fst]; exact (run_refines_pure w ops h).2.2

/-! For **canonical** objects effectiveness does not depend on the moment: a somewhere-defined canonical
receiver stays somewhere defined and canonical under `layer` (`w14b_layer_stays_defined`), so *every* `layer`
call on it is effective; an all-undefined receiver stays all-undefined, so *no* `layer` call on it is. -/

def isQuery : HOp → Bool
  | .query _ => true
  | .layer _ => false

theorem noEffLayer_of_allUndefined (f : Stairs Rat) (ops : List HOp) (h : allUndefined f = true) :
    noEffLayer f ops = true := by
  induction ops with
  | nil => rfl
  | cons op r ih =>
    cases op with
    | layer ts => simp only [noEffLayer, h, layerF_ineffective f ts h, ih, Bool.and_self]
    | query q => exact ih

theorem specFinal_defined (f : Stairs Rat) (ops : List HOp) (hf : f.Canonical) (h : allUndefined f = false) :
    (specFinal f ops).Canonical ∧ allUndefined (specFinal f ops) = false := by
  induction ops generalizing f with
  | nil => exact ⟨hf, h⟩
  | cons op r ih =>
    cases op with
    | layer ts =>
      have e : layerF f ts = Stairs.layer f ts := by unfold layerF; rw [h]; rfl
      simp only [specFinal, e]
      exact ih _ (canonical_layer_of_canonical f ts hf) (w14b_layer_stays_defined f ts hf h)
    | query q => exact ih f hf h

theorem noEffLayer_defined (f : Stairs Rat) (ops : List HOp) (h : allUndefined f = false) :
    noEffLayer f ops = ops.all isQuery := by
  induction ops with
  | nil => rfl
  | cons op r ih =>
    cases op with
    | layer ts => simp only [noEffLayer, h, Bool.false_and, List.all_cons, isQuery]
    | query q => simp only [noEffLayer, ih, List.all_cons, isQuery, Bool.true_and]

/-- **canonical, somewhere-defined object, created fresh**: its (integral, mean) cache is filled iff an
`integral` / `mean` / `var` query was made after the last `layer` call (any `layer` call) -/
theorem canonical_im_cache_filled_iff (f : Stairs Rat) (ops : List HOp) (hf : f.Canonical)
    (h : allUndefined f = false) :
    ((fresh f).run ops).1.im.isSome = true ↔
      ∃ pre q post, ops = pre ++ .query q :: post ∧ needsIM q = true ∧ post.all isQuery = true := by
  rw [im_cache_filled_iff]
  have hfalse : (fresh f).im.isSome = false := rfl
  simp only [hfalse, Bool.false_eq_true, false_and, false_or]
  constructor
  · rintro ⟨pre, q, post, he, hq, hn⟩
    change noEffLayer (specFinal f pre) post = true at hn
    rw [noEffLayer_defined _ _ (specFinal_defined f pre hf h).2] at hn
    exact ⟨pre, q, post, he, hq, hn⟩
  · rintro ⟨pre, q, post, he, hq, hn⟩
    refine ⟨pre, q, post, he, hq, ?_⟩
    show noEffLayer (specFinal f pre) post = true
    rw [noEffLayer_defined _ _ (specFinal_defined f pre hf h).2]; exact hn

example : a₁.Canonical ∧ allUndefined a₁ = false ∧ b₁.Canonical ∧ allUndefined b₁ = true := by decide +kernel

/-- **all-undefined object**: a cache once filled is never emptied again -/
theorem allUndefined_im_cache_filled_iff (f : Stairs Rat) (ops : List HOp) (h : allUndefined f = true) :
    ((fresh f).run ops).1.im.isSome = true ↔ ∃ q ∈ ops.filterMap (fun | .query q => some q | _ => none),
      needsIM q = true := by
  have hsf : ∀ pre, specFinal f pre = f := by
    intro pre
    induction pre with
    | nil => rfl
    | cons op r ih => cases op with
      | layer ts => simp only [specFinal, layerF_ineffective f ts h, ih]
      | query q => exact ih
  rw [im_cache_filled_iff]
  have hfalse : (fresh f).im.isSome = false := rfl
  simp only [hfalse, Bool.false_eq_true, false_and, false_or]
  constructor
  · rintro ⟨pre, q, post, he, hq, _⟩
    exact ⟨q, by rw [he]; simp [List.filterMap_append], hq⟩
  · rintro ⟨q, hm, hq⟩
    obtain ⟨op, hop, hopq⟩ := List.mem_filterMap.1 hm
    cases op with
    | layer ts => cases hopq
    | query q' =>
      injection hopq with hopq; subst hopq
      obtain ⟨pre, post, he⟩ := List.append_of_mem hop
      exact ⟨pre, q', post, he, hq, noEffLayer_of_allUndefined _ _ (by rw [show (fresh f).f = f from rfl, hsf]; exact h)⟩

/-! "effective" really depends on the moment: a (non-canonical) receiver can *become* all-undefined, after
which every further `layer` is ineffective and a cache filled then survives them -/
def m₄ : Stairs Rat := ⟨none, [(0, none)], .left⟩
example : allUndefined m₄ = false ∧ allUndefined (layerF m₄ [⟨none, none, 1⟩]) = true := by decide +kernel
example : noEffLayer m₄ [.layer [⟨none, none, 1⟩]] = false ∧
    noEffLayer (layerF m₄ [⟨none, none, 1⟩]) [.layer [⟨none, none, 1⟩]] = true ∧
    ((fresh m₄).run [.layer [⟨none, none, 1⟩], .query .mean, .layer [⟨none, none, 1⟩]]).1.im.isSome = true := by
  decide +kernel
def hist₄ : List HOp :=
  [.query .mean, .layer [⟨some 0, some 2, 2⟩], .query .median, .layer [⟨some 0, some 2, 2⟩], .query .integral]
example : ((fresh a₁).run hist₄).1.im = some (some 12, some 3) ∧ ((fresh a₁).run hist₄).1.dist = none := by
  decide +kernel
example : ((fresh b₁).run hist₄).1.im.isSome = true ∧ ((fresh b₁).run hist₄).1.dist.isSome = true ∧
    noEffLayer b₁ hist₄ = true := by decide +kernel

/-! ## 5. a seeded defect: forgetting one reset on one branch breaks the refinement -/

/-- does the function have an undefined (masked) stretch? -/
def hasUndefined (f : Stairs Rat) : Bool := f.init.isNone || f.steps.any (·.2.isNone)

/-- **defective variant**: on the masked-receiver branch the (integral, mean) cache is not reset -/
def layerNoReset (o : Obj) (ts : List (Triple Rat)) : Obj :=
  if allUndefined o.f then o
  else if hasUndefined o.f then { f := Stairs.layer o.f ts, im := o.im, dist := none }
  else { f := Stairs.layer o.f ts, im := none, dist := none }

/-- the cached world with the defective `layer` -/
def stepBad (w : World) (op : WOp) : World × Out :=
  match op with
  | .layer i ts => (w.modify i (layerNoReset · ts), if i < w.length then .done else .badIndex)
  | op => stepO w op

def runBad (w : World) : List WOp → World × List Out
  | [] => (w, [])
  | op :: r => ((runBad (stepBad w op).1 r).1, (stepBad w op).2 :: (runBad (stepBad w op).1 r).2)

/-- a masked function: undefined on `[2, 3)` -/
def m₅ : Stairs Rat := ⟨some 0, [(0, some 1), (2, none), (3, some 1), (4, some 0)], .left⟩
def hist₅ : List WOp := [.new m₅, .query 0 .mean, .layer 0 [⟨some 0, some 2, 2⟩], .query 0 .mean]

/-- **the defective world is observably different from the cache-free semantics**: the second `mean` is served
from the stale cache (1 instead of 7/3) -/
theorem layerNoReset_refuted :
    (runBad [] hist₅).2 ≠ (runPure [] hist₅).2 ∧
    (runBad [] hist₅).2 = [.created 0, .answer [some 1], .done, .answer [some 1]] ∧
    (runPure [] hist₅).2 = [.created 0, .answer [some 1], .done, .answer [some (7/3)]] ∧
    (runO [] hist₅).2 = (runPure [] hist₅).2 := by decide +kernel

/-- the defect is the loss of the invariant -/
theorem layerNoReset_breaks_invariant :
    ¬ CacheInv (layerNoReset ((fresh m₅).query .mean).1 [⟨some 0, some 2, 2⟩]) := by
  unfold CacheInv; decide +kernel

/-- it is invisible on histories that never layer onto a masked receiver – only the seeded branch is wrong -/
example : (runBad [] hist₁).2 = (runPure [] hist₁).2 := by decide +kernel

end SC.Props.C14b
