import SCModel.Props.C12b
import SCModel.Props.C20
import SCModel.Props.Forms
import SCModel.Props.C17b
import SCModel.Lemmas.Views3b
import Mathlib.Order.Max
import Mathlib.Order.Basic
import Mathlib.Algebra.Order.Field.Rat
import Mathlib.Tactic.Linarith
/-!
# C03b — evaluation and views: round trips, `sample` vs `limit`, evaluation commutes with the pointwise
operations, finite sets of query points, and the structural views under each operation

Extends `Props/C03` (nothing here repeats a statement proved there, in `Props/Forms`, `Props/C12b`, `Props/C17b`
or `Props/C20`; those are used).  Helper lemmas on query points live in `Lemmas/Views3b`.

1. **views round trip.**  `fromValues` (= `from_values`: rows as given, then remove redundant step points) applied
   to `(initial_value, step_points, step_values, closed)` of ANY object gives its canonical form
   (`fromValues_views`), the identical object iff it is minimal (`fromValues_views_eq_iff`,
   `fromValues_views_canonical`).  The change-column constructor `fromChanges` on
   `(initial_value, step_points, step_changes)` returns the identical object for every canonical `f`, with or
   without undefined pieces (`fromChanges_views_canonical`, `…_noNa`), the canonical form whenever the first row is
   not "NaN after a NaN initial value" (`fromChanges_views`); the exact condition for the raw conversion is
   `fromDeltaForm_toDeltaForm_iff`: that proviso OR every row NaN (column form `v3b_roundtrip_col_iff`).
   `to_frame`: rows are consecutive (`toFrame_consecutive`), first starts at −∞ with the initial value, last ends
   at +∞ (`toFrame_ends`), bounded rows are non-degenerate (`toFrame_row_lt`), every point lies in a row whose
   value is the limit there – `[start, end)` for right limits, `(start, end]` for left limits (`toFrame_covers`,
   `toFrame_row_value`, `sample_reads_frame`), a row's value is the right limit at its start and the left limit at
   its end (`toFrame_value_is_right_limit`, `…_left_limit`); `ofFrame` inverts `toFrame` (`ofFrame_toFrame`), so
   same frame ⇔ `identical` (`toFrame_eq_iff_identical`), same frame and closed side ⇔ equal
   (`toFrame_closed_eq_iff`); the frame alone does not determine the object (`toFrame_not_injective`).
2. **`sample` vs `limit`.**  `sample = limit` on the sampling side (`sample_eq_limit`); left and right limit
   differ exactly at the step points of `canon f` (`limits_differ_iff`), off them all three evaluations agree and
   only there (`all_agree_off_canon_steps`, `all_agree_iff`, `sample_eq_closedSide_limit_iff`); changing only the
   closed side changes `sample` exactly at those points (`sample_withClosed_eq_iff`, `…_differ_iff`).
3. **evaluation commutes with the pointwise operations at the `sample` level.**  For EVERY successful checked
   two-operand operation, without assuming equal closed sides (`sample_combineChecked`, `closed_combineChecked`;
   `sample_binop`, `…_scalar_left/right`, `sample_mask`, `sample_where`, `sample_fillnaStairs`); for the unchecked
   path when each operand with steps is closed like the result (`sample_combine`) and NOT otherwise
   (`sample_combine_needs_closed`); unary maps (`sample_map`, `sample_unop`, `sample_fillnaScalar`, `sample_canon`);
   `clip` / `where((a,b))` / `mask((a,b))` with the window `lo ≤ x < hi` for left-closed and `lo < x ≤ hi` for
   right-closed functions (`sample_clip`, `sample_clip_left_closed`, `sample_clip_right_closed`,
   `sample_maskTuple`); shift (`sample_shift_closed`).
4. **vector evaluation and finite test sets.**  `sampleMany` is element-wise: order and duplicates are kept
   (`sampleMany_getElem`, `…_pos_indep`, `…_replicate`, `…_reindex`, `…_perm`).  One query point inside every open
   piece of the joint partition determines both one-sided limits everywhere – no well-formedness, no closed-side
   assumption (`den_eq_of_agree_on_probes`); with the step points as well, canonical functions are `identical`
   and closed alike unless constant (`identical_of_agree_on_probes`, `eq_of_agree_on_jointCriticalPoints`,
   `eq_of_agree_on_midpoints` on ℚ, `exists_finite_test_set` for every densely ordered set without endpoints).
   Closed alike: the step points of both plus ONE extreme point suffice, on any linear order
   (`den_eq_of_agree_on_steps_left/right`, `eq_of_agree_on_steps`), hence `criticalPoints f ∪ criticalPoints g`
   is a test set (`eq_of_agree_on_criticalPoints`) – which is FALSE for differently closed operands
   (`criticalPoints_union_insufficient`), and the step points alone never suffice (`steps_alone_insufficient`).
5. **views under the operations.**  `init_*`; `stepPoints_*_sub(list)`, `numberOfSteps_*_le`, the exact
   characterisations `mem_stepPoints_map_iff`, `mem_stepPoints_combine_iff`, `stepPoints_combine_sub_canon`;
   `stepValues_map`, `stepValues_combine`; injective unary operations keep the rows of a canonical function one
   for one (`map_of_injective`, `views_negate`, `numberOfSteps_negate`; counterexamples
   `numberOfSteps_negate_needs_canonical`, `numberOfSteps_invert_drops`); a scalar operand is the unary path
   (`combine_const_right`, `views_add_scalar`); `stepPoints_clip_sub`, `stepPoints_clip_within`,
   `numberOfSteps_clip_le`, `stepPoints_maskTuple_sub`; `views_shift`.
-/
set_option linter.unusedSectionVars false
namespace SC.Props.C03b
open SC SC.Stairs
variable {P : Type} [LinearOrder P]

/-! ## 1. rebuilding a function from its own views -/

/-- `Stairs.from_values(initial_value, Series(vals, index=pts), closed)`: the rows as given, then
`_remove_redundant_step_points` (this is what `World.compute (.new f)` does). -/
def fromValues (init : Val) (pts : List P) (vals : List Val) (cl : Side) : Stairs P :=
  canon ⟨init, pts.zip vals, cl⟩

/-- the constructor on the change column: `Stairs._new(initial_value, {"delta": Series(ds, index=pts)}, closed)`,
`_create_values`, `_remove_redundant_step_points` -/
def fromChanges (init : Val) (pts : List P) (ds : List Val) (cl : Side) : Stairs P :=
  canon (fromDeltaForm ⟨init, pts.zip ds, cl⟩)

/-- the data column of `step_changes` (the index is `stepPoints`) -/
def changeColumn (f : Stairs P) : List Val := (stepChanges f).map Prod.snd

section Helpers

theorem v3b_zip_views (f : Stairs P) : (stepPoints f).zip (stepValues f) = f.steps := zip_fst_snd f.steps

theorem v3b_changeColumn_eq (f : Stairs P) : changeColumn f = deltasFromVals f.init (stepValues f) := by
  unfold changeColumn stepChanges stepValues
  exact map_snd_recolumn f.steps _ (by rw [deltasFromVals_length, List.length_map])

theorem v3b_zip_changes (f : Stairs P) : (stepPoints f).zip (changeColumn f) = stepChanges f := by
  have h := zip_fst_snd (stepChanges f)
  rw [map_fst_stepChanges] at h
  exact h

theorem v3b_allNone_diffSkip (last : Val) (l : List Val) (h : ∀ v ∈ l, v = none) : diffSkip last l = l := by
  induction l with
  | nil => rfl
  | cons v r ih =>
    have hv : v = none := h v (by simp)
    subst hv
    simp [diffSkip, ih (fun w hw => h w (List.mem_cons_of_mem _ hw))]

theorem v3b_allNone_cumsumSkip (acc : Rat) (l : List Val) (h : ∀ v ∈ l, v = none) : cumsumSkip acc l = l := by
  induction l with
  | nil => rfl
  | cons v r ih =>
    have hv : v = none := h v (by simp)
    subst hv
    simp [cumsumSkip, ih (fun w hw => h w (List.mem_cons_of_mem _ hw))]

/-- with nothing defined before it, the first defined value is lost by changes → values -/
theorem v3b_cumsum_diff_none (acc : Rat) (l : List Val) :
    cumsumSkip acc (diffSkip none l) = l ↔ ∀ v ∈ l, v = none := by
  constructor
  · induction l with
    | nil => simp
    | cons v r ih =>
      intro h
      cases v with
      | none =>
        simp only [diffSkip, cumsumSkip, List.cons.injEq, true_and] at h
        intro w hw
        rcases List.mem_cons.mp hw with rfl | hw
        · rfl
        · exact ih h w hw
      | some q => simp [diffSkip, cumsumSkip] at h
  · intro h
    rw [v3b_allNone_diffSkip none l h, v3b_allNone_cumsumSkip acc l h]

/-- **the exact column statement**: values → changes → values is the identity iff the first row is not "NaN
after a NaN initial value", or else every row is NaN -/
theorem v3b_roundtrip_col_iff (init : Val) (vals : List Val) :
    valsFromDeltas init (deltasFromVals init vals) = vals ↔
      ((init = none → vals.head? ≠ some none) ∨ ∀ v ∈ vals, v = none) := by
  by_cases hk : init = none → vals.head? ≠ some none
  · exact ⟨fun _ => Or.inl hk, fun _ => valsFromDeltas_deltasFromVals init vals hk⟩
  · have hk' := hk
    simp only [Classical.not_imp, not_not] at hk'
    obtain ⟨hi, hh⟩ := hk'
    rw [or_iff_right hk]
    subst hi
    cases vals with
    | nil => simp at hh
    | cons v r =>
      simp only [List.head?_cons, Option.some.injEq] at hh
      subst hh
      have h1 : deltasFromVals none (none :: r) = none :: diffSkip none r := by
        simp [deltasFromVals, diffSkip]
      rw [h1, valsFromDeltas_eq]
      simp only [cumsumSkip, List.cons.injEq, true_and, List.mem_cons, forall_eq_or_imp]
      exact v3b_cumsum_diff_none _ r

theorem v3b_zip_right_inj {α β : Type} (l : List α) (a b : List β) (ha : a.length = l.length)
    (hb : b.length = l.length) : l.zip a = l.zip b ↔ a = b := by
  constructor
  · intro h
    have := congrArg (List.map Prod.snd) h
    rwa [List.map_snd_zip (by omega), List.map_snd_zip (by omega)] at this
  · rintro rfl; rfl

end Helpers

/-- **`from_values ∘ (initial_value, step_points, step_values)`** on any object: the canonical form -/
theorem fromValues_views (f : Stairs P) :
    fromValues f.init (stepPoints f) (stepValues f) f.closed = canon f := by
  unfold fromValues; rw [v3b_zip_views]

/-- … hence the identical object for a canonical (even: merely minimal) `f` -/
theorem fromValues_views_canonical (f : Stairs P) (hf : f.Canonical) :
    fromValues f.init (stepPoints f) (stepValues f) f.closed = f := by
  rw [fromValues_views, canon_of_minimal f hf.2]

/-- and only then: the round trip returns `f` itself exactly when `f` is minimal -/
theorem fromValues_views_eq_iff (f : Stairs P) :
    fromValues f.init (stepPoints f) (stepValues f) f.closed = f ↔ f.IsMinimal := by
  rw [fromValues_views]; exact C12b.canon_eq_self_iff f

/-- the rebuilt object is canonical and denotes the same function (both one-sided limits) -/
theorem fromValues_views_den (f : Stairs P) (hf : f.WF) :
    (fromValues f.init (stepPoints f) (stepValues f) f.closed).Canonical ∧
    ∀ st x, Den (fromValues f.init (stepPoints f) (stepValues f) f.closed) st x = Den f st x := by
  rw [fromValues_views]; exact ⟨canonical_canon f hf, fun st x => den_canon f hf st x⟩

example : C03.f₀.Canonical ∧
    fromValues C03.f₀.init (stepPoints C03.f₀) (stepValues C03.f₀) C03.f₀.closed = C03.f₀ := by decide +kernel

/-- **delta view, canonical NaN-free `f`**: rebuilding from `(initial_value, step_points, step_changes)`
gives the identical object -/
theorem fromChanges_views_noNa (f : Stairs P) (hf : f.Canonical) (hn : f.noNa = true) :
    fromChanges f.init (stepPoints f) (changeColumn f) f.closed = f := by
  unfold fromChanges
  rw [v3b_zip_changes]
  show canon (fromDeltaForm (toDeltaForm f)) = f
  rw [Forms.fromDeltaForm_toDeltaForm_noNa f hn, canon_of_minimal f hf.2]

/-- … for an everywhere-defined `f` the change column is the list of plain successive differences -/
theorem changeColumn_defined (f : Stairs P) (a : Rat) (vals : List Rat) (hi : f.init = some a)
    (hv : stepValues f = vals.map some) : changeColumn f = (changesFrom a vals).map some := by
  rw [v3b_changeColumn_eq, hi, hv, Forms.deltas_defined]

/-- **delta view with undefined pieces, canonical `f`** (undefined values allowed, also an undefined initial
value): still the identical object -/
theorem fromChanges_views_canonical (f : Stairs P) (hf : f.Canonical) :
    fromChanges f.init (stepPoints f) (changeColumn f) f.closed = f := by
  unfold fromChanges
  rw [v3b_zip_changes]
  show canon (fromDeltaForm (toDeltaForm f)) = f
  rw [Forms.fromDeltaForm_toDeltaForm f hf.2, canon_of_minimal f hf.2]

/-- … and for arbitrary rows without the "NaN after a NaN initial value" first row: the canonical form -/
theorem fromChanges_views (f : Stairs P) (h : HeadOk f.init f.steps) :
    fromChanges f.init (stepPoints f) (changeColumn f) f.closed = canon f := by
  unfold fromChanges
  rw [v3b_zip_changes]
  show canon ((toDeltaForm f).toValueForm) = canon f
  rw [toValueForm_toDeltaForm f h]

/-- **the exact statement for arbitrary rows**: values → changes → values returns the same object iff the
first row is not "NaN after a NaN initial value", or else nothing at all is defined (every row NaN) -/
theorem fromDeltaForm_toDeltaForm_iff (f : Stairs P) :
    fromDeltaForm (toDeltaForm f) = f ↔
      (HeadOk f.init f.steps ∨ ∀ v ∈ stepValues f, v = none) := by
  have hL : fromDeltaForm (toDeltaForm f) =
      ⟨f.init, (stepPoints f).zip (valsFromDeltas f.init (deltasFromVals f.init (stepValues f))), f.closed⟩ := by
    show (⟨f.init, recolumn (recolumn f.steps (deltasFromVals f.init)) (valsFromDeltas f.init), f.closed⟩ :
      Stairs P) = _
    rw [recolumn_recolumn _ _ _ (by rw [deltasFromVals_length, List.length_map])]; rfl
  have hR : f = ⟨f.init, (stepPoints f).zip (stepValues f), f.closed⟩ := by rw [v3b_zip_views]
  rw [hL]
  conv_lhs => rhs; rw [hR]
  simp only [Stairs.mk.injEq, true_and, and_true]
  rw [v3b_zip_right_inj _ _ _ (by simp [valsFromDeltas_length, deltasFromVals_length, stepValues, stepPoints])
    (by simp [stepValues, stepPoints])]
  exact v3b_roundtrip_col_iff f.init (stepValues f)

/-- view-level form of the exact statement -/
theorem fromChanges_views_iff (f : Stairs P) :
    fromDeltaForm ⟨f.init, (stepPoints f).zip (changeColumn f), f.closed⟩ = f ↔
      (HeadOk f.init f.steps ∨ ∀ v ∈ stepValues f, v = none) := by
  rw [v3b_zip_changes]; exact fromDeltaForm_toDeltaForm_iff f


/-- the round trip through the views, as data: a canonical function with undefined pieces and an undefined
initial value -/
example : Forms.h₀.Canonical ∧ Forms.h₀.noNa = false ∧
    fromChanges Forms.h₀.init (stepPoints Forms.h₀) (changeColumn Forms.h₀) Forms.h₀.closed = Forms.h₀ := by
  decide +kernel
example : Forms.g₀.Canonical ∧ Forms.g₀.noNa = true ∧
    fromChanges Forms.g₀.init (stepPoints Forms.g₀) (changeColumn Forms.g₀) Forms.g₀.closed = Forms.g₀ := by
  decide +kernel

/-- the excluded rows (not canonical): NaN initial value, NaN first row, something defined later -/
def bad₀ : Stairs Int := ⟨none, [(0, none), (1, some 3), (2, some 5)], .left⟩
/-- … and all rows NaN: the round trip is the identity although the first row is "NaN after NaN" -/
def nan₀ : Stairs Int := ⟨none, [(0, none), (1, none)], .left⟩
example : ¬ HeadOk bad₀.init bad₀.steps ∧ fromDeltaForm (toDeltaForm bad₀) ≠ bad₀ ∧
    fromChanges bad₀.init (stepPoints bad₀) (changeColumn bad₀) bad₀.closed ≠ canon bad₀ := by
  refine ⟨fun h => absurd (h rfl) (by decide +kernel), by decide +kernel, by decide +kernel⟩
example : ¬ HeadOk nan₀.init nan₀.steps ∧ fromDeltaForm (toDeltaForm nan₀) = nan₀ := by
  refine ⟨fun h => absurd (h rfl) (by decide +kernel), by decide +kernel⟩

/-! ### `to_frame` -/

/-- read a frame back: the value of the first row, and `(start, value)` of every later row -/
def ofFrame : List (FrameRow P) → Val × List (P × Val)
  | [] => (none, [])
  | (_, _, v) :: rows => (v, rows.filterMap fun r => r.1.map fun p => (p, r.2.2))

section Helpers

theorem v3b_rowsBack_frameFrom (p : P) (w : Val) (r : List (P × Val)) :
    (frameFrom (some p) w r).filterMap (fun row => row.1.map fun q => (q, row.2.2)) = (p, w) :: r := by
  induction r generalizing p w with
  | nil => rfl
  | cons qv r ih => obtain ⟨q, v⟩ := qv; simp [frameFrom, ih]

theorem v3b_frameFrom_ne_nil (start : Option P) (v : Val) (s : List (P × Val)) : frameFrom start v s ≠ [] := by
  cases s with
  | nil => simp [frameFrom]
  | cons pv r => obtain ⟨p, w⟩ := pv; simp [frameFrom]

theorem v3b_frameFrom_head (start : Option P) (v : Val) (s : List (P × Val)) :
    ((frameFrom start v s).head (v3b_frameFrom_ne_nil start v s)).1 = start ∧
    ((frameFrom start v s).head (v3b_frameFrom_ne_nil start v s)).2.2 = v := by
  cases s with
  | nil => simp [frameFrom]
  | cons pv r => obtain ⟨p, w⟩ := pv; simp [frameFrom]

theorem v3b_frameFrom_getLast (start : Option P) (v : Val) (s : List (P × Val)) :
    ((frameFrom start v s).getLast (v3b_frameFrom_ne_nil start v s)).2.1 = none := by
  induction s generalizing start v with
  | nil => simp [frameFrom]
  | cons pv r ih =>
    obtain ⟨p, w⟩ := pv
    simp only [frameFrom]
    rw [List.getLast_cons (v3b_frameFrom_ne_nil _ _ _)]
    exact ih _ _

theorem v3b_frameFrom_consecutive (start : Option P) (v : Val) (s : List (P × Val)) (i : Nat)
    (h : i + 1 < (frameFrom start v s).length) :
    ((frameFrom start v s)[i]'(by omega)).2.1 = ((frameFrom start v s)[i + 1]'h).1 := by
  induction s generalizing start v i with
  | nil => simp [frameFrom] at h
  | cons pv r ih =>
    obtain ⟨p, w⟩ := pv
    cases i with
    | zero =>
      simp only [frameFrom, List.getElem_cons_zero, List.getElem_cons_succ]
      rw [← List.head_eq_getElem (v3b_frameFrom_ne_nil _ _ _)]
      exact (v3b_frameFrom_head (some p) w r).1.symm
    | succ j =>
      simp only [frameFrom, List.getElem_cons_succ]
      exact ih (some p) w j (by simpa [frameFrom] using h)

/-- the walk of `lim` ends in a row of the frame: the row whose window contains `x` -/
theorem v3b_frame_exists (st : Bool) (x : P) (start : Option P) (v : Val) (s : List (P × Val))
    (hs : ∀ a, start = some a → reached st a x = true) :
    ∃ r ∈ frameFrom start v s, inWindow st r.1 r.2.1 x = true ∧ r.2.2 = lim st v s x := by
  induction s generalizing start v with
  | nil =>
    refine ⟨(start, none, v), by simp [frameFrom], ?_, rfl⟩
    cases start with
    | none => simp [inWindow]
    | some a => simp [inWindow, hs a rfl]
  | cons pv r ih =>
    obtain ⟨p, w⟩ := pv
    by_cases hp : reached st p x = true
    · obtain ⟨row, hmem, hw, hv⟩ := ih (some p) w (fun a ha => by cases ha; exact hp)
      exact ⟨row, by simp [frameFrom, hmem], hw, by rw [hv, lim_cons, if_pos hp]⟩
    · refine ⟨(start, some p, v), by simp [frameFrom], ?_, by rw [lim_cons, if_neg hp]⟩
      cases start with
      | none => simp [inWindow, hp]
      | some a => simp [inWindow, hs a rfl, hp]

theorem v3b_frame_starts_mem (start : Option P) (v : Val) (s : List (P × Val)) (row : FrameRow P)
    (h : row ∈ frameFrom start v s) : row.1 = start ∨ ∃ q ∈ s.map Prod.fst, row.1 = some q := by
  have h1 : row.1 ∈ (frameFrom start v s).map (·.1) := List.mem_map_of_mem h
  rw [C03.frameFrom_starts] at h1
  rcases List.mem_cons.mp h1 with h2 | h2
  · exact Or.inl h2
  · right
    obtain ⟨pv, hpv, he⟩ := List.mem_map.mp h2
    exact ⟨pv.1, List.mem_map_of_mem hpv, he.symm⟩

/-- for sorted rows: whichever row's window contains `x`, its value is the limit there -/
theorem v3b_frame_value (st : Bool) (x : P) (start : Option P) (v : Val) (s : List (P × Val))
    (hs : Sorted s) (row : FrameRow P) (hmem : row ∈ frameFrom start v s)
    (hw : inWindow st row.1 row.2.1 x = true) : lim st v s x = row.2.2 := by
  induction s generalizing start v with
  | nil =>
    simp only [frameFrom, List.mem_singleton] at hmem
    subst hmem; rfl
  | cons pv r ih =>
    obtain ⟨p, w⟩ := pv
    have hr := sorted_tail hs
    simp only [frameFrom, List.mem_cons] at hmem
    rcases hmem with hmem | hmem
    · subst hmem
      have : reached st p x = false := by
        simp only [inWindow, Bool.and_eq_true, Bool.not_eq_true'] at hw
        exact hw.2
      rw [lim_cons, this]; rfl
    · have hp : reached st p x = true := by
        rcases v3b_frame_starts_mem _ _ _ _ hmem with h1 | ⟨q, hq, h1⟩
        · simp only [inWindow, h1, Bool.and_eq_true] at hw; exact hw.1
        · simp only [inWindow, h1, Bool.and_eq_true] at hw
          exact reached_mono (hr.2 q hq) hw.1
      rw [lim_cons, if_pos hp]
      exact ih (some p) w hr.1 hmem

end Helpers

/-- **a function is determined by its `to_frame`** (initial value and rows; the frame does not show `closed`) -/
theorem ofFrame_toFrame (f : Stairs P) : ofFrame (toFrame f) = (f.init, f.steps) := by
  unfold toFrame
  cases hs : f.steps with
  | nil => rfl
  | cons pv r =>
    obtain ⟨p, w⟩ := pv
    simp only [frameFrom, ofFrame]
    rw [v3b_rowsBack_frameFrom]

theorem toFrame_injective (f g : Stairs P) (h : toFrame f = toFrame g) : f.init = g.init ∧ f.steps = g.steps := by
  have := congrArg ofFrame h
  rw [ofFrame_toFrame, ofFrame_toFrame] at this
  exact ⟨congrArg Prod.fst this, congrArg Prod.snd this⟩

/-- same frame ⇔ `identical` -/
theorem toFrame_eq_iff_identical (f g : Stairs P) : toFrame f = toFrame g ↔ identical f g = true := by
  rw [C12b.identical_iff_eq_upto_closed]
  constructor
  · intro h
    obtain ⟨h1, h2⟩ := toFrame_injective f g h
    cases f; cases g; simp_all
  · intro h; rw [h]; rfl

/-- same frame and same closed side ⇔ the same object -/
theorem toFrame_closed_eq_iff (f g : Stairs P) : (toFrame f = toFrame g ∧ f.closed = g.closed) ↔ f = g := by
  constructor
  · rintro ⟨h, hc⟩
    obtain ⟨h1, h2⟩ := toFrame_injective f g h
    cases f; cases g; simp_all
  · rintro rfl; exact ⟨rfl, rfl⟩

/-- the frame alone does not determine the object: the closed side is not in it -/
theorem toFrame_not_injective : ∃ f g : Stairs Int, f.Canonical ∧ g.Canonical ∧ toFrame f = toFrame g ∧ f ≠ g :=
  ⟨C12b.fL, C12b.fR, by decide +kernel, by decide +kernel, by decide +kernel, by decide +kernel⟩

/-- **rows are consecutive**: each row starts where the previous one ends -/
theorem toFrame_consecutive (f : Stairs P) (i : Nat) (h : i + 1 < (toFrame f).length) :
    ((toFrame f)[i]'(by omega)).2.1 = ((toFrame f)[i + 1]'h).1 :=
  v3b_frameFrom_consecutive none f.init f.steps i h

theorem toFrame_ne_nil (f : Stairs P) : toFrame f ≠ [] := v3b_frameFrom_ne_nil _ _ _

/-- **the first row starts at −∞ (and carries the initial value), the last row ends at +∞** -/
theorem toFrame_ends (f : Stairs P) :
    ((toFrame f).head (toFrame_ne_nil f)).1 = none ∧ ((toFrame f).head (toFrame_ne_nil f)).2.2 = f.init ∧
    ((toFrame f).getLast (toFrame_ne_nil f)).2.1 = none :=
  ⟨(v3b_frameFrom_head none f.init f.steps).1, (v3b_frameFrom_head none f.init f.steps).2,
    v3b_frameFrom_getLast none f.init f.steps⟩

/-- **every point lies in a row, and the row's value is the limit there**, for both one-sided limits: for the
right limit the row window is `start ≤ x < end`, for the left limit `start < x ≤ end` (`inWindow`) -/
theorem toFrame_covers (f : Stairs P) (st : Bool) (x : P) :
    ∃ r ∈ toFrame f, inWindow st r.1 r.2.1 x = true ∧ r.2.2 = Den f st x :=
  v3b_frame_exists st x none f.init f.steps (by simp)

/-- **row values are the values of the function on the whole row** (well-formed `f`): whichever row contains
`x`, its value is the limit at `x`; in particular the value of a row is the right limit at its start -/
theorem toFrame_row_value (f : Stairs P) (hf : f.WF) (r : FrameRow P) (hr : r ∈ toFrame f) (st : Bool) (x : P)
    (hx : inWindow st r.1 r.2.1 x = true) : Den f st x = r.2.2 :=
  v3b_frame_value st x none f.init f.steps hf r hr hx

/-- the row containing `x` is unique up to its content for a well-formed `f`: all rows whose window contains
`x` carry the same value -/
theorem toFrame_row_unique_value (f : Stairs P) (hf : f.WF) (r r' : FrameRow P) (hr : r ∈ toFrame f)
    (hr' : r' ∈ toFrame f) (st : Bool) (x : P) (hx : inWindow st r.1 r.2.1 x = true)
    (hx' : inWindow st r'.1 r'.2.1 x = true) : r.2.2 = r'.2.2 := by
  rw [← toFrame_row_value f hf r hr st x hx, ← toFrame_row_value f hf r' hr' st x hx']

/-- rows of a well-formed function are non-degenerate: a bounded row ends after it starts -/
theorem toFrame_row_lt (f : Stairs P) (hf : f.WF) (r : FrameRow P) (hr : r ∈ toFrame f) (a b : P)
    (ha : r.1 = some a) (hb : r.2.1 = some b) : a < b := by
  have key : ∀ (s : List (P × Val)) (start : Option P) (v : Val), Sorted s →
      (∀ a, start = some a → ∀ q ∈ s.map Prod.fst, a < q) → ∀ row ∈ frameFrom start v s,
      ∀ a b, row.1 = some a → row.2.1 = some b → a < b := by
    intro s
    induction s with
    | nil =>
      intro start v _ _ row hrow a b _ hb
      simp only [frameFrom, List.mem_singleton] at hrow
      subst hrow; cases hb
    | cons pv rest ih =>
      obtain ⟨p, w⟩ := pv
      intro start v hs hst row hrow a b ha hb
      simp only [frameFrom, List.mem_cons] at hrow
      rcases hrow with hrow | hrow
      · subst hrow
        simp only [Option.some.injEq] at hb
        subst hb
        exact hst a ha p (by simp)
      · exact ih (some p) w (sorted_tail hs).1
          (fun a' ha' q hq => by cases ha'; exact (sorted_tail hs).2 q hq) row hrow a b ha hb
  exact key f.steps none f.init hf (by simp) r hr a b ha hb

/-- **the value of a row is the right limit at its start** -/
theorem toFrame_value_is_right_limit (f : Stairs P) (hf : f.WF) (r : FrameRow P) (hr : r ∈ toFrame f) (p : P)
    (hp : r.1 = some p) : f.limit .right p = r.2.2 := by
  apply toFrame_row_value f hf r hr false p
  rw [hp]
  cases he : r.2.1 with
  | none => simp [inWindow, reached]
  | some b =>
    have := toFrame_row_lt f hf r hr p b hp he
    simp [inWindow, reached_self_right, not_reached_of_lt this]

/-- … and the left limit at its end -/
theorem toFrame_value_is_left_limit (f : Stairs P) (hf : f.WF) (r : FrameRow P) (hr : r ∈ toFrame f) (p : P)
    (hp : r.2.1 = some p) : f.limit .left p = r.2.2 := by
  apply toFrame_row_value f hf r hr true p
  rw [hp]
  cases hs : r.1 with
  | none => simp [inWindow, reached]
  | some a =>
    have := toFrame_row_lt f hf r hr a p hs hp
    simp [inWindow, reached, this]

/-- `sample` reads the frame with the window shape of the closed side: `[start, end)` rows for a left-closed
function, `(start, end]` rows for a right-closed one -/
theorem sample_reads_frame (f : Stairs P) (hf : f.WF) (r : FrameRow P) (hr : r ∈ toFrame f) (x : P)
    (hx : inWindow (f.closed == .right) r.1 r.2.1 x = true) : f.sample x = r.2.2 := by
  rw [sample_eq_den]
  cases hc : f.closed <;> rw [hc] at hx
  · exact toFrame_row_value f hf r hr false x hx
  · exact toFrame_row_value f hf r hr true x hx

example : toFrame C03.f₀ = [(none, some 2, some 1), (some 2, some 4, some 3), (some 4, some 6, none),
    (some 6, none, some 5)] ∧ ofFrame (toFrame C03.f₀) = (C03.f₀.init, C03.f₀.steps) ∧
    inWindow true (some 2) (some 4) (4 : Int) = true ∧ C03.f₀.sample 4 = some 3 := by decide +kernel


/-! ## 2. `sample` versus `limit` -/

/-- `sample` is `limit` on the side opposite to the closed side -/
theorem sample_eq_limit (f : Stairs P) (x : P) : f.sample x = f.limit (sampleSide f.closed) x := rfl

/-- which one-sided limit `sample` reads: the right limit (`false`) for a left-closed function -/
def sideBit : Side → Bool
  | .left => false
  | .right => true

theorem sample_eq_den_bit (f : Stairs P) (x : P) : f.sample x = Den f (sideBit f.closed) x := by
  rw [sample_eq_den]; cases f.closed <;> rfl

/-- the same rows under the other closed convention -/
def withClosed (f : Stairs P) (cl : Side) : Stairs P := { f with closed := cl }

@[simp] theorem den_withClosed (f : Stairs P) (cl : Side) (st : Bool) (x : P) :
    Den (withClosed f cl) st x = Den f st x := rfl
@[simp] theorem closed_withClosed (f : Stairs P) (cl : Side) : (withClosed f cl).closed = cl := rfl
theorem withClosed_self (f : Stairs P) : withClosed f f.closed = f := rfl
theorem canonical_withClosed (f : Stairs P) (cl : Side) (hf : f.Canonical) : (withClosed f cl).Canonical := hf
theorem limit_withClosed (f : Stairs P) (cl side : Side) (x : P) :
    (withClosed f cl).limit side x = f.limit side x := rfl

/-- **the two one-sided limits differ exactly at the step points of the canonical form** -/
theorem limits_differ_iff (f : Stairs P) (hf : f.WF) (x : P) :
    f.limit .left x ≠ f.limit .right x ↔ x ∈ stepPoints (canon f) :=
  (C12b.mem_idx_canon_iff f hf x).symm

theorem limits_agree_iff (f : Stairs P) (hf : f.WF) (x : P) :
    f.limit .left x = f.limit .right x ↔ x ∉ stepPoints (canon f) := by
  rw [← limits_differ_iff f hf x]; exact not_not.symm

/-- **away from the step points of `canon f` all three evaluations agree** (sharper than
`C03.limits_agree_off_steps`, which excludes every stored step point, redundant ones included) -/
theorem all_agree_off_canon_steps (f : Stairs P) (hf : f.WF) (x : P) (hx : x ∉ stepPoints (canon f)) :
    f.limit .left x = f.limit .right x ∧ f.sample x = f.limit .left x ∧ f.sample x = f.limit .right x := by
  have h := (limits_agree_iff f hf x).mpr hx
  refine ⟨h, ?_, ?_⟩ <;> (rw [sample_eq_limit]; cases f.closed) <;> simp [sampleSide, h]

/-- … and conversely: the three agree only there -/
theorem all_agree_iff (f : Stairs P) (hf : f.WF) (x : P) :
    (f.sample x = f.limit .left x ∧ f.sample x = f.limit .right x) ↔ x ∉ stepPoints (canon f) := by
  constructor
  · rintro ⟨h1, h2⟩; exact (limits_agree_iff f hf x).mp (h1.symm.trans h2)
  · intro h; exact (all_agree_off_canon_steps f hf x h).2

/-- `sample` always equals the limit on the sampling side; it equals the limit on the CLOSED side exactly off
the canonical step points -/
theorem sample_eq_closedSide_limit_iff (f : Stairs P) (hf : f.WF) (x : P) :
    f.sample x = f.limit f.closed x ↔ x ∉ stepPoints (canon f) := by
  rw [← limits_agree_iff f hf x, sample_eq_limit]
  cases f.closed <;> simp only [sampleSide]
  exact eq_comm

/-- **at a step point of the canonical form the two closed conventions disagree, elsewhere they agree** -/
theorem sample_withClosed_differ_iff (f : Stairs P) (hf : f.WF) (x : P) :
    (withClosed f .left).sample x ≠ (withClosed f .right).sample x ↔ x ∈ stepPoints (canon f) := by
  rw [← limits_differ_iff f hf x]
  show f.limit .right x ≠ f.limit .left x ↔ _
  exact ne_comm

/-- **changing only the closed side changes `sample` exactly at the canonical step points** -/
theorem sample_withClosed_eq_iff (f : Stairs P) (hf : f.WF) (cl : Side) (x : P) :
    (withClosed f cl).sample x = f.sample x ↔ (cl = f.closed ∨ x ∉ stepPoints (canon f)) := by
  rw [← limits_agree_iff f hf x]
  show f.limit (sampleSide cl) x = f.limit (sampleSide f.closed) x ↔ _
  cases cl <;> cases f.closed <;> simp [sampleSide, eq_comm]

theorem sample_withClosed_off_steps (f : Stairs P) (hf : f.WF) (cl : Side) (x : P)
    (hx : x ∉ stepPoints (canon f)) : (withClosed f cl).sample x = f.sample x :=
  (sample_withClosed_eq_iff f hf cl x).mpr (Or.inr hx)

theorem sample_withClosed_at_step (f : Stairs P) (hf : f.WF) (cl : Side) (x : P)
    (hx : x ∈ stepPoints (canon f)) (hc : cl ≠ f.closed) : (withClosed f cl).sample x ≠ f.sample x :=
  fun h => ((sample_withClosed_eq_iff f hf cl x).mp h).elim hc (fun h' => h' hx)

/-- a redundant stored step point is not a point of disagreement -/
example : (3 : Int) ∈ stepPoints C12b.r₀ ∧ (3 : Int) ∉ stepPoints (canon C12b.r₀) ∧
    (withClosed C12b.r₀ .right).sample 3 = C12b.r₀.sample 3 ∧
    (2 : Int) ∈ stepPoints (canon C12b.r₀) ∧ (withClosed C12b.r₀ .right).sample 2 ≠ C12b.r₀.sample 2 := by
  decide +kernel

/-! ## 3. evaluation commutes with the pointwise operations, at the `sample` level -/

section Helpers

theorem v3b_den_noSteps (f : Stairs P) (h : f.hasSteps = false) (st : Bool) (x : P) : Den f st x = f.init := by
  have : f.steps = [] := by simpa [hasSteps] using h
  unfold Den; rw [this]; rfl

theorem v3b_den_sideOf_left (f g : Stairs P) (x : P) :
    Den f (sideBit (sideOf f g)) x = Den f (sideBit f.closed) x := by
  unfold sideOf
  by_cases hf : f.hasSteps = true
  · rw [if_pos hf]
  · have hf' : f.hasSteps = false := by simpa using hf
    rw [v3b_den_noSteps f hf', v3b_den_noSteps f hf']

theorem v3b_den_sideOf_right (f g : Stairs P) (hm : ¬ Mismatch f g) (x : P) :
    Den g (sideBit (sideOf f g)) x = Den g (sideBit g.closed) x := by
  by_cases hg : g.hasSteps = true
  · unfold sideOf
    by_cases hf : f.hasSteps = true
    · have : f.closed = g.closed := by
        by_contra hne; exact hm ⟨hf, hg, hne⟩
      rw [if_pos hf, this]
    · rw [if_neg hf, if_pos hg]
  · have hg' : g.hasSteps = false := by simpa using hg
    rw [v3b_den_noSteps g hg', v3b_den_noSteps g hg']

theorem v3b_ok_not_mismatch (op : Val → Val → Val) (f g h : Stairs P) (hres : combineChecked op f g = .ok h) :
    ¬ Mismatch f g := by
  intro m; rw [combineChecked_eq, if_pos m] at hres; cases hres

end Helpers

/-- the general two-operand path with an imposed closed side: `sample` commutes as soon as every operand that
has steps is closed like the result -/
theorem sample_combine (op : Val → Val → Val) (f g : Stairs P) (cl : Side) (hf : f.WF) (hg : g.WF)
    (hfc : f.hasSteps = true → f.closed = cl) (hgc : g.hasSteps = true → g.closed = cl) (x : P) :
    (combine op f g cl).sample x = op (f.sample x) (g.sample x) := by
  rw [sample_eq_den_bit, sample_eq_den_bit, sample_eq_den_bit, closed_combine, den_combine op f g cl hf hg]
  congr 1
  · by_cases h : f.hasSteps = true
    · rw [hfc h]
    · have h' : f.hasSteps = false := by simpa using h
      rw [v3b_den_noSteps f h', v3b_den_noSteps f h']
  · by_cases h : g.hasSteps = true
    · rw [hgc h]
    · have h' : g.hasSteps = false := by simpa using h
      rw [v3b_den_noSteps g h', v3b_den_noSteps g h']

/-- **every successful checked two-operand operation commutes with `sample`** – no assumption on the closed
sides beyond the success of the operation: an operand closed differently from the result has no steps, so
its `sample` does not depend on the side -/
theorem sample_combineChecked (op : Val → Val → Val) (f g h : Stairs P) (hf : f.WF) (hg : g.WF)
    (hres : combineChecked op f g = .ok h) (x : P) : h.sample x = op (f.sample x) (g.sample x) := by
  obtain ⟨_, hcl, hp⟩ := combineChecked_ok op f g h hf hg hres
  have hm := v3b_ok_not_mismatch op f g h hres
  rw [sample_eq_den_bit, sample_eq_den_bit, sample_eq_den_bit, hcl, hp,
    v3b_den_sideOf_left f g x, v3b_den_sideOf_right f g hm x]

/-- the side bookkeeping: the result is closed like the operand that has steps (the receiver if neither has);
when both have steps they are closed alike and so is the result -/
theorem closed_combineChecked (op : Val → Val → Val) (f g h : Stairs P) (hres : combineChecked op f g = .ok h) :
    h.closed = sideOf f g ∧ (f.hasSteps = true → h.closed = f.closed) ∧ (g.hasSteps = true → h.closed = g.closed) := by
  have hm := v3b_ok_not_mismatch op f g h hres
  rw [combineChecked_eq, if_neg hm] at hres
  injection hres with hres; subst hres
  refine ⟨rfl, fun hf => ?_, fun hg => ?_⟩
  · simp [sideOf, hf]
  · by_cases hf : f.hasSteps = true
    · have : f.closed = g.closed := by by_contra hne; exact hm ⟨hf, hg, hne⟩
      simp [sideOf, hf, this]
    · simp [sideOf, hf, hg]

/-- **binary operators** (`+ - * /`, comparisons, logical): `(f o g)(x) = f(x) o g(x)` -/
theorem sample_binop (o : BinOp) (f g h : Stairs P) (hf : f.WF) (hg : g.WF) (hres : binop o f g = .ok h) (x : P) :
    h.sample x = o.eval (f.sample x) (g.sample x) := sample_combineChecked o.eval f g h hf hg hres x

/-- the statement as asked, with the closed sides agreeing: then the operation cannot fail and the result
is closed like both operands -/
theorem sample_binop_same_closed (o : BinOp) (f g : Stairs P) (hf : f.WF) (hg : g.WF) (hc : f.closed = g.closed) :
    ∃ h, binop o f g = .ok h ∧ h.closed = f.closed ∧ ∀ x, h.sample x = o.eval (f.sample x) (g.sample x) := by
  have hm := not_mismatch_of_closed_eq f g hc
  refine ⟨_, combineChecked_total o.eval f g hm, by simp [sideOf, ← hc], fun x => ?_⟩
  exact sample_binop o f g _ hf hg (combineChecked_total o.eval f g hm) x

/-- scalar operands (`f o c`, `c o g`) -/
theorem sample_binop_scalar_right (o : BinOp) (f h : Stairs P) (c : Val) (hf : f.WF)
    (hres : binopO o (.st f) (.sc c) = some (.ok h)) (x : P) : h.sample x = o.eval (f.sample x) c := by
  simp only [binopO, sanitize, Option.map_some, Option.some.injEq] at hres
  rw [sample_binop o f (const c f.closed) h hf (wf_const c f.closed) hres x]; rfl

theorem sample_binop_scalar_left (o : BinOp) (g h : Stairs P) (c : Val) (hg : g.WF)
    (hres : binopO o (.sc c) (.st g) = some (.ok h)) (x : P) : h.sample x = o.eval c (g.sample x) := by
  simp only [binopO, sanitize, Option.map_some, Option.some.injEq] at hres
  rw [sample_binop o (const c g.closed) g h (wf_const c g.closed) hg hres x]; rfl

/-- **mask / where / fillna with a step function** -/
theorem sample_mask (f g h : Stairs P) (hf : f.WF) (hg : g.WF) (hres : mask f g = .ok h) (x : P) :
    h.sample x = maskOp (f.sample x) (g.sample x) := sample_combineChecked maskOp f g h hf hg hres x
theorem sample_where (f g h : Stairs P) (hf : f.WF) (hg : g.WF) (hres : where_ f g = .ok h) (x : P) :
    h.sample x = whereOp (f.sample x) (g.sample x) := sample_combineChecked whereOp f g h hf hg hres x
theorem sample_fillnaStairs (f g h : Stairs P) (hf : f.WF) (hg : g.WF) (hres : fillnaStairs f g = .ok h) (x : P) :
    h.sample x = fillOp (f.sample x) (g.sample x) := sample_combineChecked fillOp f g h hf hg hres x

/-- **the closed-side check is what makes this true**: the unchecked path with an imposed side on operands
that are closed differently does NOT commute with `sample` (at a common step point) -/
theorem sample_combine_needs_closed :
    ∃ (f g : Stairs Int) (x : Int), f.Canonical ∧ g.Canonical ∧ Mismatch f g ∧
      (combine vadd f g .left).sample x ≠ vadd (f.sample x) (g.sample x) ∧
      (combine vadd f g .right).sample x ≠ vadd (f.sample x) (g.sample x) :=
  ⟨⟨some 0, [(1, some 1)], .left⟩, ⟨some 0, [(1, some 1)], .right⟩, 1, by decide +kernel, by decide +kernel,
    by decide +kernel, by decide +kernel, by decide +kernel⟩

/-- **unary operations** (any value map; `negate`, `invert`, `make_boolean`, `isna`, `notna`, scalar `fillna`) -/
theorem sample_map (u : Val → Val) (f : Stairs P) (hf : f.WF) (x : P) : (map u f).sample x = u (f.sample x) := by
  rw [sample_eq_den_bit, sample_eq_den_bit, closed_map, den_map u f hf]
theorem sample_unop (u : UnOp) (f : Stairs P) (hf : f.WF) (x : P) : (unop u f).sample x = u.eval (f.sample x) :=
  sample_map _ f hf x
theorem sample_fillnaScalar (f : Stairs P) (v : Val) (hf : f.WF) (x : P) :
    (fillnaScalar f v).sample x = fillOp (f.sample x) v := sample_map _ f hf x
theorem sample_canon (f : Stairs P) (hf : f.WF) (x : P) : (canon f).sample x = f.sample x := by
  rw [sample_eq_den_bit, sample_eq_den_bit, closed_canon, den_canon f hf]

example : (mask C12b.fL (unop .isna C12b.fL)).toOption.map (fun h => sampleSide h.closed) = some .right ∧
    (mask C12b.fL (unop .isna C12b.fL)).toOption.map (fun h => h.sample 3) =
      some (maskOp (C12b.fL.sample 3) ((unop .isna C12b.fL).sample 3)) ∧
    (unop .neg C12b.fR).sample 3 = UnOp.neg.eval (C12b.fR.sample 3) ∧ (unop .neg C12b.fR).sample 3 = some (-2) := by
  decide +kernel

/-- **clip**: the window test at the `sample` level depends on the closed side –
`inWindow false` is `lo ≤ x < hi`, `inWindow true` is `lo < x ≤ hi` (`inWindow_right`, `inWindow_left`) -/
theorem sample_clip (f r : Stairs P) (lo hi : Option P) (hf : f.WF) (hr : clip f lo hi = .ok r) (x : P) :
    r.closed = f.closed ∧
    r.sample x = if inWindow (sideBit f.closed) lo hi x then f.sample x else none := by
  have hb : boundsOk lo hi = true := by
    by_contra hb
    rw [clip_error f lo hi (by simpa using hb)] at hr; cases hr
  have hc := (canonical_clip f lo hi hf hb r hr).2
  refine ⟨hc, ?_⟩
  rw [sample_eq_den_bit, sample_eq_den_bit, hc, den_clip f lo hi hf hb r hr]

/-- a left-closed function clipped to `(a, b)`: kept for `a ≤ x < b` -/
theorem sample_clip_left_closed (f r : Stairs P) (a b : P) (hf : f.WF) (hc : f.closed = .left)
    (hr : clip f (some a) (some b) = .ok r) (x : P) :
    r.sample x = if a ≤ x ∧ x < b then f.sample x else none := by
  have hs : sideBit f.closed = false := by rw [hc]; rfl
  rw [(sample_clip f r _ _ hf hr x).2, hs]
  have := inWindow_right (some a) (some b) x
  simp only [Option.some.injEq, forall_eq'] at this
  by_cases h : a ≤ x ∧ x < b
  · rw [if_pos h, if_pos (this.mpr h)]
  · rw [if_neg h, if_neg (fun h' => h (this.mp h'))]

/-- a right-closed function clipped to `(a, b)`: kept for `a < x ≤ b` -/
theorem sample_clip_right_closed (f r : Stairs P) (a b : P) (hf : f.WF) (hc : f.closed = .right)
    (hr : clip f (some a) (some b) = .ok r) (x : P) :
    r.sample x = if a < x ∧ x ≤ b then f.sample x else none := by
  have hs : sideBit f.closed = true := by rw [hc]; rfl
  rw [(sample_clip f r _ _ hf hr x).2, hs]
  have := inWindow_left (some a) (some b) x
  simp only [Option.some.injEq, forall_eq'] at this
  by_cases h : a < x ∧ x ≤ b
  · rw [if_pos h, if_pos (this.mpr h)]
  · rw [if_neg h, if_neg (fun h' => h (this.mp h'))]

/-- `where((a, b))` is `clip` -/
theorem sample_whereTuple (f r : Stairs P) (lo hi : Option P) (hf : f.WF) (hr : whereTuple f lo hi = .ok r) (x : P) :
    r.sample x = if inWindow (sideBit f.closed) lo hi x then f.sample x else none := (sample_clip f r lo hi hf hr x).2

/-- the two conventions really differ at the bounds -/
example : (clip C12b.fL (some 1) (some 3)).toOption.map (fun r => (r.sample 1, r.sample 2, r.sample 3)) =
    some (some 2, some 2, none) := by decide +kernel
example : (clip C12b.fR (some 1) (some 3)).toOption.map (fun r => (r.sample 1, r.sample 2, r.sample 3)) =
    some (none, some 2, some 2) := by decide +kernel

/-- **mask((a, b))**: undefined inside the window (same side-dependent window), `f` outside -/
theorem sample_maskTuple (f : Stairs P) (lo hi : Option P) (hf : f.WF) (hb : boundsOk lo hi = true) (x : P) :
    (maskTuple f lo hi).sample x = if inWindow (sideBit f.closed) lo hi x then none else f.sample x := by
  unfold maskTuple
  rw [sample_eq_den_bit, sample_eq_den_bit, closed_combine,
    den_combine _ _ _ _ hf (wf_layerIndicator lo hi f.closed), den_layerIndicator lo hi f.closed hb]
  cases inWindow (sideBit f.closed) lo hi x <;> simp [maskOp]

/-- **shift** is `C20.sample_shift`: `(shift f d)(x) = f(x − d)`; with it, the closed side is kept -/
theorem sample_shift_closed {P : Type} [AddCommGroup P] [LinearOrder P] [IsOrderedAddMonoid P]
    (f : Stairs P) (d x : P) : (shift f d).closed = f.closed ∧ (shift f d).sample x = f.sample (x - d) :=
  ⟨rfl, C20.sample_shift f d x⟩

/-- non-vacuity: a right-closed operand with steps and a step-free left-closed one -/
example : C12b.fR.closed ≠ C12b.k₀.closed ∧ ¬ Mismatch C12b.fR C12b.k₀ ∧
    (binop .add C12b.fR C12b.k₀).toOption.map (fun h => (h.closed, h.sample 1, h.sample 3)) =
      some (.right, vadd (C12b.fR.sample 1) (C12b.k₀.sample 1), some 3) := by decide +kernel


/-! ## 4. vector evaluation; finite sets of query points that determine the function -/
open Views3b

/-- `f(xs)` / `sample(xs)` with an array argument: element by element -/
def sampleMany (f : Stairs P) (xs : List P) : List Val := xs.map f.sample

theorem sampleMany_eq_limit (f : Stairs P) (xs : List P) :
    sampleMany f xs = xs.map (f.limit (sampleSide f.closed)) := rfl
theorem sampleMany_length (f : Stairs P) (xs : List P) : (sampleMany f xs).length = xs.length := by
  simp [sampleMany]
/-- **order preserving**: answer `i` is the value at query point `i` (sorted or not) -/
theorem sampleMany_getElem (f : Stairs P) (xs : List P) (i : Nat) (h : i < xs.length) :
    (sampleMany f xs)[i]'(by simpa [sampleMany] using h) = f.sample xs[i] := by simp [sampleMany]
/-- the answer at a position depends on the query point at that position only -/
theorem sampleMany_pos_indep (f : Stairs P) (xs ys : List P) (i j : Nat) (hi : i < xs.length) (hj : j < ys.length)
    (h : xs[i] = ys[j]) :
    (sampleMany f xs)[i]'(by simpa [sampleMany] using hi) = (sampleMany f ys)[j]'(by simpa [sampleMany] using hj) := by
  rw [sampleMany_getElem f xs i hi, sampleMany_getElem f ys j hj, h]
/-- **duplication preserving**: repeated query points give repeated answers, nothing is merged -/
theorem sampleMany_replicate (f : Stairs P) (n : Nat) (x : P) :
    sampleMany f (List.replicate n x) = List.replicate n (f.sample x) := by simp [sampleMany]
theorem sampleMany_append (f : Stairs P) (xs ys : List P) :
    sampleMany f (xs ++ ys) = sampleMany f xs ++ sampleMany f ys := by simp [sampleMany]
theorem sampleMany_reverse (f : Stairs P) (xs : List P) : sampleMany f xs.reverse = (sampleMany f xs).reverse := by
  simp [sampleMany]
/-- re-ordering / selecting / repeating the query points re-orders / selects / repeats the answers alike -/
theorem sampleMany_reindex {ι : Type} (f : Stairs P) (φ : ι → P) (is : List ι) :
    sampleMany f (is.map φ) = is.map (fun i => f.sample (φ i)) := by simp [sampleMany]
theorem sampleMany_perm (f : Stairs P) (xs ys : List P) (h : xs.Perm ys) :
    (sampleMany f xs).Perm (sampleMany f ys) := h.map _
/-- the vector form commutes with the operations exactly as the scalar form does, e.g. -/
theorem sampleMany_binop (o : BinOp) (f g h : Stairs P) (hf : f.WF) (hg : g.WF) (hres : binop o f g = .ok h)
    (xs : List P) : sampleMany h xs = List.zipWith o.eval (sampleMany f xs) (sampleMany g xs) := by
  induction xs with
  | nil => rfl
  | cons x r ih =>
    simp only [sampleMany, List.map_cons, List.zipWith_cons_cons] at ih ⊢
    rw [ih, sample_binop o f g h hf hg hres x]

example : sampleMany C03.f₀ [6, 2, 2, 7, 2] = [none, some 1, some 1, some 5, some 1] := by decide +kernel

/-- **the open pieces determine the function**: if `T` has a point strictly inside every open piece of the
partition of the line by `U ⊇ step points of f and g` and `f`, `g` agree at those points, then `f` and `g` have
the same one-sided limits everywhere (no assumption on well-formedness or on the closed sides) -/
theorem den_eq_of_agree_on_probes (f g : Stairs P) (T U : List P) (hT : Probes T U)
    (hfU : ∀ p ∈ stepPoints f, p ∈ U) (hgU : ∀ p ∈ stepPoints g, p ∈ U)
    (h : ∀ t ∈ T, t ∉ U → f.sample t = g.sample t) (st : Bool) (x : P) : Den f st x = Den g st x := by
  obtain ⟨t, ht, hn, hp⟩ := v3b_probes_reached hT st x
  have hf : Den f st x = f.sample t := by
    rw [sample_eq_den_bit]
    exact v3b_lim_congr _ _ _ _ _ _ (fun p hp' => (hp p (hfU p hp') _).symm)
  have hg : Den g st x = g.sample t := by
    rw [sample_eq_den_bit]
    exact v3b_lim_congr _ _ _ _ _ _ (fun p hp' => (hp p (hgU p hp') _).symm)
  rw [hf, hg, h t ht hn]

/-- **finite test set, any closed sides**: two canonical functions that agree on such a `T` (the step points
and one point in each open piece) are `identical`, and are closed alike – hence equal – unless they are
constant (a constant is the same function under both conventions) -/
theorem identical_of_agree_on_probes [Nonempty P] (f g : Stairs P) (hf : f.Canonical) (hg : g.Canonical)
    (T U : List P) (hT : Probes T U) (hfU : ∀ p ∈ stepPoints f, p ∈ U) (hgU : ∀ p ∈ stepPoints g, p ∈ U)
    (h : ∀ t ∈ T, f.sample t = g.sample t) :
    identical f g = true ∧ (f.hasSteps = true → f.closed = g.closed) := by
  have hden := den_eq_of_agree_on_probes f g T U hT hfU hgU (fun t ht _ => h t ht)
  obtain ⟨hi, hs⟩ := C12b.canon_data_eq_of_den g f hg.1 hf.1 hden
  rw [canon_of_minimal f hf.2, canon_of_minimal g hg.2] at hs
  refine ⟨by simp [identical, hi, hs], fun hst => ?_⟩
  cases hsteps : f.steps with
  | nil => simp [hasSteps, hsteps] at hst
  | cons pv r =>
    have hp : pv.1 ∈ stepPoints f := by simp [stepPoints, hsteps]
    have hjump := (C12b.mem_idx_iff_jump f hf pv.1).mp hp
    have hsame := h pv.1 (hT.1 _ (hfU _ hp))
    rw [sample_eq_den_bit, sample_eq_den_bit, ← hden] at hsame
    by_contra hne
    cases hcf : f.closed <;> cases hcg : g.closed <;> rw [hcf, hcg] at hsame <;> simp only [sideBit] at hsame
    · exact hne (by rw [hcf, hcg])
    · exact hjump hsame.symm
    · exact hjump hsame
    · exact hne (by rw [hcf, hcg])

theorem eq_of_agree_on_probes [Nonempty P] (f g : Stairs P) (hf : f.Canonical) (hg : g.Canonical)
    (T U : List P) (hT : Probes T U) (hfU : ∀ p ∈ stepPoints f, p ∈ U) (hgU : ∀ p ∈ stepPoints g, p ∈ U)
    (h : ∀ t ∈ T, f.sample t = g.sample t) (hc : f.closed = g.closed ∨ f.hasSteps = true) : f = g := by
  obtain ⟨hid, hcl⟩ := identical_of_agree_on_probes f g hf hg T U hT hfU hgU h
  have hc' : f.closed = g.closed := hc.elim id hcl
  exact (C12b.identical_and_closed_iff_eq f g).mp ⟨hid, hc'⟩

/-- the query points the harness uses for a pair: the union of the step points and a picked point in every
open piece in between, below and above -/
def jointCriticalPoints (π : Picker P) (f g : Stairs P) : List P :=
  probes π (unionIdx (stepPoints f) (stepPoints g))
/-- … for a single function -/
def criticalPoints (π : Picker P) (f : Stairs P) : List P := probes π (stepPoints f)

theorem jointCriticalPoints_length (π : Picker P) (f g : Stairs P) :
    (jointCriticalPoints π f g).length = 2 * (unionIdx (stepPoints f) (stepPoints g)).length + 1 :=
  v3b_probes_length π _
theorem criticalPoints_length (π : Picker P) (f : Stairs P) :
    (criticalPoints π f).length = 2 * f.numberOfSteps + 1 := by
  rw [criticalPoints, v3b_probes_length]; simp [stepPoints, numberOfSteps]

/-- **two canonical functions that agree on their joint critical points are the same** up to the closed side of
a constant; the query set is finite (`2 n + 1` points for `n` distinct step points) -/
theorem eq_of_agree_on_jointCriticalPoints [Nonempty P] (π : Picker P) (f g : Stairs P) (hf : f.Canonical)
    (hg : g.Canonical) (h : ∀ t ∈ jointCriticalPoints π f g, f.sample t = g.sample t)
    (hc : f.closed = g.closed ∨ f.hasSteps = true) : f = g :=
  eq_of_agree_on_probes f g hf hg _ _
    (v3b_probes_spec π _ (pairwise_unionIdx _ _ hf.1 hg.1))
    (fun _ hp => (mem_unionIdx _ _ _).mpr (Or.inl hp)) (fun _ hp => (mem_unionIdx _ _ _).mpr (Or.inr hp)) h hc

/-- ℚ with midpoints -/
theorem eq_of_agree_on_midpoints (f g : Stairs Rat) (hf : f.Canonical) (hg : g.Canonical)
    (h : ∀ t ∈ jointCriticalPoints ratPicker f g, f.sample t = g.sample t)
    (hc : f.closed = g.closed ∨ f.hasSteps = true) : f = g :=
  eq_of_agree_on_jointCriticalPoints ratPicker f g hf hg h hc

/-- every densely ordered set without endpoints: a finite test set exists for every pair -/
theorem exists_finite_test_set [DenselyOrdered P] [NoMinOrder P] [NoMaxOrder P] [Nonempty P]
    (f g : Stairs P) (hf : f.Canonical) (hg : g.Canonical) (hc : f.closed = g.closed) :
    ∃ T : List P, T.length ≤ 2 * (f.numberOfSteps + g.numberOfSteps) + 1 ∧
      ((∀ t ∈ T, f.sample t = g.sample t) ↔ f = g) := by
  refine ⟨jointCriticalPoints densePicker f g, ?_, ?_, ?_⟩
  · rw [jointCriticalPoints_length]
    have : (unionIdx (stepPoints f) (stepPoints g)).length ≤ f.numberOfSteps + g.numberOfSteps := by
      have h1 : ∀ (xs ys : List P), (unionIdx xs ys).length ≤ xs.length + ys.length := by
        intro xs ys
        fun_induction unionIdx xs ys <;> simp only [List.length_cons, List.length_nil] at * <;> omega
      simpa [stepPoints, numberOfSteps] using h1 (stepPoints f) (stepPoints g)
    omega
  · intro h; exact eq_of_agree_on_jointCriticalPoints densePicker f g hf hg h (Or.inl hc)
  · rintro rfl t _; rfl

/-- **closed alike: the step points and ONE extreme point suffice** (any linear order, dense or not, e.g. ℤ):
left-closed functions that agree at all step points of both and at one point below all of them have the same
one-sided limits everywhere -/
theorem den_eq_of_agree_on_steps_left (f g : Stairs P) (hcf : f.closed = .left) (hcg : g.closed = .left)
    (T : List P) (hU : ∀ p, p ∈ stepPoints f ∨ p ∈ stepPoints g → p ∈ T)
    (hlow : ∃ t ∈ T, ∀ p, p ∈ stepPoints f ∨ p ∈ stepPoints g → t < p)
    (h : ∀ t ∈ T, f.sample t = g.sample t) (st : Bool) (x : P) : Den f st x = Den g st x := by
  have hs : ∀ t, f.sample t = Den f false t ∧ g.sample t = Den g false t := fun t => by
    rw [sample_eq_den_bit, sample_eq_den_bit, hcf, hcg]; exact ⟨rfl, rfl⟩
  rcases v3b_exists_max_reached st x (stepPoints f ++ stepPoints g) with hnone | ⟨u, hu, hur, hmax⟩
  · obtain ⟨t, htT, ht⟩ := hlow
    have h1 : Den f st x = Den f false t := v3b_lim_congr _ _ _ _ _ _ (fun p hp => by
      rw [hnone p (List.mem_append_left _ hp), not_reached_of_lt (ht p (Or.inl hp))])
    have h2 : Den g st x = Den g false t := v3b_lim_congr _ _ _ _ _ _ (fun p hp => by
      rw [hnone p (List.mem_append_right _ hp), not_reached_of_lt (ht p (Or.inr hp))])
    rw [h1, h2, ← (hs t).1, ← (hs t).2, h t htT]
  · have h1 : Den f st x = Den f false u := v3b_lim_congr _ _ _ _ _ _ (fun p hp =>
      v3b_pattern_at_max st x u _ hur hmax p (List.mem_append_left _ hp))
    have h2 : Den g st x = Den g false u := v3b_lim_congr _ _ _ _ _ _ (fun p hp =>
      v3b_pattern_at_max st x u _ hur hmax p (List.mem_append_right _ hp))
    rw [h1, h2, ← (hs u).1, ← (hs u).2, h u (hU u (List.mem_append.mp hu))]

/-- right-closed: the step points and one point above all of them -/
theorem den_eq_of_agree_on_steps_right (f g : Stairs P) (hcf : f.closed = .right) (hcg : g.closed = .right)
    (T : List P) (hU : ∀ p, p ∈ stepPoints f ∨ p ∈ stepPoints g → p ∈ T)
    (hhigh : ∃ t ∈ T, ∀ p, p ∈ stepPoints f ∨ p ∈ stepPoints g → p < t)
    (h : ∀ t ∈ T, f.sample t = g.sample t) (st : Bool) (x : P) : Den f st x = Den g st x := by
  have hs : ∀ t, f.sample t = Den f true t ∧ g.sample t = Den g true t := fun t => by
    rw [sample_eq_den_bit, sample_eq_den_bit, hcf, hcg]; exact ⟨rfl, rfl⟩
  rcases v3b_exists_min_unreached st x (stepPoints f ++ stepPoints g) with hall | ⟨u, hu, hur, hmin⟩
  · obtain ⟨t, htT, ht⟩ := hhigh
    have h1 : Den f st x = Den f true t := v3b_lim_congr _ _ _ _ _ _ (fun p hp => by
      rw [hall p (List.mem_append_left _ hp), reached_of_lt (ht p (Or.inl hp))])
    have h2 : Den g st x = Den g true t := v3b_lim_congr _ _ _ _ _ _ (fun p hp => by
      rw [hall p (List.mem_append_right _ hp), reached_of_lt (ht p (Or.inr hp))])
    rw [h1, h2, ← (hs t).1, ← (hs t).2, h t htT]
  · have h1 : Den f st x = Den f true u := v3b_lim_congr _ _ _ _ _ _ (fun p hp =>
      v3b_pattern_at_min st x u _ hur hmin p (List.mem_append_left _ hp))
    have h2 : Den g st x = Den g true u := v3b_lim_congr _ _ _ _ _ _ (fun p hp =>
      v3b_pattern_at_min st x u _ hur hmin p (List.mem_append_right _ hp))
    rw [h1, h2, ← (hs u).1, ← (hs u).2, h u (hU u (List.mem_append.mp hu))]

/-- both conventions at once: the step points, one point below and one point above -/
theorem den_eq_of_agree_on_steps (f g : Stairs P) (hc : f.closed = g.closed) (T : List P)
    (hU : ∀ p, p ∈ stepPoints f ∨ p ∈ stepPoints g → p ∈ T)
    (hlow : ∃ t ∈ T, ∀ p, p ∈ stepPoints f ∨ p ∈ stepPoints g → t < p)
    (hhigh : ∃ t ∈ T, ∀ p, p ∈ stepPoints f ∨ p ∈ stepPoints g → p < t)
    (h : ∀ t ∈ T, f.sample t = g.sample t) (st : Bool) (x : P) : Den f st x = Den g st x := by
  cases hcf : f.closed
  · exact den_eq_of_agree_on_steps_left f g hcf (by rw [← hc, hcf]) T hU hlow h st x
  · exact den_eq_of_agree_on_steps_right f g hcf (by rw [← hc, hcf]) T hU hhigh h st x

/-- … hence the same canonical form (well-formed operands), the same object (canonical operands) -/
theorem canon_eq_of_agree_on_steps (f g : Stairs P) (hf : f.WF) (hg : g.WF) (hc : f.closed = g.closed) (T : List P)
    (hU : ∀ p, p ∈ stepPoints f ∨ p ∈ stepPoints g → p ∈ T)
    (hlow : ∃ t ∈ T, ∀ p, p ∈ stepPoints f ∨ p ∈ stepPoints g → t < p)
    (hhigh : ∃ t ∈ T, ∀ p, p ∈ stepPoints f ∨ p ∈ stepPoints g → p < t)
    (h : ∀ t ∈ T, f.sample t = g.sample t) : canon f = canon g := by
  have : Nonempty P := hlow.elim fun t _ => ⟨t⟩
  exact C12b.canon_eq_of_den g f hg hf hc (den_eq_of_agree_on_steps f g hc T hU hlow hhigh h)

theorem eq_of_agree_on_steps (f g : Stairs P) (hf : f.Canonical) (hg : g.Canonical) (hc : f.closed = g.closed)
    (T : List P) (hU : ∀ p, p ∈ stepPoints f ∨ p ∈ stepPoints g → p ∈ T)
    (hlow : ∃ t ∈ T, ∀ p, p ∈ stepPoints f ∨ p ∈ stepPoints g → t < p)
    (hhigh : ∃ t ∈ T, ∀ p, p ∈ stepPoints f ∨ p ∈ stepPoints g → p < t)
    (h : ∀ t ∈ T, f.sample t = g.sample t) : f = g := by
  have := canon_eq_of_agree_on_steps f g hf.1 hg.1 hc T hU hlow hhigh h
  rwa [canon_of_minimal f hf.2, canon_of_minimal g hg.2] at this

/-- **the statement as asked**: two canonical functions with the same closed side that agree on
`criticalPoints f ∪ criticalPoints g` are identical objects -/
theorem eq_of_agree_on_criticalPoints (π : Picker P) (f g : Stairs P) (hf : f.Canonical) (hg : g.Canonical)
    (hc : f.closed = g.closed)
    (h : ∀ t ∈ criticalPoints π f ++ criticalPoints π g, f.sample t = g.sample t) : f = g := by
  apply eq_of_agree_on_steps f g hf hg hc _ _ _ _ h
  · rintro p (hp | hp)
    · exact List.mem_append_left _ (v3b_mem_probes π _ p hp)
    · exact List.mem_append_right _ (v3b_mem_probes π _ p hp)
  · obtain ⟨tf, htf, hlf⟩ := v3b_probes_low π (stepPoints f) hf.1
    obtain ⟨tg, htg, hlg⟩ := v3b_probes_low π (stepPoints g) hg.1
    rcases le_total tf tg with hle | hle
    · refine ⟨tf, List.mem_append_left _ htf, ?_⟩
      rintro p (hp | hp)
      · exact hlf p hp
      · exact lt_of_le_of_lt hle (hlg p hp)
    · refine ⟨tg, List.mem_append_right _ htg, ?_⟩
      rintro p (hp | hp)
      · exact lt_of_le_of_lt hle (hlf p hp)
      · exact hlg p hp
  · obtain ⟨tf, htf, hlf⟩ := v3b_probes_high π (stepPoints f) hf.1
    obtain ⟨tg, htg, hlg⟩ := v3b_probes_high π (stepPoints g) hg.1
    rcases le_total tf tg with hle | hle
    · refine ⟨tg, List.mem_append_right _ htg, ?_⟩
      rintro p (hp | hp)
      · exact lt_of_lt_of_le (hlf p hp) hle
      · exact hlg p hp
    · refine ⟨tf, List.mem_append_left _ htf, ?_⟩
      rintro p (hp | hp)
      · exact hlf p hp
      · exact lt_of_lt_of_le (hlg p hp) hle

/-- used as a decision procedure: two different canonical functions are told apart on the critical points -/
example : let f : Stairs Rat := ⟨some 0, [(1, some 2), (3, none)], .left⟩
    let g : Stairs Rat := ⟨some 0, [(1, some 2), (3, none), (7 / 2, some 0)], .left⟩
    f.Canonical ∧ g.Canonical ∧ f.closed = g.closed ∧
    (∀ t ∈ criticalPoints ratPicker f ++ criticalPoints ratPicker f, f.sample t = f.sample t) ∧
    ∃ t ∈ criticalPoints ratPicker f ++ criticalPoints ratPicker g, f.sample t ≠ g.sample t := by decide +kernel
/-- `Probes` on a concrete joint partition -/
example : Probes (probes ratPicker [1, 2, 4]) [1, 2, 4] ∧ probes ratPicker [1, 2, 4] = [0, 1, 3 / 2, 2, 3, 4, 5] :=
  ⟨v3b_probes_spec ratPicker _ (by decide +kernel), by decide +kernel⟩

/-! what cannot be dropped -/

/-- the step points alone are not enough: the initial value is not seen (left-closed) -/
theorem steps_alone_insufficient : ∃ f g : Stairs Int, f.Canonical ∧ g.Canonical ∧ f.closed = g.closed ∧
    (∀ t ∈ stepPoints f ++ stepPoints g, f.sample t = g.sample t) ∧ f ≠ g :=
  ⟨⟨some 0, [(1, some 1)], .left⟩, ⟨some 5, [(1, some 1)], .left⟩, by decide +kernel, by decide +kernel,
    by decide +kernel, by decide +kernel, by decide +kernel⟩

/-- **with different closed sides `criticalPoints f ∪ criticalPoints g` is NOT a test set**: the functions below
agree on all six points and differ on the whole interval `(1, 2)`; the joint critical points (which probe
the piece `(1, 2)` of the joint partition) tell them apart -/
theorem criticalPoints_union_insufficient : ∃ f g : Stairs Rat, f.Canonical ∧ g.Canonical ∧
    (∀ t ∈ criticalPoints ratPicker f ++ criticalPoints ratPicker g, f.sample t = g.sample t) ∧
    f.sample (3 / 2) ≠ g.sample (3 / 2) ∧ (3 / 2 : Rat) ∈ jointCriticalPoints ratPicker f g :=
  ⟨⟨some 0, [(2, some 1)], .left⟩, ⟨some 0, [(1, some 1)], .right⟩, by decide +kernel, by decide +kernel,
    by decide +kernel, by decide +kernel, by decide +kernel⟩

/-- the query points of a concrete pair -/
example : jointCriticalPoints ratPicker (⟨some 0, [(2, some 1)], .left⟩ : Stairs Rat) ⟨some 0, [(1, some 1), (4, none)], .left⟩
    = [0, 1, 3 / 2, 2, 3, 4, 5] := by decide +kernel


/-! ## 5. `initial_value`, `step_points`, `step_values`, `number_of_steps` under each operation -/

section Helpers

theorem v3b_ok_eq_combine (op : Val → Val → Val) (f g h : Stairs P) (hres : combineChecked op f g = .ok h) :
    h = combine op f g (sideOf f g) := by
  have hm := v3b_ok_not_mismatch op f g h hres
  rw [combineChecked_eq, if_neg hm] at hres
  injection hres with hres; exact hres.symm

theorem v3b_unionIdx_length (xs ys : List P) : (unionIdx xs ys).length ≤ xs.length + ys.length := by
  fun_induction unionIdx xs ys <;> simp only [List.length_cons, List.length_nil] at * <;> omega

theorem v3b_lim_at_own_point {V : Type} (a : V) (s : List (P × V)) (hs : Sorted s) :
    ∀ pv ∈ s, lim false a s pv.1 = pv.2 := by
  induction s generalizing a with
  | nil => intro pv h; cases h
  | cons qw r ih =>
    obtain ⟨q, w⟩ := qw
    intro pv hmem
    rcases List.mem_cons.mp hmem with h | h
    · rw [h]; exact lim_at_head a q w r hs
    · have hr := sorted_tail hs
      have hq : q < pv.1 := hr.2 pv.1 (List.mem_map_of_mem (f := Prod.fst) h)
      rw [lim_cons, reached_of_lt_right hq]
      exact ih w hr.1 pv h

/-- an injective value map keeps a minimal list minimal -/
theorem v3b_minimal_map_inj (u : Val → Val) (hu : Function.Injective u) (a : Val) (s : List (P × Val))
    (h : Minimal a s) : Minimal (u a) (s.map fun pv => (pv.1, u pv.2)) := by
  induction s generalizing a with
  | nil => trivial
  | cons pv r ih =>
    obtain ⟨p, v⟩ := pv
    exact ⟨fun he => h.1 (hu he), ih v h.2⟩

theorem v3b_neg_injective : Function.Injective (UnOp.neg.eval) := by
  intro a b h
  cases a <;> cases b <;> simp [UnOp.eval] at h ⊢
  exact h

theorem v3b_vadd_right_injective (c : Rat) : Function.Injective (fun v : Val => vadd v (some c)) := by
  intro a b h
  cases a <;> cases b <;> simp [vadd, vlift2] at h ⊢
  exact h

end Helpers

/-! ### initial values -/

theorem init_map (u : Val → Val) (f : Stairs P) : (map u f).init = u f.init := rfl
theorem init_unop (u : UnOp) (f : Stairs P) : (unop u f).init = u.eval f.init := rfl
theorem init_combine (op : Val → Val → Val) (f g : Stairs P) (cl : Side) :
    (combine op f g cl).init = op f.init g.init := rfl
theorem init_combineChecked (op : Val → Val → Val) (f g h : Stairs P) (hres : combineChecked op f g = .ok h) :
    h.init = op f.init g.init := by rw [v3b_ok_eq_combine op f g h hres]; rfl
/-- `(f o g).initial_value = f.initial_value o g.initial_value` -/
theorem init_binop (o : BinOp) (f g h : Stairs P) (hres : binop o f g = .ok h) : h.init = o.eval f.init g.init :=
  init_combineChecked _ f g h hres
/-- the initial value survives `clip` only when there is no lower bound -/
theorem init_clip (f r : Stairs P) (lo hi : Option P) (hr : clip f lo hi = .ok r) :
    r.init = if lo.isNone then f.init else none := by
  by_cases hb : boundsOk lo hi = true
  · rw [clip_ok f lo hi hb] at hr
    injection hr with hr; subst hr
    cases lo <;> simp [init_combine, indicator, whereOp]
  · rw [clip_error f lo hi (by simpa using hb)] at hr; cases hr
/-- … and `mask((a, b))` keeps it exactly when there is a lower bound -/
theorem init_maskTuple (f : Stairs P) (lo hi : Option P) :
    (maskTuple f lo hi).init = if lo.isNone then none else f.init := by
  unfold maskTuple
  rw [init_combine]
  cases lo <;> cases hi <;> simp [layerIndicator, maskOp]
  rename_i a b
  by_cases h1 : a < b
  · simp [h1]
  · by_cases h2 : b < a <;> simp [h1, h2]
/-- in every case the initial value of a result is the value of the result far to the left -/
theorem init_is_sample_below (f : Stairs P) (x : P) (hx : ∀ q ∈ stepPoints f, x < q) : f.sample x = f.init :=
  (C03.initial_value_is_value_at_minus_infinity f false x hx).2

/-! ### canonicalisation and unary operations -/

theorem stepPoints_canon_sublist (f : Stairs P) : (stepPoints (canon f)).Sublist (stepPoints f) :=
  (C12b.canon_rows_sublist_self f).map _
theorem stepValues_canon_sublist (f : Stairs P) : (stepValues (canon f)).Sublist (stepValues f) :=
  (C12b.canon_rows_sublist_self f).map _

/-- a unary operation creates no step point … -/
theorem stepPoints_map_sublist (u : Val → Val) (f : Stairs P) : (stepPoints (map u f)).Sublist (stepPoints f) := by
  have h := stepPoints_canon_sublist (⟨u f.init, f.steps.map fun pv => (pv.1, u pv.2), f.closed⟩ : Stairs P)
  have h2 : stepPoints (⟨u f.init, f.steps.map fun pv => (pv.1, u pv.2), f.closed⟩ : Stairs P) = stepPoints f := by
    simp [stepPoints, List.map_map, Function.comp_def]
  rw [h2] at h; exact h
theorem stepPoints_unop_sublist (u : UnOp) (f : Stairs P) : (stepPoints (unop u f)).Sublist (stepPoints f) :=
  stepPoints_map_sublist _ f
theorem numberOfSteps_map_le (u : Val → Val) (f : Stairs P) : (map u f).numberOfSteps ≤ f.numberOfSteps := by
  have := (stepPoints_map_sublist u f).length_le
  simpa [stepPoints, numberOfSteps] using this

/-- … and its step values are the images of the right limits of `f` there -/
theorem stepValues_map (u : Val → Val) (f : Stairs P) (hf : f.WF) :
    ∀ pv ∈ (map u f).steps, pv.2 = u (f.limit .right pv.1) := by
  intro pv hpv
  rw [← C03.step_values_are_right_limits (map u f) (wf_map u f hf) pv hpv]
  exact den_map u f hf false pv.1

/-- which step points survive: those where `u` keeps the two one-sided limits apart -/
theorem mem_stepPoints_map_iff (u : Val → Val) (f : Stairs P) (hf : f.WF) (p : P) :
    p ∈ stepPoints (map u f) ↔ u (f.limit .left p) ≠ u (f.limit .right p) := by
  have := C12b.mem_idx_iff_jump (map u f) (canonical_map u f hf) p
  rw [den_map u f hf, den_map u f hf] at this
  exact this

/-- **an injective unary operation on a canonical function keeps the rows one for one** -/
theorem map_of_injective (u : Val → Val) (hu : Function.Injective u) (f : Stairs P) (hm : f.IsMinimal) :
    map u f = ⟨u f.init, f.steps.map fun pv => (pv.1, u pv.2), f.closed⟩ :=
  canon_of_minimal _ (v3b_minimal_map_inj u hu f.init f.steps hm)

theorem views_map_of_injective (u : Val → Val) (hu : Function.Injective u) (f : Stairs P) (hm : f.IsMinimal) :
    stepPoints (map u f) = stepPoints f ∧ stepValues (map u f) = (stepValues f).map u ∧
    (map u f).numberOfSteps = f.numberOfSteps ∧ (map u f).init = u f.init := by
  rw [map_of_injective u hu f hm]
  simp [stepPoints, stepValues, numberOfSteps, List.map_map, Function.comp_def]

/-- **negate**: same step points, same number of steps, negated values (canonical `f`) -/
theorem views_negate (f : Stairs P) (hf : f.Canonical) :
    stepPoints (unop .neg f) = stepPoints f ∧ (unop .neg f).numberOfSteps = f.numberOfSteps ∧
    stepValues (unop .neg f) = (stepValues f).map (fun v => v.map (fun q => -q)) ∧
    (unop .neg f).init = f.init.map (fun q => -q) := by
  obtain ⟨h1, h2, h3, h4⟩ := views_map_of_injective _ v3b_neg_injective f hf.2
  exact ⟨h1, h3, h2, h4⟩
theorem numberOfSteps_negate (f : Stairs P) (hf : f.Canonical) : (unop .neg f).numberOfSteps = f.numberOfSteps :=
  (views_negate f hf).2.1

/-- needs canonical input (the operation canonicalises) … -/
theorem numberOfSteps_negate_needs_canonical : ∃ f : Stairs Int, f.WF ∧ (unop .neg f).numberOfSteps < f.numberOfSteps :=
  ⟨C12b.r₀, by decide +kernel, by decide +kernel⟩
/-- … and an injective operation: `invert` can merge pieces of a canonical function -/
theorem numberOfSteps_invert_drops : ∃ f : Stairs Int, f.Canonical ∧ (unop .invert f).numberOfSteps < f.numberOfSteps :=
  ⟨⟨some 1, [(0, some 2)], .left⟩, by decide +kernel, by decide +kernel⟩
example : C03.f₀.Canonical ∧ stepPoints (unop .neg C03.f₀) = [2, 4, 6] ∧
    stepValues (unop .neg C03.f₀) = [some (-3), none, some (-5)] := by decide +kernel

/-! ### two-operand operations -/

/-- the step points of a two-operand result come from the operands … -/
theorem stepPoints_combine_sublist (op : Val → Val → Val) (f g : Stairs P) (cl : Side) :
    (stepPoints (combine op f g cl)).Sublist (unionIdx (stepPoints f) (stepPoints g)) := by
  have h := stepPoints_canon_sublist
    (⟨op f.init g.init, combineSteps op f.init f.steps g.init g.steps, cl⟩ : Stairs P)
  have h2 : stepPoints (⟨op f.init g.init, combineSteps op f.init f.steps g.init g.steps, cl⟩ : Stairs P)
      = unionIdx (stepPoints f) (stepPoints g) := map_fst_combineSteps _ _ _ _ _
  rw [h2] at h; exact h

theorem stepPoints_combine_sub (op : Val → Val → Val) (f g : Stairs P) (cl : Side) :
    ∀ p ∈ stepPoints (combine op f g cl), p ∈ stepPoints f ∨ p ∈ stepPoints g := fun _ hp =>
  (mem_unionIdx _ _ _).mp ((stepPoints_combine_sublist op f g cl).subset hp)

theorem numberOfSteps_combine_le (op : Val → Val → Val) (f g : Stairs P) (cl : Side) :
    (combine op f g cl).numberOfSteps ≤ f.numberOfSteps + g.numberOfSteps := by
  have h1 := (stepPoints_combine_sublist op f g cl).length_le
  have h2 := v3b_unionIdx_length (stepPoints f) (stepPoints g)
  simp only [stepPoints, List.length_map] at h1 h2
  exact le_trans h1 h2

/-- … exactly: the points where the operation keeps the two one-sided limits apart -/
theorem mem_stepPoints_combine_iff (op : Val → Val → Val) (f g : Stairs P) (cl : Side) (hf : f.WF) (hg : g.WF)
    (p : P) : p ∈ stepPoints (combine op f g cl) ↔
      op (f.limit .left p) (g.limit .left p) ≠ op (f.limit .right p) (g.limit .right p) := by
  have := C12b.mem_idx_iff_jump (combine op f g cl) (canonical_combine op f g cl hf hg) p
  rw [den_combine op f g cl hf hg, den_combine op f g cl hf hg] at this
  exact this

/-- … in particular only genuine discontinuities of the operands (their canonical step points) -/
theorem stepPoints_combine_sub_canon (op : Val → Val → Val) (f g : Stairs P) (cl : Side) (hf : f.WF) (hg : g.WF) :
    ∀ p ∈ stepPoints (combine op f g cl), p ∈ stepPoints (canon f) ∨ p ∈ stepPoints (canon g) := by
  intro p hp
  by_contra hn
  rw [not_or] at hn
  have h1 := (limits_agree_iff f hf p).mpr hn.1
  have h2 := (limits_agree_iff g hg p).mpr hn.2
  exact (mem_stepPoints_combine_iff op f g cl hf hg p).mp hp (by rw [h1, h2])

/-- the step values of a two-operand result are the operation applied to the right limits -/
theorem stepValues_combine (op : Val → Val → Val) (f g : Stairs P) (cl : Side) (hf : f.WF) (hg : g.WF) :
    ∀ pv ∈ (combine op f g cl).steps, pv.2 = op (f.limit .right pv.1) (g.limit .right pv.1) := by
  intro pv hpv
  rw [← C03.step_values_are_right_limits _ (wf_combine op f g cl hf hg) pv hpv]
  exact den_combine op f g cl hf hg false pv.1

/-- **binary operators, mask, where, fillna**: `stepPoints h ⊆ stepPoints f ∪ stepPoints g` -/
theorem stepPoints_combineChecked_sub (op : Val → Val → Val) (f g h : Stairs P)
    (hres : combineChecked op f g = .ok h) : ∀ p ∈ stepPoints h, p ∈ stepPoints f ∨ p ∈ stepPoints g := by
  rw [v3b_ok_eq_combine op f g h hres]; exact stepPoints_combine_sub op f g _
theorem stepPoints_binop_sub (o : BinOp) (f g h : Stairs P) (hres : binop o f g = .ok h) :
    ∀ p ∈ stepPoints h, p ∈ stepPoints f ∨ p ∈ stepPoints g := stepPoints_combineChecked_sub _ f g h hres
theorem stepPoints_mask_sub (f g h : Stairs P) (hres : mask f g = .ok h) :
    ∀ p ∈ stepPoints h, p ∈ stepPoints f ∨ p ∈ stepPoints g := stepPoints_combineChecked_sub _ f g h hres
theorem stepPoints_where_sub (f g h : Stairs P) (hres : where_ f g = .ok h) :
    ∀ p ∈ stepPoints h, p ∈ stepPoints f ∨ p ∈ stepPoints g := stepPoints_combineChecked_sub _ f g h hres
theorem stepPoints_fillnaStairs_sub (f g h : Stairs P) (hres : fillnaStairs f g = .ok h) :
    ∀ p ∈ stepPoints h, p ∈ stepPoints f ∨ p ∈ stepPoints g := stepPoints_combineChecked_sub _ f g h hres
theorem numberOfSteps_binop_le (o : BinOp) (f g h : Stairs P) (hres : binop o f g = .ok h) :
    h.numberOfSteps ≤ f.numberOfSteps + g.numberOfSteps := by
  rw [v3b_ok_eq_combine _ f g h hres]; exact numberOfSteps_combine_le _ f g _
theorem mem_stepPoints_binop_iff (o : BinOp) (f g h : Stairs P) (hf : f.WF) (hg : g.WF) (hres : binop o f g = .ok h)
    (p : P) : p ∈ stepPoints h ↔
      o.eval (f.limit .left p) (g.limit .left p) ≠ o.eval (f.limit .right p) (g.limit .right p) := by
  rw [v3b_ok_eq_combine _ f g h hres]; exact mem_stepPoints_combine_iff _ f g _ hf hg p
theorem stepValues_binop (o : BinOp) (f g h : Stairs P) (hf : f.WF) (hg : g.WF) (hres : binop o f g = .ok h) :
    ∀ pv ∈ h.steps, pv.2 = o.eval (f.limit .right pv.1) (g.limit .right pv.1) := by
  rw [v3b_ok_eq_combine _ f g h hres]; exact stepValues_combine _ f g _ hf hg

/-- the inclusion can be strict: steps cancel -/
example : (binop .sub C03.f₀ C03.f₀).toOption.map stepPoints = some [4, 6] ∧ stepPoints C03.f₀ = [2, 4, 6] := by
  decide +kernel

/-- **a scalar operand**: the general path against a constant is the unary path -/
theorem combine_const_right (op : Val → Val → Val) (f : Stairs P) (c : Val) (cl' cl : Side) (hf : f.WF) :
    combine op f (const c cl') cl = map (fun v => op v c) (withClosed f cl) := by
  unfold combine map withClosed const
  congr 2
  unfold combineSteps
  simp only [List.map_nil, lim_nil]
  rw [a18b_unionIdx_nil_right, List.map_map]
  apply List.map_congr_left
  intro pv hpv
  simp only [Function.comp_def]
  rw [v3b_lim_at_own_point f.init f.steps hf pv hpv]

/-- adding a defined scalar to a canonical function moves no step point -/
theorem views_add_scalar (f h : Stairs P) (c : Rat) (hf : f.Canonical)
    (hres : binopO .add (.st f) (.sc (some c)) = some (.ok h)) :
    stepPoints h = stepPoints f ∧ h.numberOfSteps = f.numberOfSteps ∧
    stepValues h = (stepValues f).map (fun v => vadd v (some c)) ∧ h.init = vadd f.init (some c) := by
  simp only [binopO, sanitize, Option.map_some, Option.some.injEq, binop] at hres
  have hh := v3b_ok_eq_combine _ _ _ _ hres
  rw [combine_const_right _ f (some c) _ _ hf.1] at hh
  obtain ⟨h1, h2, h3, h4⟩ := views_map_of_injective _ (v3b_vadd_right_injective c) (withClosed f (sideOf f (const (some c) f.closed))) hf.2
  rw [hh]
  exact ⟨h1, h3, h2, h4⟩

/-! ### clip and mask((a, b)) -/

theorem stepPoints_indicator (lo hi : Option P) (cl : Side) :
    ∀ p ∈ stepPoints (indicator lo hi cl), lo = some p ∨ hi = some p := by
  intro p hp
  cases lo with
  | none =>
    cases hi with
    | none => simp [indicator, stepPoints] at hp
    | some b =>
      have : p = b := by simpa [indicator, stepPoints] using hp
      right; rw [this]
  | some a =>
    cases hi with
    | none =>
      have : p = a := by simpa [indicator, stepPoints] using hp
      left; rw [this]
    | some b =>
      have : p = a ∨ p = b := by simpa [indicator, stepPoints] using hp
      rcases this with h | h
      · left; rw [h]
      · right; rw [h]

/-- **clip**: `stepPoints (clip f a b) ⊆ stepPoints f ∪ {a, b}` -/
theorem stepPoints_clip_sub (f r : Stairs P) (lo hi : Option P) (hr : clip f lo hi = .ok r) :
    ∀ p ∈ stepPoints r, p ∈ stepPoints f ∨ lo = some p ∨ hi = some p := by
  by_cases hb : boundsOk lo hi = true
  · rw [clip_ok f lo hi hb] at hr
    injection hr with hr; subst hr
    intro p hp
    rcases stepPoints_combine_sub _ _ _ _ p hp with h | h
    · exact Or.inl h
    · exact Or.inr (stepPoints_indicator lo hi f.closed p h)
  · rw [clip_error f lo hi (by simpa using hb)] at hr; cases hr

theorem numberOfSteps_clip_le (f r : Stairs P) (lo hi : Option P) (hr : clip f lo hi = .ok r) :
    r.numberOfSteps ≤ f.numberOfSteps + 2 := by
  by_cases hb : boundsOk lo hi = true
  · rw [clip_ok f lo hi hb] at hr
    injection hr with hr; subst hr
    refine le_trans (numberOfSteps_combine_le _ _ _ _) ?_
    cases lo <;> cases hi <;> simp [indicator, numberOfSteps]
  · rw [clip_error f lo hi (by simpa using hb)] at hr; cases hr

/-- … and no step point lies strictly outside the window -/
theorem stepPoints_clip_within (f r : Stairs P) (lo hi : Option P) (hf : f.WF) (hr : clip f lo hi = .ok r) :
    ∀ p ∈ stepPoints r, (∀ a, lo = some a → a ≤ p) ∧ (∀ b, hi = some b → p ≤ b) := by
  have hb : boundsOk lo hi = true := by
    by_contra hb
    rw [clip_error f lo hi (by simpa using hb)] at hr; cases hr
  intro p hp
  have hjump := (C12b.mem_idx_iff_jump r (canonical_clip f lo hi hf hb r hr).1 p).mp hp
  rw [den_clip f lo hi hf hb r hr, den_clip f lo hi hf hb r hr] at hjump
  constructor
  · intro a ha
    by_contra hlt
    have hlt' : p < a := not_le.mp hlt
    apply hjump
    subst ha
    simp [inWindow, not_reached_of_lt hlt']
  · intro b hb'
    by_contra hlt
    have hlt' : b < p := not_le.mp hlt
    apply hjump
    subst hb'
    simp [inWindow, reached_of_lt hlt']

example : (clip C03.f₀ (some 3) (some 5)).toOption.map (fun r => (stepPoints r, stepValues r, r.init)) =
    some ([3, 4], [some 3, none], none) := by decide +kernel

theorem stepPoints_layerIndicator (lo hi : Option P) (cl : Side) :
    ∀ p ∈ stepPoints (layerIndicator lo hi cl), lo = some p ∨ hi = some p := by
  intro p hp
  unfold layerIndicator at hp
  have hp' := (stepPoints_canon_sublist _).subset hp
  cases lo with
  | none =>
    cases hi with
    | none => simp [stepPoints] at hp'
    | some b =>
      have : p = b := by simpa [stepPoints] using hp'
      right; rw [this]
  | some a =>
    cases hi with
    | none =>
      have : p = a := by simpa [stepPoints] using hp'
      left; rw [this]
    | some b =>
      have : p = a ∨ p = b := by
        by_cases h1 : a < b
        · simpa [stepPoints, h1] using hp'
        · by_cases h2 : b < a
          · have : p = b ∨ p = a := by simpa [stepPoints, h1, h2] using hp'
            exact this.symm
          · simp [stepPoints, h1, h2] at hp'
      rcases this with h | h
      · left; rw [h]
      · right; rw [h]

/-- **mask((a, b))**: `stepPoints ⊆ stepPoints f ∪ {a, b}` -/
theorem stepPoints_maskTuple_sub (f : Stairs P) (lo hi : Option P) :
    ∀ p ∈ stepPoints (maskTuple f lo hi), p ∈ stepPoints f ∨ lo = some p ∨ hi = some p := by
  intro p hp
  rcases stepPoints_combine_sub _ _ _ _ p hp with h | h
  · exact Or.inl h
  · exact Or.inr (stepPoints_layerIndicator lo hi f.closed p h)

/-! ### shift -/

theorem shift_eq_mapPoints {P : Type} [Add P] (f : Stairs P) (d : P) : shift f d = mapPoints (· + d) f := rfl

/-- **shift**: `stepPoints (shift f d) = stepPoints f + d`, values, count and initial value unchanged, the
frame rows are translated -/
theorem views_shift {P : Type} [LinearOrder P] [Add P] (f : Stairs P) (d : P) :
    stepPoints (shift f d) = (stepPoints f).map (· + d) ∧ stepValues (shift f d) = stepValues f ∧
    (shift f d).numberOfSteps = f.numberOfSteps ∧ (shift f d).init = f.init ∧
    toFrame (shift f d) = (toFrame f).map (C17b.mapRow (· + d)) :=
  ⟨C17b.stepPoints_mapPoints (· + d) f, C17b.stepValues_mapPoints (· + d) f,
    C17b.numberOfSteps_mapPoints (· + d) f, rfl, C17b.toFrame_mapPoints (· + d) f⟩

example : stepPoints (shift C03.f₀ 10) = [12, 14, 16] ∧ stepValues (shift C03.f₀ 10) = stepValues C03.f₀ := by
  decide +kernel

end SC.Props.C03b
