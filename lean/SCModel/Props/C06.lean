import SCModel.Lemmas.Masking
import Mathlib.Data.Int.Order.Basic
/-!
# C06 — clip / mask / where restrict the domain exactly; isna / notna report it

`Den h st x` is the `st`-sided limit of `h`.  For right limits the window of `clip(a, b)` is `a ≤ x < b`, for
left limits `a < x ≤ b`: the *function* is `f` on the interval from `a` to `b` under f's own closed
convention and undefined elsewhere.
-/
set_option linter.unusedSectionVars false
namespace SC.Props.C06
open SC SC.Stairs
variable {P : Type} [LinearOrder P]

/-- **clip**: equals `f` between the bounds and is undefined elsewhere; a missing bound leaves that side
unrestricted; the result is canonical and keeps the closed side -/
theorem clip_spec (f r : Stairs P) (lo hi : Option P) (hf : f.WF) (hb : boundsOk lo hi = true)
    (hr : clip f lo hi = .ok r) :
    r.Canonical ∧ r.closed = f.closed ∧
      ∀ st x, Den r st x = if inWindow st lo hi x then Den f st x else none :=
  ⟨(canonical_clip f lo hi hf hb r hr).1, (canonical_clip f lo hi hf hb r hr).2,
   fun st x => den_clip f lo hi hf hb r hr st x⟩

/-- the window in plain order terms -/
theorem window_right (lo hi : Option P) (x : P) :
    inWindow false lo hi x = true ↔ (∀ a, lo = some a → a ≤ x) ∧ (∀ b, hi = some b → x < b) :=
  inWindow_right lo hi x
theorem window_left (lo hi : Option P) (x : P) :
    inWindow true lo hi x = true ↔ (∀ a, lo = some a → a < x) ∧ (∀ b, hi = some b → x ≤ b) :=
  inWindow_left lo hi x

/-- `clip` succeeds exactly when `lower < upper` (with ±∞ for missing bounds), else `ValueError` -/
theorem clip_total (f : Stairs P) (lo hi : Option P) :
    (boundsOk lo hi = true → ∃ r, clip f lo hi = .ok r) ∧
    (boundsOk lo hi = false → clip f lo hi = .error .valueError) :=
  ⟨fun h => ⟨_, clip_ok f lo hi h⟩, fun h => clip_error f lo hi h⟩

/-- without bounds nothing is restricted -/
theorem clip_unbounded (f r : Stairs P) (hf : f.WF) (hr : clip f none none = .ok r) (st : Bool) (x : P) :
    Den r st x = Den f st x := by
  rw [den_clip f none none hf rfl r hr]; simp [inWindow]

/-- **mask**: `f` wherever `g` is defined and zero, undefined elsewhere -/
theorem mask_spec (f g h : Stairs P) (hf : f.WF) (hg : g.WF) (hres : mask f g = .ok h) :
    h.Canonical ∧ ∀ st x, Den h st x = if Den g st x = some 0 then Den f st x else none := by
  obtain ⟨hc, _, hp⟩ := combineChecked_ok maskOp f g h hf hg hres
  exact ⟨hc, fun st x => by rw [hp]; rfl⟩

/-- **where**: `f` wherever `g` is defined and non-zero, undefined elsewhere -/
theorem where_spec (f g h : Stairs P) (hf : f.WF) (hg : g.WF) (hres : where_ f g = .ok h) :
    h.Canonical ∧ ∀ st x, Den h st x =
      match Den g st x with
      | some q => if q = 0 then none else Den f st x
      | none => none := by
  obtain ⟨hc, _, hp⟩ := combineChecked_ok whereOp f g h hf hg hres
  exact ⟨hc, fun st x => by rw [hp]; rfl⟩

/-- mask and where never fail except for a closed-side mismatch (C15) -/
theorem mask_where_total (f g : Stairs P) (h : ¬ Mismatch f g) :
    (∃ r, mask f g = .ok r) ∧ (∃ r, where_ f g = .ok r) :=
  ⟨⟨_, combineChecked_total maskOp f g h⟩, ⟨_, combineChecked_total whereOp f g h⟩⟩

/-- **tuple shorthand**: `where((a, b))` *is* `clip(a, b)` -/
theorem where_tuple_eq_clip (f : Stairs P) (lo hi : Option P) : whereTuple f lo hi = clip f lo hi := rfl

/-- the tuple `(a, b)` stands for the indicator of the interval: where-ing by the indicator is clip -/
theorem where_indicator_eq_clip (f r : Stairs P) (lo hi : Option P) (hb : boundsOk lo hi = true)
    (hr : clip f lo hi = .ok r) : where_ f (indicator lo hi f.closed) = .ok r := by
  rw [clip_ok f lo hi hb] at hr
  injection hr with hr; subst hr
  unfold where_
  have hm : ¬ Mismatch f (indicator lo hi f.closed) :=
    not_mismatch_of_closed_eq f (indicator lo hi f.closed) (by cases lo <;> cases hi <;> rfl)
  rw [combineChecked_total _ _ _ hm]
  have hs : sideOf f (indicator lo hi f.closed) = f.closed := by
    unfold sideOf
    have : (indicator lo hi f.closed).closed = f.closed := by cases lo <;> cases hi <;> rfl
    rw [this]; cases f.hasSteps <;> cases (indicator lo hi f.closed).hasSteps <;> simp
  rw [hs]

/-- **mask((a, b))**: undefined inside the window, `f` outside; canonical, same closed side -/
theorem mask_tuple_spec (f : Stairs P) (lo hi : Option P) (hf : f.WF) (hb : boundsOk lo hi = true) :
    (maskTuple f lo hi).Canonical ∧ (maskTuple f lo hi).closed = f.closed ∧
      ∀ st x, Den (maskTuple f lo hi) st x = if inWindow st lo hi x then none else Den f st x := by
  refine ⟨canonical_combine _ _ _ _ hf (wf_layerIndicator lo hi f.closed), rfl, fun st x => ?_⟩
  unfold maskTuple
  rw [den_combine _ _ _ _ hf (wf_layerIndicator lo hi f.closed), den_layerIndicator lo hi f.closed hb]
  cases inWindow st lo hi x <;> simp [maskOp]

/-- **isna / notna**: everywhere-defined 0/1 indicators of where `f` is undefined / defined -/
theorem isna_spec (f : Stairs P) (hf : f.WF) (st : Bool) (x : P) :
    Den (unop .isna f) st x = some (if Den f st x = none then 1 else 0) := by
  rw [show Den (unop .isna f) st x = UnOp.isna.eval (Den f st x) from den_map _ f hf st x]
  cases Den f st x <;> simp [UnOp.eval, b2r]

theorem notna_spec (f : Stairs P) (hf : f.WF) (st : Bool) (x : P) :
    Den (unop .notna f) st x = some (if Den f st x = none then 0 else 1) := by
  rw [show Den (unop .notna f) st x = UnOp.notna.eval (Den f st x) from den_map _ f hf st x]
  cases Den f st x <;> simp [UnOp.eval, b2r]

theorem isna_notna_canonical (f : Stairs P) (hf : f.WF) :
    (unop .isna f).Canonical ∧ (unop .notna f).Canonical :=
  ⟨canonical_map _ f hf, canonical_map _ f hf⟩

/-- re-clipping composes: the second window only further restricts -/
theorem clip_clip (f r s : Stairs P) (lo hi lo' hi' : Option P) (hf : f.WF)
    (hb : boundsOk lo hi = true) (hb' : boundsOk lo' hi' = true)
    (hr : clip f lo hi = .ok r) (hs : clip r lo' hi' = .ok s) (st : Bool) (x : P) :
    Den s st x = if inWindow st lo hi x && inWindow st lo' hi' x then Den f st x else none := by
  rw [den_clip r lo' hi' (canonical_clip f lo hi hf hb r hr).1.1 hb' s hs,
      den_clip f lo hi hf hb r hr]
  cases inWindow st lo hi x <;> cases inWindow st lo' hi' x <;> simp

/-! non-vacuity -/
def f₀ : Stairs Int := ⟨some 1, [(2, some 3), (4, none), (6, some 5)], .right⟩
def g₀ : Stairs Int := ⟨none, [(1, some 0), (3, some 7), (5, some 0)], .right⟩
example : f₀.WF ∧ g₀.WF ∧ boundsOk (some (3 : Int)) (some 7) = true := by decide +kernel
example : clip f₀ (some 3) (some 7) = .ok ⟨none, [(3, some 3), (4, none), (6, some 5), (7, none)], .right⟩ := by
  decide +kernel
example : where_ f₀ g₀ = .ok ⟨none, [(3, some 3), (4, none)], .right⟩ := by decide +kernel
example : mask f₀ g₀ = .ok ⟨none, [(1, some 1), (2, some 3), (3, none), (6, some 5)], .right⟩ := by decide +kernel
example : clip f₀ (some 5) (some 5) = .error .valueError := by decide +kernel

end SC.Props.C06
