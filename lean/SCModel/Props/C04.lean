import SCModel.Lemmas.Pointwise
import Mathlib.Data.Int.Order.Basic
/-!
# C04 — Relational operators are pointwise 0/1 indicators on the common domain

For `R ∈ {<, ≤, >, ≥, =, ≠}` the result is 1 where both operands are defined and `f(x) R g(x)` holds, 0 where
both are defined and it does not, undefined exactly where either operand is undefined; and it is an ordinary
(canonical) step function, so every further model operation applies to it.
-/
set_option linter.unusedSectionVars false
namespace SC.Props.C04
open SC SC.Stairs
variable {P : Type} [LinearOrder P]

/-- the mathematical relation behind each operator -/
def Rel.holds : Rel → Rat → Rat → Prop
  | .lt, a, b => a < b
  | .le, a, b => a ≤ b
  | .gt, a, b => a > b
  | .ge, a, b => a ≥ b
  | .eq, a, b => a = b
  | .ne, a, b => a ≠ b

theorem rel_eval_iff (r : Rel) (a b : Rat) : r.eval a b = true ↔ Rel.holds r a b := by
  cases r <;> simp [Rel.eval, Rel.holds]

/-- the indicator at one point -/
theorem vrel_spec (r : Rel) (a b : Val) :
    vrel r a b = match a, b with
      | some x, some y => some (if r.eval x y then 1 else 0)
      | _, _ => none := by
  cases a <;> cases b <;> simp [vrel, b2r]

/-- **C04.** A successful relational operation is the pointwise 0/1 indicator, for both one-sided limits. -/
theorem rel_pointwise (r : Rel) (f g h : Stairs P) (hf : f.WF) (hg : g.WF)
    (hres : binop (.rel r) f g = .ok h) (st : Bool) (x : P) :
    Den h st x = match Den f st x, Den g st x with
      | some a, some b => some (if r.eval a b then 1 else 0)
      | _, _ => none := by
  rw [(combineChecked_ok (BinOp.rel r).eval f g h hf hg hres).2.2 st x]
  exact vrel_spec r _ _

/-- 1 exactly where both are defined and the relation holds -/
theorem rel_one_iff (r : Rel) (f g h : Stairs P) (hf : f.WF) (hg : g.WF)
    (hres : binop (.rel r) f g = .ok h) (st : Bool) (x : P) :
    Den h st x = some 1 ↔ ∃ a b, Den f st x = some a ∧ Den g st x = some b ∧ Rel.holds r a b := by
  rw [rel_pointwise r f g h hf hg hres]
  cases hfx : Den f st x with
  | none => simp
  | some a =>
    cases hgx : Den g st x with
    | none => simp
    | some b =>
      simp only [Option.some.injEq, exists_and_left, exists_eq_left', ← rel_eval_iff]
      by_cases hr : r.eval a b = true <;> simp [hr]

/-- 0 exactly where both are defined and the relation fails -/
theorem rel_zero_iff (r : Rel) (f g h : Stairs P) (hf : f.WF) (hg : g.WF)
    (hres : binop (.rel r) f g = .ok h) (st : Bool) (x : P) :
    Den h st x = some 0 ↔ ∃ a b, Den f st x = some a ∧ Den g st x = some b ∧ ¬ Rel.holds r a b := by
  rw [rel_pointwise r f g h hf hg hres]
  cases hfx : Den f st x with
  | none => simp
  | some a =>
    cases hgx : Den g st x with
    | none => simp
    | some b =>
      simp only [Option.some.injEq, exists_and_left, exists_eq_left', ← rel_eval_iff]
      by_cases hr : r.eval a b = true <;> simp [hr]

/-- undefined exactly where either operand is undefined -/
theorem rel_undefined_iff (r : Rel) (f g h : Stairs P) (hf : f.WF) (hg : g.WF)
    (hres : binop (.rel r) f g = .ok h) (st : Bool) (x : P) :
    Den h st x = none ↔ Den f st x = none ∨ Den g st x = none := by
  rw [rel_pointwise r f g h hf hg hres]
  cases Den f st x <;> cases Den g st x <;> simp

/-- the result is an ordinary step function (sorted, minimal), so it can be used in any further operation -/
theorem rel_canonical (r : Rel) (f g h : Stairs P) (hf : f.WF) (hg : g.WF)
    (hres : binop (.rel r) f g = .ok h) : h.Canonical :=
  (combineChecked_ok (BinOp.rel r).eval f g h hf hg hres).1

/-- scalar on the right / on the left (NaN allowed): the comparison against the constant -/
theorem rel_scalar_right (r : Rel) (f : Stairs P) (c : Val) (hf : f.WF) :
    ∃ h, binopO (.rel r) (.st f) (.sc c) = some (.ok h) ∧ h.Canonical ∧
      ∀ st x, Den h st x = vrel r (Den f st x) c := by
  refine ⟨combine (vrel r) f (const c f.closed) (sideOf f (const c f.closed)), ?_, ?_, ?_⟩
  · simp only [binopO, sanitize, Option.map_some, binop, BinOp.eval]
    rw [combineChecked_total _ _ _ (not_mismatch_const_right f c f.closed)]
  · exact canonical_combine _ _ _ _ hf (wf_const c f.closed)
  · intro st x; rw [den_combine _ _ _ _ hf (wf_const c f.closed)]; rfl

theorem rel_scalar_left (r : Rel) (g : Stairs P) (c : Val) (hg : g.WF) :
    ∃ h, binopO (.rel r) (.sc c) (.st g) = some (.ok h) ∧ h.Canonical ∧
      ∀ st x, Den h st x = vrel r c (Den g st x) := by
  refine ⟨combine (vrel r) (const c g.closed) g (sideOf (const c g.closed) g), ?_, ?_, ?_⟩
  · simp only [binopO, sanitize, Option.map_some, binop, BinOp.eval]
    rw [combineChecked_total _ _ _ (not_mismatch_const_left g c g.closed)]
  · exact canonical_combine _ _ _ _ (wf_const c g.closed) hg
  · intro st x; rw [den_combine _ _ _ _ (wf_const c g.closed) hg]; rfl

/-- a follow-up operation on the result is again total and pointwise (here: adding a scalar) -/
theorem rel_then_add (r : Rel) (f g h : Stairs P) (hf : f.WF) (hg : g.WF)
    (hres : binop (.rel r) f g = .ok h) (c : Rat) :
    ∃ k, binopO .add (.st h) (.sc (some c)) = some (.ok k) ∧
      ∀ st x, Den k st x = vadd (Den h st x) (some c) := by
  have hc := rel_canonical r f g h hf hg hres
  refine ⟨combine vadd h (const (some c) h.closed) (sideOf h (const (some c) h.closed)), ?_, ?_⟩
  · simp only [binopO, sanitize, Option.map_some, binop, BinOp.eval]
    rw [combineChecked_total _ _ _ (not_mismatch_const_right h _ h.closed)]
  · intro st x; rw [den_combine _ _ _ _ hc.1 (wf_const _ h.closed)]; rfl

/-! non-vacuity -/
def f₀ : Stairs Int := ⟨some 0, [(1, some 2), (3, none)], .right⟩
def g₀ : Stairs Int := ⟨some 1, [(2, some 2)], .right⟩
example : f₀.WF ∧ g₀.WF := by decide +kernel
example : binop (.rel .lt) f₀ g₀ = .ok ⟨some 1, [(1, some 0), (3, none)], .right⟩ := by decide +kernel
example : binop (.rel .eq) f₀ g₀ = .ok ⟨some 0, [(2, some 1), (3, none)], .right⟩ := by decide +kernel

end SC.Props.C04
