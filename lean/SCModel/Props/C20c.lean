import SCModel.Props.C06
import SCModel.Props.C11
import SCModel.Props.C17b
import SCModel.Props.C20
import SCModel.Lemmas.Shift20c
/-!
# C20c — laws relating `shift` / `diff` / `clip` / `resample` to the other operations

1. `diff` is `f − f.shift(d)` (the model defines it so: `C20.diff_def`); here: the explicit object
   (`diff_eq_combine`), its characterisation among canonical objects (`diff_unique`), and the laws
   `diff ∘ shift = shift ∘ diff`, `diff f 0 = f − f`.
2. `shift` is a homomorphism for every operation of the model – equalities of *objects*, error cases
   included (`shift_binop`, `shift_mask`, `shift_where`, `shift_fillna…`, `shift_unop`, `shift_clip`,
   `shift_maskTuple`, `shift_layer`, `shift_aggregate`, `shift_ffill` …).  The key observation is
   `shift f d = mapPoints (· + d) f` (definitionally), so everything proved for order-preserving
   re-labellings in C17 / C17b applies.  (`shift f 0 = f`, `shift (shift f a) b = shift f (a + b)` are in C20.)
3. statistics are invariant under shifting the function, and the window along with it (`integral_shift`,
   `mean_shift`, `var_shift`, `valueSums_shift`, `ecdf_shift`, `percentile_shift`, `hist_shift`,
   `windowed_stat_shift`, `minIn_shift`, `cov_shift`, `shift_resampleWith`, `rollingMean_shift` …).
4. `resample` with a slicer statistic (`mean`, `median`, `mode`, `min` / `max` over intervals closed like `f`)
   of a function that is constant and defined on every slice of a tiling grid gives the function back
   (`resample_fixed`, `resampleBy_fixed`, `resampleBy_fixed_onGrid`), and `resample` is idempotent
   (`resample_result`, `resampleBy_idempotent`).  In the model (as in the library, C11) `resample` keeps `f`
   outside the span of the grid, so "f restricted to the span" is `f` itself here.
   Slicer `max` / `min` over intervals closed on the *other* side also see the far endpoint and are not
   faithful (counter-example below `slicerExtreme_constOn`).
5. `clip` laws: `f.clip(a,b).clip(c,d) = f.clip(max a c, min b d)` as objects when the windows overlap
   (`clip_clip_eq`); the unconditional statement is FALSE (`clip_clip_unconditional_false`): for disjoint
   windows the left side is the undefined function (`clip_clip_disjoint`), the right side a `ValueError`;
   all cases in `clip_clip_full`.  `clip` commutes with every pointwise two-operand operation as objects
   for operands closed on the same side (`clip_binop`, `clip_mask`, `clip_where`, `clip_fillnaStairs`,
   `clip_binop_scalar`, `clip_unop`); without that hypothesis it is FALSE
   (`clip_binop_needs_same_side_a/b`).
-/
set_option linter.unusedSectionVars false
namespace SC.Props.C20c
open SC SC.Stairs SC.Props.C17 SC.Props.C17b

/-! ## 1–2. `shift` as a re-labelling; `shift` is a homomorphism -/
section group
variable {P : Type} [AddCommGroup P] [LinearOrder P] [IsOrderedAddMonoid P]

/-- `shift(d)` *is* the re-labelling of the domain by `x ↦ x + d` -/
theorem shift_eq_mapPoints (f : Stairs P) (d : P) : shift f d = mapPoints (· + d) f := rfl

theorem add_right_orderPreserving (d : P) : OrderPreserving (fun x : P => x + d) :=
  fun _ _ => (add_lt_add_iff_right d).symm

/-- shifting `none`/`some` window bounds -/
abbrev shiftB (b : Option P) (d : P) : Option P := b.map (· + d)

@[simp] theorem shiftB_some (a d : P) : shiftB (some a) d = some (a + d) := rfl
@[simp] theorem shiftB_none (d : P) : shiftB (none : Option P) d = none := rfl

/-- `canon` commutes with `shift` -/
theorem shift_canon (f : Stairs P) (d : P) : shift f.canon d = (shift f d).canon :=
  (canon_mapPoints (· + d) f).symm

/-- **the general two-operand path commutes with `shift`** (object equality, any value-level operator) -/
theorem shift_combine (op : Val → Val → Val) (f g : Stairs P) (cl : Side) (d : P) :
    shift (combine op f g cl) d = combine op (shift f d) (shift g d) cl :=
  (combine_mapPoints (· + d) (add_right_orderPreserving d) op f g cl).symm

/-- … including the closed-side check: the same error on both sides -/
theorem shift_combineChecked (op : Val → Val → Val) (f g : Stairs P) (d : P) :
    (combineChecked op f g).map (fun h => shift h d) = combineChecked op (shift f d) (shift g d) :=
  (combineChecked_mapPoints (· + d) (add_right_orderPreserving d) op f g).symm

/-- **shift is a homomorphism for every arithmetic / relational / logical operator**:
`(f ∘ g).shift(d) = f.shift(d) ∘ g.shift(d)` as objects; a closed-side mismatch on one side is the same
error on the other -/
theorem shift_binop (o : BinOp) (f g : Stairs P) (d : P) :
    (binop o f g).map (fun h => shift h d) = binop o (shift f d) (shift g d) :=
  shift_combineChecked o.eval f g d

theorem shift_binop_ok (o : BinOp) (f g h : Stairs P) (d : P) (hr : binop o f g = .ok h) :
    binop o (shift f d) (shift g d) = .ok (shift h d) := by
  rw [← shift_binop, hr]; rfl

theorem shift_binop_error (o : BinOp) (f g : Stairs P) (d : P) (e : Err) (hr : binop o f g = .error e) :
    binop o (shift f d) (shift g d) = .error e := by
  rw [← shift_binop, hr]; rfl

/-- the error case spelled out: the shifted operands mismatch iff the operands do -/
theorem mismatch_shift (f g : Stairs P) (d e : P) : Mismatch (shift f d) (shift g e) ↔ Mismatch f g := by
  unfold Mismatch
  have h1 : (shift f d).hasSteps = f.hasSteps := hasSteps_mapPoints (· + d) f
  have h2 : (shift g e).hasSteps = g.hasSteps := hasSteps_mapPoints (· + e) g
  rw [h1, h2]; rfl

theorem shift_binop_error_iff (o : BinOp) (f g : Stairs P) (d : P) :
    binop o (shift f d) (shift g d) = .error .closedMismatch ↔ binop o f g = .error .closedMismatch := by
  unfold binop
  rw [combineChecked_error_iff, combineChecked_error_iff, mismatch_shift]

theorem shift_mask (f g : Stairs P) (d : P) :
    (mask f g).map (fun h => shift h d) = mask (shift f d) (shift g d) := shift_combineChecked maskOp f g d
theorem shift_where (f g : Stairs P) (d : P) :
    (where_ f g).map (fun h => shift h d) = where_ (shift f d) (shift g d) := shift_combineChecked whereOp f g d
theorem shift_fillnaStairs (f g : Stairs P) (d : P) :
    (fillnaStairs f g).map (fun h => shift h d) = fillnaStairs (shift f d) (shift g d) :=
  shift_combineChecked fillOp f g d

/-- every value-wise operation commutes with `shift` … -/
theorem shift_map (u : Val → Val) (f : Stairs P) (d : P) : shift (Stairs.map u f) d = Stairs.map u (shift f d) :=
  (map_mapPoints (· + d) u f).symm
/-- … in particular `negate`, `invert`, `make_boolean`, `isna`, `notna` … -/
theorem shift_unop (u : UnOp) (f : Stairs P) (d : P) : shift (unop u f) d = unop u (shift f d) :=
  shift_map u.eval f d
theorem shift_negate (f : Stairs P) (d : P) : shift (unop .neg f) d = unop .neg (shift f d) := shift_unop .neg f d
/-- … and `fillna(scalar)` -/
theorem shift_fillnaScalar (f : Stairs P) (v : Val) (d : P) :
    shift (fillnaScalar f v) d = fillnaScalar (shift f d) v := shift_map _ f d
theorem shift_ffill (f : Stairs P) (d : P) : shift (ffill f) d = ffill (shift f d) :=
  (ffill_mapPoints (· + d) f).symm
theorem shift_bfill (f : Stairs P) (d : P) : shift (bfill f) d = bfill (shift f d) :=
  (bfill_mapPoints (· + d) f).symm

/-- a step-free function is not moved -/
theorem shift_const (c : Val) (cl : Side) (d : P) : shift (const c cl : Stairs P) d = const c cl := rfl

/-- operators with a scalar operand: `(f + 3).shift(d) = f.shift(d) + 3` … -/
theorem shift_binop_scalar_right (o : BinOp) (f : Stairs P) (c : Val) (d : P) :
    (binopO o (.st f) (.sc c)).map (Except.map fun h => shift h d) = binopO o (.st (shift f d)) (.sc c) :=
  (binopO_mapPoints (· + d) (add_right_orderPreserving d) o (.st f) (.sc c)).symm
theorem shift_binop_scalar_left (o : BinOp) (c : Val) (g : Stairs P) (d : P) :
    (binopO o (.sc c) (.st g)).map (Except.map fun h => shift h d) = binopO o (.sc c) (.st (shift g d)) :=
  (binopO_mapPoints (· + d) (add_right_orderPreserving d) o (.sc c) (.st g)).symm

/-- **`clip` commutes with `shift` when the bounds move along**:
`f.clip(a, b).shift(d) = f.shift(d).clip(a + d, b + d)`, a missing bound stays missing, and the `ValueError`
for `a ≥ b` is the same on both sides -/
theorem shift_clip (f : Stairs P) (lo hi : Option P) (d : P) :
    (clip f lo hi).map (fun h => shift h d) = clip (shift f d) (shiftB lo d) (shiftB hi d) :=
  (clip_mapPoints (· + d) (add_right_orderPreserving d) f lo hi).symm

theorem shift_clip_some (f : Stairs P) (a b d : P) :
    (clip f (some a) (some b)).map (fun h => shift h d) = clip (shift f d) (some (a + d)) (some (b + d)) :=
  shift_clip f (some a) (some b) d

theorem shift_whereTuple (f : Stairs P) (lo hi : Option P) (d : P) :
    (whereTuple f lo hi).map (fun h => shift h d) = whereTuple (shift f d) (shiftB lo d) (shiftB hi d) :=
  shift_clip f lo hi d

theorem shift_maskTuple (f : Stairs P) (lo hi : Option P) (d : P) :
    shift (maskTuple f lo hi) d = maskTuple (shift f d) (shiftB lo d) (shiftB hi d) :=
  (maskTuple_mapPoints (· + d) (add_right_orderPreserving d) f lo hi).symm

theorem shift_indicator (lo hi : Option P) (cl : Side) (d : P) :
    shift (indicator lo hi cl) d = indicator (shiftB lo d) (shiftB hi d) cl := by
  cases lo <;> cases hi <;> rfl

/-- `layer` with the intervals moved along -/
theorem shift_layer (f : Stairs P) (ts : List (Triple P)) (d : P) :
    shift (layer f ts) d = layer (shift f d) (ts.map (mapTriple (· + d))) :=
  (layer_mapPoints (· + d) (add_right_orderPreserving d) f ts).symm

/-- collection aggregations (`sum`, `mean`, `median`, `min`, `max`, logical) of shifted members -/
theorem shift_aggregate (F : AggFn) (ms : List (Stairs P)) (d : P) :
    (aggregate F ms).map (fun h => shift h d) = aggregate F (ms.map fun m => shift m d) :=
  (aggregate_mapPoints (· + d) (add_right_orderPreserving d) F ms).symm

/-- `shift(d)` is injective, and `identical` cannot tell a pair from the shifted pair -/
theorem shift_injective (d : P) : Function.Injective (fun f : Stairs P => shift f d) :=
  mapPoints_injective (· + d) (add_right_orderPreserving d)
theorem shift_identical (f g : Stairs P) (d : P) : identical (shift f d) (shift g d) = identical f g :=
  identical_mapPoints (· + d) (add_right_orderPreserving d) f g

/-- shifts commute with each other -/
theorem shift_comm (f : Stairs P) (a b : P) : shift (shift f a) b = shift (shift f b) a := by
  rw [shift_shift, shift_shift, add_comm]

/-! ### `diff` -/

/-- **`diff(d)` as an explicit object**: it never raises, and is the canonical form of the pointwise
difference of `f` and `f.shift(d)` on the union of their step points, closed like `f` -/
theorem diff_eq_combine (f : Stairs P) (d : P) : diff f d = .ok (combine vsub f (shift f d) f.closed) := by
  have h := combineChecked_total BinOp.sub.eval f (shift f d) (not_mismatch_of_closed_eq f _ rfl)
  have hs : sideOf f (shift f d) = f.closed := by unfold sideOf; simp
  rw [hs] at h
  exact h

/-- `diff` commutes with `shift` -/
theorem shift_diff (f : Stairs P) (d e : P) : (diff f d).map (fun h => shift h e) = diff (shift f e) d := by
  unfold diff
  rw [shift_binop, shift_comm]

/-- `diff(0)` is `f − f` (zero where `f` is defined, undefined elsewhere) -/
theorem diff_zero (f : Stairs P) : diff f 0 = binop .sub f f := by
  unfold diff; rw [shift_zero]

/-- a `diff` of a step-free function is step-free -/
theorem diff_const (c : Val) (cl : Side) (d : P) : diff (const c cl : Stairs P) d = .ok (const (vsub c c) cl) := by
  rw [diff_eq_combine]
  simp [combine, combineSteps, const, shift, unionIdx, canon, removeRedundant]

/-- **`diff(d)` agrees with any canonical description of `f − f.shift(d)`**: a canonical object closed like
`f` whose value at every `x` is `f(x) − f(x − d)` is the IDENTICAL object `diff` returns -/
theorem diff_unique [NoMinOrder P] (f h k : Stairs P) (d : P) (hf : f.WF) (hr : diff f d = .ok h)
    (hk : k.Canonical) (hcl : k.closed = f.closed)
    (hden : ∀ x, Den k false x = vsub (Den f false x) (Den f false (x - d))) : k = h := by
  obtain ⟨hc, hd⟩ := C20.den_diff f h d hf hr
  have hcl' : h.closed = f.closed := by
    rw [diff_eq_combine] at hr; injection hr with hr; rw [← hr]; rfl
  exact canonical_ext k h hk hc (hcl.trans hcl'.symm) (fun x => by rw [hden, hd])

end group

/-! ## 5. `clip` laws -/
section clip
variable {P : Type} [LinearOrder P] [NoMinOrder P] [Nonempty P]

/-- the window of `clip(lo, hi)` followed by `clip(lo', hi')` is the window between the tighter bounds -/
theorem inWindow_inter (st : Bool) (lo hi lo' hi' : Option P) (x : P) :
    (inWindow st lo hi x && inWindow st lo' hi' x) = inWindow st (maxLo lo lo') (minHi hi hi') x :=
  s20c_inWindow_inter st lo hi lo' hi' x

/-- **nested / overlapping windows**: `f.clip(a, b).clip(c, d) = f.clip(max a c, min b d)` – the IDENTICAL
object – whenever the two windows overlap (`max a c < min b d`; missing bounds are ±∞).  This covers the
nested case (`a ≤ c < d ≤ b`: the inner window) and the partially overlapping one. -/
theorem clip_clip_eq (f : Stairs P) (hf : f.WF) (lo hi lo' hi' : Option P)
    (hb : boundsOk (maxLo lo lo') (minHi hi hi') = true) :
    (clip f lo hi >>= fun r => clip r lo' hi') = clip f (maxLo lo lo') (minHi hi hi') := by
  obtain ⟨h1, h2⟩ := s20c_boundsOk_of_inter lo hi lo' hi' hb
  have e1 := clip_ok f lo hi h1
  have e2 := clip_ok (combine whereOp f (indicator lo hi f.closed) f.closed) lo' hi' h2
  have e3 := clip_ok f _ _ hb
  have hr := canonical_clip f lo hi hf h1 _ e1
  have hs := canonical_clip _ lo' hi' hr.1.1 h2 _ e2
  have ht := canonical_clip f _ _ hf hb _ e3
  rw [e1, e3]
  show clip _ lo' hi' = _
  rw [e2]
  congr 1
  refine canonical_ext _ _ hs.1 ht.1 rfl (fun x => ?_)
  rw [C06.clip_clip f _ _ lo hi lo' hi' hf h1 h2 e1 e2, den_clip f _ _ hf hb _ e3, inWindow_inter]

/-- **disjoint windows**: both clips succeed and leave the everywhere-undefined function -/
theorem clip_clip_disjoint (f : Stairs P) (hf : f.WF) (lo hi lo' hi' : Option P)
    (h1 : boundsOk lo hi = true) (h2 : boundsOk lo' hi' = true)
    (hd : boundsOk (maxLo lo lo') (minHi hi hi') = false) :
    (clip f lo hi >>= fun r => clip r lo' hi') = .ok (const none f.closed) := by
  have e1 := clip_ok f lo hi h1
  have e2 := clip_ok (combine whereOp f (indicator lo hi f.closed) f.closed) lo' hi' h2
  have hr := canonical_clip f lo hi hf h1 _ e1
  have hs := canonical_clip _ lo' hi' hr.1.1 h2 _ e2
  rw [e1]
  show clip _ lo' hi' = _
  rw [e2]
  congr 1
  refine canonical_ext _ _ hs.1 (canonical_const none f.closed) rfl (fun x => ?_)
  rw [C06.clip_clip f _ _ lo hi lo' hi' hf h1 h2 e1 e2, inWindow_inter, s20c_inWindow_empty _ _ _ _ hd]
  rfl

/-- **`clip ∘ clip`, every case**: a `ValueError` if either pair of bounds is out of order, the clip to the
intersection if the windows overlap, the undefined function if they are disjoint -/
theorem clip_clip_full (f : Stairs P) (hf : f.WF) (lo hi lo' hi' : Option P) :
    (clip f lo hi >>= fun r => clip r lo' hi') =
      if boundsOk lo hi && boundsOk lo' hi' then
        (if boundsOk (maxLo lo lo') (minHi hi hi') then clip f (maxLo lo lo') (minHi hi hi')
         else .ok (const none f.closed))
      else .error .valueError := by
  cases h1 : boundsOk lo hi with
  | false => rw [clip_error f lo hi h1]; rfl
  | true =>
    cases h2 : boundsOk lo' hi' with
    | false =>
      rw [clip_ok f lo hi h1]
      show clip _ lo' hi' = _
      rw [clip_error _ lo' hi' h2]; rfl
    | true =>
      cases hd : boundsOk (maxLo lo lo') (minHi hi hi') with
      | false => rw [clip_clip_disjoint f hf lo hi lo' hi' h1 h2 hd]; rfl
      | true => rw [clip_clip_eq f hf lo hi lo' hi' hd]; rfl

/-- the desired law WITHOUT the overlap hypothesis is false: for disjoint windows the left side is the
undefined function, the right side a `ValueError` -/
theorem clip_clip_unconditional_false :
    ¬ ∀ (f : Stairs Rat) (a b c d : Rat), f.WF →
      (clip f (some a) (some b) >>= fun r => clip r (some c) (some d)) = clip f (some (max a c)) (some (min b d)) := by
  intro h
  have := h ⟨some 1, [(0, some 2)], .left⟩ 0 1 2 3 (by decide +kernel)
  revert this
  decide +kernel

/-- both bounds given -/
theorem clip_clip_some (f : Stairs P) (hf : f.WF) (a b c d : P) (h : max a c < min b d) :
    (clip f (some a) (some b) >>= fun r => clip r (some c) (some d)) = clip f (some (max a c)) (some (min b d)) :=
  clip_clip_eq f hf (some a) (some b) (some c) (some d) (by simpa [maxLo, minHi, boundsOk] using h)

/-- nested windows: clipping to the inner window afterwards is clipping to the inner window -/
theorem clip_clip_nested (f : Stairs P) (hf : f.WF) (a b c d : P) (hac : a ≤ c) (hcd : c < d) (hdb : d ≤ b) :
    (clip f (some a) (some b) >>= fun r => clip r (some c) (some d)) = clip f (some c) (some d) := by
  have := clip_clip_some f hf a b c d (by rw [max_eq_right hac, min_eq_right hdb]; exact hcd)
  rwa [max_eq_right hac, min_eq_right hdb] at this

/-- `clip` is idempotent … -/
theorem clip_idem (f : Stairs P) (hf : f.WF) (lo hi : Option P) :
    (clip f lo hi >>= fun r => clip r lo hi) = clip f lo hi := by
  have hm : maxLo lo lo = lo := by cases lo <;> simp [maxLo]
  have hn : minHi hi hi = hi := by cases hi <;> simp [minHi]
  cases hb : boundsOk lo hi with
  | false => rw [clip_error f lo hi hb]; rfl
  | true =>
    have := clip_clip_eq f hf lo hi lo hi (by rw [hm, hn]; exact hb)
    rwa [hm, hn] at this

theorem maxLo_comm (a b : Option P) : maxLo a b = maxLo b a := by
  cases a <;> cases b <;> simp [maxLo, max_comm]
theorem minHi_comm (a b : Option P) : minHi a b = minHi b a := by
  cases a <;> cases b <;> simp [minHi, min_comm]

/-- … and two clips commute (also in the error and the disjoint case) -/
theorem clip_clip_comm (f : Stairs P) (hf : f.WF) (lo hi lo' hi' : Option P) :
    (clip f lo hi >>= fun r => clip r lo' hi') = (clip f lo' hi' >>= fun r => clip r lo hi) := by
  rw [clip_clip_full f hf, clip_clip_full f hf, maxLo_comm lo' lo, minHi_comm hi' hi, Bool.and_comm]

/-! ### `clip` commutes with the pointwise two-operand operations -/

/-- **`clip` distributes over the general two-operand path** for operands closed on the same side and an
operator that is undefined on undefined operands: the IDENTICAL object, and the same `ValueError` when the
bounds are out of order -/
theorem clip_combineChecked (op : Val → Val → Val) (hop : op none none = none) (f g : Stairs P)
    (hf : f.WF) (hg : g.WF) (hcl : f.closed = g.closed) (lo hi : Option P) :
    (combineChecked op f g >>= fun h => clip h lo hi) =
      (clip f lo hi >>= fun f' => clip g lo hi >>= fun g' => combineChecked op f' g') := by
  rw [combineChecked_total op f g (not_mismatch_of_closed_eq f g hcl), s20c_sideOf_of_closed_eq f g hcl]
  show clip _ lo hi = _
  cases hb : boundsOk lo hi with
  | false => rw [clip_error _ lo hi hb, clip_error f lo hi hb]; rfl
  | true =>
    have e1 := clip_ok (combine op f g f.closed) lo hi hb
    have e2 := clip_ok f lo hi hb
    have e3 := clip_ok g lo hi hb
    rw [e1, e2]
    show _ = (clip g lo hi >>= fun g' => combineChecked op _ g')
    rw [e3]
    show _ = combineChecked op _ _
    have hcl' : (combine whereOp f (indicator lo hi f.closed) f.closed).closed
        = (combine whereOp g (indicator lo hi g.closed) g.closed).closed := hcl
    rw [combineChecked_total op _ _ (not_mismatch_of_closed_eq _ _ hcl'), s20c_sideOf_of_closed_eq _ _ hcl']
    simp only [closed_combine]
    congr 1
    have wi := wf_indicator lo hi f.closed hb
    have wi' := wf_indicator lo hi g.closed hb
    refine canonical_ext _ _ (canonical_combine _ _ _ _ (wf_combine _ _ _ _ hf hg) wi)
      (canonical_combine _ _ _ _ (wf_combine _ _ _ _ hf wi) (wf_combine _ _ _ _ hg wi')) rfl (fun x => ?_)
    rw [den_combine _ _ _ _ (wf_combine _ _ _ _ hf hg) wi, den_combine _ _ _ _ hf hg,
      den_combine _ _ _ _ (wf_combine _ _ _ _ hf wi) (wf_combine _ _ _ _ hg wi'),
      den_combine _ _ _ _ hf wi, den_combine _ _ _ _ hg wi', den_indicator _ _ _ hb, den_indicator _ _ _ hb]
    cases inWindow false lo hi x
    · simp [whereOp, hop]
    · simp [whereOp]

theorem binop_eval_none (o : BinOp) (b : Val) : o.eval none b = none := by
  cases o <;> rfl

/-- **`clip` commutes with every arithmetic / relational / logical operator**:
`(f ∘ g).clip(a, b) = f.clip(a, b) ∘ g.clip(a, b)` as objects (operands closed on the same side) -/
theorem clip_binop (o : BinOp) (f g : Stairs P) (hf : f.WF) (hg : g.WF) (hcl : f.closed = g.closed)
    (lo hi : Option P) :
    (binop o f g >>= fun h => clip h lo hi) =
      (clip f lo hi >>= fun f' => clip g lo hi >>= fun g' => binop o f' g') :=
  clip_combineChecked o.eval (binop_eval_none o none) f g hf hg hcl lo hi

theorem clip_mask (f g : Stairs P) (hf : f.WF) (hg : g.WF) (hcl : f.closed = g.closed) (lo hi : Option P) :
    (mask f g >>= fun h => clip h lo hi) = (clip f lo hi >>= fun f' => clip g lo hi >>= fun g' => mask f' g') :=
  clip_combineChecked maskOp rfl f g hf hg hcl lo hi
theorem clip_where (f g : Stairs P) (hf : f.WF) (hg : g.WF) (hcl : f.closed = g.closed) (lo hi : Option P) :
    (where_ f g >>= fun h => clip h lo hi) = (clip f lo hi >>= fun f' => clip g lo hi >>= fun g' => where_ f' g') :=
  clip_combineChecked whereOp rfl f g hf hg hcl lo hi
theorem clip_fillnaStairs (f g : Stairs P) (hf : f.WF) (hg : g.WF) (hcl : f.closed = g.closed) (lo hi : Option P) :
    (fillnaStairs f g >>= fun h => clip h lo hi) =
      (clip f lo hi >>= fun f' => clip g lo hi >>= fun g' => fillnaStairs f' g') :=
  clip_combineChecked fillOp rfl f g hf hg hcl lo hi

/-- the successful case spelled out -/
theorem clip_binop_ok (o : BinOp) (f g f' g' : Stairs P) (hf : f.WF) (hg : g.WF) (hcl : f.closed = g.closed)
    (lo hi : Option P) (h1 : clip f lo hi = .ok f') (h2 : clip g lo hi = .ok g') :
    ∃ h k, binop o f g = .ok h ∧ clip h lo hi = .ok k ∧ binop o f' g' = .ok k := by
  have key := clip_binop o f g hf hg hcl lo hi
  rw [h1] at key
  have key : (binop o f g >>= fun h => clip h lo hi) = binop o f' g' := by
    rw [key]; show (clip g lo hi >>= fun g' => binop o f' g') = _; rw [h2]; rfl
  have hb : boundsOk lo hi = true := by
    cases hb : boundsOk lo hi with
    | true => rfl
    | false => rw [clip_error f lo hi hb] at h1; cases h1
  have e0 : binop o f g = .ok (combine o.eval f g (sideOf f g)) :=
    combineChecked_total o.eval f g (not_mismatch_of_closed_eq f g hcl)
  refine ⟨_, _, e0, clip_ok _ lo hi hb, ?_⟩
  rw [← key, e0]
  exact clip_ok _ lo hi hb

/-- a unary (value-wise) operation that keeps "undefined" undefined commutes with `clip` -/
theorem clip_map (u : Val → Val) (hu : u none = none) (f : Stairs P) (hf : f.WF) (lo hi : Option P) :
    (clip f lo hi).map (Stairs.map u) = clip (Stairs.map u f) lo hi := by
  cases hb : boundsOk lo hi with
  | false => rw [clip_error f lo hi hb, clip_error _ lo hi hb]; rfl
  | true =>
    have e1 := clip_ok f lo hi hb
    have e2 := clip_ok (Stairs.map u f) lo hi hb
    rw [e1, e2]
    show Except.ok _ = _
    congr 1
    have wi := wf_indicator lo hi f.closed hb
    have wi' := wf_indicator lo hi (Stairs.map u f).closed hb
    refine canonical_ext _ _ (canonical_map u _ (wf_combine _ _ _ _ hf wi))
      (canonical_combine _ _ _ _ (wf_map u f hf) wi') rfl (fun x => ?_)
    rw [den_map u _ (wf_combine _ _ _ _ hf wi), den_combine _ _ _ _ hf wi,
      den_combine _ _ _ _ (wf_map u f hf) wi', den_map u f hf, den_indicator _ _ _ hb, den_indicator _ _ _ hb]
    cases inWindow false lo hi x
    · simp [whereOp, hu]
    · simp [whereOp]

/-- `negate`, `invert`, `make_boolean` commute with `clip` (`isna` / `notna` do not: they are defined where
`f` is not) -/
theorem clip_unop (u : UnOp) (hu : u = .neg ∨ u = .invert ∨ u = .makeBoolean) (f : Stairs P) (hf : f.WF)
    (lo hi : Option P) : (clip f lo hi).map (unop u) = clip (unop u f) lo hi :=
  clip_map u.eval (by rcases hu with h | h | h <;> subst h <;> rfl) f hf lo hi

/-- operators with a scalar operand: `(f + c).clip(a, b) = f.clip(a, b) + c` -/
theorem clip_binop_scalar (o : BinOp) (f : Stairs P) (c : Val) (hf : f.WF) (lo hi : Option P) :
    (binop o f (const c f.closed) >>= fun h => clip h lo hi) =
      (clip f lo hi >>= fun f' => binop o f' (const c f'.closed)) := by
  have hm := not_mismatch_const_right f c f.closed
  unfold binop
  rw [combineChecked_total _ f _ hm, s20c_sideOf_of_closed_eq f (const c f.closed) rfl]
  show clip _ lo hi = _
  cases hb : boundsOk lo hi with
  | false => rw [clip_error _ lo hi hb, clip_error f lo hi hb]; rfl
  | true =>
    have e1 := clip_ok (combine o.eval f (const c f.closed) f.closed) lo hi hb
    have e2 := clip_ok f lo hi hb
    rw [e1, e2]
    show _ = combineChecked o.eval _ _
    rw [combineChecked_total _ _ _ (not_mismatch_const_right _ c _)]
    simp only [closed_combine]
    rw [s20c_sideOf_of_closed_eq (combine whereOp f (indicator lo hi f.closed) f.closed) (const c f.closed) rfl]
    simp only [closed_combine]
    congr 1
    have wi := wf_indicator lo hi f.closed hb
    have wc : (const c f.closed : Stairs P).WF := wf_const c f.closed
    refine canonical_ext _ _ (canonical_combine _ _ _ _ (wf_combine _ _ _ _ hf wc) wi)
      (canonical_combine _ _ _ _ (wf_combine _ _ _ _ hf wi) (wf_const c _)) rfl (fun x => ?_)
    rw [den_combine _ _ _ _ (wf_combine _ _ _ _ hf wc) wi, den_combine _ _ _ _ hf wc,
      den_combine _ _ _ _ (wf_combine _ _ _ _ hf wi) (wf_const c _),
      den_combine _ _ _ _ hf wi, den_indicator _ _ _ hb, den_const]
    cases inWindow false lo hi x
    · simp [whereOp, binop_eval_none]
    · simp [whereOp]

/-! the hypothesis "closed on the same side" cannot be dropped: (a) operands that mismatch may stop
mismatching once clipped to a window where they have no steps; (b) a step-free operand acquires steps (and
with them a binding closed side) when clipped -/
theorem clip_binop_needs_same_side_a :
    ∃ (f g : Stairs Rat) (a b : Rat), f.WF ∧ g.WF ∧
      (binop .add f g >>= fun h => clip h (some a) (some b)) = .error .closedMismatch ∧
      (clip f (some a) (some b) >>= fun f' => clip g (some a) (some b) >>= fun g' => binop .add f' g')
        = .ok ⟨none, [], .left⟩ :=
  ⟨⟨none, [(0, some 1), (1, none)], .left⟩, ⟨none, [(0, some 2), (1, none)], .right⟩, 5, 6, by decide +kernel⟩

theorem clip_binop_needs_same_side_b :
    ∃ (f g : Stairs Rat) (a b : Rat), f.WF ∧ g.WF ∧
      (binop .add f g >>= fun h => clip h (some a) (some b)) = .ok ⟨none, [(0, some 2), (5, none)], .right⟩ ∧
      (clip f (some a) (some b) >>= fun f' => clip g (some a) (some b) >>= fun g' => binop .add f' g')
        = .error .closedMismatch :=
  ⟨⟨some 1, [], .left⟩, ⟨some 0, [(0, some 1)], .right⟩, 0, 5, by decide +kernel⟩

end clip

/-! ## 3. statistics are invariant under shifting the function (and the window with it) -/
section stats

theorem affine_one (d : Rat) : affine d 1 = fun x => x + d := by
  funext x; unfold affine; ring

/-- over ℚ, `shift(d)` is the affine re-labelling with origin `d` and unit `1` -/
theorem shift_eq_affine (f : Stairs Rat) (d : Rat) : shift f d = mapPoints (affine d 1) f := by
  rw [affine_one]; rfl

theorem definedLength_shift (f : Stairs Rat) (d : Rat) : definedLength (shift f d) = definedLength f := by
  rw [shift_eq_affine, definedLength_affine, one_mul]

/-- **`integral`, `mean`, `var`** of the shifted function -/
theorem integral_shift (f : Stairs Rat) (d : Rat) : integral (shift f d) = integral f := by
  rw [shift_eq_affine, integral_affine]
  cases integral f <;> simp
theorem mean_shift (f : Stairs Rat) (d : Rat) : mean (shift f d) = mean f := by
  rw [shift_eq_affine, mean_affine d 1 one_pos]
theorem var_shift (f : Stairs Rat) (d : Rat) : var (shift f d) = var f := by
  rw [shift_eq_affine, var_affine d 1 one_pos]

/-- **the value distribution** (`value_sums`, shares, `ecdf`, percentiles, fractiles, median, quantiles,
modes, `hist`) of the shifted function is the same object / list -/
theorem valueSums_shift (f : Stairs Rat) (d : Rat) : valueSums (shift f d) = valueSums f := by
  rw [shift_eq_affine, valueSums_affine]
  simp
theorem shares_shift (f : Stairs Rat) (d : Rat) : shares (shift f d) = shares f := by
  rw [shift_eq_affine, shares_affine d 1 one_pos]
theorem ecdf_shift (f : Stairs Rat) (d : Rat) : ecdf (shift f d) = ecdf f := by
  rw [shift_eq_affine, ecdf_affine d 1 one_pos]
theorem percentile_shift (f : Stairs Rat) (d p : Rat) : percentile (shift f d) p = percentile f p := by
  rw [shift_eq_affine, percentile_affine d 1 one_pos]
theorem fractile_shift (f : Stairs Rat) (d p : Rat) : fractile (shift f d) p = fractile f p := by
  rw [shift_eq_affine, fractile_affine d 1 one_pos]
theorem median_shift (f : Stairs Rat) (d : Rat) : median (shift f d) = median f := percentile_shift f d 50
theorem quantiles_shift (f : Stairs Rat) (d : Rat) (q : Nat) : quantiles (shift f d) q = quantiles f q := by
  rw [shift_eq_affine, quantiles_affine d 1 one_pos]
theorem modes_shift (f : Stairs Rat) (d : Rat) : modes (shift f d) = modes f := by
  rw [shift_eq_affine, modes_affine d 1 one_pos]
theorem mode_shift (f : Stairs Rat) (d : Rat) : mode (shift f d) = mode f := by
  rw [shift_eq_affine, mode_affine d 1 one_pos]
theorem hist_shift (f : Stairs Rat) (d : Rat) (bins : List (Rat × Rat)) (cl : Side) (stat : HistStat) :
    hist (shift f d) bins cl stat = hist f bins cl stat := by
  unfold hist
  rw [ecdf_shift, valueSums_shift]
theorem unitBins_shift (f : Stairs Rat) (d : Rat) (cl : Side) : unitBins (shift f d) cl = unitBins f cl := by
  rw [shift_eq_affine, unitBins_affine]

/-- **windowed `values_in_range` / `min` / `max`**: shift the window along with the function -/
theorem valuesInRange_shift (f : Stairs Rat) (d : Rat) (lo hi : Option Rat) (c : IClosed) :
    valuesInRange (shift f d) (shiftB lo d) (shiftB hi d) c = valuesInRange f lo hi c :=
  valuesInRange_mapPoints (· + d) (add_right_orderPreserving d) f lo hi c
theorem minIn_shift (f : Stairs Rat) (d : Rat) (lo hi : Option Rat) (c : IClosed) :
    minIn (shift f d) (shiftB lo d) (shiftB hi d) c = minIn f lo hi c :=
  minIn_mapPoints (· + d) (add_right_orderPreserving d) f lo hi c
theorem maxIn_shift (f : Stairs Rat) (d : Rat) (lo hi : Option Rat) (c : IClosed) :
    maxIn (shift f d) (shiftB lo d) (shiftB hi d) c = maxIn f lo hi c :=
  maxIn_mapPoints (· + d) (add_right_orderPreserving d) f lo hi c

/-- the `where=(lo, hi)` argument of the statistics: `clipW` commutes with `shift` -/
theorem shift_clipW (f : Stairs Rat) (d : Rat) (lo hi : Option Rat) :
    (clipW f lo hi).map (fun h => shift h d) = clipW (shift f d) (shiftB lo d) (shiftB hi d) :=
  (clipW_mapPoints (· + d) (add_right_orderPreserving d) f lo hi).symm

/-- **any shift-invariant statistic taken over a window is invariant under shifting function and window**
(the `ValueError` of a window with `lo ≥ hi` included) -/
theorem windowed_stat_shift {α : Type} (stat : Stairs Rat → α) (d : Rat)
    (hstat : ∀ g, stat (shift g d) = stat g) (f : Stairs Rat) (lo hi : Option Rat) :
    (clipW (shift f d) (shiftB lo d) (shiftB hi d)).map stat = (clipW f lo hi).map stat := by
  rw [← shift_clipW]
  cases clipW f lo hi with
  | error e => rfl
  | ok s => exact congrArg Except.ok (hstat s)

theorem integral_window_shift (f : Stairs Rat) (d : Rat) (lo hi : Option Rat) :
    (clipW (shift f d) (shiftB lo d) (shiftB hi d)).map integral = (clipW f lo hi).map integral :=
  windowed_stat_shift integral d (fun g => integral_shift g d) f lo hi
theorem mean_window_shift (f : Stairs Rat) (d : Rat) (lo hi : Option Rat) :
    (clipW (shift f d) (shiftB lo d) (shiftB hi d)).map mean = (clipW f lo hi).map mean :=
  windowed_stat_shift mean d (fun g => mean_shift g d) f lo hi
theorem var_window_shift (f : Stairs Rat) (d : Rat) (lo hi : Option Rat) :
    (clipW (shift f d) (shiftB lo d) (shiftB hi d)).map var = (clipW f lo hi).map var :=
  windowed_stat_shift var d (fun g => var_shift g d) f lo hi
theorem valueSums_window_shift (f : Stairs Rat) (d : Rat) (lo hi : Option Rat) :
    (clipW (shift f d) (shiftB lo d) (shiftB hi d)).map valueSums = (clipW f lo hi).map valueSums :=
  windowed_stat_shift valueSums d (fun g => valueSums_shift g d) f lo hi
theorem ecdf_window_shift (f : Stairs Rat) (d : Rat) (lo hi : Option Rat) :
    (clipW (shift f d) (shiftB lo d) (shiftB hi d)).map ecdf = (clipW f lo hi).map ecdf :=
  windowed_stat_shift ecdf d (fun g => ecdf_shift g d) f lo hi
theorem percentile_window_shift (f : Stairs Rat) (d p : Rat) (lo hi : Option Rat) :
    (clipW (shift f d) (shiftB lo d) (shiftB hi d)).map (percentile · p) = (clipW f lo hi).map (percentile · p) :=
  windowed_stat_shift (percentile · p) d (fun g => percentile_shift g d p) f lo hi

/-- the same for a slice (`clip` with both bounds), the form the slicer statistics use (C11) -/
theorem slicerStat_shift {α : Type} (stat : Stairs Rat → α) (d : Rat)
    (hstat : ∀ g, stat (shift g d) = stat g) (f : Stairs Rat) (iv : Iv) :
    C11.slicerStat stat (shift f d) (iv.1 + d, iv.2 + d) = C11.slicerStat stat f iv :=
  windowed_stat_shift stat d hstat f (some iv.1) (some iv.2)

/-- **`cov` / `corr`**: shifting both functions and the window leaves them unchanged, for every lag -/
theorem cov_shift (f g : Stairs Rat) (d : Rat) (lo hi : Option Rat) (lag : Rat) (cp : Bool) :
    cov (shift f d) (shift g d) (shiftB lo d) (shiftB hi d) lag cp = cov f g lo hi lag cp := by
  have := cov_affine d 1 one_pos f g lo hi lag cp
  rwa [one_mul, ← shift_eq_affine, ← shift_eq_affine, affine_one] at this
theorem corrParts_shift (f g : Stairs Rat) (d : Rat) (lo hi : Option Rat) (lag : Rat) (cp : Bool) :
    corrParts (shift f d) (shift g d) (shiftB lo d) (shiftB hi d) lag cp = corrParts f g lo hi lag cp := by
  have := corrParts_affine d 1 one_pos f g lo hi lag cp
  rwa [one_mul, ← shift_eq_affine, ← shift_eq_affine, affine_one] at this

/-- **slices, slicer extremes, `resample`, `rolling_mean`** of the shifted function over the shifted grid -/
theorem shift_slices (f : Stairs Rat) (d : Rat) (ivs : List Iv) :
    (slices f ivs).map (Except.map fun h => shift h d) = slices (shift f d) (ivs.map (mapIv (· + d))) :=
  (slices_mapPoints (· + d) (add_right_orderPreserving d) f ivs).symm
theorem slicerExtreme_shift (isMax : Bool) (f : Stairs Rat) (d : Rat) (c : IClosed) (iv : Iv) :
    slicerExtreme isMax (shift f d) c (mapIv (· + d) iv) = slicerExtreme isMax f c iv :=
  slicerExtreme_mapPoints (· + d) (add_right_orderPreserving d) isMax f c iv
theorem shift_resampleWith (f : Stairs Rat) (d : Rat) (ivs : List Iv) (vals : List Rat) :
    (resampleWith f ivs vals).map (fun h => shift h d) = resampleWith (shift f d) (ivs.map (mapIv (· + d))) vals :=
  (resampleWith_mapPoints (· + d) (add_right_orderPreserving d) f ivs vals).symm
theorem rollingMean_shift (f : Stairs Rat) (d l r : Rat) (lo hi : Option Rat) :
    rollingMean (shift f d) l r (shiftB lo d) (shiftB hi d)
      = (rollingMean f l r lo hi).map (List.map fun xy => (xy.1 + d, xy.2)) := by
  have := rollingMean_affine d 1 one_pos f l r lo hi
  rwa [one_mul, one_mul, ← shift_eq_affine, affine_one] at this

end stats

/-! ## 4. `resample` of a function that is already constant on every slice; idempotence -/
section resample

/-- no step point of `f` lies strictly inside a slice ("every step point of `f` in the span is a grid point") -/
def OnGrid (f : Stairs Rat) (ivs : List Iv) : Prop := ∀ p ∈ f.idx, ∀ iv ∈ ivs, ¬ (iv.1 < p ∧ p < iv.2)

/-- such a function is constant on each slice on which it is defined at the left end -/
theorem constOn_of_onGrid (f : Stairs Rat) (ivs : List Iv) (hg : OnGrid f ivs) (iv : Iv) (hiv : iv ∈ ivs) (v : Rat)
    (hv : Den f false iv.1 = some v) : ConstOn f iv v :=
  s20c_constOn_of_grid f iv v (fun p hp => hg p hp iv hiv) hv

/-- the slice of a function constant on the slice is the one-piece function `v` on the slice -/
theorem slice_constOn (f : Stairs Rat) (hf : f.WF) (iv : Iv) (v : Rat) (h : iv.1 < iv.2) (hc : ConstOn f iv v) :
    clip f (some iv.1) (some iv.2) = .ok (box iv.1 iv.2 v f.closed) := s20c_clip_constOn f hf iv v h hc

/-- **every slicer statistic of a function constant (= `v`) on the slice is `v`**: `mean`, `median`, `mode`,
every percentile strictly between 0 and 100, and the extreme values of the slice; `integral` is
`v · length`, `var` is 0 -/
theorem slicerStat_constOn (f : Stairs Rat) (hf : f.WF) (iv : Iv) (v : Rat) (h : iv.1 < iv.2) (hc : ConstOn f iv v) :
    C11.slicerStat mean f iv = .ok (some v) ∧ C11.slicerStat median f iv = .ok (some v) ∧
    C11.slicerStat mode f iv = .ok (some v) ∧
    (∀ p, 0 < p → p < 100 → C11.slicerStat (percentile · p) f iv = .ok (some v)) ∧
    C11.slicerStat integral f iv = .ok (some (v * (iv.2 - iv.1))) ∧ C11.slicerStat var f iv = .ok (some 0) ∧
    (∀ c, C11.slicerStat (minIn · none none c) f iv = .ok (some v)) ∧
    (∀ c, C11.slicerStat (maxIn · none none c) f iv = .ok (some v)) := by
  unfold C11.slicerStat
  rw [slice_constOn f hf iv v h hc]
  refine ⟨?_, ?_, ?_, fun p h0 h1 => ?_, ?_, ?_, fun c => ?_, fun c => ?_⟩ <;> simp only [Except.map]
  · rw [s20c_mean_box _ _ _ _ h]
  · rw [s20c_median_box _ _ _ _ h]
  · rw [s20c_mode_box]
  · rw [s20c_percentile_box _ _ _ _ _ h h0 h1]
  · rw [s20c_integral_box]
  · rw [s20c_var_box _ _ _ _ h]
  · rw [s20c_minIn_box]
  · rw [s20c_maxIn_box]

/-- slicer `max` / `min` (which add the endpoint the slice cannot see) give `v` when no endpoint is added,
i.e. when the intervals are closed like `f` (or open) -/
theorem slicerExtreme_constOn (isMax : Bool) (f : Stairs Rat) (hf : f.WF) (c : IClosed) (iv : Iv) (v : Rat)
    (h : iv.1 < iv.2) (hc : ConstOn f iv v) (he : slicerEndpoint f.closed c = none) :
    slicerExtreme isMax f c iv = .ok (some v) := by
  rw [slicerExtreme_eq isMax f _ c iv (slice_constOn f hf iv v h hc)]
  unfold endpointSample
  rw [he, s20c_maxIn_box, s20c_minIn_box]
  cases isMax <;> rfl

/-- … and need not when an endpoint is added: on `[0,1) ↦ 1, [1,2) ↦ 2` the slicer max over `(0, 1]`
(right-closed interval, left-closed function) also sees the value 2 at the point 1 -/
example : let f : Stairs Rat := ⟨some 0, [(0, some 1), (1, some 2), (2, some 0)], .left⟩
    ConstOn f (0, 1) 1 ∧ slicerExtreme true f .right (0, 1) = .ok (some 2) := by
  refine ⟨s20c_constOn_of_grid _ _ _ ?_ (by decide +kernel), by decide +kernel⟩
  intro p hp
  simp only [idx, List.map_cons, List.map_nil, List.mem_cons, List.not_mem_nil, or_false] at hp
  rcases hp with rfl | rfl | rfl <;> decide +kernel

/-- **`resample` gives `f` back** when the constants are the values `f` already has: for a well-formed `f`,
proper slices tiling their span, and `f` constant `= vals[k]` on slice `k`, the result of `resample` is the
canonical form of `f` … -/
theorem resample_fixed_wf (f : Stairs Rat) (hf : f.WF) (iv0 : Iv) (rest : List Iv) (vals : List Rat)
    (hp : Proper (iv0 :: rest)) (ht : Tiles (iv0 :: rest)) (hlen : vals.length = (iv0 :: rest).length)
    (hc : ∀ k (hk : k < (iv0 :: rest).length), ConstOn f (iv0 :: rest)[k] (vals[k]'(by rw [hlen]; exact hk))) :
    resampleWith f (iv0 :: rest) vals = .ok f.canon := by
  obtain ⟨h, hres, hw, hcl, hspec⟩ := C11.resample_tiling f hf iv0 rest vals hp ht hlen
  have hmin : h.IsMinimal := by
    obtain ⟨base, _, _, _, hres'⟩ :=
      resampleWith_ok f hf iv0 rest vals (span_proper iv0 rest (hp iv0 (by simp)))
    rw [hres] at hres'
    injection hres' with hres'
    rw [hres']
    apply s20c_minimal_layer
    cases vals with
    | nil => simp at hlen
    | cons v vs => simp
  rw [hres]
  congr 1
  refine canonical_ext h f.canon ⟨hw, hmin⟩ (canonical_canon f hf) hcl (fun x => ?_)
  rw [den_canon f hf]
  by_cases hex : ∃ iv ∈ iv0 :: rest, inWindow false (some iv.1) (some iv.2) x = true
  · obtain ⟨iv, hiv, hwin⟩ := hex
    obtain ⟨k, hk, rfl⟩ := List.getElem_of_mem hiv
    rw [(hspec false x).1 k hk hwin, hc k hk false x hwin]
  · refine (hspec false x).2 (fun iv hiv => ?_)
    cases hwin : inWindow false (some iv.1) (some iv.2) x with
    | false => rfl
    | true => exact absurd ⟨iv, hiv, hwin⟩ hex

/-- … hence, for a canonical `f` (every object the library builds), the IDENTICAL object `f` -/
theorem resample_fixed (f : Stairs Rat) (hf : f.Canonical) (iv0 : Iv) (rest : List Iv) (vals : List Rat)
    (hp : Proper (iv0 :: rest)) (ht : Tiles (iv0 :: rest)) (hlen : vals.length = (iv0 :: rest).length)
    (hc : ∀ k (hk : k < (iv0 :: rest).length), ConstOn f (iv0 :: rest)[k] (vals[k]'(by rw [hlen]; exact hk))) :
    resampleWith f (iv0 :: rest) vals = .ok f := by
  rw [resample_fixed_wf f hf.1 iv0 rest vals hp ht hlen hc, canon_of_minimal f hf.2]

/-- the same with the "on the grid" hypothesis: every step point of `f` in the span is a grid point and `f`
is defined (`= vals[k]`) at the left end of each slice -/
theorem resample_fixed_onGrid (f : Stairs Rat) (hf : f.Canonical) (iv0 : Iv) (rest : List Iv) (vals : List Rat)
    (hp : Proper (iv0 :: rest)) (ht : Tiles (iv0 :: rest)) (hlen : vals.length = (iv0 :: rest).length)
    (hg : OnGrid f (iv0 :: rest))
    (hv : ∀ k (hk : k < (iv0 :: rest).length),
      Den f false (iv0 :: rest)[k].1 = some (vals[k]'(by rw [hlen]; exact hk))) :
    resampleWith f (iv0 :: rest) vals = .ok f :=
  resample_fixed f hf iv0 rest vals hp ht hlen
    (fun k hk => constOn_of_onGrid f _ hg _ (List.getElem_mem hk) _ (hv k hk))

/-- **the result of `resample` over tiling slices** is canonical, constant `= vals[k]` on slice `k`, and a
fixed point of `resample` with the same constants -/
theorem resample_result (f h : Stairs Rat) (hf : f.WF) (iv0 : Iv) (rest : List Iv) (vals : List Rat)
    (hp : Proper (iv0 :: rest)) (ht : Tiles (iv0 :: rest)) (hlen : vals.length = (iv0 :: rest).length)
    (hres : resampleWith f (iv0 :: rest) vals = .ok h) :
    h.Canonical ∧
    (∀ k (hk : k < (iv0 :: rest).length), ConstOn h (iv0 :: rest)[k] (vals[k]'(by rw [hlen]; exact hk))) ∧
    resampleWith h (iv0 :: rest) vals = .ok h := by
  obtain ⟨h', hres2, hw, _, _⟩ := C11.resample_tiling f hf iv0 rest vals hp ht hlen
  rw [hres] at hres2; injection hres2 with hres2; subst hres2
  have hmin : h.IsMinimal := by
    obtain ⟨base, _, _, _, hres'⟩ :=
      resampleWith_ok f hf iv0 rest vals (span_proper iv0 rest (hp iv0 (by simp)))
    rw [hres] at hres'
    injection hres' with hres'
    rw [hres']
    apply s20c_minimal_layer
    cases vals with
    | nil => simp at hlen
    | cons v vs => simp
  have hconst : ∀ k (hk : k < (iv0 :: rest).length),
      ConstOn h (iv0 :: rest)[k] (vals[k]'(by rw [hlen]; exact hk)) :=
    fun k hk st x hx =>
      C11.resample_on_slice f h hf iv0 rest vals hp (increasing_of_tiles _ ht) hlen hres k hk st x hx
  exact ⟨⟨hw, hmin⟩, hconst, resample_fixed h ⟨hw, hmin⟩ iv0 rest vals hp ht hlen hconst⟩

/-! ### with the statistic computed per slice, as the library does -/

/-- all of the values, if every one exists -/
def sequenceOpt {α : Type} : List (Option α) → Option (List α)
  | [] => some []
  | none :: _ => none
  | some x :: r => (sequenceOpt r).map (x :: ·)

/-- `f.slice(ivs).resample(stat)`: the per-slice values `sv f iv` of the statistic, then `resampleWith`;
`none` when the statistic does not exist on some slice (the library raises) -/
def resampleBy (sv : Stairs Rat → Iv → Option Rat) (f : Stairs Rat) (ivs : List Iv) :
    Option (Except Err (Stairs Rat)) :=
  (sequenceOpt (ivs.map (sv f))).map (resampleWith f ivs)

/-- the value of a plain slicer statistic on one slice -/
def sliceVal (stat : Stairs Rat → Val) (f : Stairs Rat) (iv : Iv) : Option Rat :=
  match clip f (some iv.1) (some iv.2) with
  | .ok s => stat s
  | .error _ => none
/-- the value of slicer `max` / `min` on one slice -/
def extremeVal (isMax : Bool) (c : IClosed) (f : Stairs Rat) (iv : Iv) : Option Rat :=
  match slicerExtreme isMax f c iv with
  | .ok v => v
  | .error _ => none

/-- a per-slice statistic that returns `v` on every slice where a function closed on side `cl` is constant
`= v` -/
def Faithful (cl : Side) (sv : Stairs Rat → Iv → Option Rat) : Prop :=
  ∀ (f : Stairs Rat) (iv : Iv) (v : Rat), f.WF → f.closed = cl → iv.1 < iv.2 → ConstOn f iv v → sv f iv = some v

theorem faithful_mean (cl : Side) : Faithful cl (sliceVal mean) := by
  intro f iv v hf _ h hc
  unfold sliceVal; rw [slice_constOn f hf iv v h hc]; exact s20c_mean_box _ _ _ _ h
theorem faithful_median (cl : Side) : Faithful cl (sliceVal median) := by
  intro f iv v hf _ h hc
  unfold sliceVal; rw [slice_constOn f hf iv v h hc]; exact s20c_median_box _ _ _ _ h
theorem faithful_mode (cl : Side) : Faithful cl (sliceVal mode) := by
  intro f iv v hf _ h hc
  unfold sliceVal; rw [slice_constOn f hf iv v h hc]; exact s20c_mode_box _ _ _ _
theorem faithful_extreme (isMax : Bool) (cl : Side) (c : IClosed) (he : slicerEndpoint cl c = none) :
    Faithful cl (extremeVal isMax c) := by
  intro f iv v hf hcl h hc
  unfold extremeVal
  rw [slicerExtreme_constOn isMax f hf c iv v h hc (by rw [hcl]; exact he)]

theorem sequenceOpt_eq_some {α : Type} (l : List (Option α)) (vals : List α) :
    sequenceOpt l = some vals ↔ l = vals.map some := by
  induction l generalizing vals with
  | nil => cases vals <;> simp [sequenceOpt]
  | cons a r ih =>
    cases a with
    | none => cases vals <;> simp [sequenceOpt]
    | some x =>
      cases vals with
      | nil => simp [sequenceOpt]
      | cons v vs =>
        simp only [sequenceOpt, Option.map_eq_some_iff, List.map_cons, List.cons.injEq, Option.some.injEq]
        constructor
        · rintro ⟨w, hw, rfl, rfl⟩; exact ⟨rfl, (ih w).mp hw⟩
        · rintro ⟨rfl, h⟩; exact ⟨vs, (ih vs).mpr h, rfl, rfl⟩

/-- the per-slice values are `vals` iff the statistic of slice `k` is `vals[k]` for every `k` -/
theorem sliceVals_eq (sv : Stairs Rat → Iv → Option Rat) (f : Stairs Rat) (ivs : List Iv) (vals : List Rat) :
    sequenceOpt (ivs.map (sv f)) = some vals ↔
      ∃ hlen : vals.length = ivs.length, ∀ k (hk : k < ivs.length), sv f ivs[k] = some (vals[k]'(by rw [hlen]; exact hk)) := by
  rw [sequenceOpt_eq_some]
  constructor
  · intro h
    have hlen : vals.length = ivs.length := by
      have := congrArg List.length h; simpa using this.symm
    refine ⟨hlen, fun k hk => ?_⟩
    have := congrArg (fun l => l[k]?) h
    simpa [List.getElem?_map, List.getElem?_eq_getElem hk, List.getElem?_eq_getElem (hlen ▸ hk)] using this
  · rintro ⟨hlen, h⟩
    apply List.ext_getElem
    · simp [hlen]
    · intro k h1 h2
      simp only [List.getElem_map]
      exact h k (by simpa using h1)

/-- **`resample(stat)` of a function constant and defined on every slice of a tiling grid returns that
function** (its canonical form) – for `mean`, `median`, `mode`, and for `min` / `max` over intervals closed
like `f` -/
theorem resampleBy_fixed_wf (sv : Stairs Rat → Iv → Option Rat) (f : Stairs Rat) (hsv : Faithful f.closed sv)
    (hf : f.WF) (iv0 : Iv) (rest : List Iv) (vals : List Rat)
    (hp : Proper (iv0 :: rest)) (ht : Tiles (iv0 :: rest)) (hlen : vals.length = (iv0 :: rest).length)
    (hc : ∀ k (hk : k < (iv0 :: rest).length), ConstOn f (iv0 :: rest)[k] (vals[k]'(by rw [hlen]; exact hk))) :
    resampleBy sv f (iv0 :: rest) = some (.ok f.canon) := by
  have hv : sequenceOpt ((iv0 :: rest).map (sv f)) = some vals :=
    (sliceVals_eq sv f _ vals).mpr
      ⟨hlen, fun k hk => hsv f _ _ hf rfl (hp _ (List.getElem_mem hk)) (hc k hk)⟩
  unfold resampleBy
  rw [hv, Option.map_some, resample_fixed_wf f hf iv0 rest vals hp ht hlen hc]

theorem resampleBy_fixed (sv : Stairs Rat → Iv → Option Rat) (f : Stairs Rat) (hsv : Faithful f.closed sv)
    (hf : f.Canonical) (iv0 : Iv) (rest : List Iv) (vals : List Rat)
    (hp : Proper (iv0 :: rest)) (ht : Tiles (iv0 :: rest)) (hlen : vals.length = (iv0 :: rest).length)
    (hc : ∀ k (hk : k < (iv0 :: rest).length), ConstOn f (iv0 :: rest)[k] (vals[k]'(by rw [hlen]; exact hk))) :
    resampleBy sv f (iv0 :: rest) = some (.ok f) := by
  rw [resampleBy_fixed_wf sv f hsv hf.1 iv0 rest vals hp ht hlen hc, canon_of_minimal f hf.2]

/-- the same with the "on the grid" hypothesis: step points of `f` never strictly inside a slice, `f` defined
at the left end of every slice (the constants are then `f`'s values there) -/
theorem resampleBy_fixed_onGrid (sv : Stairs Rat → Iv → Option Rat) (f : Stairs Rat) (hsv : Faithful f.closed sv)
    (hf : f.Canonical) (iv0 : Iv) (rest : List Iv)
    (hp : Proper (iv0 :: rest)) (ht : Tiles (iv0 :: rest)) (hg : OnGrid f (iv0 :: rest))
    (hd : ∀ iv ∈ iv0 :: rest, Den f false iv.1 ≠ none) :
    resampleBy sv f (iv0 :: rest) = some (.ok f) := by
  have hex : ∀ iv ∈ iv0 :: rest, ∃ v, Den f false iv.1 = some v := fun iv hiv =>
    Option.ne_none_iff_exists'.mp (hd iv hiv)
  let V : Iv → Rat := fun iv => (Den f false iv.1).getD 0
  have hV : ∀ iv ∈ iv0 :: rest, Den f false iv.1 = some (V iv) := by
    intro iv hiv
    obtain ⟨v, hv⟩ := hex iv hiv
    simp only [V, hv, Option.getD_some]
  refine resampleBy_fixed sv f hsv hf iv0 rest ((iv0 :: rest).map V) hp ht (by simp) (fun k hk => ?_)
  rw [List.getElem_map]
  exact constOn_of_onGrid f _ hg _ (List.getElem_mem hk) _ (hV _ (List.getElem_mem hk))

/-- **`resample` is idempotent**: resampling the result of `resample(stat)` again over the same tiling grid,
with the same or any other faithful statistic, returns the IDENTICAL object -/
theorem resampleBy_idempotent (sv sv' : Stairs Rat → Iv → Option Rat) (f h : Stairs Rat) (hf : f.WF)
    (hsv' : Faithful f.closed sv') (iv0 : Iv) (rest : List Iv)
    (hp : Proper (iv0 :: rest)) (ht : Tiles (iv0 :: rest))
    (hres : resampleBy sv f (iv0 :: rest) = some (.ok h)) :
    resampleBy sv' h (iv0 :: rest) = some (.ok h) := by
  unfold resampleBy at hres
  rw [Option.map_eq_some_iff] at hres
  obtain ⟨vals, hvals, hres⟩ := hres
  obtain ⟨hlen, _⟩ := (sliceVals_eq sv f _ vals).mp hvals
  obtain ⟨hcan, hconst, _⟩ := resample_result f h hf iv0 rest vals hp ht hlen hres
  have hcl : h.closed = f.closed := by
    obtain ⟨h', hres2, _, hcl, _⟩ := C11.resample_tiling f hf iv0 rest vals hp ht hlen
    rw [hres] at hres2; injection hres2 with hres2; subst hres2; exact hcl
  exact resampleBy_fixed sv' h (by rw [hcl]; exact hsv') hcan iv0 rest vals hp ht hlen hconst

end resample

/-! ## 6. non-vacuity: the hypotheses are satisfiable and the laws compute, on functions with undefined pieces -/

def f₀ : Stairs Rat := ⟨some 0, [(0, some 1), (2, none), (3, some 3), (5, some 0)], .left⟩
def g₀ : Stairs Rat := ⟨none, [(1, some 2), (4, some (-1)), (6, none)], .left⟩
def r₀ : Stairs Rat := ⟨none, [(1, some 2), (3, none)], .right⟩

example : f₀.Canonical ∧ g₀.Canonical ∧ r₀.Canonical ∧ f₀.closed = g₀.closed := by decide +kernel

-- shift is a homomorphism (objects), and an error stays the same error
example : (binop .mul f₀ g₀).map (fun h => shift h (3/2)) = binop .mul (shift f₀ (3/2)) (shift g₀ (3/2)) ∧
    binop .mul (shift f₀ (3/2)) (shift g₀ (3/2))
      = .ok ⟨none, [(5/2, some 2), (7/2, none), (9/2, some 6), (11/2, some (-3)), (13/2, some 0), (15/2, none)], .left⟩ := by
  decide +kernel
example : binop (.rel .lt) f₀ r₀ = .error .closedMismatch ∧
    binop (.rel .lt) (shift f₀ 7) (shift r₀ 7) = .error .closedMismatch := by decide +kernel
example : (clip f₀ (some 1) (some 4)).map (fun h => shift h (-2)) = clip (shift f₀ (-2)) (some (-1)) (some 2) ∧
    clip (shift f₀ (-2)) (some (-1)) (some 2) = .ok ⟨none, [(-1, some 1), (0, none), (1, some 3), (2, none)], .left⟩ := by
  decide +kernel
example : shift (unop .neg f₀) 1 = unop .neg (shift f₀ 1) ∧ shift (ffill f₀) 1 = ffill (shift f₀ 1) := by
  decide +kernel

-- diff: the explicit object, and diff ∘ shift = shift ∘ diff
example : diff f₀ 1 = .ok (combine vsub f₀ (shift f₀ 1) .left) ∧
    diff f₀ 1 = .ok ⟨some 0, [(0, some 1), (1, some 0), (2, none), (4, some 0), (5, some (-3)), (6, some 0)], .left⟩ ∧
    (diff f₀ 1).map (fun h => shift h 10) = diff (shift f₀ 10) 1 := by decide +kernel

-- clip ∘ clip: overlapping, nested, disjoint, and an out-of-order pair of bounds
example : boundsOk (maxLo (some (1 : Rat)) (some 2)) (minHi (some (4 : Rat)) (some 6)) = true ∧
    (clip f₀ (some 1) (some 4) >>= fun r => clip r (some 2) (some 6)) = clip f₀ (some 2) (some 4) ∧
    clip f₀ (some 2) (some 4) = .ok ⟨none, [(3, some 3), (4, none)], .left⟩ := by decide +kernel
example : (clip f₀ (some 0) (some 6) >>= fun r => clip r (some 1) none) = clip f₀ (some 1) (some 6) := by
  decide +kernel
example : boundsOk (maxLo (some (0 : Rat)) (some 3)) (minHi (some (2 : Rat)) (some 5)) = false ∧
    (clip f₀ (some 0) (some 2) >>= fun r => clip r (some 3) (some 5)) = .ok (const none .left) ∧
    clip f₀ (some 3) (some 2) = .error .valueError := by decide +kernel

-- clip distributes over the operators (same closed side)
example : (binop .add f₀ g₀ >>= fun h => clip h (some 1) (some (9/2))) =
      (clip f₀ (some 1) (some (9/2)) >>= fun f' => clip g₀ (some 1) (some (9/2)) >>= fun g' => binop .add f' g') ∧
    (binop .add f₀ g₀ >>= fun h => clip h (some 1) (some (9/2)))
      = .ok ⟨none, [(1, some 3), (2, none), (3, some 5), (4, some 2), (9/2, none)], .left⟩ := by decide +kernel
example : (binop .mul f₀ (const (some 2) f₀.closed) >>= fun h => clip h (some 1) (some 4)) =
    (clip f₀ (some 1) (some 4) >>= fun f' => binop .mul f' (const (some 2) f'.closed)) := by decide +kernel

-- statistics do not see a shift
example : integral (shift f₀ (5/2)) = integral f₀ ∧ integral f₀ = some 8 ∧ mean (shift f₀ (5/2)) = some 2 ∧
    var (shift f₀ (5/2)) = var f₀ ∧ ecdf (shift f₀ (5/2)) = ecdf f₀ ∧
    percentile (shift f₀ (5/2)) 30 = percentile f₀ 30 := by decide +kernel
example : (clipW (shift f₀ 10) (some 11) (some 14)).map mean = (clipW f₀ (some 1) (some 4)).map mean ∧
    (clipW f₀ (some 1) (some 4)).map mean = .ok (some 2) := by decide +kernel
example : cov (shift f₀ 3) (shift g₀ 3) (some 4) (some 9) 1 true = cov f₀ g₀ (some 1) (some 6) 1 true := by
  decide +kernel

-- resample: a function on the grid comes back; resampling anything twice is resampling once
def grid : List Iv := [(0, 2), (2, 3), (3, 5)]
def k₀ : Stairs Rat := ⟨none, [(0, some 1), (2, some 4), (5, none)], .left⟩
example : Tiles grid := ⟨rfl, rfl, trivial⟩
example : k₀.Canonical ∧ (∀ iv ∈ grid, iv.1 < iv.2) ∧
    (∀ p ∈ k₀.idx, ∀ iv ∈ grid, ¬ (iv.1 < p ∧ p < iv.2)) ∧ (∀ iv ∈ grid, Den k₀ false iv.1 ≠ none) := by
  decide +kernel
example : resampleBy (sliceVal mean) k₀ grid = some (.ok k₀) ∧ resampleBy (sliceVal median) k₀ grid = some (.ok k₀) ∧
    resampleBy (extremeVal true .left) k₀ grid = some (.ok k₀) ∧
    resampleBy (extremeVal false .neither) k₀ grid = some (.ok k₀) := by decide +kernel
def m₀ : Stairs Rat := ⟨none, [(0, some 2), (3, some (1/2)), (5, some (-1)), (6, none)], .left⟩
example : resampleBy (sliceVal mean) g₀ grid = some (.ok m₀) ∧
    resampleBy (sliceVal mean) m₀ grid = some (.ok m₀) ∧ resampleBy (sliceVal median) m₀ grid = some (.ok m₀) ∧
    resampleBy (extremeVal true .left) m₀ grid = some (.ok m₀) := by decide +kernel
-- the statistic does not exist on a slice where the function is undefined: the library raises
example : resampleBy (sliceVal mean) f₀ grid = none := by decide +kernel

end SC.Props.C20c
