import SCModel.Lemmas.Fill
import SCModel.Model.Slicing
import Mathlib.Data.Int.Order.Basic
import Mathlib.Algebra.Order.Ring.Unbundled.Rat
/-!
# C15 — The closed side is preserved, and opposite sides are never silently merged
-/
set_option linter.unusedSectionVars false
namespace SC.Props.C15
open SC SC.Stairs
variable {P : Type} [LinearOrder P]

/-- the side a two-operand result must have: of the operand(s) that have steps, the receiver's when none has -/
theorem sideOf_spec (f g : Stairs P) :
    (f.hasSteps = true → sideOf f g = f.closed) ∧
    (f.hasSteps = false → g.hasSteps = true → sideOf f g = g.closed) ∧
    (f.hasSteps = false → g.hasSteps = false → sideOf f g = f.closed) := by
  unfold sideOf; cases f.hasSteps <;> cases g.hasSteps <;> simp

/-- **every binary operator**: raises `ClosedMismatchError` exactly when both operands have steps and their
sides differ; otherwise succeeds with the side of the operand(s) that have steps -/
theorem binop_closed (o : BinOp) (f g : Stairs P) :
    (Mismatch f g → binop o f g = .error .closedMismatch) ∧
    (¬ Mismatch f g → ∃ h, binop o f g = .ok h ∧ h.closed = sideOf f g) := by
  constructor
  · intro h; exact (combineChecked_error_iff o.eval f g).mpr h
  · intro h; exact ⟨_, combineChecked_total o.eval f g h, rfl⟩

theorem binop_error_iff (o : BinOp) (f g : Stairs P) :
    binop o f g = .error .closedMismatch ↔ (f.hasSteps = true ∧ g.hasSteps = true ∧ f.closed ≠ g.closed) :=
  combineChecked_error_iff o.eval f g

/-- masking and filling by a function obey the same rule -/
theorem mask_where_fillna_closed (f g : Stairs P) :
    (mask f g = .error .closedMismatch ↔ Mismatch f g) ∧
    (where_ f g = .error .closedMismatch ↔ Mismatch f g) ∧
    (fillnaStairs f g = .error .closedMismatch ↔ Mismatch f g) ∧
    (¬ Mismatch f g → ∃ a b c, mask f g = .ok a ∧ where_ f g = .ok b ∧ fillnaStairs f g = .ok c ∧
        a.closed = sideOf f g ∧ b.closed = sideOf f g ∧ c.closed = sideOf f g) :=
  ⟨combineChecked_error_iff _ f g, combineChecked_error_iff _ f g, combineChecked_error_iff _ f g,
   fun h => ⟨_, _, _, combineChecked_total _ f g h, combineChecked_total _ f g h,
             combineChecked_total _ f g h, rfl, rfl, rfl⟩⟩

/-- scalars and step-free functions combine with either side -/
theorem scalar_never_mismatches (f : Stairs P) (c : Val) (cl : Side) :
    ¬ Mismatch f (const c cl) ∧ ¬ Mismatch (const c cl) f :=
  ⟨not_mismatch_const_right f c cl, not_mismatch_const_left f c cl⟩

theorem stepfree_takes_other_side (f : Stairs P) (c : Val) (cl : Side) (hf : f.hasSteps = true) :
    sideOf (const c cl) f = f.closed ∧ sideOf f (const c cl) = f.closed := by
  have hc : (const c cl : Stairs P).hasSteps = false := rfl
  unfold sideOf; rw [hc, hf]; simp

/-- consistently closed inputs never raise -/
theorem same_side_never_mismatches (f g : Stairs P) (h : f.closed = g.closed) : ¬ Mismatch f g :=
  not_mismatch_of_closed_eq f g h

/-- **operations on one function keep its side** -/
theorem unary_closed (f : Stairs P) (u : UnOp) (v : Val) (lo hi : Option P) :
    (unop u f).closed = f.closed ∧ (fillnaScalar f v).closed = f.closed ∧
    (ffill f).closed = f.closed ∧ (bfill f).closed = f.closed ∧
    (maskTuple f lo hi).closed = f.closed ∧
    (∀ r, clip f lo hi = .ok r → r.closed = f.closed) ∧
    (∀ r, whereTuple f lo hi = .ok r → r.closed = f.closed) := by
  refine ⟨rfl, rfl, rfl, rfl, rfl, ?_, ?_⟩ <;>
  · intro r hr
    simp only [whereTuple, clip] at hr
    split at hr
    · injection hr with hr; subst hr; rfl
    · cases hr

/-- the tuple shorthands never raise a mismatch (only `ValueError` for `lower ≥ upper`) -/
theorem tuple_forms_never_mismatch (f : Stairs P) (lo hi : Option P) :
    clip f lo hi ≠ .error .closedMismatch ∧ whereTuple f lo hi ≠ .error .closedMismatch := by
  simp only [whereTuple, clip]
  constructor <;> (split <;> simp)

theorem shift_closed [Add P] (f : Stairs P) (d : P) : (shift f d).closed = f.closed := rfl

/-- **collections**: a mismatch among the members that have steps is an error; otherwise the result has
their side (the first member's when none has steps) -/
theorem aggregate_closed (F : AggFn) (ms : List (Stairs P)) :
    ((∃ a ∈ ms, ∃ b ∈ ms, a.hasSteps = true ∧ b.hasSteps = true ∧ a.closed ≠ b.closed) →
        aggregate F ms = .error .closedMismatch) ∧
    ((∀ a ∈ ms, ∀ b ∈ ms, a.hasSteps = true → b.hasSteps = true → a.closed = b.closed) →
        ∃ h, aggregate F ms = .ok h ∧
          (∀ a ∈ ms, a.hasSteps = true → h.closed = a.closed) ∧
          ((∀ a ∈ ms, a.hasSteps = false) → ∀ m r, ms = m :: r → h.closed = m.closed)) := by
  constructor
  · rintro ⟨a, ha, b, hb, hsa, hsb, hne⟩
    unfold aggregate closedOfMembers
    have ha' : a ∈ ms.filter (·.hasSteps) := List.mem_filter.mpr ⟨ha, hsa⟩
    have hb' : b ∈ ms.filter (·.hasSteps) := List.mem_filter.mpr ⟨hb, hsb⟩
    cases hfl : ms.filter (·.hasSteps) with
    | nil => rw [hfl] at ha'; cases ha'
    | cons m r =>
      rw [hfl] at ha' hb'
      have : ¬ (r.all fun x => x.closed == m.closed) = true := by
        intro hall
        rw [List.all_eq_true] at hall
        have hcl : ∀ z ∈ m :: r, z.closed = m.closed := by
          intro z hz
          rcases List.mem_cons.mp hz with h | h
          · rw [h]
          · simpa using hall z h
        exact hne ((hcl a ha').trans (hcl b hb').symm)
      simp [this]
  · intro hall
    unfold aggregate closedOfMembers
    cases hfl : ms.filter (·.hasSteps) with
    | nil =>
      refine ⟨_, rfl, ?_, ?_⟩
      · intro a ha hsa
        have : a ∈ ms.filter (·.hasSteps) := List.mem_filter.mpr ⟨ha, hsa⟩
        rw [hfl] at this; cases this
      · intro _ m r hms; subst hms; rfl
    | cons m r =>
      have hm : m ∈ ms ∧ m.hasSteps = true := by
        have : m ∈ ms.filter (·.hasSteps) := by rw [hfl]; simp
        simpa [List.mem_filter] using this
      have hr : (r.all fun x => x.closed == m.closed) = true := by
        rw [List.all_eq_true]
        intro z hz
        have : z ∈ ms.filter (·.hasSteps) := by rw [hfl]; exact List.mem_cons_of_mem _ hz
        have hz' := List.mem_filter.mp this
        simpa using hall z hz'.1 m hm.1 (by simpa using hz'.2) hm.2
      simp only [hr, if_true]
      refine ⟨_, rfl, ?_, ?_⟩
      · intro a ha hsa; exact (hall a ha m hm.1 hsa hm.2).symm
      · intro hnone; exact absurd hm.2 (by rw [hnone m hm.1]; simp)

/-- **resample** never raises a closed-side mismatch, whatever the function's side -/
theorem resample_never_mismatches (f : Stairs Rat) (ivs : List Iv) (vals : List Rat) :
    resampleWith f ivs vals ≠ .error .closedMismatch := by
  unfold resampleWith
  cases ivs with
  | nil => simp
  | cons iv0 rest =>
    simp only []
    intro h
    have hm : ∀ (a b : Stairs Rat), a.closed = b.closed → mask a b ≠ .error .closedMismatch :=
      fun a b hab he => not_mismatch_of_closed_eq a b hab ((combineChecked_error_iff maskOp a b).mp he)
    generalize hlb : List.foldl _ iv0.1 (iv0 :: rest) = lb at h
    generalize hrb : List.foldl _ iv0.2 (iv0 :: rest) = rb at h
    cases hmask : mask (fillnaScalar (maskTuple f (some lb) (some rb)) (some 0))
        (fillnaScalar (maskTuple (unop .isna f) (some lb) (some rb)) (some 0)) with
    | error e =>
      have hmask' : combineChecked maskOp _ _ = .error e := hmask
      have := combineChecked_error_only maskOp _ _ e hmask'
      subst this
      exact hm (fillnaScalar (maskTuple f (some lb) (some rb)) (some 0))
        (fillnaScalar (maskTuple (unop .isna f) (some lb) (some rb)) (some 0)) rfl hmask
    | ok base => rw [hmask] at h; cases h

/-! non-vacuity -/
def l₀ : Stairs Int := ⟨some 0, [(1, some 2)], .left⟩
def r₀ : Stairs Int := ⟨some 0, [(1, some 2)], .right⟩
def c₀ : Stairs Int := ⟨some 5, [], .left⟩
example : Mismatch l₀ r₀ ∧ ¬ Mismatch c₀ r₀ := by decide +kernel
example : binop .add l₀ r₀ = .error .closedMismatch := by decide +kernel
example : (binop .add c₀ r₀).toOption.map (·.closed) = some .right := by decide +kernel
example : aggregate .sum [c₀, r₀, r₀] = .ok ⟨some 5, [(1, some 9)], .right⟩ := by decide +kernel
example : aggregate .sum [c₀, l₀, r₀] = .error .closedMismatch := by decide +kernel

end SC.Props.C15
