import SCModel.Lemmas.Pointwise
import Mathlib.Data.Int.Order.Basic
/-!
# C01 — Arithmetic (+, -, *, /, unary -) is pointwise on the common domain

For step functions `f g` (either may be a real scalar, on either side) and `o ∈ {+,-,*,/}` the result `h`
satisfies `h(x) = f(x) o g(x)` wherever both are defined (and `g(x) ≠ 0` for `/`), is undefined exactly
where an operand is undefined or the divisor is zero, and never takes an infinite value.
`Den h st x` is the one-sided limit of `h` at `x` (`st = true`: left limit), so the statements below hold
for the function under either closed convention.
-/
set_option linter.unusedSectionVars false
namespace SC.Props.C01
open SC SC.Stairs
variable {P : Type} [LinearOrder P]

/-- the four arithmetic operators -/
def IsArith (o : BinOp) : Prop := o = .add ∨ o = .sub ∨ o = .mul ∨ o = .div

/-- what the operators do at one point where both operands are defined -/
theorem eval_defined (a b : Rat) :
    BinOp.add.eval (some a) (some b) = some (a + b) ∧
    BinOp.sub.eval (some a) (some b) = some (a - b) ∧
    BinOp.mul.eval (some a) (some b) = some (a * b) ∧
    BinOp.div.eval (some a) (some b) = (if b = 0 then none else some (a / b)) := by
  simp [BinOp.eval, vadd, vsub, vmul, vdiv, vlift2]

/-- undefined exactly where an operand is undefined or the divisor is zero -/
theorem eval_none_iff (o : BinOp) (ho : IsArith o) (a b : Val) :
    o.eval a b = none ↔ a = none ∨ b = none ∨ (o = .div ∧ b = some 0) := by
  rcases ho with rfl | rfl | rfl | rfl <;> cases a <;> cases b <;>
    simp [BinOp.eval, vadd, vsub, vmul, vdiv, vlift2]

/-- **C01 (Stairs ∘ Stairs).** A successful arithmetic operation is pointwise for both one-sided limits,
and its result is canonical. -/
theorem arith_pointwise (o : BinOp) (f g h : Stairs P) (hf : f.WF) (hg : g.WF)
    (hres : binop o f g = .ok h) :
    h.Canonical ∧ ∀ st x, Den h st x = o.eval (Den f st x) (Den g st x) := by
  obtain ⟨hc, _, hp⟩ := combineChecked_ok o.eval f g h hf hg hres
  exact ⟨hc, hp⟩

/-- **Domain of definition.** -/
theorem arith_undefined_iff (o : BinOp) (ho : IsArith o) (f g h : Stairs P) (hf : f.WF) (hg : g.WF)
    (hres : binop o f g = .ok h) (st : Bool) (x : P) :
    Den h st x = none ↔ Den f st x = none ∨ Den g st x = none ∨ (o = .div ∧ Den g st x = some 0) := by
  rw [(arith_pointwise o f g h hf hg hres).2 st x]
  exact eval_none_iff o ho _ _

/-- **Values where defined.** -/
theorem arith_value (o : BinOp) (f g h : Stairs P) (hf : f.WF) (hg : g.WF)
    (hres : binop o f g = .ok h) (st : Bool) (x : P) (a b : Rat)
    (ha : Den f st x = some a) (hb : Den g st x = some b) :
    Den h st x = o.eval (some a) (some b) := by
  rw [(arith_pointwise o f g h hf hg hres).2 st x, ha, hb]

/-- **Totality.** The operation fails only for a closed-side mismatch (C15), never otherwise. -/
theorem arith_total (o : BinOp) (f g : Stairs P) (h : ¬ Mismatch f g) : ∃ r, binop o f g = .ok r :=
  ⟨_, combineChecked_total o.eval f g h⟩

/-- **Scalars on either side.** `f o c` and `c o g` are the operation against the constant function. -/
theorem arith_scalar_right (o : BinOp) (f : Stairs P) (c : Val) (hf : f.WF) :
    ∃ h, binopO o (.st f) (.sc c) = some (.ok h) ∧ h.Canonical ∧
      ∀ st x, Den h st x = o.eval (Den f st x) c := by
  refine ⟨combine o.eval f (const c f.closed) (sideOf f (const c f.closed)), ?_, ?_, ?_⟩
  · simp only [binopO, sanitize, Option.map_some, binop]
    rw [combineChecked_total _ _ _ (not_mismatch_const_right f c f.closed)]
  · exact canonical_combine _ _ _ _ hf (wf_const c f.closed)
  · intro st x
    rw [den_combine _ _ _ _ hf (wf_const c f.closed)]; rfl

theorem arith_scalar_left (o : BinOp) (g : Stairs P) (c : Val) (hg : g.WF) :
    ∃ h, binopO o (.sc c) (.st g) = some (.ok h) ∧ h.Canonical ∧
      ∀ st x, Den h st x = o.eval c (Den g st x) := by
  refine ⟨combine o.eval (const c g.closed) g (sideOf (const c g.closed) g), ?_, ?_, ?_⟩
  · simp only [binopO, sanitize, Option.map_some, binop]
    rw [combineChecked_total _ _ _ (not_mismatch_const_left g c g.closed)]
  · exact canonical_combine _ _ _ _ (wf_const c g.closed) hg
  · intro st x
    rw [den_combine _ _ _ _ (wf_const c g.closed) hg]; rfl

/-- a NaN scalar makes the result undefined everywhere -/
theorem arith_nan_scalar (o : BinOp) (ho : IsArith o) (f : Stairs P) (hf : f.WF) :
    ∃ h, binopO o (.st f) (.sc none) = some (.ok h) ∧ ∀ st x, Den h st x = none := by
  obtain ⟨h, h1, _, h3⟩ := arith_scalar_right o f none hf
  exact ⟨h, h1, fun st x => by rw [h3, eval_none_iff o ho]; simp⟩

/-- **Negation**: `(-f)(x) = -f(x)` with the same domain of definition. -/
theorem neg_pointwise (f : Stairs P) (hf : f.WF) (st : Bool) (x : P) :
    Den (unop .neg f) st x = (Den f st x).map (fun q => -q) := den_map _ f hf st x

theorem neg_defined_iff (f : Stairs P) (hf : f.WF) (st : Bool) (x : P) :
    Den (unop .neg f) st x = none ↔ Den f st x = none := by
  rw [neg_pointwise f hf]; cases Den f st x <;> simp

theorem neg_canonical (f : Stairs P) (hf : f.WF) : (unop .neg f).Canonical := canonical_map _ f hf

/-! ## "h never takes an infinite value"

`Val = Option ℚ` has no infinities, so the statement is part of the type.  What the code does is IEEE
division followed by a clean-up of the infinities; that step is modelled separately so that the clean-up
is a lemma and cleaning only `+inf` is a refuted variant (the defect repaired by commit 0e285ec). -/

inductive EVal | fin (q : Rat) | nan | pinf | ninf
  deriving DecidableEq

/-- IEEE-style division: x/0 is ±inf by the sign of x, 0/0 is NaN -/
def divRaw : Val → Val → EVal
  | some a, some b =>
      if b = 0 then (if a = 0 then .nan else if 0 < a then .pinf else .ninf) else .fin (a / b)
  | _, _ => .nan

/-- `.replace(inf, nan).replace(-inf, nan)` -/
def cleanBoth : EVal → Val
  | .fin q => some q
  | _ => none

theorem cleanBoth_divRaw (a b : Val) : cleanBoth (divRaw a b) = vdiv a b := by
  cases a with
  | none => rfl
  | some a =>
    cases b with
    | none => rfl
    | some b =>
      by_cases hb : b = 0
      · by_cases ha : a = 0
        · simp [divRaw, vdiv, cleanBoth, hb, ha]
        · by_cases hp : 0 < a <;> simp [divRaw, vdiv, cleanBoth, hb, ha, hp]
      · simp [divRaw, vdiv, cleanBoth, hb]

/-- cleaning `+inf` only lets `-inf` through: `(-1) / 0` -/
theorem cleanPosOnly_leaks : divRaw (some (-1)) (some 0) = .ninf := by decide +kernel

/-! ## non-vacuity: a concrete instance with steps, an undefined piece and a zero divisor -/
def f₀ : Stairs Int := ⟨some 0, [(1, some 2), (3, none)], .left⟩
def g₀ : Stairs Int := ⟨some 1, [(2, some 0)], .left⟩
example : f₀.WF ∧ g₀.WF ∧ ¬ Mismatch f₀ g₀ := by decide +kernel
example : binop .div f₀ g₀ = .ok ⟨some 0, [(1, some 2), (2, none)], .left⟩ := by decide +kernel
example : binop .add f₀ g₀ = .ok ⟨some 1, [(1, some 3), (2, some 2), (3, none)], .left⟩ := by decide +kernel

end SC.Props.C01
