import SCModel.Model.World
/-!
# C14 — Cached statistics never go stale across layer mutations

The object model (`Model/World.lean`) has the two caches of the implementation: the memoised
`(integral, mean)` pair and the distribution accessor.  Queries read a filled cache and fill an empty one;
`layer` resets both (except on the early-return path for an everywhere-undefined receiver, which changes
nothing).  The theorems: the caches always describe the *current* function, so every answer of every
interleaving equals the answer of a freshly built equal function, and queries never change the function.
-/
namespace SC.Props.C14
open SC SC.Stairs SC.Obj

/-- each cache is empty or holds the statistic of the current function -/
def CacheInv (o : Obj) : Prop :=
  (o.im = none ∨ o.im = some (integral o.f, mean o.f)) ∧
  (o.dist = none ∨ o.dist = some (cumShares o.f))

theorem fresh_inv (f : Stairs Rat) : CacheInv (fresh f) := ⟨Or.inl rfl, Or.inl rfl⟩

/-- the function after a `layer` call: unchanged for an everywhere-undefined receiver -/
def layerF (f : Stairs Rat) (ts : List (Triple Rat)) : Stairs Rat :=
  if allUndefined f then f else Stairs.layer f ts

theorem layer_f (o : Obj) (ts : List (Triple Rat)) : (o.layer ts).f = layerF o.f ts := by
  unfold Obj.layer layerF; split <;> rfl

/-- **layer preserves the invariant** (it resets both caches whenever it changes the function) -/
theorem layer_inv (o : Obj) (ts : List (Triple Rat)) (h : CacheInv o) : CacheInv (o.layer ts) := by
  unfold Obj.layer
  split
  · exact h
  · exact ⟨Or.inl rfl, Or.inl rfl⟩

theorem ensureIM_spec (o : Obj) (h : CacheInv o) :
    (ensureIM o).2 = (integral o.f, mean o.f) ∧ (ensureIM o).1.f = o.f ∧ CacheInv (ensureIM o).1 := by
  unfold ensureIM
  cases him : o.im with
  | none => exact ⟨rfl, rfl, Or.inr rfl, h.2⟩
  | some p =>
    rcases h.1 with h1 | h1
    · rw [him] at h1; cases h1
    · rw [him] at h1; injection h1 with h1
      exact ⟨h1, rfl, h⟩

theorem ensureDist_spec (o : Obj) (h : CacheInv o) :
    (ensureDist o).2 = cumShares o.f ∧ (ensureDist o).1.f = o.f ∧ CacheInv (ensureDist o).1 := by
  unfold ensureDist
  cases hd : o.dist with
  | none => exact ⟨rfl, rfl, h.1, Or.inr rfl⟩
  | some d =>
    rcases h.2 with h2 | h2
    · rw [hd] at h2; cases h2
    · rw [hd] at h2; injection h2 with h2
      exact ⟨h2, rfl, h⟩

/-- **a query answers what a freshly built equal function answers, changes neither the function nor the
invariant** -/
theorem query_spec (o : Obj) (q : Query) (h : CacheInv o) :
    (o.query q).2 = freshAnswer o.f q ∧ (o.query q).1.f = o.f ∧ CacheInv (o.query q).1 := by
  unfold Obj.query freshAnswer
  cases h1 : needsIM q <;> cases h2 : needsDist q
  · simp only [Bool.false_eq_true, if_false, true_and]
    exact h
  · obtain ⟨b1, b2, b3⟩ := ensureDist_spec o h
    simp only [Bool.false_eq_true, if_false, if_true]
    exact ⟨by rw [b1, b2], b2, b3⟩
  · obtain ⟨a1, a2, a3⟩ := ensureIM_spec o h
    simp only [Bool.false_eq_true, if_false, if_true]
    exact ⟨by rw [a1, a2], a2, a3⟩
  · obtain ⟨a1, a2, a3⟩ := ensureIM_spec o h
    obtain ⟨b1, b2, b3⟩ := ensureDist_spec (ensureIM o).1 a3
    simp only [if_true]
    exact ⟨by rw [b1, b2, a2, a1], by rw [b2, a2], b3⟩

theorem ensureIM_f (o : Obj) : (ensureIM o).1.f = o.f := by
  unfold ensureIM; split <;> rfl
theorem ensureDist_f (o : Obj) : (ensureDist o).1.f = o.f := by
  unfold ensureDist; split <;> rfl

/-- a query never changes the function (this needs no invariant) -/
theorem query_keeps_function (o : Obj) (q : Query) : (o.query q).1.f = o.f := by
  unfold Obj.query
  cases Obj.needsIM q <;> cases Obj.needsDist q <;>
    simp only [Bool.false_eq_true, if_false, if_true, ensureIM_f, ensureDist_f]

/-- what a history must answer: walk the function through the layer calls, answer every query freshly -/
def specRun (f : Stairs Rat) : List HOp → List (List Val)
  | [] => []
  | .layer ts :: r => [] :: specRun (layerF f ts) r
  | .query q :: r => freshAnswer f q :: specRun f r

/-- the function at the end of a history: only the layer calls matter -/
def specFinal (f : Stairs Rat) : List HOp → Stairs Rat
  | [] => f
  | .layer ts :: r => specFinal (layerF f ts) r
  | .query _ :: r => specFinal f r

/-- **every finite interleaving of layer calls and queries**: all answers equal the fresh answers on the
function as it is at that moment, the final function is the one obtained from the layer calls alone, and
the invariant still holds (so the history can be continued) -/
theorem run_spec (o : Obj) (ops : List HOp) (h : CacheInv o) :
    (o.run ops).2 = specRun o.f ops ∧ (o.run ops).1.f = specFinal o.f ops ∧ CacheInv (o.run ops).1 := by
  induction ops generalizing o with
  | nil => exact ⟨rfl, rfl, h⟩
  | cons op r ih =>
    cases op with
    | layer ts =>
      obtain ⟨i1, i2, i3⟩ := ih (o.layer ts) (layer_inv o ts h)
      simp only [Obj.run, Obj.step, specRun, specFinal]
      rw [layer_f] at i1 i2
      exact ⟨by rw [i1], i2, i3⟩
    | query q =>
      obtain ⟨q1, q2, q3⟩ := query_spec o q h
      obtain ⟨i1, i2, i3⟩ := ih (o.query q).1 q3
      simp only [Obj.run, Obj.step, specRun, specFinal]
      rw [q2] at i1 i2
      exact ⟨by rw [i1, q1], i2, i3⟩

/-- starting from any freshly built function -/
theorem history_never_stale (f : Stairs Rat) (ops : List HOp) :
    ((fresh f).run ops).2 = specRun f ops ∧ ((fresh f).run ops).1.f = specFinal f ops :=
  ⟨(run_spec (fresh f) ops (fresh_inv f)).1, (run_spec (fresh f) ops (fresh_inv f)).2.1⟩

/-- queries are invisible to everything that follows: removing them from a history changes no later
function and no later answer -/
theorem queries_do_not_matter (f : Stairs Rat) (q : Query) (ops : List HOp) :
    specFinal f (.query q :: ops) = specFinal f ops ∧ specRun f (.query q :: ops) = freshAnswer f q :: specRun f ops :=
  ⟨rfl, rfl⟩

/-- a query repeated immediately gives the same answer (the second one is served from the cache) -/
theorem repeated_query (o : Obj) (q : Query) (h : CacheInv o) :
    ((o.query q).1.query q).2 = (o.query q).2 := by
  obtain ⟨q1, q2, q3⟩ := query_spec o q h
  rw [(query_spec _ q q3).1, q2, q1]

/-! non-vacuity: a stale cache is exactly what the invariant rules out -/
def f₀ : Stairs Rat := ⟨some 0, [(0, some 1), (4, some 0)], .left⟩
example : ((fresh f₀).run [.query .mean, .layer [⟨some 0, some 2, 2⟩], .query .mean, .query .mean]).2
    = [[some 1], [], [some 2], [some 2]] := by decide +kernel
example : ¬ CacheInv { f := Stairs.layer f₀ [⟨some 0, some 2, 2⟩], im := some (integral f₀, mean f₀) } := by
  unfold CacheInv; decide +kernel

end SC.Props.C14
