import SCModel.Props.C14cA
import SCModel.Props.C10b
/-!
# C14cC — seeded cache defects (part C): `min` / `max` read off the cached ECDF

(overview and table: `Props/C14c.lean`)  `queryMM` answers `min()` / `max()` from the extreme step points of the
cached ECDF once the distribution cache is filled.  `h14c_ecdf_extremes`: these are `percentile 0` / `percentile 100`;
`min_eq_percentile_zero_iff` / `max_eq_percentile_hundred_iff`: they are the true extremes iff each unbounded piece is
undefined or not beyond them; `queryMM_right_iff` (one query), `mm_class_iff` (histories, exact at the level of
outputs; state machine `safeMM`, in words `safeMM_iff`), `mm_world_correct`, `minMaxFromEcdf_refuted`.
-/
set_option linter.unusedSectionVars false
set_option linter.unusedVariables false
namespace SC.Props.C14c
open SC SC.Stairs SC.Obj SC.Props.C14 SC.Props.C14b

/-! ## 6. `minMaxFromEcdf` — once a distribution query has run, `min()` / `max()` are the extreme step points of the
cached ECDF (the two unbounded pieces are dropped) -/

/-- **defective query**: with a filled distribution cache `min` / `max` are its first / last value -/
def queryMM (o : Obj) (q : Query) : Obj × List Val :=
  match q, o.dist with
  | .min, some d => (o, [d.head?.map (·.1)])
  | .max, some d => (o, [d.getLast?.map (·.1)])
  | _, _ => o.query q

def mmV : Variant := ⟨Obj.layer, queryMM⟩

section Helpers

theorem h14c_queryMM_fst (o : Obj) (q : Query) : (queryMM o q).1 = (o.query q).1 := by
  unfold queryMM
  split <;> rfl

/-- the extreme step points of the ECDF are `percentile 0` / `percentile 100` -/
theorem h14c_ecdf_extremes (f : Stairs Rat) (hf : f.WF) :
    (cumShares f).head?.map (·.1) = percentile f 0 ∧ (cumShares f).getLast?.map (·.1) = percentile f 100 := by
  have hk : (cumShares f).map Prod.fst = (shares f).map Prod.fst := cumsum_keys 0 (shares f)
  have h1 : (cumShares f).head?.map (·.1) = (shares f).head?.map (·.1) := by
    rw [← List.head?_map, ← List.head?_map]; exact congrArg List.head? hk
  have h2 : (cumShares f).getLast?.map (·.1) = (shares f).getLast?.map (·.1) := by
    rw [← List.getLast?_map, ← List.getLast?_map]; exact congrArg List.getLast? hk
  rw [h1, h2]
  rcases List.eq_nil_or_concat (shares f) with hsh | ⟨S₁, a, hsh⟩
  · rw [C09.percentile_none f hsh, C09.percentile_none f hsh, hsh]; exact ⟨rfl, rfl⟩
  · obtain ⟨v, s⟩ := a
    rw [List.concat_eq_append] at hsh
    refine ⟨?_, ?_⟩
    · cases hs : shares f with
      | nil => rw [hs] at hsh; simp at hsh
      | cons b S₂ =>
        obtain ⟨v', s'⟩ := b
        rw [C09.percentile_zero f hf S₂ v' s' hs]; rfl
    · rw [C09.percentile_hundred f hf S₁ v s hsh, hsh]; simp

theorem h14c_fmin3 (a p b : Val) :
    fminV a (fminV p b) = p ↔ ∀ v, (a = some v ∨ b = some v) → ∃ q, p = some q ∧ q ≤ v := by
  cases a with
  | none =>
    cases p with
    | none =>
      cases b with
      | none => simp [fminV]
      | some y => simp [fminV]
    | some q =>
      cases b with
      | none => simp [fminV]
      | some y =>
        simp only [fminV, Option.some.injEq, reduceCtorEq, false_or, exists_eq_left', forall_eq']
        constructor
        · intro h; split at h
          · rename_i hlt; rw [h] at hlt; exact absurd hlt (lt_irrefl _)
          · rename_i hlt; exact not_lt.mp hlt
        · intro h; rw [if_neg (not_lt.mpr h)]
  | some x =>
    cases p with
    | none =>
      cases b with
      | none => simp [fminV]
      | some y => simp [fminV]; exact ⟨y, fun _ => rfl⟩
    | some q =>
      cases b with
      | none =>
        simp only [fminV, Option.some.injEq, reduceCtorEq, or_false, exists_eq_left', forall_eq']
        constructor
        · intro h; split at h
          · rename_i hlt; exact le_of_lt hlt
          · exact le_of_eq h.symm
        · intro h
          split
          · rfl
          · rename_i hlt; exact le_antisymm (not_lt.mp hlt) h
      | some y =>
        simp only [fminV, Option.some.injEq, exists_eq_left']
        constructor
        · intro h v hv
          by_cases h1 : y < q
          · rw [if_pos h1] at h
            split at h
            · rw [h] at h1; exact absurd h1 (lt_irrefl _)
            · rename_i h2; rw [← h] at h1; exact absurd h1 h2
          · rw [if_neg h1] at h
            rcases hv with hv | hv
            · subst hv
              split at h
              · rename_i h2; exact le_of_lt h2
              · exact le_of_eq h.symm
            · subst hv; exact not_lt.mp h1
        · intro h
          have h1 := h y (Or.inr rfl)
          have h2 := h x (Or.inl rfl)
          rw [if_neg (not_lt.mpr h1)]
          split
          · rfl
          · rename_i h3; exact le_antisymm (not_lt.mp h3) h2

theorem h14c_fmax3 (a p b : Val) :
    fmaxV a (fmaxV p b) = p ↔ ∀ v, (a = some v ∨ b = some v) → ∃ q, p = some q ∧ v ≤ q := by
  cases a with
  | none =>
    cases p with
    | none =>
      cases b with
      | none => simp [fmaxV]
      | some y => simp [fmaxV]
    | some q =>
      cases b with
      | none => simp [fmaxV]
      | some y =>
        simp only [fmaxV, Option.some.injEq, reduceCtorEq, false_or, exists_eq_left', forall_eq']
        constructor
        · intro h; split at h
          · rename_i hlt; rw [h] at hlt; exact absurd hlt (lt_irrefl _)
          · rename_i hlt; exact not_lt.mp hlt
        · intro h; rw [if_neg (not_lt.mpr h)]
  | some x =>
    cases p with
    | none =>
      cases b with
      | none => simp [fmaxV]
      | some y => simp [fmaxV]; exact ⟨y, fun _ => rfl⟩
    | some q =>
      cases b with
      | none =>
        simp only [fmaxV, Option.some.injEq, reduceCtorEq, or_false, exists_eq_left', forall_eq']
        constructor
        · intro h; split at h
          · rename_i hlt; exact le_of_lt hlt
          · exact le_of_eq h
        · intro h
          split
          · rfl
          · rename_i hlt; exact le_antisymm h (not_lt.mp hlt)
      | some y =>
        simp only [fmaxV, Option.some.injEq, exists_eq_left']
        constructor
        · intro h v hv
          by_cases h1 : q < y
          · rw [if_pos h1] at h
            split at h
            · rw [h] at h1; exact absurd h1 (lt_irrefl _)
            · rename_i h2; rw [← h] at h1; exact absurd h1 h2
          · rw [if_neg h1] at h
            rcases hv with hv | hv
            · subst hv
              split at h
              · rename_i h2; exact le_of_lt h2
              · exact le_of_eq h
            · subst hv; exact not_lt.mp h1
        · intro h
          have h1 := h y (Or.inr rfl)
          have h2 := h x (Or.inl rfl)
          rw [if_neg (not_lt.mpr h1)]
          split
          · rfl
          · rename_i h3; exact le_antisymm h2 (not_lt.mp h3)

end Helpers

/-- **when is the ECDF extreme the true extreme?**  Exactly when each unbounded piece (initial value, value after
the last step point) is undefined or takes a value that is not below the least (above the greatest) value of the
finite pieces – "the extremes are attained on finite pieces" (cf. C10b `min_whole_eq`) -/
theorem min_eq_percentile_zero_iff (f : Stairs Rat) (hf : f.WF) (c : IClosed) :
    minIn f none none c = percentile f 0 ↔
      ∀ v, (f.init = some v ∨ lastVal f.init f.steps = some v) → ∃ p, percentile f 0 = some p ∧ p ≤ v := by
  rw [(C10b.min_whole_eq f hf c).1]; exact h14c_fmin3 _ _ _

theorem max_eq_percentile_hundred_iff (f : Stairs Rat) (hf : f.WF) (c : IClosed) :
    maxIn f none none c = percentile f 100 ↔
      ∀ v, (f.init = some v ∨ lastVal f.init f.steps = some v) → ∃ p, percentile f 100 = some p ∧ v ≤ p := by
  rw [(C10b.min_whole_eq f hf c).2]; exact h14c_fmax3 _ _ _

/-- the defective answer is right: a `min` (`max`) query with a filled distribution cache needs the least
(greatest) value to be attained on a finite piece -/
def MMOK (f : Stairs Rat) (bD : Bool) : Query → Prop
  | .min => bD = true → minIn f none none (defaultIClosed f.closed) = percentile f 0
  | .max => bD = true → maxIn f none none (defaultIClosed f.closed) = percentile f 100
  | _ => True

instance instDecidableMMOK (f : Stairs Rat) (bD : Bool) : (q : Query) → Decidable (MMOK f bD q)
  | .min => inferInstanceAs (Decidable (bD = true → minIn f none none (defaultIClosed f.closed) = percentile f 0))
  | .max => inferInstanceAs (Decidable (bD = true → maxIn f none none (defaultIClosed f.closed) = percentile f 100))
  | .integral => isTrue trivial
  | .mean => isTrue trivial
  | .var => isTrue trivial
  | .median => isTrue trivial
  | .modes => isTrue trivial
  | .vsums => isTrue trivial
  | .percentile _ => isTrue trivial
  | .fractile _ => isTrue trivial
  | .ecdf _ _ => isTrue trivial

/-- **one query, exactly** -/
theorem queryMM_right_iff (o : Obj) (q : Query) (hc : CacheInv o) (hf : o.f.WF) :
    (queryMM o q).2 = freshAnswer o.f q ↔ MMOK o.f o.dist.isSome q := by
  have hx := h14c_ecdf_extremes o.f hf
  cases hd : o.dist with
  | none =>
    have : queryMM o q = o.query q := by unfold queryMM; rw [hd]; cases q <;> rfl
    rw [this, (query_spec o q hc).1]
    cases q <;> simp [MMOK]
  | some d =>
    have hd' : d = cumShares o.f := by
      rcases hc.2 with h | h
      · rw [hd] at h; cases h
      · rw [hd] at h; injection h
    subst hd'
    cases q with
    | min =>
      simp only [queryMM, hd, freshAnswer, answerFrom, MMOK, Option.isSome_some, forall_const, List.cons.injEq,
        and_true, hx.1]
      exact eq_comm
    | max =>
      simp only [queryMM, hd, freshAnswer, answerFrom, MMOK, Option.isSome_some, forall_const, List.cons.injEq,
        and_true, hx.2]
      exact eq_comm
    | _ =>
      simp only [queryMM, MMOK, iff_true]
      exact (query_spec o _ hc).1

/-- the class of histories, as a state machine (`bD` = distribution cache filled now) -/
def safeMM (f : Stairs Rat) (bD : Bool) : List HOp → Bool
  | [] => true
  | .layer ts :: r => safeMM (layerF f ts) (bD && allUndefined f) r
  | .query q :: r => decide (MMOK f bD q) && safeMM f (bD || needsDist q) r

/-- **EXACT CLASS, at the level of outputs**: the variant answers every query of the history like a freshly built
equal function iff at every `min` / `max` query made while the distribution cache is filled the extreme is attained
on a finite piece -/
theorem mm_class_iff (o : Obj) (ops : List HOp) (hc : CacheInv o) (hf : o.f.WF) :
    (mmV.run o ops).2 = specRun o.f ops ↔ safeMM o.f o.dist.isSome ops = true := by
  induction ops generalizing o with
  | nil => exact ⟨fun _ => rfl, fun _ => rfl⟩
  | cons op r ih =>
    cases op with
    | layer ts =>
      have := ih (o.layer ts) (layer_inv o ts hc) (by rw [layer_f]; exact h14c_wf_layerF o.f ts hf)
      rw [layer_f, w14b_layer_dist_isSome] at this
      simp only [Variant.run, Variant.step, specRun, safeMM, List.cons.injEq, true_and]
      exact this
    | query q =>
      obtain ⟨_, q2, q3⟩ := query_spec o q hc
      have := ih (o.query q).1 q3 (by rw [q2]; exact hf)
      rw [q2, w14b_query_dist_isSome] at this
      simp only [Variant.run, Variant.step, specRun, safeMM, List.cons.injEq, Bool.and_eq_true, decide_eq_true_eq]
      show (queryMM o q).2 = _ ∧ (mmV.run (queryMM o q).1 r).2 = _ ↔ _
      rw [h14c_queryMM_fst, queryMM_right_iff o q hc hf, this]

/-- the state machine in words -/
theorem safeMM_iff (f : Stairs Rat) (bD : Bool) (ops : List HOp) :
    safeMM f bD ops = true ↔
      ∀ pre q post, ops = pre ++ .query q :: post → MMOK (specFinal f pre) (filledAfter needsDist bD f pre) q := by
  induction ops generalizing f bD with
  | nil => exact ⟨fun _ pre q post h => (by cases pre <;> cases h), fun _ => rfl⟩
  | cons op r ih =>
    cases op with
    | layer ts =>
      simp only [safeMM, ih]
      constructor
      · intro h pre q post he
        cases pre with
        | nil => cases he
        | cons x pre' =>
          injection he with hx hr; subst hx
          exact h pre' q post hr
      · intro h pre q post he
        exact h (.layer ts :: pre) q post (by rw [he]; rfl)
    | query q0 =>
      simp only [safeMM, Bool.and_eq_true, decide_eq_true_eq, ih]
      constructor
      · rintro ⟨h1, h2⟩ pre q post he
        cases pre with
        | nil => injection he with hx _; injection hx with hx; subst hx; exact h1
        | cons x pre' =>
          injection he with hx hr; subst hx
          exact h2 pre' q post hr
      · intro h
        exact ⟨h [] q0 r rfl, fun pre q post he => h (.query q0 :: pre) q post (by rw [he]; rfl)⟩

/-- the function never changes under the variant either, and the final object is the reference one -/
theorem mm_state (o : Obj) (ops : List HOp) : (mmV.run o ops).1 = (o.run ops).1 := by
  induction ops generalizing o with
  | nil => rfl
  | cons op r ih =>
    cases op with
    | layer ts => simp only [Variant.run, Variant.step, Obj.run, Obj.step]; exact ih _
    | query q =>
      simp only [Variant.run, Variant.step, Obj.run, Obj.step]
      show (mmV.run (queryMM o q).1 r).1 = _
      rw [h14c_queryMM_fst]; exact ih _

/-- **sufficient, in the terms of C10b**: a function whose unbounded pieces are undefined or repeat values of finite
pieces (`min_eq_percentile_zero_of_covered`) is never exposed -/
theorem mmOK_of_covered (f : Stairs Rat) (hf : f.WF) (bD : Bool) (q : Query)
    (hi : ∀ v, f.init = some v → ∃ len, (v, len) ∈ definedPieces f.steps)
    (hl : ∀ v, lastVal f.init f.steps = some v → ∃ len, (v, len) ∈ definedPieces f.steps) : MMOK f bD q := by
  obtain ⟨h1, h2⟩ := C10b.min_eq_percentile_zero_of_covered f hf (defaultIClosed f.closed) hi hl
  cases q <;> simp only [MMOK] <;> first | trivial | exact fun _ => h1 | exact fun _ => h2

/-- histories without a distribution query before a `min` / `max` query are never exposed -/
theorem mm_correct_without_dist_query (f : Stairs Rat) (hf : f.WF) (ops : List HOp)
    (h : ∀ op ∈ ops, ∀ q, op = .query q → needsDist q = false) :
    (mmV.run (fresh f) ops).2 = specRun f ops := by
  apply (mm_class_iff (fresh f) ops (fresh_inv f) hf).2
  show safeMM f false ops = true
  induction ops generalizing f with
  | nil => rfl
  | cons op r ih =>
    cases op with
    | layer ts =>
      simp only [safeMM, Bool.false_and]
      exact ih _ (h14c_wf_layerF f ts hf) (fun o ho => h o (List.mem_cons_of_mem _ ho))
    | query q =>
      have hq := h (.query q) (by simp) q rfl
      simp only [safeMM, hq, Bool.or_false, Bool.and_eq_true, decide_eq_true_eq]
      refine ⟨?_, ih f hf (fun o ho => h o (List.mem_cons_of_mem _ ho))⟩
      cases q <;> simp [MMOK]

/-- **whole worlds**: the variant world coincides with the reference world – hence produces the output stream of
the cache-free semantics – when every `min` / `max` query meets a receiver whose distribution cache is empty or whose
extreme is attained on a finite piece -/
theorem mm_world_correct (w : World) (ops : List WOp) (hw : WInv w)
    (h : ∀ pre i q post, ops = pre ++ .query i q :: post → ∀ o, (w.run pre)[i]? = some o →
      o.f.WF ∧ MMOK o.f o.dist.isSome q) :
    mmV.runW w ops = runO w ops ∧ (mmV.runW w ops).2 = (runPure (erase w) ops).2 ∧
      erase (mmV.runW w ops).1 = (runPure (erase w) ops).1 := by
  have key : mmV.runW w ops = runO w ops := by
    induction ops generalizing w with
    | nil => rfl
    | cons op r ih =>
      have h1 : mmV.stepW w op = stepO w op := by
        cases op with
        | query i q =>
          simp only [Variant.stepW, stepO, World.step]
          have e1 : (fun o => (mmV.qry o q).1) = fun o => (o.query q).1 := by
            funext o; exact h14c_queryMM_fst o q
          rw [e1]
          cases hwi : w[i]? with
          | none => rfl
          | some o =>
            have ho : CacheInv o := hw o (List.mem_of_getElem? hwi)
            obtain ⟨hf, hm⟩ := h [] i q r rfl o hwi
            show (_, Out.answer (queryMM o q).2) = (_, Out.answer (o.query q).2)
            rw [(queryMM_right_iff o q ho hf).2 hm, (query_spec o q ho).1]
        | _ => rfl
      have hw' : WInv (stepO w op).1 := (step_refines_pure w op hw).2.2
      have h2 : ∀ pre i q post, r = pre ++ .query i q :: post → ∀ o, ((stepO w op).1.run pre)[i]? = some o →
          o.f.WF ∧ MMOK o.f o.dist.isSome q := by
        intro pre i q post he o ho
        refine h (op :: pre) i q post (by rw [he]; rfl) o ?_
        simpa [World.run, stepO_fst] using ho
      simp only [Variant.runW, runO, h1, ih _ hw' h2]
  rw [key]
  exact ⟨rfl, (run_refines_pure w ops hw).1, (run_refines_pure w ops hw).2.1⟩

/-! ### refutation: the minimum is only attained on the left-unbounded piece -/

/-- C10b's `g₃`: `0` on the unbounded left piece, `5`, `7` on the finite pieces, `100` on the unbounded right piece -/
def histMM : List WOp := [.new C10b.g₃, .query 0 .min, .query 0 .max, .query 0 .median, .query 0 .min, .query 0 .max]

/-- **refuted**: before the distribution query `min = 0`, `max = 100`; after it `5` and `7` -/
theorem minMaxFromEcdf_refuted :
    (mmV.runW [] histMM).2 =
      [.created 0, .answer [some 0], .answer [some 100], .answer [some 6], .answer [some 5], .answer [some 7]] ∧
    (runPure [] histMM).2 =
      [.created 0, .answer [some 0], .answer [some 100], .answer [some 6], .answer [some 0], .answer [some 100]] := by
  decide +kernel

/-- non-vacuity: `g₄` takes its outside value `5` on finite pieces as well, so the ECDF extremes are the true ones –
also after a `layer` – while for `g₃` the exact condition fails (`0 < 5`) -/
def g₄ : Stairs Rat := ⟨some 5, [(0, some 7), (1, some 5), (2, some 6), (3, some 5)], .left⟩
example : g₄.Canonical ∧ safeMM g₄ false [.query .median, .query .min, .query .max, .layer [⟨some 0, some 1, 1⟩],
      .query .min, .query (.ecdf .left 6), .query .max] = true ∧
    (mmV.run (fresh g₄) [.query .median, .query .min, .query .max, .layer [⟨some 0, some 1, 1⟩], .query .min,
      .query (.ecdf .left 6), .query .max]).2 = [[some 6], [some 5], [some 7], [], [some 5], [some (1/3)], [some 8]] := by
  decide +kernel
example : safeMM C10b.g₃ false [.query .median, .query .min] = false ∧
    ¬ (∀ v, (C10b.g₃.init = some v ∨ lastVal C10b.g₃.init C10b.g₃.steps = some v) →
      ∃ p, percentile C10b.g₃ 0 = some p ∧ p ≤ v) := by
  refine ⟨by decide +kernel, fun h => ?_⟩
  obtain ⟨p, hp, hle⟩ := h 0 (Or.inl rfl)
  have : percentile C10b.g₃ 0 = some 5 := by decide +kernel
  rw [this] at hp; injection hp with hp; subst hp
  exact absurd hle (by decide +kernel)

end SC.Props.C14c
