import SCModel.Lemmas.Pointwise
import Mathlib.Data.Int.Order.Basic
/-!
# C05 — Logical operators act pointwise on truthiness and propagate undefinedness

A value is true when it is non-zero.  `f & g`, `f | g`, `f ^ g` (either operand may be a scalar) are the
0/1 truth value of and / or / xor where both are defined and undefined exactly where either is undefined —
**including** against the absorbing constants (`x & 0`, `x | 1`).  `~f` is 1 where `f` is 0, 0 where `f` is
non-zero; `make_boolean` is its complement; both are undefined exactly where `f` is.
-/
set_option linter.unusedSectionVars false
namespace SC.Props.C05
open SC SC.Stairs
variable {P : Type} [LinearOrder P]

theorem truth_iff (a : Rat) : truth a = true ↔ a ≠ 0 := by simp [truth]

theorem vlogic_spec (l : Logic) (a b : Val) :
    vlogic l a b = match a, b with
      | some x, some y => some (if l.eval (truth x) (truth y) then 1 else 0)
      | _, _ => none := by
  cases a <;> cases b <;> simp [vlogic, b2r]

/-- **C05.** pointwise truth value for both one-sided limits -/
theorem logic_pointwise (l : Logic) (f g h : Stairs P) (hf : f.WF) (hg : g.WF)
    (hres : binop (.logic l) f g = .ok h) (st : Bool) (x : P) :
    Den h st x = match Den f st x, Den g st x with
      | some a, some b => some (if l.eval (truth a) (truth b) then 1 else 0)
      | _, _ => none := by
  rw [(combineChecked_ok (BinOp.logic l).eval f g h hf hg hres).2.2 st x]
  exact vlogic_spec l _ _

theorem logic_undefined_iff (l : Logic) (f g h : Stairs P) (hf : f.WF) (hg : g.WF)
    (hres : binop (.logic l) f g = .ok h) (st : Bool) (x : P) :
    Den h st x = none ↔ Den f st x = none ∨ Den g st x = none := by
  rw [logic_pointwise l f g h hf hg hres]
  cases Den f st x <;> cases Den g st x <;> simp

theorem logic_canonical (l : Logic) (f g h : Stairs P) (hf : f.WF) (hg : g.WF)
    (hres : binop (.logic l) f g = .ok h) : h.Canonical :=
  (combineChecked_ok (BinOp.logic l).eval f g h hf hg hres).1

/-- the three truth tables -/
theorem and_table (a b : Bool) : Logic.and.eval a b = (a && b) := rfl
theorem or_table (a b : Bool) : Logic.or.eval a b = (a || b) := rfl
theorem xor_table (a b : Bool) : Logic.xor.eval a b = (a != b) := rfl

/-- scalar operand (0, non-zero or NaN) on the right: still pointwise – in particular `x & 0` and `x | 1`
stay undefined where `x` is undefined -/
theorem logic_scalar_right (l : Logic) (f : Stairs P) (c : Val) (hf : f.WF) :
    ∃ h, binopO (.logic l) (.st f) (.sc c) = some (.ok h) ∧ h.Canonical ∧
      ∀ st x, Den h st x = vlogic l (Den f st x) c := by
  refine ⟨combine (vlogic l) f (const c f.closed) (sideOf f (const c f.closed)), ?_, ?_, ?_⟩
  · simp only [binopO, sanitize, Option.map_some, binop, BinOp.eval]
    rw [combineChecked_total _ _ _ (not_mismatch_const_right f c f.closed)]
  · exact canonical_combine _ _ _ _ hf (wf_const c f.closed)
  · intro st x; rw [den_combine _ _ _ _ hf (wf_const c f.closed)]; rfl

theorem logic_scalar_left (l : Logic) (g : Stairs P) (c : Val) (hg : g.WF) :
    ∃ h, binopO (.logic l) (.sc c) (.st g) = some (.ok h) ∧ h.Canonical ∧
      ∀ st x, Den h st x = vlogic l c (Den g st x) := by
  refine ⟨combine (vlogic l) (const c g.closed) g (sideOf (const c g.closed) g), ?_, ?_, ?_⟩
  · simp only [binopO, sanitize, Option.map_some, binop, BinOp.eval]
    rw [combineChecked_total _ _ _ (not_mismatch_const_left g c g.closed)]
  · exact canonical_combine _ _ _ _ (wf_const c g.closed) hg
  · intro st x; rw [den_combine _ _ _ _ (wf_const c g.closed) hg]; rfl

/-- the absorbing cases keep the undefined region: `x & 0` is 0 exactly where `x` is defined -/
theorem and_zero_keeps_undefined (f : Stairs P) (hf : f.WF) :
    ∃ h, binopO (.logic .and) (.st f) (.sc (some 0)) = some (.ok h) ∧
      ∀ st x, Den h st x = (Den f st x).map (fun _ => (0 : Rat)) := by
  obtain ⟨h, h1, _, h3⟩ := logic_scalar_right .and f (some 0) hf
  refine ⟨h, h1, fun st x => ?_⟩
  rw [h3]; cases Den f st x <;> simp [vlogic, Logic.eval, truth, b2r]

/-- `x | c` for non-zero `c` is 1 exactly where `x` is defined -/
theorem or_nonzero_keeps_undefined (f : Stairs P) (hf : f.WF) (c : Rat) (hc : c ≠ 0) :
    ∃ h, binopO (.logic .or) (.st f) (.sc (some c)) = some (.ok h) ∧
      ∀ st x, Den h st x = (Den f st x).map (fun _ => (1 : Rat)) := by
  obtain ⟨h, h1, _, h3⟩ := logic_scalar_right .or f (some c) hf
  refine ⟨h, h1, fun st x => ?_⟩
  rw [h3]; cases Den f st x <;> simp [vlogic, Logic.eval, truth, b2r, hc]

/-- `~f`: 1 where f is 0, 0 where f is non-zero, undefined exactly where f is -/
theorem invert_pointwise (f : Stairs P) (hf : f.WF) (st : Bool) (x : P) :
    Den (unop .invert f) st x = (Den f st x).map (fun q => if q = 0 then 1 else 0) := by
  rw [show Den (unop .invert f) st x = UnOp.invert.eval (Den f st x) from den_map _ f hf st x]
  cases Den f st x <;> simp [UnOp.eval, b2r, truth]

theorem make_boolean_pointwise (f : Stairs P) (hf : f.WF) (st : Bool) (x : P) :
    Den (unop .makeBoolean f) st x = (Den f st x).map (fun q => if q = 0 then 0 else 1) := by
  rw [show Den (unop .makeBoolean f) st x = UnOp.makeBoolean.eval (Den f st x) from den_map _ f hf st x]
  cases Den f st x <;> simp [UnOp.eval, b2r, truth]

theorem invert_canonical (f : Stairs P) (hf : f.WF) : (unop .invert f).Canonical := canonical_map _ f hf
theorem make_boolean_canonical (f : Stairs P) (hf : f.WF) : (unop .makeBoolean f).Canonical := canonical_map _ f hf

/-! non-vacuity: arbitrary (negative, fractional) values and an undefined piece -/
def f₀ : Stairs Int := ⟨some (-2), [(1, some 0), (3, none), (5, some (1/2))], .left⟩
def g₀ : Stairs Int := ⟨some 0, [(2, some 7)], .left⟩
example : f₀.WF ∧ g₀.WF := by decide +kernel
example : binop (.logic .xor) f₀ g₀ = .ok ⟨some 1, [(1, some 0), (2, some 1), (3, none), (5, some 0)], .left⟩ := by
  decide +kernel
example : binopO (.logic .and) (.st f₀) (.sc (some 0)) = some (.ok ⟨some 0, [(3, none), (5, some 0)], .left⟩) := by
  decide +kernel

end SC.Props.C05
