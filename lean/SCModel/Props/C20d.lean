import SCModel.Lemmas.Canon12b
import SCModel.Props.C10b
import SCModel.Props.C20c
/-!
# C20d — `rolling_mean` in depth

`f.rolling_mean(window=(l, r), where=(lo, hi))` (model: `rollingMean f l r lo hi`) rolls over `c = f.clip(lo, hi)`
(`clipW`; `c = f` without `where`) and returns the rows `(x, mean of c over [x+l, x+r])` at the knots `x` — a window
edge meets a step point of `c` — that satisfy `lo − l ≤ x ≤ hi − r`.  C20 has the structure (`rollingMean_spec`,
`rollingMean_points`, `rollingMean_values`), C20b the interpolation clause, C20c `rollingMean_shift`.  Here:

1. **the rows as a set** (`rollingMean_rows_iff`): `(x, y) ∈ rows ↔ (x+l ∈ c.idx ∨ x+r ∈ c.idx) ∧ lo−l ≤ x ≤ hi−r ∧
   y = mean (window f (x+l) (x+r))` — the value is the mean of **`f` itself** (`C08b.meanIn f (x+l) (x+r)`), strictly
   increasing points, no duplicates, `y` undefined iff `f` is undefined throughout the window.  The step points of the
   rolled-over function in terms of `f` alone: `clipW_idx_iff`, `clippedStep_iff` (a discontinuity of `f` strictly
   inside `where`, or an end of `where` at which `f` is defined on the inner side), hence `rollingMean_points_iff`.
2. **the trimming rule / the window statistic as parameters** (`rollingMeanV`, faithful: `rollingMeanV_faithful`) and
   four seeded defects: (i) half the window width `keepHalf`, (ii) crossed offsets `keepCrossed`, (iii) `abs()` of the
   offsets `keepAbs`, (iv) integral / full width `fullWidthStat`.  Each is refuted on a concrete witness
   (`half_refuted`, `crossed_refuted`, `abs_refuted`, `fullWidth_refuted`) and the exact coincidence condition is
   proved, as predicates (`keepHalf_eq_iff`, …) and as functions
   (`rollingMeanHalf_eq_iff`: for all `f`, `where` ⟺ `l = −r`; `rollingMeanCrossed_eq_iff`: ⟺ `l = −r`;
   `rollingMeanAbs_eq_iff`: ⟺ `l ≤ 0 ≤ r`; `fullWidthStat_eq_meanStat_iff` / `rollingMeanFullWidth_eq_iff`: every
   kept window is all-undefined, or has integral `0`, or is **all-defined** — the plain "iff defined throughout" is
   FALSE, e.g. for the zero function with a gap; `r20d_lenOn_eq_width_iff`: defined length = width iff defined
   throughout).
3. **the fifth defect** (running integral interpolated with end-value holding = `f` with initial and last value
   replaced by `0`, `zeroEnds`): identical window object between the outermost step points
   (`zeroEnds_window_inside`), agrees on every window iff `init = 0 ∧ last value = 0` (`interpStat_eq_all_iff`), on a
   window reaching beyond the first / last step point iff that value is `0` (`interpStat_left_reach`,
   `interpStat_right_reach`); `rolling_mean` level: `rollingMeanInterp_eq_of_inside`, `…_of_zero_ends`,
   `…_of_where`, and without `where` **exactly** iff `f.init = 0` and the last value is `0`
   (`rollingMeanInterp_nowhere_iff`); refuted on `h₁` (`interp_refuted`).
4. bounds (`rollingMean_between_min_max`), constants (`rollingMean_const_on`, `rollingMean_const`; without `where` a
   step-free function is an assertion failure: `rollingMean_const_nowhere`), linearity (`rollingMean_affine_values`
   for every `k`; `rollingMean_affine`, `rollingMean_scale`, `rollingMean_addConst` as equalities of results for
   `k ≠ 0`; `k = 0` loses the points: `rollingMean_affine_needs_k_ne_zero`), additivity (`rollingMean_add_values`,
   hypothesis needed: `rollingMean_add_needs_same_domain`).
5. window algebra: `rollingMean_window_shift` (window `(l+d, r+d)` = window `(l, r)` re-indexed by `x ↦ x − d`; FALSE
   on the step-free path: `rollingMean_window_shift_stepfree_false`), degenerate window `r ≤ l`
   (`rollingMean_degenerate_window`: `ValueError` iff the rolled-over function has step points).
-/
set_option linter.unusedSectionVars false
set_option linter.unusedVariables false
namespace SC.Props.C20d
open SC SC.Stairs SC.Props.C20 SC.Props.C20b

/-! ## Helpers -/
section Helpers

/-- two windows whose integrands agree pointwise on `[a, b)` have the same weighted sum (different weights and
different functions allowed) -/
theorem r20d_wsum_window_congr (f g : Stairs Rat) (hf : f.WF) (hg : g.WF) (a b : Rat) (hab : a < b)
    (w w' : Rat → Rat)
    (h : ∀ x, a ≤ x → x < b → liftW w (Den f false x) = liftW w' (Den g false x)) :
    wsum w (window f a b) = wsum w' (window g a b) := by
  obtain ⟨u, hu, wf', wg'⟩ := i8b_grid2 (window f a b) (window g a b)
    (wf_window f a b hf hab) (wf_window g a b hg hab)
    (window_bounded f a b hf hab) (window_bounded g a b hg hab)
  rw [wf', wg']
  apply sumBy_congr
  intro e _
  congr 1
  rcases i8b_den_window_cases f hf a b hab e.1 with ⟨h1, h2, e1⟩ | ⟨hn, e1⟩
  · rcases i8b_den_window_cases g hg a b hab e.1 with ⟨_, _, e2⟩ | ⟨hn, _⟩
    · rw [e1, e2]; exact h e.1 h1 h2
    · exact absurd ⟨h1, h2⟩ hn
  · rcases i8b_den_window_cases g hg a b hab e.1 with ⟨h1, h2, _⟩ | ⟨_, e2⟩
    · exact absurd ⟨h1, h2⟩ hn
    · rw [e1, e2]; rfl

/-- the part of the line on which `f` is undefined, as a function: `1` there, undefined where `f` is defined -/
def naPart (f : Stairs Rat) : Stairs Rat :=
  Stairs.map (fun v => match v with | none => some 1 | some _ => none) f

theorem r20d_wf_naPart (f : Stairs Rat) (hf : f.WF) : (naPart f).WF := wf_map _ f hf

theorem r20d_den_naPart (f : Stairs Rat) (hf : f.WF) (x : Rat) :
    Den (naPart f) false x = match Den f false x with | none => some 1 | some _ => none :=
  den_map _ f hf false x

/-- **defined length + undefined length = width** -/
theorem r20d_lenOn_add_naPart (f : Stairs Rat) (hf : f.WF) (a b : Rat) (hab : a < b) :
    lenOn f a b + lenOn (naPart f) a b = b - a := by
  have hc : (const (some 0) f.closed : Stairs Rat).WF := wf_const _ _
  have e1 : lenOn f a b = wsum (fun v => v) (window (Stairs.map (fun v => some (if v.isSome then 1 else 0)) f) a b) := by
    rw [lenOn_eq_wsum]
    apply r20d_wsum_window_congr f _ hf (wf_map _ f hf) a b hab
    intro x _ _
    rw [den_map _ f hf]
    cases Den f false x <;> simp
  have e2 : lenOn (naPart f) a b
      = wsum (fun v => 1 - v) (window (Stairs.map (fun v => some (if v.isSome then 1 else 0)) f) a b) := by
    rw [lenOn_eq_wsum]
    apply r20d_wsum_window_congr _ _ (r20d_wf_naPart f hf) (wf_map _ f hf) a b hab
    intro x _ _
    rw [den_map _ f hf, r20d_den_naPart f hf]
    cases Den f false x <;> simp
  have e3 : b - a = wsum (fun _ => 1) (window (Stairs.map (fun v => some (if v.isSome then 1 else 0)) f) a b) := by
    rw [← lenOn_eq_wsum, lenOn_defined _ (wf_map _ f hf) a b hab]
    intro p _ _
    rw [den_map _ f hf]
    exact ⟨_, rfl⟩
  rw [e1, e2, e3, ← i8b_wsum_add]
  apply i8b_wsum_congr
  intro v; ring

/-- the defined length of a window never exceeds its width … -/
theorem r20d_lenOn_le (f : Stairs Rat) (hf : f.WF) (a b : Rat) (hab : a < b) : lenOn f a b ≤ b - a := by
  have h1 := r20d_lenOn_add_naPart f hf a b hab
  have h2 := i8b_lenOn_nonneg (naPart f) (r20d_wf_naPart f hf) a b hab
  linarith

/-- … with equality **iff** `f` is defined throughout the window -/
theorem r20d_lenOn_eq_width_iff (f : Stairs Rat) (hf : f.WF) (a b : Rat) (hab : a < b) :
    lenOn f a b = b - a ↔ ∀ p, a ≤ p → p < b → ∃ y, Den f false p = some y := by
  have h1 := r20d_lenOn_add_naPart f hf a b hab
  have h0 := i8b_lenOn_eq_zero_iff (naPart f) (r20d_wf_naPart f hf) a b hab
  constructor
  · intro h p hp1 hp2
    have hz : lenOn (naPart f) a b = 0 := by linarith
    have := h0.mp hz p hp1 hp2
    rw [r20d_den_naPart f hf] at this
    cases hd : Den f false p with
    | none => rw [hd] at this; cases this
    | some y => exact ⟨y, rfl⟩
  · intro h
    exact lenOn_defined f hf a b hab h

end Helpers

/-! ## 1. the returned focal points, as a set; order; values -/

/-- **the step points of the rolled-over function** `f.clip(lo, hi)`, in terms of `f`: the two one-sided limits of
the clipped function differ at `p` -/
def ClippedStep (f : Stairs Rat) (lo hi : Option Rat) (p : Rat) : Prop :=
  (if inWindow true lo hi p then Den f true p else none) ≠ (if inWindow false lo hi p then Den f false p else none)

instance (f : Stairs Rat) (lo hi : Option Rat) (p : Rat) : Decidable (ClippedStep f lo hi p) := by
  unfold ClippedStep; infer_instance

/-- spelled out: a discontinuity of `f` strictly inside `where`, or the lower end of `where` if `f` is defined just
to its right, or the upper end if `f` is defined just to its left -/
theorem clippedStep_iff (f : Stairs Rat) (lo hi : Option Rat) (hb : boundsOk lo hi = true) (p : Rat) :
    ClippedStep f lo hi p ↔
      (((∀ a, lo = some a → a < p) ∧ (∀ b, hi = some b → p < b)) ∧ Den f true p ≠ Den f false p) ∨
      (lo = some p ∧ Den f false p ≠ none) ∨ (hi = some p ∧ Den f true p ≠ none) := by
  unfold ClippedStep
  cases lo with
  | none =>
    cases hi with
    | none => simp [inWindow]
    | some b =>
      rcases lt_trichotomy p b with h | h | h
      · have h1 : ¬ b < p := not_lt.mpr (le_of_lt h)
        have h2 : ¬ b ≤ p := not_le.mpr h
        have h3 : b ≠ p := ne_of_gt h
        simp [inWindow, reached, h, h1, h3]
      · subst h
        simp [inWindow, reached]
      · have h1 : ¬ p < b := not_lt.mpr (le_of_lt h)
        have h2 : b ≤ p := le_of_lt h
        have h3 : b ≠ p := ne_of_lt h
        simp [inWindow, reached, h, h1, h3]
  | some a =>
    cases hi with
    | none =>
      rcases lt_trichotomy p a with h | h | h
      · have h1 : ¬ a < p := not_lt.mpr (le_of_lt h)
        have h2 : ¬ a ≤ p := not_le.mpr h
        have h3 : a ≠ p := ne_of_gt h
        simp [inWindow, reached, h1, h2, h3]
      · subst h
        simp [inWindow, reached]
        exact ne_comm
      · have h2 : a ≤ p := le_of_lt h
        have h3 : a ≠ p := ne_of_lt h
        simp [inWindow, reached, h, h2, h3]
    | some b =>
      have hab : a < b := by simpa [boundsOk] using hb
      rcases lt_trichotomy p a with h | h | h
      · have h1 : ¬ a < p := not_lt.mpr (le_of_lt h)
        have h2 : ¬ a ≤ p := not_le.mpr h
        have h3 : a ≠ p := ne_of_gt h
        have h4 : b ≠ p := ne_of_gt (lt_trans h hab)
        simp [inWindow, reached, h1, h2, h3, h4]
      · subst h
        have h4 : b ≠ p := ne_of_gt hab
        have h5 : ¬ b ≤ p := not_le.mpr hab
        simp [inWindow, reached, h4, hab]
        exact ne_comm
      · rcases lt_trichotomy p b with k | k | k
        · have h2 : a ≤ p := le_of_lt h
          have h3 : a ≠ p := ne_of_lt h
          have k1 : ¬ b < p := not_lt.mpr (le_of_lt k)
          have k2 : ¬ b ≤ p := not_le.mpr k
          have k3 : b ≠ p := ne_of_gt k
          simp [inWindow, reached, h, h2, h3, k, k1, k3]
        · subst k
          have h3 : a ≠ p := ne_of_lt h
          simp [inWindow, reached, h, h3]
        · have h3 : a ≠ p := ne_of_lt (lt_trans hab k)
          have k1 : ¬ p < b := not_lt.mpr (le_of_lt k)
          have k2 : b ≤ p := le_of_lt k
          have k3 : b ≠ p := ne_of_lt k
          simp [inWindow, reached, h, h3, k, k1, k3]

/-- a successful `where` has its bounds in order -/
theorem clipW_boundsOk (f c : Stairs Rat) (lo hi : Option Rat) (hc : clipW f lo hi = .ok c) :
    boundsOk lo hi = true := by
  cases hb : boundsOk lo hi with
  | true => rfl
  | false =>
    have hn : ¬ (lo = none ∧ hi = none) := by
      rintro ⟨h1, h2⟩; subst h1 h2; simp [boundsOk] at hb
    rw [clipW_spec, if_neg hn, clip_error f lo hi hb] at hc
    cases hc

/-- the rolled-over function is canonical as soon as a bound of `where` is given, or `f` is -/
theorem clipW_canonical (f c : Stairs Rat) (lo hi : Option Rat) (hf : f.WF)
    (hm : lo = none → hi = none → f.IsMinimal) (hc : clipW f lo hi = .ok c) : c.Canonical := by
  by_cases hn : lo = none ∧ hi = none
  · obtain ⟨h1, h2⟩ := hn
    have := hm h1 h2
    subst h1 h2
    simp only [clipW] at hc
    injection hc with hc
    subst hc
    exact ⟨hf, this⟩
  · have hc' : clip f lo hi = .ok c := by
      rw [clipW_spec, if_neg hn] at hc; exact hc
    exact (canonical_clip f lo hi hf (clipW_boundsOk f c lo hi hc) c hc').1

/-- **the step points of the rolled-over function** are exactly the `ClippedStep`s of `f` -/
theorem clipW_idx_iff (f c : Stairs Rat) (lo hi : Option Rat) (hf : f.WF)
    (hm : lo = none → hi = none → f.IsMinimal) (hc : clipW f lo hi = .ok c) (p : Rat) :
    p ∈ c.idx ↔ ClippedStep f lo hi p := by
  obtain ⟨hw, hmin⟩ := clipW_canonical f c lo hi hf hm hc
  obtain ⟨_, hden⟩ := clipW_den f c lo hi hf hc
  have := c12b_mem_iff_jump c.steps c.init hw hmin p
  unfold ClippedStep
  rw [← hden true p, ← hden false p]
  exact this

/-- inside `where` the rolled-over function is `f`: same window object statistics -/
theorem window_clipW (f c : Stairs Rat) (lo hi : Option Rat) (hf : f.WF) (hc : clipW f lo hi = .ok c)
    (a b : Rat) (hab : a < b) (hlo : ∀ a', lo = some a' → a' ≤ a) (hhi : ∀ b', hi = some b' → b ≤ b') :
    mean (window c a b) = mean (window f a b) ∧ lenOn c a b = lenOn f a b ∧ intOn c a b = intOn f a b ∧
    integral (window c a b) = integral (window f a b) ∧
    ∀ p, a ≤ p → p < b → Den c false p = Den f false p := by
  obtain ⟨hcw, hcd⟩ := clipW_den f c lo hi hf hc
  have hden : ∀ p, a ≤ p → p < b → Den c false p = Den f false p := by
    intro p h1 h2
    rw [hcd false p, if_pos]
    rw [inWindow_right]
    exact ⟨fun a' ha => le_trans (hlo a' ha) h1, fun b' hb => lt_of_lt_of_le h2 (hhi b' hb)⟩
  obtain ⟨hL, hI, hint, hm, _⟩ := C08b.window_stats_congr c f hcw hf a b hab hden
  exact ⟨hm, hL, hI, hint, hden⟩

/-- the windows of the kept focal points lie inside `where` -/
theorem keepKnot_window (lo hi : Option Rat) (l r x : Rat) (h : keepKnot lo hi l r x = true) :
    (∀ a', lo = some a' → a' ≤ x + l) ∧ (∀ b', hi = some b' → x + r ≤ b') := by
  obtain ⟨h1, h2⟩ := (keepKnot_iff lo hi l r x).mp h
  exact ⟨fun a' ha => by have := h1 a' ha; linarith, fun b' hb => by have := h2 b' hb; linarith⟩

/-- **C20d-1 (rolling_mean, rows as a set).**  `(x, y)` is a returned row iff a window edge at `x` meets a step
point of the rolled-over function, the whole window lies in `where`, and `y` is the mean of `f` itself over the
window.  The points come in strictly increasing order (so: no duplicates); `y` is what
`f.mean(where=(x+l, x+r))` returns; and `y` is undefined iff `f` is undefined throughout the window. -/
theorem rollingMean_rows_iff (f c : Stairs Rat) (l r : Rat) (lo hi : Option Rat) (rows : List (Rat × Val))
    (hf : f.WF) (hc : clipW f lo hi = .ok c) (hs : c.steps ≠ []) (hlr : l < r)
    (hr : rollingMean f l r lo hi = .ok rows) :
    (∀ x y, (x, y) ∈ rows ↔
      (x + l ∈ c.idx ∨ x + r ∈ c.idx) ∧ ((∀ a, lo = some a → a - l ≤ x) ∧ (∀ b, hi = some b → x ≤ b - r)) ∧
      y = mean (window f (x + l) (x + r))) ∧
    (rows.map Prod.fst).Pairwise (· < ·) ∧ (rows.map Prod.fst).Nodup ∧
    (∀ xy ∈ rows, C08b.meanIn f (some (xy.1 + l)) (some (xy.1 + r)) = .ok xy.2) ∧
    (∀ xy ∈ rows, xy.2 = none ↔ ∀ p, xy.1 + l ≤ p → p < xy.1 + r → Den f false p = none) := by
  obtain ⟨hcw, _⟩ := clipW_den f c lo hi hf hc
  have hspec := rollingMean_spec f c l r lo hi hc hs hlr
  rw [hr] at hspec
  injection hspec with hspec
  obtain ⟨_, hpw, _⟩ := rollingMean_points f c l r lo hi rows hc hcw hs hlr hr
  have hmem : ∀ x y, (x, y) ∈ rows ↔
      (x + l ∈ c.idx ∨ x + r ∈ c.idx) ∧ ((∀ a, lo = some a → a - l ≤ x) ∧ (∀ b, hi = some b → x ≤ b - r)) ∧
      y = mean (window f (x + l) (x + r)) := by
    intro x y
    rw [hspec, List.mem_map]
    constructor
    · rintro ⟨x', hx', he⟩
      injection he with e1 e2
      subst e1
      rw [List.mem_filter, mem_knots] at hx'
      obtain ⟨hw1, hw2⟩ := keepKnot_window lo hi l r x' hx'.2
      refine ⟨hx'.1, (keepKnot_iff lo hi l r x').mp hx'.2, ?_⟩
      rw [← e2]
      exact (window_clipW f c lo hi hf hc _ _ (by linarith) hw1 hw2).1
    · rintro ⟨hk, hkeep, hy⟩
      have hkeep' := (keepKnot_iff lo hi l r x).mpr hkeep
      obtain ⟨hw1, hw2⟩ := keepKnot_window lo hi l r x hkeep'
      refine ⟨x, List.mem_filter.mpr ⟨(mem_knots c l r x).mpr hk, hkeep'⟩, ?_⟩
      rw [hy, (window_clipW f c lo hi hf hc _ _ (by linarith) hw1 hw2).1]
  have hval : ∀ xy ∈ rows, xy.2 = mean (window f (xy.1 + l) (xy.1 + r)) :=
    fun xy hxy => ((hmem xy.1 xy.2).mp hxy).2.2
  refine ⟨hmem, hpw, hpw.imp (fun h => ne_of_lt h), ?_, ?_⟩
  · intro xy hxy
    rw [(C08b.statsIn_ok f (xy.1 + l) (xy.1 + r) (by linarith)).2.2.1, hval xy hxy]
  · intro xy hxy
    rw [hval xy hxy, C08b.mean_window, ← C08b.lenOn_eq_zero_iff f hf _ _ (by linarith)]
    by_cases h0 : lenOn f (xy.1 + l) (xy.1 + r) = 0
    · simp [h0]
    · simp [h0]

/-- the same set, in terms of `f` alone (`f` canonical, or a bound of `where` given) -/
theorem rollingMean_points_iff (f c : Stairs Rat) (l r : Rat) (lo hi : Option Rat) (rows : List (Rat × Val))
    (hf : f.WF) (hm : lo = none → hi = none → f.IsMinimal) (hc : clipW f lo hi = .ok c) (hs : c.steps ≠ [])
    (hlr : l < r) (hr : rollingMean f l r lo hi = .ok rows) (x : Rat) :
    x ∈ rows.map Prod.fst ↔
      (ClippedStep f lo hi (x + l) ∨ ClippedStep f lo hi (x + r)) ∧
      (∀ a, lo = some a → a - l ≤ x) ∧ (∀ b, hi = some b → x ≤ b - r) := by
  obtain ⟨hcw, _⟩ := clipW_den f c lo hi hf hc
  rw [(rollingMean_points f c l r lo hi rows hc hcw hs hlr hr).2.2 x,
    clipW_idx_iff f c lo hi hf hm hc, clipW_idx_iff f c lo hi hf hm hc]

/-! non-vacuity (C20's `f₀`: `1` on `[0,2)`, `3` on `[2,4)`, `0` elsewhere; trailing window `(-2, 0)`,
`where = (0, 4)`) -/
example : clipW f₀ (some 0) (some 4) = .ok ⟨none, [(0, some 1), (2, some 3), (4, none)], .left⟩ ∧
    rollingMean f₀ (-2) 0 (some 0) (some 4) = .ok [(2, some 1), (4, some 3)] := by decide +kernel
example : ClippedStep f₀ (some 0) (some 4) 0 ∧ ClippedStep f₀ (some 0) (some 4) 2 ∧ ClippedStep f₀ (some 0) (some 4) 4 ∧
    ¬ ClippedStep f₀ (some 0) (some 4) 1 ∧ ¬ ClippedStep f₀ (some 1) (some 3) 0 ∧ ClippedStep f₀ (some 1) (some 3) 1 ∧
    ClippedStep f₀ (some 1) (some 3) 3 := by decide +kernel
example : C08b.meanIn f₀ (some (4 + -2)) (some (4 + 0)) = .ok (some 3) ∧
    C08b.meanIn f₀ (some (2 + -2)) (some (2 + 0)) = .ok (some 1) := by decide +kernel
example : ((2 : Rat), (some 1 : Val)) ∈ [((2 : Rat), (some 1 : Val)), (4, some 3)] ↔
    ((2 + -2 : Rat) ∈ (⟨none, [(0, some 1), (2, some 3), (4, none)], .left⟩ : Stairs Rat).idx ∨
      (2 + 0 : Rat) ∈ (⟨none, [(0, some 1), (2, some 3), (4, none)], .left⟩ : Stairs Rat).idx) ∧
    ((∀ a, (some 0 : Option Rat) = some a → a - -2 ≤ 2) ∧ (∀ b, (some 4 : Option Rat) = some b → 2 ≤ b - 0)) ∧
    (some 1 : Val) = mean (window f₀ (2 + -2) (2 + 0)) :=
  (rollingMean_rows_iff f₀ _ (-2) 0 (some 0) (some 4) _ (by decide +kernel) (by decide +kernel) (by decide +kernel)
    (by decide +kernel) (by decide +kernel)).1 2 (some 1)

/-! ## 2. the trimming rule and the window statistic as parameters; four defective variants -/

/-- the rows for a trimming rule `keep` and a value rule `val` -/
def rowsWith (keep : Rat → Bool) (val : Rat → Val) (c : Stairs Rat) (l r : Rat) : List (Rat × Val) :=
  ((knots c l r).filter keep).map fun x => (x, val x)

/-- **`rolling_mean` with the trimming rule and the window statistic as parameters**; the `where` error, the
step-free path and the degenerate-window error are those of `rollingMean` -/
def rollingMeanV (keep : Option Rat → Option Rat → Rat → Rat → Rat → Bool) (stat : Stairs Rat → Rat → Rat → Val)
    (f : Stairs Rat) (l r : Rat) (lo hi : Option Rat) : Except Err (List (Rat × Val)) :=
  match clipW f lo hi with
  | .error e => .error e
  | .ok c =>
    if c.steps.isEmpty || !decide (l < r) then rollingMean f l r lo hi
    else .ok (rowsWith (keep lo hi l r) (fun x => stat c (x + l) (x + r)) c l r)

/-- the library's statistic: the mean of the slice -/
def meanStat (c : Stairs Rat) (a b : Rat) : Val := mean (window c a b)

theorem rollingMeanV_ok (keep : Option Rat → Option Rat → Rat → Rat → Rat → Bool)
    (stat : Stairs Rat → Rat → Rat → Val) (f c : Stairs Rat) (l r : Rat) (lo hi : Option Rat)
    (hc : clipW f lo hi = .ok c) (hs : c.steps ≠ []) (hlr : l < r) :
    rollingMeanV keep stat f l r lo hi
      = .ok (rowsWith (keep lo hi l r) (fun x => stat c (x + l) (x + r)) c l r) := by
  unfold rollingMeanV
  rw [hc]
  have h1 : c.steps.isEmpty = false := by
    cases hst : c.steps with
    | nil => exact absurd hst hs
    | cons _ _ => rfl
  simp [h1, hlr]

theorem rollingMeanV_other (keep : Option Rat → Option Rat → Rat → Rat → Rat → Bool)
    (stat : Stairs Rat → Rat → Rat → Val) (f : Stairs Rat) (l r : Rat) (lo hi : Option Rat)
    (h : ∀ c, clipW f lo hi = .ok c → c.steps = [] ∨ ¬ l < r) :
    rollingMeanV keep stat f l r lo hi = rollingMean f l r lo hi := by
  unfold rollingMeanV
  cases hc : clipW f lo hi with
  | error e => exact (rollingMean_clip_error f l r lo hi e hc).symm
  | ok c =>
    rcases h c hc with h1 | h1
    · simp [h1]
    · simp [h1]

/-- **the frame is faithful**: with the library's rule and statistic it is `rollingMean` -/
theorem rollingMeanV_faithful (f : Stairs Rat) (l r : Rat) (lo hi : Option Rat) :
    rollingMeanV keepKnot meanStat f l r lo hi = rollingMean f l r lo hi := by
  by_cases h : ∀ c, clipW f lo hi = .ok c → c.steps = [] ∨ ¬ l < r
  · exact rollingMeanV_other _ _ f l r lo hi h
  · push Not at h
    obtain ⟨c, hc, hs, hlr⟩ := h
    rw [rollingMeanV_ok _ _ f c l r lo hi hc hs hlr, rollingMean_spec f c l r lo hi hc hs hlr]
    rfl

/-- a trimming rule that agrees with the library's on the given `where` and window gives the same result -/
theorem rollingMeanV_congr_keep (keep keep' : Option Rat → Option Rat → Rat → Rat → Rat → Bool)
    (stat : Stairs Rat → Rat → Rat → Val) (f : Stairs Rat) (l r : Rat) (lo hi : Option Rat)
    (h : ∀ x, keep lo hi l r x = keep' lo hi l r x) :
    rollingMeanV keep stat f l r lo hi = rollingMeanV keep' stat f l r lo hi := by
  have : keep lo hi l r = keep' lo hi l r := funext h
  unfold rollingMeanV
  rw [this]

/-- … and one that disagrees with it **at a knot** gives a different result (whatever the statistic) -/
theorem rollingMeanV_ne_of_knot (keep : Option Rat → Option Rat → Rat → Rat → Rat → Bool)
    (stat : Stairs Rat → Rat → Rat → Val) (f c : Stairs Rat) (l r : Rat) (lo hi : Option Rat)
    (hc : clipW f lo hi = .ok c) (hs : c.steps ≠ []) (hlr : l < r) (x₀ : Rat) (hk : x₀ ∈ knots c l r)
    (hd : keep lo hi l r x₀ ≠ keepKnot lo hi l r x₀) :
    rollingMeanV keep stat f l r lo hi ≠ rollingMean f l r lo hi := by
  rw [rollingMeanV_ok _ _ f c l r lo hi hc hs hlr, rollingMean_spec f c l r lo hi hc hs hlr]
  intro he
  injection he with he
  have h2 := congrArg (List.map Prod.fst) he
  unfold rowsWith at h2
  simp only [List.map_map, Function.comp_def, List.map_id'] at h2
  have h3 : x₀ ∈ (knots c l r).filter (keep lo hi l r) ↔ x₀ ∈ (knots c l r).filter (keepKnot lo hi l r) := by
    rw [h2]
  simp only [List.mem_filter, hk, true_and] at h3
  cases h4 : keep lo hi l r x₀ <;> cases h5 : keepKnot lo hi l r x₀ <;> simp_all

/-! ### a parametric witness: the constant `1` with `where` exactly one window wide -/

/-- for every window `(l, r)` and every `a`: the constant `1` with `where = (a, a + (r − l))` has the knot
`a − l` (its window is exactly `where`), which the library keeps -/
theorem box_knot (a l r : Rat) (hlr : l < r) :
    ∃ c, clipW (const (some 1) .left) (some a) (some (a + (r - l))) = .ok c ∧ c.steps ≠ [] ∧
      a - l ∈ knots c l r ∧ keepKnot (some a) (some (a + (r - l))) l r (a - l) = true := by
  have hb : boundsOk (some a) (some (a + (r - l))) = true := by
    simp only [boundsOk, decide_eq_true_eq]; linarith
  have hc : clipW (const (some 1) .left) (some a) (some (a + (r - l)))
      = .ok (window (const (some 1) .left) a (a + (r - l))) := clip_window _ _ _ (by linarith)
  have hmem : a ∈ (window (const (some 1) .left : Stairs Rat) a (a + (r - l))).idx := by
    rw [clipW_idx_iff _ _ _ _ (wf_const _ _) (fun h => by cases h) hc, clippedStep_iff _ _ _ hb]
    right; left
    exact ⟨rfl, by simp [Den, const]⟩
  refine ⟨_, hc, ?_, ?_, ?_⟩
  · intro h
    unfold idx at hmem
    rw [h] at hmem
    cases hmem
  · rw [mem_knots]
    left
    rw [sub_add_cancel]
    exact hmem
  · rw [keepKnot_iff]
    constructor
    · intro a' ha; injection ha with ha; rw [← ha]
    · intro b' hb'; injection hb' with hb'; rw [← hb']; linarith

/-- **a trimming rule coincides with the library's for every function and every `where` iff it does so as a
predicate**; if it drops the focal point whose window is exactly `where`, the parametric witness tells them apart -/
theorem rollingMeanV_keep_eq_iff (keep : Option Rat → Option Rat → Rat → Rat → Rat → Bool) (l r : Rat)
    (hlr : l < r) (P : Prop)
    (h1 : P → ∀ lo hi x, keep lo hi l r x = keepKnot lo hi l r x)
    (h2 : ¬ P → keep (some 0) (some (0 + (r - l))) l r (0 - l) = false) :
    (∀ f lo hi, rollingMeanV keep meanStat f l r lo hi = rollingMean f l r lo hi) ↔ P := by
  constructor
  · intro h
    by_contra hP
    obtain ⟨c, hc, hs, hk, hkeep⟩ := box_knot 0 l r hlr
    refine rollingMeanV_ne_of_knot keep meanStat _ c l r _ _ hc hs hlr _ hk ?_ (h _ _ _)
    rw [hkeep, h2 hP]
    decide
  · intro hP f lo hi
    rw [rollingMeanV_congr_keep keep keepKnot meanStat f l r lo hi (h1 hP lo hi), rollingMeanV_faithful]

/-! ### (i) trimming by half the window width -/

/-- seeded variant (i): `lo + (r − l)/2 ≤ x ≤ hi − (r − l)/2` -/
def keepHalf (lo hi : Option Rat) (l r x : Rat) : Bool :=
  (match lo with | some a => decide (a + (r - l) / 2 ≤ x) | none => true) &&
  (match hi with | some b => decide (x ≤ b - (r - l) / 2) | none => true)

def rollingMeanHalf := rollingMeanV keepHalf meanStat

/-- (a) refuted: trailing window `(−2, 0)`, `where = (0, 4)`: the legitimate point `x = 4` (window `[2, 4]`) is
dropped; with `where = (−1, 5)` the legitimate `x = 5` is dropped and the point `x = 0`, whose window `[−2, 0]`
sticks out of `where`, is returned (with the mean over the part of its window inside `where`) -/
theorem half_refuted :
    rollingMean f₀ (-2) 0 (some 0) (some 4) = .ok [(2, some 1), (4, some 3)] ∧
    rollingMeanHalf f₀ (-2) 0 (some 0) (some 4) = .ok [(2, some 1)] ∧
    rollingMean f₀ (-2) 0 (some (-1)) (some 5) = .ok [(1, some (1/2)), (2, some 1), (4, some 3), (5, some (3/2))] ∧
    rollingMeanHalf f₀ (-2) 0 (some (-1)) (some 5) = .ok [(0, some 0), (1, some (1/2)), (2, some 1), (4, some 3)] := by
  decide +kernel

/-- (b) the rule is the library's **iff the window is centred** — as predicates … -/
theorem keepHalf_eq_iff (l r : Rat) : (∀ lo hi x, keepHalf lo hi l r x = keepKnot lo hi l r x) ↔ l = -r := by
  constructor
  · intro h
    have h1 := h (some 0) none (-l)
    have h2 := h (some 0) none ((r - l) / 2)
    simp only [keepHalf, keepKnot, Bool.and_true, decide_eq_decide] at h1 h2
    have e1 : (0 : Rat) + (r - l) / 2 ≤ -l := h1.mpr (by linarith)
    have e2 : (0 : Rat) - l ≤ (r - l) / 2 := h2.mp (by linarith)
    linarith
  · intro h lo hi x
    subst h
    have e : (r + r) / 2 = r := by ring
    have e' : ∀ a : Rat, a - -r = a + r := fun a => by ring
    cases lo <;> cases hi <;> simp only [keepHalf, keepKnot, e', e]

/-- … and as functions: `rolling_mean` with the half-width rule agrees with the library for every function and
every `where` iff `l = −r` (why the centred-window tests passed) -/
theorem rollingMeanHalf_eq_iff (l r : Rat) (hlr : l < r) :
    (∀ f lo hi, rollingMeanHalf f l r lo hi = rollingMean f l r lo hi) ↔ l = -r := by
  refine rollingMeanV_keep_eq_iff keepHalf l r hlr _ (fun h => (keepHalf_eq_iff l r).mpr h) ?_
  intro hne
  simp only [keepHalf, Bool.and_eq_false_iff, decide_eq_false_iff_not, not_le]
  by_contra hcon
  push Not at hcon
  apply hne
  linarith [hcon.1, hcon.2]

example : rollingMeanHalf f₀ (-1) 1 (some 0) (some 4) = rollingMean f₀ (-1) 1 (some 0) (some 4) :=
  (rollingMeanHalf_eq_iff (-1) 1 (by decide +kernel)).mpr (by decide +kernel) f₀ _ _

/-! ### (ii) the two offsets crossed -/

/-- seeded variant (ii): `x − r ≥ lo`, `x − l ≤ hi` (the step-point → focal-point transformation used for the
window-containment test) -/
def keepCrossed (lo hi : Option Rat) (l r x : Rat) : Bool :=
  (match lo with | some a => decide (a ≤ x - r) | none => true) &&
  (match hi with | some b => decide (x - l ≤ b) | none => true)

def rollingMeanCrossed := rollingMeanV keepCrossed meanStat

/-- (a) refuted: trailing window `(−2, 0)`, `where = (0, 4)`: the legitimate point `x = 4` is lost and `x = 0`
(window `[−2, 0]`, outside `where`: an undefined value) is returned; leading window `(0, 2)`: `x = 0` is lost and
`x = 4` (window `[4, 6]`) is returned -/
theorem crossed_refuted :
    rollingMean f₀ (-2) 0 (some 0) (some 4) = .ok [(2, some 1), (4, some 3)] ∧
    rollingMeanCrossed f₀ (-2) 0 (some 0) (some 4) = .ok [(0, none), (2, some 1)] ∧
    rollingMean f₀ 0 2 (some 0) (some 4) = .ok [(0, some 1), (2, some 3)] ∧
    rollingMeanCrossed f₀ 0 2 (some 0) (some 4) = .ok [(2, some 3), (4, none)] := by
  decide +kernel

/-- (b) **the exact condition is again `l = −r`** (the symmetric window) -/
theorem keepCrossed_eq_iff (l r : Rat) : (∀ lo hi x, keepCrossed lo hi l r x = keepKnot lo hi l r x) ↔ l = -r := by
  constructor
  · intro h
    have h1 := h (some 0) none (-l)
    have h2 := h (some 0) none r
    simp only [keepCrossed, keepKnot, Bool.and_true, decide_eq_decide] at h1 h2
    have e1 : (0 : Rat) ≤ -l - r := h1.mpr (by linarith)
    have e2 : (0 : Rat) - l ≤ r := h2.mp (by linarith)
    linarith
  · intro h lo hi x
    subst h
    have e1 : ∀ a : Rat, decide (a ≤ x - r) = decide (a - -r ≤ x) :=
      fun a => decide_eq_decide.mpr ⟨fun _ => by linarith, fun _ => by linarith⟩
    have e2 : ∀ b : Rat, decide (x - -r ≤ b) = decide (x ≤ b - r) :=
      fun b => decide_eq_decide.mpr ⟨fun _ => by linarith, fun _ => by linarith⟩
    cases lo <;> cases hi <;> simp only [keepCrossed, keepKnot, e1, e2]

theorem rollingMeanCrossed_eq_iff (l r : Rat) (hlr : l < r) :
    (∀ f lo hi, rollingMeanCrossed f l r lo hi = rollingMean f l r lo hi) ↔ l = -r := by
  refine rollingMeanV_keep_eq_iff keepCrossed l r hlr _ (fun h => (keepCrossed_eq_iff l r).mpr h) ?_
  intro hne
  simp only [keepCrossed, Bool.and_eq_false_iff, decide_eq_false_iff_not, not_le]
  by_contra hcon
  push Not at hcon
  apply hne
  linarith [hcon.1, hcon.2]

example : rollingMeanCrossed f₀ (-1) 1 (some 0) (some 4) = rollingMean f₀ (-1) 1 (some 0) (some 4) :=
  (rollingMeanCrossed_eq_iff (-1) 1 (by decide +kernel)).mpr (by decide +kernel) f₀ _ _

/-! ### (iii) `abs()` of the offsets -/

/-- `abs` on ℚ, computable in the kernel -/
def absQ (q : Rat) : Rat := if q < 0 then -q else q

theorem absQ_eq_abs (q : Rat) : absQ q = |q| := by
  unfold absQ
  split
  · rename_i h; rw [abs_of_neg h]
  · rename_i h; rw [abs_of_nonneg (not_lt.mp h)]

/-- seeded variant (iii): `lo + |l| ≤ x ≤ hi − |r|` -/
def keepAbs (lo hi : Option Rat) (l r x : Rat) : Bool :=
  (match lo with | some a => decide (a + absQ l ≤ x) | none => true) &&
  (match hi with | some b => decide (x ≤ b - absQ r) | none => true)

def rollingMeanAbs := rollingMeanV keepAbs meanStat

/-- (a) refuted on a strictly leading window `(1, 3)`, `where = (0, 4)`: the legitimate point `x = −1` (window
`[0, 2]`) is dropped -/
theorem abs_refuted :
    rollingMean f₀ 1 3 (some 0) (some 4) = .ok [(-1, some 1), (1, some 3)] ∧
    rollingMeanAbs f₀ 1 3 (some 0) (some 4) = .ok [(1, some 3)] ∧
    rollingMean f₀ (-3) (-1) (some 0) (some 4) = .ok [(3, some 1), (5, some 3)] ∧
    rollingMeanAbs f₀ (-3) (-1) (some 0) (some 4) = .ok [(3, some 1)] := by
  decide +kernel

/-- (b) the rule is the library's **iff the window contains its focal point**, `l ≤ 0 ≤ r` -/
theorem keepAbs_eq_iff (l r : Rat) : (∀ lo hi x, keepAbs lo hi l r x = keepKnot lo hi l r x) ↔ l ≤ 0 ∧ 0 ≤ r := by
  constructor
  · intro h
    have h1 := h (some 0) none (-l)
    have h2 := h none (some 0) (-r)
    simp only [keepAbs, keepKnot, Bool.and_true, Bool.true_and, decide_eq_decide, absQ_eq_abs] at h1 h2
    have e1 : (0 : Rat) + |l| ≤ -l := h1.mpr (by linarith)
    have e2 : -r ≤ 0 - |r| := h2.mpr (by linarith)
    have := abs_nonneg l
    have := abs_nonneg r
    constructor <;> linarith
  · rintro ⟨hl, hr⟩ lo hi x
    have e1 : absQ l = -l := by rw [absQ_eq_abs, abs_of_nonpos hl]
    have e2 : absQ r = r := by rw [absQ_eq_abs, abs_of_nonneg hr]
    cases lo <;> cases hi <;> simp [keepAbs, keepKnot, e1, e2, sub_eq_add_neg]

theorem rollingMeanAbs_eq_iff (l r : Rat) (hlr : l < r) :
    (∀ f lo hi, rollingMeanAbs f l r lo hi = rollingMean f l r lo hi) ↔ l ≤ 0 ∧ 0 ≤ r := by
  refine rollingMeanV_keep_eq_iff keepAbs l r hlr _ (fun h => (keepAbs_eq_iff l r).mpr h) ?_
  intro hne
  simp only [keepAbs, Bool.and_eq_false_iff, decide_eq_false_iff_not, not_le, absQ_eq_abs]
  by_contra hcon
  push Not at hcon
  apply hne
  have h1 := neg_abs_le l
  have h2 := le_abs_self r
  have h3 := le_abs_self l
  have h4 := neg_abs_le r
  constructor <;> linarith [hcon.1, hcon.2]

example : rollingMeanAbs f₀ (-2) 0 (some 0) (some 4) = rollingMean f₀ (-2) 0 (some 0) (some 4) :=
  (rollingMeanAbs_eq_iff (-2) 0 (by decide +kernel)).mpr (by decide +kernel) f₀ _ _

/-! ### (iv) integral / full window width -/

/-- two window statistics give the same `rolling_mean` iff they agree on the window of every kept knot -/
theorem rollingMeanV_stat_eq_iff (keep : Option Rat → Option Rat → Rat → Rat → Rat → Bool)
    (stat stat' : Stairs Rat → Rat → Rat → Val) (f c : Stairs Rat) (l r : Rat) (lo hi : Option Rat)
    (hc : clipW f lo hi = .ok c) (hs : c.steps ≠ []) (hlr : l < r) :
    rollingMeanV keep stat f l r lo hi = rollingMeanV keep stat' f l r lo hi ↔
      ∀ x ∈ knots c l r, keep lo hi l r x = true → stat c (x + l) (x + r) = stat' c (x + l) (x + r) := by
  rw [rollingMeanV_ok _ _ f c l r lo hi hc hs hlr, rollingMeanV_ok _ _ f c l r lo hi hc hs hlr]
  unfold rowsWith
  constructor
  · intro h x hx hk
    injection h with h
    have := (List.map_inj_left.mp h) x (List.mem_filter.mpr ⟨hx, hk⟩)
    injection this
  · intro h
    congr 1
    apply List.map_inj_left.mpr
    intro x hx
    rw [List.mem_filter] at hx
    show (x, stat c (x + l) (x + r)) = (x, stat' c (x + l) (x + r))
    rw [h x hx.1 hx.2]

/-- seeded variant (iv): the integral of the slice divided by the **full** window width (NaN when the slice has no
integral) -/
def fullWidthStat (c : Stairs Rat) (a b : Rat) : Val := (integral (window c a b)).map (· / (b - a))

def rollingMeanFullWidth := rollingMeanV keepKnot fullWidthStat

theorem fullWidthStat_eq (c : Stairs Rat) (hc : c.WF) (a b : Rat) (hab : a < b) :
    fullWidthStat c a b = if lenOn c a b = 0 then none else some (intOn c a b / (b - a)) := by
  unfold fullWidthStat
  rw [C08b.integral_window c hc a b hab]
  split <;> rfl

/-- the variant is the mean scaled by (defined length / window width) -/
theorem fullWidthStat_scaled (c : Stairs Rat) (hc : c.WF) (a b : Rat) (hab : a < b) :
    fullWidthStat c a b = (meanStat c a b).map (fun m => m * (lenOn c a b / (b - a))) := by
  unfold meanStat
  rw [fullWidthStat_eq c hc a b hab, C08b.mean_window]
  by_cases h0 : lenOn c a b = 0
  · rw [if_pos h0, if_pos h0]; rfl
  · rw [if_neg h0, if_neg h0]
    show some _ = some _
    congr 1
    field_simp

/-- **(b) exactly when the variant agrees on one window**: `f` is undefined throughout it (both NaN), or its
integral is `0`, or — the case the tests cover — `f` is defined throughout the window -/
theorem fullWidthStat_eq_meanStat_iff (c : Stairs Rat) (hc : c.WF) (a b : Rat) (hab : a < b) :
    fullWidthStat c a b = meanStat c a b ↔
      lenOn c a b = 0 ∨ intOn c a b = 0 ∨ ∀ p, a ≤ p → p < b → ∃ y, Den c false p = some y := by
  rw [← r20d_lenOn_eq_width_iff c hc a b hab, fullWidthStat_eq c hc a b hab]
  unfold meanStat
  rw [C08b.mean_window]
  have hne : b - a ≠ 0 := by
    intro h0
    have : a < a := by linarith
    exact lt_irrefl _ this
  by_cases h0 : lenOn c a b = 0
  · simp [h0]
  · rw [if_neg h0, if_neg h0]
    simp only [h0, false_or, Option.some.injEq]
    rw [div_eq_div_iff hne h0]
    constructor
    · intro h
      by_cases hI : intOn c a b = 0
      · exact Or.inl hI
      · right
        exact (mul_left_cancel₀ hI h)
    · rintro (h | h)
      · rw [h]; ring
      · rw [h]

/-- in particular it agrees wherever `f` is defined throughout the window (all the existing tests) … -/
theorem fullWidthStat_defined (c : Stairs Rat) (hc : c.WF) (a b : Rat) (hab : a < b)
    (h : ∀ p, a ≤ p → p < b → ∃ y, Den c false p = some y) : fullWidthStat c a b = meanStat c a b :=
  (fullWidthStat_eq_meanStat_iff c hc a b hab).mpr (Or.inr (Or.inr h))

/-- … and is **wrong** on every window in which `f` is defined only partly and has a non-zero integral -/
theorem fullWidthStat_ne (c : Stairs Rat) (hc : c.WF) (a b : Rat) (hab : a < b)
    (h1 : ∃ p, a ≤ p ∧ p < b ∧ Den c false p ≠ none) (h2 : ∃ p, a ≤ p ∧ p < b ∧ Den c false p = none)
    (h3 : intOn c a b ≠ 0) : fullWidthStat c a b ≠ meanStat c a b := by
  intro h
  rcases (fullWidthStat_eq_meanStat_iff c hc a b hab).mp h with h0 | h0 | h0
  · have := (C08b.lenOn_pos_iff c hc a b hab).mpr h1
    rw [h0] at this; exact lt_irrefl _ this
  · exact h3 h0
  · obtain ⟨p, hp1, hp2, hp3⟩ := h2
    obtain ⟨y, hy⟩ := h0 p hp1 hp2
    rw [hy] at hp3; cases hp3

/-- **`rolling_mean` level**: the variant returns the library's rows iff every kept window is all-undefined, has
integral `0`, or is all-defined -/
theorem rollingMeanFullWidth_eq_iff (f c : Stairs Rat) (l r : Rat) (lo hi : Option Rat) (hf : f.WF)
    (hc : clipW f lo hi = .ok c) (hs : c.steps ≠ []) (hlr : l < r) :
    rollingMeanFullWidth f l r lo hi = rollingMean f l r lo hi ↔
      ∀ x ∈ knots c l r, keepKnot lo hi l r x = true →
        lenOn c (x + l) (x + r) = 0 ∨ intOn c (x + l) (x + r) = 0 ∨
        ∀ p, x + l ≤ p → p < x + r → ∃ y, Den c false p = some y := by
  obtain ⟨hcw, _⟩ := clipW_den f c lo hi hf hc
  rw [← rollingMeanV_faithful]
  unfold rollingMeanFullWidth
  rw [rollingMeanV_stat_eq_iff keepKnot fullWidthStat meanStat f c l r lo hi hc hs hlr]
  constructor
  · intro h x hx hk
    exact (fullWidthStat_eq_meanStat_iff c hcw _ _ (by linarith)).mp (h x hx hk)
  · intro h x hx hk
    exact (fullWidthStat_eq_meanStat_iff c hcw _ _ (by linarith)).mpr (h x hx hk)

/-- **why the tests passed**: a function defined throughout `where` (link to C20 `rollingMean_values`: each value
is then `integral / (r − l)`) -/
theorem rollingMeanFullWidth_eq_of_defined (f : Stairs Rat) (l r : Rat) (lo hi : Option Rat) (hf : f.WF)
    (hd : ∀ p, inWindow false lo hi p = true → ∃ y, Den f false p = some y) :
    rollingMeanFullWidth f l r lo hi = rollingMean f l r lo hi := by
  by_cases h : ∀ c, clipW f lo hi = .ok c → c.steps = [] ∨ ¬ l < r
  · exact rollingMeanV_other _ _ f l r lo hi h
  · push Not at h
    obtain ⟨c, hc, hs, hlr⟩ := h
    rw [rollingMeanFullWidth_eq_iff f c l r lo hi hf hc hs hlr]
    intro x _ hk
    right; right
    intro p hp1 hp2
    obtain ⟨hw1, hw2⟩ := keepKnot_window lo hi l r x hk
    rw [(window_clipW f c lo hi hf hc _ _ (by linarith) hw1 hw2).2.2.2.2 p hp1 hp2]
    apply hd
    rw [inWindow_right]
    exact ⟨fun a' ha => le_trans (hw1 a' ha) hp1, fun b' hb => lt_of_lt_of_le hp2 (hw2 b' hb)⟩

/-- (a) refuted (C20b's `gap`: `0` on `[−3, 0)`, `6` on `[0, 1)`, undefined elsewhere): at `x = 1` the window `[0, 2)` is
defined on `[0, 1)` only — the mean is `6`, the variant returns `6·1/2 = 3`; likewise at `x = −3` -/
theorem fullWidth_refuted :
    rollingMean gap (-1) 1 none none
      = .ok [(-4, none), (-2, some 0), (-1, some 0), (0, some 3), (1, some 6), (2, none)] ∧
    rollingMeanFullWidth gap (-1) 1 none none
      = .ok [(-4, none), (-2, some 0), (-1, some 0), (0, some 3), (1, some 3), (2, none)] ∧
    meanStat gap 0 2 = some 6 ∧ fullWidthStat gap 0 2 = some 3 ∧ lenOn gap 0 2 = 1 ∧ intOn gap 0 2 = 6 := by
  decide +kernel

/-- the plain statement "the variant agrees iff `f` is defined throughout the window" is **false**: a function that
is `0` where defined has integral `0`, and both rules return `0` on a window with a gap -/
theorem fullWidth_iff_defined_false :
    ¬ ∀ (c : Stairs Rat) (a b : Rat), c.WF → a < b →
      (fullWidthStat c a b = meanStat c a b ↔ ∀ p, a ≤ p → p < b → ∃ y, Den c false p = some y) := by
  intro h
  have h1 := (h ⟨none, [(0, some 0), (1, none)], .left⟩ 0 2 (by decide +kernel) (by decide +kernel)).mp
    (by decide +kernel) 1 (by decide +kernel) (by decide +kernel)
  obtain ⟨y, hy⟩ := h1
  have hn : Den (⟨none, [(0, some 0), (1, none)], .left⟩ : Stairs Rat) false 1 = none := by decide +kernel
  rw [hn] at hy
  cases hy

example : rollingMeanFullWidth f₀ (-2) 1 (some (-3)) none = rollingMean f₀ (-2) 1 (some (-3)) none :=
  rollingMeanFullWidth_eq_of_defined f₀ _ _ _ _ (by decide +kernel)
    (fun p _ => definedOn_of_all_some f₀ (by decide +kernel) (by decide +kernel) p (p + 1) p (le_refl _) (by linarith))

/-! ## 3. the fifth variant: the running integral interpolated with end-value holding (`np.interp`)

`np.interp` holds the end values of the running integral outside `[first step point, last step point]`, i.e. the
function is treated as `0` before its first and after its last step point. -/

/-- the value of the last row replaced by `0` -/
def zeroLast : List (Rat × Val) → List (Rat × Val)
  | [] => []
  | [(p, _)] => [(p, some 0)]
  | pv :: qw :: r => pv :: zeroLast (qw :: r)

/-- `c` with the two unbounded pieces (initial value, value of the last row) replaced by `0` -/
def zeroEnds (c : Stairs Rat) : Stairs Rat := ⟨some 0, zeroLast c.steps, c.closed⟩

/-- seeded variant (v): window means of `zeroEnds c` -/
def interpStat (c : Stairs Rat) (a b : Rat) : Val := mean (window (zeroEnds c) a b)

def rollingMeanInterp := rollingMeanV keepKnot interpStat

section Helpers

theorem r20d_fst_zeroLast (s : List (Rat × Val)) : (zeroLast s).map Prod.fst = s.map Prod.fst := by
  induction s with
  | nil => rfl
  | cons pv r ih =>
    cases r with
    | nil => obtain ⟨p, v⟩ := pv; rfl
    | cons qw r' => simp only [zeroLast, List.map_cons, List.cons.injEq, true_and]; exact ih

theorem r20d_lastVal_zeroLast (a : Val) (s : List (Rat × Val)) (hs : s ≠ []) : lastVal a (zeroLast s) = some 0 := by
  induction s generalizing a with
  | nil => exact absurd rfl hs
  | cons pv r ih =>
    cases r with
    | nil => obtain ⟨p, v⟩ := pv; rfl
    | cons qw r' =>
      obtain ⟨p, v⟩ := pv
      show lastVal v (zeroLast (qw :: r')) = some 0
      exact ih v (by simp)

theorem r20d_wf_zeroEnds (c : Stairs Rat) (hc : c.WF) : (zeroEnds c).WF := by
  show ((zeroLast c.steps).map Prod.fst).Pairwise (· < ·)
  rw [r20d_fst_zeroLast]; exact hc

/-- left of the last step point the last value plays no role -/
theorem r20d_lim_zeroLast (a : Val) (s : List (Rat × Val)) (x : Rat) (h : ∃ q ∈ s.map Prod.fst, x < q) :
    lim false a (zeroLast s) x = lim false a s x := by
  induction s generalizing a with
  | nil => rfl
  | cons pv r ih =>
    obtain ⟨p, v⟩ := pv
    cases r with
    | nil =>
      obtain ⟨q, hq, hxq⟩ := h
      simp only [List.map_cons, List.map_nil, List.mem_cons, List.not_mem_nil, or_false] at hq
      subst hq
      simp only [zeroLast, lim_cons, not_reached_of_lt hxq]
      rfl
    | cons qw r' =>
      simp only [zeroLast]
      rw [lim_cons, lim_cons]
      by_cases hr : reached false p x = true
      · rw [if_pos hr, if_pos hr]
        apply ih
        obtain ⟨q, hq, hxq⟩ := h
        simp only [List.map_cons, List.mem_cons] at hq
        rcases hq with hq | hq
        · subst hq
          rw [not_reached_of_lt hxq] at hr; cases hr
        · exact ⟨q, by simpa using hq, hxq⟩
      · rw [if_neg hr, if_neg hr]

/-- right of the first step point the initial value plays no role -/
theorem r20d_lim_init (a a' : Val) (s : List (Rat × Val)) (hs : Sorted s) (x : Rat)
    (h : ∃ q ∈ s.map Prod.fst, q ≤ x) : lim false a s x = lim false a' s x := by
  cases s with
  | nil => obtain ⟨q, hq, _⟩ := h; cases hq
  | cons pv r =>
    obtain ⟨p, v⟩ := pv
    apply lim_init_irrelevant
    rw [reached_right_iff]
    obtain ⟨q, hq, hqx⟩ := h
    simp only [List.map_cons, List.mem_cons] at hq
    rcases hq with hq | hq
    · rw [← hq]; exact hqx
    · have : p < q := (List.pairwise_cons.mp hs).1 q hq
      linarith

/-- **between the outermost step points `zeroEnds c` is `c`** -/
theorem den_zeroEnds_inside (c : Stairs Rat) (hc : c.WF) (x : Rat) (h1 : ∃ q ∈ c.idx, q ≤ x)
    (h2 : ∃ q ∈ c.idx, x < q) : Den (zeroEnds c) false x = Den c false x := by
  show lim false (some 0) (zeroLast c.steps) x = lim false c.init c.steps x
  rw [r20d_lim_zeroLast _ _ _ h2]
  exact r20d_lim_init _ _ _ hc x h1

/-- left of all step points: `0` against the initial value -/
theorem den_zeroEnds_before (c : Stairs Rat) (x : Rat) (h : ∀ q ∈ c.idx, x < q) :
    Den (zeroEnds c) false x = some 0 ∧ Den c false x = c.init := by
  constructor
  · show lim false (some 0) (zeroLast c.steps) x = some 0
    exact lim_before _ _ _ _ (by rw [r20d_fst_zeroLast]; exact h)
  · exact lim_before _ _ _ _ h

/-- right of all step points: `0` against the last value -/
theorem den_zeroEnds_after (c : Stairs Rat) (hs : c.steps ≠ []) (x : Rat) (h : ∀ q ∈ c.idx, q ≤ x) :
    Den (zeroEnds c) false x = some 0 ∧ Den c false x = lastVal c.init c.steps := by
  constructor
  · show lim false (some 0) (zeroLast c.steps) x = some 0
    rw [lim_after false _ _ x (by
      rw [r20d_fst_zeroLast]; intro q hq; exact (reached_right_iff q x).mpr (h q hq))]
    exact r20d_lastVal_zeroLast _ _ hs
  · exact lim_after false _ _ x (fun q hq => (reached_right_iff q x).mpr (h q hq))

/-- the mean of a window on which the function is the constant `v` (possibly "undefined") is `v` -/
theorem r20d_mean_constVal (c : Stairs Rat) (hc : c.WF) (a b : Rat) (hab : a < b) (v : Val)
    (h : ∀ p, a ≤ p → p < b → Den c false p = v) : mean (window c a b) = v := by
  cases v with
  | some y => exact (C08b.const_on_window c hc a b hab y h).2.2.1
  | none =>
    rw [C08b.mean_window, if_pos ((C08b.lenOn_eq_zero_iff c hc a b hab).mpr h)]

/-- the last step point: every step point is `≤` it -/
theorem r20d_exists_last (s : List (Rat × Val)) (hs : Sorted s) (hne : s ≠ []) :
    ∃ q ∈ s.map Prod.fst, ∀ q' ∈ s.map Prod.fst, q' ≤ q := by
  induction s with
  | nil => exact absurd rfl hne
  | cons pv r ih =>
    obtain ⟨p, v⟩ := pv
    cases r with
    | nil => exact ⟨p, by simp, by simp⟩
    | cons qw r' =>
      obtain ⟨q, hq, hmax⟩ := ih (sorted_tail hs).1 (by simp)
      refine ⟨q, by simp only [List.map_cons, List.mem_cons] at hq ⊢; exact Or.inr hq, ?_⟩
      intro q' hq'
      simp only [List.map_cons, List.mem_cons] at hq'
      rcases hq' with h | h
      · have : p < q := (List.pairwise_cons.mp hs).1 q hq
        rw [h]; exact le_of_lt this
      · exact hmax q' (by simpa using h)

end Helpers

/-- **a window between the outermost step points: the variant cuts out the very same window object** -/
theorem zeroEnds_window_inside (c : Stairs Rat) (hc : c.WF) (a b : Rat) (hab : a < b)
    (h1 : ∃ q ∈ c.idx, q ≤ a) (h2 : ∃ q ∈ c.idx, b ≤ q) :
    window (zeroEnds c) a b = window c a b ∧ interpStat c a b = meanStat c a b := by
  have hden : ∀ x, a ≤ x → x < b → Den (zeroEnds c) false x = Den c false x := by
    intro x hx1 hx2
    obtain ⟨q1, hq1, hq1a⟩ := h1
    obtain ⟨q2, hq2, hq2b⟩ := h2
    exact den_zeroEnds_inside c hc x ⟨q1, hq1, le_trans hq1a hx1⟩ ⟨q2, hq2, lt_of_lt_of_le hx2 hq2b⟩
  have hw := (C08b.window_stats_congr (zeroEnds c) c (r20d_wf_zeroEnds c hc) hc a b hab hden).2.2.2.2.2.2 rfl
  exact ⟨hw, by unfold interpStat meanStat; rw [hw]⟩

/-- a window left of all step points: the variant returns `0`, the library the initial value -/
theorem interpStat_before (c : Stairs Rat) (hc : c.WF) (a b : Rat) (hab : a < b) (h : ∀ q ∈ c.idx, b ≤ q) :
    interpStat c a b = some 0 ∧ meanStat c a b = c.init :=
  ⟨r20d_mean_constVal _ (r20d_wf_zeroEnds c hc) a b hab _
      (fun p _ hp => (den_zeroEnds_before c p (fun q hq => lt_of_lt_of_le hp (h q hq))).1),
   r20d_mean_constVal c hc a b hab _
      (fun p _ hp => (den_zeroEnds_before c p (fun q hq => lt_of_lt_of_le hp (h q hq))).2)⟩

/-- a window right of all step points: the variant returns `0`, the library the last value -/
theorem interpStat_after (c : Stairs Rat) (hc : c.WF) (hs : c.steps ≠ []) (a b : Rat) (hab : a < b)
    (h : ∀ q ∈ c.idx, q ≤ a) : interpStat c a b = some 0 ∧ meanStat c a b = lastVal c.init c.steps :=
  ⟨r20d_mean_constVal _ (r20d_wf_zeroEnds c hc) a b hab _
      (fun p hp _ => (den_zeroEnds_after c hs p (fun q hq => le_trans (h q hq) hp)).1),
   r20d_mean_constVal c hc a b hab _
      (fun p hp _ => (den_zeroEnds_after c hs p (fun q hq => le_trans (h q hq) hp)).2)⟩

/-- **the variant agrees on every window iff the initial value and the last value are `0`** -/
theorem interpStat_eq_all_iff (c : Stairs Rat) (hc : c.WF) (hs : c.steps ≠ []) :
    (∀ a b, a < b → interpStat c a b = meanStat c a b) ↔ c.init = some 0 ∧ lastVal c.init c.steps = some 0 := by
  constructor
  · intro h
    obtain ⟨x, _, hx⟩ := exists_lt_all c.idx 0
    obtain ⟨y, _, hy⟩ := exists_gt_all c.idx 0
    have h1 := interpStat_before c hc (x - 1) x (by linarith) (fun q hq => le_of_lt (hx q hq))
    have h2 := interpStat_after c hc hs y (y + 1) (by linarith) (fun q hq => le_of_lt (hy q hq))
    have e1 := h (x - 1) x (by linarith)
    have e2 := h y (y + 1) (by linarith)
    rw [h1.1, h1.2] at e1
    rw [h2.1, h2.2] at e2
    exact ⟨e1.symm, e2.symm⟩
  · rintro ⟨hi, hl⟩ a b hab
    have hden : ∀ x, a ≤ x → x < b → Den (zeroEnds c) false x = Den c false x := by
      intro x _ _
      by_cases h1 : ∃ q ∈ c.idx, q ≤ x
      · by_cases h2 : ∃ q ∈ c.idx, x < q
        · exact den_zeroEnds_inside c hc x h1 h2
        · push Not at h2
          obtain ⟨e1, e2⟩ := den_zeroEnds_after c hs x h2
          rw [e1, e2, hl]
      · push Not at h1
        obtain ⟨e1, e2⟩ := den_zeroEnds_before c x h1
        rw [e1, e2, hi]
    exact (C08b.window_stats_congr (zeroEnds c) c (r20d_wf_zeroEnds c hc) hc a b hab hden).2.2.2.1

section Helpers

theorem r20d_first_le (c : Stairs Rat) (hc : c.WF) (p0 : Rat) (v0 : Val) (rest : List (Rat × Val))
    (hst : c.steps = (p0, v0) :: rest) : p0 ∈ c.idx ∧ ∀ q ∈ c.idx, p0 ≤ q := by
  unfold WF Sorted at hc
  unfold idx
  rw [hst] at hc ⊢
  refine ⟨by simp, ?_⟩
  intro q hq
  simp only [List.map_cons, List.mem_cons] at hq
  rcases hq with h | h
  · rw [h]
  · exact le_of_lt ((List.pairwise_cons.mp hc).1 q h)

/-- two window means with the same defined length whose integrals differ by `v·d`, `d > 0` -/
theorem r20d_mean_compare (c z : Stairs Rat) (a b v d : Rat) (hL : lenOn z a b = lenOn c a b)
    (hI : intOn c a b = intOn z a b + v * d) (hd : 0 < d) (hpos : 0 < lenOn c a b) :
    mean (window z a b) = mean (window c a b) ↔ v = 0 := by
  rw [C08b.mean_window, C08b.mean_window, hL, if_neg (ne_of_gt hpos), if_neg (ne_of_gt hpos), hI]
  simp only [Option.some.injEq]
  rw [div_left_inj' (ne_of_gt hpos)]
  constructor
  · intro h
    have h0 : v * d = 0 := by linarith
    rcases mul_eq_zero.mp h0 with h1 | h1
    · exact h1
    · rw [h1] at hd; exact absurd hd (lt_irrefl _)
  · intro h; rw [h]; ring

end Helpers

/-- **a window reaching beyond the first step point `m`** (and not beyond the last), initial value `v`: the variant
agrees **iff `v = 0`** -/
theorem interpStat_left_reach (c : Stairs Rat) (hc : c.WF) (a m b v : Rat) (ham : a < m) (hmb : m ≤ b)
    (hfirst : ∀ q ∈ c.idx, m ≤ q) (hm : m ∈ c.idx) (h2 : ∃ q ∈ c.idx, b ≤ q) (hi : c.init = some v) :
    interpStat c a b = meanStat c a b ↔ v = 0 := by
  have hz := r20d_wf_zeroEnds c hc
  rcases eq_or_lt_of_le hmb with heq | hlt
  · subst heq
    obtain ⟨e1, e2⟩ := interpStat_before c hc a m ham hfirst
    rw [e1, e2, hi]
    simp only [Option.some.injEq]
    exact eq_comm
  · have hcL : ∀ p, a ≤ p → p < m → Den c false p = some v := fun p _ hp => by
      rw [(den_zeroEnds_before c p (fun q hq => lt_of_lt_of_le hp (hfirst q hq))).2, hi]
    have hzL : ∀ p, a ≤ p → p < m → Den (zeroEnds c) false p = some 0 := fun p _ hp =>
      (den_zeroEnds_before c p (fun q hq => lt_of_lt_of_le hp (hfirst q hq))).1
    have hw := (zeroEnds_window_inside c hc m b hlt ⟨m, hm, le_refl _⟩ h2).1
    have hLr : lenOn (zeroEnds c) m b = lenOn c m b := by unfold lenOn; rw [hw]
    have hIr : intOn (zeroEnds c) m b = intOn c m b := by unfold intOn; rw [hw]
    have l1 := lenOn_add c hc a m b ham hlt
    have l2 := lenOn_add _ hz a m b ham hlt
    have i1 := intOn_add c hc a m b ham hlt
    have i2 := intOn_add _ hz a m b ham hlt
    have d1 := lenOn_defined c hc a m ham (fun p h1 h2 => ⟨v, hcL p h1 h2⟩)
    have d2 := lenOn_defined _ hz a m ham (fun p h1 h2 => ⟨0, hzL p h1 h2⟩)
    have c1 := intOn_const_some c hc a m ham v hcL
    have c2 := intOn_const_some _ hz a m ham 0 hzL
    have n1 := C08b.lenOn_nonneg c hc m b hlt
    unfold interpStat meanStat
    exact r20d_mean_compare c (zeroEnds c) a b v (m - a) (by linarith) (by rw [i1, i2, c1, c2, hIr]; ring)
      (by linarith) (by linarith)

/-- **a window reaching beyond the last step point `m`** (and not beyond the first), last value `v`: the variant
agrees **iff `v = 0`** -/
theorem interpStat_right_reach (c : Stairs Rat) (hc : c.WF) (a m b v : Rat) (ham : a ≤ m) (hmb : m < b)
    (hlast : ∀ q ∈ c.idx, q ≤ m) (hm : m ∈ c.idx) (h1 : ∃ q ∈ c.idx, q ≤ a)
    (hl : lastVal c.init c.steps = some v) : interpStat c a b = meanStat c a b ↔ v = 0 := by
  have hz := r20d_wf_zeroEnds c hc
  have hs : c.steps ≠ [] := by
    intro h; unfold idx at hm; rw [h] at hm; cases hm
  rcases eq_or_lt_of_le ham with heq | hlt
  · subst heq
    obtain ⟨e1, e2⟩ := interpStat_after c hc hs a b hmb hlast
    rw [e1, e2, hl]
    simp only [Option.some.injEq]
    exact eq_comm
  · have hcR : ∀ p, m ≤ p → p < b → Den c false p = some v := fun p hp _ => by
      rw [(den_zeroEnds_after c hs p (fun q hq => le_trans (hlast q hq) hp)).2, hl]
    have hzR : ∀ p, m ≤ p → p < b → Den (zeroEnds c) false p = some 0 := fun p hp _ =>
      (den_zeroEnds_after c hs p (fun q hq => le_trans (hlast q hq) hp)).1
    have hw := (zeroEnds_window_inside c hc a m hlt h1 ⟨m, hm, le_refl _⟩).1
    have hLr : lenOn (zeroEnds c) a m = lenOn c a m := by unfold lenOn; rw [hw]
    have hIr : intOn (zeroEnds c) a m = intOn c a m := by unfold intOn; rw [hw]
    have l1 := lenOn_add c hc a m b hlt hmb
    have l2 := lenOn_add _ hz a m b hlt hmb
    have i1 := intOn_add c hc a m b hlt hmb
    have i2 := intOn_add _ hz a m b hlt hmb
    have d1 := lenOn_defined c hc m b hmb (fun p h1 h2 => ⟨v, hcR p h1 h2⟩)
    have d2 := lenOn_defined _ hz m b hmb (fun p h1 h2 => ⟨0, hzR p h1 h2⟩)
    have c1 := intOn_const_some c hc m b hmb v hcR
    have c2 := intOn_const_some _ hz m b hmb 0 hzR
    have n1 := C08b.lenOn_nonneg c hc a m hlt
    unfold interpStat meanStat
    exact r20d_mean_compare c (zeroEnds c) a b v (b - m) (by linarith) (by rw [i1, i2, c1, c2, hIr]; ring)
      (by linarith) (by linarith)

/-! ### the `rolling_mean` level -/

/-- the variant returns the library's rows when no kept window reaches beyond the outermost step points … -/
theorem rollingMeanInterp_eq_of_inside (f c : Stairs Rat) (l r : Rat) (lo hi : Option Rat) (hf : f.WF)
    (hc : clipW f lo hi = .ok c) (hs : c.steps ≠ []) (hlr : l < r)
    (h : ∀ x ∈ knots c l r, keepKnot lo hi l r x = true →
      (∃ q ∈ c.idx, q ≤ x + l) ∧ (∃ q ∈ c.idx, x + r ≤ q)) :
    rollingMeanInterp f l r lo hi = rollingMean f l r lo hi := by
  obtain ⟨hcw, _⟩ := clipW_den f c lo hi hf hc
  rw [← rollingMeanV_faithful]
  unfold rollingMeanInterp
  rw [rollingMeanV_stat_eq_iff keepKnot interpStat meanStat f c l r lo hi hc hs hlr]
  intro x hx hk
  obtain ⟨h1, h2⟩ := h x hx hk
  exact (zeroEnds_window_inside c hcw _ _ (by linarith) h1 h2).2

/-- … or when the initial value and the last value of the rolled-over function are `0` (any window, any `where`) -/
theorem rollingMeanInterp_eq_of_zero_ends (f c : Stairs Rat) (l r : Rat) (lo hi : Option Rat) (hf : f.WF)
    (hc : clipW f lo hi = .ok c) (h0 : c.init = some 0 ∧ lastVal c.init c.steps = some 0) :
    rollingMeanInterp f l r lo hi = rollingMean f l r lo hi := by
  obtain ⟨hcw, _⟩ := clipW_den f c lo hi hf hc
  by_cases h : c.steps = [] ∨ ¬ l < r
  · apply rollingMeanV_other
    intro c' hc'
    rw [hc] at hc'; injection hc' with hc'; rw [← hc']; exact h
  · push Not at h
    rw [← rollingMeanV_faithful]
    unfold rollingMeanInterp
    rw [rollingMeanV_stat_eq_iff keepKnot interpStat meanStat f c l r lo hi hc h.1 h.2]
    intro x _ _
    exact (interpStat_eq_all_iff c hcw h.1).mpr h0 _ _ (by linarith)

/-- with both ends of `where` given and `f` defined at them, every kept window lies between the outermost step points
of the rolled-over function (which are the ends of `where`): the variant cannot be seen -/
theorem rollingMeanInterp_eq_of_where (f : Stairs Rat) (l r a b : Rat) (hf : f.WF)
    (ha : Den f false a ≠ none) (hb : Den f true b ≠ none) :
    rollingMeanInterp f l r (some a) (some b) = rollingMean f l r (some a) (some b) := by
  by_cases h : ∀ c, clipW f (some a) (some b) = .ok c → c.steps = [] ∨ ¬ l < r
  · exact rollingMeanV_other _ _ f l r _ _ h
  · push Not at h
    obtain ⟨c, hc, hs, hlr⟩ := h
    have hbo := clipW_boundsOk f c _ _ hc
    have hm : (some a : Option Rat) = none → (some b : Option Rat) = none → f.IsMinimal := fun h => by cases h
    have ha' : a ∈ c.idx := by
      rw [clipW_idx_iff f c _ _ hf hm hc, clippedStep_iff f _ _ hbo]
      exact Or.inr (Or.inl ⟨rfl, ha⟩)
    have hb' : b ∈ c.idx := by
      rw [clipW_idx_iff f c _ _ hf hm hc, clippedStep_iff f _ _ hbo]
      exact Or.inr (Or.inr ⟨rfl, hb⟩)
    apply rollingMeanInterp_eq_of_inside f c l r _ _ hf hc hs hlr
    intro x _ hk
    obtain ⟨hw1, hw2⟩ := keepKnot_window _ _ l r x hk
    exact ⟨⟨a, ha', hw1 a rfl⟩, ⟨b, hb', hw2 b rfl⟩⟩

/-- **without `where`** (the only case the seeded shortcut handles) the first knot's window lies left of all step
points and the last knot's window right of them, so: **the variant agrees iff `f.init = 0` and the last value of `f`
is `0`** -/
theorem rollingMeanInterp_nowhere_iff (f : Stairs Rat) (l r : Rat) (hf : f.WF) (hs : f.steps ≠ []) (hlr : l < r) :
    rollingMeanInterp f l r none none = rollingMean f l r none none ↔
      f.init = some 0 ∧ lastVal f.init f.steps = some 0 := by
  have hc : clipW f none none = .ok f := rfl
  constructor
  · intro h
    rw [← rollingMeanV_faithful] at h
    unfold rollingMeanInterp at h
    rw [rollingMeanV_stat_eq_iff keepKnot interpStat meanStat f f l r none none hc hs hlr] at h
    obtain ⟨pv, rest, hst⟩ : ∃ pv rest, f.steps = pv :: rest := by
      cases hst : f.steps with
      | nil => exact absurd hst hs
      | cons pv rest => exact ⟨pv, rest, rfl⟩
    obtain ⟨p0, v0⟩ := pv
    obtain ⟨hp0, hmin⟩ := r20d_first_le f hf p0 v0 rest hst
    obtain ⟨qL, hqL, hmax⟩ := r20d_exists_last f.steps hf hs
    have e1 := h (p0 - r) ((mem_knots f l r _).mpr (Or.inr (by rw [sub_add_cancel]; exact hp0))) rfl
    have e2 := h (qL - l) ((mem_knots f l r _).mpr (Or.inl (by rw [sub_add_cancel]; exact hqL))) rfl
    obtain ⟨b1, b2⟩ := interpStat_before f hf (p0 - r + l) (p0 - r + r) (by linarith)
      (fun q hq => by have := hmin q hq; linarith)
    obtain ⟨a1, a2⟩ := interpStat_after f hf hs (qL - l + l) (qL - l + r) (by linarith)
      (fun q hq => by have := hmax q hq; linarith)
    rw [b1, b2] at e1
    rw [a1, a2] at e2
    exact ⟨e1.symm, e2.symm⟩
  · intro h0
    exact rollingMeanInterp_eq_of_zero_ends f f l r none none hf hc h0

/-- (a) **refuted on a function with a non-zero initial value** (`2` before `0`, `1` on `[0, 2)`, `0` after): the
first window mean is `2`, the variant returns `0`; partly reaching windows are wrong too (`4/3` against `2/3`); with
`where = (−2, 2)` (defined at both ends) nothing shows -/
def h₁ : Stairs Rat := ⟨some 2, [(0, some 1), (2, some 0)], .left⟩

theorem interp_refuted :
    h₁.Canonical ∧
    rollingMean h₁ (-1) 1 none none = .ok [(-1, some 2), (1, some 1), (3, some 0)] ∧
    rollingMeanInterp h₁ (-1) 1 none none = .ok [(-1, some 0), (1, some 1), (3, some 0)] ∧
    meanStat h₁ (-1) 2 = some (4/3) ∧ interpStat h₁ (-1) 2 = some (2/3) ∧
    rollingMeanInterp h₁ (-1) 1 (some (-2)) (some 2) = rollingMean h₁ (-1) 1 (some (-2)) (some 2) ∧
    rollingMeanInterp f₀ (-1) 1 none none = rollingMean f₀ (-1) 1 none none := by
  decide +kernel

example : rollingMeanInterp f₀ (-2) 3 none none = rollingMean f₀ (-2) 3 none none :=
  (rollingMeanInterp_nowhere_iff f₀ (-2) 3 (by decide +kernel) (by decide +kernel) (by decide +kernel)).mpr
    (by decide +kernel)
example : interpStat h₁ (-1) 2 = meanStat h₁ (-1) 2 ↔ (2 : Rat) = 0 :=
  interpStat_left_reach h₁ (by decide +kernel) (-1) 0 2 2 (by decide +kernel) (by decide +kernel)
    (by decide +kernel) (by decide +kernel) ⟨2, by decide +kernel, by decide +kernel⟩ rfl

/-- under the guard of the seeded shortcut (no undefined value anywhere) the variant statistic **is** the
difference of the end-value-held running integral at the two window edges, divided by the window width -/
theorem interpStat_running_integral (c : Stairs Rat) (hc : c.WF) (hv : ∀ v ∈ c.steps.map Prod.snd, v.isSome = true)
    (a b : Rat) (hab : a < b) : interpStat c a b = some (intOn (zeroEnds c) a b / (b - a)) := by
  have hmem : ∀ (s : List (Rat × Val)) (v : Val), v ∈ (zeroLast s).map Prod.snd → v = some 0 ∨ v ∈ s.map Prod.snd := by
    intro s
    induction s with
    | nil => intro v h; cases h
    | cons pv r ih =>
      intro v h
      cases r with
      | nil =>
        obtain ⟨p, w⟩ := pv
        simp only [zeroLast, List.map_cons, List.map_nil, List.mem_cons, List.not_mem_nil, or_false] at h
        exact Or.inl h
      | cons qw r' =>
        simp only [zeroLast, List.map_cons, List.mem_cons] at h
        rcases h with h | h
        · right; rw [h]; simp
        · rcases ih v (by simpa using h) with h' | h'
          · exact Or.inl h'
          · right
            simp only [List.map_cons, List.mem_cons] at h' ⊢
            exact Or.inr h'
  exact mean_window_defined (zeroEnds c) (r20d_wf_zeroEnds c hc) a b hab
    (definedOn_of_all_some (zeroEnds c) rfl (fun v hv' => by
      rcases hmem c.steps v hv' with h | h
      · rw [h]; rfl
      · exact hv v h) a b)

example : interpStat h₁ (-1) 2 = some (intOn (zeroEnds h₁) (-1) 2 / (2 - -1)) :=
  interpStat_running_integral h₁ (by decide +kernel) (by decide +kernel) _ _ (by decide +kernel)
example : rollingMeanInterp h₁ (-1) 1 (some (-2)) (some 2) = rollingMean h₁ (-1) 1 (some (-2)) (some 2) :=
  rollingMeanInterp_eq_of_where h₁ (-1) 1 (-2) 2 (by decide +kernel) (by decide +kernel) (by decide +kernel)
example : fullWidthStat gap 0 2 ≠ meanStat gap 0 2 :=
  fullWidthStat_ne gap (by decide +kernel) 0 2 (by decide +kernel)
    ⟨0, by decide +kernel, by decide +kernel, by decide +kernel⟩
    ⟨1, by decide +kernel, by decide +kernel, by decide +kernel⟩ (by decide +kernel)

/-! ## 4. bounds, constants, linearity, additivity -/

/-- **each rolling mean lies between the min and the max of `f` over its window** (any interval closedness) -/
theorem rollingMean_between_min_max (f c : Stairs Rat) (l r : Rat) (lo hi : Option Rat) (rows : List (Rat × Val))
    (hf : f.WF) (hc : clipW f lo hi = .ok c) (hs : c.steps ≠ []) (hlr : l < r)
    (hr : rollingMean f l r lo hi = .ok rows) (cl : IClosed) :
    ∀ xy ∈ rows, ∀ m, xy.2 = some m →
      ∃ mn mx, minIn f (some (xy.1 + l)) (some (xy.1 + r)) cl = some mn ∧
        maxIn f (some (xy.1 + l)) (some (xy.1 + r)) cl = some mx ∧ mn ≤ m ∧ m ≤ mx := by
  intro xy hxy m hm
  have hv := (((rollingMean_rows_iff f c l r lo hi rows hf hc hs hlr hr).1 xy.1 xy.2).mp hxy).2.2
  rw [hm] at hv
  exact C10b.mean_between_min_max f hf _ _ (by linarith) cl m hv.symm

example : rollingMean f₀ (-1) 2 none none
      = .ok [(-2, some 0), (0, some (2/3)), (1, some (5/3)), (2, some (7/3)), (3, some 2), (5, some 0)] ∧
    minIn f₀ (some (1 + -1)) (some (1 + 2)) .both = some 1 ∧ maxIn f₀ (some (1 + -1)) (some (1 + 2)) .both = some 3 := by
  decide +kernel

/-- **the rolling mean of a function that is the constant `k` on `where` is `k`** at every returned point -/
theorem rollingMean_const_on (f c : Stairs Rat) (l r : Rat) (lo hi : Option Rat) (rows : List (Rat × Val))
    (hf : f.WF) (hc : clipW f lo hi = .ok c) (hs : c.steps ≠ []) (hlr : l < r)
    (hr : rollingMean f l r lo hi = .ok rows) (k : Rat)
    (hk : ∀ p, inWindow false lo hi p = true → Den f false p = some k) : ∀ xy ∈ rows, xy.2 = some k := by
  intro xy hxy
  obtain ⟨_, hkeep, hv⟩ := ((rollingMean_rows_iff f c l r lo hi rows hf hc hs hlr hr).1 xy.1 xy.2).mp hxy
  obtain ⟨hw1, hw2⟩ := keepKnot_window lo hi l r xy.1 ((keepKnot_iff lo hi l r xy.1).mpr hkeep)
  rw [hv]
  refine (C08b.const_on_window f hf _ _ (by linarith) k (fun p hp1 hp2 => hk p ?_)).2.2.1
  rw [inWindow_right]
  exact ⟨fun a' ha => le_trans (hw1 a' ha) hp1, fun b' hb => lt_of_lt_of_le hp2 (hw2 b' hb)⟩

/-- the step points of a constant clipped to `(a, b)` are `a` and `b` -/
theorem const_clip_idx (k : Rat) (cl : Side) (a b : Rat) (hab : a < b) (p : Rat) :
    p ∈ (window (const (some k) cl : Stairs Rat) a b).idx ↔ p = a ∨ p = b := by
  have hb : boundsOk (some a) (some b) = true := by simpa [boundsOk] using hab
  rw [clipW_idx_iff _ _ (some a) (some b) (wf_const _ _) (fun h => by cases h) (clip_window _ a b hab),
    clippedStep_iff _ _ _ hb]
  simp only [den_const, ne_eq, not_true_eq_false, and_false, false_or, Option.some.injEq, reduceCtorEq,
    not_false_eq_true, and_true]
  constructor
  · rintro (h | h)
    · exact Or.inl h.symm
    · exact Or.inr h.symm
  · rintro (h | h)
    · exact Or.inl h.symm
    · exact Or.inr h.symm

/-- **the rolling mean of the constant `k`** over `where = (a, b)` wider than the window: the two focal points whose
windows touch the ends of `where`, both with value `k` … -/
theorem rollingMean_const (k : Rat) (cl : Side) (l r a b : Rat) (hlr : l < r) (hw : r - l < b - a) :
    rollingMean (const (some k) cl) l r (some a) (some b) = .ok [(a - l, some k), (b - r, some k)] := by
  have hab : a < b := by linarith
  have hc : clipW (const (some k) cl : Stairs Rat) (some a) (some b) = .ok (window (const (some k) cl) a b) :=
    clip_window _ a b hab
  have hidx := const_clip_idx k cl a b hab
  have hs : (window (const (some k) cl : Stairs Rat) a b).steps ≠ [] := by
    intro h
    have := (hidx a).mpr (Or.inl rfl)
    unfold idx at this; rw [h] at this; cases this
  have hf : (const (some k) cl : Stairs Rat).WF := wf_const _ _
  obtain ⟨rows, hr⟩ : ∃ rows, rollingMean (const (some k) cl) l r (some a) (some b) = .ok rows :=
    ⟨_, rollingMean_spec _ _ l r _ _ hc hs hlr⟩
  obtain ⟨hcw, _⟩ := clipW_den _ _ _ _ hf hc
  obtain ⟨_, hpw, hmem⟩ := rollingMean_points _ _ l r _ _ rows hc hcw hs hlr hr
  have hval := rollingMean_const_on _ _ l r _ _ rows hf hc hs hlr hr k (fun _ _ => rfl)
  have hpts : rows.map Prod.fst = [a - l, b - r] := by
    apply C10b.w10b_sorted_ext _ _ hpw (by simp; linarith)
    intro x
    rw [hmem x, hidx, hidx]
    simp only [Option.some.injEq, forall_eq', List.mem_cons, List.not_mem_nil, or_false]
    constructor
    · rintro ⟨h | h, h1, h2⟩
      · rcases h with h | h
        · left; linarith
        · exfalso; linarith
      · rcases h with h | h
        · exfalso; linarith
        · right; linarith
    · rintro (h | h)
      · subst h; exact ⟨Or.inl (Or.inl (by ring)), le_refl _, by linarith⟩
      · subst h; exact ⟨Or.inr (Or.inr (by ring)), by linarith, le_refl _⟩
  rw [hr]
  congr 1
  have e : rows = (rows.map Prod.fst).map (fun x => (x, (some k : Val))) := by
    rw [List.map_map]
    conv_lhs => rw [← List.map_id rows]
    apply List.map_congr_left
    intro xy hxy
    have := hval xy hxy
    obtain ⟨x, y⟩ := xy
    simp only at this
    simp [this]
  rw [e, hpts]
  rfl

/-- … while **without `where` a step-free function makes the library fail its assertion** (there is nothing to roll
over), whatever its value -/
theorem rollingMean_const_nowhere (v : Val) (cl : Side) (l r : Rat) :
    rollingMean (const v cl) l r none none = .error .assertion := rfl

example : rollingMean (const (some 7) .right) (-1) 2 (some 0) (some 10) = .ok [(1, some 7), (8, some 7)] := by
  decide +kernel
example : rollingMean (const (some 7) .right) (-1) 2 (some 0) (some 10)
    = .ok [(0 - -1, some 7), (10 - 2, some 7)] :=
  rollingMean_const 7 .right (-1) 2 0 10 (by decide +kernel) (by decide +kernel)

/-! ### linearity -/

section Helpers

theorem r20d_clipW_cases (f : Stairs Rat) (lo hi : Option Rat) :
    (boundsOk lo hi = true ∧ ∃ c, clipW f lo hi = .ok c) ∨
    (boundsOk lo hi = false ∧ clipW f lo hi = .error .valueError) := by
  cases hb : boundsOk lo hi with
  | true =>
    left
    refine ⟨rfl, ?_⟩
    rw [clipW_spec]
    split
    · exact ⟨_, rfl⟩
    · exact ⟨_, clip_ok f lo hi hb⟩
  | false =>
    right
    refine ⟨rfl, ?_⟩
    have hn : ¬ (lo = none ∧ hi = none) := by
      rintro ⟨h1, h2⟩; subst h1 h2; simp [boundsOk] at hb
    rw [clipW_spec, if_neg hn, clip_error f lo hi hb]

theorem r20d_affine_injective (k d : Rat) (hk : k ≠ 0) : Function.Injective (fun v : Rat => k * v + d) := by
  intro x y h
  have : k * x = k * y := by
    have h' : k * x + d = k * y + d := h
    linarith
  exact mul_left_cancel₀ hk this

end Helpers

/-- the values: if `h` denotes `k·f + d` on `where` (undefined where `f` is), each rolling mean of `h` is
`k·(mean of f over the window) + d` — every `k`, also where `f` is only partly defined (C08b `affine_window`) -/
theorem rollingMean_affine_values (f h c' : Stairs Rat) (k d l r : Rat) (lo hi : Option Rat)
    (rows' : List (Rat × Val)) (hf : f.WF) (hh : h.WF) (hc' : clipW h lo hi = .ok c') (hs' : c'.steps ≠ [])
    (hlr : l < r) (hr' : rollingMean h l r lo hi = .ok rows')
    (hden : ∀ x, inWindow false lo hi x = true → Den h false x = (Den f false x).map (fun v => k * v + d)) :
    ∀ xy ∈ rows', xy.2 = (mean (window f (xy.1 + l) (xy.1 + r))).map (fun m => k * m + d) := by
  intro xy hxy
  obtain ⟨_, hkeep, hv⟩ := ((rollingMean_rows_iff h c' l r lo hi rows' hh hc' hs' hlr hr').1 xy.1 xy.2).mp hxy
  obtain ⟨hw1, hw2⟩ := keepKnot_window lo hi l r xy.1 ((keepKnot_iff lo hi l r xy.1).mpr hkeep)
  rw [hv]
  refine (C08b.affine_window f h hf hh _ _ (by linarith) k d (fun p hp1 hp2 => hden p ?_)).2.2.2.1
  rw [inWindow_right]
  exact ⟨fun a' ha => le_trans (hw1 a' ha) hp1, fun b' hb => lt_of_lt_of_le hp2 (hw2 b' hb)⟩

/-- a change of values by an injective map keeps the step points of the rolled-over function -/
theorem clippedStep_map (f h : Stairs Rat) (φ : Rat → Rat) (hφ : Function.Injective φ) (lo hi : Option Rat)
    (hden : ∀ st x, Den h st x = (Den f st x).map φ) (p : Rat) :
    ClippedStep h lo hi p ↔ ClippedStep f lo hi p := by
  unfold ClippedStep
  rw [hden true p, hden false p]
  have e : ∀ (b : Bool) (v : Val), (if b = true then v.map φ else none) = (if b = true then v else none).map φ := by
    intro b v; cases b <;> rfl
  rw [e, e]
  exact (Option.map_injective hφ).ne_iff

/-- **linearity, `k ≠ 0`**: if `h` denotes `k·f + d` everywhere (both one-sided limits; `f`, `h` canonical when
there is no `where`), then `rolling_mean(h)` is `rolling_mean(f)` with every value `y` replaced by `k·y + d` — the same
points, the same errors, the step-free path included -/
theorem rollingMean_affine (f h : Stairs Rat) (k d l r : Rat) (hk : k ≠ 0) (lo hi : Option Rat)
    (hf : f.WF) (hh : h.WF) (hmf : lo = none → hi = none → f.IsMinimal) (hmh : lo = none → hi = none → h.IsMinimal)
    (hden : ∀ st x, Den h st x = (Den f st x).map (fun v => k * v + d)) :
    rollingMean h l r lo hi
      = (rollingMean f l r lo hi).map (List.map fun xy => (xy.1, xy.2.map (fun m => k * m + d))) := by
  rcases r20d_clipW_cases f lo hi with ⟨hb, c, hc⟩ | ⟨hb, he⟩
  · obtain ⟨c', hc'⟩ : ∃ c', clipW h lo hi = .ok c' := by
      rcases r20d_clipW_cases h lo hi with ⟨_, h2⟩ | ⟨hb', _⟩
      · exact h2
      · rw [hb] at hb'; cases hb'
    obtain ⟨hcw, hcd⟩ := clipW_den f c lo hi hf hc
    obtain ⟨hcw', hcd'⟩ := clipW_den h c' lo hi hh hc'
    have hdc : ∀ st x, Den c' st x = (Den c st x).map (fun v => k * v + d) := by
      intro st x
      rw [hcd', hcd, hden]
      cases inWindow st lo hi x <;> rfl
    have hidx : c'.idx = c.idx := by
      apply C10b.w10b_sorted_ext _ _ hcw' hcw
      intro p
      show p ∈ c'.idx ↔ p ∈ c.idx
      rw [clipW_idx_iff h c' lo hi hh hmh hc', clipW_idx_iff f c lo hi hf hmf hc]
      exact clippedStep_map f h _ (r20d_affine_injective k d hk) lo hi hden p
    by_cases hs : c.steps = []
    · have hs' : c'.steps = [] := by
        have : c'.idx = [] := by rw [hidx]; unfold idx; rw [hs]; rfl
        unfold idx at this
        exact List.map_eq_nil_iff.mp this
      have hinit : c'.init = c.init.map (fun v => k * v + d) := by
        have := hdc false 0
        unfold Den at this
        rw [hs, hs'] at this
        exact this
      rw [rollingMean_stepfree h c' l r lo hi hc' hs', rollingMean_stepfree f c l r lo hi hc hs, hinit]
      cases lo <;> cases hi <;> rfl
    · have hs' : c'.steps ≠ [] := by
        intro h0
        apply hs
        have : c.idx = [] := by rw [← hidx]; unfold idx; rw [h0]; rfl
        unfold idx at this
        exact List.map_eq_nil_iff.mp this
      by_cases hlr : l < r
      · rw [rollingMean_spec h c' l r lo hi hc' hs' hlr, rollingMean_spec f c l r lo hi hc hs hlr]
        have hk' : knots c' l r = knots c l r := by unfold knots; rw [hidx]
        rw [hk']
        show Except.ok _ = Except.ok _
        congr 1
        rw [List.map_map]
        apply List.map_congr_left
        intro x _
        show (x, mean (window c' (x + l) (x + r))) = (x, (mean (window c (x + l) (x + r))).map _)
        rw [(C08b.affine_window c c' hcw hcw' _ _ (by linarith) k d (fun p _ _ => hdc false p)).2.2.2.1]
      · rw [rollingMean_degenerate h c' l r lo hi hc' hs' hlr, rollingMean_degenerate f c l r lo hi hc hs hlr]
        rfl
  · have he' : clipW h lo hi = .error .valueError := by
      rcases r20d_clipW_cases h lo hi with ⟨hb', _⟩ | ⟨_, h2⟩
      · rw [hb] at hb'; cases hb'
      · exact h2
    rw [rollingMean_clip_error h l r lo hi _ he', rollingMean_clip_error f l r lo hi _ he]
    rfl

/-- instances: the library's `f * k` and `f + d` (`C08b.scale`, `C08b.addConst`) of a canonical `f` -/
theorem rollingMean_scale (f : Stairs Rat) (hf : f.Canonical) (k l r : Rat) (hk : k ≠ 0) (lo hi : Option Rat) :
    rollingMean (C08b.scale f k) l r lo hi
      = (rollingMean f l r lo hi).map (List.map fun xy => (xy.1, xy.2.map (fun m => k * m))) := by
  have := rollingMean_affine f (C08b.scale f k) k 0 l r hk lo hi hf.1 (C08b.wf_scale f hf.1 k) (fun _ _ => hf.2)
    (fun _ _ => minimal_combine _ _ _ _) (fun st x => by
      rw [C08b.den_scale f hf.1]
      congr 1; funext v; ring)
  rw [this]
  congr 2
  funext xy
  congr 2
  funext m; ring

theorem rollingMean_addConst (f : Stairs Rat) (hf : f.Canonical) (d l r : Rat) (lo hi : Option Rat) :
    rollingMean (C08b.addConst f d) l r lo hi
      = (rollingMean f l r lo hi).map (List.map fun xy => (xy.1, xy.2.map (fun m => m + d))) := by
  have := rollingMean_affine f (C08b.addConst f d) 1 d l r one_ne_zero lo hi hf.1 (C08b.wf_addConst f hf.1 d)
    (fun _ _ => hf.2) (fun _ _ => minimal_combine _ _ _ _) (fun st x => by
      rw [C08b.den_addConst f hf.1]
      congr 1; funext v; ring)
  rw [this]
  congr 2
  funext xy
  congr 2
  funext m; ring

/-- `k = 0` is excluded for a reason: `0·f` has no step points left, so the points are lost (here: the step-free
path without `where`, an assertion failure) — the *values* statement `rollingMean_affine_values` still holds -/
theorem rollingMean_affine_needs_k_ne_zero :
    f₀.Canonical ∧ C08b.scale f₀ 0 = const (some 0) .left ∧
    rollingMean (C08b.scale f₀ 0) (-1) 1 none none = .error .assertion ∧
    rollingMean f₀ (-1) 1 none none = .ok [(-1, some 0), (1, some 1), (3, some 3), (5, some 0)] := by
  decide +kernel

example : rollingMean (C08b.scale f₀ 2) (-1) 1 (some 0) (some 4) = .ok [(1, some 2), (3, some 6)] ∧
    rollingMean (C08b.addConst f₀ 5) (-1) 1 (some 0) (some 4) = .ok [(1, some 6), (3, some 8)] ∧
    rollingMean f₀ (-1) 1 (some 0) (some 4) = .ok [(1, some 1), (3, some 3)] := by decide +kernel

/-! ### additivity -/

/-- **additivity in the function**: every rolling mean of `f + g` is the sum of the window means of `f` and of `g`,
provided `f` and `g` are defined on the same part of `where` (C08b `mean_add_window`) -/
theorem rollingMean_add_values (f g h c : Stairs Rat) (l r : Rat) (lo hi : Option Rat) (rows : List (Rat × Val))
    (hf : f.WF) (hg : g.WF) (hh : binop .add f g = .ok h) (hc : clipW h lo hi = .ok c) (hs : c.steps ≠ [])
    (hlr : l < r) (hr : rollingMean h l r lo hi = .ok rows)
    (hdom : ∀ x, inWindow false lo hi x = true → (Den f false x = none ↔ Den g false x = none)) :
    ∀ xy ∈ rows, xy.2 = vadd (mean (window f (xy.1 + l) (xy.1 + r))) (mean (window g (xy.1 + l) (xy.1 + r))) := by
  obtain ⟨hcan, _, _⟩ := combineChecked_ok vadd f g h hf hg hh
  intro xy hxy
  obtain ⟨_, hkeep, hv⟩ := ((rollingMean_rows_iff h c l r lo hi rows hcan.1 hc hs hlr hr).1 xy.1 xy.2).mp hxy
  obtain ⟨hw1, hw2⟩ := keepKnot_window lo hi l r xy.1 ((keepKnot_iff lo hi l r xy.1).mpr hkeep)
  rw [hv]
  refine C08b.mean_add_window f g h hf hg hh _ _ (by linarith) (fun p hp1 hp2 => hdom p ?_)
  rw [inWindow_right]
  exact ⟨fun a' ha => le_trans (hw1 a' ha) hp1, fun b' hb => lt_of_lt_of_le hp2 (hw2 b' hb)⟩

/-- the common-domain hypothesis is needed (C08b's `p₁ = 1`, `p₂` = undefined before `1`, then `1`): at `x = 1` the
window `[0, 2)` has means `1` and `1`, but `p₁ + p₂` is defined on `[1, 2)` only, with mean `2` there -/
theorem rollingMean_add_needs_same_domain :
    binop .add C08b.p₁ C08b.p₂ = .ok ⟨none, [(1, some 2)], .left⟩ ∧
    rollingMean ⟨none, [(1, some 2)], .left⟩ (-1) 1 none none = .ok [(0, none), (2, some 2)] ∧
    mean (window C08b.p₁ (2 + -1) (2 + 1)) = some 1 ∧ mean (window C08b.p₂ (2 + -1) (2 + 1)) = some 1 ∧
    mean (window C08b.p₁ (0 + -1) (0 + 1)) = some 1 ∧ mean (window C08b.p₂ (0 + -1) (0 + 1)) = none := by
  decide +kernel

/-! ## 5. window algebra -/

/-- the window with offsets `(l + d, r + d)` at the focal point `x − d` is the window with offsets `(l, r)` at `x` -/
theorem winMean_window_shift (c : Stairs Rat) (l r d x : Rat) :
    winMean c (l + d) (r + d) (x - d) = winMean c l r x := by
  unfold winMean
  congr 2 <;> ring

theorem knots_window_shift (c : Stairs Rat) (hc : c.WF) (l r d : Rat) :
    knots c (l + d) (r + d) = (knots c l r).map (· - d) := by
  apply C10b.w10b_sorted_ext _ _ (knots_sorted c _ _ hc)
  · rw [List.pairwise_map]
    exact (knots_sorted c l r hc).imp (fun h => by linarith)
  · intro x
    rw [mem_knots, List.mem_map]
    constructor
    · intro h
      refine ⟨x + d, (mem_knots c l r _).mpr ?_, by ring⟩
      rcases h with h | h
      · left; rw [show x + d + l = x + (l + d) by ring]; exact h
      · right; rw [show x + d + r = x + (r + d) by ring]; exact h
    · rintro ⟨y, hy, rfl⟩
      rcases (mem_knots c l r y).mp hy with h | h
      · left; rw [show y - d + (l + d) = y + l by ring]; exact h
      · right; rw [show y - d + (r + d) = y + r by ring]; exact h

theorem keepKnot_window_shift (lo hi : Option Rat) (l r d x : Rat) :
    keepKnot lo hi (l + d) (r + d) (x - d) = keepKnot lo hi l r x := by
  rw [Bool.eq_iff_iff, keepKnot_iff, keepKnot_iff]
  constructor
  · rintro ⟨h1, h2⟩
    exact ⟨fun a ha => by have := h1 a ha; linarith, fun b hb => by have := h2 b hb; linarith⟩
  · rintro ⟨h1, h2⟩
    exact ⟨fun a ha => by have := h1 a ha; linarith, fun b hb => by have := h2 b hb; linarith⟩

/-- **moving the window by `d` moves the focal points by `−d` and nothing else**: `rolling_mean` with window
`(l + d, r + d)` is `rolling_mean` with window `(l, r)` re-indexed by `x ↦ x − d` (errors included), as long as the
rolled-over function has step points -/
theorem rollingMean_window_shift (f : Stairs Rat) (hf : f.WF) (l r d : Rat) (lo hi : Option Rat)
    (hs : ∀ c, clipW f lo hi = .ok c → c.steps ≠ []) :
    rollingMean f (l + d) (r + d) lo hi
      = (rollingMean f l r lo hi).map (List.map fun xy => (xy.1 - d, xy.2)) := by
  cases hc : clipW f lo hi with
  | error e =>
    rw [rollingMean_clip_error f _ _ lo hi e hc, rollingMean_clip_error f _ _ lo hi e hc]; rfl
  | ok c =>
    obtain ⟨hcw, _⟩ := clipW_den f c lo hi hf hc
    have hs' := hs c hc
    by_cases hlr : l < r
    · rw [rollingMean_spec f c _ _ lo hi hc hs' (by linarith), rollingMean_spec f c l r lo hi hc hs' hlr,
        knots_window_shift c hcw, List.filter_map]
      show Except.ok _ = Except.ok _
      congr 1
      rw [List.map_map, List.map_map]
      have e : (keepKnot lo hi (l + d) (r + d) ∘ fun x => x - d) = keepKnot lo hi l r := by
        funext x; exact keepKnot_window_shift lo hi l r d x
      rw [e]
      apply List.map_congr_left
      intro x _
      show (x - d, mean (window c (x - d + (l + d)) (x - d + (r + d)))) = (x - d, mean (window c (x + l) (x + r)))
      rw [show x - d + (l + d) = x + l by ring, show x - d + (r + d) = x + r by ring]
    · rw [rollingMean_degenerate f c _ _ lo hi hc hs' (by intro h; apply hlr; linarith),
        rollingMean_degenerate f c l r lo hi hc hs' hlr]
      rfl

/-- the hypothesis is needed: on the step-free path the library returns the two ends of `where` whatever the
window (C20b's `late`, which has no step point inside `where = (0, 3)`) -/
theorem rollingMean_window_shift_stepfree_false :
    late.WF ∧ rollingMean late (10 + 1) (11 + 1) (some 0) (some 3) = .ok [(0, none), (3, none)] ∧
    (rollingMean late 10 11 (some 0) (some 3)).map (List.map fun xy => (xy.1 - 1, xy.2))
      = .ok [(-1, none), (2, none)] := by
  decide +kernel

example : rollingMean f₀ (-2 + 1) (0 + 1) (some 0) (some 4) = .ok [(1, some 1), (3, some 3)] ∧
    rollingMean f₀ (-2) 0 (some 0) (some 4) = .ok [(2, some 1), (4, some 3)] := by decide +kernel

/-- **a degenerate window `r ≤ l`** (in particular `l = r`): a `ValueError` (raised by the first `clip`) whenever
the rolled-over function has step points; on the step-free path the window is never looked at and the two ends of
`where` are returned -/
theorem rollingMean_degenerate_window (f c : Stairs Rat) (l r : Rat) (lo hi : Option Rat) (hrl : r ≤ l)
    (hc : clipW f lo hi = .ok c) :
    (c.steps ≠ [] → rollingMean f l r lo hi = .error .valueError) ∧
    (c.steps = [] → ∀ a b, lo = some a → hi = some b → rollingMean f l r lo hi = .ok [(a, c.init), (b, c.init)]) := by
  constructor
  · intro hs
    exact rollingMean_degenerate f c l r lo hi hc hs (not_lt.mpr hrl)
  · intro hs a b ha hb
    subst ha hb
    exact rollingMean_stepfree f c l r _ _ hc hs

example : rollingMean f₀ 1 1 none none = .error .valueError ∧ rollingMean f₀ 2 1 (some 0) (some 4) = .error .valueError ∧
    rollingMean late 1 1 (some 0) (some 3) = .ok [(0, none), (3, none)] := by decide +kernel

/-! ## further non-vacuity: the main theorems instantiated -/

example (x : Rat) : x ∈ [(2 : Rat), 4] ↔
    (ClippedStep f₀ (some 0) (some 4) (x + -2) ∨ ClippedStep f₀ (some 0) (some 4) (x + 0)) ∧
    (∀ a, (some 0 : Option Rat) = some a → a - -2 ≤ x) ∧ (∀ b, (some 4 : Option Rat) = some b → x ≤ b - 0) :=
  rollingMean_points_iff f₀ _ (-2) 0 (some 0) (some 4) [(2, some 1), (4, some 3)] (by decide +kernel)
    (fun h => by cases h) (by decide +kernel : clipW f₀ (some 0) (some 4)
      = .ok ⟨none, [(0, some 1), (2, some 3), (4, none)], .left⟩) (by decide +kernel) (by decide +kernel)
    (by decide +kernel) x

example : ∃ mn mx, minIn f₀ (some (1 + -1)) (some (1 + 2)) .left = some mn ∧
    maxIn f₀ (some (1 + -1)) (some (1 + 2)) .left = some mx ∧ mn ≤ (5/3 : Rat) ∧ (5/3 : Rat) ≤ mx :=
  rollingMean_between_min_max f₀ f₀ (-1) 2 none none _ (by decide +kernel) rfl (by decide +kernel) (by decide +kernel)
    (by decide +kernel : rollingMean f₀ (-1) 2 none none
      = .ok [(-2, some 0), (0, some (2/3)), (1, some (5/3)), (2, some (7/3)), (3, some 2), (5, some 0)]) .left
    (1, some (5/3)) (by decide +kernel) (5/3) rfl

example : rollingMean (C08b.scale f₀ 2) (-1) 1 (some 0) (some 4)
    = (rollingMean f₀ (-1) 1 (some 0) (some 4)).map (List.map fun xy => (xy.1, xy.2.map (fun m => 2 * m))) :=
  rollingMean_scale f₀ (by decide +kernel) 2 (-1) 1 (by decide +kernel) _ _

example : ∀ xy ∈ [((-1 : Rat), (some 0 : Val)), (1, some 2), (3, some 6), (5, some 0)],
    xy.2 = vadd (mean (window f₀ (xy.1 + -1) (xy.1 + 1))) (mean (window f₀ (xy.1 + -1) (xy.1 + 1))) :=
  rollingMean_add_values f₀ f₀ ⟨some 0, [(0, some 2), (2, some 6), (4, some 0)], .left⟩ _ (-1) 1 none none _
    (by decide +kernel) (by decide +kernel) (by decide +kernel) rfl (by decide +kernel) (by decide +kernel)
    (by decide +kernel) (fun _ _ => Iff.rfl)

example : rollingMean f₀ (-2 + 1) (0 + 1) (some 0) (some 4)
    = (rollingMean f₀ (-2) 0 (some 0) (some 4)).map (List.map fun xy => (xy.1 - 1, xy.2)) :=
  rollingMean_window_shift f₀ (by decide +kernel) (-2) 0 1 _ _ (fun c hc => by
    have h : clipW f₀ (some 0) (some 4) = .ok ⟨none, [(0, some 1), (2, some 3), (4, none)], .left⟩ := by
      decide +kernel
    rw [h] at hc
    injection hc with hc
    rw [← hc]
    simp)

end SC.Props.C20d
