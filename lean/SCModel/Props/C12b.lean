import SCModel.Lemmas.Canon12b
import SCModel.Lemmas.Layer
import SCModel.Lemmas.Agg18b
import SCModel.Lemmas.Shift
import SCModel.Props.C03
import SCModel.Props.C12
import Mathlib.Data.Set.Card
/-!
# C12b — the canonical (minimal) form and `identical`: equivalence, congruence, minimality, invariance

1. `identical` compares the initial value and the rows and IGNORES the closed side.  It is an equivalence
   relation (`identical_trans`, `identical_equivalence`), `identical ∧ same closed side ↔ equal objects`
   (`identical_and_closed_iff_eq`), and every operation is a congruence for it **up to `identical`**
   (`combine_congr`, `binop_congr_ok`, `unop_congr`, `clip_congr`, `shift_congr`, `layer_congr`,
   `aggregate_congr_ok` …).  The naive congruence "`binop o f g = binop o f' g'`" is FALSE
   (`binop_congr_naive_false`: one side raises the closed-mismatch error, the other does not); it holds when the
   closed sides agree as well (`binop_congr`), and in general up to the relation `IdenticalE` once the
   mismatch conditions agree (`combineChecked_congr_rel`).
2. **minimality** of `canon f` among ALL well-formed representations of the same function (whatever their
   closed side): fewest rows (`canon_rows_le`), its rows / step points are a sub-list of every representation's
   (`canon_rows_sublist`, `canon_idx_sublist`), it is the unique representation with that few rows
   (`canon_unique_minimum`); `canon` is idempotent (`canon_idem`) and is the identity exactly on minimal
   (`canon_eq_self_iff`) = for well-formed objects canonical (`canon_eq_self_iff_canonical`) objects; the step
   points of `canon f` are exactly the points where left and right limit differ (`mem_idx_canon_iff`), so
   `numberOfSteps (canon f)` is the number of such points (`numberOfSteps_canon_eq_ncard`,
   `numberOfSteps_canon_eq_of_enum`).  All of this for EVERY non-empty linear order when both one-sided limits
   are compared; with right limits only one needs `NoMinOrder` (`canon_rows_le_right`) and the statement is
   false otherwise (`canon_rows_le_right_needs_noMin`).
3. `removeRedundant` is a function of the denotation (`removeRedundant_eq_of_den`, `…_den2`), is monotone in
   length for sub-lists (`removeRedundant_length_mono`) but NOT monotone for the sub-list order
   (`removeRedundant_sublist_mono_false`), has the sandwich property (`removeRedundant_sandwich`) and splits
   over `++` (`removeRedundant_append`).
4. zero steps ⇔ constant denotation ⇔ identical to a constant (`nsteps_zero_iff_const`, `…_identical_const`,
   `nsteps_canon_zero_iff_const`), `bool(f)` (`toBool_canon_iff`, `toBool_iff_identical`) – and both fail on
   non-canonical representations (`nsteps_zero_needs_canonical`).
5. every operation only depends on the canonical forms of its inputs: `combine_canon`, (`f7b_map_canon`),
   `unop_canon`, `clip_canon`, `maskTuple_canon`, `ffill_canon`, `bfill_canon`, `fillnaScalar_canon`,
   `layer_canon`, `aggRaw_canon`, `diff_canon`.  For the closed-side-checked operations the naive statement
   `binop o f g = binop o (canon f) (canon g)` is FALSE, because `hasSteps` is a property of the representation
   (`binop_canon_naive_false`, `binop_canon_closed_differs`, `aggregate_canon_naive_false`); it is true when the
   operands are closed alike (`combineChecked_canon_of_closed`, `binop_canon`, `mask_canon`, `where_canon`,
   `fillnaStairs_canon`, `aggregate_canon_same_closed`), and in general canonicalising can only remove
   mismatches and yields `identical` results (`combineChecked_canon_rel`, `aggregate_canon_rel`).  `shift` and
   `layer f []` do NOT canonicalise (`shift_not_canonicalising`, `layer_nil_not_canonicalising`).  Together with 1.:
   results only depend on the FUNCTIONS denoted by the operands (`combine_congr_den`, `unop_congr_den`,
   `clip_congr_den`, `ffill_congr_den`, `bfill_congr_den`, `layer_congr_den`).
-/
set_option linter.unusedSectionVars false
namespace SC.Props.C12b
open SC SC.Stairs
variable {P : Type} [LinearOrder P]

/-! ## 1. `identical` is an equivalence relation, and what it ignores -/

theorem identical_trans (f g h : Stairs P) (h1 : identical f g = true) (h2 : identical g h = true) :
    identical f h = true := by
  rw [f7b_identical_iff] at *
  exact ⟨h1.1.trans h2.1, h1.2.trans h2.2⟩

/-- **`identical` is an equivalence relation** (on all objects, well-formed or not) -/
theorem identical_equivalence : Equivalence (fun f g : Stairs P => identical f g = true) :=
  ⟨C12.identical_refl, fun {f g} h => by rw [C12.identical_symm]; exact h,
   fun {f g h} h1 h2 => identical_trans f g h h1 h2⟩

/-- `identical` does not look at the closed side -/
theorem identical_ignores_closed (f : Stairs P) (cl : Side) : identical f { f with closed := cl } = true := by
  simp [identical]

/-- `identical f g` says exactly that `g` is `f` with (possibly) another closed side -/
theorem identical_iff_eq_upto_closed (f g : Stairs P) :
    identical f g = true ↔ g = { f with closed := g.closed } := by
  rw [f7b_identical_iff]
  constructor
  · rintro ⟨h1, h2⟩; cases f; cases g; simp_all
  · intro h; rw [h]; exact ⟨rfl, rfl⟩

/-- **identical and closed alike ⇔ equal objects** -/
theorem identical_and_closed_iff_eq (f g : Stairs P) :
    (identical f g = true ∧ f.closed = g.closed) ↔ f = g :=
  ⟨fun h => f7b_eq_of_identical f g h.1 h.2, fun h => by subst h; exact ⟨C12.identical_refl f, rfl⟩⟩

/-- … and `identical` alone is strictly weaker than equality -/
theorem identical_ne_eq : ∃ f g : Stairs Int, f.Canonical ∧ g.Canonical ∧ identical f g = true ∧ f ≠ g :=
  ⟨⟨some 0, [(1, some 2)], .left⟩, ⟨some 0, [(1, some 2)], .right⟩, by decide +kernel⟩

/-- for well-formed objects `identical` of the canonical forms is equality of the denoted functions
(both one-sided limits; any non-empty linear order) -/
theorem identical_canon_iff_den [Nonempty P] (f g : Stairs P) (hf : f.WF) (hg : g.WF) :
    identical (canon f) (canon g) = true ↔ ∀ st x, Den f st x = Den g st x := by
  rw [f7b_identical_iff]
  constructor
  · rintro ⟨h1, h2⟩ st x
    rw [← den_canon f hf, ← den_canon g hg]
    unfold Den; rw [h1, h2]
  · intro h
    exact c12b_rr_eq_of_lim2 f.init g.init f.steps g.steps hf hg h

/-- … with right limits only when the order has no least element -/
theorem identical_canon_iff_den_right [NoMinOrder P] [Nonempty P] (f g : Stairs P) (hf : f.WF) (hg : g.WF) :
    identical (canon f) (canon g) = true ↔ ∀ x, Den f false x = Den g false x := by
  rw [C12.identical_iff _ _ (canonical_canon f hf) (canonical_canon g hg)]
  simp only [den_canon f hf, den_canon g hg]

example : identical (canon (⟨some 1, [(0, some 1), (2, some 4), (3, some 4)], .left⟩ : Stairs Int))
    (canon ⟨some 1, [(2, some 4), (5, some 4)], .right⟩) = true := by decide +kernel

/-! ## 1b. every operation is a congruence for `identical` – up to `identical` -/

/-- the general two-operand path: identical operands give identical results, whatever the closed sides -/
theorem combine_congr (op : Val → Val → Val) (f f' g g' : Stairs P) (cl cl' : Side)
    (hf : identical f f' = true) (hg : identical g g' = true) :
    identical (combine op f g cl) (combine op f' g' cl') = true := by
  rw [f7b_identical_iff] at *
  unfold combine canon
  simp [hf.1, hf.2, hg.1, hg.2]

/-- two results of a fallible operation agree up to `identical`: the same error, or identical objects -/
def IdenticalE : Except Err (Stairs P) → Except Err (Stairs P) → Prop
  | .ok h, .ok h' => identical h h' = true
  | .error e, .error e' => e = e'
  | _, _ => False

theorem identicalE_refl (r : Except Err (Stairs P)) : IdenticalE r r := by
  cases r with
  | error e => rfl
  | ok h => exact C12.identical_refl h

/-- the closed-side-checked path: when both sides succeed the results are identical -/
theorem combineChecked_congr_ok (op : Val → Val → Val) (f f' g g' h h' : Stairs P)
    (hf : identical f f' = true) (hg : identical g g' = true)
    (hr : combineChecked op f g = .ok h) (hr' : combineChecked op f' g' = .ok h') :
    identical h h' = true := by
  rw [combineChecked_eq] at hr hr'
  split at hr
  · cases hr
  · split at hr'
    · cases hr'
    · injection hr with hr; injection hr' with hr'
      subst hr; subst hr'
      exact combine_congr op f f' g g' _ _ hf hg

/-- … they agree up to `IdenticalE` as soon as the mismatch conditions agree -/
theorem combineChecked_congr_rel (op : Val → Val → Val) (f f' g g' : Stairs P)
    (hf : identical f f' = true) (hg : identical g g' = true) (hm : Mismatch f g ↔ Mismatch f' g') :
    IdenticalE (combineChecked op f g) (combineChecked op f' g') := by
  rw [combineChecked_eq, combineChecked_eq]
  by_cases h : Mismatch f g
  · rw [if_pos h, if_pos (hm.mp h)]; rfl
  · rw [if_neg h, if_neg (fun h' => h (hm.mpr h'))]
    exact combine_congr op f f' g g' _ _ hf hg

/-- … and are EQUAL when the closed sides agree as well (then the operands are equal objects) -/
theorem combineChecked_congr (op : Val → Val → Val) (f f' g g' : Stairs P)
    (hf : identical f f' = true) (hg : identical g g' = true)
    (hcf : f.closed = f'.closed) (hcg : g.closed = g'.closed) :
    combineChecked op f g = combineChecked op f' g' := by
  rw [f7b_eq_of_identical f f' hf hcf, f7b_eq_of_identical g g' hg hcg]

theorem binop_congr_ok (o : BinOp) (f f' g g' h h' : Stairs P)
    (hf : identical f f' = true) (hg : identical g g' = true)
    (hr : binop o f g = .ok h) (hr' : binop o f' g' = .ok h') : identical h h' = true :=
  combineChecked_congr_ok o.eval f f' g g' h h' hf hg hr hr'

theorem binop_congr (o : BinOp) (f f' g g' : Stairs P)
    (hf : identical f f' = true) (hg : identical g g' = true)
    (hcf : f.closed = f'.closed) (hcg : g.closed = g'.closed) : binop o f g = binop o f' g' :=
  combineChecked_congr o.eval f f' g g' hf hg hcf hcg

theorem binop_congr_rel (o : BinOp) (f f' g g' : Stairs P)
    (hf : identical f f' = true) (hg : identical g g' = true) (hm : Mismatch f g ↔ Mismatch f' g') :
    IdenticalE (binop o f g) (binop o f' g') := combineChecked_congr_rel o.eval f f' g g' hf hg hm

/-- **REFUTED: the naive congruence.**  `f` and `f'` are identical (they differ in the closed side only),
yet `f + g` raises the closed-mismatch error while `f' + g` succeeds -/
theorem binop_congr_naive_false :
    ¬ ∀ (o : BinOp) (f f' g g' : Stairs Int), f.Canonical → f'.Canonical → g.Canonical → g'.Canonical →
        identical f f' = true → identical g g' = true → binop o f g = binop o f' g' := by
  intro h
  have := h .add ⟨some 0, [(1, some 2)], .right⟩ ⟨some 0, [(1, some 2)], .left⟩
    ⟨some 0, [(3, some 1)], .left⟩ ⟨some 0, [(3, some 1)], .left⟩
    (by decide +kernel) (by decide +kernel) (by decide +kernel) (by decide +kernel)
    (by decide +kernel) (by decide +kernel)
  revert this
  decide +kernel

/-- … not even up to `IdenticalE` -/
theorem binop_congr_naive_false_rel :
    ¬ ∀ (o : BinOp) (f f' g g' : Stairs Int), identical f f' = true → identical g g' = true →
        IdenticalE (binop o f g) (binop o f' g') := by
  intro h
  have := h .add ⟨some 0, [(1, some 2)], .right⟩ ⟨some 0, [(1, some 2)], .left⟩
    ⟨some 0, [(3, some 1)], .left⟩ ⟨some 0, [(3, some 1)], .left⟩ (by decide +kernel) (by decide +kernel)
  have e1 : binop .add (⟨some 0, [(1, some 2)], .right⟩ : Stairs Int) ⟨some 0, [(3, some 1)], .left⟩
      = .error .closedMismatch := by decide +kernel
  have e2 : binop .add (⟨some 0, [(1, some 2)], .left⟩ : Stairs Int) ⟨some 0, [(3, some 1)], .left⟩
      = .ok ⟨some 0, [(1, some 2), (3, some 3)], .left⟩ := by decide +kernel
  rw [e1, e2] at this
  exact this

theorem mask_congr_ok (f f' g g' h h' : Stairs P) (hf : identical f f' = true) (hg : identical g g' = true)
    (hr : mask f g = .ok h) (hr' : mask f' g' = .ok h') : identical h h' = true :=
  combineChecked_congr_ok maskOp f f' g g' h h' hf hg hr hr'
theorem where_congr_ok (f f' g g' h h' : Stairs P) (hf : identical f f' = true) (hg : identical g g' = true)
    (hr : where_ f g = .ok h) (hr' : where_ f' g' = .ok h') : identical h h' = true :=
  combineChecked_congr_ok whereOp f f' g g' h h' hf hg hr hr'
theorem fillnaStairs_congr_ok (f f' g g' h h' : Stairs P) (hf : identical f f' = true)
    (hg : identical g g' = true) (hr : fillnaStairs f g = .ok h) (hr' : fillnaStairs f' g' = .ok h') :
    identical h h' = true :=
  combineChecked_congr_ok fillOp f f' g g' h h' hf hg hr hr'

/-- one-operand operations -/
theorem map_congr (u : Val → Val) (f f' : Stairs P) (hf : identical f f' = true) :
    identical (map u f) (map u f') = true := by
  rw [f7b_identical_iff] at *
  unfold map canon
  simp [hf.1, hf.2]

theorem unop_congr (u : UnOp) (f f' : Stairs P) (hf : identical f f' = true) :
    identical (unop u f) (unop u f') = true := map_congr u.eval f f' hf

theorem fillnaScalar_congr (f f' : Stairs P) (v : Val) (hf : identical f f' = true) :
    identical (fillnaScalar f v) (fillnaScalar f' v) = true := map_congr _ f f' hf

theorem ffill_congr (f f' : Stairs P) (hf : identical f f' = true) :
    identical (ffill f) (ffill f') = true := by
  rw [f7b_identical_iff] at *
  unfold ffill canon
  simp [hf.1, hf.2]

theorem bfill_congr (f f' : Stairs P) (hf : identical f f' = true) :
    identical (bfill f) (bfill f') = true := by
  rw [f7b_identical_iff] at *
  unfold bfill canon
  simp [hf.1, hf.2]

/-- `clip`: the same `ValueError` on both sides, or identical results – unconditionally -/
theorem clip_congr (f f' : Stairs P) (lo hi : Option P) (hf : identical f f' = true) :
    IdenticalE (clip f lo hi) (clip f' lo hi) := by
  unfold clip
  by_cases hb : boundsOk lo hi = true
  · rw [if_pos hb, if_pos hb]
    exact combine_congr whereOp f f' _ _ _ _ hf (by simp [identical, indicator])
  · rw [if_neg hb, if_neg hb]; rfl

theorem layerIndicator_congr (lo hi : Option P) (cl cl' : Side) :
    identical (layerIndicator lo hi cl) (layerIndicator lo hi cl') = true := by
  rw [f7b_identical_iff]
  rcases lo with _ | a <;> rcases hi with _ | b
  · simp [layerIndicator, canon]
  · simp [layerIndicator, canon]
  · simp [layerIndicator, canon]
  · by_cases h1 : a < b <;> by_cases h2 : b < a <;> simp [layerIndicator, canon, h1, h2]

theorem maskTuple_congr (f f' : Stairs P) (lo hi : Option P) (hf : identical f f' = true) :
    identical (maskTuple f lo hi) (maskTuple f' lo hi) = true :=
  combine_congr maskOp f f' _ _ _ _ hf (layerIndicator_congr lo hi _ _)

theorem shift_congr [Add P] (f f' : Stairs P) (d : P) (hf : identical f f' = true) :
    identical (shift f d) (shift f' d) = true := by
  rw [f7b_identical_iff] at *
  unfold shift
  simp [hf.1, hf.2]

theorem layer1_congr (f f' : Stairs P) (t : Triple P) (hf : identical f f' = true) :
    identical (layer1 f t) (layer1 f' t) = true := by
  unfold layer1
  apply combine_congr
  · apply combine_congr _ _ _ _ _ _ _ hf
    cases h : t.start <;> simp [startRay, identical]
  · cases h : t.stop <;> simp [stopRay, identical]

theorem layer_congr (ts : List (Triple P)) : ∀ (f f' : Stairs P), identical f f' = true →
    identical (layer f ts) (layer f' ts) = true := by
  induction ts with
  | nil => intro f f' h; exact h
  | cons t r ih => intro f f' h; exact ih _ _ (layer1_congr f f' t h)

/-- canonicalisation itself -/
theorem canon_congr (f f' : Stairs P) (hf : identical f f' = true) : identical (canon f) (canon f') = true := by
  rw [f7b_identical_iff] at *
  unfold canon
  simp [hf.1, hf.2]

theorem c12b_map_congr_forall₂ {α β : Type} (R : α → α → Prop) (φ : α → β) (hφ : ∀ a b, R a b → φ a = φ b)
    {l l' : List α} (h : List.Forall₂ R l l') : l.map φ = l'.map φ := by
  induction h with
  | nil => rfl
  | cons hab _ ih => simp [hφ _ _ hab, ih]

/-- collections: member-wise identical collections give identical rows before canonicalisation … -/
theorem aggRaw_congr (F : AggFn) (ms ms' : List (Stairs P)) (cl cl' : Side)
    (h : List.Forall₂ (fun m m' => identical m m' = true) ms ms') :
    identical (aggRaw F ms cl) (aggRaw F ms' cl') = true := by
  rw [f7b_identical_iff]
  have h1 : ms.map (·.init) = ms'.map (·.init) :=
    c12b_map_congr_forall₂ _ _ (fun a b hab => ((f7b_identical_iff a b).mp hab).1) h
  have h2 : ms.map (·.idx) = ms'.map (·.idx) :=
    c12b_map_congr_forall₂ _ _ (fun a b hab => by
      show a.steps.map Prod.fst = b.steps.map Prod.fst
      rw [((f7b_identical_iff a b).mp hab).2]) h
  have h3 : ∀ p, (ms.map fun m => lim false m.init m.steps p) = ms'.map fun m => lim false m.init m.steps p :=
    fun p => c12b_map_congr_forall₂ _ _ (fun a b hab => by
      rw [((f7b_identical_iff a b).mp hab).1, ((f7b_identical_iff a b).mp hab).2]) h
  unfold aggRaw
  simp only [h1, h2, h3, and_self]

/-- … hence identical results whenever both aggregations succeed -/
theorem aggregate_congr_ok (F : AggFn) (ms ms' : List (Stairs P)) (h h' : Stairs P)
    (hm : List.Forall₂ (fun m m' => identical m m' = true) ms ms')
    (hr : aggregate F ms = .ok h) (hr' : aggregate F ms' = .ok h') : identical h h' = true := by
  obtain ⟨cl, _, rfl⟩ := aggregate_ok F ms h hr
  obtain ⟨cl', _, rfl⟩ := aggregate_ok F ms' h' hr'
  exact canon_congr _ _ (aggRaw_congr F ms ms' cl cl' hm)

/-! non-vacuity for the congruences: operands that differ in the closed side only -/
def fL : Stairs Int := ⟨some 0, [(1, some 2), (3, some 5), (4, none)], .left⟩
def fR : Stairs Int := ⟨some 0, [(1, some 2), (3, some 5), (4, none)], .right⟩
def k₀ : Stairs Int := ⟨some 1, [], .left⟩
example : fL.Canonical ∧ fR.Canonical ∧ identical fL fR = true ∧ fL ≠ fR := by decide +kernel
example : binop .mul fL k₀ = .ok ⟨some 0, [(1, some 2), (3, some 5), (4, none)], .left⟩ ∧
    binop .mul fR k₀ = .ok ⟨some 0, [(1, some 2), (3, some 5), (4, none)], .right⟩ := by decide +kernel
example : ∃ h h', binop .mul fL k₀ = .ok h ∧ binop .mul fR k₀ = .ok h' ∧ identical h h' = true ∧ h ≠ h' :=
  ⟨⟨some 0, [(1, some 2), (3, some 5), (4, none)], .left⟩, ⟨some 0, [(1, some 2), (3, some 5), (4, none)], .right⟩,
   by decide +kernel⟩
example : IdenticalE (clip fL (some 2) (some 4)) (clip fR (some 2) (some 4)) :=
  clip_congr fL fR _ _ (by decide +kernel)
example : identical (layer fL [⟨some 0, some 2, 3⟩]) (layer fR [⟨some 0, some 2, 3⟩]) = true :=
  layer_congr _ fL fR (by decide +kernel)
example : aggregate .max [fL, k₀] = .ok ⟨some 1, [(1, some 2), (3, some 5), (4, none)], .left⟩ ∧
    aggregate .max [fR, k₀] = .ok ⟨some 1, [(1, some 2), (3, some 5), (4, none)], .right⟩ := by decide +kernel

/-! ## 2. minimality of the canonical form -/

/-- **`canon` is idempotent** (all inputs) -/
theorem canon_idem (f : Stairs P) : canon (canon f) = canon f := canon_of_minimal _ (minimal_canon f)

/-- **`canon` is the identity exactly on minimal objects** (all inputs) … -/
theorem canon_eq_self_iff (f : Stairs P) : canon f = f ↔ f.IsMinimal := by
  constructor
  · intro h; rw [← h]; exact minimal_canon f
  · exact canon_of_minimal f

/-- … i.e. among well-formed objects exactly on the canonical ones -/
theorem canon_eq_self_iff_canonical (f : Stairs P) (hf : f.WF) : canon f = f ↔ f.Canonical :=
  (canon_eq_self_iff f).trans ⟨fun h => ⟨hf, h⟩, fun h => h.2⟩

/-- canonicalisation only deletes rows -/
theorem canon_rows_sublist_self (f : Stairs P) : (canon f).steps.Sublist f.steps := c12b_rr_sublist _ _

theorem numberOfSteps_canon_le (f : Stairs P) : (canon f).numberOfSteps ≤ f.numberOfSteps :=
  c12b_rr_length_le _ _

/-- it deletes none iff the object was minimal already -/
theorem numberOfSteps_canon_eq_iff (f : Stairs P) : (canon f).numberOfSteps = f.numberOfSteps ↔ f.IsMinimal :=
  c12b_rr_length_eq_iff _ _

/-- **the canonical form is a function of the denotation** (both one-sided limits; any non-empty linear
order): representations of the same function have the same initial value and the same canonical rows -/
theorem canon_data_eq_of_den [Nonempty P] (f g : Stairs P) (hf : f.WF) (hg : g.WF)
    (h : ∀ st x, Den g st x = Den f st x) : g.init = f.init ∧ (canon g).steps = (canon f).steps :=
  c12b_rr_eq_of_lim2 g.init f.init g.steps f.steps hg hf h

theorem canon_eq_of_den [Nonempty P] (f g : Stairs P) (hf : f.WF) (hg : g.WF) (hc : g.closed = f.closed)
    (h : ∀ st x, Den g st x = Den f st x) : canon g = canon f := by
  obtain ⟨h1, h2⟩ := canon_data_eq_of_den f g hf hg h
  have h3 : (canon g).init = (canon f).init := h1
  have h4 : (canon g).closed = (canon f).closed := hc
  revert h2 h3 h4
  cases canon g; cases canon f
  intro h2 h3 h4
  simp_all

/-- two well-formed objects have the same canonical form iff they are closed alike and denote the same function -/
theorem canon_eq_iff_den [Nonempty P] (f g : Stairs P) (hf : f.WF) (hg : g.WF) :
    canon g = canon f ↔ g.closed = f.closed ∧ ∀ st x, Den g st x = Den f st x := by
  constructor
  · intro h
    refine ⟨by simpa using congrArg Stairs.closed h, fun st x => ?_⟩
    rw [← den_canon g hg, ← den_canon f hf, h]
  · rintro ⟨hc, h⟩; exact canon_eq_of_den f g hf hg hc h

/-- **the rows of `canon f` are a sub-list of the rows of every representation `g` of the same function** –
whatever the closed side of `g` -/
theorem canon_rows_sublist [Nonempty P] (f g : Stairs P) (hf : f.WF) (hg : g.WF)
    (h : ∀ st x, Den g st x = Den f st x) : (canon f).steps.Sublist g.steps := by
  rw [← (canon_data_eq_of_den f g hf hg h).2]; exact c12b_rr_sublist _ _

/-- … in particular its step points are a sub-list of every representation's step points -/
theorem canon_idx_sublist [Nonempty P] (f g : Stairs P) (hf : f.WF) (hg : g.WF)
    (h : ∀ st x, Den g st x = Den f st x) : (canon f).idx.Sublist g.idx :=
  (canon_rows_sublist f g hf hg h).map Prod.fst

/-- **MINIMALITY: among all well-formed representations of the same function, `canon f` has the fewest rows** -/
theorem canon_rows_le [Nonempty P] (f g : Stairs P) (hf : f.WF) (hg : g.WF)
    (h : ∀ st x, Den g st x = Den f st x) : (canon f).steps.length ≤ g.steps.length :=
  (canon_rows_sublist f g hf hg h).length_le

theorem numberOfSteps_canon_minimal [Nonempty P] (f g : Stairs P) (hf : f.WF) (hg : g.WF)
    (h : ∀ st x, Den g st x = Den f st x) : (canon f).numberOfSteps ≤ g.numberOfSteps :=
  canon_rows_le f g hf hg h

/-- **… and it is the only one with that few rows** -/
theorem canon_unique_minimum [Nonempty P] (f g : Stairs P) (hf : f.WF) (hg : g.WF)
    (h : ∀ st x, Den g st x = Den f st x) (hl : g.steps.length ≤ (canon f).steps.length) :
    g.init = f.init ∧ g.steps = (canon f).steps :=
  ⟨(canon_data_eq_of_den f g hf hg h).1,
   ((canon_rows_sublist f g hf hg h).eq_of_length_le hl).symm⟩

/-- a well-formed representation is canonical iff no representation of the same function has fewer rows -/
theorem canonical_iff_fewest_rows [Nonempty P] (f : Stairs P) (hf : f.WF) :
    f.Canonical ↔ ∀ g : Stairs P, g.WF → (∀ st x, Den g st x = Den f st x) → f.steps.length ≤ g.steps.length := by
  constructor
  · intro hc g hg h
    have := canon_rows_le f g hf hg h
    rwa [canon_of_minimal f hc.2] at this
  · intro h
    have h1 := h (canon f) (wf_canon f hf) (fun st x => den_canon f hf st x)
    exact ⟨hf, (numberOfSteps_canon_eq_iff f).mp (Nat.le_antisymm (numberOfSteps_canon_le f) h1)⟩

/-- the same with right limits only, when the order has no least element -/
theorem canon_rows_sublist_right [NoMinOrder P] [Nonempty P] (f g : Stairs P) (hf : f.WF) (hg : g.WF)
    (h : ∀ x, Den g false x = Den f false x) : (canon f).steps.Sublist g.steps := by
  show (removeRedundant f.init f.steps).Sublist g.steps
  rw [← (c12b_rr_eq_of_lim_noMin g.init f.init g.steps f.steps hg hf h).2]; exact c12b_rr_sublist _ _

theorem canon_rows_le_right [NoMinOrder P] [Nonempty P] (f g : Stairs P) (hf : f.WF) (hg : g.WF)
    (h : ∀ x, Den g false x = Den f false x) : (canon f).steps.length ≤ g.steps.length :=
  (canon_rows_sublist_right f g hf hg h).length_le

/-- **REFUTED without `NoMinOrder`**: on ℕ a step at the least point 0 is invisible to the right limits, so
`⟨1, []⟩` has the same right limits as the canonical `⟨0, [(0, 1)]⟩` but fewer rows -/
theorem canon_rows_le_right_needs_noMin :
    ¬ ∀ (f g : Stairs Nat), f.Canonical → g.Canonical → (∀ x, Den g false x = Den f false x) →
        (canon f).steps.length ≤ g.steps.length := by
  intro h
  have := h ⟨some 0, [(0, some 1)], .left⟩ ⟨some 1, [], .left⟩ (by decide +kernel) (by decide +kernel)
    (fun x => by simp [Den, lim, reached])
  revert this
  decide +kernel

/-- **the step points of the canonical form are exactly the points where left and right limit differ** -/
theorem mem_idx_canon_iff (f : Stairs P) (hf : f.WF) (x : P) :
    x ∈ (canon f).idx ↔ Den f true x ≠ Den f false x := by
  rw [← den_canon f hf true, ← den_canon f hf false]
  exact c12b_mem_iff_jump _ _ (wf_canon f hf) (minimal_canon f) x

theorem mem_idx_iff_jump (f : Stairs P) (hf : f.Canonical) (x : P) :
    x ∈ f.idx ↔ Den f true x ≠ Den f false x :=
  c12b_mem_iff_jump _ _ hf.1 hf.2 x

/-- as sets -/
theorem jump_set_eq (f : Stairs P) (hf : f.WF) :
    {x | Den f true x ≠ Den f false x} = {x | x ∈ (canon f).idx} := by
  ext x; exact (mem_idx_canon_iff f hf x).symm

theorem nodup_idx (f : Stairs P) (hf : f.WF) : f.idx.Nodup :=
  List.Pairwise.imp (fun h => ne_of_lt h) hf

/-- the set of discontinuities is finite … -/
theorem jump_set_finite (f : Stairs P) (hf : f.WF) : {x | Den f true x ≠ Den f false x}.Finite := by
  rw [jump_set_eq f hf]; exact List.finite_toSet _

/-- **… and `numberOfSteps (canon f)` is its cardinality** -/
theorem numberOfSteps_canon_eq_ncard (f : Stairs P) (hf : f.WF) :
    (canon f).numberOfSteps = Set.ncard {x | Den f true x ≠ Den f false x} := by
  rw [jump_set_eq f hf, ← List.coe_toFinset, Set.ncard_coe_finset,
    List.toFinset_card_of_nodup (nodup_idx _ (wf_canon f hf))]
  simp [numberOfSteps, idx]

theorem numberOfSteps_eq_ncard (f : Stairs P) (hf : f.Canonical) :
    f.numberOfSteps = Set.ncard {x | Den f true x ≠ Den f false x} := by
  have := numberOfSteps_canon_eq_ncard f hf.1
  rwa [canon_of_minimal f hf.2] at this

/-- the same without sets: any duplicate-free enumeration of the discontinuities has `numberOfSteps (canon f)`
entries -/
theorem numberOfSteps_canon_eq_of_enum (f : Stairs P) (hf : f.WF) (l : List P) (hl : l.Nodup)
    (h : ∀ x, x ∈ l ↔ Den f true x ≠ Den f false x) : (canon f).numberOfSteps = l.length := by
  have hp : (canon f).idx.Perm l :=
    (List.perm_ext_iff_of_nodup (nodup_idx _ (wf_canon f hf)) hl).mpr
      (fun x => (mem_idx_canon_iff f hf x).trans (h x).symm)
  rw [← hp.length_eq]; simp [numberOfSteps, idx]

/-- a non-canonical representation has MORE step points than discontinuities -/
theorem numberOfSteps_gt_of_not_minimal (f : Stairs P) (hf : f.WF) (hn : ¬ f.IsMinimal) :
    Set.ncard {x | Den f true x ≠ Den f false x} < f.numberOfSteps := by
  rw [← numberOfSteps_canon_eq_ncard f hf]
  exact lt_of_le_of_ne (numberOfSteps_canon_le f) (fun h => hn ((numberOfSteps_canon_eq_iff f).mp h))

/-! non-vacuity -/
def r₀ : Stairs Int := ⟨some 1, [(0, some 1), (2, some 4), (3, some 4), (5, none), (6, none)], .left⟩
def r₁ : Stairs Int := ⟨some 1, [(2, some 4), (4, some 4), (5, none)], .right⟩
example : r₀.WF ∧ ¬ r₀.Canonical ∧ r₁.WF ∧ ¬ r₁.Canonical := by decide +kernel
example : canon r₀ = ⟨some 1, [(2, some 4), (5, none)], .left⟩ ∧ canon (canon r₀) = canon r₀ := by decide +kernel
example : identical (canon r₀) (canon r₁) = true ∧ (canon r₀).steps.Sublist r₁.steps ∧
    (canon r₀).steps.length ≤ r₁.steps.length := by decide +kernel
example : ∀ st x, Den r₁ st x = Den r₀ st x :=
  (identical_canon_iff_den r₁ r₀ (by decide +kernel) (by decide +kernel)).mp (by decide +kernel)
example : (canon r₀).idx = [2, 5] ∧ Den r₀ true 2 ≠ Den r₀ false 2 ∧ Den r₀ true 3 = Den r₀ false 3 := by
  decide +kernel

/-! ## 3. `removeRedundant` as a function of the denotation; sub-lists; concatenation -/
section rr
variable {V : Type} [DecidableEq V]

/-- **two sorted row lists denoting the same function have the same `removeRedundant` output**
(same initial value: any linear order) -/
theorem removeRedundant_eq_of_den (a : V) (s t : List (P × V)) (hs : Sorted s) (ht : Sorted t)
    (h : ∀ x, lim false a s x = lim false a t x) : removeRedundant a s = removeRedundant a t :=
  c12b_rr_eq_of_lim a s t hs ht h

/-- … possibly different initial values, both one-sided limits (any non-empty linear order) -/
theorem removeRedundant_eq_of_den2 [Nonempty P] (a b : V) (s t : List (P × V)) (hs : Sorted s) (ht : Sorted t)
    (h : ∀ st x, lim st a s x = lim st b t x) : a = b ∧ removeRedundant a s = removeRedundant b t :=
  c12b_rr_eq_of_lim2 a b s t hs ht h

/-- conversely the output denotes the same function, so: same output ⇔ same function -/
theorem removeRedundant_eq_iff_den (a : V) (s t : List (P × V)) (hs : Sorted s) (ht : Sorted t) :
    removeRedundant a s = removeRedundant a t ↔ ∀ st x, lim st a s x = lim st a t x := by
  constructor
  · intro h st x
    rw [← lim_removeRedundant st a s hs, ← lim_removeRedundant st a t ht, h]
  · intro h; exact c12b_rr_eq_of_lim a s t hs ht (h false)

/-- **monotone in length**: deleting rows cannot create genuine changes -/
theorem removeRedundant_length_mono (a : V) {s t : List (P × V)} (h : s.Sublist t) :
    (removeRedundant a s).length ≤ (removeRedundant a t).length := c12b_rr_length_mono h a

/-- **sandwich**: every row list between `removeRedundant a t` and `t` has the same minimal form -/
theorem removeRedundant_sandwich (a : V) (s t : List (P × V)) (ht : Sorted t)
    (h1 : (removeRedundant a t).Sublist s) (h2 : s.Sublist t) : removeRedundant a s = removeRedundant a t :=
  c12b_rr_sandwich t ht a s h1 h2

/-- **concatenation**: canonicalise the first part, then the second starting from the first part's last value -/
theorem removeRedundant_append (a : V) (s t : List (P × V)) :
    removeRedundant a (s ++ t) = removeRedundant a s ++ removeRedundant (c12bEnd a s) t := c12b_rr_append a s t

/-- in particular the minimal form of a prefix is a prefix of the minimal form -/
theorem removeRedundant_prefix (a : V) (s t : List (P × V)) :
    removeRedundant a s <+: removeRedundant a (s ++ t) := by
  rw [c12b_rr_append]; exact List.prefix_append _ _

end rr

/-- **REFUTED: monotonicity for the sub-list order.**  Dropping the first of two equal rows makes the second
one the genuine change -/
theorem removeRedundant_sublist_mono_false :
    ¬ ∀ (a : Val) (s t : List (Int × Val)), Sorted t → s.Sublist t →
        (removeRedundant a s).Sublist (removeRedundant a t) := by
  intro h
  have := h (some 0) [(2, some 1)] [(1, some 1), (2, some 1)] (by unfold Sorted; decide +kernel)
    (by decide +kernel)
  revert this
  decide +kernel

example : removeRedundant (some 0) ([(1, some 0), (2, some 3)] ++ [((3 : Int), some 3), (4, none)])
    = removeRedundant (some 0) [(1, some 0), (2, some 3)] ++ removeRedundant (some 3) [(3, some 3), (4, none)] ∧
    c12bEnd (some (0 : Rat)) [((1 : Int), some 0), (2, some 3)] = some 3 := by decide +kernel

/-! ## 4. zero steps, constants, `bool(f)` -/

theorem hasSteps_eq_false_iff (f : Stairs P) : f.hasSteps = false ↔ f.numberOfSteps = 0 := by
  cases h : f.steps <;> simp [hasSteps, numberOfSteps, h]

/-- zero steps ⇔ identical to the constant `f.init` (for ALL objects; the closed side is irrelevant) -/
theorem nsteps_zero_iff_identical_const (f : Stairs P) (cl : Side) :
    f.numberOfSteps = 0 ↔ identical f (const f.init cl) = true := by
  rw [f7b_identical_iff]
  cases h : f.steps <;> simp [numberOfSteps, const, h]

theorem nsteps_zero_iff_eq_const (f : Stairs P) : f.numberOfSteps = 0 ↔ f = const f.init f.closed := by
  rw [nsteps_zero_iff_identical_const f f.closed]
  exact ⟨fun h => f7b_eq_of_identical _ _ h rfl, fun h => by rw [← h]; exact C12.identical_refl f⟩

/-- **a canonical function has zero steps iff its denotation (both limits) is constant** – any linear order -/
theorem nsteps_zero_iff_const (f : Stairs P) (hf : f.Canonical) :
    f.numberOfSteps = 0 ↔ ∃ c, ∀ st x, Den f st x = c := by
  constructor
  · intro h
    have hs : f.steps = [] := List.eq_nil_of_length_eq_zero h
    exact ⟨f.init, fun st x => by unfold Den; rw [hs]; rfl⟩
  · rintro ⟨c, hc⟩
    cases hs : f.steps with
    | nil => simp [numberOfSteps, hs]
    | cons pv r =>
      exfalso
      obtain ⟨p, v⟩ := pv
      have h1 := hc true p
      have h2 := hc false p
      have hwf : Sorted ((p, v) :: r) := hs ▸ hf.1
      have hmin : Minimal f.init ((p, v) :: r) := hs ▸ hf.2
      unfold Den at h1 h2
      rw [hs] at h1 h2
      rw [c12b_lim_left_head f.init p v r p (le_refl _)] at h1
      rw [lim_at_head f.init p v r hwf] at h2
      exact hmin.1 (h2.trans h1.symm)

/-- … and the constant is the initial value -/
theorem nsteps_zero_iff_const_init (f : Stairs P) (hf : f.Canonical) :
    f.numberOfSteps = 0 ↔ ∀ st x, Den f st x = f.init := by
  constructor
  · intro h
    have hs : f.steps = [] := List.eq_nil_of_length_eq_zero h
    exact fun st x => by unfold Den; rw [hs]; rfl
  · intro h; exact (nsteps_zero_iff_const f hf).mpr ⟨f.init, h⟩

/-- right limits alone suffice when the order has no least element (the converse of `C12.constant_has_no_steps`) -/
theorem nsteps_zero_iff_const_right [NoMinOrder P] [Nonempty P] (f : Stairs P) (hf : f.Canonical) :
    f.numberOfSteps = 0 ↔ ∃ c, ∀ x, Den f false x = c := by
  constructor
  · intro h
    have hs : f.steps = [] := List.eq_nil_of_length_eq_zero h
    exact ⟨f.init, fun x => by unfold Den; rw [hs]; rfl⟩
  · rintro ⟨c, hc⟩; exact C12.constant_has_no_steps f hf c hc

/-- for a merely well-formed `f`: its CANONICAL FORM has zero steps iff `f` denotes a constant -/
theorem nsteps_canon_zero_iff_const (f : Stairs P) (hf : f.WF) :
    (canon f).numberOfSteps = 0 ↔ ∃ c, ∀ st x, Den f st x = c := by
  rw [nsteps_zero_iff_const _ (canonical_canon f hf)]
  simp only [den_canon f hf]

/-- the three characterisations together -/
theorem constant_tfae (f : Stairs P) (hf : f.Canonical) :
    (f.numberOfSteps = 0 ↔ ∃ c, ∀ st x, Den f st x = c) ∧
    (f.numberOfSteps = 0 ↔ identical f (const f.init f.closed) = true) ∧
    (f.numberOfSteps = 0 ↔ f.hasSteps = false) :=
  ⟨nsteps_zero_iff_const f hf, nsteps_zero_iff_identical_const f f.closed, (hasSteps_eq_false_iff f).symm⟩

/-- **REFUTED without canonicity**: a well-formed representation of the constant 1 with a (redundant) step:
`numberOfSteps ≠ 0`, `hasSteps`, `bool(f)` false, not identical to the constant – although it denotes it -/
theorem nsteps_zero_needs_canonical :
    ∃ f : Stairs Int, f.WF ∧ (∀ st x, Den f st x = some 1) ∧ f.numberOfSteps ≠ 0 ∧ f.hasSteps = true ∧
      Stairs.toBool f = false ∧ identical f (const (some 1) f.closed) = false ∧
      Stairs.toBool (canon f) = true := by
  refine ⟨⟨some 1, [(2, some 1)], .left⟩, by decide +kernel, ?_, by decide +kernel, by decide +kernel,
    by decide +kernel, by decide +kernel, by decide +kernel⟩
  intro st x
  simp [Den, lim]

/-- `bool(f)` is `identical` to the constant 1 (all objects) -/
theorem toBool_iff_identical (f : Stairs P) (cl : Side) :
    Stairs.toBool f = true ↔ identical f (const (some 1) cl) = true := by
  rw [f7b_identical_iff]
  simp [Stairs.toBool, const, List.isEmpty_iff]

/-- `bool` of the canonical form ⇔ the function is the constant 1 (both limits; any non-empty linear order) -/
theorem toBool_canon_iff [Nonempty P] (f : Stairs P) (hf : f.WF) :
    Stairs.toBool (canon f) = true ↔ ∀ st x, Den f st x = some 1 := by
  rw [toBool_iff_identical _ f.closed,
    show (const (some 1) f.closed : Stairs P) = canon (const (some 1) f.closed) from rfl,
    identical_canon_iff_den f _ hf (wf_const _ _)]
  rfl

theorem toBool_iff_den [Nonempty P] (f : Stairs P) (hf : f.Canonical) :
    Stairs.toBool f = true ↔ ∀ st x, Den f st x = some 1 := by
  have := toBool_canon_iff f hf.1
  rwa [canon_of_minimal f hf.2] at this

example : (canon fL).numberOfSteps = 3 ∧ Stairs.toBool (canon k₀) = true ∧ k₀.numberOfSteps = 0 := by
  decide +kernel

/-! ## 5. every operation only depends on the canonical forms of its inputs -/

/-- **the general two-operand path**: `combine op f g cl = combine op (canon f) (canon g) cl` -/
theorem combine_canon (op : Val → Val → Val) (f g : Stairs P) (cl : Side) (hf : f.WF) (hg : g.WF) :
    combine op (canon f) (canon g) cl = combine op f g cl := by
  apply f7b_ext _ _ (canonical_combine _ _ _ _ (wf_canon f hf) (wf_canon g hg))
    (canonical_combine _ _ _ _ hf hg) rfl
  intro o
  rw [f7b_obs_combine _ _ _ _ (wf_canon f hf) (wf_canon g hg), f7b_obs_combine _ _ _ _ hf hg,
    f7b_obs_canon f hf, f7b_obs_canon g hg]

theorem combine_canon_left (op : Val → Val → Val) (f g : Stairs P) (cl : Side) (hf : f.WF) (hg : g.WF) :
    combine op (canon f) g cl = combine op f g cl := by
  apply f7b_ext _ _ (canonical_combine _ _ _ _ (wf_canon f hf) hg) (canonical_combine _ _ _ _ hf hg) rfl
  intro o
  rw [f7b_obs_combine _ _ _ _ (wf_canon f hf) hg, f7b_obs_combine _ _ _ _ hf hg, f7b_obs_canon f hf]

theorem combine_canon_right (op : Val → Val → Val) (f g : Stairs P) (cl : Side) (hf : f.WF) (hg : g.WF) :
    combine op f (canon g) cl = combine op f g cl := by
  apply f7b_ext _ _ (canonical_combine _ _ _ _ hf (wf_canon g hg)) (canonical_combine _ _ _ _ hf hg) rfl
  intro o
  rw [f7b_obs_combine _ _ _ _ hf (wf_canon g hg), f7b_obs_combine _ _ _ _ hf hg, f7b_obs_canon g hg]

/-- the result only depends on the FUNCTIONS the operands denote (up to `identical`; equal when `cl = cl'`) -/
theorem combine_congr_den [Nonempty P] (op : Val → Val → Val) (f f' g g' : Stairs P) (cl cl' : Side)
    (hf : f.WF) (hf' : f'.WF) (hg : g.WF) (hg' : g'.WF)
    (h1 : ∀ st x, Den f st x = Den f' st x) (h2 : ∀ st x, Den g st x = Den g' st x) :
    identical (combine op f g cl) (combine op f' g' cl') = true := by
  rw [← combine_canon op f g cl hf hg, ← combine_canon op f' g' cl' hf' hg']
  exact combine_congr op _ _ _ _ cl cl' ((identical_canon_iff_den f f' hf hf').mpr h1)
    ((identical_canon_iff_den g g' hg hg').mpr h2)

/-- one-operand operations (for ALL inputs; `map` is `f7b_map_canon`) -/
theorem unop_canon (u : UnOp) (f : Stairs P) : unop u (canon f) = unop u f := f7b_map_canon _ f
theorem fillnaScalar_canon (f : Stairs P) (v : Val) : fillnaScalar (canon f) v = fillnaScalar f v :=
  f7b_map_canon _ f

theorem ffill_canon (f : Stairs P) : ffill (canon f) = ffill f := by
  unfold ffill canon
  simp only []
  congr 1
  exact f7b_rr_ffill_rr f.steps f.init f.init (Or.inr rfl)

theorem bfill_canon (f : Stairs P) : bfill (canon f) = bfill f := by
  have hi : fillOp f.init (firstVal (bfillSteps (removeRedundant f.init f.steps)))
      = fillOp f.init (firstVal (bfillSteps f.steps)) := by
    rw [firstVal_bfillSteps, firstVal_bfillSteps, f7b_firstSome_removeRedundant]
  unfold bfill canon
  simp only [hi]
  congr 1
  rw [firstVal_bfillSteps]
  exact c12b_rr_bfill_rr f.steps f.init

/-! ### the closed-side check looks at the REPRESENTATION (`hasSteps`) -/

theorem hasSteps_canon_imp (f : Stairs P) (h : (canon f).hasSteps = true) : f.hasSteps = true := by
  cases hs : f.steps with
  | nil => simp [hasSteps, canon, hs, removeRedundant] at h
  | cons pv r => simp [hasSteps, hs]

/-- for canonical (indeed minimal) objects nothing changes -/
theorem hasSteps_canon_of_minimal (f : Stairs P) (h : f.IsMinimal) : (canon f).hasSteps = f.hasSteps := by
  rw [canon_of_minimal f h]

/-- canonicalising the operands can only REMOVE a closed-side mismatch -/
theorem mismatch_canon_imp (f g : Stairs P) (h : Mismatch (canon f) (canon g)) : Mismatch f g :=
  ⟨hasSteps_canon_imp f h.1, hasSteps_canon_imp g h.2.1, h.2.2⟩

/-- **the checked two-operand path, operands closed alike**: EQUAL results (as `Except` values) -/
theorem combineChecked_canon_of_closed (op : Val → Val → Val) (f g : Stairs P) (hf : f.WF) (hg : g.WF)
    (hc : f.closed = g.closed) :
    combineChecked op (canon f) (canon g) = combineChecked op f g := by
  rw [f7b_same_ok op f g f.closed rfl hc.symm, f7b_same_ok op (canon f) (canon g) f.closed rfl hc.symm,
    combine_canon op f g _ hf hg]

/-- … also whenever canonicalisation does not remove all steps of an operand -/
theorem combineChecked_canon_of_hasSteps (op : Val → Val → Val) (f g : Stairs P) (hf : f.WF) (hg : g.WF)
    (h1 : (canon f).hasSteps = f.hasSteps) (h2 : (canon g).hasSteps = g.hasSteps) :
    combineChecked op (canon f) (canon g) = combineChecked op f g := by
  have hm : Mismatch (canon f) (canon g) ↔ Mismatch f g := by
    unfold Mismatch; rw [h1, h2]; rfl
  have hsd : sideOf (canon f) (canon g) = sideOf f g := by
    unfold sideOf; rw [h1, h2]; rfl
  rw [combineChecked_eq, combineChecked_eq, hsd, combine_canon op f g _ hf hg]
  by_cases h : Mismatch f g
  · rw [if_pos h, if_pos (hm.mpr h)]
  · rw [if_neg h, if_neg (fun h' => h (hm.mp h'))]

/-- **in general**: if the operation succeeds on `f, g` it succeeds on the canonical forms, with an
`identical` result (the closed side may differ, see `binop_canon_closed_differs`) -/
theorem combineChecked_canon_rel (op : Val → Val → Val) (f g h : Stairs P) (hf : f.WF) (hg : g.WF)
    (hr : combineChecked op f g = .ok h) :
    ∃ h', combineChecked op (canon f) (canon g) = .ok h' ∧ identical h h' = true := by
  have hm := f7b_not_mismatch_of_ok op f g h hr
  rw [combineChecked_total op f g hm] at hr
  injection hr with hr; subst hr
  refine ⟨_, combineChecked_total op _ _ (fun h' => hm (mismatch_canon_imp f g h')), ?_⟩
  rw [combine_canon op f g _ hf hg]
  exact combine_congr op f f g g _ _ (C12.identical_refl f) (C12.identical_refl g)

theorem binop_canon (o : BinOp) (f g : Stairs P) (hf : f.WF) (hg : g.WF) (hc : f.closed = g.closed) :
    binop o (canon f) (canon g) = binop o f g := combineChecked_canon_of_closed o.eval f g hf hg hc
theorem mask_canon (f g : Stairs P) (hf : f.WF) (hg : g.WF) (hc : f.closed = g.closed) :
    mask (canon f) (canon g) = mask f g := combineChecked_canon_of_closed maskOp f g hf hg hc
theorem where_canon (f g : Stairs P) (hf : f.WF) (hg : g.WF) (hc : f.closed = g.closed) :
    where_ (canon f) (canon g) = where_ f g := combineChecked_canon_of_closed whereOp f g hf hg hc
theorem fillnaStairs_canon (f g : Stairs P) (hf : f.WF) (hg : g.WF) (hc : f.closed = g.closed) :
    fillnaStairs (canon f) (canon g) = fillnaStairs f g := combineChecked_canon_of_closed fillOp f g hf hg hc
theorem binop_canon_rel (o : BinOp) (f g h : Stairs P) (hf : f.WF) (hg : g.WF) (hr : binop o f g = .ok h) :
    ∃ h', binop o (canon f) (canon g) = .ok h' ∧ identical h h' = true :=
  combineChecked_canon_rel o.eval f g h hf hg hr

/-- **REFUTED: `binop o f g = binop o (canon f) (canon g)`.**  `f` is a right-closed representation of the
constant 1 with a redundant step, `g` a left-closed step: `f + g` raises the closed-mismatch error, but the
canonical form of `f` has no steps, so `canon f + canon g` succeeds -/
theorem binop_canon_naive_false :
    ¬ ∀ (o : BinOp) (f g : Stairs Int), f.WF → g.WF → binop o (canon f) (canon g) = binop o f g := by
  intro h
  have := h .add ⟨some 1, [(2, some 1)], .right⟩ ⟨some 0, [(1, some 1)], .left⟩
    (by decide +kernel) (by decide +kernel)
  revert this
  decide +kernel

/-- … and even when both succeed the closed side of the result can differ -/
theorem binop_canon_closed_differs :
    ∃ (f g h h' : Stairs Int), f.WF ∧ g.WF ∧ binop .add f g = .ok h ∧
      binop .add (canon f) (canon g) = .ok h' ∧ h ≠ h' ∧ identical h h' = true :=
  ⟨⟨some 1, [], .left⟩, ⟨some 1, [(2, some 1)], .right⟩, ⟨some 2, [], .right⟩, ⟨some 2, [], .left⟩,
   by decide +kernel⟩

/-- `clip`: full equality (bounds check included) -/
theorem clip_canon (f : Stairs P) (lo hi : Option P) (hf : f.WF) : clip (canon f) lo hi = clip f lo hi := by
  by_cases hb : boundsOk lo hi = true
  · rw [clip_ok _ _ _ hb, clip_ok _ _ _ hb]
    show Except.ok (combine whereOp (canon f) (indicator lo hi f.closed) f.closed) = _
    rw [combine_canon_left _ f _ _ hf (wf_indicator lo hi f.closed hb)]
  · have hb' : boundsOk lo hi = false := by simpa using hb
    rw [clip_error _ _ _ hb', clip_error _ _ _ hb']

theorem whereTuple_canon (f : Stairs P) (lo hi : Option P) (hf : f.WF) :
    whereTuple (canon f) lo hi = whereTuple f lo hi := clip_canon f lo hi hf

theorem maskTuple_canon (f : Stairs P) (lo hi : Option P) (hf : f.WF) :
    maskTuple (canon f) lo hi = maskTuple f lo hi := by
  show combine maskOp (canon f) (layerIndicator lo hi f.closed) f.closed = _
  exact combine_canon_left _ f _ _ hf (wf_layerIndicator lo hi f.closed)

/-- `layer` with at least one triple -/
theorem layer1_canon (f : Stairs P) (t : Triple P) (hf : f.WF) : layer1 (canon f) t = layer1 f t := by
  show combine vadd (combine vadd (canon f) (startRay t.start t.value f.closed) f.closed)
      (stopRay t.stop (-t.value) f.closed) f.closed = _
  rw [combine_canon_left _ f _ _ hf (wf_startRay _ _ _)]
  rfl

theorem layer_canon (f : Stairs P) (ts : List (Triple P)) (hf : f.WF) (hts : ts ≠ []) :
    layer (canon f) ts = layer f ts := by
  cases ts with
  | nil => exact absurd rfl hts
  | cons t r => rw [layer_cons, layer_cons, layer1_canon f t hf]

/-- **REFUTED: `shift` and the empty `layer` call do NOT canonicalise** (they return the rows they are given),
so "every operation returns canonical objects on well-formed inputs" fails for them; what holds is that they
commute with `canon` (`C20c.shift_canon`, `C17.canon_mapPoints`) -/
theorem shift_not_canonicalising :
    ∃ (f : Stairs Int) (d : Int), f.WF ∧ ¬ (shift f d).Canonical ∧ shift (canon f) d ≠ shift f d :=
  ⟨⟨some 1, [(2, some 1), (3, some 4)], .left⟩, 5, by decide +kernel⟩

theorem layer_nil_not_canonicalising :
    ∃ (f : Stairs Int), f.WF ∧ ¬ (layer f []).Canonical ∧ layer (canon f) [] ≠ layer f [] :=
  ⟨⟨some 1, [(2, some 1), (3, some 4)], .left⟩, by decide +kernel⟩

/-- `diff` never mismatches (`f` and `f.shift(d)` are closed alike and have steps together), so here the
canonical form may be taken freely -/
theorem diff_canon {P : Type} [LinearOrder P] [AddCommGroup P] [IsOrderedAddMonoid P] (f : Stairs P) (d : P)
    (hf : f.WF) : diff (canon f) d = diff f d := by
  unfold diff
  have h : shift (canon f) d = canon (shift f d) := by
    simp only [shift, canon]
    congr 1
    generalize f.init = a
    induction f.steps generalizing a with
    | nil => rfl
    | cons pv r ih =>
      obtain ⟨p, v⟩ := pv
      simp only [removeRedundant, List.map_cons]
      split
      · exact ih a
      · simp [ih v]
  rw [h]
  exact binop_canon .sub f (shift f d) hf (wf_shift f d hf) rfl

/-! ### consequently: results only depend on the functions the (well-formed) operands denote -/

theorem unop_congr_den [Nonempty P] (u : UnOp) (f f' : Stairs P) (hf : f.WF) (hf' : f'.WF)
    (h : ∀ st x, Den f st x = Den f' st x) : identical (unop u f) (unop u f') = true := by
  rw [← unop_canon u f, ← unop_canon u f']
  exact unop_congr u _ _ ((identical_canon_iff_den f f' hf hf').mpr h)

theorem ffill_congr_den [Nonempty P] (f f' : Stairs P) (hf : f.WF) (hf' : f'.WF)
    (h : ∀ st x, Den f st x = Den f' st x) : identical (ffill f) (ffill f') = true := by
  rw [← ffill_canon f, ← ffill_canon f']
  exact ffill_congr _ _ ((identical_canon_iff_den f f' hf hf').mpr h)

theorem bfill_congr_den [Nonempty P] (f f' : Stairs P) (hf : f.WF) (hf' : f'.WF)
    (h : ∀ st x, Den f st x = Den f' st x) : identical (bfill f) (bfill f') = true := by
  rw [← bfill_canon f, ← bfill_canon f']
  exact bfill_congr _ _ ((identical_canon_iff_den f f' hf hf').mpr h)

theorem clip_congr_den [Nonempty P] (f f' : Stairs P) (lo hi : Option P) (hf : f.WF) (hf' : f'.WF)
    (h : ∀ st x, Den f st x = Den f' st x) : IdenticalE (clip f lo hi) (clip f' lo hi) := by
  rw [← clip_canon f lo hi hf, ← clip_canon f' lo hi hf']
  exact clip_congr _ _ lo hi ((identical_canon_iff_den f f' hf hf').mpr h)

theorem layer_congr_den [Nonempty P] (f f' : Stairs P) (ts : List (Triple P)) (hts : ts ≠ []) (hf : f.WF)
    (hf' : f'.WF) (h : ∀ st x, Den f st x = Den f' st x) : identical (layer f ts) (layer f' ts) = true := by
  rw [← layer_canon f ts hf hts, ← layer_canon f' ts hf' hts]
  exact layer_congr ts _ _ ((identical_canon_iff_den f f' hf hf').mpr h)

/-- the checked two-operand path on operands that denote the same functions: identical results when both succeed -/
theorem combineChecked_congr_den_ok [Nonempty P] (op : Val → Val → Val) (f f' g g' h h' : Stairs P)
    (hf : f.WF) (hf' : f'.WF) (hg : g.WF) (hg' : g'.WF)
    (h1 : ∀ st x, Den f st x = Den f' st x) (h2 : ∀ st x, Den g st x = Den g' st x)
    (hr : combineChecked op f g = .ok h) (hr' : combineChecked op f' g' = .ok h') : identical h h' = true := by
  rw [combineChecked_eq] at hr hr'
  split at hr
  · cases hr
  · split at hr'
    · cases hr'
    · injection hr with hr; injection hr' with hr'
      subst hr; subst hr'
      exact combine_congr_den op f f' g g' _ _ hf hf' hg hg' h1 h2

example : identical (unop .neg r₀) (unop .neg r₁) = true ∧ identical (bfill r₀) (bfill r₁) = true ∧
    identical (layer r₀ [⟨none, some 3, 2⟩]) (layer r₁ [⟨none, some 3, 2⟩]) = true := by decide +kernel

/-! ### collections -/

/-- the rows `aggregate` builds only depend on the canonical forms of the members -/
theorem aggRaw_canon (F : AggFn) (ms : List (Stairs P)) (cl : Side) (hms : ∀ m ∈ ms, m.WF) :
    canon (aggRaw F (ms.map canon) cl) = canon (aggRaw F ms cl) := by
  have hms' : ∀ m ∈ ms.map canon, m.WF := by
    intro m hm
    obtain ⟨m₀, hm₀, rfl⟩ := List.mem_map.mp hm
    exact wf_canon m₀ (hms m₀ hm₀)
  apply f7b_ext _ _ (canonical_canon _ (wf_aggRaw F _ cl hms')) (canonical_canon _ (wf_aggRaw F ms cl hms)) rfl
  intro o
  rw [f7b_obs_canon _ (wf_aggRaw F _ cl hms'), f7b_obs_canon _ (wf_aggRaw F ms cl hms)]
  cases o with
  | init =>
    show F.eval ((ms.map canon).map (·.init)) = F.eval (ms.map (·.init))
    rw [List.map_map]; rfl
  | «at» st x =>
    show Den (aggRaw F (ms.map canon) cl) st x = Den (aggRaw F ms cl) st x
    rw [den_aggRaw F _ cl hms', den_aggRaw F ms cl hms, List.map_map]
    congr 1
    apply List.map_congr_left
    intro m hm
    exact den_canon m (hms m hm) st x

/-- members closed alike: EQUAL results -/
theorem aggregate_canon_same_closed (F : AggFn) (ms : List (Stairs P)) (cl : Side) (hms : ∀ m ∈ ms, m.WF)
    (hc : ∀ m ∈ ms, m.closed = cl) : aggregate F (ms.map canon) = aggregate F ms := by
  cases ms with
  | nil => rfl
  | cons m r =>
    rw [aggregate_same_closed F (m :: r) cl (by simp) hc,
      aggregate_same_closed F ((m :: r).map canon) cl (by simp) (by
        intro x hx
        obtain ⟨x₀, hx₀, rfl⟩ := List.mem_map.mp hx
        exact hc x₀ hx₀),
      aggRaw_canon F (m :: r) cl hms]

/-- canonicalising the members can only remove a closed-side mismatch -/
theorem closedOfMembers_canon_ok (ms : List (Stairs P)) (cl : Side) (h : closedOfMembers ms = .ok cl) :
    ∃ cl', closedOfMembers (ms.map canon) = .ok cl' := by
  have hsub : ∀ x ∈ (ms.map canon).filter (·.hasSteps), ∃ x₀ ∈ ms.filter (·.hasSteps), x.closed = x₀.closed := by
    intro x hx
    obtain ⟨hx1, hx2⟩ := List.mem_filter.mp hx
    obtain ⟨x₀, hx₀, rfl⟩ := List.mem_map.mp hx1
    exact ⟨x₀, List.mem_filter.mpr ⟨hx₀, hasSteps_canon_imp x₀ hx2⟩, rfl⟩
  rcases a18b_closedOfMembers_cases (ms.map canon) with ⟨_, h'⟩ | ⟨m', r', hfl', ⟨_, h'⟩ | ⟨hn, _⟩⟩
  · exact ⟨_, h'⟩
  · exact ⟨_, h'⟩
  · exfalso
    rcases a18b_closedOfMembers_cases ms with ⟨hnil, _⟩ | ⟨m, r, hfl, ⟨hall, _⟩ | ⟨_, he⟩⟩
    · obtain ⟨x₀, hx₀, _⟩ := hsub m' (by rw [hfl']; simp)
      rw [hnil] at hx₀; cases hx₀
    · apply hn
      intro x hx
      obtain ⟨x₀, hx₀, e⟩ := hsub x (by rw [hfl']; exact hx)
      obtain ⟨y₀, hy₀, e'⟩ := hsub m' (by rw [hfl']; simp)
      rw [hfl] at hx₀ hy₀
      rw [e, e', hall x₀ hx₀, hall y₀ hy₀]
    · rw [he] at h; cases h

/-- **in general**: if `aggregate` succeeds on the members it succeeds on their canonical forms, with an
`identical` result -/
theorem aggregate_canon_rel (F : AggFn) (ms : List (Stairs P)) (h : Stairs P) (hms : ∀ m ∈ ms, m.WF)
    (hr : aggregate F ms = .ok h) :
    ∃ h', aggregate F (ms.map canon) = .ok h' ∧ identical h h' = true := by
  obtain ⟨cl, hcl, rfl⟩ := aggregate_ok F ms h hr
  obtain ⟨cl', hcl'⟩ := closedOfMembers_canon_ok ms cl hcl
  refine ⟨canon (aggRaw F (ms.map canon) cl'), by rw [aggregate_eq, hcl']; rfl, ?_⟩
  rw [aggRaw_canon F ms cl' hms]
  simp [identical, canon, aggRaw]

/-- **REFUTED: `aggregate F ms = aggregate F (ms.map canon)`** – same reason as for `binop` -/
theorem aggregate_canon_naive_false :
    ¬ ∀ (F : AggFn) (ms : List (Stairs Int)), (∀ m ∈ ms, m.WF) →
        aggregate F (ms.map canon) = aggregate F ms := by
  intro h
  have := h .sum [⟨some 1, [(2, some 1)], .right⟩, ⟨some 0, [(1, some 1)], .left⟩] (by decide +kernel)
  revert this
  decide +kernel

/-! non-vacuity: `r₀`, `r₁` are well-formed, not canonical -/
def r₂ : Stairs Int := ⟨some 2, [(1, some 2), (2, some 0), (7, some 0)], .left⟩
example : r₂.WF ∧ ¬ r₂.Canonical ∧ r₀.closed = r₂.closed := by decide +kernel
example : binop .mul (canon r₀) (canon r₂) = binop .mul r₀ r₂ ∧
    binop .mul r₀ r₂ = .ok ⟨some 2, [(2, some 0), (5, none)], .left⟩ := by decide +kernel
example : clip (canon r₀) (some 1) (some 4) = clip r₀ (some 1) (some 4) ∧
    clip r₀ (some 1) (some 4) = .ok ⟨none, [(1, some 1), (2, some 4), (4, none)], .left⟩ := by decide +kernel
example : bfill (canon r₀) = bfill r₀ ∧ ffill (canon r₀) = ffill r₀ ∧
    ffill r₀ = ⟨some 1, [(2, some 4)], .left⟩ := by decide +kernel
example : layer (canon r₀) [⟨some 0, some 2, 3⟩] = layer r₀ [⟨some 0, some 2, 3⟩] := by decide +kernel
example : aggregate .max ([r₀, r₂].map canon) = aggregate .max [r₀, r₂] ∧
    aggregate .max [r₀, r₂] = .ok ⟨some 2, [(2, some 4), (5, none)], .left⟩ := by decide +kernel
example : diff (canon r₀) 1 = diff r₀ 1 := by decide +kernel
example : mask r₁ r₀ = .error .closedMismatch ∧
    mask (canon r₁) (canon r₀) = .error .closedMismatch := by decide +kernel

end SC.Props.C12b
