import SCModel.Generated.Tables
import SCModel.Model.Slicing
import SCModel.Model.World
import SCModel.Model.Forms
import Mathlib.Data.Int.Order.Basic
/-!
# SCModel.Props.Tie — the tables regenerated from the source equal the model's tables

`SCModel/Generated/Tables.lean` is rewritten from /repo's current source on every run
(tools/extract_tables.py).  Each theorem here re-checks one of the model's finite decision tables against
what the code says *now*, for all rows, without sampling.  A source edit that changes a table breaks the
corresponding theorem (the build of this file), which sends the check into its failing-input search.
-/
namespace SC.Props.Tie
open SC SC.Stairs

/-- C10: `util._get_lims` – (function closed, interval closed) ↦ bisect sides – all 8 rows -/
theorem tie_getLims : ∀ s c, Generated.getLims s c = getLims s c := by
  intro s c; cases s <;> cases c <;> rfl

/-- C03: `sampling.sample` – which one-sided limit is the value at a point -/
theorem tie_sampleSide : ∀ s, Generated.sampleSide s = sampleSide s := by
  intro s; cases s <;> rfl

/-- C11: `StairsSlicer.max/min` – which endpoint is added by sampling – all 8 rows -/
theorem tie_slicerEndpoint : ∀ s c, Generated.slicerEndpoint s c = slicerEndpoint s c := by
  intro s c; cases s <;> cases c <;> rfl

/-- C11: … and the combination ignores undefined values, like the model's `fmaxV` / `fminV` -/
theorem tie_slicerCombine : Generated.slicerCombineIgnoresNaN = true ∧
    (∀ a, fmaxV a none = a) ∧ (∀ b, fmaxV none b = b) ∧ (∀ a, fminV a none = a) ∧ (∀ b, fminV none b = b) := by
  refine ⟨rfl, ?_, ?_, ?_, ?_⟩ <;> intro a <;> cases a <;> rfl

/-- concrete representative of each abstract scalar -/
def conc : Generated.Tri → Val
  | .nan => none
  | .zero => some 0
  | .nonzero => some (-5/2)

/-- C05: the scalar truth tables used for initial values equal the model's pointwise operators -/
theorem tie_scalarLogic : ∀ a b,
    Generated.scalarAnd a b = vlogic .and (conc a) (conc b) ∧
    Generated.scalarOr a b = vlogic .or (conc a) (conc b) ∧
    Generated.scalarXor a b = vlogic .xor (conc a) (conc b) := by
  intro a b; cases a <;> cases b <;> decide +kernel

/-- the model's logical operators only look at truthiness, so one non-zero representative suffices -/
theorem vlogic_truthiness (l : Logic) (x y x' y' : Rat) (hx : (x = 0 ↔ x' = 0)) (hy : (y = 0 ↔ y' = 0)) :
    vlogic l (some x) (some y) = vlogic l (some x') (some y') := by
  have h1 : truth x = truth x' := by simp [truth, hx]
  have h2 : truth y = truth y' := by simp [truth, hy]
  simp [vlogic, h1, h2]

/-- C15: `_assert_closeds_equal` raises exactly when both operands have steps and their sides differ -/
theorem tie_mismatchCond : ∀ s1 c1 s2 c2,
    Generated.mismatchCond s1 c1 s2 c2 = (s1 && s2 && (c1 != c2)) := by
  intro s1 c1 s2 c2; cases s1 <;> cases c1 <;> cases s2 <;> cases c2 <;> rfl

/-- C15: every internal constructor call passes `closed=` (or is on the reviewed allow-list) -/
theorem tie_ctorCensus : Generated.ctorCallsWithoutClosed = [] := by decide

/-- C06: `clip` keeps the step points `p` with `lower ≤ …` / `p < upper`: bisect-right for the lower bound,
bisect-left for the upper bound – the window `lower ≤ x < upper` of the model's right limits -/
theorem tie_clipSides : Generated.clipSides = (Side.right, Side.left) := by decide

/-- C14: `layer` does nothing before resetting the caches except returning an everywhere-undefined receiver
unchanged, and the reset clears both caches – the statement order `Obj.layer` encodes -/
theorem tie_layerPrefix :
    Generated.layerPrefix = [.returnSelfIfAllUndefined, .clearCache] ∧
    Generated.clearCacheResetsDist = true ∧ Generated.clearCacheResetsIntegralAndMean = true := by decide

/-- C16/C03: the two conversions between the internal forms – `_make_deltas_from_vals` on every canonical
value column and `_make_vals_from_deltas` on every change column with ≤ 3 rows over {NaN, 0, 1, 3} – evaluated
from the source, equal the model's `deltasFromVals` / `valsFromDeltas` (`Model/Forms.lean`) -/
theorem tie_formConversions :
    (∀ c ∈ Generated.deltasFromValsCases, deltasFromVals c.1 c.2.1 = c.2.2) ∧
    (∀ c ∈ Generated.valsFromDeltasCases, valsFromDeltas c.1 c.2.1 = c.2.2) := by
  constructor <;> decide +kernel

/-- C12: `_remove_redundant_step_points` (value path) on every value column with ≤ 3 rows over {NaN, 0, 1} and every
initial value keeps exactly the rows the model's `removeRedundant` keeps -/
theorem tie_removeViaValues :
    ∀ c ∈ Generated.removeViaValuesCases,
      (removeRedundant c.1 ((List.range c.2.1.length).zip c.2.1)).map Prod.fst = c.2.2 := by
  decide +kernel

/-- C12/C16: … and the step-change path keeps exactly the rows `removeRedundantDeltas` (`Model/Forms.lean`) keeps -/
theorem tie_removeViaDeltas :
    ∀ c ∈ Generated.removeViaDeltasCases,
      (removeRedundantDeltas ((List.range c.1.length).zip c.1)).map Prod.fst = c.2 := by
  decide +kernel

/-- C06: `_maskify` turns a masker value into "masked" (NaN) or "kept" (0) exactly as the model's `maskOp` /
`whereOp` decide, for step values and for the initial value alike -/
theorem tie_maskify : ∀ t,
    Generated.maskify false t = (maskOp (some 0) (conc t), maskOp (some 0) (conc t)) ∧
    Generated.maskify true t = (whereOp (some 0) (conc t), whereOp (some 0) (conc t)) := by
  intro t; cases t <;> decide +kernel

/-- C02: the scalar path of `layer` (in-place update of the step-change series, zero entries dropped, initial
value bumped for a missing start, `start == end` early return) run on all 1216 small receiver × call
combinations produces exactly what the model's `layerScalarDeltas` (`Model/Forms.lean`) produces -/
theorem tie_layerScalar :
    ∀ chunk ∈ Generated.layerScalarCases, ∀ c ∈ chunk,
      let d := layerScalarDeltas (⟨c.1.1, c.1.2.1, .left⟩ : DStairs Int) c.1.2.2.1 c.1.2.2.2.1 c.1.2.2.2.2
      (d.init, d.deltas) = c.2 := by
  decide +kernel

end SC.Props.Tie
